(* LybChunkP.v - proofs about the LYB chunk layer model (LybChunk.v).

   Main result: lyb_chunk_roundtrip_gen / lyb_chunk_roundtrip - the reader run on the output of the
   writer with the same shape returns the written payloads, for scripts of any length, nesting and
   payload sizes. The writer back-patches the chunk sizes, so the bytes the reader sees at a hole are
   fixed only later. The proof is a simulation in which the content of the still open holes is
   universally quantified (a prophecy h': any sizes between the bytes already counted and
   LYB_SIZE_MAX): every writer step W -> W' satisfies

     forall h' ok for W', exists h ok for W and tail,
        fill W' h' = fill W h ++ tail  /\  the reader step from (rview W h) on tail ends in (rview W' h')

   where fill puts the prophecy into the open holes and rview is the reader's stack seen from the
   writer's one (remaining = prophesied size - written, follow-up flag = size is LYB_SIZE_MAX).
   Such steps compose, and at the end of a well-bracketed script no hole is open.
   All proofs are parametric in the constants (Section with MAX > 0 and the two facts about the
   2-byte little-endian size field); consts_ok instantiates them for src/lyb.h by computation. *)
From LY Require Import Base LybChunk.
From LY.Gen Require Consts.
From Coq Require Import ZifyBool ZifyNat ZifyN.
Local Open Scope N_scope.

(* ------------------------------------------------------------------------------------------ *)
(* lists, take, patch, little endian                                                           *)
(* ------------------------------------------------------------------------------------------ *)
Lemma take_app (a b : bytes) : take (length a) (a ++ b) = Some (a, b).
Proof. induction a as [|x a IH]; cbn [take length app]; [reflexivity|]. rewrite IH. reflexivity. Qed.

Lemma take_spec n l a b : take n l = Some (a, b) -> l = a ++ b /\ length a = n.
Proof.
  revert l a b; induction n as [|n IH]; intros l a b H; cbn [take] in H.
  - inversion H; subst. split; reflexivity.
  - destruct l as [|x l]; [discriminate|].
    destruct (take n l) as [[a' b']|] eqn:E; [|discriminate].
    inversion H; subst. destruct (IH _ _ _ E) as [-> <-]. split; reflexivity.
Qed.

Lemma le_bytes_length k n : length (le_bytes k n) = k.
Proof. revert n; induction k as [|k IH]; intro n; cbn [le_bytes length]; [reflexivity|]. rewrite IH. reflexivity. Qed.

Lemma le_val_le_bytes k n : le_val (le_bytes k n) = n mod 2 ^ (8 * N.of_nat k).
Proof.
  revert n; induction k as [|k IH]; intro n; cbn [le_bytes le_val].
  - cbn. rewrite N.mod_1_r. reflexivity.
  - rewrite IH.
    replace (8 * N.of_nat (S k)) with (8 + 8 * N.of_nat k) by lia.
    rewrite N.pow_add_r. change (2 ^ 8) with 256.
    rewrite N.mod_mul_r; [reflexivity|lia|].
    apply N.pow_nonzero. lia.
Qed.

Lemma patch_length p a l : (p + length a <= length l)%nat -> length (patch p a l) = length l.
Proof.
  intro H. unfold patch. rewrite !app_length, firstn_length, skipn_length. lia.
Qed.

Lemma patch_app_l p a l t : (p + length a <= length l)%nat -> patch p a (l ++ t) = patch p a l ++ t.
Proof.
  intro H. unfold patch.
  rewrite firstn_app, skipn_app.
  replace (p - length l)%nat with O by lia.
  replace (p + length a - length l)%nat with O by lia.
  cbn [firstn skipn]. rewrite app_nil_r, <- !app_assoc. reflexivity.
Qed.

Lemma patch_mid (l1 l2 r a : bytes) :
  length l2 = length a -> patch (length l1) a (l1 ++ l2 ++ r) = l1 ++ a ++ r.
Proof.
  intro H. unfold patch.
  rewrite firstn_app, Nat.sub_diag, firstn_all. cbn [firstn]. rewrite app_nil_r.
  rewrite skipn_app, skipn_all2 by lia.
  replace (length l1 + length a - length l1)%nat with (length l2) by lia.
  rewrite skipn_app, skipn_all, Nat.sub_diag. cbn [skipn app]. reflexivity.
Qed.

Lemma patch_end (l z a : bytes) : length z = length a -> patch (length l) a (l ++ z) = l ++ a.
Proof.
  intro H. rewrite <- (app_nil_r z). rewrite patch_mid by exact H. rewrite app_nil_r. reflexivity.
Qed.

Lemma split3 (l : bytes) p n :
  (p + n <= length l)%nat ->
  exists l1 l2 l3, l = l1 ++ l2 ++ l3 /\ length l1 = p /\ length l2 = n.
Proof.
  intro H. exists (firstn p l), (firstn n (skipn p l)), (skipn n (skipn p l)).
  rewrite !firstn_skipn. rewrite !firstn_length, skipn_length. repeat split; lia.
Qed.

Lemma patch_comm p a q b l :
  (p + length a <= q)%nat -> (q + length b <= length l)%nat ->
  patch p a (patch q b l) = patch q b (patch p a l).
Proof.
  intros H1 H2.
  destruct (split3 l q (length b) H2) as (L & l4 & l5 & -> & HL & H4).
  assert (H3 : (p + length a <= length L)%nat) by lia.
  destruct (split3 L p (length a) H3) as (l1 & l2 & l3 & -> & Hl1 & Hl2).
  assert (E1 : patch q b ((l1 ++ l2 ++ l3) ++ l4 ++ l5) = (l1 ++ l2 ++ l3) ++ b ++ l5).
  { rewrite <- HL. apply patch_mid. exact H4. }
  rewrite E1.
  assert (E2 : forall x, patch p a ((l1 ++ l2 ++ l3) ++ x) = (l1 ++ a ++ l3) ++ x).
  { intro x. rewrite <- !app_assoc. rewrite <- Hl1. rewrite patch_mid by exact Hl2.
    reflexivity. }
  rewrite !E2.
  replace q with (length (l1 ++ a ++ l3)).
  - rewrite patch_mid by exact H4. reflexivity.
  - rewrite <- HL. rewrite !app_length. lia.
Qed.

(* ------------------------------------------------------------------------------------------ *)
(* elements addressed by their C index                                                         *)
(* ------------------------------------------------------------------------------------------ *)
Lemma map_levels_below f (g : sib -> sib) l :
  (forall u t, (u < length l)%nat -> f u t = g t) -> map_levels f l = map g l.
Proof.
  induction l as [|s l IH]; intro H; cbn [map_levels map]; [reflexivity|].
  rewrite H by (cbn [length]; lia). rewrite IH; [reflexivity|].
  intros u t Hu. apply H. cbn [length]. lia.
Qed.

Lemma map_levels_app f A B :
  map_levels f (A ++ B) = map_levels (fun u => f (u + length B)%nat) A ++ map_levels f B.
Proof.
  induction A as [|s A IH]; cbn [map_levels app]; [reflexivity|].
  rewrite IH, app_length. reflexivity.
Qed.

Lemma exists_level_below f (g : sib -> bool) l :
  (forall u t, (u < length l)%nat -> f u t = g t) -> exists_level f l = existsb g l.
Proof.
  induction l as [|s l IH]; intro H; cbn [exists_level existsb]; [reflexivity|].
  rewrite H by (cbn [length]; lia). rewrite IH; [reflexivity|].
  intros u t Hu. apply H. cbn [length]. lia.
Qed.

Lemma exists_level_app f A B :
  exists_level f (A ++ B) = exists_level (fun u => f (u + length B)%nat) A || exists_level f B.
Proof.
  induction A as [|s A IH]; cbn [exists_level app orb]; [reflexivity|].
  rewrite IH, app_length, orb_assoc. reflexivity.
Qed.

Lemma get_level_mid inner s outer : get_level (inner ++ s :: outer) (length outer) = Some s.
Proof.
  induction inner as [|t inner IH]; cbn [get_level app].
  - rewrite Nat.eqb_refl. reflexivity.
  - rewrite app_length. cbn [length].
    destruct (Nat.eqb (length inner + S (length outer)) (length outer)) eqn:E; [|exact IH].
    apply Nat.eqb_eq in E. lia.
Qed.

Lemma map_levels_set k x inner s outer :
  length outer = k ->
  map_levels (fun u t => if Nat.eqb u k then x else t) (inner ++ s :: outer) = inner ++ x :: outer.
Proof.
  intro Hk. rewrite map_levels_app. cbn [map_levels]. rewrite Hk, Nat.eqb_refl.
  rewrite (map_levels_below _ (fun t => t) outer), map_id.
  - rewrite (map_levels_below _ (fun t => t) inner), map_id; [reflexivity|].
    intros u t _. cbn [length]. destruct (Nat.eqb (u + S (length outer)) k) eqn:E; [|reflexivity].
    apply Nat.eqb_eq in E. lia.
  - intros u t Hu. destruct (Nat.eqb u k) eqn:E; [|reflexivity]. apply Nat.eqb_eq in E. lia.
Qed.

Lemma map_levels_outer k (g : sib -> sib) inner s outer :
  length outer = k ->
  map_levels (fun u t => if Nat.ltb u k then g t else t) (inner ++ s :: outer) = inner ++ s :: map g outer.
Proof.
  intro Hk. rewrite map_levels_app. cbn [map_levels]. rewrite Hk, Nat.ltb_irrefl.
  rewrite (map_levels_below _ g outer).
  - rewrite (map_levels_below _ (fun t => t) inner), map_id; [reflexivity|].
    intros u t _. cbn [length]. destruct (Nat.ltb (u + S (length outer)) k) eqn:E; [|reflexivity].
    apply Nat.ltb_lt in E. lia.
  - intros u t Hu. destruct (Nat.ltb u k) eqn:E; [reflexivity|]. apply Nat.ltb_ge in E. lia.
Qed.

Lemma exists_level_outer k (g : sib -> bool) inner s outer :
  length outer = k ->
  exists_level (fun u t => Nat.ltb u k && g t) (inner ++ s :: outer) = existsb g outer.
Proof.
  intro Hk. rewrite exists_level_app. cbn [exists_level]. rewrite Hk, Nat.ltb_irrefl. cbn [andb orb].
  rewrite (exists_level_below _ g outer).
  - rewrite (exists_level_below _ (fun _ => false) inner).
    + replace (existsb (fun _ : sib => false) inner) with false; [reflexivity|].
      clear. induction inner as [|t l IH]; cbn [existsb orb]; [reflexivity|exact IH].
    + intros u t _. cbn [length]. destruct (Nat.ltb (u + S (length outer)) k) eqn:E; [|reflexivity].
      apply Nat.ltb_lt in E. lia.
  - intros u t Hu. destruct (Nat.ltb u k) eqn:E; [reflexivity|]. apply Nat.ltb_ge in E. lia.
Qed.

Lemma add_written_0 l : map (add_written 0) l = l.
Proof.
  induction l as [|[w p i] l IH]; cbn [map]; [reflexivity|].
  rewrite IH. unfold add_written. cbn [written position inner_chunks]. rewrite N.add_0_r. reflexivity.
Qed.

Lemma sub_written_0 l : map (sub_written 0) l = l.
Proof.
  induction l as [|[w p i] l IH]; cbn [map]; [reflexivity|].
  rewrite IH. unfold sub_written, sub64. cbn [written position inner_chunks].
  destruct (0 <=? w) eqn:E; [|lia]. rewrite N.sub_0_r. reflexivity.
Qed.

Lemma Forall2_len {A B} (R : A -> B -> Prop) l l' : Forall2 R l l' -> length l = length l'.
Proof. induction 1; cbn [length]; congruence. Qed.

Lemma Forall2_cons_inv_l {A B} (R : A -> B -> Prop) a l l' :
  Forall2 R (a :: l) l' -> exists b l'', R a b /\ Forall2 R l l'' /\ l' = b :: l''.
Proof. intro H. inversion H; subst. eauto. Qed.

Lemma Forall2_impl' {A B} (R1 R2 : A -> B -> Prop) :
  (forall a b, R1 a b -> R2 a b) -> forall l l', Forall2 R1 l l' -> Forall2 R2 l l'.
Proof. intros H l l'. induction 1; constructor; auto. Qed.

(* ------------------------------------------------------------------------------------------ *)
Section Proofs.
Variables MAX SB IMAX IB META : N.
Hypothesis Hmax : 0 < MAX.
Hypothesis Hmask : forall w, w <= MAX -> N.land w MAX = w.
Hypothesis Hfit : MAX < 2 ^ (8 * SB).
Hypothesis Hmeta : META = SB + IB.

Local Notation meta_of := (LybChunk.meta_of MAX SB IMAX IB).
Local Notation meta_bytes := (LybChunk.meta_bytes MAX SB IMAX IB).
Local Notation write_sibling_meta := (LybChunk.write_sibling_meta MAX SB IMAX IB).
Local Notation hole := (LybChunk.hole META).
Local Notation wscan := (LybChunk.wscan MAX).
Local Notation loop_fuel := (LybChunk.loop_fuel MAX).
Local Notation write_loop := (LybChunk.write_loop MAX SB IMAX IB META).
Local Notation lyb_write := (LybChunk.lyb_write MAX SB IMAX IB META).
Local Notation lyb_write_start_siblings := (LybChunk.lyb_write_start_siblings IMAX META).
Local Notation lyb_write_stop_siblings := (LybChunk.lyb_write_stop_siblings MAX SB IMAX IB).
Local Notation write_op := (LybChunk.write_op MAX SB IMAX IB META).
Local Notation run_write_from := (LybChunk.run_write_from MAX SB IMAX IB META).
Local Notation run_write := (LybChunk.run_write MAX SB IMAX IB META).
Local Notation read_sibling_meta := (LybChunk.read_sibling_meta MAX SB IB META).
Local Notation read_loop := (LybChunk.read_loop MAX SB IB META).
Local Notation lyb_read := (LybChunk.lyb_read MAX SB IB META).
Local Notation lyb_read_start_siblings := (LybChunk.lyb_read_start_siblings MAX SB IB META).
Local Notation run_read_from := (LybChunk.run_read_from MAX SB IB META).
Local Notation run_read := (LybChunk.run_read MAX SB IB META).

(* ---------- the first loop of lyb_write() ---------- *)
Lemma wscan_facts sibs c :
  Forall (fun s => written s <= MAX) sibs ->
  forall tw full, wscan sibs c = (tw, full) ->
  tw <= c /\ Forall (fun s => written s + tw <= MAX) sibs /\
  match full with
  | None => tw = c /\ Forall (fun s => written s + c < MAX) sibs
  | Some k => exists inner s outer,
        sibs = inner ++ s :: outer /\ length outer = k /\ written s + tw = MAX /\
        Forall (fun t => written t + tw < MAX) inner
  end.
Proof.
  induction 1 as [|s outer Hs Hout IH]; intros tw full E; cbn [LybChunk.wscan] in E.
  - inversion E; subst. repeat split; try constructor. lia.
  - destruct (wscan outer c) as [t0 f0] eqn:E0.
    destruct (IH _ _ eq_refl) as (H1 & H2 & H3).
    destruct (MAX <=? written s + t0) eqn:Ec; inversion E; subst; clear E.
    + split; [lia|]. split.
      * constructor; [lia|]. eapply Forall_impl; [|exact H2]. cbn beta. intros a Ha. lia.
      * exists [], s, outer. repeat split; try constructor. lia.
    + split; [exact H1|]. split.
      * constructor; [lia|exact H2].
      * destruct full as [k|].
        -- destruct H3 as (inner & s' & outer' & -> & Hk & Hw & Hin).
           exists (s :: inner), s', outer'. repeat split; try assumption.
           constructor; [lia|exact Hin].
        -- destruct H3 as [-> H3]. split; [reflexivity|]. constructor; [lia|exact H3].
Qed.

(* ---------- the reader's stack seen from the writer's ---------- *)
(* prophecy for an open hole: the (size, inner chunks) that will be patched in *)
Local Notation hv := (N * N)%type.
Definition dec_inner (i : N) : N := le_val (le_bytes (N.to_nat IB) (N.land i IMAX)).
Definition rsib_of (s : sib) (v : hv) : sib :=
  mk_sib (fst v - written s) (if fst v =? MAX then 1 else 0) (dec_inner (snd v)).
Fixpoint rview (W : list sib) (h : list hv) : list sib :=
  match W, h with
  | s :: W', v :: h' => rsib_of s v :: rview W' h'
  | _, _ => []
  end.
Definition hok (s : sib) (v : hv) : Prop := written s <= fst v /\ fst v <= MAX.
(* ok also after T more bytes *)
Definition hokT (T : N) (s : sib) (v : hv) : Prop := written s + T <= fst v /\ fst v <= MAX.

Lemma rview_length W h : length W = length h -> length (rview W h) = length W.
Proof.
  revert h; induction W as [|s W IH]; intros [|v h] H; cbn [rview length] in *; try lia.
  rewrite IH; lia.
Qed.

Lemma rview_app A B hA hB :
  length A = length hA -> rview (A ++ B) (hA ++ hB) = rview A hA ++ rview B hB.
Proof.
  revert hA; induction A as [|s A IH]; intros [|v hA] H; cbn [rview length app] in *; try lia; [reflexivity|].
  rewrite IH by lia. reflexivity.
Qed.

Lemma rview_map_pos (g : sib -> sib) W h :
  (forall s, written (g s) = written s) -> rview (map g W) h = rview W h.
Proof.
  intro Hg. revert h; induction W as [|s W IH]; intros [|v h]; cbn [rview map]; try reflexivity.
  rewrite IH. unfold rsib_of. rewrite Hg. reflexivity.
Qed.

(* both first loops pick the same level and the same number of bytes *)
Lemma scan_sim T c sibs h :
  T <= c -> Forall2 (hokT T) sibs h ->
  forall tw fw tr fr, wscan sibs c = (tw, fw) -> rscan (rview sibs h) c = (tr, fr) ->
  T <= tw /\ T <= tr /\ (tw = T <-> tr = T) /\ (tw = T -> fw = fr).
Proof.
  intros HT H. induction H as [|s v outer ho [Hv1 Hv2] Hrest IH]; intros tw fw tr fr Ew Er;
    cbn [LybChunk.wscan rscan rview] in Ew, Er.
  - inversion Ew; inversion Er; subst. repeat split; auto.
  - destruct (wscan outer c) as [tw0 fw0] eqn:Ew0.
    destruct (rscan (rview outer ho) c) as [tr0 fr0] eqn:Er0.
    destruct (IH _ _ _ _ eq_refl eq_refl) as (I1 & I2 & I3 & I4).
    rewrite (rview_length outer ho (Forall2_len _ _ _ Hrest)) in Er.
    unfold rsib_of in Er. cbn [written position] in Er.
    destruct (fst v =? MAX) eqn:Ef.
    + (* a follow-up chunk is prophesied: remaining = MAX - written *)
      apply N.eqb_eq in Ef. change (negb (1 =? 0)) with true in Er. rewrite andb_true_r in Er.
      destruct (MAX <=? written s + tw0) eqn:Ecw; destruct (fst v - written s <=? tr0) eqn:Ecr;
        inversion Ew; inversion Er; subst; clear Ew Er.
      * repeat split; try lia; auto.
      * repeat split; try lia; auto.
      * repeat split; try lia; auto.
      * repeat split; try lia; auto.
    + apply N.eqb_neq in Ef. change (negb (0 =? 0)) with false in Er. rewrite andb_false_r in Er.
      inversion Er; subst; clear Er.
      destruct (MAX <=? written s + tw0) eqn:Ecw; inversion Ew; subst; clear Ew.
      * repeat split; try lia; auto.
      * repeat split; try lia; auto.
Qed.

(* ---------- holes and their content ---------- *)
Lemma meta_of_length sz i : length (meta_of sz i) = N.to_nat META.
Proof. unfold LybChunk.meta_of. rewrite app_length, !le_bytes_length. lia. Qed.

Lemma hole_length : length hole = N.to_nat META.
Proof. unfold LybChunk.hole. apply repeat_length. Qed.

(* the output with the prophecy written into the open holes *)
Fixpoint fill (W : list sib) (h : list hv) (out : bytes) : bytes :=
  match W, h with
  | s :: W', v :: h' => fill W' h' (patch (N.to_nat (position s)) (meta_of (fst v) (snd v)) out)
  | _, _ => out
  end.

Definition inb (len : N) (s : sib) : Prop := position s + META <= len.
Definition disj (p q : N) : Prop := p + META <= q \/ q + META <= p.
Fixpoint pdisj (P : list N) : Prop :=
  match P with [] => True | p :: P' => Forall (disj p) P' /\ pdisj P' end.
Definition holes_ok (len : N) (W : list sib) : Prop :=
  Forall (inb len) W /\ pdisj (map position W).

Notation blen l := (N.of_nat (length l)).

Lemma fill_length W : forall h out, Forall (inb (blen out)) W -> length (fill W h out) = length out.
Proof.
  induction W as [|s W IH]; intros [|v h] out H; cbn [fill]; try reflexivity.
  inversion H as [|? ? Hs HW]; subst. unfold inb in Hs.
  assert (L : length (patch (N.to_nat (position s)) (meta_of (fst v) (snd v)) out) = length out).
  { apply patch_length. rewrite meta_of_length. lia. }
  rewrite IH; [exact L|]. rewrite L. exact HW.
Qed.

Lemma fill_app W : forall h out t, Forall (inb (blen out)) W -> fill W h (out ++ t) = fill W h out ++ t.
Proof.
  induction W as [|s W IH]; intros [|v h] out t H; cbn [fill]; try reflexivity.
  inversion H as [|? ? Hs HW]; subst. unfold inb in Hs.
  rewrite patch_app_l by (rewrite meta_of_length; lia).
  apply IH. rewrite patch_length by (rewrite meta_of_length; lia). exact HW.
Qed.

Lemma patch_comm_disj p a q b l :
  length a = N.to_nat META -> length b = N.to_nat META ->
  disj p q -> p + META <= blen l -> q + META <= blen l ->
  patch (N.to_nat p) a (patch (N.to_nat q) b l) = patch (N.to_nat q) b (patch (N.to_nat p) a l).
Proof.
  intros Ha Hb [D|D] Hp Hq.
  - apply patch_comm; lia.
  - symmetry. apply patch_comm; lia.
Qed.

Lemma fill_patch_comm W : forall h p a out,
  length a = N.to_nat META -> p + META <= blen out ->
  Forall (inb (blen out)) W -> Forall (fun s => disj p (position s)) W ->
  fill W h (patch (N.to_nat p) a out) = patch (N.to_nat p) a (fill W h out).
Proof.
  induction W as [|s W IH]; intros [|v h] p a out Ha Hp Hin Hd; cbn [fill]; try reflexivity.
  inversion Hin as [|? ? Hs HW]; subst. inversion Hd as [|? ? Ds DW]; subst. unfold inb in Hs.
  rewrite <- (patch_comm_disj p a (position s)); try assumption; [|apply meta_of_length].
  apply IH; try assumption.
  - rewrite patch_length by (rewrite meta_of_length; lia). exact Hp.
  - rewrite patch_length by (rewrite meta_of_length; lia). exact HW.
Qed.

Lemma fill_map_pos (g : sib -> sib) W : (forall s, position (g s) = position s) ->
  forall h out, fill (map g W) h out = fill W h out.
Proof.
  intro Hg. induction W as [|s W IH]; intros [|v h] out; cbn [fill map]; try reflexivity.
  rewrite Hg. apply IH.
Qed.

Lemma fill_app_sibs A : forall hA B hB out,
  length A = length hA -> fill (A ++ B) (hA ++ hB) out = fill B hB (fill A hA out).
Proof.
  induction A as [|s A IH]; intros [|v hA] B hB out H; cbn [fill app length] in *; try lia; try reflexivity.
  apply IH. lia.
Qed.

Lemma inb_mono len len' W : len <= len' -> Forall (inb len) W -> Forall (inb len') W.
Proof. intros Hl H. eapply Forall_impl; [|exact H]. unfold inb. intros a Ha. lia. Qed.

Lemma disj_sym p q : disj p q -> disj q p.
Proof. unfold disj. tauto. Qed.

Lemma pdisj_mid A p B :
  pdisj (A ++ p :: B) -> Forall (disj p) A /\ Forall (disj p) B /\ pdisj A /\ pdisj B.
Proof.
  induction A as [|a A IH]; cbn [pdisj app]; intros [H1 H2].
  - repeat split; try constructor; assumption.
  - destruct (IH H2) as (I1 & I2 & I3 & I4).
    apply Forall_app in H1. destruct H1 as [H1a H1b]. inversion H1b as [|? ? Hap H1B]; subst.
    repeat split; try assumption.
    constructor; [apply disj_sym; exact Hap|exact I1].
Qed.

Lemma pdisj_replace A p q B :
  pdisj (A ++ p :: B) -> Forall (disj q) A -> Forall (disj q) B -> pdisj (A ++ q :: B).
Proof.
  induction A as [|a A IH]; cbn [pdisj app]; intros [H1 H2] HA HB.
  - split; assumption.
  - inversion HA as [|? ? Hqa HA']; subst.
    apply Forall_app in H1. destruct H1 as [H1a H1b]. inversion H1b as [|? ? Hap H1B]; subst.
    split.
    + apply Forall_app. split; [exact H1a|]. constructor; [apply disj_sym; exact Hqa|exact H1B].
    + apply IH; assumption.
Qed.

(* ---------- lyb_read_sibling_meta() on a hole content ---------- *)
Lemma firstn_exact {A} (a b : list A) : firstn (length a) (a ++ b) = a.
Proof. rewrite firstn_app, Nat.sub_diag, firstn_all. cbn [firstn]. apply app_nil_r. Qed.
Lemma skipn_exact {A} (a b : list A) : skipn (length a) (a ++ b) = b.
Proof. rewrite skipn_app, skipn_all, Nat.sub_diag. reflexivity. Qed.

Lemma read_meta_ok sz i rest :
  sz <= MAX ->
  read_sibling_meta (meta_of sz i ++ rest) =
  Some (mk_sib sz (if sz =? MAX then 1 else 0) (dec_inner i), rest).
Proof.
  intro Hsz. unfold LybChunk.read_sibling_meta.
  rewrite <- (meta_of_length sz i), take_app.
  unfold LybChunk.meta_of.
  set (A := le_bytes (N.to_nat SB) (N.land sz MAX)).
  set (B := le_bytes (N.to_nat IB) (N.land i IMAX)).
  assert (LA : length A = N.to_nat SB) by apply le_bytes_length.
  assert (LB : length B = N.to_nat IB) by apply le_bytes_length.
  rewrite <- LA, firstn_exact, skipn_exact. rewrite <- LB, firstn_all.
  assert (EA : le_val A = sz).
  { unfold A. rewrite le_val_le_bytes, Hmask by exact Hsz. rewrite N2Nat.id. apply N.mod_small. lia. }
  rewrite EA. reflexivity.
Qed.

(* ---------- invariant of the writer ---------- *)
Definition winv (st : wstate) : Prop :=
  w_len st = blen (w_out st) /\ holes_ok (w_len st) (w_sibs st) /\
  Forall (fun s => written s <= MAX) (w_sibs st).

(* a writer step from st to st' is matched by the reader action ract returning x *)
Definition Sim {X} (st st' : wstate) (ract : rstate -> res (X * rstate)) (x : X) : Prop :=
  forall h', Forall2 hok (w_sibs st') h' ->
  exists h tail, Forall2 hok (w_sibs st) h /\
    fill (w_sibs st') h' (w_out st') = fill (w_sibs st) h (w_out st) ++ tail /\
    forall rest, ract (mk_r (rview (w_sibs st) h) (tail ++ rest)) =
                 Ok (x, mk_r (rview (w_sibs st') h') rest).

Definition lift (f : rstate -> res rstate) (r : rstate) : res (unit * rstate) :=
  match f r with Ok r' => Ok (tt, r') | Err e => Err e end.

Lemma Forall2_map_l {A B C} (R : B -> C -> Prop) (g : A -> B) l l' :
  Forall2 R (map g l) l' <-> Forall2 (fun a c => R (g a) c) l l'.
Proof.
  revert l'; induction l as [|a l IH]; intros l'; cbn [map]; split; intro H; inversion H; subst;
    constructor; try assumption; apply IH; assumption.
Qed.

Lemma start_sim st st1 :
  winv st -> lyb_write_start_siblings st = Ok st1 ->
  winv st1 /\ Sim st st1 (lift lyb_read_start_siblings) tt.
Proof.
  intros (Hlen & [Hin Hdis] & Hw) E. unfold LybChunk.lyb_write_start_siblings in E.
  destruct (existsb _ _); [discriminate|]. inversion E; subst st1; clear E.
  split.
  - unfold winv, holes_ok. cbn [w_len w_out w_sibs].
    split; [rewrite app_length, hole_length; lia|]. split; [split|].
    + constructor; [unfold inb; cbn [position]; lia|].
      rewrite Forall_map. eapply Forall_impl; [|exact Hin]. unfold inb. cbn [inc_inner position]. intros a Ha. lia.
    + cbn [map pdisj position]. rewrite map_map. cbn [inc_inner position]. split; [|exact Hdis].
      rewrite Forall_map. eapply Forall_impl; [|exact Hin]. unfold inb, disj. intros a Ha. lia.
    + constructor; [cbn [written]; lia|]. rewrite Forall_map. exact Hw.
  - intros h1 H1. cbn [w_sibs] in H1. inversion H1 as [|s0 vN l0 h' HvN Hrest]; subst.
    apply (proj1 (Forall2_map_l hok inc_inner _ _)) in Hrest.
    exists h', (meta_of (fst vN) (snd vN)). split; [exact Hrest|]. split.
    + cbn [w_sibs w_out fill position].
      rewrite Hlen, Nat2N.id. rewrite patch_end by (rewrite hole_length, meta_of_length; reflexivity).
      rewrite fill_map_pos by reflexivity.
      apply fill_app. rewrite <- Hlen. exact Hin.
    + intro rest. unfold lift, LybChunk.lyb_read_start_siblings. cbn [r_in r_sibs].
      destruct HvN as [_ HvN]. cbn [written] in HvN.
      rewrite read_meta_ok by exact HvN. cbn [w_sibs rview].
      rewrite rview_map_pos by reflexivity.
      unfold rsib_of. cbn [written]. rewrite N.sub_0_r. reflexivity.
Qed.

Lemma stop_sim st st1 :
  winv st -> lyb_write_stop_siblings st = Ok st1 ->
  winv st1 /\ Sim st st1 (lift lyb_read_stop_siblings) tt.
Proof.
  intros (Hlen & [Hin Hdis] & Hw) E. unfold LybChunk.lyb_write_stop_siblings in E.
  destruct (w_sibs st) as [|s outer] eqn:Es; [discriminate|]. inversion E; subst st1; clear E.
  inversion Hin as [|? ? Hs Hin']; subst. inversion Hw as [|? ? Hws Hw']; subst.
  cbn [map pdisj] in Hdis. destruct Hdis as [_ Hdis'].
  assert (Lp : length (write_sibling_meta (w_out st) s) = length (w_out st)).
  { unfold LybChunk.write_sibling_meta. apply patch_length. unfold LybChunk.meta_bytes.
    rewrite meta_of_length. unfold inb in Hs. lia. }
  split.
  - unfold winv, holes_ok. cbn [w_len w_out w_sibs]. rewrite Lp. repeat split; assumption.
  - intros h' H'. cbn [w_sibs] in H'. rewrite Es.
    exists ((written s, inner_chunks s) :: h'), []. split; [|split].
    + constructor; [|exact H']. unfold hok. cbn [fst]. lia.
    + cbn [w_sibs w_out fill fst snd]. rewrite app_nil_r. reflexivity.
    + intro rest. unfold lift, lyb_read_stop_siblings. cbn [r_sibs r_in rview app w_sibs].
      unfold rsib_of at 1. cbn [written fst]. rewrite N.sub_diag. cbn [N.eqb]. reflexivity.
Qed.

(* ---------- small facts used by the loop lemmas ---------- *)
Lemma no_assert_w T sibs :
  Forall (fun s => written s + T <= MAX) sibs ->
  existsb (fun s => MAX <? written s) (map (add_written T) sibs) = false.
Proof.
  induction 1 as [|s l Hs Hl IH]; cbn [map existsb]; [reflexivity|].
  rewrite IH, orb_false_r. unfold add_written. cbn [written]. lia.
Qed.

Lemma rview_no_assert W h :
  Forall2 hok W h -> existsb (fun s => MAX <? written s) (rview W h) = false.
Proof.
  induction 1 as [|s v W h [H1 H2] Hr IH]; cbn [rview existsb]; [reflexivity|].
  rewrite IH, orb_false_r. unfold rsib_of. cbn [written]. lia.
Qed.

Lemma hok_add T W h : Forall2 hok (map (add_written T) W) h -> Forall2 (hokT T) W h.
Proof. intro H. apply (proj1 (Forall2_map_l hok (add_written T) _ _)) in H. exact H. Qed.

Lemma hokT_add T W h : Forall2 (hokT T) W h -> Forall2 hok (map (add_written T) W) h.
Proof. intro H. apply (proj2 (Forall2_map_l hok (add_written T) _ _)). exact H. Qed.

Lemma hokT_hok T W h : Forall2 (hokT T) W h -> Forall2 hok W h.
Proof.
  apply Forall2_impl'. unfold hokT, hok. intros a b [H1 H2]. split; lia.
Qed.

Lemma hok_hokT0 W h : Forall2 hok W h -> Forall2 (hokT 0) W h.
Proof.
  apply Forall2_impl'. unfold hokT, hok. intros a b [H1 H2]. split; lia.
Qed.

Lemma rview_sub T W h :
  Forall2 (hokT T) W h -> map (sub_written T) (rview W h) = rview (map (add_written T) W) h.
Proof.
  induction 1 as [|s v W h [H1 H2] Hr IH]; cbn [rview map]; [reflexivity|].
  rewrite IH. f_equal. unfold sub_written, rsib_of, sub64, add_written. cbn [written position inner_chunks].
  destruct (T <=? fst v - written s) eqn:E; [|lia]. f_equal. lia.
Qed.

Lemma take_if T (l : bytes) :
  (if T =? 0 then Some ([], l) else take (N.to_nat T) l) = take (N.to_nat T) l.
Proof. destruct (T =? 0) eqn:E; [|reflexivity]. apply N.eqb_eq in E. subst. reflexivity. Qed.

Lemma sub_if T (l : list sib) :
  (if T =? 0 then l else map (sub_written T) l) = map (sub_written T) l.
Proof. destruct (T =? 0) eqn:E; [|reflexivity]. apply N.eqb_eq in E. subst. symmetry. apply sub_written_0. Qed.

Lemma cnt_if T c : (if T =? 0 then c else c - T) = c - T.
Proof. destruct (T =? 0) eqn:E; [|reflexivity]. apply N.eqb_eq in E. subst. lia. Qed.

Lemma skip_if T (l : bytes) : (if T =? 0 then l else skipn (N.to_nat T) l) = skipn (N.to_nat T) l.
Proof. destruct (T =? 0) eqn:E; [|reflexivity]. apply N.eqb_eq in E. subst. reflexivity. Qed.

(* the state after the data part of an iteration *)
Definition stA (st : wstate) (T : N) (buf : bytes) : wstate :=
  mk_w (map (add_written T) (w_sibs st)) (w_out st ++ firstn (N.to_nat T) buf) (w_len st + T).

Lemma stA_if st T buf : (if T =? 0 then st else stA st T buf) = stA st T buf.
Proof.
  destruct (T =? 0) eqn:E; [|reflexivity]. apply N.eqb_eq in E. subst. unfold stA.
  rewrite add_written_0. cbn [N.to_nat firstn]. rewrite app_nil_r, N.add_0_r. destruct st; reflexivity.
Qed.

Lemma stA_inv st T buf :
  winv st -> Forall (fun s => written s + T <= MAX) (w_sibs st) -> T <= blen buf ->
  winv (stA st T buf).
Proof.
  intros (Hlen & [Hin Hdis] & Hw) HT Hb. unfold winv, holes_ok, stA. cbn [w_len w_out w_sibs].
  split; [rewrite app_length, firstn_length; lia|]. split; [split|].
  - rewrite Forall_map. eapply Forall_impl; [|exact Hin]. unfold inb. cbn [add_written position]. intros a Ha. lia.
  - rewrite map_map. cbn [add_written position]. exact Hdis.
  - rewrite Forall_map. exact HT.
Qed.

(* ---------- one iteration of the reader loop, matched to the writer's scan ---------- *)
Definition more_data (data : bytes) (r : res (bytes * rstate)) : res (bytes * rstate) :=
  match r with Ok (more, st') => Ok (data ++ more, st') | Err e => Err e end.

Lemma rscan_of_wscan T c sibs h fw :
  T <= c -> Forall2 (hokT T) sibs h -> wscan sibs c = (T, fw) -> rscan (rview sibs h) c = (T, fw).
Proof.
  intros HT H Ew. destruct (rscan (rview sibs h) c) as [tr fr] eqn:Er.
  destruct (scan_sim T c sibs h HT H _ _ _ _ Ew Er) as (_ & _ & I3 & I4).
  rewrite (proj1 I3 eq_refl), (I4 eq_refl). reflexivity.
Qed.

Lemma read_iter_plain f count sibs h data rest' :
  count <> 0 -> Forall2 (hokT count) sibs h -> wscan sibs count = (count, None) ->
  length data = N.to_nat count ->
  read_loop (S f) count (mk_r (rview sibs h) (data ++ rest')) =
  more_data data (read_loop f (count - count) (mk_r (rview (map (add_written count) sibs) h) rest')).
Proof.
  intros Hc H Ew Hd. cbn [LybChunk.read_loop r_sibs r_in].
  rewrite (rscan_of_wscan count count sibs h None) by (try assumption; lia).
  destruct (count =? 0) eqn:Ec; [lia|].
  rewrite <- Hd, take_app.
  rewrite (rview_sub _ _ _ H).
  rewrite (rview_no_assert _ _ (hokT_add _ _ _ H)), andb_false_r.
  reflexivity.
Qed.

Lemma read_iter_close f count tw k inner s outer hi ic ho vN p data rest' :
  length outer = k -> length inner = length hi ->
  Forall2 (hokT tw) (inner ++ s :: outer) (hi ++ (MAX, ic) :: ho) ->
  tw <= count -> wscan (inner ++ s :: outer) count = (tw, Some k) ->
  length data = N.to_nat tw -> fst vN <= MAX ->
  read_loop (S f) count
    (mk_r (rview (inner ++ s :: outer) (hi ++ (MAX, ic) :: ho)) (data ++ meta_of (fst vN) (snd vN) ++ rest')) =
  more_data data
    (read_loop f (count - tw)
       (mk_r (rview (map (add_written tw) inner ++ mk_sib 0 p 0 :: map inc_inner (map (add_written tw) outer))
                    (hi ++ vN :: ho)) rest')).
Proof.
  intros Hk Hli H Htw Ew Hd HvN. cbn [LybChunk.read_loop r_sibs r_in].
  rewrite (rscan_of_wscan tw count _ _ (Some k)) by assumption.
  rewrite take_if, sub_if, cnt_if. rewrite <- Hd, take_app.
  rewrite (rview_sub _ _ _ H).
  rewrite (rview_no_assert _ _ (hokT_add _ _ _ H)), andb_false_r.
  rewrite read_meta_ok by exact HvN.
  rewrite map_app. cbn [map].
  assert (Hlo : length outer = length ho).
  { apply Forall2_len in H. rewrite !app_length in H. cbn [length] in H. lia. }
  rewrite !rview_app by (rewrite ?map_length; exact Hli). cbn [rview].
  rewrite map_levels_set by (rewrite rview_length; rewrite ?map_length; [exact Hk|exact Hlo]).
  rewrite (rview_map_pos inc_inner) by reflexivity.
  unfold rsib_of. cbn [written]. rewrite N.sub_0_r. reflexivity.
Qed.

(* ---------- the writer side of an iteration that closes the chunk of level [s] ---------- *)
Definition st3 (inner : list sib) (s : sib) (outer : list sib) (out : bytes) (len tw : N) (data : bytes) : wstate :=
  mk_w (map (add_written tw) inner ++ mk_sib 0 (len + tw) 0 :: map inc_inner (map (add_written tw) outer))
       (write_sibling_meta (out ++ data) (add_written tw s) ++ hole)
       (len + tw + META).

Lemma close_inv inner s outer out len tw data :
  winv (mk_w (inner ++ s :: outer) out len) ->
  Forall (fun t => written t + tw <= MAX) (inner ++ s :: outer) ->
  length data = N.to_nat tw ->
  winv (st3 inner s outer out len tw data).
Proof.
  intros (Hlen & [Hin Hdis] & Hw) HT Hd. cbn [w_len w_out w_sibs] in *.
  apply Forall_app in Hin. destruct Hin as [Hin_i Hin_so]. inversion Hin_so as [|? ? Hin_s Hin_o]; subst.
  rewrite map_app in Hdis. cbn [map] in Hdis.
  destruct (pdisj_mid _ _ _ Hdis) as (D1 & D2 & D3 & D4).
  apply Forall_app in HT. destruct HT as [HT_i HT_so]. inversion HT_so as [|? ? HT_s HT_o]; subst.
  unfold inb in Hin_s.
  unfold winv, holes_ok, st3. cbn [w_len w_out w_sibs].
  assert (Lp : length (write_sibling_meta (out ++ data) (add_written tw s)) = length (out ++ data)).
  { unfold LybChunk.write_sibling_meta. apply patch_length. unfold LybChunk.meta_bytes.
    rewrite meta_of_length, app_length. cbn [add_written position]. lia. }
  split; [rewrite app_length, Lp, app_length, hole_length; lia|]. split; [split|].
  - apply Forall_app. split; [|constructor].
    + rewrite Forall_map. eapply Forall_impl; [|exact Hin_i]. unfold inb. cbn [add_written position]. intros a Ha. lia.
    + unfold inb. cbn [position]. lia.
    + rewrite !Forall_map. eapply Forall_impl; [|exact Hin_o]. unfold inb. cbn [inc_inner add_written position]. intros a Ha. lia.
  - rewrite map_app. cbn [map position]. rewrite !map_map. cbn [inc_inner add_written position].
    apply (pdisj_replace _ (position s)); [exact Hdis| |].
    + rewrite Forall_map. eapply Forall_impl; [|exact Hin_i]. unfold inb, disj. intros a Ha. lia.
    + rewrite Forall_map. eapply Forall_impl; [|exact Hin_o]. unfold inb, disj. intros a Ha. lia.
  - apply Forall_app. split; [|constructor].
    + rewrite Forall_map. exact HT_i.
    + cbn [written]. lia.
    + rewrite !Forall_map. exact HT_o.
Qed.

Lemma close_fill inner s outer out len tw data hi vN ho :
  winv (mk_w (inner ++ s :: outer) out len) ->
  written s + tw = MAX -> length data = N.to_nat tw -> length inner = length hi ->
  fill (w_sibs (st3 inner s outer out len tw data)) (hi ++ vN :: ho) (w_out (st3 inner s outer out len tw data)) =
  fill (inner ++ s :: outer) (hi ++ (MAX, inner_chunks s) :: ho) out ++ data ++ meta_of (fst vN) (snd vN).
Proof.
  intros (Hlen & [Hin Hdis] & Hw) Hs Hd Hli. cbn [w_len w_out w_sibs] in *.
  apply Forall_app in Hin. destruct Hin as [Hin_i Hin_so].
  pose proof (Forall_inv Hin_so) as Hin_s. pose proof (Forall_inv_tail Hin_so) as Hin_o.
  rewrite map_app in Hdis. cbn [map] in Hdis.
  destruct (pdisj_mid _ _ _ Hdis) as (D1 & D2 & D3 & D4).
  unfold inb in Hin_s.
  unfold st3. cbn [w_sibs w_out].
  set (Ms := meta_of MAX (inner_chunks s)).
  assert (EMs : meta_bytes (add_written tw s) = Ms).
  { unfold LybChunk.meta_bytes, Ms. cbn [add_written written inner_chunks]. rewrite Hs. reflexivity. }
  assert (LMs : length Ms = N.to_nat META) by apply meta_of_length.
  unfold LybChunk.write_sibling_meta. rewrite EMs. cbn [add_written position].
  set (ps := N.to_nat (position s)).
  (* right-hand side *)
  rewrite (fill_app_sibs inner hi) by exact Hli. cbn [fill fst snd]. fold Ms. fold ps.
  set (Fi := fill inner hi out).
  assert (LFi : length Fi = length out).
  { apply fill_length. rewrite <- Hlen. exact Hin_i. }
  set (Y := patch ps Ms Fi).
  assert (LY : length Y = length out).
  { unfold Y. rewrite patch_length; [exact LFi|]. unfold ps. lia. }
  (* left-hand side *)
  rewrite (fill_app_sibs (map (add_written tw) inner) hi) by (rewrite map_length; exact Hli).
  rewrite fill_map_pos by reflexivity.
  assert (E1 : fill inner hi (patch ps Ms (out ++ data) ++ hole) = (Y ++ data) ++ hole).
  { rewrite fill_app.
    2:{ rewrite patch_length by (rewrite app_length; unfold ps; lia).
        eapply inb_mono; [|exact Hin_i]. rewrite app_length. lia. }
    f_equal. unfold ps. rewrite fill_patch_comm; try assumption.
    - fold ps. rewrite fill_app by (rewrite <- Hlen; exact Hin_i). fold Fi.
      unfold Y. apply patch_app_l. unfold ps. lia.
    - rewrite app_length. lia.
    - eapply inb_mono; [|exact Hin_i]. rewrite app_length. lia.
    - rewrite Forall_map in D1. exact D1. }
  rewrite E1. cbn [fill position].
  replace (N.to_nat (len + tw)) with (length (Y ++ data)) by (rewrite app_length; lia).
  rewrite patch_end by (rewrite hole_length, meta_of_length; reflexivity).
  rewrite !fill_map_pos by reflexivity.
  rewrite <- app_assoc. apply fill_app.
  rewrite LY, <- Hlen. exact Hin_o.
Qed.

(* ---------- the loop of lyb_write() against the loop of lyb_read() ---------- *)
Lemma loop_sim : forall fuel buf count st st1,
  winv st -> count = blen buf ->
  write_loop fuel buf count st = Ok st1 ->
  winv st1 /\
  forall h', Forall2 hok (w_sibs st1) h' ->
  exists h tail, Forall2 hok (w_sibs st) h /\
    fill (w_sibs st1) h' (w_out st1) = fill (w_sibs st) h (w_out st) ++ tail /\
    forall rest, read_loop fuel count (mk_r (rview (w_sibs st) h) (tail ++ rest)) =
                 Ok (buf, mk_r (rview (w_sibs st1) h') rest).
Proof.
  induction fuel as [|f IH]; intros buf count st st1 Hinv Hc E; [discriminate|].
  cbn [LybChunk.write_loop] in E.
  destruct (wscan (w_sibs st) count) as [tw full] eqn:Ew.
  pose proof Hinv as (Hlen & Hholes & Hw).
  destruct (wscan_facts _ _ Hw _ _ Ew) as (Htw & HT & Hfull).
  fold (stA st tw buf) in E. rewrite !stA_if, !skip_if, !cnt_if in E.
  assert (Hna : existsb (fun s => MAX <? written s) (w_sibs (stA st tw buf)) = false)
    by (apply no_assert_w; exact HT).
  rewrite Hna, andb_false_r in E.
  destruct full as [k|].
  - (* the chunk of level k is closed *)
    destruct Hfull as (inner & s & outer & Es & Hk & Hs & Hinner).
    destruct st as [sibs out len]. cbn [w_sibs w_out w_len] in Es, Ew, HT, Hlen, Hw |- *. subst sibs.
    unfold stA in E. cbn [w_sibs w_out w_len] in E.
    rewrite map_app in E. cbn [map] in E.
    assert (Hk' : length (map (add_written tw) outer) = k) by (rewrite map_length; exact Hk).
    rewrite <- Hk' in E.
    rewrite get_level_mid in E.
    rewrite map_levels_set in E by reflexivity.
    rewrite exists_level_outer in E by reflexivity.
    destruct (existsb (fun s0 : sib => inner_chunks s0 =? IMAX) (map (add_written tw) outer)) eqn:Elog;
      [discriminate|].
    rewrite map_levels_outer in E by reflexivity.
    set (data := firstn (N.to_nat tw) buf) in *.
    change (write_loop f (skipn (N.to_nat tw) buf) (count - tw) (st3 inner s outer out len tw data) = Ok st1) in E.
    assert (Hd : length data = N.to_nat tw) by (unfold data; rewrite firstn_length; lia).
    pose proof (close_inv inner s outer out len tw data Hinv HT Hd) as Hinv3.
    assert (Hc3 : count - tw = blen (skipn (N.to_nat tw) buf)) by (rewrite skipn_length; lia).
    destruct (IH _ _ _ _ Hinv3 Hc3 E) as [Hinv1 Hsim].
    split; [exact Hinv1|]. intros h' Hh'.
    destruct (Hsim h' Hh') as (h3 & tail3 & Hh3 & Hfill3 & Hread3).
    unfold st3 in Hh3. cbn [w_sibs] in Hh3.
    apply Forall2_app_inv_l in Hh3. destruct Hh3 as (hi & hr & Hhi & Hhr & Eh3).
    apply Forall2_cons_inv_l in Hhr. destruct Hhr as (vN & ho & HvN & Hho & Ehr).
    rewrite Ehr in Eh3. clear Ehr hr. rewrite Eh3 in Hfill3, Hread3. clear Eh3 h3.
    exists (hi ++ (MAX, inner_chunks s) :: ho), (data ++ meta_of (fst vN) (snd vN) ++ tail3).
    assert (Hli : length inner = length hi).
    { apply Forall2_len in Hhi. rewrite map_length in Hhi. exact Hhi. }
    assert (HhT : Forall2 (hokT tw) (inner ++ s :: outer) (hi ++ (MAX, inner_chunks s) :: ho)).
    { apply Forall2_app; [apply hok_add; exact Hhi|]. constructor; [unfold hokT; cbn [fst]; lia|].
      apply hok_add. apply (proj1 (Forall2_map_l hok inc_inner _ _)) in Hho. exact Hho. }
    split; [exact (hokT_hok _ _ _ HhT)|]. split.
    + rewrite Hfill3. cbn [w_sibs w_out].
      rewrite (close_fill inner s outer out len tw data hi vN ho Hinv Hs Hd Hli).
      rewrite <- !app_assoc. reflexivity.
    + intro rest. cbn [w_sibs]. rewrite <- !app_assoc.
      destruct HvN as [_ HvN].
      rewrite (read_iter_close f count tw k inner s outer hi (inner_chunks s) ho vN (len + tw) data (tail3 ++ rest)
                 Hk Hli HhT Htw Ew Hd HvN).
      unfold st3 in Hread3. cbn [w_sibs] in Hread3. rewrite Hread3. cbn [more_data].
      unfold data. rewrite firstn_skipn. reflexivity.
  - (* no chunk is closed *)
    destruct Hfull as [Etw Hlt]. subst tw.
    destruct (count =? 0) eqn:Ec.
    + inversion E; subst st1; clear E. apply N.eqb_eq in Ec.
      assert (Eb : buf = []) by (destruct buf; [reflexivity|cbn [length] in Hc; lia]).
      split; [exact Hinv|]. intros h' Hh'. exists h', []. split; [exact Hh'|].
      split; [rewrite app_nil_r; reflexivity|].
      intro rest. cbn [LybChunk.read_loop r_sibs r_in app].
      rewrite (rscan_of_wscan count count _ _ None); [| lia | rewrite Ec; apply hok_hokT0; exact Hh' | exact Ew].
      rewrite Ec. cbn [N.eqb]. rewrite Eb. reflexivity.
    + assert (HinvA : winv (stA st count buf)) by (apply stA_inv; [exact Hinv|exact HT|lia]).
      assert (HcA : count - count = blen (skipn (N.to_nat count) buf)) by (rewrite skipn_length; lia).
      destruct (IH _ _ _ _ HinvA HcA E) as [Hinv1 Hsim].
      split; [exact Hinv1|]. intros h' Hh'.
      destruct (Hsim h' Hh') as (hA & tailA & HhA & HfillA & HreadA).
      unfold stA in HhA, HfillA, HreadA. cbn [w_sibs w_out] in HhA, HfillA, HreadA.
      apply hok_add in HhA.
      assert (Ef : firstn (N.to_nat count) buf = buf) by (apply firstn_all2; lia).
      rewrite Ef in HfillA.
      exists hA, (buf ++ tailA). split; [exact (hokT_hok _ _ _ HhA)|]. split.
      * rewrite HfillA. rewrite fill_map_pos by reflexivity.
        rewrite fill_app by (rewrite <- Hlen; apply Hholes).
        rewrite <- app_assoc. reflexivity.
      * intro rest. rewrite <- app_assoc.
        rewrite read_iter_plain; [| apply N.eqb_neq; exact Ec | exact HhA | exact Ew | lia].
        rewrite HreadA. cbn [more_data].
        rewrite skipn_all2 by lia. rewrite app_nil_r. reflexivity.
Qed.

(* ---------- lyb_write() against lyb_read() ---------- *)
Lemma write_sim bs st st1 :
  winv st -> lyb_write bs st = Ok st1 ->
  winv st1 /\ Sim st st1 (lyb_read (blen bs)) bs.
Proof.
  intros Hinv E. unfold LybChunk.lyb_write in E.
  destruct (loop_sim _ _ _ _ _ Hinv eq_refl E) as [H1 H2]. split; [exact H1|].
  intros h' Hh'. destruct (H2 h' Hh') as (h & tail & Hh & Hf & Hr).
  exists h, tail. split; [exact Hh|]. split; [exact Hf|].
  intro rest. unfold LybChunk.lyb_read. cbn [r_sibs].
  rewrite rview_length by (apply (Forall2_len _ _ _ Hh)). apply Hr.
Qed.

(* ---------- whole scripts ---------- *)
Lemma run_sim : forall script st st1,
  winv st -> run_write_from script st = Ok st1 ->
  winv st1 /\ Sim st st1 (run_read_from (shape script)) (payloads script).
Proof.
  induction script as [|o script IH]; intros st st1 Hinv E; cbn [LybChunk.run_write_from] in E.
  - inversion E; subst st1. split; [exact Hinv|].
    intros h' Hh'. exists h', []. split; [exact Hh'|]. split; [rewrite app_nil_r; reflexivity|].
    intro rest. reflexivity.
  - destruct (write_op o st) as [st0|e] eqn:Eo; [|discriminate].
    destruct o as [|bs|]; cbn [LybChunk.write_op] in Eo.
    + destruct (start_sim _ _ Hinv Eo) as [Hinv0 Hs0].
      destruct (IH _ _ Hinv0 E) as [Hinv1 Hs1]. split; [exact Hinv1|].
      intros h' Hh'. destruct (Hs1 h' Hh') as (h0 & t1 & Hh0 & Hf1 & Hr1).
      destruct (Hs0 h0 Hh0) as (h & t0 & Hh & Hf0 & Hr0).
      exists h, (t0 ++ t1). split; [exact Hh|]. split; [rewrite Hf1, Hf0, app_assoc; reflexivity|].
      intro rest. cbn [shape map shape_op payloads LybChunk.run_read_from].
      rewrite <- app_assoc. specialize (Hr0 (t1 ++ rest)). unfold lift in Hr0.
      destruct (lyb_read_start_siblings _) as [r0|e0]; [|discriminate]. inversion Hr0; subst r0.
      apply Hr1.
    + destruct (write_sim _ _ _ Hinv Eo) as [Hinv0 Hs0].
      destruct (IH _ _ Hinv0 E) as [Hinv1 Hs1]. split; [exact Hinv1|].
      intros h' Hh'. destruct (Hs1 h' Hh') as (h0 & t1 & Hh0 & Hf1 & Hr1).
      destruct (Hs0 h0 Hh0) as (h & t0 & Hh & Hf0 & Hr0).
      exists h, (t0 ++ t1). split; [exact Hh|]. split; [rewrite Hf1, Hf0, app_assoc; reflexivity|].
      intro rest. cbn [shape map shape_op payloads LybChunk.run_read_from].
      rewrite <- app_assoc. rewrite Hr0. fold (shape script). rewrite Hr1. reflexivity.
    + destruct (stop_sim _ _ Hinv Eo) as [Hinv0 Hs0].
      destruct (IH _ _ Hinv0 E) as [Hinv1 Hs1]. split; [exact Hinv1|].
      intros h' Hh'. destruct (Hs1 h' Hh') as (h0 & t1 & Hh0 & Hf1 & Hr1).
      destruct (Hs0 h0 Hh0) as (h & t0 & Hh & Hf0 & Hr0).
      exists h, (t0 ++ t1). split; [exact Hh|]. split; [rewrite Hf1, Hf0, app_assoc; reflexivity|].
      intro rest. cbn [shape map shape_op payloads LybChunk.run_read_from].
      rewrite <- app_assoc. specialize (Hr0 (t1 ++ rest)). unfold lift in Hr0.
      destruct (lyb_read_stop_siblings _) as [r0|e0]; [|discriminate]. inversion Hr0; subst r0.
      apply Hr1.
Qed.

Lemma winv_init : winv w_init.
Proof. unfold winv, holes_ok, w_init. cbn. repeat split; constructor. Qed.

(* the round trip for a script that leaves no siblings open *)
Theorem chunk_roundtrip_closed script st :
  run_write script = Ok st -> w_sibs st = [] ->
  run_read (shape script) (w_out st) = Ok (payloads script, mk_r [] []).
Proof.
  intros E Hs. unfold LybChunk.run_write in E.
  destruct (run_sim _ _ _ winv_init E) as [_ Hsim]. unfold Sim in Hsim. rewrite Hs in Hsim.
  destruct (Hsim [] (Forall2_nil _)) as (h & tail & Hh & Hf & Hr).
  cbn [w_init w_sibs w_out] in Hh, Hf, Hr. inversion Hh; subst h.
  cbn [fill app rview] in Hf, Hr. specialize (Hr []). rewrite app_nil_r in Hr.
  unfold LybChunk.run_read. rewrite Hf. exact Hr.
Qed.

(* ---------- well-bracketed scripts leave no siblings open ---------- *)
Lemma map_levels_length f l : length (map_levels f l) = length l.
Proof. induction l as [|s l IH]; cbn [map_levels length]; [reflexivity|]. rewrite IH. reflexivity. Qed.

Lemma write_loop_depth : forall fuel buf count st st1,
  write_loop fuel buf count st = Ok st1 -> length (w_sibs st1) = length (w_sibs st).
Proof.
  induction fuel as [|f IH]; intros buf count st st1 E; [discriminate|].
  cbn [LybChunk.write_loop] in E.
  destruct (wscan (w_sibs st) count) as [tw full].
  fold (stA st tw buf) in E. rewrite !stA_if, !skip_if, !cnt_if in E.
  assert (LA : length (w_sibs (stA st tw buf)) = length (w_sibs st)).
  { unfold stA. cbn [w_sibs]. apply map_length. }
  destruct full as [k|].
  - destruct (negb (tw =? 0) && _); [discriminate|].
    destruct (get_level _ k); [|discriminate].
    destruct (exists_level _ _); [discriminate|].
    apply IH in E. rewrite E. cbn [w_sibs]. rewrite !map_levels_length. exact LA.
  - destruct (count =? 0); [inversion E; reflexivity|].
    destruct (negb (tw =? 0) && _); [discriminate|].
    apply IH in E. rewrite E. exact LA.
Qed.

Lemma run_depth : forall script st st1,
  run_write_from script st = Ok st1 ->
  bracketed script (length (w_sibs st)) = Some (length (w_sibs st1)).
Proof.
  induction script as [|o script IH]; intros st st1 E; cbn [LybChunk.run_write_from bracketed] in *.
  - inversion E; reflexivity.
  - destruct (write_op o st) as [st0|e] eqn:Eo; [|discriminate].
    destruct o as [|bs|]; cbn [LybChunk.write_op] in Eo.
    + unfold LybChunk.lyb_write_start_siblings in Eo. destruct (existsb _ _); [discriminate|].
      inversion Eo; subst st0. rewrite <- (IH _ _ E). cbn [w_sibs length]. rewrite map_length. reflexivity.
    + unfold LybChunk.lyb_write in Eo. apply write_loop_depth in Eo. rewrite <- Eo. apply IH. exact E.
    + unfold LybChunk.lyb_write_stop_siblings in Eo. destruct (w_sibs st) as [|s outer]; [discriminate|].
      inversion Eo; subst st0. cbn [length]. rewrite <- (IH _ _ E). reflexivity.
Qed.

(* ---------- the fuel suffices; the only failure of the writer is LOGINT ---------- *)
(* chunks still to be closed by this call: sum over the levels of (written + count) / MAX *)
Fixpoint phi (sibs : list sib) (count : N) : N :=
  match sibs with [] => 0 | s :: l => (written s + count) / MAX + phi l count end.

Lemma phi_app A B c : phi (A ++ B) c = phi A c + phi B c.
Proof. induction A as [|s A IH]; cbn [phi app]; [reflexivity|]. rewrite IH. lia. Qed.

Lemma phi_shift T c l : T <= c -> phi (map (add_written T) l) (c - T) = phi l c.
Proof.
  intro H. induction l as [|s l IH]; cbn [phi map]; [reflexivity|]. rewrite IH.
  unfold add_written. cbn [written]. replace (written s + T + (c - T)) with (written s + c) by lia. reflexivity.
Qed.

Lemma phi_inc l c : phi (map inc_inner l) c = phi l c.
Proof. induction l as [|s l IH]; cbn [phi map]; [reflexivity|]. rewrite IH. reflexivity. Qed.

Lemma phi_small l c : Forall (fun s => written s + c < MAX) l -> phi l c = 0.
Proof.
  induction 1 as [|s l Hs Hl IH]; cbn [phi]; [reflexivity|]. rewrite IH, N.div_small by exact Hs. reflexivity.
Qed.

Lemma phi_bound l c :
  Forall (fun s => written s <= MAX) l -> phi l c <= N.of_nat (length l) * (1 + c / MAX).
Proof.
  induction 1 as [|s l Hs Hl IH]; cbn [phi length]; [lia|].
  assert (H1 : (written s + c) / MAX <= 1 + c / MAX).
  { replace (1 + c / MAX) with ((1 * MAX + c) / MAX) by (rewrite N.div_add_l by lia; reflexivity).
    apply N.div_le_mono; lia. }
  lia.
Qed.

Definition ok_or_logint {X} (r : res X) : Prop := (exists x, r = Ok x) \/ r = Err E_LOGINT.

Lemma write_loop_total : forall fuel buf count st,
  winv st -> count = blen buf ->
  1 + phi (w_sibs st) count + (if count =? 0 then 0 else 1) <= N.of_nat fuel ->
  ok_or_logint (write_loop fuel buf count st).
Proof.
  induction fuel as [|f IH]; intros buf count st Hinv Hc Hf; [destruct (count =? 0); lia|].
  cbn [LybChunk.write_loop].
  destruct (wscan (w_sibs st) count) as [tw full] eqn:Ew.
  pose proof Hinv as (Hlen & Hholes & Hw).
  destruct (wscan_facts _ _ Hw _ _ Ew) as (Htw & HT & Hfull).
  fold (stA st tw buf). rewrite !stA_if, !skip_if, !cnt_if.
  assert (Hna : existsb (fun s => MAX <? written s) (w_sibs (stA st tw buf)) = false)
    by (apply no_assert_w; exact HT).
  rewrite Hna, andb_false_r.
  destruct full as [k|].
  - destruct Hfull as (inner & s & outer & Es & Hk & Hs & Hinner).
    destruct st as [sibs out len]. cbn [w_sibs w_out w_len] in Es, Ew, HT, Hlen, Hw, Hf |- *. subst sibs.
    unfold stA. cbn [w_sibs w_out w_len].
    rewrite map_app. cbn [map].
    assert (Hk' : length (map (add_written tw) outer) = k) by (rewrite map_length; exact Hk).
    rewrite <- Hk'.
    rewrite get_level_mid.
    rewrite map_levels_set by reflexivity.
    rewrite exists_level_outer by reflexivity.
    destruct (existsb (fun s0 : sib => inner_chunks s0 =? IMAX) (map (add_written tw) outer)) eqn:Elog;
      [right; reflexivity|].
    rewrite map_levels_outer by reflexivity.
    set (data := firstn (N.to_nat tw) buf) in *.
    change (ok_or_logint (write_loop f (skipn (N.to_nat tw) buf) (count - tw) (st3 inner s outer out len tw data))).
    assert (Hd : length data = N.to_nat tw) by (unfold data; rewrite firstn_length; lia).
    apply IH.
    + apply close_inv; assumption.
    + rewrite skipn_length. lia.
    + unfold st3. cbn [w_sibs]. rewrite phi_app. cbn [phi written]. rewrite phi_inc, !phi_shift by exact Htw.
      rewrite phi_app in Hf. cbn [phi] in Hf.
      assert (E1 : (written s + count) / MAX = 1 + (count - tw) / MAX).
      { replace (written s + count) with (1 * MAX + (count - tw)) by lia. rewrite N.div_add_l by lia. reflexivity. }
      rewrite E1 in Hf. rewrite N.add_0_l.
      destruct (count =? 0) eqn:Ec; destruct (count - tw =? 0) eqn:Ec'; lia.
  - destruct Hfull as [Etw Hlt]. subst tw.
    destruct (count =? 0) eqn:Ec; [left; eexists; reflexivity|].
    apply IH.
    + apply stA_inv; [exact Hinv|exact HT|lia].
    + rewrite skipn_length. lia.
    + unfold stA. cbn [w_sibs]. rewrite phi_shift by lia. rewrite (phi_small _ _ Hlt).
      rewrite N.sub_diag. cbn [N.eqb]. rewrite (phi_small _ _ Hlt) in Hf. lia.
Qed.

Lemma lyb_write_total bs st : winv st -> ok_or_logint (lyb_write bs st).
Proof.
  intro Hinv. unfold LybChunk.lyb_write. apply write_loop_total; [exact Hinv|reflexivity|].
  destruct Hinv as (_ & _ & Hw). pose proof (phi_bound _ (blen bs) Hw) as Hb.
  unfold LybChunk.loop_fuel.
  destruct (blen bs =? 0); nia.
Qed.

Lemma run_write_total : forall script st d,
  winv st -> bracketed script (length (w_sibs st)) = Some d ->
  ok_or_logint (run_write_from script st).
Proof.
  induction script as [|o script IH]; intros st d Hinv Hb; cbn [LybChunk.run_write_from bracketed] in *.
  - left. eexists. reflexivity.
  - destruct o as [|bs|]; cbn [LybChunk.write_op].
    + destruct (lyb_write_start_siblings st) as [st0|e] eqn:Eo.
      * destruct (start_sim _ _ Hinv Eo) as [Hinv0 _]. apply (IH st0 d Hinv0).
        unfold LybChunk.lyb_write_start_siblings in Eo. destruct (existsb _ _); [discriminate|].
        inversion Eo; subst st0. cbn [w_sibs length]. rewrite map_length. exact Hb.
      * right. unfold LybChunk.lyb_write_start_siblings in Eo. destruct (existsb _ _); [|discriminate].
        inversion Eo. reflexivity.
    + destruct (lyb_write_total bs st Hinv) as [(st0 & Eo)|Eo]; rewrite Eo; [|right; reflexivity].
      destruct (write_sim _ _ _ Hinv Eo) as [Hinv0 _]. apply (IH st0 d Hinv0).
      unfold LybChunk.lyb_write in Eo. apply write_loop_depth in Eo. rewrite Eo. exact Hb.
    + destruct (lyb_write_stop_siblings st) as [st0|e] eqn:Eo.
      * destruct (stop_sim _ _ Hinv Eo) as [Hinv0 _].
        unfold LybChunk.lyb_write_stop_siblings in Eo. destruct (w_sibs st) as [|s outer] eqn:Es; [discriminate|].
        inversion Eo; subst st0. cbn [length] in Hb. apply (IH _ d Hinv0). cbn [w_sibs]. exact Hb.
      * exfalso. unfold LybChunk.lyb_write_stop_siblings in Eo. destruct (w_sibs st) as [|s outer] eqn:Es; [|discriminate].
        cbn [length] in Hb. discriminate.
Qed.

(* a well-bracketed script is written successfully unless an inner_chunks counter hits LYB_INCHUNK_MAX:
   no fuel exhaustion, no failing assert, no stop without siblings *)
Theorem write_total_gen script :
  well_bracketed script = true -> ok_or_logint (run_write script).
Proof.
  intro Hb. unfold well_bracketed in Hb. destruct (bracketed script 0) as [d|] eqn:E; [|discriminate].
  apply (run_write_total script w_init d winv_init). exact E.
Qed.

(* lyb_chunk_roundtrip, parametric in the constants *)
Theorem chunk_roundtrip_gen script st :
  well_bracketed script = true -> run_write script = Ok st ->
  run_read (shape script) (w_out st) = Ok (payloads script, mk_r [] []).
Proof.
  intros Hb E. apply chunk_roundtrip_closed; [exact E|].
  unfold well_bracketed in Hb. pose proof (run_depth _ _ _ E) as Hd. cbn [w_init w_sibs length] in Hd.
  rewrite Hd in Hb. destruct (w_sibs st); [reflexivity|discriminate].
Qed.

End Proofs.

(* ------------------------------------------------------------------------------------------ *)
(* the constants of src/lyb.h meet the side conditions                                         *)
(* ------------------------------------------------------------------------------------------ *)
Lemma consts_max_pos : 0 < Consts.LYB_SIZE_MAX.
Proof. reflexivity. Qed.

(* written & LYB_SIZE_MAX loses nothing: LYB_SIZE_MAX is all ones *)
Lemma consts_mask : forall w, w <= Consts.LYB_SIZE_MAX -> N.land w Consts.LYB_SIZE_MAX = w.
Proof.
  intros w Hw.
  assert (E : Consts.LYB_SIZE_MAX = N.ones (N.succ (N.log2 Consts.LYB_SIZE_MAX))) by (vm_compute; reflexivity).
  rewrite E, N.land_ones. apply N.mod_small.
  assert (E2 : 2 ^ N.succ (N.log2 Consts.LYB_SIZE_MAX) = Consts.LYB_SIZE_MAX + 1) by (vm_compute; reflexivity).
  rewrite E2. lia.
Qed.

(* the size fits LYB_SIZE_BYTES bytes *)
Lemma consts_fit : Consts.LYB_SIZE_MAX < 2 ^ (8 * Consts.LYB_SIZE_BYTES).
Proof. reflexivity. Qed.

Lemma consts_meta : Consts.LYB_META_BYTES = Consts.LYB_SIZE_BYTES + Consts.LYB_INCHUNK_BYTES.
Proof. reflexivity. Qed.

Theorem lyb_write_total_proof script :
  well_bracketed script = true ->
  (exists st, lyb_run_write script = Ok st) \/ lyb_run_write script = Err E_LOGINT.
Proof.
  apply (write_total_gen Consts.LYB_SIZE_MAX Consts.LYB_SIZE_BYTES Consts.LYB_INCHUNK_MAX
           Consts.LYB_INCHUNK_BYTES Consts.LYB_META_BYTES consts_max_pos consts_mask consts_fit consts_meta).
Qed.

(* lyb_chunk_roundtrip for the model of the code *)
Theorem lyb_chunk_roundtrip_proof script st :
  well_bracketed script = true -> lyb_run_write script = Ok st ->
  lyb_run_read (shape script) (w_out st) = Ok (payloads script, mk_r [] []).
Proof.
  apply (chunk_roundtrip_gen Consts.LYB_SIZE_MAX Consts.LYB_SIZE_BYTES Consts.LYB_INCHUNK_MAX
           Consts.LYB_INCHUNK_BYTES Consts.LYB_META_BYTES consts_max_pos consts_mask consts_fit consts_meta).
Qed.

(* ------------------------------------------------------------------------------------------ *)
(* examples: the hypotheses of the round trip are met by non-trivial scripts                    *)
(* ------------------------------------------------------------------------------------------ *)
(* constants of lyb.h: nested siblings, the bytes are checked literally *)
Example chunk_example :
  let script := [Start; Write [1; 2; 3]; Start; Write [4]; Stop; Start; Stop; Write [5; 6]; Stop] in
  well_bracketed script = true /\
  match lyb_run_write script with
  | Ok st => w_out st = [6; 0; 2; 0;  1; 2; 3;  1; 0; 0; 0;  4;  0; 0; 0; 0;  5; 6]
  | Err _ => False
  end.
Proof. split; vm_compute; reflexivity. Qed.

(* LYB_SIZE_MAX = 7 (same code, small constant): a 20-byte payload inside two nested siblings goes through three
   chunks on both levels; the meta bytes of the outer level are in the middle of the inner data *)
Example chunk_example_multi :
  let script := [Start; Write [9]; Start; Write (pattern 20); Stop; Write [8]; Stop] in
  well_bracketed script = true /\
  match lyb_run_write_small 7 script with
  | Ok st => lyb_run_read_small 7 (shape script) (w_out st) = Ok (payloads script, mk_r [] []) /\
             length (w_out st) = 50%nat
  | Err _ => False
  end.
Proof. split; [reflexivity|]. vm_compute. split; reflexivity. Qed.

(* ------------------------------------------------------------------------------------------ *)
(* inner_chunks: the bound "inner_chunks <= written + 1" of the plan does not hold               *)
(* ------------------------------------------------------------------------------------------ *)
(* LYB_SIZE_MAX = 3: every nested start is preceded by a payload byte, yet the outermost level ends with
   written = 2 and inner_chunks = 4: a level that was opened in the previous chunk of its parent is closed
   (one increment) by the very byte that also pays for the next start (another increment) *)
Theorem inner_le_written_refuted_small :
  exists script st s,
    disciplined 1 script 0 0 = true /\ lyb_run_write_small 3 script = Ok st /\
    In s (w_sibs st) /\ written s + 1 < inner_chunks s.
Proof.
  exists [Start; Write [1]; Start; Write [2]; Start; Write [3]; Write [4]; Start; Write [5]; Start].
  eexists. exists (mk_sib 2 15 4). split; [reflexivity|]. split; [vm_compute; reflexivity|].
  split; [|reflexivity]. cbn [w_sibs]. do 4 right. left. reflexivity.
Qed.

(* LYB_SIZE_MAX = LYB_INCHUNK_MAX = 3 (they are equal in lyb.h, too): one payload byte before every nested start
   and nesting depth 3 do not keep lyb_write_start_siblings() from failing with LOGINT. With the constants of
   lyb.h the same shape of script (65534 rounds of W,S,E) makes the C function fail (checked with impl/t_lyb.c);
   two bytes before every start, which is what lyb_print_node() writes at least, do not. *)
Theorem logint_reachable_small :
  exists script,
    disciplined 1 script 0 0 = true /\ well_bracketed script = false /\ max_depth script 0 = 3%nat /\
    run_write 3 2 3 2 4 script = Err E_LOGINT.
Proof.
  exists [Start; Write [1]; Start; Write [2]; Write [3]; Start; Stop; Write [4]; Start; Stop; Write [5]; Start].
  repeat split; vm_compute; reflexivity.
Qed.
