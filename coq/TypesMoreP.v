(* TypesMoreP.v — proofs about TypesMore.v (enumeration, bits, binary, string length, union). *)
From LY Require Import Base TypesMisc TypesMiscP IntLex IntLexP Utf8 TypesMore.
From Coq Require Import ZifyBool ZifyNat ZifyN.
Local Open Scope N_scope.

(* ====================================================================================== *)
(* general: cmp_bytes is a total order on byte strings                                     *)
(* ====================================================================================== *)
Lemma cmp_bytes_refl a : cmp_bytes a a = Eq.
Proof. induction a as [|x a IH]; cbn [cmp_bytes]; [reflexivity|]. rewrite N.compare_refl. exact IH. Qed.

Lemma cmp_bytes_eq a b : cmp_bytes a b = Eq <-> a = b.
Proof.
  split; [|intros ->; apply cmp_bytes_refl].
  revert b; induction a as [|x a IH]; destruct b as [|y b]; cbn [cmp_bytes]; intro H; try reflexivity; try discriminate.
  destruct (x ?= y) eqn:Hxy; try discriminate.
  apply N.compare_eq in Hxy. subst y. f_equal. apply IH. exact H.
Qed.

Lemma cmp_bytes_antisym a b : cmp_bytes a b = CompOpp (cmp_bytes b a).
Proof.
  revert b; induction a as [|x a IH]; destruct b as [|y b]; cbn [cmp_bytes CompOpp]; try reflexivity.
  rewrite (N.compare_antisym x y). destruct (x ?= y) eqn:Hxy; cbn [CompOpp]; try reflexivity. apply IH.
Qed.

Lemma cmp_bytes_trans a b c : cmp_bytes a b = Lt -> cmp_bytes b c = Lt -> cmp_bytes a c = Lt.
Proof.
  revert b c; induction a as [|x a IH]; intros [|y b] [|z c]; cbn [cmp_bytes]; intros H1 H2;
    try reflexivity; try discriminate.
  destruct (x ?= y) eqn:Hxy; destruct (y ?= z) eqn:Hyz; try discriminate.
  - apply N.compare_eq in Hxy, Hyz. subst. rewrite N.compare_refl. eapply IH; eassumption.
  - apply N.compare_eq in Hxy. subst. rewrite Hyz. reflexivity.
  - apply N.compare_eq in Hyz. subst. rewrite Hxy. reflexivity.
  - rewrite N.compare_lt_iff in Hxy. rewrite N.compare_lt_iff in Hyz.
    assert (Hxz : (x ?= z) = Lt) by (apply N.compare_lt_iff; lia).
    rewrite Hxz. reflexivity.
Qed.

(* ====================================================================================== *)
(* enumeration                                                                             *)
(* ====================================================================================== *)
Lemma enum_find_some e s it : enum_find e s = Some it -> In it e /\ fst it = s.
Proof.
  induction e as [|x e IH]; cbn [enum_find]; [discriminate|].
  destruct (beq_bytes (fst x) s) eqn:Hx; intro H.
  - inversion H; subst it. split; [left; reflexivity|]. apply beq_bytes_eq. exact Hx.
  - destruct (IH H) as [Hin Hn]. split; [right; exact Hin|exact Hn].
Qed.

Lemma enum_find_in e it : NoDup (map fst e) -> In it e -> enum_find e (fst it) = Some it.
Proof.
  induction e as [|x e IH]; intros Hnd Hin; [destruct Hin|].
  cbn [enum_find]. cbn [map] in Hnd. inversion Hnd as [|? ? Hx Hnd']; subst.
  destruct Hin as [->|Hin].
  - assert (H : beq_bytes (fst it) (fst it) = true) by (apply beq_bytes_eq; reflexivity). rewrite H. reflexivity.
  - destruct (beq_bytes (fst x) (fst it)) eqn:Hb.
    + apply beq_bytes_eq in Hb. exfalso. apply Hx. rewrite Hb. apply in_map. exact Hin.
    + apply IH; assumption.
Qed.

(* accepted exactly for the declared names; the stored item is the declaration of that name *)
Theorem enum_store_iff e s it :
  NoDup (map fst e) -> (enum_store e s = Ok it <-> In it e /\ fst it = s).
Proof.
  intro Hnd. unfold enum_store. split.
  - destruct (enum_find e s) eqn:Hf; [|discriminate]. intro H. inversion H; subst. apply enum_find_some. exact Hf.
  - intros [Hin <-]. rewrite (enum_find_in e it Hnd Hin). reflexivity.
Qed.

(* the canonical string is the value text itself, and storing it again gives the same item (no wf needed) *)
Theorem enum_canon_idempotent e s it :
  enum_store e s = Ok it -> enum_canon it = s /\ enum_store e (enum_canon it) = Ok it.
Proof.
  unfold enum_store, enum_canon. destruct (enum_find e s) eqn:Hf; [|discriminate]. intro H. inversion H; subst.
  destruct (enum_find_some _ _ _ Hf) as [_ Hn]. rewrite Hn. split; [reflexivity|]. rewrite Hf. reflexivity.
Qed.

Theorem enum_eq_iff_canon a b : enum_compare a b = true <-> enum_canon a = enum_canon b.
Proof. unfold enum_compare, enum_canon. apply beq_bytes_eq. Qed.

Lemma NoDup_map_inj {A B} (f : A -> B) (l : list A) x y :
  NoDup (map f l) -> In x l -> In y l -> f x = f y -> x = y.
Proof.
  induction l as [|z l IH]; intros Hnd Hx Hy Hf; [destruct Hx|].
  cbn [map] in Hnd. inversion Hnd as [|? ? Hz Hnd']; subst.
  destruct Hx as [->|Hx]; destruct Hy as [->|Hy]; try reflexivity.
  - exfalso. apply Hz. rewrite Hf. apply in_map. exact Hy.
  - exfalso. apply Hz. rewrite <- Hf. apply in_map. exact Hx.
  - apply IH; assumption.
Qed.

(* the sort callback is a strict total order on the items of the type, consistent with the compare callback; it orders
   by DEscending assigned value *)
Theorem enum_sort_total_order e :
  enum_wf e ->
  (forall a, enum_sort a a = Eq) /\
  (forall a b, In a e -> In b e -> (enum_sort a b = Eq <-> enum_compare a b = true)) /\
  (forall a b, enum_sort a b = CompOpp (enum_sort b a)) /\
  (forall a b c, enum_sort a b = Lt -> enum_sort b c = Lt -> enum_sort a c = Lt) /\
  (forall a b, enum_sort a b = Lt <-> (snd b < snd a)%Z).
Proof.
  intros [Hn Hv]. unfold enum_sort. split; [|split; [|split; [|split]]].
  - intro a. rewrite Z.ltb_irrefl. reflexivity.
  - intros a b Ha Hb. split; intro H.
    + apply enum_eq_iff_canon. unfold enum_canon.
      assert (Hs : snd a = snd b).
      { destruct (snd b <? snd a)%Z eqn:H1; [discriminate|]. destruct (snd a <? snd b)%Z eqn:H2; [discriminate|]. lia. }
      f_equal. exact (NoDup_map_inj snd e a b Hv Ha Hb Hs).
    + apply enum_eq_iff_canon in H. unfold enum_canon in H.
      assert (a = b) by exact (NoDup_map_inj fst e a b Hn Ha Hb H). subst b. rewrite Z.ltb_irrefl. reflexivity.
  - intros a b. destruct (snd b <? snd a)%Z eqn:H1; destruct (snd a <? snd b)%Z eqn:H2; cbn [CompOpp]; try reflexivity; lia.
  - intros a b c. destruct (snd b <? snd a)%Z eqn:H1; [|destruct (snd a <? snd b)%Z; discriminate].
    destruct (snd c <? snd b)%Z eqn:H2; [|destruct (snd b <? snd c)%Z; discriminate].
    intros _ _. assert (H3 : (snd c <? snd a)%Z = true) by lia. rewrite H3. reflexivity.
  - intros a b. split; intro H.
    + destruct (snd b <? snd a)%Z eqn:H1; [lia|]. destruct (snd a <? snd b)%Z; discriminate.
    + assert (H1 : (snd b <? snd a)%Z = true) by lia. rewrite H1. reflexivity.
Qed.

(* ====================================================================================== *)
(* bits                                                                                    *)
(* ====================================================================================== *)
Definition nonspace (w : bytes) : Prop := forallb (fun c => negb (is_space c)) w = true.

Lemma tokens_r_word w s ts :
  w <> [] -> nonspace w -> tokens_r s = (ts, false) -> tokens_r (w ++ s) = (w :: ts, true).
Proof.
  intros Hne Hw Hs. induction w as [|c w IH]; [congruence|].
  unfold nonspace in Hw. cbn [forallb] in Hw. apply andb_true_iff in Hw. destruct Hw as [Hc Hw].
  apply negb_true_iff in Hc.
  destruct w as [|c2 w].
  - cbn [app tokens_r]. rewrite Hs, Hc. reflexivity.
  - change ((c :: c2 :: w) ++ s) with (c :: ((c2 :: w) ++ s)). cbn [tokens_r].
    rewrite (IH ltac:(discriminate) Hw). rewrite Hc. reflexivity.
Qed.

Lemma tokens_join l : Forall is_word l -> tokens (join_sp l) = l.
Proof.
  unfold tokens. induction l as [|x l IH]; intro H; [reflexivity|].
  inversion H as [|? ? [Hx1 Hx2] Hl]; subst.
  destruct l as [|y l].
  - cbn [join_sp]. rewrite <- (app_nil_r x) at 1.
    rewrite (tokens_r_word x [] [] Hx1 Hx2 eq_refl). reflexivity.
  - change (join_sp (x :: y :: l)) with (x ++ 32 :: join_sp (y :: l)).
    specialize (IH Hl).
    assert (Hs : tokens_r (32 :: join_sp (y :: l)) = (fst (tokens_r (join_sp (y :: l))), false)).
    { cbn [tokens_r]. destruct (tokens_r (join_sp (y :: l))) as [ts op]. reflexivity. }
    rewrite (tokens_r_word x _ _ Hx1 Hx2 Hs). cbn [fst]. rewrite IH. reflexivity.
Qed.

Lemma bits_find_some d t p : bits_find d t = Some p -> In (t, p) d.
Proof.
  induction d as [|x d IH]; cbn [bits_find]; [discriminate|].
  destruct (beq_bytes (fst x) t) eqn:Hx; intro H.
  - inversion H; subst p. apply beq_bytes_eq in Hx. subst t. left. destruct x; reflexivity.
  - right. apply IH. exact H.
Qed.

Lemma bits_find_in d t p : NoDup (map fst d) -> In (t, p) d -> bits_find d t = Some p.
Proof.
  induction d as [|x d IH]; intros Hnd Hin; [destruct Hin|].
  cbn [bits_find]. cbn [map] in Hnd. inversion Hnd as [|? ? Hx Hnd']; subst.
  destruct Hin as [->|Hin].
  - cbn [fst snd]. assert (H : beq_bytes t t = true) by (apply beq_bytes_eq; reflexivity). rewrite H. reflexivity.
  - destruct (beq_bytes (fst x) t) eqn:Hb.
    + apply beq_bytes_eq in Hb. exfalso. apply Hx. rewrite Hb. change t with (fst (t, p)). apply in_map. exact Hin.
    + apply IH; assumption.
Qed.

Lemma bits_fill_spec d : NoDup (map fst d) -> forall toks bm0 bm,
  bits_fill d toks bm0 = Ok bm <->
  exists ps, Forall2 (fun t p => In (t, p) d) toks ps /\ NoDup ps /\
             (forall p, In p ps -> N.testbit bm0 p = false) /\
             (forall q, N.testbit bm q = true <-> (N.testbit bm0 q = true \/ In q ps)).
Proof.
  intros Hnd. induction toks as [|t r IH]; intros bm0 bm; cbn [bits_fill].
  - split.
    + intro H. inversion H; subst. exists []. split; [constructor|split; [constructor|split]].
      * intros p [].
      * intro q. split; [intro Hq; left; exact Hq|intros [Hq|[]]; exact Hq].
    + intros [ps [HF [_ [_ Hq]]]]. inversion HF; subst. f_equal. apply N.bits_inj_iff. intro q.
      destruct (N.testbit bm0 q) eqn:H0.
      * symmetry. apply Hq. left. exact H0.
      * destruct (N.testbit bm q) eqn:H1; [|reflexivity]. apply Hq in H1. destruct H1 as [H1|[]]. congruence.
  - split.
    + destruct (bits_find d t) as [p|] eqn:Hf; [|discriminate].
      destruct (N.testbit bm0 p) eqn:Hp; [discriminate|]. intro H.
      apply IH in H. destruct H as [ps [HF [Hnd' [Hfree Hq]]]].
      exists (p :: ps). split; [|split; [|split]].
      * constructor; [apply bits_find_some; exact Hf|exact HF].
      * constructor; [|exact Hnd']. intro Hin. apply Hfree in Hin. rewrite N.setbit_eq in Hin. discriminate.
      * intros p' [<-|Hin]; [exact Hp|]. specialize (Hfree _ Hin).
        destruct (N.testbit bm0 p') eqn:H0; [|reflexivity].
        assert (N.testbit (N.setbit bm0 p) p' = true) by (apply N.setbit_iff; right; exact H0). congruence.
      * intro q. rewrite Hq, N.setbit_iff. cbn [In]. tauto.
    + intros [ps [HF [Hnd' [Hfree Hq]]]]. inversion HF as [|? p ? ps' Htp HF']; subst.
      rewrite (bits_find_in d t p Hnd Htp). rewrite (Hfree p (or_introl eq_refl)).
      apply IH. exists ps'. inversion Hnd' as [|? ? Hpn Hnd'']; subst. split; [exact HF'|split; [exact Hnd''|split]].
      * intros p' Hin. destruct (N.testbit (N.setbit bm0 p) p') eqn:H1; [|reflexivity].
        apply N.setbit_iff in H1. destruct H1 as [->|H1]; [contradiction|].
        rewrite (Hfree p' (or_intror Hin)) in H1. discriminate.
      * intro q. rewrite Hq, N.setbit_iff. cbn [In]. tauto.
Qed.

(* acceptance: the white-space separated words are declared bit names, no name twice; the stored bitmap has
   exactly their positions set *)
Theorem bits_store_iff d s bm :
  bits_wf d ->
  (bits_store d s = Ok bm <->
   exists ps, Forall2 (fun t p => In (t, p) d) (tokens s) ps /\ NoDup ps /\
              forall q, N.testbit bm q = true <-> In q ps).
Proof.
  intros [Hn _]. unfold bits_store. rewrite (bits_fill_spec d Hn). split.
  - intros [ps [HF [Hnd [_ Hq]]]]. exists ps. split; [exact HF|split; [exact Hnd|]]. intro q. split.
    + intro H. apply Hq in H. destruct H as [H|H]; [rewrite N.bits_0 in H; discriminate|exact H].
    + intro H. apply Hq. right. exact H.
  - intros [ps [HF [Hnd Hq]]]. exists ps. split; [exact HF|split; [exact Hnd|split]].
    + intros p _. apply N.bits_0.
    + intro q. split.
      * intro H. right. apply Hq. exact H.
      * intros [H|H]; [rewrite N.bits_0 in H; discriminate|apply Hq; exact H].
Qed.

Lemma bits_store_supp d s bm : bits_wf d -> bits_store d s = Ok bm -> bits_supp d bm.
Proof.
  intros Hwf H. apply (bits_store_iff d s bm Hwf) in H. destruct H as [ps [HF [_ Hq]]].
  intros p Hp. apply Hq in Hp. clear Hq. induction HF as [|t p' ts ps' Htp _ IH]; [destruct Hp|].
  destruct Hp as [<-|Hp]; [|apply IH; exact Hp]. change p' with (snd (t, p')). apply in_map. exact Htp.
Qed.

Lemma NoDup_map_filter {A B} (f : A -> B) (g : A -> bool) l : NoDup (map f l) -> NoDup (map f (filter g l)).
Proof.
  induction l as [|x l IH]; cbn [map filter]; intro H; [constructor|].
  inversion H as [|? ? Hx Hl]; subst. destruct (g x); cbn [map]; [|apply IH; exact Hl].
  constructor; [|apply IH; exact Hl]. intro Hin. apply Hx. apply in_map_iff in Hin. destruct Hin as [y [Hy Hin]].
  apply filter_In in Hin. rewrite <- Hy. apply in_map. tauto.
Qed.

(* storing the canonical string gives the value back *)
Theorem bits_canon_store d bm :
  bits_wf d -> bits_names_ok d -> bits_supp d bm -> bits_store d (bits_canon d bm) = Ok bm.
Proof.
  intros [Hn Hp] Hnames Hsupp. unfold bits_store, bits_canon.
  rewrite tokens_join.
  - apply (bits_fill_spec d Hn). exists (map snd (bits_items d bm)). split; [|split; [|split]].
    + unfold bits_items. assert (Hsub : forall it, In it (filter (fun it => N.testbit bm (snd it)) d) -> In it d)
        by (intros it H; apply filter_In in H; tauto).
      induction (filter (fun it => N.testbit bm (snd it)) d) as [|it l IH]; cbn [map]; constructor.
      * destruct it as [t p]. apply Hsub. left. reflexivity.
      * apply IH. intros it' H. apply Hsub. right. exact H.
    + apply NoDup_map_filter. exact Hp.
    + intros p _. apply N.bits_0.
    + intro q. rewrite N.bits_0. split.
      * intro Hq. right. destruct (proj1 (in_map_iff _ _ _) (Hsupp q Hq)) as [it [Hit Hin]].
        apply in_map_iff. exists it. split; [exact Hit|]. apply filter_In. split; [exact Hin|]. rewrite Hit. exact Hq.
      * intros [H|H]; [discriminate|]. apply in_map_iff in H. destruct H as [it [Hit Hin]].
        apply filter_In in Hin. rewrite <- Hit. tauto.
  - apply Forall_forall. intros w Hw. apply in_map_iff in Hw. destruct Hw as [it [<- Hin]].
    apply Hnames. apply filter_In in Hin. tauto.
Qed.

Theorem bits_canon_idempotent d s bm :
  bits_wf d -> bits_names_ok d -> bits_store d s = Ok bm -> bits_store d (bits_canon d bm) = Ok bm.
Proof. intros Hwf Hn H. apply bits_canon_store; auto. eapply bits_store_supp; eassumption. Qed.

(* the canonical string lists the names of the set bits in the order of the compiled array (ascending position),
   separated by single spaces *)
Theorem bits_canon_tokens d bm :
  bits_names_ok d -> tokens (bits_canon d bm) = map fst (filter (fun it => N.testbit bm (snd it)) d).
Proof.
  intro Hnames. unfold bits_canon, bits_items. apply tokens_join.
  apply Forall_forall. intros w Hw. apply in_map_iff in Hw. destruct Hw as [it [<- Hin]].
  apply Hnames. apply filter_In in Hin. tauto.
Qed.

Lemma filter_names_inj (d : list (bytes * N)) (ff gg : bytes * N -> bool) :
  NoDup (map fst d) -> map fst (filter ff d) = map fst (filter gg d) -> forall it, In it d -> ff it = gg it.
Proof.
  induction d as [|x d IH]; intros Hnd Heq it Hin; [destruct Hin|].
  cbn [map] in Hnd. inversion Hnd as [|? ? Hx Hnd']; subst. cbn [filter] in Heq.
  assert (Hnot : forall h, ~ In (fst x) (map fst (filter h d))).
  { intros h Hc. apply Hx. apply in_map_iff in Hc. destruct Hc as [y [Hy Hc]]. apply filter_In in Hc.
    rewrite <- Hy. apply in_map. tauto. }
  destruct (ff x) eqn:Hf; destruct (gg x) eqn:Hg; cbn [map] in Heq.
  - inversion Heq as [Heq']. destruct Hin as [<-|Hin]; [congruence|]. apply IH; assumption.
  - exfalso. apply (Hnot gg). rewrite <- Heq. left. reflexivity.
  - exfalso. apply (Hnot ff). rewrite Heq. left. reflexivity.
  - destruct Hin as [<-|Hin]; [congruence|]. apply IH; assumption.
Qed.

(* equal bitmaps exactly when equal canonical strings *)
Theorem bits_eq_iff_canon d a b :
  bits_wf d -> bits_names_ok d -> bits_supp d a -> bits_supp d b ->
  (bits_compare a b = true <-> bits_canon d a = bits_canon d b).
Proof.
  intros [Hn Hp] Hnames Ha Hb. unfold bits_compare. split.
  - intro H. apply N.eqb_eq in H. subst b. reflexivity.
  - intro H. apply N.eqb_eq. apply N.bits_inj_iff. intro q.
    assert (Ht : tokens (bits_canon d a) = tokens (bits_canon d b)) by (rewrite H; reflexivity).
    rewrite !bits_canon_tokens in Ht by assumption.
    pose proof (filter_names_inj d _ _ Hn Ht) as Hall.
    destruct (N.testbit a q) eqn:Hqa.
    + destruct (proj1 (in_map_iff _ _ _) (Ha q Hqa)) as [it [Hit Hin]]. specialize (Hall it Hin). cbn beta in Hall.
      rewrite Hit in Hall. congruence.
    + destruct (N.testbit b q) eqn:Hqb; [|reflexivity].
      destruct (proj1 (in_map_iff _ _ _) (Hb q Hqb)) as [it [Hit Hin]]. specialize (Hall it Hin). cbn beta in Hall.
      rewrite Hit in Hall. congruence.
Qed.

Lemma le_bytes_inj n : forall a b, a < 256 ^ N.of_nat n -> b < 256 ^ N.of_nat n -> le_bytes n a = le_bytes n b -> a = b.
Proof.
  induction n as [|n IH]; intros a b Ha Hb H.
  - cbn in Ha, Hb. lia.
  - rewrite Nat2N.inj_succ, N.pow_succ_r' in Ha, Hb. cbn [le_bytes] in H. inversion H as [[Hm Hd]].
    assert (Hq : a / 256 = b / 256).
    { apply IH; [apply N.div_lt_upper_bound; lia|apply N.div_lt_upper_bound; lia|exact Hd]. }
    rewrite (N.div_mod' a 256), (N.div_mod' b 256). congruence.
Qed.

(* the sort callback (memcmp of the bitmaps) is a strict total order consistent with the compare callback *)
Theorem bits_sort_total_order n :
  (forall a, bits_sort n a a = Eq) /\
  (forall a b, a < 256 ^ N.of_nat n -> b < 256 ^ N.of_nat n -> (bits_sort n a b = Eq <-> bits_compare a b = true)) /\
  (forall a b, bits_sort n a b = CompOpp (bits_sort n b a)) /\
  (forall a b c, bits_sort n a b = Lt -> bits_sort n b c = Lt -> bits_sort n a c = Lt).
Proof.
  unfold bits_sort, bits_compare. split; [|split; [|split]].
  - intro a. apply cmp_bytes_refl.
  - intros a b Ha Hb. rewrite cmp_bytes_eq, N.eqb_eq. split; [apply le_bytes_inj; assumption|intros ->; reflexivity].
  - intros a b. apply cmp_bytes_antisym.
  - intros a b c. apply cmp_bytes_trans.
Qed.

(* ====================================================================================== *)
(* binary                                                                                  *)
(* ====================================================================================== *)
Definition b64_tab_check (v : N) : bool :=
  (b64_dec (b64_enc v) =? v) && is_b64 (b64_enc v) && negb (b64_enc v =? 61) && negb (b64_enc v =? 10).
Lemma b64_tab_all : N_all_below 64 b64_tab_check = true.
Proof. vm_compute. reflexivity. Qed.

Lemma b64_tab v : v < 64 -> b64_dec (b64_enc v) = v /\ is_b64 (b64_enc v) = true /\ b64_enc v <> 61 /\ b64_enc v <> 10.
Proof.
  intro H. pose proof (N_all_below_spec 64 b64_tab_check b64_tab_all v H) as Hc. unfold b64_tab_check in Hc.
  repeat (apply andb_true_iff in Hc; destruct Hc as [Hc ?]).
  repeat split; try (apply N.eqb_eq; assumption); try assumption; apply N.eqb_neq; apply negb_true_iff; assumption.
Qed.

Ltac Zify.zify_post_hook ::= Z.to_euclidean_division_equations.

Lemma b64_group_enc a b c :
  a < 256 -> b < 256 -> c < 256 ->
  b64_group (b64_enc (a / 4)) (b64_enc ((a mod 4) * 16 + b / 16)) (b64_enc ((b mod 16) * 4 + c / 64)) (b64_enc (c mod 64))
  = [a; b; c].
Proof.
  intros Ha Hb Hc. unfold b64_group.
  destruct (b64_tab (a / 4)) as [-> _]; [lia|].
  destruct (b64_tab ((a mod 4) * 16 + b / 16)) as [-> _]; [lia|].
  destruct (b64_tab ((b mod 16) * 4 + c / 64)) as [-> _]; [lia|].
  destruct (b64_tab (c mod 64)) as [-> _]; [lia|].
  assert (Hn : a / 4 * 262144 + (a mod 4 * 16 + b / 16) * 4096 + (b mod 16 * 4 + c / 64) * 64 + c mod 64 = a * 65536 + b * 256 + c) by lia.
  rewrite Hn. f_equal; [lia|]. f_equal; [lia|]. f_equal. lia.
Qed.

Lemma b64_tail1_enc a : a < 256 -> b64_tail 1 [b64_enc (a / 4); b64_enc ((a mod 4) * 16); 61; 61] = [a].
Proof.
  intro Ha. unfold b64_tail. cbn [nth].
  destruct (b64_tab (a / 4)) as [-> _]; [lia|]. destruct (b64_tab ((a mod 4) * 16)) as [-> _]; [lia|].
  assert (Hn : a / 4 * 262144 + a mod 4 * 16 * 4096 = a * 65536) by lia. rewrite Hn. f_equal. lia.
Qed.

Lemma b64_tail2_enc a b :
  a < 256 -> b < 256 ->
  b64_tail 2 [b64_enc (a / 4); b64_enc ((a mod 4) * 16 + b / 16); b64_enc ((b mod 16) * 4); 61] = [a; b].
Proof.
  intros Ha Hb. unfold b64_tail. cbn [nth].
  destruct (b64_tab (a / 4)) as [-> _]; [lia|]. destruct (b64_tab ((a mod 4) * 16 + b / 16)) as [-> _]; [lia|].
  destruct (b64_tab ((b mod 16) * 4)) as [-> _]; [lia|].
  assert (Hn : a / 4 * 262144 + (a mod 4 * 16 + b / 16) * 4096 + b mod 16 * 4 * 64 = a * 65536 + b * 256) by lia.
  rewrite Hn. f_equal; [lia|]. f_equal. lia.
Qed.

Ltac Zify.zify_post_hook ::= idtac.

(* induction three bytes at a time *)
Lemma list_ind3 (P : bytes -> Prop) :
  P [] -> (forall a, P [a]) -> (forall a b, P [a; b]) -> (forall a b c r, P r -> P (a :: b :: c :: r)) -> forall l, P l.
Proof.
  intros H0 H1 H2 H3. fix IH 1. intros [|a [|b [|c r]]]; [exact H0|apply H1|apply H2|]. apply H3. apply IH.
Qed.

(* complete three-octet groups of d, and the remaining 0..2 octets *)
Fixpoint ngroups (d : bytes) : nat := match d with _ :: _ :: _ :: r => S (ngroups r) | _ => O end.
Fixpoint split3 (d : bytes) : bytes * bytes :=
  match d with a :: b :: c :: r => let '(h, t) := split3 r in (a :: b :: c :: h, t) | _ => ([], d) end.

Lemma split3_app d : fst (split3 d) ++ snd (split3 d) = d.
Proof.
  induction d as [| | |a b c r IH] using list_ind3; try reflexivity.
  cbn [split3]. destruct (split3 r) as [h t]. cbn [fst snd app] in *. rewrite IH. reflexivity.
Qed.

Lemma split3_tail d : snd (split3 d) = [] \/ (exists a, snd (split3 d) = [a]) \/ (exists a b, snd (split3 d) = [a; b]).
Proof.
  induction d as [|a|a b|a b c r IH] using list_ind3; cbn [split3 snd]; eauto.
  destruct (split3 r) as [h t]. exact IH.
Qed.

Lemma bytes_ok_cons a d : bytes_ok (a :: d) = true <-> a < 256 /\ bytes_ok d = true.
Proof. unfold bytes_ok, byte_ok. cbn [forallb]. rewrite andb_true_iff, N.ltb_lt. tauto. Qed.

Lemma b64_encode_length d :
  length (b64_encode d) = (4 * ngroups d + match snd (split3 d) with [] => 0 | _ => 4 end)%nat.
Proof.
  induction d as [|a|a b|a b c r IH] using list_ind3; try reflexivity.
  cbn [b64_encode length ngroups split3]. destruct (split3 r) as [h t]. cbn [snd] in *. rewrite IH. lia.
Qed.

Lemma b64_pad_cons x s : (2 <= length s)%nat -> b64_pad (x :: s) = b64_pad s.
Proof. destruct s as [|y [|z s]]; cbn [length]; intro H; try lia. reflexivity. Qed.

Lemma b64_pad_encode d : bytes_ok d = true -> b64_pad (b64_encode d) = length (snd (split3 d)).
Proof.
  induction d as [|a|a b|a b c r IH] using list_ind3; intro Hok.
  - reflexivity.
  - reflexivity.
  - apply bytes_ok_cons in Hok. destruct Hok as [Ha Hok]. apply bytes_ok_cons in Hok. destruct Hok as [Hb _].
    cbn [b64_encode split3 snd length]. rewrite !b64_pad_cons by (cbn [length]; lia). cbn [b64_pad].
    destruct (b64_tab ((b mod 16) * 4)) as [_ [_ [Hne _]]]; [pose proof (N.mod_upper_bound b 16); lia|].
    apply N.eqb_neq in Hne. rewrite N.eqb_refl, Hne. reflexivity.
  - apply bytes_ok_cons in Hok. destruct Hok as [Ha Hok]. apply bytes_ok_cons in Hok. destruct Hok as [Hb Hok].
    apply bytes_ok_cons in Hok. destruct Hok as [Hc Hok]. specialize (IH Hok).
    cbn [b64_encode split3]. destruct (split3 r) as [h t] eqn:Hs. cbn [snd] in *.
    destruct r as [|r0 r'].
    + cbn [b64_encode]. rewrite !b64_pad_cons by (cbn [length]; lia). cbn [b64_pad].
      destruct (b64_tab (c mod 64)) as [_ [_ [Hne _]]]; [apply N.mod_upper_bound; lia|].
      apply N.eqb_neq in Hne. rewrite Hne. cbn [split3] in Hs. inversion Hs; subst. reflexivity.
    + assert (Hl : (4 <= length (b64_encode (r0 :: r')))%nat).
      { rewrite b64_encode_length. destruct r' as [|r1 [|r2 r'']]; cbn [ngroups split3 snd]; try lia.
        all: destruct (split3 r''); cbn [snd]; lia. }
      rewrite !b64_pad_cons by (cbn [length]; lia). exact IH.
Qed.

Lemma b64_groups_encode d :
  bytes_ok d = true -> b64_groups (ngroups d) (b64_encode d) = (fst (split3 d), b64_encode (snd (split3 d))).
Proof.
  induction d as [|a|a b|a b c r IH] using list_ind3; intro Hok; try reflexivity.
  apply bytes_ok_cons in Hok. destruct Hok as [Ha Hok]. apply bytes_ok_cons in Hok. destruct Hok as [Hb Hok].
  apply bytes_ok_cons in Hok. destruct Hok as [Hc Hok]. specialize (IH Hok).
  cbn [ngroups b64_encode b64_groups split3]. rewrite IH. destruct (split3 r) as [h t]. cbn [fst snd].
  rewrite b64_group_enc by assumption. reflexivity.
Qed.

(* decoding the RFC 4648 text of d gives d *)
Theorem b64_decode_encode d : bytes_ok d = true -> b64_decode (b64_encode d) = d.
Proof.
  intro Hok. unfold b64_decode. rewrite (b64_pad_encode d Hok), b64_encode_length.
  assert (Hk : (Nat.div (4 * ngroups d + match snd (split3 d) with [] => 0 | _ => 4 end + 3) 4
                - (if Nat.eqb (length (snd (split3 d))) 0 then 0 else 1) = ngroups d)%nat).
  { destruct (snd (split3 d)) as [|x t]; cbn [length Nat.eqb].
    - replace (4 * ngroups d + 0 + 3)%nat with (3 + ngroups d * 4)%nat by lia. rewrite Nat.div_add by lia. cbn. lia.
    - replace (4 * ngroups d + 4 + 3)%nat with (3 + (ngroups d + 1) * 4)%nat by lia. rewrite Nat.div_add by lia. cbn. lia. }
  rewrite Hk, (b64_groups_encode d Hok).
  assert (Hokt : bytes_ok (snd (split3 d)) = true).
  { rewrite <- (split3_app d) in Hok. unfold bytes_ok in *. rewrite forallb_app in Hok. apply andb_true_iff in Hok. tauto. }
  transitivity (fst (split3 d) ++ snd (split3 d)); [|apply split3_app]. f_equal.
  destruct (split3_tail d) as [E|[[a E]|[a [b E]]]]; rewrite E in *.
  - reflexivity.
  - apply bytes_ok_cons in Hokt. cbn [length b64_encode]. apply b64_tail1_enc. tauto.
  - apply bytes_ok_cons in Hokt. destruct Hokt as [Ha Hokt]. apply bytes_ok_cons in Hokt.
    cbn [length b64_encode]. apply b64_tail2_enc; tauto.
Qed.

Lemma b64_encode_chars d : bytes_ok d = true -> Forall (fun c => is_b64 c = true \/ c = 61) (b64_encode d).
Proof.
  induction d as [|a|a b|a b c r IH] using list_ind3; intro Hok.
  - constructor.
  - apply bytes_ok_cons in Hok. destruct Hok as [Ha _]. cbn [b64_encode].
    assert (a / 4 < 64) by (apply N.div_lt_upper_bound; lia).
    assert (a mod 4 < 4) by (apply N.mod_upper_bound; lia).
    constructor; [left; apply b64_tab; lia|]. constructor; [left; apply b64_tab; lia|].
    constructor; [right; reflexivity|]. constructor; [right; reflexivity|]. constructor.
  - apply bytes_ok_cons in Hok. destruct Hok as [Ha Hok]. apply bytes_ok_cons in Hok. destruct Hok as [Hb _].
    cbn [b64_encode].
    assert (a / 4 < 64) by (apply N.div_lt_upper_bound; lia).
    assert (a mod 4 < 4) by (apply N.mod_upper_bound; lia). assert (b / 16 < 16) by (apply N.div_lt_upper_bound; lia).
    assert (b mod 16 < 16) by (apply N.mod_upper_bound; lia).
    constructor; [left; apply b64_tab; lia|]. constructor; [left; apply b64_tab; lia|].
    constructor; [left; apply b64_tab; lia|]. constructor; [right; reflexivity|]. constructor.
  - apply bytes_ok_cons in Hok. destruct Hok as [Ha Hok]. apply bytes_ok_cons in Hok. destruct Hok as [Hb Hok].
    apply bytes_ok_cons in Hok. destruct Hok as [Hc Hok]. cbn [b64_encode].
    assert (a / 4 < 64) by (apply N.div_lt_upper_bound; lia).
    assert (a mod 4 < 4) by (apply N.mod_upper_bound; lia). assert (b / 16 < 16) by (apply N.div_lt_upper_bound; lia).
    assert (b mod 16 < 16) by (apply N.mod_upper_bound; lia). assert (c / 64 < 4) by (apply N.div_lt_upper_bound; lia).
    assert (c mod 64 < 64) by (apply N.mod_upper_bound; lia).
    repeat (constructor; [left; apply b64_tab; lia|]). apply IH. exact Hok.
Qed.

Lemma b64_validate_encode d : bytes_ok d = true -> b64_validate (b64_encode d) = true.
Proof.
  intro Hok. unfold b64_validate. apply andb_true_iff. split.
  -     induction d as [|a|a b|a b c r IH] using list_ind3.
    + reflexivity.
    + pose proof (b64_encode_chars _ Hok) as Hc. cbn [b64_encode] in *.
      inversion Hc as [|? ? [H1|H1] Hc1]; subst; [|destruct (b64_tab (a / 4)) as [_ [_ [Hn _]]]; [apply bytes_ok_cons in Hok; apply N.div_lt_upper_bound; lia|contradiction]].
      inversion Hc1 as [|? ? [H2|H2] Hc2]; subst; [|destruct (b64_tab (a mod 4 * 16)) as [_ [_ [Hn _]]]; [pose proof (N.mod_upper_bound a 4); lia|contradiction]].
      cbn [skip_b64]. rewrite H1, H2. reflexivity.
    + apply bytes_ok_cons in Hok. destruct Hok as [Ha Hok]. apply bytes_ok_cons in Hok. destruct Hok as [Hb _].
      assert (a / 4 < 64) by (apply N.div_lt_upper_bound; lia).
      assert (a mod 4 < 4) by (apply N.mod_upper_bound; lia). assert (b / 16 < 16) by (apply N.div_lt_upper_bound; lia).
      assert (b mod 16 < 16) by (apply N.mod_upper_bound; lia).
      cbn [b64_encode skip_b64].
      destruct (b64_tab (a / 4)) as [_ [-> _]]; [lia|]. destruct (b64_tab (a mod 4 * 16 + b / 16)) as [_ [-> _]]; [lia|].
      destruct (b64_tab (b mod 16 * 4)) as [_ [-> _]]; [lia|]. reflexivity.
    + apply bytes_ok_cons in Hok. destruct Hok as [Ha Hok]. apply bytes_ok_cons in Hok. destruct Hok as [Hb Hok].
      apply bytes_ok_cons in Hok. destruct Hok as [Hc Hok].
      assert (a / 4 < 64) by (apply N.div_lt_upper_bound; lia).
      assert (a mod 4 < 4) by (apply N.mod_upper_bound; lia). assert (b / 16 < 16) by (apply N.div_lt_upper_bound; lia).
      assert (b mod 16 < 16) by (apply N.mod_upper_bound; lia). assert (c / 64 < 4) by (apply N.div_lt_upper_bound; lia).
      assert (c mod 64 < 64) by (apply N.mod_upper_bound; lia).
      cbn [b64_encode skip_b64].
      destruct (b64_tab (a / 4)) as [_ [-> _]]; [lia|]. destruct (b64_tab (a mod 4 * 16 + b / 16)) as [_ [-> _]]; [lia|].
      destruct (b64_tab (b mod 16 * 4 + c / 64)) as [_ [-> _]]; [lia|]. destruct (b64_tab (c mod 64)) as [_ [-> _]]; [lia|].
      apply IH. exact Hok.
  - rewrite b64_encode_length. apply Nat.eqb_eq.
    destruct (snd (split3 d)).
    + replace (4 * ngroups d + 0)%nat with (ngroups d * 4)%nat by lia. apply Nat.mod_mul. lia.
    + replace (4 * ngroups d + 4)%nat with ((ngroups d + 1) * 4)%nat by lia. apply Nat.mod_mul. lia.
Qed.

Lemma b64_newlines_id s : ~ In 10 s -> b64_newlines s = Ok s.
Proof.
  intro Hno. unfold b64_newlines. destruct (Nat.ltb (length s) 65) eqn:Hl; [reflexivity|]. cbn [orb].
  destruct (nth 64 s 0 =? 10) eqn:Hn; [|reflexivity]. exfalso. apply Hno.
  apply N.eqb_eq in Hn. rewrite <- Hn. apply nth_In. apply Nat.ltb_ge in Hl. lia.
Qed.

Lemma b64_shape_no_nl s : b64_shape (skip_b64 s) = true -> ~ In 10 s.
Proof.
  induction s as [|c r IH]; intros H Hin; [destruct Hin|]. cbn [skip_b64] in H.
  destruct (is_b64 c) eqn:Hc.
  - destruct Hin as [->|Hin]; [vm_compute in Hc; discriminate|]. exact (IH H Hin).
  - unfold b64_shape in H. destruct r as [|c2 [|c3 r]]; [| |discriminate].
    + apply N.eqb_eq in H. subst c. destruct Hin as [Hin|[]]. discriminate.
    + apply andb_true_iff in H. destruct H as [H1 H2]. apply N.eqb_eq in H1, H2. subst.
      destruct Hin as [Hin|[Hin|[]]]; discriminate.
Qed.

(* the RFC 4648 text of every octet string within the length restriction is accepted, is its own canonical string and
   stores these octets *)
Theorem binary_encode_store parts d :
  bytes_ok d = true -> validate_range parts (Z.of_nat (length d)) = true ->
  binary_store parts (b64_encode d) = Ok (d, b64_encode d).
Proof.
  intros Hok Hr. unfold binary_store.
  assert (Hv : b64_validate (b64_encode d) = true) by (apply b64_validate_encode; exact Hok).
  rewrite b64_newlines_id.
  - rewrite Hv, (b64_decode_encode d Hok), Hr. destruct (b64_is_canonical (b64_encode d)); reflexivity.
  - apply b64_shape_no_nl. unfold b64_validate in Hv. apply andb_true_iff in Hv. apply Hv.
Qed.

(* ---------- the other direction: a validated text with zero unused bits is the RFC 4648 text of its octets ---------- *)
Definition b64_alpha_check (c : N) : bool :=
  implb (is_b64 c) ((b64_dec c <? 64) && (b64_enc (b64_dec c) =? c) && negb (c =? 61)).
Lemma b64_alpha_all : N_all_below 123 b64_alpha_check = true.
Proof. vm_compute. reflexivity. Qed.

Lemma b64_alpha c : is_b64 c = true -> b64_dec c < 64 /\ b64_enc (b64_dec c) = c /\ c <> 61.
Proof.
  intro H. assert (Hlt : c < 123) by (unfold is_b64 in H; lia).
  pose proof (N_all_below_spec 123 b64_alpha_check b64_alpha_all c Hlt) as E. unfold b64_alpha_check in E.
  rewrite H in E. cbn [implb] in E. apply andb_true_iff in E. destruct E as [E E3]. apply andb_true_iff in E.
  destruct E as [E1 E2]. repeat split; [apply N.ltb_lt; exact E1|apply N.eqb_eq; exact E2|].
  apply N.eqb_neq. apply negb_true_iff. exact E3.
Qed.

Lemma b64_dec_lt c : b64_dec c < 64.
Proof.
  unfold b64_dec.
  repeat match goal with |- context[if ?b then _ else _] => destruct b eqn:? end; lia.
Qed.

(* what binary_base64_validate accepts: groups of four alphabet characters, the last one possibly padded *)
Inductive b64_wf : bytes -> Prop :=
| wf_nil : b64_wf []
| wf_pad2 a b : is_b64 a = true -> is_b64 b = true -> b64_wf [a; b; 61; 61]
| wf_pad1 a b c : is_b64 a = true -> is_b64 b = true -> is_b64 c = true -> b64_wf [a; b; c; 61]
| wf_group a b c d r :
    is_b64 a = true -> is_b64 b = true -> is_b64 c = true -> is_b64 d = true -> b64_wf r -> b64_wf (a :: b :: c :: d :: r).

Lemma list_ind4 (P : bytes -> Prop) :
  P [] -> (forall a, P [a]) -> (forall a b, P [a; b]) -> (forall a b c, P [a; b; c]) ->
  (forall a b c d r, P r -> P (a :: b :: c :: d :: r)) -> forall l, P l.
Proof.
  intros H0 H1 H2 H3 H4. fix IH 1. intros [|a [|b [|c [|d r]]]]; [exact H0|apply H1|apply H2|apply H3|]. apply H4. apply IH.
Qed.

Lemma b64_validate_wf t : b64_validate t = true -> b64_wf t.
Proof.
  unfold b64_validate. induction t as [|a|a b|a b c|a b c d r IH] using list_ind4; intro H;
    apply andb_true_iff in H; destruct H as [Hs Hl]; try (cbn in Hl; discriminate).
  - constructor.
  - cbn [skip_b64] in Hs.
    destruct (is_b64 a) eqn:Ha; [|cbn in Hs; destruct r; discriminate].
    destruct (is_b64 b) eqn:Hb; [|cbn in Hs; discriminate].
    destruct (is_b64 c) eqn:Hc.
    + destruct (is_b64 d) eqn:Hd.
      * apply wf_group; try assumption. apply IH. apply andb_true_iff. split; [exact Hs|].
        cbn [length] in Hl. apply Nat.eqb_eq in Hl. apply Nat.eqb_eq.
        replace (S (S (S (S (length r))))) with (length r + 1 * 4)%nat in Hl by lia.
        rewrite Nat.mod_add in Hl by lia. exact Hl.
      * unfold b64_shape in Hs. destruct r as [|x [|y r]]; [| |discriminate].
        -- apply N.eqb_eq in Hs. subst d. apply wf_pad1; assumption.
        -- cbn in Hl. discriminate.
    + unfold b64_shape in Hs. destruct r as [|x r]; [|discriminate].
      apply andb_true_iff in Hs. destruct Hs as [E1 E2]. apply N.eqb_eq in E1, E2. subst c d. apply wf_pad2; assumption.
Qed.

(* group-wise decoder *)
Fixpoint b64_dec_struct (t : bytes) : bytes :=
  match t with
  | a :: b :: c :: d :: r =>
      if d =? 61 then (if c =? 61 then b64_tail 1 [a; b; c; d] else b64_tail 2 [a; b; c; d])
      else b64_group a b c d ++ b64_dec_struct r
  | _ => []
  end.

Lemma b64_wf_length t : b64_wf t -> t = [] \/ (4 <= length t)%nat.
Proof. intro H. destruct H; cbn [length]; auto; right; lia. Qed.

Lemma b64_is_canonical_cons4 a b c d r :
  (4 <= length r)%nat -> b64_is_canonical (a :: b :: c :: d :: r) = b64_is_canonical r.
Proof.
  intro Hl. unfold b64_is_canonical. cbn [length].
  assert (E1 : Nat.ltb (S (S (S (S (length r))))) 4 = false) by (apply Nat.ltb_ge; lia).
  assert (E2 : Nat.ltb (length r) 4 = false) by (apply Nat.ltb_ge; lia).
  rewrite E1, E2. cbn [orb].
  replace (S (S (S (S (length r)))) - 1)%nat with (S (S (S (S (length r - 1))))) by lia.
  replace (S (S (S (S (length r)))) - 2)%nat with (S (S (S (S (length r - 2))))) by lia.
  replace (S (S (S (S (length r)))) - 3)%nat with (S (S (S (S (length r - 3))))) by lia.
  cbn [nth]. reflexivity.
Qed.

Ltac Zify.zify_post_hook ::= Z.to_euclidean_division_equations.

Lemma land_15 x : N.land x 15 = x mod 16.
Proof. change 15 with (N.ones 4). rewrite N.land_ones. reflexivity. Qed.
Lemma land_3 x : N.land x 3 = x mod 4.
Proof. change 3 with (N.ones 2). rewrite N.land_ones. reflexivity. Qed.

Lemma b64_enc_group a b c d :
  is_b64 a = true -> is_b64 b = true -> is_b64 c = true -> is_b64 d = true ->
  forall rest, b64_encode (b64_group a b c d ++ rest) = a :: b :: c :: d :: b64_encode rest.
Proof.
  intros Ha Hb Hc Hd rest.
  destruct (b64_alpha a Ha) as [La [Ea _]]. destruct (b64_alpha b Hb) as [Lb [Eb _]].
  destruct (b64_alpha c Hc) as [Lc [Ec _]]. destruct (b64_alpha d Hd) as [Ld [Ed _]].
  unfold b64_group. cbn [app b64_encode].
  set (n := b64_dec a * 262144 + b64_dec b * 4096 + b64_dec c * 64 + b64_dec d).
  assert (H1 : n / 65536 / 4 = b64_dec a) by (unfold n; lia).
  assert (H2 : (n / 65536) mod 4 * 16 + (n / 256) mod 256 / 16 = b64_dec b) by (unfold n; lia).
  assert (H3 : (n / 256) mod 256 mod 16 * 4 + n mod 256 / 64 = b64_dec c) by (unfold n; lia).
  assert (H4 : n mod 256 mod 64 = b64_dec d) by (unfold n; lia).
  rewrite H1, H2, H3, H4, Ea, Eb, Ec, Ed. reflexivity.
Qed.

Lemma b64_enc_tail1 a b :
  is_b64 a = true -> is_b64 b = true -> b64_dec b mod 16 = 0 ->
  b64_encode (b64_tail 1 [a; b; 61; 61]) = [a; b; 61; 61].
Proof.
  intros Ha Hb Hz. destruct (b64_alpha a Ha) as [La [Ea _]]. destruct (b64_alpha b Hb) as [Lb [Eb _]].
  unfold b64_tail. cbn [nth b64_encode].
  set (x := (b64_dec a * 262144 + b64_dec b * 4096) / 65536 mod 256).
  assert (H1 : x / 4 = b64_dec a) by (unfold x; lia).
  assert (H2 : x mod 4 * 16 = b64_dec b) by (unfold x; lia).
  rewrite H1, H2, Ea, Eb. reflexivity.
Qed.

Lemma b64_enc_tail2 a b c :
  is_b64 a = true -> is_b64 b = true -> is_b64 c = true -> b64_dec c mod 4 = 0 ->
  b64_encode (b64_tail 2 [a; b; c; 61]) = [a; b; c; 61].
Proof.
  intros Ha Hb Hc Hz. destruct (b64_alpha a Ha) as [La [Ea _]]. destruct (b64_alpha b Hb) as [Lb [Eb _]].
  destruct (b64_alpha c Hc) as [Lc [Ec _]].
  unfold b64_tail. cbn [nth b64_encode].
  set (n := b64_dec a * 262144 + b64_dec b * 4096 + b64_dec c * 64).
  assert (H1 : n / 65536 mod 256 / 4 = b64_dec a) by (unfold n; lia).
  assert (H2 : n / 65536 mod 256 mod 4 * 16 + n / 256 mod 256 / 16 = b64_dec b) by (unfold n; lia).
  assert (H3 : n / 256 mod 256 mod 16 * 4 = b64_dec c) by (unfold n; lia).
  rewrite H1, H2, H3, Ea, Eb, Ec. reflexivity.
Qed.

Lemma b64_dec_struct_ok t : bytes_ok (b64_dec_struct t) = true.
Proof.
  induction t as [|a|a b|a b c|a b c d r IH] using list_ind4; try reflexivity.
  pose proof (b64_dec_lt a). pose proof (b64_dec_lt b). pose proof (b64_dec_lt c). pose proof (b64_dec_lt d).
  cbn [b64_dec_struct]. destruct (d =? 61).
  - destruct (c =? 61); unfold b64_tail, bytes_ok, byte_ok; cbn [nth forallb]; rewrite ?andb_true_iff, ?N.ltb_lt; repeat split; lia.
  - unfold bytes_ok in *. rewrite forallb_app, IH. unfold b64_group, byte_ok. cbn [forallb].
    rewrite ?andb_true_iff, ?N.ltb_lt. repeat split; lia.
Qed.

Ltac Zify.zify_post_hook ::= idtac.

Lemma b64_encode_dec_struct t : b64_wf t -> b64_is_canonical t = true -> b64_encode (b64_dec_struct t) = t.
Proof.
  induction 1 as [|a b Ha Hb|a b c Ha Hb Hc|a b c d r Ha Hb Hc Hd Hr IH]; intro Hcan.
  - reflexivity.
  - unfold b64_is_canonical in Hcan. cbn in Hcan. rewrite land_15 in Hcan. apply N.eqb_eq in Hcan.
    cbn [b64_dec_struct]. rewrite N.eqb_refl. apply b64_enc_tail1; assumption.
  - destruct (b64_alpha c Hc) as [_ [_ Hc61]]. apply N.eqb_neq in Hc61.
    unfold b64_is_canonical in Hcan. cbn [length nth Nat.ltb Nat.leb Nat.sub orb negb] in Hcan.
    rewrite N.eqb_refl in Hcan. cbn [negb] in Hcan. rewrite Hc61 in Hcan. rewrite land_3 in Hcan. apply N.eqb_eq in Hcan.
    cbn [b64_dec_struct]. rewrite N.eqb_refl, Hc61. apply b64_enc_tail2; assumption.
  - destruct (b64_alpha d Hd) as [_ [_ Hd61]]. apply N.eqb_neq in Hd61.
    cbn [b64_dec_struct]. rewrite Hd61. rewrite b64_enc_group by assumption. f_equal. f_equal. f_equal. f_equal.
    destruct (b64_wf_length r Hr) as [->|Hl]; [reflexivity|].
    apply IH. rewrite <- (b64_is_canonical_cons4 a b c d r Hl). exact Hcan.
Qed.

Lemma b64_canonical_text t :
  b64_validate t = true -> b64_is_canonical t = true -> b64_encode (b64_decode t) = t.
Proof.
  intros Hv Hc. pose proof (b64_encode_dec_struct t (b64_validate_wf t Hv) Hc) as E.
  rewrite <- E at 1. rewrite (b64_decode_encode _ (b64_dec_struct_ok t)). exact E.
Qed.

(* the canonical string of every stored value is the RFC 4648 text of its octets (since /repo commit c0ee3aa) *)
Theorem binary_canon_is_rfc4648 parts s v :
  binary_store parts s = Ok v -> binary_canon v = b64_encode (fst v).
Proof.
  unfold binary_store, binary_canon. destruct (b64_newlines s) as [t|] eqn:Hn; [|discriminate].
  destruct (b64_validate t) eqn:Hv; [|discriminate].
  destruct (validate_range parts (Z.of_nat (length (b64_decode t)))) eqn:Hr; [|discriminate].
  intro H. inversion H; subst v. cbn [fst snd].
  destruct (b64_is_canonical t) eqn:Hc; [|reflexivity]. symmetry. apply b64_canonical_text; assumption.
Qed.

Ltac Zify.zify_post_hook ::= Z.to_euclidean_division_equations.
Lemma b64_groups_ok k : forall s, bytes_ok (fst (b64_groups k s)) = true.
Proof.
  induction k as [|k IH]; intro s; [reflexivity|]. cbn [b64_groups].
  destruct s as [|a [|b [|c [|d r]]]]; try reflexivity.
  specialize (IH r). destruct (b64_groups k r) as [o rest]. cbn [fst] in *.
  pose proof (b64_dec_lt a). pose proof (b64_dec_lt b). pose proof (b64_dec_lt c). pose proof (b64_dec_lt d).
  unfold bytes_ok in *. rewrite forallb_app, IH. unfold b64_group, byte_ok. cbn [forallb].
  rewrite ?andb_true_iff, ?N.ltb_lt. repeat split; lia.
Qed.

Lemma b64_decode_ok s : bytes_ok (b64_decode s) = true.
Proof.
  unfold b64_decode.
  pose proof (b64_groups_ok (Nat.div (length s + 3) 4 - (if Nat.eqb (b64_pad s) 0 then 0 else 1)) s) as Hg.
  destruct (b64_groups _ s) as [o rest]. cbn [fst] in Hg. unfold bytes_ok in *. rewrite forallb_app, Hg. cbn [andb].
  destruct (b64_pad s) as [|[|p]]; unfold b64_tail, byte_ok; cbn [forallb]; rewrite ?andb_true_iff, ?N.ltb_lt; repeat split; lia.
Qed.
Ltac Zify.zify_post_hook ::= idtac.

Lemma binary_store_ok parts s v : binary_store parts s = Ok v -> bytes_ok (fst v) = true.
Proof.
  unfold binary_store. destruct (b64_newlines s) as [t|]; [|discriminate].
  destruct (b64_validate t); [|discriminate].
  destruct (validate_range parts (Z.of_nat (length (b64_decode t)))); [|discriminate].
  intro H. inversion H; subst v. cbn [fst]. apply b64_decode_ok.
Qed.

(* the length restriction is checked on the number of decoded octets *)
Theorem binary_length_counts_octets parts s v :
  binary_store parts s = Ok v -> validate_range parts (Z.of_nat (length (fst v))) = true.
Proof.
  unfold binary_store. destruct (b64_newlines s) as [t|]; [|discriminate].
  destruct (b64_validate t); [|discriminate].
  destruct (validate_range parts (Z.of_nat (length (b64_decode t)))) eqn:Hr; [|discriminate].
  intro H. inversion H; subst v. exact Hr.
Qed.

(* storing the canonical string gives the same value *)
Theorem binary_canon_idempotent parts s v :
  binary_store parts s = Ok v -> binary_store parts (binary_canon v) = Ok v.
Proof.
  intro H. rewrite (binary_canon_is_rfc4648 parts s v H).
  rewrite (binary_encode_store parts (fst v) (binary_store_ok parts s v H) (binary_length_counts_octets parts s v H)).
  rewrite <- (binary_canon_is_rfc4648 parts s v H). unfold binary_canon. destruct v; reflexivity.
Qed.

(* two stored values are equal exactly when their canonical strings are equal (since /repo commit c0ee3aa) *)
Theorem binary_eq_iff_canon parts s1 s2 a b :
  binary_store parts s1 = Ok a -> binary_store parts s2 = Ok b ->
  (binary_compare a b = true <-> binary_canon a = binary_canon b).
Proof.
  intros Ha Hb. rewrite (binary_canon_is_rfc4648 _ _ _ Ha), (binary_canon_is_rfc4648 _ _ _ Hb).
  unfold binary_compare. rewrite beq_bytes_eq. split; [intros ->; reflexivity|].
  intro H. rewrite <- (b64_decode_encode _ (binary_store_ok _ _ _ Ha)), <- (b64_decode_encode _ (binary_store_ok _ _ _ Hb)), H.
  reflexivity.
Qed.

(* regression of the former defect binary-pad-bits: YR== (unused bits not zero) is accepted, stores the octet 0x61 and
   has the canonical string YQ==, like YQ== itself *)
Theorem binary_pad_bits_regression :
  binary_store [] [89; 82; 61; 61] = Ok ([97], [89; 81; 61; 61]) /\
  binary_store [] [89; 81; 61; 61] = Ok ([97], [89; 81; 61; 61]) /\
  binary_store [] [89; 87; 74; 61] = Ok ([97; 98], [89; 87; 73; 61]).
Proof. repeat split; vm_compute; reflexivity. Qed.

Theorem binary_sort_total_order :
  (forall a, binary_sort a a = Eq) /\
  (forall a b, binary_sort a b = Eq <-> binary_compare a b = true) /\
  (forall a b, binary_sort a b = CompOpp (binary_sort b a)) /\
  (forall a b c, binary_sort a b = Lt -> binary_sort b c = Lt -> binary_sort a c = Lt).
Proof.
  unfold binary_sort, binary_compare. split; [|split; [|split]].
  - intro a. rewrite Nat.compare_refl. apply cmp_bytes_refl.
  - intros a b. rewrite beq_bytes_eq. split.
    + destruct (Nat.compare (length (fst a)) (length (fst b))); try discriminate. apply cmp_bytes_eq.
    + intros ->. rewrite Nat.compare_refl. apply cmp_bytes_refl.
  - intros a b. rewrite (Nat.compare_antisym (length (fst a)) (length (fst b))).
    destruct (Nat.compare (length (fst a)) (length (fst b))); cbn [CompOpp]; try reflexivity. apply cmp_bytes_antisym.
  - intros a b c.
    destruct (Nat.compare (length (fst a)) (length (fst b))) eqn:H1;
      destruct (Nat.compare (length (fst b)) (length (fst c))) eqn:H2; try discriminate.
    + apply Nat.compare_eq in H1, H2. rewrite H1, H2, Nat.compare_refl. apply cmp_bytes_trans.
    + apply Nat.compare_eq in H1. rewrite H1, H2. reflexivity.
    + apply Nat.compare_eq in H2. rewrite <- H2, H1. reflexivity.
    + intros _ _. apply Nat.compare_lt_iff in H1, H2.
      assert (H3 : Nat.compare (length (fst a)) (length (fst c)) = Lt) by (apply Nat.compare_lt_iff; lia).
      rewrite H3. reflexivity.
Qed.

(* ====================================================================================== *)
(* string length                                                                           *)
(* ====================================================================================== *)
(* facts about a first byte c < 256: the class tests of ly_checkutf8 are exclusive and agree with
   utf8_char_length_table *)
Definition lead_facts (c : N) : bool :=
  let b1 := N.land c 128 =? 0 in
  let b2 := N.land c 224 =? 192 in
  let b3 := N.land c 240 =? 224 in
  let b4 := N.land c 248 =? 240 in
  implb b1 (Nat.eqb (utf8_tab c) 1) &&
  implb b2 (Nat.eqb (utf8_tab c) 2 && negb b3 && negb b4) &&
  implb b3 (Nat.eqb (utf8_tab c) 3 && negb b4) &&
  implb b4 (Nat.eqb (utf8_tab c) 4) &&
  implb (c =? 0) b1.
Lemma lead_facts_all : N_all_below 256 lead_facts = true.
Proof. vm_compute. reflexivity. Qed.

Lemma checkutf8_tab c r u :
  c < 256 -> checkutf8 (c :: r) = Some u -> u = utf8_tab c /\ c <> 0 /\ (1 <= u <= length (c :: r))%nat.
Proof.
  intros Hc H. pose proof (N_all_below_spec 256 lead_facts lead_facts_all c Hc) as L. unfold lead_facts in L.
  unfold checkutf8, rd0 in H. cbn [nth] in H.
  assert (Hlen : (1 <= length (c :: r))%nat) by (cbn [length]; lia).
  destruct (N.land c 128 =? 0) eqn:B1; destruct (N.land c 224 =? 192) eqn:B2; destruct (N.land c 240 =? 224) eqn:B3;
    destruct (N.land c 248 =? 240) eqn:B4; cbn [implb andb negb] in L; try discriminate;
    repeat (apply andb_true_iff in L; destruct L as [L ?]); try discriminate.
  all: try (destruct ((c <? 32) && negb (c =? 9) && negb (c =? 10) && negb (c =? 13)) eqn:Ct; [discriminate|];
            inversion H; subst u;
            match goal with T : Nat.eqb (utf8_tab _) 1 = true |- _ => apply Nat.eqb_eq in T; rewrite T end;
            split; [reflexivity|split; [|lia]]; intros ->; vm_compute in Ct; discriminate).
  all: cbn [andb] in H.
  all: assert (Hc0 : c <> 0) by (intros ->; vm_compute in B1; discriminate).
  - (* two bytes *)
    destruct (Nat.ltb 1 (length (c :: r))) eqn:Hl; cbn [andb] in H; [|discriminate].
    repeat (match type of H with (if ?X then _ else _) = _ => destruct X end; [discriminate|]).
    inversion H; subst u. apply Nat.ltb_lt in Hl.
    match goal with T : Nat.eqb (utf8_tab _) 2 = true |- _ => apply Nat.eqb_eq in T; rewrite T end.
    repeat split; try lia; assumption.
  - (* three bytes *)
    destruct (Nat.ltb 2 (length (c :: r))) eqn:Hl; cbn [andb] in H; [|discriminate].
    repeat (match type of H with (if ?X then _ else _) = _ => destruct X end; [discriminate|]).
    inversion H; subst u. apply Nat.ltb_lt in Hl.
    match goal with T : Nat.eqb (utf8_tab _) 3 = true |- _ => apply Nat.eqb_eq in T; rewrite T end.
    repeat split; try lia; assumption.
  - (* four bytes *)
    destruct (Nat.ltb 3 (length (c :: r))) eqn:Hl; cbn [andb] in H; [|discriminate].
    repeat (match type of H with (if ?X then _ else _) = _ => destruct X end; [discriminate|]).
    inversion H; subst u. apply Nat.ltb_lt in Hl.
    match goal with T : Nat.eqb (utf8_tab _) 4 = true |- _ => apply Nat.eqb_eq in T; rewrite T end.
    repeat split; try lia; assumption.
Qed.

Lemma bytes_ok_skipn n s : bytes_ok s = true -> bytes_ok (skipn n s) = true.
Proof.
  revert s; induction n as [|n IH]; intros s H; [exact H|]. destruct s as [|c r]; [reflexivity|].
  cbn [skipn]. apply IH. apply bytes_ok_cons in H. tauto.
Qed.

Lemma utf8len_k_skip k s : utf8len_k k s = utf8len_k 0 (skipn k s).
Proof.
  revert s; induction k as [|k IH]; intro s; [reflexivity|]. destruct s as [|c r]; [reflexivity|].
  cbn [utf8len_k skipn]. apply IH.
Qed.

(* on a value that passes the character check, ly_utf8len counts the characters that ly_checkutf8 walks over *)
Lemma utf8len_counts_f fuel : forall s,
  bytes_ok s = true -> all_checkutf8_f fuel s = true -> utf8_chars s (utf8len s).
Proof.
  induction fuel as [|f IH]; intros s Hok H; [discriminate|]. cbn [all_checkutf8_f] in H.
  destruct s as [|c r]; [constructor|].
  destruct (checkutf8 (c :: r)) as [u|] eqn:Hu; [|discriminate].
  pose proof Hok as Hok'. apply bytes_ok_cons in Hok'. destruct Hok' as [Hc _].
  destruct (checkutf8_tab c r u Hc Hu) as [Htab [Hc0 [Hu1 Hu2]]].
  rewrite <- (firstn_skipn u (c :: r)) at 1.
  assert (Hlen : length (firstn u (c :: r)) = u) by (rewrite firstn_length; lia).
  unfold utf8len. cbn [utf8len_k]. apply N.eqb_neq in Hc0. rewrite Hc0.
  rewrite utf8len_k_skip. rewrite <- Htab.
  assert (Hsk : skipn (u - 1) r = skipn u (c :: r)) by (destruct u as [|u']; [lia|]; cbn [skipn]; f_equal; lia).
  rewrite Hsk. rewrite N.add_comm. constructor.
  - destruct u; [lia|]. cbn [firstn]. discriminate.
  - rewrite Hlen, firstn_skipn. exact Hu.
  - apply IH; [apply bytes_ok_skipn; exact Hok|exact H].
Qed.

Theorem utf8len_counts_chars s :
  bytes_ok s = true -> all_checkutf8 s = true -> utf8_chars s (utf8len s).
Proof. intros Hok H. exact (utf8len_counts_f _ s Hok H). Qed.

(* the number of characters of a string is unique *)
Lemma utf8_chars_det s n : utf8_chars s n -> forall m, utf8_chars s m -> n = m.
Proof.
  induction 1 as [|ch r n Hne Hch _ IH]; intros m Hm.
  - inversion Hm as [|ch' r' m' Hne' _ _ Heq]; [reflexivity|]. destruct ch'; [congruence|discriminate].
  - inversion Hm as [Heq|ch' r' m' Hne' Hch' Hr' Heq]; [destruct ch; [congruence|discriminate]|].
    rewrite Heq in Hch'. rewrite Hch in Hch'. inversion Hch' as [Hl].
    assert (ch = ch' /\ r = r') as [E1 E2].
    { clear - Heq Hl. revert ch' Heq Hl. induction ch as [|x ch IHc]; intros [|y ch'] Heq Hl; cbn [length] in Hl; try discriminate.
      - split; [reflexivity|]. symmetry. exact Heq.
      - cbn [app] in Heq. inversion Heq as [[Hx Hrest]]. subst y. destruct (IHc ch' Hrest ltac:(lia)) as [-> ->]. split; reflexivity. }
    subst ch' r'. f_equal. apply IH. exact Hr'.
Qed.

(* acceptance of a length-restricted string: every character passes ly_checkutf8 and the NUMBER OF CHARACTERS
   (not bytes) passes the length check; the canonical string is the value itself *)
Theorem str_store_iff parts s c :
  bytes_ok s = true ->
  (str_store parts s = Ok c <->
   c = s /\ all_checkutf8 s = true /\ exists n, utf8_chars s n /\ validate_range parts (Z.of_N n) = true).
Proof.
  intro Hok. unfold str_store. split.
  - destruct (all_checkutf8 s) eqn:Hu; [|discriminate].
    destruct (validate_range parts (Z.of_N (utf8len s))) eqn:Hr; [|discriminate].
    intro H. inversion H; subst c. split; [reflexivity|split; [reflexivity|]].
    exists (utf8len s). split; [apply utf8len_counts_chars; assumption|exact Hr].
  - intros [-> [Hu [n [Hn Hr]]]]. rewrite Hu.
    rewrite (utf8_chars_det _ _ (utf8len_counts_chars s Hok Hu) n Hn). rewrite Hr. reflexivity.
Qed.

Theorem str_canon_idempotent parts s c : str_store parts s = Ok c -> c = s /\ str_store parts c = Ok c.
Proof.
  unfold str_store. destruct (all_checkutf8 s) eqn:Hu; [|discriminate].
  destruct (validate_range parts (Z.of_N (utf8len s))) eqn:Hr; [|discriminate].
  intro H. inversion H; subst c. rewrite Hu, Hr. split; reflexivity.
Qed.

Theorem str_eq_iff_canon a b : str_compare a b = true <-> a = b.
Proof. apply beq_bytes_eq. Qed.

Theorem str_sort_total_order :
  (forall a, str_sort a a = Eq) /\
  (forall a b, str_sort a b = Eq <-> str_compare a b = true) /\
  (forall a b, str_sort a b = CompOpp (str_sort b a)) /\
  (forall a b c, str_sort a b = Lt -> str_sort b c = Lt -> str_sort a c = Lt).
Proof.
  unfold str_sort, str_compare. split; [|split; [|split]].
  - apply cmp_bytes_refl.
  - intros a b. rewrite cmp_bytes_eq, beq_bytes_eq. tauto.
  - apply cmp_bytes_antisym.
  - apply cmp_bytes_trans.
Qed.

(* the length is not the byte count: U+1F600 U+1F600 (8 bytes) has length 2; with length 2..5 it is accepted and an
   8-byte ASCII string is not *)
Theorem str_length_not_bytes :
  str_store [(2, 5)]%Z [240;159;152;128;240;159;152;128] = Ok [240;159;152;128;240;159;152;128] /\
  utf8len [240;159;152;128;240;159;152;128] = 2 /\
  str_store [(2, 5)]%Z [97;97;97;97;97;97;97;97] = Err E_RANGE.
Proof. repeat split; vm_compute; reflexivity. Qed.

(* ====================================================================================== *)
(* union                                                                                   *)
(* ====================================================================================== *)
Lemma union_find_spec ms s : forall k i v,
  union_find ms s k = Ok (i, v) <->
  exists j m, (i = k + j)%nat /\ nth_error ms j = Some m /\ m_store m s = Ok v /\
              forall j' m', (j' < j)%nat -> nth_error ms j' = Some m' -> is_ok (m_store m' s) = false.
Proof.
  induction ms as [|m0 ms IH]; intros k i v; cbn [union_find].
  - split; [discriminate|]. intros [j [m [_ [H _]]]]. destruct j; discriminate.
  - destruct (m_store m0 s) as [v0|e0] eqn:H0.
    + split.
      * intro H. inversion H; subst. exists 0%nat, m0.
        split; [lia|split; [reflexivity|split; [exact H0|]]]. intros j' m' Hlt. lia.
      * intros [j [m [Hi [Hn [Hs Hfirst]]]]]. destruct j as [|j].
        -- cbn in Hn. inversion Hn; subst m. rewrite H0 in Hs. inversion Hs; subst. f_equal. f_equal. lia.
        -- specialize (Hfirst 0%nat m0 ltac:(lia) eq_refl). rewrite H0 in Hfirst. discriminate.
    + rewrite IH. split.
      * intros [j [m [Hi [Hn [Hs Hfirst]]]]]. exists (S j), m.
        split; [lia|split; [exact Hn|split; [exact Hs|]]].
        intros [|j'] m' Hlt Hn'; [cbn in Hn'; inversion Hn'; subst; rewrite H0; reflexivity|].
        apply (Hfirst j' m'); [lia|exact Hn'].
      * intros [j [m [Hi [Hn [Hs Hfirst]]]]]. destruct j as [|j].
        -- cbn in Hn. inversion Hn; subst m. rewrite H0 in Hs. discriminate.
        -- exists j, m. split; [lia|split; [exact Hn|split; [exact Hs|]]].
           intros j' m' Hlt Hn'. apply (Hfirst (S j') m'); [lia|exact Hn'].
Qed.

(* the value is stored by the FIRST member type that accepts the text *)
Theorem union_store_first ms s i v :
  union_store ms s = Ok (i, v) <->
  exists m, nth_error ms i = Some m /\ m_store m s = Ok v /\
            forall j m', (j < i)%nat -> nth_error ms j = Some m' -> is_ok (m_store m' s) = false.
Proof.
  unfold union_store. rewrite union_find_spec. split.
  - intros [j [m [Hi H]]]. cbn in Hi. subst j. exists m. exact H.
  - intros [m H]. exists i, m. split; [reflexivity|exact H].
Qed.

(* members: storing the canonical string of a member value gives the value back *)
Lemma m_canon_store m s v : m_store m s = Ok v -> m_store m (m_canon v) = Ok v.
Proof.
  destruct m as [t parts|e|parts]; cbn [m_store].
  - destruct (int_store t parts s) as [z|] eqn:H; [|discriminate]. intro E. inversion E; subst v. cbn [m_canon].
    destruct (int_canon_idempotent t parts s z H) as [-> _]. reflexivity.
  - destruct (enum_store e s) as [it|] eqn:H; [|discriminate]. intro E. inversion E; subst v. cbn [m_canon].
    destruct (enum_canon_idempotent e s it H) as [_ ->]. reflexivity.
  - destruct (str_store parts s) as [c|] eqn:H; [|discriminate]. intro E. inversion E; subst v. cbn [m_canon].
    destruct (str_canon_idempotent parts s c H) as [_ ->]. reflexivity.
Qed.

(* members with the identity as canonicalisation *)
Lemma m_canon_ident m s v : m_store m s = Ok v -> (forall z, v <> VInt z) -> m_canon v = s.
Proof.
  destruct m as [t parts|e|parts]; cbn [m_store].
  - destruct (int_store t parts s); [|discriminate]. intros E Hn. inversion E; subst v. exfalso. exact (Hn _ eq_refl).
  - destruct (enum_store e s) as [it|] eqn:H; [|discriminate]. intros E _. inversion E; subst v. cbn [m_canon].
    apply (enum_canon_idempotent e s it H).
  - destruct (str_store parts s) as [c|] eqn:H; [|discriminate]. intros E _. inversion E; subst v. cbn [m_canon].
    apply (str_canon_idempotent parts s c H).
Qed.

(* whatever member stores the canonical string of an integer, its canonical string is that string *)
Lemma m_store_int_canon m z v : m_store m (int_canon z) = Ok v -> m_canon v = int_canon z.
Proof.
  destruct m as [t parts|e|parts]; cbn [m_store].
  - destruct (int_store t parts (int_canon z)) as [z'|] eqn:H; [|discriminate]. intro E. inversion E; subst v. cbn [m_canon].
    apply int_store_iff_lexical in H. destruct H as [Hlex _].
    assert (z' = z) by (eapply ly_int_lex_det; [exact Hlex|apply rfc_lex_is_ly_lex; apply Z_to_dec_lex]).
    subst. reflexivity.
  - destruct (enum_store e (int_canon z)) as [it|] eqn:H; [|discriminate]. intro E. inversion E; subst v. cbn [m_canon].
    apply (enum_canon_idempotent e _ it H).
  - destruct (str_store parts (int_canon z)) as [c|] eqn:H; [|discriminate]. intro E. inversion E; subst v. cbn [m_canon].
    apply (str_canon_idempotent parts _ c H).
Qed.

Lemma union_find_some ms s k : (exists m v, In m ms /\ m_store m s = Ok v) -> exists r, union_find ms s k = Ok r.
Proof.
  revert k. induction ms as [|m0 ms IH]; intros k [m [v [Hin Hs]]]; [destruct Hin|]. cbn [union_find].
  destruct (m_store m0 s) as [v0|e0] eqn:H0; [eexists; reflexivity|].
  destruct Hin as [->|Hin]; [congruence|]. apply IH. exists m, v. tauto.
Qed.

Lemma union_find_member ms s k i v : union_find ms s k = Ok (i, v) -> exists m, In m ms /\ m_store m s = Ok v.
Proof.
  intro H. apply union_find_spec in H. destruct H as [j [m [_ [Hn [Hs _]]]]]. exists m. split; [|exact Hs].
  eapply nth_error_In. exact Hn.
Qed.

(* canonicalisation is idempotent on the canonical STRING: the canonical string is accepted again and the value it
   gives has the same canonical string (it may be a value of an earlier member type: see union_eq_iff_canon_refuted) *)
Theorem union_canon_idempotent ms s v :
  union_store ms s = Ok v ->
  exists v', union_store ms (union_canon v) = Ok v' /\ union_canon v' = union_canon v.
Proof.
  unfold union_store, union_canon. destruct v as [i v]. cbn [snd]. intro H.
  destruct (union_find_member _ _ _ _ _ H) as [m [Hin Hs]].
  destruct v as [z|it|c].
  - (* stored by an integer member: the canonical string may be taken by another member, with the same string *)
    cbn [snd m_canon]. pose proof (m_canon_store m s _ Hs) as Hc. cbn [m_canon] in Hc.
    destruct (union_find_some ms (int_canon z) 0) as [[i' v'] Hr]; [exists m, (VInt z); tauto|].
    exists (i', v'). split; [exact Hr|]. cbn [snd].
    destruct (union_find_member _ _ _ _ _ Hr) as [m' [_ Hs']]. exact (m_store_int_canon m' z v' Hs').
  - pose proof (m_canon_ident m s _ Hs ltac:(discriminate)) as E. exists (i, VEnum it). cbn [snd]. rewrite E.
    split; [exact H|reflexivity].
  - pose proof (m_canon_ident m s _ Hs ltac:(discriminate)) as E. exists (i, VStr c). cbn [snd]. rewrite E.
    split; [exact H|reflexivity].
Qed.

(* equal (compare callback) implies equal canonical strings *)
Theorem union_eq_implies_canon a b : union_compare a b = true -> union_canon a = union_canon b.
Proof.
  unfold union_compare, union_canon. intro H. apply andb_true_iff in H. destruct H as [_ H].
  destruct (snd a) as [x|x|x]; destruct (snd b) as [y|y|y]; cbn [m_compare m_canon] in *; try discriminate.
  - apply int_eq_iff_canon. exact H.
  - apply enum_eq_iff_canon. exact H.
  - apply str_eq_iff_canon. exact H.
Qed.

(* for two values stored by the same member type: equal exactly when the canonical strings are equal *)
Theorem union_eq_iff_canon_same_member ms s1 s2 i v1 v2 :
  union_store ms s1 = Ok (i, v1) -> union_store ms s2 = Ok (i, v2) ->
  (union_compare (i, v1) (i, v2) = true <-> union_canon (i, v1) = union_canon (i, v2)).
Proof.
  intros H1 H2. split; [apply union_eq_implies_canon|].
  apply union_store_first in H1, H2. destruct H1 as [m1 [Hn1 [Hs1 _]]]. destruct H2 as [m2 [Hn2 [Hs2 _]]].
  rewrite Hn1 in Hn2. inversion Hn2; subst m2. unfold union_compare, union_canon. cbn [fst snd]. rewrite Nat.eqb_refl. cbn [andb].
  destruct m1 as [t parts|e|parts]; cbn [m_store] in Hs1, Hs2.
  - destruct (int_store t parts s1); [|discriminate]. destruct (int_store t parts s2); [|discriminate].
    inversion Hs1; inversion Hs2; subst. cbn [m_canon m_compare]. apply int_eq_iff_canon.
  - destruct (enum_store e s1); [|discriminate]. destruct (enum_store e s2); [|discriminate].
    inversion Hs1; inversion Hs2; subst. cbn [m_canon m_compare]. apply enum_eq_iff_canon.
  - destruct (str_store parts s1); [|discriminate]. destruct (str_store parts s2); [|discriminate].
    inversion Hs1; inversion Hs2; subst. cbn [m_canon m_compare]. apply str_eq_iff_canon.
Qed.

(* ... but not across member types: union {string {length 1} | int8}: the texts 5 and +5 are stored by different
   members, have the same canonical string 5 and compare as different; re-storing the canonical string of +5 gives
   a value that is not equal to it *)
Theorem union_eq_iff_canon_refuted :
  exists ms a b, union_store ms [53] = Ok a /\ union_store ms [43; 53] = Ok b /\
                 union_canon a = union_canon b /\ union_compare a b = false /\
                 union_store ms (union_canon b) = Ok a.
Proof.
  exists [MStr [(1, 1)%Z]; MInt I8 []], (0%nat, VStr [53]), (1%nat, VInt 5).
  repeat split; vm_compute; reflexivity.
Qed.

(* ordering *)
Lemma m_sort_laws ms i m :
  ms_wf ms -> nth_error ms i = Some m ->
  (forall a, m_val_ok m a -> m_sort a a = Eq) /\
  (forall a b, m_val_ok m a -> m_val_ok m b -> (m_sort a b = Eq <-> m_compare a b = true)) /\
  (forall a b, m_val_ok m a -> m_val_ok m b -> m_sort a b = CompOpp (m_sort b a)) /\
  (forall a b c, m_val_ok m a -> m_val_ok m b -> m_val_ok m c -> m_sort a b = Lt -> m_sort b c = Lt -> m_sort a c = Lt).
Proof.
  intros Hwf Hn. destruct m as [t parts|e|parts].
  - destruct int_sort_total_order as [R [E [A T]]].
    split; [|split; [|split]]; intros; repeat match goal with v : mval |- _ => destruct v end;
      cbn [m_val_ok m_sort m_compare] in *; try contradiction; auto. eapply T; eassumption.
  - assert (He : enum_wf e) by (apply Hwf; eapply nth_error_In; exact Hn).
    destruct (enum_sort_total_order e He) as [R [E [A [T _]]]].
    split; [|split; [|split]]; intros; repeat match goal with v : mval |- _ => destruct v end;
      cbn [m_val_ok m_sort m_compare] in *; try contradiction; auto. eapply T; eassumption.
  - destruct str_sort_total_order as [R [E [A T]]].
    split; [|split; [|split]]; intros; repeat match goal with v : mval |- _ => destruct v end;
      cbn [m_val_ok m_sort m_compare] in *; try contradiction; auto. eapply T; eassumption.
Qed.

(* the sort callback is a strict total order on the values of the union, consistent with the compare callback: values of
   a LATER member type come first, values of the same member type in the member's order *)
Theorem union_sort_total_order ms :
  ms_wf ms ->
  (forall a, u_val_ok ms a -> union_sort a a = Eq) /\
  (forall a b, u_val_ok ms a -> u_val_ok ms b -> (union_sort a b = Eq <-> union_compare a b = true)) /\
  (forall a b, u_val_ok ms a -> u_val_ok ms b -> union_sort a b = CompOpp (union_sort b a)) /\
  (forall a b c, u_val_ok ms a -> u_val_ok ms b -> u_val_ok ms c ->
                 union_sort a b = Lt -> union_sort b c = Lt -> union_sort a c = Lt).
Proof.
  intro Hwf. unfold union_sort, union_compare, u_val_ok. split; [|split; [|split]].
  - intros [i v] [m [Hn Hv]]. cbn [fst snd] in *. rewrite Nat.eqb_refl.
    destruct (m_sort_laws ms i m Hwf Hn) as [R _]. apply R. exact Hv.
  - intros [i v] [j w] [m [Hn Hv]] [m' [Hn' Hw]]. cbn [fst snd] in *.
    destruct (Nat.eqb i j) eqn:Hij; cbn [andb].
    + apply Nat.eqb_eq in Hij. subst j. rewrite Hn in Hn'. inversion Hn'; subst m'.
      destruct (m_sort_laws ms i m Hwf Hn) as [_ [E _]]. apply E; assumption.
    + destruct (Nat.ltb i j); split; discriminate.
  - intros [i v] [j w] [m [Hn Hv]] [m' [Hn' Hw]]. cbn [fst snd] in *.
    destruct (Nat.eqb i j) eqn:Hij.
    + apply Nat.eqb_eq in Hij. subst j. rewrite Nat.eqb_refl. rewrite Hn in Hn'. inversion Hn'; subst m'.
      destruct (m_sort_laws ms i m Hwf Hn) as [_ [_ [A _]]]. apply A; assumption.
    + assert (Hji : Nat.eqb j i = false) by (apply Nat.eqb_neq; apply Nat.eqb_neq in Hij; lia). rewrite Hji.
      apply Nat.eqb_neq in Hij.
      destruct (Nat.ltb i j) eqn:H1; destruct (Nat.ltb j i) eqn:H2; cbn [CompOpp]; try reflexivity;
        apply Nat.ltb_lt in H1 || apply Nat.ltb_ge in H1; apply Nat.ltb_lt in H2 || apply Nat.ltb_ge in H2; lia.
  - intros [i v] [j w] [k x] [m [Hn Hv]] [m' [Hn' Hw]] [m'' [Hn'' Hx]]. cbn [fst snd] in *.
    destruct (Nat.eqb i j) eqn:Hij; destruct (Nat.eqb j k) eqn:Hjk.
    + apply Nat.eqb_eq in Hij, Hjk. subst j k. rewrite Nat.eqb_refl. rewrite Hn in Hn', Hn''.
      assert (m' = m) by congruence. assert (m'' = m) by congruence. subst m' m''.
      destruct (m_sort_laws ms i m Hwf Hn) as [_ [_ [_ T]]]. apply T; assumption.
    + apply Nat.eqb_eq in Hij. subst j. rewrite Hjk. intros _ H. exact H.
    + apply Nat.eqb_eq in Hjk. subst k. rewrite Hij. intros H _. exact H.
    + destruct (Nat.ltb i j) eqn:H1; [discriminate|]. destruct (Nat.ltb j k) eqn:H2; [discriminate|]. intros _ _.
      apply Nat.ltb_ge in H1, H2. apply Nat.eqb_neq in Hij, Hjk.
      assert (Hik : Nat.eqb i k = false) by (apply Nat.eqb_neq; lia). rewrite Hik.
      assert (H3 : Nat.ltb i k = false) by (apply Nat.ltb_ge; lia). rewrite H3. reflexivity.
Qed.

(* what union_store returns is a well-formed value of the union *)
Lemma m_store_val_ok m s v : m_store m s = Ok v -> m_val_ok m v.
Proof.
  destruct m as [t parts|e|parts]; cbn [m_store].
  - destruct (int_store t parts s); [|discriminate]. intro E. inversion E. exact I.
  - destruct (enum_store e s) as [it|] eqn:H; [|discriminate]. intro E. inversion E; subst. cbn [m_val_ok].
    unfold enum_store in H. destruct (enum_find e s) eqn:Hf; [|discriminate]. inversion H; subst.
    apply (enum_find_some _ _ _ Hf).
  - destruct (str_store parts s); [|discriminate]. intro E. inversion E. exact I.
Qed.

Theorem union_store_val_ok ms s v : union_store ms s = Ok v -> u_val_ok ms v.
Proof.
  destruct v as [i v]. intro H. apply union_store_first in H. destruct H as [m [Hn [Hs _]]].
  exists m. split; [exact Hn|]. eapply m_store_val_ok. exact Hs.
Qed.

(* ====================================================================================== *)
(* ipv4-prefix host bits                                                                   *)
(* ====================================================================================== *)
Lemma ip4_mask_shift l : l <= 32 -> ip4_mask l = N.shiftl (N.ones l) (32 - l).
Proof.
  intro H. rewrite <- (N2Nat.id l). assert (Hn : (N.to_nat l <= 32)%nat) by lia. clear H.
  generalize dependent (N.to_nat l). clear l. intros n Hn.
  do 33 (destruct n as [|n]; [vm_compute; reflexivity|]). lia.
Qed.

(* the mask has exactly the [l] most significant of the 32 bits set *)
Lemma ip4_mask_bits l i : l <= 32 -> N.testbit (ip4_mask l) i = (32 - l <=? i) && (i <? 32).
Proof.
  intro H. rewrite (ip4_mask_shift l H).
  destruct (32 - l <=? i) eqn:Hi; cbn [andb].
  - apply N.leb_le in Hi. rewrite N.shiftl_spec_high' by exact Hi.
    destruct (i <? 32) eqn:H32.
    + apply N.ones_spec_low. apply N.ltb_lt in H32. lia.
    + apply N.ones_spec_high. apply N.ltb_ge in H32. lia.
  - apply N.leb_gt in Hi. apply N.shiftl_spec_low. exact Hi.
Qed.

Theorem ip4_zero_host_bits a l i :
  l <= 32 -> N.testbit (ip4_zero_host a l) i = N.testbit a i && (32 - l <=? i) && (i <? 32).
Proof. intro H. unfold ip4_zero_host. rewrite N.land_spec, (ip4_mask_bits l i H), andb_assoc. reflexivity. Qed.

Theorem ip4_zero_host_idempotent a l : ip4_zero_host (ip4_zero_host a l) l = ip4_zero_host a l.
Proof. unfold ip4_zero_host. rewrite <- N.land_assoc, N.land_diag. reflexivity. Qed.

(* two prefixes of the same length are stored as equal values exactly when the addresses agree on the network bits *)
Theorem ip4p_eq_iff_network a b l :
  l <= 32 -> a < 4294967296 -> b < 4294967296 ->
  (ip4p_compare (ip4p_store a l) (ip4p_store b l) = true <->
   forall i, 32 - l <= i -> i < 32 -> N.testbit a i = N.testbit b i).
Proof.
  intros Hl Ha Hb. unfold ip4p_compare, ip4p_store. cbn [fst snd]. rewrite N.eqb_refl, andb_true_r, N.eqb_eq. split.
  - intros H i H1 H2. assert (E : N.testbit (ip4_zero_host a l) i = N.testbit (ip4_zero_host b l) i) by (rewrite H; reflexivity).
    rewrite !ip4_zero_host_bits in E by exact Hl.
    assert (E1 : (32 - l <=? i) = true) by (apply N.leb_le; exact H1). assert (E2 : (i <? 32) = true) by (apply N.ltb_lt; exact H2).
    rewrite E1, E2, !andb_true_r in E. exact E.
  - intro H. apply N.bits_inj_iff. intro i. rewrite !ip4_zero_host_bits by exact Hl.
    destruct (32 - l <=? i) eqn:E1; [|rewrite !andb_false_r; reflexivity].
    destruct (i <? 32) eqn:E2; [|rewrite !andb_false_r; reflexivity].
    rewrite !andb_true_r. apply H; [apply N.leb_le; exact E1|apply N.ltb_lt; exact E2].
Qed.

(* prefix length 0 stores the address 0, prefix length 32 keeps every address bit *)
Theorem ip4_zero_host_ends a : a < 4294967296 -> ip4_zero_host a 0 = 0 /\ ip4_zero_host a 32 = a.
Proof.
  intro Ha. split; apply N.bits_inj_iff; intro i; rewrite ip4_zero_host_bits by lia.
  - rewrite N.bits_0. destruct (N.testbit a i); cbn [andb]; [|reflexivity].
    destruct (32 - 0 <=? i) eqn:E1; destruct (i <? 32) eqn:E2; try reflexivity. apply N.leb_le in E1. apply N.ltb_lt in E2. lia.
  - replace (32 - 32) with 0 by reflexivity. assert (E : (0 <=? i) = true) by (apply N.leb_le; lia). rewrite E, andb_true_r.
    destruct (i <? 32) eqn:E2; [apply andb_true_r|]. rewrite andb_false_r. apply N.ltb_ge in E2.
    symmetry. destruct (N.eq_dec a 0) as [->|Hn]; [apply N.bits_0|]. apply N.bits_above_log2.
    assert (N.log2 a < 32) by (apply N.log2_lt_pow2; lia). lia.
Qed.

(* ====================================================================================== *)
(* union: what does hold when the members' canonical forms are separated                    *)
(* ====================================================================================== *)
(* no earlier member accepts the canonical string of a value that the union stores with a later member *)
Definition union_separated (ms : list mty) : Prop :=
  forall s j vj i mi, union_store ms s = Ok (j, vj) -> (i < j)%nat -> nth_error ms i = Some mi ->
    is_ok (m_store mi (m_canon vj)) = false.

(* then canonicalisation is idempotent on the VALUE: the canonical string is stored by the same member as the same value *)
Theorem union_canon_store_separated ms s v :
  union_separated ms -> union_store ms s = Ok v -> union_store ms (union_canon v) = Ok v.
Proof.
  intros Hsep H. destruct v as [i v]. pose proof H as H0. apply union_store_first in H0. destruct H0 as [m [Hn [Hs _]]].
  apply union_store_first. exists m. split; [exact Hn|]. split.
  - unfold union_canon. cbn [snd]. exact (m_canon_store m s v Hs).
  - intros j m' Hlt Hn'. unfold union_canon. cbn [snd]. exact (Hsep s i v j m' H Hlt Hn').
Qed.

Lemma m_compare_refl v : m_compare v v = true.
Proof.
  destruct v as [z|it|c]; cbn [m_compare].
  - apply int_eq_iff_canon. reflexivity.
  - apply enum_eq_iff_canon. reflexivity.
  - apply str_eq_iff_canon. reflexivity.
Qed.

(* ... and two stored values are equal exactly when their canonical strings are equal *)
Theorem union_eq_iff_canon_separated ms s1 s2 a b :
  union_separated ms -> union_store ms s1 = Ok a -> union_store ms s2 = Ok b ->
  (union_compare a b = true <-> union_canon a = union_canon b).
Proof.
  intros Hsep Ha Hb. split; [apply union_eq_implies_canon|]. intro E.
  pose proof (union_canon_store_separated ms s1 a Hsep Ha) as Ea.
  pose proof (union_canon_store_separated ms s2 b Hsep Hb) as Eb.
  rewrite E, Eb in Ea. inversion Ea; subst. unfold union_compare. rewrite Nat.eqb_refl. cbn [andb]. apply m_compare_refl.
Qed.

(* a sufficient condition: only the first member is an integer type (enumeration and string members keep the text as the
   canonical string, so what they store was refused by every earlier member) *)
Definition not_int (m : mty) : Prop := match m with MInt _ _ => False | _ => True end.

Theorem union_separated_ints_first ms : Forall not_int (tl ms) -> union_separated ms.
Proof.
  intros Hni s j vj i mi Hst Hlt Hn.
  apply union_store_first in Hst. destruct Hst as [mj [Hnj [Hsj Hfirst]]].
  assert (Hmj : not_int mj).
  { destruct j as [|j]; [lia|]. destruct ms as [|m0 ms']; [discriminate|]. cbn [tl] in Hni. cbn [nth_error] in Hnj.
    rewrite Forall_forall in Hni. apply Hni. eapply nth_error_In. exact Hnj. }
  assert (Hc : m_canon vj = s).
  { apply (m_canon_ident mj s vj Hsj). intros z Hz. subst vj. destruct mj as [t parts|e|parts]; [exact Hmj| |]; cbn [m_store] in Hsj.
    - destruct (enum_store e s); discriminate.
    - destruct (str_store parts s); discriminate. }
  rewrite Hc. exact (Hfirst i mi Hlt Hn).
Qed.
