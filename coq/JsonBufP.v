(* JsonBufP.v - proofs about JsonBuf.v (slice jsonbuf): every store of lyjson_string() lies inside the real block
   although the variable size lags behind it, the increment loop ends, the stores are contiguous and fill the
   final block exactly, the allocator calls are balanced, sizes stay within the input length plus a constant;
   the growth by a single step (without the increment loop) overflows. *)
From Coq Require Import NArith List Lia Bool.
From LY Require Import JsonBuf.
Import ListNotations.
Local Open Scope N_scope.

Ltac sp := repeat match goal with |- _ /\ _ => split end.
Ltac nums :=
  repeat match goal with
         | H : (_ <=? _) = true |- _ => apply N.leb_le in H
         | H : (_ <=? _) = false |- _ => apply N.leb_gt in H
         | H : (_ <? _) = true |- _ => apply N.ltb_lt in H
         | H : (_ <? _) = false |- _ => apply N.ltb_ge in H
         | H : (_ =? _) = true |- _ => apply N.eqb_eq in H
         | H : (_ =? _) = false |- _ => apply N.eqb_neq in H
         end.

Definition SLACK : N := 132.   (* 4 + BUF_STEP *)

Lemma incr_loop_ok : forall fuel target size incr,
  target < size + incr + N.of_nat fuel * BUF_STEP -> size + incr <= target + BUF_STEP ->
  exists inc, incr_loop fuel target size incr = Some inc /\ target < size + inc /\ size + inc <= target + BUF_STEP /\ incr <= inc.
Proof.
  unfold BUF_STEP. induction fuel as [|f IH]; intros target size incr H B; simpl incr_loop.
  - assert (E : (target <? size + incr) = true) by (apply N.ltb_lt; simpl in H; lia).
    rewrite E. apply N.ltb_lt in E. exists incr. sp; auto; lia.
  - destruct (target <? size + incr) eqn:E; nums.
    + exists incr. sp; auto; lia.
    + destruct (IH target size (incr + 128)) as (inc & A & B1 & C & D); [rewrite Nat2N.inj_succ in H; lia|lia|].
      exists inc. sp; auto; lia.
Qed.

Lemma increment_ok : forall target size, size <= target ->
  exists inc, increment true target size = Some inc /\ target < size + inc /\ size + inc <= target + BUF_STEP /\ BUF_STEP <= inc.
Proof.
  intros target size H. unfold increment. apply incr_loop_ok; [|lia].
  rewrite Nat2N.inj_succ, N2Nat.id. unfold BUF_STEP.
  pose proof (N.div_mod target 128 ltac:(lia)). pose proof (N.mod_lt target 128 ltac:(lia)). lia.
Qed.

Lemma one_wr : forall p n z, p + n <= z -> Forall wr_ok [W p n z].
Proof. intros. constructor; [exact H|constructor]. Qed.

Definition held (s : st) : nat := if b_alloc s then 1%nat else 0%nat.

Lemma mallocs_app : forall a b, mallocs (a ++ b) = (mallocs a + mallocs b)%nat.
Proof. intros. unfold mallocs. now rewrite filter_app, app_length. Qed.
Lemma frees_app : forall a b, frees (a ++ b) = (frees a + frees b)%nat.
Proof. intros. unfold frees. now rewrite filter_app, app_length. Qed.

(* the state invariant: the variable size never exceeds the real block; the block is not much larger than
   what was read *)
Definition Inv (s : st) : Prop :=
  b_alloc s = true -> b_size s <= b_cap s /\ b_cap s <= b_len s + b_off s + SLACK.

Ltac fin s :=
  sp; try lia; try reflexivity;
  match goal with
  | |- Forall wr_ok _ => destruct (b_off s =? 0); [constructor|apply one_wr; lia]
  | |- contig _ _ = _ => let E0 := fresh "E0" in
      destruct (b_off s =? 0) eqn:E0; nums; simpl; [f_equal; lia|now rewrite N.eqb_refl]
  | |- forall w : wr, _ => let w := fresh "w" in let Hw := fresh "Hw" in
      intros w Hw; destruct (b_off s =? 0); cbn [In] in Hw; [tauto|]; destruct Hw as [<-|[]]; cbn [wr_size]; lia
  | |- forall a : al, _ => let a := fresh "a" in let Ha := fresh "Ha" in
      intros a Ha; cbn [In app] in Ha; repeat (destruct Ha as [<-|Ha]; [cbn [al_size]; lia|]); tauto
  | _ => idtac
  end.

Lemma prepare_ok : forall s, Inv s ->
  exists s1 ws tr, esc_prepare true s = PR s1 ws tr /\
    b_alloc s1 = true /\ b_off s1 = 0 /\ b_len s1 = b_len s + b_off s /\ b_len s1 + 4 < b_cap s1 /\
    b_size s1 <= b_cap s1 /\ b_cap s1 <= b_len s1 + SLACK /\
    Forall wr_ok ws /\ contig (b_len s) ws = Some (b_len s1) /\
    (forall w, In w ws -> wr_size w <= b_cap s1) /\ (forall a, In a tr -> al_size a <= b_cap s1) /\
    (held s + mallocs tr = 1)%nat /\ frees tr = 0%nat.
Proof.
  intros s I. unfold esc_prepare, Inv, SLACK, BUF_START, BUF_STEP in *.
  destruct (b_alloc s) eqn:EA.
  - destruct (I eq_refl) as (I1 & I2).
    destruct (b_size s <=? b_len s + b_off s + 4) eqn:E; nums.
    + destruct (increment_ok (b_len s + b_off s + 4) (b_size s) E) as (inc & EI & L & U & M). rewrite EI.
      unfold BUF_STEP in *. eexists _, _, _. split; [reflexivity|]. cbn [b_alloc b_size b_cap b_len b_off]. unfold held; rewrite EA. fin s.
    + eexists _, _, _. split; [reflexivity|]. cbn [b_alloc b_size b_cap b_len b_off]. unfold held; rewrite EA. fin s.
  - destruct (24 <=? b_len s + b_off s + 4) eqn:E; nums.
    + destruct (increment_ok (b_len s + b_off s + 4) 24 E) as (inc & EI & L & U & M). rewrite EI.
      unfold BUF_STEP in *. eexists _, _, _. split; [reflexivity|]. cbn [b_alloc b_size b_cap b_len b_off]. unfold held; rewrite EA. fin s.
    + eexists _, _, _. split; [reflexivity|]. cbn [b_alloc b_size b_cap b_len b_off]. unfold held; rewrite EA. fin s.
Qed.

Lemma contig_app : forall ws1 ws2 p q, contig p ws1 = Some q -> contig p (ws1 ++ ws2) = contig q ws2.
Proof.
  induction ws1 as [|[pos n z] r IH]; simpl; intros ws2 p q H.
  - now inversion H.
  - destruct (pos =? p); [now apply IH|discriminate].
Qed.

Definition sizes_le (ws : list wr) (tr : list al) (b : N) : Prop :=
  (forall w, In w ws -> wr_size w <= b) /\ (forall a, In a tr -> al_size a <= b).

Lemma step_ok : forall s e, ev_wf e -> Inv s ->
  match step true s e with
  | (Cont s1, ws, tr) =>
      Inv s1 /\ Forall wr_ok ws /\ contig (b_len s) ws = Some (b_len s1) /\
      b_len s1 + b_off s1 <= b_len s + b_off s + ev_bytes e /\
      sizes_le ws tr (b_len s + b_off s + ev_bytes e + SLACK) /\
      (held s + mallocs tr = held s1)%nat /\ frees tr = 0%nat /\ (b_alloc s1 = false -> ws = [] /\ tr = [])
  | (Stop r, ws, tr) =>
      r <> RFuel /\ Forall wr_ok ws /\ sizes_le ws tr (b_len s + b_off s + ev_bytes e + SLACK) /\
      match r with
      | ROk true len => b_alloc s = true /\ contig (b_len s) ws = Some (len + 1) /\ tr = [ARealloc (len + 1)]
      | ROk false len => b_alloc s = false /\ ws = [] /\ tr = []
      | RErr => (held s + mallocs tr = frees tr)%nat /\ (frees tr <= 1)%nat
      | RFuel => True
      end
  end.
Proof.
  intros s e WF I. unfold sizes_le. destruct e; cbn [step].
  - (* EPlain *)
    cbn [b_alloc b_size b_cap b_len b_off ev_bytes]. unfold Inv, held in *. cbn [b_alloc b_size b_cap b_len b_off].
    sp; try (intros ? []); try reflexivity; try lia; auto.
    intro A. destruct (I A). unfold SLACK in *. lia.
  - (* EEsc *)
    destruct (prepare_ok s I) as (s1 & ws & tr & E & A & O & Ln & Sp & Sz & Cp & F & C & S1 & S2 & M & Fr).
    rewrite E. simpl in WF.
    assert (K : k <= ev_bytes (EEsc k)) by (cbn [ev_bytes]; destruct (k <=? 1) eqn:EK; nums; lia).
    generalize dependent (ev_bytes (EEsc k)). intros eb K.
    unfold Inv, held, SLACK in *. cbn [b_alloc b_size b_cap b_len b_off].
    sp; try lia; try discriminate; auto.
    + apply Forall_app. split; auto. apply one_wr. lia.
    + rewrite (contig_app _ _ _ _ C). cbn [contig]. now rewrite N.eqb_refl.
    + intros w Hw. apply in_app_or in Hw. destruct Hw as [Hw|[<-|[]]]; [specialize (S1 w Hw)|cbn [wr_size]]; lia.
    + intros a Ha. specialize (S2 a Ha). lia.
  - (* EEscBad *)
    destruct (prepare_ok s I) as (s1 & ws & tr & E & A & O & Ln & Sp & Sz & Cp & F & C & S1 & S2 & M & Fr).
    rewrite E. unfold held, SLACK in *. cbn [ev_bytes]. rewrite mallocs_app, frees_app.
    change (mallocs [AFree]) with 0%nat. change (frees [AFree]) with 1%nat.
    sp; try lia; try discriminate; auto.
    + intros w Hw. specialize (S1 w Hw). lia.
    + intros x Hx. apply in_app_or in Hx. destruct Hx as [Hx|[<-|[]]]; [specialize (S2 x Hx)|cbn [al_size]]; lia.
  - (* EBadChar *)
    unfold free_tr, held. destruct (b_alloc s); cbn; sp; try discriminate; auto; try (intros ? []); try lia.
    subst a. cbn. lia.
  - (* EEnd *)
    unfold held, SLACK. destruct (b_alloc s) eqn:EA; cbn [ev_bytes].
    + sp; try discriminate; auto.
      * apply Forall_app. split; [destruct (b_off s =? 0); [constructor|apply one_wr; lia]|apply one_wr; lia].
      * intros w Hw. apply in_app_or in Hw. destruct Hw as [Hw|[<-|[]]]; [|cbn [wr_size]; lia].
        destruct (b_off s =? 0); cbn [In] in Hw; [tauto|]. destruct Hw as [<-|[]]. cbn [wr_size]. lia.
      * intros a [<-|[]]. cbn [al_size]. lia.
      * destruct (b_off s =? 0) eqn:E0; nums; cbn [app contig].
        -- replace (b_len s + b_off s) with (b_len s) by lia. now rewrite N.eqb_refl.
        -- now rewrite !N.eqb_refl.
    + sp; try discriminate; auto; intros ? [].
  - (* EEof *)
    unfold free_tr, held. destruct (b_alloc s); cbn; sp; try discriminate; auto; try (intros ? []); try lia.
    subst a. cbn. lia.
Qed.

Lemma run_ok : forall evs s, Forall ev_wf evs -> Inv s ->
  match run true s evs with
  | (r, ws, tr) =>
      r <> RFuel /\ Forall wr_ok ws /\ sizes_le ws tr (b_len s + b_off s + evs_bytes evs + SLACK) /\
      match r with
      | ROk true len => contig (b_len s) ws = Some (len + 1) /\ (exists tr1, tr = tr1 ++ [ARealloc (len + 1)]) /\
                        (held s + mallocs tr = 1)%nat /\ frees tr = 0%nat
      | ROk false len => b_alloc s = false /\ ws = [] /\ tr = []
      | RErr => (held s + mallocs tr = frees tr)%nat /\ (frees tr <= 1)%nat
      | RFuel => True
      end
  end.
Proof.
  induction evs as [|e rest IH]; intros s WF I.
  - pose proof (step_ok s EEof Logic.I I) as S. cbn [run]. destruct (step true s EEof) as [[[s1|r] ws] tr] eqn:E.
    + cbn [step] in E. discriminate.
    + cbn [step] in E. inversion E; subst. cbn [evs_bytes fold_right]. cbn [ev_bytes] in S.
      destruct S as (NF & F & Sz & (R1 & R2)). sp; auto.
  - inversion WF as [|? ? We Wr]; subst. cbn [run]. pose proof (step_ok s e We I) as S.
    destruct (step true s e) as [[[s1|r] ws] tr].
    + destruct S as (I1 & F & C & Le & (S1 & S2) & M & Fr & E0). specialize (IH s1 Wr I1).
      destruct (run true s1 rest) as [[r ws2] tr2]. destruct IH as (NF & F2 & (R1 & R2) & R).
      change (evs_bytes (e :: rest)) with (ev_bytes e + evs_bytes rest).
      split; auto. split; [apply Forall_app; auto|]. split.
      * split.
        -- intros w Hw. apply in_app_or in Hw. destruct Hw as [Hw|Hw]; [specialize (S1 w Hw)|specialize (R1 w Hw)]; lia.
        -- intros a Ha. apply in_app_or in Ha. destruct Ha as [Ha|Ha]; [specialize (S2 a Ha)|specialize (R2 a Ha)]; lia.
      * destruct r as [|[|] len|]; auto.
        -- rewrite mallocs_app, frees_app. lia.
        -- destruct R as (C2 & (tr1 & ->) & M2 & Fr2). sp.
           ++ now rewrite (contig_app _ _ _ _ C).
           ++ exists (tr ++ tr1). now rewrite app_assoc.
           ++ rewrite mallocs_app. lia.
           ++ rewrite frees_app. lia.
        -- destruct R as (A2 & -> & ->). destruct (E0 A2) as (-> & ->). sp; auto.
           unfold held in M. rewrite A2 in M. cbn in M. destruct (b_alloc s); [discriminate|reflexivity].
    + destruct S as (NF & F & (S1 & S2) & R). change (evs_bytes (e :: rest)) with (ev_bytes e + evs_bytes rest).
      split; auto. split; auto. split.
      * split; [intros w Hw; specialize (S1 w Hw); lia|intros a Ha; specialize (S2 a Ha); lia].
      * destruct r as [|[|] len|]; auto. destruct R as (A & C & ->). sp; auto.
        -- now exists [].
        -- unfold held. rewrite A. reflexivity.
Qed.

Lemma init_inv : Inv init.
Proof. unfold Inv, init. cbn. discriminate. Qed.

Theorem no_overflow : forall evs, Forall ev_wf evs ->
  match json_string evs with (r, ws, _) => r <> RFuel /\ Forall wr_ok ws end.
Proof.
  intros evs WF. unfold json_string. pose proof (run_ok evs init WF init_inv) as R.
  destruct (run true init evs) as [[r ws] tr]. tauto.
Qed.

Theorem len_exact : forall evs, Forall ev_wf evs ->
  match json_string evs with
  | (ROk true len, ws, tr) => contig 0 ws = Some (len + 1) /\ exists tr1, tr = tr1 ++ [ARealloc (len + 1)]
  | (ROk false len, ws, tr) => ws = [] /\ tr = []
  | _ => True
  end.
Proof.
  intros evs WF. unfold json_string. pose proof (run_ok evs init WF init_inv) as R.
  destruct (run true init evs) as [[r ws] tr]. destruct r as [|[|] len|]; auto; cbn in R; tauto.
Qed.

Theorem calls_balanced : forall evs, Forall ev_wf evs ->
  match json_string evs with
  | (RErr, _, tr) => mallocs tr = frees tr /\ (frees tr <= 1)%nat
  | (ROk true _, _, tr) => mallocs tr = 1%nat /\ frees tr = 0%nat
  | (ROk false _, _, tr) => tr = []
  | (RFuel, _, _) => True
  end.
Proof.
  intros evs WF. unfold json_string. pose proof (run_ok evs init WF init_inv) as R.
  destruct (run true init evs) as [[r ws] tr]. destruct r as [|[|] len|]; auto; cbn in R; tauto.
Qed.

Theorem size_bounded : forall evs, Forall ev_wf evs ->
  match json_string evs with
  | (_, ws, tr) => (forall w, In w ws -> wr_size w <= evs_bytes evs + SLACK) /\
                   (forall a, In a tr -> al_size a <= evs_bytes evs + SLACK)
  end.
Proof.
  intros evs WF. unfold json_string. pose proof (run_ok evs init WF init_inv) as R.
  destruct (run true init evs) as [[r ws] tr]. destruct R as (_ & _ & R & _). exact R.
Qed.

(* growth by a single step: 200 plain bytes, then an escape: the block gets 24 + 128 = 152 bytes and the 200
   pending bytes are stored into it *)
Definition onestep_witness : list ev := repeat (EPlain 1) 200 ++ [EEsc 1; EEnd].

Lemma onestep_overflows :
  Forall ev_wf onestep_witness /\
  match json_string_onestep onestep_witness with (_, ws, _) => forallb wr_okb ws = false end /\
  match json_string onestep_witness with (_, ws, _) => forallb wr_okb ws = true end.
Proof.
  split; [|split; vm_compute; reflexivity].
  unfold onestep_witness. apply Forall_app. split.
  - apply Forall_forall. intros e I. apply repeat_spec in I. subst. simpl. lia.
  - repeat first [apply Forall_nil | apply Forall_cons; [simpl; first [lia | exact Logic.I]|]].
Qed.

Lemma wr_okb_ok : forall w, wr_okb w = true <-> wr_ok w.
Proof. intros [p n z]. simpl. apply N.leb_le. Qed.
