(* DiffRev.v -- model of lyd_diff_reverse_all() (src/diff.c) on the diff trees of DiffTree.v, non-user-ordered
   fragment.  MODEL ONLY (lemmas: DiffRevP.v).

   lyd_diff_reverse_all(src_diff, &diff):
     - lyd_dup_siblings(src_diff, NULL, LYD_DUP_RECURSIVE | LYD_DUP_NO_LYDS): [redup] (the default flags survive, the
       lyd_insert_node() walk clears a default inner node that gets a child without the flag);
     - LYD_TREE_DFS over every root, keys skipped, effective operation from lyd_diff_get_op():
         create  -> operation delete, every yang:operation = create below is removed
                    (lyd_diff_reverse_remove_op_r; its error on another operation is IGNORED by the caller and only
                    stops the clean-up of that child subtree), the subtree is not entered;
         delete  -> the mirror image;
         replace -> leaf: value and yang:orig-value are exchanged (lyd_diff_reverse_value; lyd_change_term() on a
                    default leaf clears the flag and runs lyd_np_cont_dflt_del() on the diff parents, then the flag
                    is put back), then flag and yang:orig-default are exchanged when they differ
                    (lyd_diff_reverse_default);
         none    -> leaf / leaf-list: lyd_diff_reverse_default (LY_EINT without yang:orig-default); inner: nothing. *)
From LY Require Import Base Tree DiffTree.
Local Open Scope N_scope.

Definition e_exist : N := 4.        (* LY_EEXIST *)
Definition e_not : N := 11.         (* LY_ENOT *)

(* lyd_diff_reverse_remove_op_r(diff, op): pre-order walk; a node with the expected operation loses it, a node with
   another one stops the whole walk (second component: stopped) *)
Fixpoint rm_op (ex : dop) (d : dd) {struct d} : dd * bool :=
  match d with
  | DD s v f op od ov ch =>
      let go :=
        (fix go (l : list dd) : list dd * bool :=
           match l with
           | [] => ([], false)
           | c :: r =>
               let '(c', ab) := rm_op ex c in
               if ab then (c' :: r, true)
               else let '(r', ab') := go r in (c' :: r', ab')
           end) in
      match op with
      | Some x =>
          if dop_eqb x ex then let '(ch', ab) := go ch in (DD s v f None od ov ch', ab)
          else (d, true)
      | None => let '(ch', ab) := go ch in (DD s v f None od ov ch', ab)
      end
  end.

(* lyd_diff_reverse_default() *)
Definition rev_default (d : dd) : res dd :=
  match dd_odflt d with
  | None => Err e_int
  | Some od =>
      if Bool.eqb od (dd_dflt d) then Ok d
      else Ok (dd_set_odflt (dd_set_dflt d od) (Some (dd_dflt d)))
  end.

Section RevChildren.
  Variable step : dd -> res (dd * bool).
  (* the children one after the other; [fl] = default flag of their parent, [up] = a lyd_np_cont_dflt_del() walk
     passed the parent *)
  Fixpoint rev_children (l : list dd) (fl : bool) (up : bool) : res (list dd * bool * bool) :=
    match l with
    | [] => Ok ([], fl, up)
    | c :: r =>
        match step c with
        | Err e => Err e
        | Ok (c', w) =>
            let fl' := if w then false else fl in
            let up' := up || (w && fl) in
            match rev_children r fl' up' with
            | Err e => Err e
            | Ok (r', fl'', up'') => Ok (c' :: r', fl'', up'')
            end
        end
    end.
End RevChildren.

(* one node of the duplicated diff; result: the reversed node and whether a lyd_np_cont_dflt_del() walk reaches its
   parent *)
Fixpoint rev_node (sch : schema) (inh : option dop) (d : dd) {struct d} : res (dd * bool) :=
  match d with
  | DD s v f op od ov ch =>
      if is_key sch s then Ok (d, false)
      else
        match eff_op inh op with
        | None => Err e_int
        | Some OpCreate => Ok (DD s v f (Some OpDelete) od ov (map (fun c => fst (rm_op OpCreate c)) ch), false)
        | Some OpDelete => Ok (DD s v f (Some OpCreate) od ov (map (fun c => fst (rm_op OpDelete c)) ch), false)
        | Some OpReplace =>
            match kind_of sch s with
            | KLeaf =>
                match ov with
                | None => Err e_inval
                | Some o1 =>
                    (* lyd_change_term(node, orig-value): nothing but success is accepted *)
                    if beq_bytes o1 v then Err (if f then e_exist else e_not)
                    else
                      match rev_default (DD s o1 f op od (Some v) ch) with
                      | Err e => Err e
                      | Ok d' => Ok (d', f)
                      end
                end
            | KAny | KList | KLeafList => Err e_unsupported
            | KCont _ => Err e_int
            end
        | Some OpNone =>
            match kind_of sch s with
            | KLeaf | KLeafList =>
                match rev_default d with
                | Err e => Err e
                | Ok d' => Ok (d', false)
                end
            | _ =>
                match rev_children (rev_node sch (child_inh inh op)) ch f false with
                | Err e => Err e
                | Ok (ch', f', up) => Ok (DD s v f' op od ov ch', up)
                end
            end
        end
  end.

Fixpoint rev_roots (sch : schema) (ds : list dd) : res (list dd) :=
  match ds with
  | [] => Ok []
  | d :: r =>
      match rev_node sch None d with
      | Err e => Err e
      | Ok (d', _) =>
          match rev_roots sch r with
          | Err e => Err e
          | Ok r' => Ok (d' :: r')
          end
      end
  end.

(* lyd_diff_reverse_all() *)
Definition reverse (sch : schema) (ds : list dd) : res (list dd) := rev_roots sch (map redup ds).
