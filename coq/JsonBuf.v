(* JsonBuf.v - slice jsonbuf: the buffer bookkeeping of lyjson_string() of src/json.c, as coded, with the bytes
   abstracted away and the sizes kept.

   The C function walks over the text after the opening quotation mark. Plain characters are only counted
   (offset = pending plain bytes at in[0 .. offset), not copied). The first escape sequence makes the value
   dynamic: malloc of LYJSON_STRING_BUF_START = 24 bytes; then, IF len + offset + 4 >= size, an increment is
   searched ( increment = 128; while len + offset + 4 >= size + increment: increment += 128 ), the block is
   reallocated to size + increment bytes - and the variable size is advanced by ONE step of 128 only, whatever
   the increment was. So the variable size lags behind the real size of the block after a long run of plain
   bytes; the model keeps both (b_size = the variable, b_cap = the block). Then the pending plain bytes are
   copied to buf[len ..), and ly_pututf8() stores the 1 to 3 bytes of the escaped character at buf[len ..).
   At the closing quotation mark a dynamic value is reallocated to exactly len + offset + 1 bytes, the pending
   bytes are copied and the NUL is stored.

   Every store is recorded as a write (position, count, real size of the block at that moment), every allocator
   call with its size (what the C driver impl/t_jsonbuf.c observes). How a text is cut into events is the
   business of the string lexer model (slice json, JsonText.v) and of the generator of the T2 component.
   Numbers are unbounded N (bounded by the input length + 132, theorem size_bounded). Allocation failure
   (LY_EMEM) is not modelled. *)
From Coq Require Import NArith List Lia Bool.
Import ListNotations.
Local Open Scope N_scope.

Definition BUF_START : N := 24.
Definition BUF_STEP : N := 128.

Record st := mkst { b_alloc : bool; b_size : N; b_cap : N; b_len : N; b_off : N }.

Inductive wr := W (pos n size : N).
Definition wr_ok (w : wr) : Prop := match w with W pos n size => pos + n <= size end.
Definition wr_okb (w : wr) : bool := match w with W pos n size => pos + n <=? size end.
Definition wr_size (w : wr) : N := match w with W _ _ z => z end.

Inductive al := AMalloc (n : N) | ARealloc (n : N) | AFree.
Definition al_size (a : al) : N := match a with AMalloc n => n | ARealloc n => n | AFree => 0 end.

Inductive ev :=
| EPlain (u : N)   (* one plain character of u bytes (ly_getutf8: 1 to 4): offset += u *)
| EEsc (k : N)     (* escape sequence whose character ly_pututf8 stores in k bytes (1 to 3) *)
| EEscBad          (* unknown escape, broken \u, character ly_pututf8 refuses (e.g. \b \f \u0000): error *)
| EBadChar         (* invalid UTF-8 or a character not allowed in a JSON string: error *)
| EEnd             (* the closing quotation mark *)
| EEof.            (* NUL before the closing quotation mark: error *)

Definition ev_wf (e : ev) : Prop :=
  match e with EPlain u => 1 <= u <= 4 | EEsc k => 1 <= k <= 4 | _ => True end.

(* for (increment = STEP; target >= size + increment; increment += STEP) {}   (None: fuel of the model exhausted) *)
Fixpoint incr_loop (fuel : nat) (target size incr : N) : option N :=
  if target <? size + incr then Some incr
  else match fuel with O => None | S f => incr_loop f target size (incr + BUF_STEP) end.

(* the increment: as coded (loop = true), or a single step (loop = false: the code without the for loop, the
   class of defect the loop is there to prevent) *)
Definition increment (loop : bool) (target size : N) : option N :=
  if loop then incr_loop (S (N.to_nat (target / BUF_STEP))) target size BUF_STEP else Some BUF_STEP.

Inductive pr := PR (s : st) (ws : list wr) (tr : list al) | PRFuel.

(* the head of the escape branch: buffer, growth, copy of the pending plain bytes *)
Definition esc_prepare (loop : bool) (s : st) : pr :=
  let size0 := if b_alloc s then b_size s else BUF_START in
  let cap0 := if b_alloc s then b_cap s else BUF_START in
  let tr0 := if b_alloc s then [] else [AMalloc BUF_START] in
  let target := b_len s + b_off s + 4 in
  let grown :=
    if size0 <=? target then
      match increment loop target size0 with
      | Some inc => Some (size0 + BUF_STEP, size0 + inc, [ARealloc (size0 + inc)])
      | None => None
      end
    else Some (size0, cap0, []) in
  match grown with
  | None => PRFuel
  | Some (size1, cap1, tr1) =>
      PR (mkst true size1 cap1 (b_len s + b_off s) 0)
         (if b_off s =? 0 then [] else [W (b_len s) (b_off s) cap1])
         (tr0 ++ tr1)
  end.

Inductive res := RErr | ROk (dynamic : bool) (len : N) | RFuel.
Inductive out := Cont (s : st) | Stop (r : res).

Definition free_tr (s : st) : list al := if b_alloc s then [AFree] else [].

Definition step (loop : bool) (s : st) (e : ev) : out * list wr * list al :=
  match e with
  | EPlain u => (Cont (mkst (b_alloc s) (b_size s) (b_cap s) (b_len s) (b_off s + u)), [], [])
  | EEsc k =>
      match esc_prepare loop s with
      | PRFuel => (Stop RFuel, [], [])
      | PR s1 ws tr =>
          (Cont (mkst true (b_size s1) (b_cap s1) (b_len s1 + k) 0), ws ++ [W (b_len s1) k (b_cap s1)], tr)
      end
  | EEscBad =>
      match esc_prepare loop s with
      | PRFuel => (Stop RFuel, [], [])
      | PR s1 ws tr => (Stop RErr, ws, tr ++ [AFree])
      end
  | EBadChar | EEof => (Stop RErr, [], free_tr s)
  | EEnd =>
      if b_alloc s then
        let size1 := b_len s + b_off s + 1 in
        (Stop (ROk true (b_len s + b_off s)),
         (if b_off s =? 0 then [] else [W (b_len s) (b_off s) size1]) ++ [W (b_len s + b_off s) 1 size1],
         [ARealloc size1])
      else (Stop (ROk false (b_len s + b_off s)), [], [])
  end.

Fixpoint run (loop : bool) (s : st) (evs : list ev) : res * list wr * list al :=
  match evs with
  | [] => match step loop s EEof with (Stop r, ws, tr) => (r, ws, tr) | (Cont _, ws, tr) => (RErr, ws, tr) end
  | e :: rest =>
      match step loop s e with
      | (Stop r, ws, tr) => (r, ws, tr)
      | (Cont s1, ws, tr) =>
          match run loop s1 rest with (r, ws2, tr2) => (r, ws ++ ws2, tr ++ tr2) end
      end
  end.

Definition init : st := mkst false 0 0 0 0.

Definition json_string (evs : list ev) := run true init evs.
Definition json_string_onestep (evs : list ev) := run false init evs.

(* number of input bytes an event list stands for, at least *)
Definition ev_bytes (e : ev) : N :=
  match e with EPlain u => u | EEsc k => (if k <=? 1 then 2 else 6) | EEscBad => 1 | EBadChar => 1 | EEnd => 1 | EEof => 0 end.
Definition evs_bytes (evs : list ev) : N := fold_right (fun e a => ev_bytes e + a) 0 evs.

Fixpoint contig (p : N) (ws : list wr) : option N :=
  match ws with
  | [] => Some p
  | W pos n _ :: r => if pos =? p then contig (p + n) r else None
  end.

Definition is_malloc (a : al) : bool := match a with AMalloc _ => true | _ => false end.
Definition is_free (a : al) : bool := match a with AFree => true | _ => false end.
Definition mallocs (tr : list al) : nat := length (filter is_malloc tr).
Definition frees (tr : list al) : nat := length (filter is_free tr).
