(* Extract_merge.v -- extraction of the merge slice (Tree + Merge) to coq/model_merge.ml *)
From Coq Require Extraction ExtrOcamlBasic.
From LY Require Import Base Tree Merge.
Extraction Language OCaml.
Extraction "model_merge.ml"
  N.add N.mul N.div N.modulo N.sub Z.add Z.mul Z.opp Z.of_N Z.abs_N Z.sub Z.ltb
  Tree.lookup Tree.sget Tree.userordered Tree.dup_inst Tree.sorted_sid
  Tree.canonb Tree.uniq_idsb Tree.schema_okb Tree.insert_node Tree.forest_eqb
  Merge.merge Merge.merge_tree Merge.dup Merge.dup_no_meta.
