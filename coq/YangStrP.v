(* YangStrP.v - proofs about YangStr.v (slice yangstr): trailing_ws never exceeds word_len, every store lies
   inside the block, the assert of the tab branch holds; the variant without the reset after a line break
   (seeded change C05-3) underflows. *)
From Coq Require Import NArith List Lia Bool.
From LY Require Import YangStr.
Import ListNotations.
Local Open Scope N_scope.

Definition Inv0 (s : st) : Prop :=
  q_tws s <= q_wl s /\ (q_alloc s = true -> q_wl s <= q_bl s) /\ (q_ci s < q_bi s -> q_nb s = true).
Definition Inv (s : st) : Prop := Inv0 s /\ q_ci s <= q_bi s.

Ltac brk :=
  repeat match goal with
         | |- context [if ?b then _ else _] => let E := fresh "E" in destruct b eqn:E
         | H : context [if ?b then _ else _] |- _ => let E := fresh "E" in destruct b eqn:E
         end.
Ltac nums :=
  repeat match goal with
         | H : (_ <=? _) = true |- _ => apply N.leb_le in H
         | H : (_ <=? _) = false |- _ => apply N.leb_gt in H
         | H : (_ <? _) = true |- _ => apply N.ltb_lt in H
         | H : (_ <? _) = false |- _ => apply N.ltb_ge in H
         | H : (_ =? _) = true |- _ => apply N.eqb_eq in H
         | H : (_ =? _) = false |- _ => apply N.eqb_neq in H
         end.

Ltac sp := repeat match goal with |- _ /\ _ => split end.
Ltac leaf := try assumption; try lia; try discriminate; try (repeat constructor; simpl; lia);
             try (intros; first [reflexivity | assumption | lia | discriminate | auto]).

(* buf_store_char *)
Lemma store_ok : forall s u, u <= 16 -> (q_alloc s = true -> q_wl s <= q_bl s) ->
  exists a bl ws tr, store s u = (set_store s (q_wl s + u) a bl, ws, tr) /\
    Forall wr_ok ws /\ (a = true -> q_wl s + u <= bl) /\
    (q_alloc s = true -> a = true) /\ (q_nb s = true -> a = true).
Proof.
  intros s u Hu A. unfold store, buf_add, BUF_STEP.
  destruct (q_alloc s) eqn:EA.
  - specialize (A eq_refl). destruct (q_bl s <=? q_wl s + u) eqn:E; nums;
      eexists _, _, _, _; (split; [reflexivity|]); sp; leaf.
  - destruct (q_nb s) eqn:EN.
    + destruct (q_wl s =? 0) eqn:E0; nums.
      * destruct (q_bl s <=? q_wl s + u) eqn:E; nums;
          eexists _, _, _, _; (split; [reflexivity|]); sp; leaf.
      * destruct (q_wl s <=? q_wl s + u) eqn:E; nums; try lia.
        eexists _, _, _, _; (split; [reflexivity|]); sp; leaf.
    + eexists _, _, _, _; (split; [reflexivity|]); sp; leaf.
Qed.

Lemma store_ws_ok : forall s, Inv0 s ->
  exists a bl ws tr, store_ws s = (set_tws (set_store s (q_wl s + 1) a bl) (q_tws s + 1), ws, tr) /\
    Forall wr_ok ws /\ (a = true -> q_wl s + 1 <= bl) /\ (q_nb s = true -> a = true).
Proof.
  intros s (I1 & I2 & I3). unfold store_ws.
  destruct (store_ok s 1 ltac:(lia) I2) as (a & bl & ws & tr & E & F & A & _ & N1).
  rewrite E. exists a, bl, ws, tr. sp; leaf; try reflexivity.
Qed.

Lemma tab_loop_ok : forall fuel s, Inv0 s -> q_nb s = true -> q_ci s <= q_bi s + N.of_nat fuel ->
  match tab_loop fuel s with
  | (s1, ws, tr) => Forall wr_ok ws /\ Inv0 s1 /\ q_ci s1 <= q_bi s1 /\ q_nb s1 = true
  end.
Proof.
  induction fuel as [|f IH]; intros s I Nb H.
  - simpl in *. sp; leaf.
  - simpl tab_loop. destruct (q_bi s <? q_ci s) eqn:E; nums.
    + destruct I as (I1 & I2 & I3).
      destruct (store_ws_ok s (conj I1 (conj I2 I3))) as (a & bl & ws & tr & E1 & F & A & N1). rewrite E1.
      specialize (IH (set_ci (set_tws (set_store s (q_wl s + 1) a bl) (q_tws s + 1)) (q_ci s - 1))).
      simpl in IH.
      destruct (tab_loop f _) as [[s2 ws2] tr2].
      destruct IH as (F2 & I' & C2 & N2).
      * unfold Inv0. simpl. sp; leaf.
      * assumption.
      * rewrite Nat2N.inj_succ in H. lia.
      * sp; leaf. apply Forall_app; auto.
    + sp; leaf.
Qed.

Lemma finish_ok : forall s, Inv s ->
  match finish s with
  | (Stop r, ws, _) => Forall wr_ok ws /\ r <> RUnderflow /\ r <> RAssert
  | (Cont _, _, _) => False
  end.
Proof.
  intros s I. unfold finish. destruct (q_alloc s); sp; leaf.
Qed.

Opaque tab_loop.
(* one event keeps the invariant; it is the reset after the line break that keeps trailing_ws <= word_len *)
Lemma step_ok : forall s e, ev_wf e -> Inv s ->
  match step true s e with
  | (Cont s1, ws, _) => Forall wr_ok ws /\ Inv s1
  | (Stop r, ws, _) => Forall wr_ok ws /\ r <> RUnderflow /\ r <> RAssert
  end.
Proof.
  intros s e WF ((I1 & I2 & I3) & I4).
  assert (FIN : match finish s with
                | (Stop r, ws, _) => Forall wr_ok ws /\ r <> RUnderflow /\ r <> RAssert
                | (Cont _, _, _) => False end) by (apply finish_ok; repeat split; auto).
  assert (ST : forall u, u <= 16 -> match cont (store s u) with
               | (Cont s1, ws, _) => Forall wr_ok ws /\ Inv s1
               | (Stop r, ws, _) => Forall wr_ok ws /\ r <> RUnderflow /\ r <> RAssert end).
  { intros u Hu. destruct (store_ok s u Hu I2) as (a & bl & ws & tr & E & F & A & _ & N1). rewrite E.
    unfold cont, Inv, Inv0. simpl. sp; leaf. }
  assert (SW : match cont (store_ws s) with
               | (Cont s1, ws, _) => Forall wr_ok ws /\ Inv s1
               | (Stop r, ws, _) => Forall wr_ok ws /\ r <> RUnderflow /\ r <> RAssert end).
  { destruct (store_ws_ok s (conj I1 (conj I2 I3))) as (a & bl & ws & tr & E & F & A & N1). rewrite E.
    unfold cont, Inv, Inv0. simpl. sp; leaf. }
  destruct e; simpl step; auto; try (sp; leaf; fail).
  - (* EChar *)
    simpl in WF. destruct (q_dq s); [|apply ST; lia].
    destruct (store_ok (set_ci s (q_bi s)) u ltac:(lia) I2) as (a & bl & ws & tr & E & F & A & _ & N1).
    rewrite E. unfold Inv, Inv0. simpl in *. sp; leaf.
  - (* ESpace *)
    destruct (q_dq s); [|apply ST; lia].
    destruct (q_ci s <? q_bi s) eqn:E; nums; [|exact SW].
    unfold Inv, Inv0. simpl. sp; leaf.
  - (* ETab *)
    destruct (q_dq s); [|apply ST; lia].
    destruct (q_ci s <? q_bi s) eqn:E; nums; [|exact SW].
    rewrite (I3 E). unfold cont.
    assert (T : match tab_loop 8 (set_ci s (q_ci s + Y_TAB_SPACES)) with
                | (s1, ws, tr) => Forall wr_ok ws /\ Inv0 s1 /\ q_ci s1 <= q_bi s1 /\ q_nb s1 = true end).
    { apply tab_loop_ok.
      - unfold Inv0. simpl. sp; leaf.
      - simpl. auto.
      - simpl. unfold Y_TAB_SPACES. lia. }
    destruct (tab_loop 8 (set_ci s (q_ci s + Y_TAB_SPACES))) as [[s1 ws] tr].
    destruct T as (F & I & C & Nb). simpl. split; auto. split; auto.
  - (* ELf *)
    destruct (q_dq s); [|apply ST; lia].
    destruct (q_bi s =? 0) eqn:E0; nums.
    + destruct (store_ok s 1 ltac:(lia) I2) as (a & bl & ws & tr & E & F & A & _ & N1).
      rewrite E. unfold Inv, Inv0. simpl. sp; leaf.
    + destruct (q_wl s <? q_tws s) eqn:EU; nums; [lia|].
      destruct (store_ok (set_ci (set_wl (set_nb s) (q_wl s - q_tws s)) 0) 1 ltac:(lia))
        as (a & bl & ws & tr & E & F & A & _ & N1); [simpl; intro H; specialize (I2 H); lia|].
      rewrite E. unfold Inv, Inv0. simpl in *. sp; leaf.
  - (* EEsc *)
    destruct (q_dq s).
    + destruct (store_ok (set_ci (set_tws (set_nb s) 0) (q_bi s)) 1 ltac:(lia) I2) as (a & bl & ws & tr & E & F & A & _ & N1).
      rewrite E. unfold Inv, Inv0. simpl in *. sp; leaf.
    + destruct (store_ok s 1 ltac:(lia) I2) as (a & bl & ws & tr & E & F & A & A1 & N1). rewrite E.
      destruct (store_ok (set_store s (q_wl s + 1) a bl) 1 ltac:(lia) A) as (a2 & bl2 & ws2 & tr2 & E2 & F2 & A2 & A3 & N2).
      rewrite E2. unfold Inv, Inv0. simpl in *. sp; leaf. apply Forall_app; auto.
  - (* EEscBad *)
    destruct (q_dq s); [sp; leaf|].
    destruct (store_ok s 1 ltac:(lia) I2) as (a & bl & ws & tr & E & F & A & A1 & N1). rewrite E.
    destruct (store_ok (set_store s (q_wl s + 1) a bl) 1 ltac:(lia) A) as (a2 & bl2 & ws2 & tr2 & E2 & F2 & A2 & A3 & N2).
    rewrite E2. unfold Inv, Inv0. simpl in *. sp; leaf. apply Forall_app; auto.
  - (* EConcat *)
    unfold Inv, Inv0. destruct (q_dq s); simpl; sp; leaf.
  - unfold Inv, Inv0. destruct (q_dq s); simpl; sp; leaf.
  - destruct (finish s) as [[[s1|r] ws] tr]; tauto.
  - destruct (finish s) as [[[s1|r] ws] tr]; tauto.
Qed.

Transparent tab_loop.

Lemma run_ok : forall evs s, Forall ev_wf evs -> Inv s ->
  match run true s evs with (r, ws, _) => Forall wr_ok ws /\ r <> RUnderflow /\ r <> RAssert end.
Proof.
  induction evs as [|e rest IH]; intros s WF I.
  - simpl. pose proof (finish_ok s I) as F. destruct (finish s) as [[[s1|r] ws] tr]; tauto.
  - inversion WF as [|? ? We Wr]; subst. simpl run. pose proof (step_ok s e We I) as S.
    destruct (step true s e) as [[[s1|r] ws] tr].
    + destruct S as (F & I1). specialize (IH s1 Wr I1). destruct (run true s1 rest) as [[r ws2] tr2].
      destruct IH as (F2 & U & A). sp; auto. apply Forall_app; auto.
    + tauto.
Qed.

Lemma init_inv : forall dq indent, Inv (init dq indent).
Proof. intros. unfold Inv, Inv0, init. simpl. repeat split; try lia; discriminate. Qed.

Theorem no_underflow : forall dq indent evs, Forall ev_wf evs ->
  match qstring dq indent evs with (r, ws, _) => r <> RUnderflow /\ r <> RAssert /\ Forall wr_ok ws end.
Proof.
  intros. unfold qstring. pose proof (run_ok evs (init dq indent) H (init_inv dq indent)) as R.
  destruct (run true (init dq indent) evs) as [[r ws] tr]. tauto.
Qed.

(* seeded change C05-3: a double-quoted string with two blanks, a line break and another line break *)
Definition noreset_witness : list ev := [ESpace; ESpace; ELf; ELf; ESpace; ESpace; ESpace; EChar 1; EEnd].

Lemma noreset_underflows :
  Forall ev_wf noreset_witness /\
  (exists ws tr, qstring_noreset true 2 noreset_witness = (RUnderflow, ws, tr)) /\
  (exists ws tr, qstring true 2 noreset_witness = (ROk true 3, ws, tr)).
Proof.
  split; [|split; eexists; eexists; vm_compute; reflexivity].
  repeat first [apply Forall_nil | apply Forall_cons; [simpl; first [lia | exact I]|]].
Qed.
