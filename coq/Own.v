(* Own.v - ownership model of dictionary references (property C17): who holds which references of the context's
   string dictionary, and what store / dup / free of values and of chains of metadata / attributes do to them.

   The dictionary is the finite map string -> number of references of DictP.v (the specification the hash-table
   dictionary of src/dict.c is proved to refine).  A value (struct lyd_value of some type plugin, a metadata
   instance, an attribute, an anydata value) is what it owns: dictionary strings, and nested values (the subvalue of a
   union, the value of a metadata instance, the strings of an attribute).  lydict_remove of a string that has no
   reference left is the error "Value ... was not found in the dictionary": the model counts these.

   Operations follow the C conventions:
     store v      plugin->store / lyd_create_*: one reference per owned string is taken
     dup v        plugin->duplicate / lyd_dup_*: the copy takes its own reference per owned string
     free v       plugin->free / lyd_free_*: one reference per owned string is released
     temp v       store, then the validation fails: what store took is released before returning (lyd_value_validate)
     update h v'  lyd_new_path(LYD_NEW_PATH_UPDATE) / lyd_change_term / lyd_change_meta / lyd_any_copy_value: a temporary value v'
                  is built and compared with the value of h; equal: the temporary is freed, nothing changes; different: the
                  old value is freed and h holds the new one
     resolve h t v'  validation of a union value whose recorded member does not resolve: a temporary t (the value of the
                  recorded member, printed to get its text) is created and freed again, then the value is stored as another
                  member: the old value is freed, h holds v'
     chain ops    lyd_free_meta_single / lyd_free_attr_single (element k of a chain) and ..._siblings (from k on) *)
From LY Require Import Base.
Local Open Scope N_scope.

Definition dict : Type := bytes -> N.
Definition dset (d : dict) (s : bytes) (v : N) : dict := fun x => if beq_bytes x s then v else d x.

(* lydict_insert / lydict_dup on the finite map *)
Definition acquire (d : dict) (s : bytes) : dict := dset d s (d s + 1).
(* lydict_remove: error (counted) when the string is not held *)
Definition release (de : dict * N) (s : bytes) : dict * N :=
  let (d, e) := de in if d s =? 0 then (d, e + 1) else (dset d s (d s - 1), e).

Definition acq_all (d : dict) (l : list bytes) : dict := fold_left acquire l d.
Definition rel_all (de : dict * N) (l : list bytes) : dict * N := fold_left release l de.

(* a value: the strings it owns and the values nested in it *)
Inductive value := Val (own : list bytes) (sub : list value).

Fixpoint refs (v : value) : list bytes :=
  match v with
  | Val own sub => own ++ (fix go (l : list value) : list bytes :=
                             match l with [] => [] | x :: l' => refs x ++ go l' end) sub
  end.

(* state: dictionary, number of "not found in the dictionary" errors, number of API misuses (use of a dead handle),
   the values handed out so far (None once freed) *)
Record ost := mkost { o_dict : dict; o_err : N; o_mis : N; o_h : list (option value) }.

Inductive oop :=
| OStore (v : value)            (* a new value *)
| ODup (h : nat)                (* duplicate the value of handle h *)
| OFree (h : nat)               (* free the value of handle h *)
| OTemp (v : value)             (* store v, fail its validation, release it again *)
| OUpdate (h : nat) (v' : value)            (* update the value of handle h to v' *)
| OResolve (h : nat) (t v' : value).        (* re-resolve the union value of handle h: temporary t, new member value v' *)

(* values are compared by what they own (the library compares canonical values) *)
Fixpoint refs_eqb (a b : list bytes) : bool :=
  match a, b with
  | [], [] => true
  | x :: a', y :: b' => beq_bytes x y && refs_eqb a' b'
  | _, _ => false
  end.

Fixpoint set_handle {A} (l : list (option A)) (n : nat) (x : option A) : list (option A) :=
  match l, n with
  | [], _ => []
  | _ :: l', O => x :: l'
  | y :: l', S n' => y :: set_handle l' n' x
  end.

(* the old value v of handle h is replaced by v' (already stored): v is freed *)
Definition replace_value (s : ost) (h : nat) (v v' : value) (d1 : dict) : ost :=
  let de := rel_all (d1, o_err s) (refs v) in
  mkost (fst de) (snd de) (o_mis s) (set_handle (o_h s) h (Some v')).

Fixpoint set_none {A} (l : list (option A)) (n : nat) : list (option A) :=
  match l, n with
  | [], _ => []
  | _ :: l', O => None :: l'
  | x :: l', S n' => x :: set_none l' n'
  end.

Definition ostep (s : ost) (o : oop) : ost :=
  match o with
  | OStore v => mkost (acq_all (o_dict s) (refs v)) (o_err s) (o_mis s) (o_h s ++ [Some v])
  | ODup h =>
      match nth_error (o_h s) h with
      | Some (Some v) => mkost (acq_all (o_dict s) (refs v)) (o_err s) (o_mis s) (o_h s ++ [Some v])
      | _ => mkost (o_dict s) (o_err s) (o_mis s + 1) (o_h s)
      end
  | OFree h =>
      match nth_error (o_h s) h with
      | Some (Some v) =>
          let de := rel_all (o_dict s, o_err s) (refs v) in
          mkost (fst de) (snd de) (o_mis s) (set_none (o_h s) h)
      | _ => mkost (o_dict s) (o_err s) (o_mis s + 1) (o_h s)
      end
  | OTemp v =>
      let de := rel_all (acq_all (o_dict s) (refs v), o_err s) (refs v) in
      mkost (fst de) (snd de) (o_mis s) (o_h s)
  | OUpdate h v' =>
      match nth_error (o_h s) h with
      | Some (Some v) =>
          let d1 := acq_all (o_dict s) (refs v') in           (* the temporary *)
          if refs_eqb (refs v) (refs v') then
            let de := rel_all (d1, o_err s) (refs v') in      (* equal: the temporary is freed *)
            mkost (fst de) (snd de) (o_mis s) (o_h s)
          else replace_value s h v v' d1                      (* different: the values are switched, the old one is freed *)
      | _ => mkost (o_dict s) (o_err s) (o_mis s + 1) (o_h s)
      end
  | OResolve h t v' =>
      match nth_error (o_h s) h with
      | Some (Some v) =>
          let de := rel_all (acq_all (o_dict s) (refs t), o_err s) (refs t) in      (* temporary of the recorded member *)
          replace_value (mkost (fst de) (snd de) (o_mis s) (o_h s)) h v v' (acq_all (fst de) (refs v'))
      | _ => mkost (o_dict s) (o_err s) (o_mis s + 1) (o_h s)
      end
  end.

Definition orun (s : ost) (ops : list oop) : ost := fold_left ostep ops s.

(* ---- chains of metadata / attributes: the C functions walk the chain to the element, splice it out, free it ---- *)
(* lyd_free_meta_single / lyd_free_attr_single: element k and the rest *)
Fixpoint chain_take (k : nat) (ch : list value) : option (value * list value) :=
  match ch, k with
  | [], _ => None
  | v :: t, O => Some (v, t)
  | v :: t, S k' => match chain_take k' t with Some (x, t') => Some (x, v :: t') | None => None end
  end.

Definition free_single (de : dict * N) (ch : list value) (k : nat) : option (dict * N * list value) :=
  match chain_take k ch with
  | Some (v, rest) => Some (rel_all de (refs v), rest)
  | None => None
  end.

(* lyd_free_meta_siblings / lyd_free_attr_siblings: the chain is cut before element k, everything from k on is freed *)
Fixpoint chain_cut (k : nat) (ch : list value) : list value * list value :=
  match ch, k with
  | [], _ => ([], [])
  | _, O => ([], ch)
  | v :: t, S k' => let (a, b) := chain_cut k' t in (v :: a, b)
  end.

Definition free_siblings (de : dict * N) (ch : list value) (k : nat) : dict * N * list value :=
  let (keep, gone) := chain_cut k ch in
  (fold_left (fun a v => rel_all a (refs v)) gone de, keep).

(* ---- the defects of this class as variants of the operations (regression examples in OwnP.v) ---- *)
(* a duplicate that shares the owned strings without taking references (memcpy of the value) *)
Definition ostep_dup_shared (s : ost) (h : nat) : ost :=
  match nth_error (o_h s) h with
  | Some (Some v) => mkost (o_dict s) (o_err s) (o_mis s) (o_h s ++ [Some v])
  | _ => mkost (o_dict s) (o_err s) (o_mis s + 1) (o_h s)
  end.
(* a failing validation that forgets the stored temporary *)
Definition ostep_temp_leaked (s : ost) (v : value) : ost :=
  mkost (acq_all (o_dict s) (refs v)) (o_err s) (o_mis s) (o_h s).
(* an update with an equal value that forgets the temporary (lyd_new_path_update on an any node) *)
Definition ostep_update_same_leaked (s : ost) (h : nat) (v' : value) : ost :=
  match nth_error (o_h s) h with
  | Some (Some v) =>
      let d1 := acq_all (o_dict s) (refs v') in
      if refs_eqb (refs v) (refs v') then mkost d1 (o_err s) (o_mis s) (o_h s) else replace_value s h v v' d1
  | _ => mkost (o_dict s) (o_err s) (o_mis s + 1) (o_h s)
  end.
(* a re-resolution that frees the temporary of the recorded member only when its text was not printed dynamically *)
Definition ostep_resolve_leaked (s : ost) (h : nat) (t v' : value) (dynamic : bool) : ost :=
  match nth_error (o_h s) h with
  | Some (Some v) =>
      let d1 := acq_all (o_dict s) (refs t) in
      let de := if dynamic then (d1, o_err s) else rel_all (d1, o_err s) (refs t) in
      replace_value (mkost (fst de) (snd de) (o_mis s) (o_h s)) h v v' (acq_all (fst de) (refs v'))
  | _ => mkost (o_dict s) (o_err s) (o_mis s + 1) (o_h s)
  end.
(* free of element k that drops the tail of the chain without freeing it *)
Definition free_single_drop_tail (de : dict * N) (ch : list value) (k : nat) : option (dict * N * list value) :=
  match chain_take k ch with
  | Some (v, _) => Some (rel_all de (refs v), firstn k ch)
  | None => None
  end.

(* ---- projection of an API script (impl/t_own.c) onto the model, for the correspondence component own-delta ----
   Command i of a script is one of: 0 = a call that may hand a new value to the caller (parse, new_*, dup, diff, ...),
   1 = a call that only uses temporaries (validate / compare / print / find, or any call that fails), 2 = a call that
   duplicates what the previous command made, 3 = an update-style call on it (new_path with LYD_NEW_PATH_UPDATE, change_term,
   change_meta, any_copy_value), 4 = a validation that re-resolves it.  The value of command i owns the strings [i] and, nested, [i; i].  At the end
   of a case the driver frees everything the caller holds.  The prediction is the dictionary delta (sum over the strings the
   script can own) and the number of not-found errors. *)
Definition cmd_value (i : N) : value := Val [[i]] [Val [[i; i]] []].

Fixpoint script_ops (kinds : list N) (i : N) (nh : nat) : list oop :=
  match kinds with
  | [] => []
  | k :: ks =>
      if k =? 0 then OStore (cmd_value i) :: script_ops ks (i + 1) (S nh)
      else if k =? 1 then OTemp (cmd_value i) :: script_ops ks (i + 1) nh
      else match nh with
           | O => OStore (cmd_value i) :: script_ops ks (i + 1) (S nh)
           | S p =>
               if k =? 2 then ODup p :: script_ops ks (i + 1) (S nh)
               else if k =? 3 then OUpdate p (cmd_value i) :: script_ops ks (i + 1) nh
               else OResolve p (Val [[i]] []) (cmd_value i) :: script_ops ks (i + 1) nh
           end
  end.

Fixpoint free_all_ops (n : nat) : list oop :=
  match n with O => [] | S p => free_all_ops p ++ [OFree p] end.

Fixpoint sum_counts (d : dict) (n : nat) : N :=
  match n with
  | O => 0
  | S p => sum_counts d p + d [N.of_nat p] + d [N.of_nat p; N.of_nat p]
  end.

Definition own_script_delta (kinds : list N) : N * N :=
  let ops := script_ops kinds 0 O in
  let s1 := orun (mkost (fun _ => 0) 0 0 []) ops in
  let s2 := orun s1 (free_all_ops (length (o_h s1))) in
  (sum_counts (o_dict s2) (length kinds), o_err s2 + o_mis s2).
