(* Extract_difftree.v -- extraction of the difftree slice (Tree + DiffTree + DiffRev + DiffMerge) to coq/model_difftree.ml *)
From Coq Require Extraction ExtrOcamlBasic.
From LY Require Import Base Tree DiffTree DiffRev DiffMerge.
Extraction Language OCaml.
Extraction "model_difftree.ml"
  N.add N.mul N.div N.modulo N.sub Z.add Z.mul Z.opp Z.of_N Z.abs_N Z.sub Z.ltb
  Tree.lookup Tree.sget Tree.userordered Tree.dup_inst Tree.sorted_sid
  Tree.canonb Tree.uniq_idsb Tree.schema_okb Tree.forest_eqb
  DiffTree.diff DiffTree.apply DiffTree.redup DiffTree.supportedb DiffTree.strip_dflt DiffTree.wfb
  DiffRev.reverse DiffMerge.merge DiffMerge.schema_nouo.
