(* RestrictStrP.v — proofs about RestrictStr.v: length and patterns are inherited independently. *)
From LY Require Import Base TypesMisc IntLex Dec64 Restrict RestrictP RestrictStr.

Section StrChainP.
  Variable P : Type.

  (* the chain of string types = the chain of the lengths alone (Restrict.compile_chain) paired with the
     concatenation of the pattern statements of all levels: neither restriction looks at the other *)
  Theorem str_chain_independent : forall (lvls : list (option bytes * list P)) (b : str_eff P),
    compile_str_chain P b lvls =
    match compile_chain RLen (se_len b) (map fst lvls) with
    | Ok ps => Ok {| se_len := ps; se_pats := se_pats b ++ concat (map snd lvls) |}
    | Err e => Err e
    end.
  Proof.
    induction lvls as [|[ol pl] lvls IH]; intro b; cbn [compile_str_chain map concat compile_chain fst snd].
    - rewrite app_nil_r. destruct b; reflexivity.
    - unfold compile_str_level. cbn [fst snd]. destruct ol as [r|].
      + destruct (compile_range RLen (se_len b) r) as [ps|e]; [|reflexivity].
        rewrite IH. cbn [se_len se_pats]. rewrite <- app_assoc. reflexivity.
      + rewrite IH. cbn [se_len se_pats]. rewrite <- app_assoc. reflexivity.
  Qed.

  Variable matches : P -> bytes -> bool.

  (* a value is accepted by the leaf's type exactly when its length is accepted by the effective length (which by
     Restrict never exceeds any length of the chain) and EVERY pattern of EVERY level matches, whichever levels
     restate which restriction *)
  Theorem str_chain_accepts : forall lvls (b eff : str_eff P) len s,
    compile_str_chain P b lvls = Ok eff ->
    (str_accepts P matches eff len s = true <->
     (exists ps, compile_chain RLen (se_len b) (map fst lvls) = Ok ps /\ validate_range ps len = true) /\
     Forall (fun p => matches p s = true) (se_pats b ++ concat (map snd lvls))).
  Proof.
    intros lvls b eff len s H. rewrite str_chain_independent in H.
    destruct (compile_chain RLen (se_len b) (map fst lvls)) as [ps|e]; [|discriminate].
    inversion H; subst eff. unfold str_accepts. cbn [se_len se_pats]. rewrite andb_true_iff, forallb_forall, Forall_forall.
    split.
    - intros [H1 H2]. split; [exists ps; auto|exact H2].
    - intros [[ps' [Hps H1]] H2]. inversion Hps; subst ps'. auto.
  Qed.

  (* a level without a length statement (only patterns, or nothing) hands down ALL parts of the inherited length; a
     level without pattern statements hands down ALL inherited patterns *)
  Corollary str_level_inherits : forall (b : str_eff P) pl,
    compile_str_level P b (None, pl) = Ok {| se_len := se_len b; se_pats := se_pats b ++ pl |}.
  Proof. reflexivity. Qed.

  Corollary str_level_keeps_patterns : forall (b b' : str_eff P) r,
    compile_str_level P b (Some r, []) = Ok b' -> se_pats b' = se_pats b.
  Proof.
    intros b b' r. unfold compile_str_level. cbn [fst snd]. destruct (compile_range RLen (se_len b) r); [|discriminate].
    intro H. inversion H. cbn [se_pats]. apply app_nil_r.
  Qed.
End StrChainP.

(* regression witnesses with patterns named by numbers: base length 1..3 | 6..8 | 12 with pattern 1;
   level 2 adds only pattern 2 (seeded change C11-5: the copied length kept only its first part);
   level 3 restates only the length 6..8 (seeded change C18-7: the inherited patterns must stay) *)
Definition w_68 : bytes := [54%N; 46%N; 46%N; 56%N].        (* 6..8 *)

Lemma str_chain_witness :
  let base := {| se_len := [(1, 3); (6, 8); (12, 12)]%Z; se_pats := [1%nat] |} in
  compile_str_chain nat base [(None, [2%nat])] = Ok {| se_len := [(1, 3); (6, 8); (12, 12)]%Z; se_pats := [1; 2]%nat |} /\
  compile_str_chain nat base [(None, [2%nat]); (Some w_68, [])]
    = Ok {| se_len := [(6, 8)]%Z; se_pats := [1; 2]%nat |} /\
  compile_str_chain nat base [(Some w_68, []); (None, [2%nat]); (None, [])]
    = Ok {| se_len := [(6, 8)]%Z; se_pats := [1; 2]%nat |}.
Proof. cbv zeta. repeat split; vm_compute; reflexivity. Qed.
