(* StdTextP.v — what libyang prints (JsonText.json_esc, XmlText.xml_esc) read by the standard
   readers of StdText. XML: for every string of XML Chars the conformant reader reports exactly the
   payload, in content and in attribute values (unconditional since the printer writes CR, and
   TAB/LF inside attributes, as character references: commits 6fdbff2, 47fa563). *)
From LY Require Import Base Utf8 XmlText XmlTextP JsonText JsonTextP StdText.
From Coq Require Import ZifyBool ZifyNat ZifyN.
Local Open Scope N_scope.

(* ====================================================================================== *)
(* RFC 3629: the strict decoder inverts the encoder on every scalar value                 *)
(* ====================================================================================== *)

Lemma std_utf8_decode_app s cp t r :
  std_utf8_decode s = Some (cp, t) -> std_utf8_decode (s ++ r) = Some (cp, t ++ r).
Proof.
  unfold std_utf8_decode.
  destruct s as [|b0 s]; [discriminate|]. cbn [app].
  destruct (b0 <? 128); [intro E; injection E as <- <-; reflexivity|].
  destruct ((194 <=? b0) && (b0 <=? 223)).
  { destruct s as [|b1 s]; [discriminate|]. cbn [app].
    destruct (is_tail b1); [|discriminate]. intro E; injection E as <- <-; reflexivity. }
  destruct ((224 <=? b0) && (b0 <=? 239)).
  { destruct s as [|b1 [|b2 s]]; try discriminate. cbn [app].
    match goal with |- context[if ?c then Some _ else None] => destruct c end; [|discriminate].
    intro E; injection E as <- <-; reflexivity. }
  destruct ((240 <=? b0) && (b0 <=? 244)); [|discriminate].
  destruct s as [|b1 [|b2 [|b3 s]]]; try discriminate. cbn [app].
  match goal with |- context[if ?c then Some _ else None] => destruct c end; [|discriminate].
  intro E; injection E as <- <-; reflexivity.
Qed.

Definition dec_enc_ok (cp : N) : bool :=
  implb (is_scalar cp)
        (match std_utf8_decode (utf8_encode cp) with
         | Some (v, []) => v =? cp
         | _ => false
         end).

Lemma dec_enc_ok_all : N_all_below 1114112 dec_enc_ok = true.
Proof. vm_cast_no_check (eq_refl true). Qed.

Lemma std_utf8_decode_encode cp r :
  is_scalar cp = true -> std_utf8_decode (utf8_encode cp ++ r) = Some (cp, r).
Proof.
  intro H.
  assert (Hlt : cp < 1114112) by (unfold is_scalar in H; lia).
  pose proof (N_all_below_spec _ _ dec_enc_ok_all cp Hlt) as E.
  unfold dec_enc_ok in E. rewrite H in E. cbn [implb] in E.
  destruct (std_utf8_decode (utf8_encode cp)) as [[v [|x t]]|] eqn:D; try discriminate E.
  apply N.eqb_eq in E. subst v.
  apply (std_utf8_decode_app _ _ _ r) in D. exact D.
Qed.

Lemma utf8_encode_ascii cp : cp < 128 -> utf8_encode cp = [cp].
Proof. intro H. unfold utf8_encode. assert (E : (cp <? 128) = true) by lia. rewrite E. reflexivity. Qed.

Lemma utf8_encode_high cp : 128 <= cp -> Forall (fun b => 128 <= b) (utf8_encode cp).
Proof.
  intro H. unfold utf8_encode. assert (E : (cp <? 128) = false) by lia. rewrite E.
  destruct (cp <? 2048); [|destruct (cp <? 65536)]; repeat constructor; lia.
Qed.

Lemma utf8_encode_nonnil cp : utf8_encode cp <> [].
Proof.
  unfold utf8_encode. destruct (cp <? 128); [discriminate|].
  destruct (cp <? 2048); [discriminate|]. destruct (cp <? 65536); discriminate.
Qed.

(* ====================================================================================== *)
(* RFC 8259: json_print_string output is the JSON string denoting the input               *)
(* ====================================================================================== *)

(* validity of the payload, defined through the RFC 3629 encoder: the UTF-8 encoding of a
   sequence of Unicode scalar values none of which is U+0000 (a C string cannot contain it) *)
Definition valid_cp (c : N) : bool := is_scalar c && negb (c =? 0).
Definition utf8_nonul (s : bytes) : Prop :=
  exists cps, forallb valid_cp cps = true /\ s = flat_map utf8_encode cps.

Lemma sstep_quot f r acc : std_json_chars (S f) (92 :: 34 :: r) acc = std_json_chars f r (acc ++ [34]).
Proof. reflexivity. Qed.
Lemma sstep_bsl f r acc : std_json_chars (S f) (92 :: 92 :: r) acc = std_json_chars f r (acc ++ [92]).
Proof. reflexivity. Qed.
Lemma sstep_cr f r acc : std_json_chars (S f) (92 :: 114 :: r) acc = std_json_chars f r (acc ++ [13]).
Proof. reflexivity. Qed.
Lemma sstep_tab f r acc : std_json_chars (S f) (92 :: 116 :: r) acc = std_json_chars f r (acc ++ [9]).
Proof. reflexivity. Qed.

Lemma hexdig_up_inv_all : N_all_below 16 (fun d => match hexdig (hexdig_up d) with Some x => x =? d | None => false end) = true.
Proof. vm_cast_no_check (eq_refl true). Qed.

Lemma hexdig_up_inv d : d < 16 -> hexdig (hexdig_up d) = Some d.
Proof.
  intro H. pose proof (N_all_below_spec _ _ hexdig_up_inv_all d H) as E. cbn beta in E.
  destruct (hexdig (hexdig_up d)) as [x|]; [|discriminate]. apply N.eqb_eq in E. congruence.
Qed.

(* a control character as the printer writes it (format \u%.4X) *)
Lemma sstep_u f b r acc :
  is_cntrl b = true ->
  std_json_chars (S f)
    (92 :: 117 :: hexdig_up ((b / 4096) mod 16) :: hexdig_up ((b / 256) mod 16) ::
     hexdig_up ((b / 16) mod 16) :: hexdig_up (b mod 16) :: r) acc =
  std_json_chars f r (acc ++ [b]).
Proof.
  intro Hc. assert (Hb : b < 128) by (unfold is_cntrl in Hc; lia).
  cbn [std_json_chars]. change (92 =? 34) with false. change (92 =? 92) with true.
  change (117 =? 117) with true. cbv iota beta.
  unfold hex4.
  rewrite !hexdig_up_inv by (apply N.mod_upper_bound; discriminate).
  assert (Ev : (b / 4096) mod 16 * 4096 + (b / 256) mod 16 * 256 + (b / 16) mod 16 * 16 + b mod 16 = b).
  { pose proof (N.div_mod b 16). pose proof (N.mod_upper_bound b 16).
    assert (b / 16 < 8) by (apply N.div_lt_upper_bound; lia).
    assert (E1 : b / 4096 = 0) by (apply N.div_small; lia).
    assert (E2 : b / 256 = 0) by (apply N.div_small; lia).
    assert (E3 : (b / 16) mod 16 = b / 16) by (apply N.mod_small; lia).
    rewrite E1, E2, E3. cbn. lia. }
  rewrite Ev.
  assert (Eh : is_hi_surrogate b = false) by (unfold is_hi_surrogate; lia).
  assert (El : is_lo_surrogate b = false) by (unfold is_lo_surrogate; lia).
  rewrite Eh, El. reflexivity.
Qed.

Lemma sstep_raw f b t acc cp r' :
  b <> 34 -> b <> 92 ->
  std_utf8_decode (b :: t) = Some (cp, r') -> json_unescaped cp = true ->
  std_json_chars (S f) (b :: t) acc = std_json_chars f r' (acc ++ [cp]).
Proof.
  intros H34 H92 Hd Hu. cbn [std_json_chars].
  apply N.eqb_neq in H34, H92. rewrite H34, H92, Hd, Hu. reflexivity.
Qed.

Lemma std_json_chars_printed cps :
  forallb valid_cp cps = true ->
  forall fuel acc,
    (length (json_esc_body (flat_map utf8_encode cps)) < fuel)%nat ->
    std_json_chars fuel (json_esc_body (flat_map utf8_encode cps) ++ [34]) acc = Some (acc ++ cps).
Proof.
  induction cps as [|cp cps IH]; intros Hv fuel acc Hf.
  - destruct fuel as [|f]; [cbn in Hf; lia|]. cbn. rewrite app_nil_r. reflexivity.
  - cbn [forallb] in Hv. apply andb_true_iff in Hv. destruct Hv as [Hcp Hv]. specialize (IH Hv).
    unfold valid_cp in Hcp. apply andb_true_iff in Hcp. destruct Hcp as [Hsc Hnz].
    assert (Hnz' : cp <> 0) by lia.
    cbn [flat_map] in Hf |- *.
    destruct fuel as [|f]; [lia|].
    destruct (N.lt_ge_cases cp 128) as [Hlow|Hhigh].
    + (* one byte *)
      rewrite (utf8_encode_ascii cp Hlow) in Hf |- *. cbn [app] in Hf |- *.
      rewrite json_esc_body_cons in Hf |- * by exact Hnz'.
      rewrite app_length in Hf. rewrite <- app_assoc.
      rewrite json_esc_byte_spec in Hf |- *.
      destruct (cp =? 34) eqn:E34.
      { apply N.eqb_eq in E34; subst cp. cbn [app length] in Hf |- *. rewrite sstep_quot.
        rewrite IH by lia. rewrite <- app_assoc. reflexivity. }
      destruct (cp =? 92) eqn:E92.
      { apply N.eqb_eq in E92; subst cp. cbn [app length] in Hf |- *. rewrite sstep_bsl.
        rewrite IH by lia. rewrite <- app_assoc. reflexivity. }
      destruct (cp =? 13) eqn:E13.
      { apply N.eqb_eq in E13; subst cp. cbn [app length] in Hf |- *. rewrite sstep_cr.
        rewrite IH by lia. rewrite <- app_assoc. reflexivity. }
      destruct (cp =? 9) eqn:E9.
      { apply N.eqb_eq in E9; subst cp. cbn [app length] in Hf |- *. rewrite sstep_tab.
        rewrite IH by lia. rewrite <- app_assoc. reflexivity. }
      destruct (is_cntrl cp) eqn:Ec.
      { cbn [app length] in Hf |- *. rewrite (sstep_u f cp _ acc Ec).
        rewrite IH by lia. rewrite <- app_assoc. reflexivity. }
      cbn [app length] in Hf |- *.
      rewrite (sstep_raw f cp _ acc cp (json_esc_body (flat_map utf8_encode cps) ++ [34])).
      * rewrite IH by lia. rewrite <- app_assoc. reflexivity.
      * lia.
      * lia.
      * unfold std_utf8_decode. assert (E : (cp <? 128) = true) by lia. rewrite E. reflexivity.
      * unfold json_unescaped. unfold is_cntrl in Ec. lia.
    + (* several bytes, all with the top bit set, written raw *)
      pose proof (utf8_encode_high cp Hhigh) as Hh.
      rewrite json_esc_body_high in Hf |- * by exact Hh.
      rewrite app_length in Hf. rewrite <- app_assoc.
      pose proof (std_utf8_decode_encode cp (json_esc_body (flat_map utf8_encode cps) ++ [34]) Hsc) as Hd.
      pose proof (utf8_encode_nonnil cp) as Hnn.
      destruct (utf8_encode cp) as [|b0 t] eqn:Eenc; [congruence|].
      pose proof (Forall_inv Hh) as Hb0. cbn beta in Hb0.
      cbn [app] in Hd |- *.
      rewrite (sstep_raw f b0 _ acc cp _ ltac:(lia) ltac:(lia) Hd).
      * rewrite IH by (cbn [length] in Hf; lia). rewrite <- app_assoc. reflexivity.
      * unfold json_unescaped. unfold is_scalar in Hsc. lia.
Qed.

(* C12, JSON strings: for every valid UTF-8 string without NUL the printed token is, for an
   RFC 8259 reader, the string itself *)
Theorem json_string_std_proof s : utf8_nonul s -> std_json_string (json_esc s) = Some s.
Proof.
  intros (cps & Hv & ->). unfold json_esc, std_json_string. rewrite N.eqb_refl.
  rewrite (std_json_chars_printed cps Hv _ []).
  - reflexivity.
  - rewrite app_length. cbn [length]. lia.
Qed.

(* the NUL exclusion is necessary: the C string ends at the first NUL *)
Lemma json_string_std_nul_refuted :
  exists cps, forallb is_scalar cps = true /\
    std_json_string (json_esc (flat_map utf8_encode cps)) <> Some (flat_map utf8_encode cps).
Proof. exists [97; 0; 98]. split; [reflexivity|]. vm_compute. discriminate. Qed.

Example json_string_std_example :
  let cps := [97; 34; 92; 47; 13; 9; 10; 1; 8; 12; 31; 127; 128; 233; 8364; 65534; 65535; 128512; 1114111] in
  forallb valid_cp cps = true /\
  std_json_string (json_esc (flat_map utf8_encode cps)) = Some (flat_map utf8_encode cps).
Proof. vm_compute. split; reflexivity. Qed.

(* the reader side: lyjson_string and the RFC reader disagree in both directions *)
Example json_lexer_rejects_std :      (* \b, and a surrogate pair *)
  std_json_string [34; 92; 98; 34] = Some [8] /\ json_quoted [34; 92; 98; 34] = Err E_CHARVAL /\
  std_json_string [34; 92; 117; 68; 56; 51; 68; 92; 117; 68; 69; 48; 48; 34] = Some [240; 159; 152; 128] /\
  json_quoted [34; 92; 117; 68; 56; 51; 68; 92; 117; 68; 69; 48; 48; 34] = Err E_CHARVAL.
Proof. vm_compute. repeat split. Qed.
Example json_lexer_accepts_nonstd :   (* \uZZZZ, a raw DEL is fine for both, \u12 running over the quote *)
  std_json_string [34; 92; 117; 90; 90; 90; 90; 34] = None /\
  json_quoted [34; 92; 117; 90; 90; 90; 90; 34] = Ok ([227; 140; 179], []) /\
  std_json_string [34; 92; 117; 49; 50; 34; 120; 121; 122; 34] = None /\
  json_quoted [34; 92; 117; 49; 50; 34; 120; 121; 122; 34] = Ok ([225; 131; 145; 121; 122], []).
Proof. vm_compute. repeat split. Qed.

Lemma json_lexer_std_refuted_proof :
  (exists t v, std_json_string t = Some v /\ is_ok (json_quoted t) = false) /\
  (exists t, std_json_string t = None /\ is_ok (json_quoted t) = true) /\
  std_json_string [34; 92; 98; 34] = Some [8] /\ json_quoted [34; 92; 98; 34] = Err E_CHARVAL /\
  std_json_string [34; 92; 117; 68; 56; 51; 68; 92; 117; 68; 69; 48; 48; 34] = Some [240; 159; 152; 128] /\
  json_quoted [34; 92; 117; 68; 56; 51; 68; 92; 117; 68; 69; 48; 48; 34] = Err E_CHARVAL /\
  std_json_string [34; 92; 117; 90; 90; 90; 90; 34] = None /\
  json_quoted [34; 92; 117; 90; 90; 90; 90; 34] = Ok ([227; 140; 179], []).
Proof.
  split; [exists [34; 92; 98; 34], [8]; vm_compute; split; reflexivity|].
  split; [exists [34; 92; 117; 90; 90; 90; 90; 34]; vm_compute; split; reflexivity|].
  vm_compute. repeat split.
Qed.

(* ====================================================================================== *)
(* XML 1.0: lyxml_dump_text output read by a conformant processor                          *)
(* ====================================================================================== *)

(* the payloads: the UTF-8 encoding of any sequence of characters matching production [2] Char
   (every Unicode scalar value except the C0 controls other than TAB, LF, CR and except U+FFFE,
   U+FFFF) - CR, TAB and LF included, in element content and in attribute values alike *)
Definition xml_chars (cps : list N) : Prop := forallb is_xml_char cps = true.

Lemma xml_esc_cons attr b s : xml_esc attr (b :: s) = xml_esc_byte attr b ++ xml_esc attr s.
Proof. reflexivity. Qed.

(* the printer never writes a raw CR (so end-of-line handling leaves its output alone) and never a
   raw greater-than sign *)
Lemma xml_esc_no13 attr s : Forall (fun b => b <> 13) (xml_esc attr s).
Proof.
  induction s as [|b s IH]; [constructor|].
  rewrite xml_esc_cons, xml_esc_byte_spec.
  destruct (b =? 38); [repeat (constructor; [discriminate|]); exact IH|].
  destruct (b =? 60); [repeat (constructor; [discriminate|]); exact IH|].
  destruct (b =? 62); [repeat (constructor; [discriminate|]); exact IH|].
  destruct (b =? 13) eqn:E; [repeat (constructor; [discriminate|]); exact IH|].
  destruct ((b =? 9) && attr); [repeat (constructor; [discriminate|]); exact IH|].
  destruct ((b =? 10) && attr); [repeat (constructor; [discriminate|]); exact IH|].
  destruct ((b =? 34) && attr); [repeat (constructor; [discriminate|]); exact IH|].
  constructor; [lia|exact IH].
Qed.

Lemma xml_esc_no62 attr s : Forall (fun b => b <> 62) (xml_esc attr s).
Proof.
  induction s as [|b s IH]; [constructor|].
  rewrite xml_esc_cons, xml_esc_byte_spec.
  destruct (b =? 38); [repeat (constructor; [discriminate|]); exact IH|].
  destruct (b =? 60); [repeat (constructor; [discriminate|]); exact IH|].
  destruct (b =? 62) eqn:E; [repeat (constructor; [discriminate|]); exact IH|].
  destruct (b =? 13); [repeat (constructor; [discriminate|]); exact IH|].
  destruct ((b =? 9) && attr); [repeat (constructor; [discriminate|]); exact IH|].
  destruct ((b =? 10) && attr); [repeat (constructor; [discriminate|]); exact IH|].
  destruct ((b =? 34) && attr); [repeat (constructor; [discriminate|]); exact IH|].
  constructor; [lia|exact IH].
Qed.

Lemma xml_eol_id t : Forall (fun b => b <> 13) t -> xml_eol t = t.
Proof.
  unfold xml_eol. induction 1 as [|b t Hb _ IH]; [reflexivity|].
  cbn [xml_eol_f]. apply N.eqb_neq in Hb. rewrite Hb, andb_false_r, IH. reflexivity.
Qed.

Lemma no_cdata_close t : Forall (fun b => b <> 62) t -> starts_with [93; 93; 62] t = false.
Proof.
  intro H. destruct t as [|a [|b [|c t]]]; cbn [starts_with]; try reflexivity;
    try (rewrite ?andb_false_r; reflexivity).
  assert (Hc : c <> 62).
  { inversion H as [|? ? _ H1]; subst. inversion H1 as [|? ? _ H2]; subst. inversion H2; subst. assumption. }
  apply N.eqb_neq in Hc. rewrite (N.eqb_sym 62 c), Hc. cbn [andb]. rewrite !andb_false_r. reflexivity.
Qed.

Lemma xstep_amp f attr r acc :
  std_xml_expand (S f) attr (38 :: 97 :: 109 :: 112 :: 59 :: r) acc = std_xml_expand f attr r (acc ++ [38]).
Proof. reflexivity. Qed.
Lemma xstep_lt f attr r acc :
  std_xml_expand (S f) attr (38 :: 108 :: 116 :: 59 :: r) acc = std_xml_expand f attr r (acc ++ [60]).
Proof. reflexivity. Qed.
Lemma xstep_gt f attr r acc :
  std_xml_expand (S f) attr (38 :: 103 :: 116 :: 59 :: r) acc = std_xml_expand f attr r (acc ++ [62]).
Proof. reflexivity. Qed.
Lemma xstep_quot f attr r acc :
  std_xml_expand (S f) attr (38 :: 113 :: 117 :: 111 :: 116 :: 59 :: r) acc = std_xml_expand f attr r (acc ++ [34]).
Proof. reflexivity. Qed.
(* the character references the printer writes (4.1): a referenced CR, TAB or LF is not subject to
   end-of-line handling nor to attribute-value normalisation *)
Lemma xstep_cr f attr r acc :
  std_xml_expand (S f) attr (38 :: 35 :: 120 :: 68 :: 59 :: r) acc = std_xml_expand f attr r (acc ++ [13]).
Proof. reflexivity. Qed.
Lemma xstep_tab f attr r acc :
  std_xml_expand (S f) attr (38 :: 35 :: 120 :: 57 :: 59 :: r) acc = std_xml_expand f attr r (acc ++ [9]).
Proof. reflexivity. Qed.
Lemma xstep_lf f attr r acc :
  std_xml_expand (S f) attr (38 :: 35 :: 120 :: 65 :: 59 :: r) acc = std_xml_expand f attr r (acc ++ [10]).
Proof. reflexivity. Qed.

Lemma xml_char_scalar cp : is_xml_char cp = true -> is_scalar cp = true.
Proof. unfold is_xml_char, is_scalar. lia. Qed.

Lemma high_plain c : Forall (fun b => 128 <= b) c -> Forall plain c.
Proof. apply Forall_impl. intros b Hb. unfold plain. lia. Qed.

Lemma std_xml_expand_printed attr cps :
  xml_chars cps ->
  forall fuel acc,
    (length (xml_esc attr (flat_map utf8_encode cps)) < fuel)%nat ->
    std_xml_expand fuel attr (xml_esc attr (flat_map utf8_encode cps)) acc = Some (acc ++ flat_map utf8_encode cps).
Proof.
  unfold xml_chars.
  induction cps as [|cp cps IH]; intros Hv fuel acc Hf.
  - destruct fuel as [|f]; [cbn in Hf; lia|]. cbn. rewrite app_nil_r. reflexivity.
  - cbn [forallb] in Hv. apply andb_true_iff in Hv. destruct Hv as [Hcp Hv]. specialize (IH Hv).
    cbn [flat_map] in Hf |- *.
    destruct fuel as [|f]; [lia|].
    pose proof (xml_esc_no62 attr (flat_map utf8_encode cps)) as H62.
    destruct (N.lt_ge_cases cp 128) as [Hlow|Hhigh].
    + (* one byte *)
      rewrite (utf8_encode_ascii cp Hlow) in Hf |- *. cbn [app] in Hf |- *.
      rewrite xml_esc_cons in Hf |- *. rewrite app_length in Hf.
      rewrite xml_esc_byte_spec in Hf |- *.
      destruct (cp =? 38) eqn:E38.
      { apply N.eqb_eq in E38; subst cp. cbn [app length] in Hf |- *. rewrite xstep_amp.
        rewrite IH by lia. rewrite <- app_assoc. reflexivity. }
      destruct (cp =? 60) eqn:E60.
      { apply N.eqb_eq in E60; subst cp. cbn [app length] in Hf |- *. rewrite xstep_lt.
        rewrite IH by lia. rewrite <- app_assoc. reflexivity. }
      destruct (cp =? 62) eqn:E62.
      { apply N.eqb_eq in E62; subst cp. cbn [app length] in Hf |- *. rewrite xstep_gt.
        rewrite IH by lia. rewrite <- app_assoc. reflexivity. }
      destruct (cp =? 13) eqn:E13.
      { apply N.eqb_eq in E13; subst cp. cbn [app length] in Hf |- *. rewrite xstep_cr.
        rewrite IH by lia. rewrite <- app_assoc. reflexivity. }
      destruct ((cp =? 9) && attr) eqn:E9.
      { apply andb_true_iff in E9. destruct E9 as [E9 _]. apply N.eqb_eq in E9; subst cp.
        cbn [app length] in Hf |- *. rewrite xstep_tab.
        rewrite IH by lia. rewrite <- app_assoc. reflexivity. }
      destruct ((cp =? 10) && attr) eqn:E10.
      { apply andb_true_iff in E10. destruct E10 as [E10 _]. apply N.eqb_eq in E10; subst cp.
        cbn [app length] in Hf |- *. rewrite xstep_lf.
        rewrite IH by lia. rewrite <- app_assoc. reflexivity. }
      destruct ((cp =? 34) && attr) eqn:E34.
      { apply andb_true_iff in E34. destruct E34 as [E34 _]. apply N.eqb_eq in E34; subst cp.
        cbn [app length] in Hf |- *. rewrite xstep_quot.
        rewrite IH by lia. rewrite <- app_assoc. reflexivity. }
      (* a character written raw *)
      cbn [app length] in Hf |- *. cbn [std_xml_expand]. rewrite E38, E60.
      assert (Hcd : starts_with [93; 93; 62] (cp :: xml_esc attr (flat_map utf8_encode cps)) = false).
      { apply no_cdata_close. constructor; [lia|exact H62]. }
      rewrite Hcd, andb_false_r. rewrite (andb_comm attr (cp =? 34)), E34.
      assert (Hd : std_utf8_decode (cp :: xml_esc attr (flat_map utf8_encode cps)) =
                   Some (cp, xml_esc attr (flat_map utf8_encode cps))).
      { unfold std_utf8_decode. assert (E : (cp <? 128) = true) by lia. rewrite E. reflexivity. }
      rewrite Hd, Hcp. rewrite (utf8_encode_ascii cp Hlow).
      destruct attr.
      * rewrite andb_true_r in E9, E10. cbn [andb].
        destruct (is_xml_S cp) eqn:ES.
        -- assert (cp = 32) by (unfold is_xml_S in ES; lia). subst cp.
           rewrite IH by lia. rewrite <- app_assoc. reflexivity.
        -- rewrite IH by lia. rewrite <- app_assoc. reflexivity.
      * cbn [andb]. rewrite IH by lia. rewrite <- app_assoc. reflexivity.
    + (* several bytes, all with the top bit set, written raw *)
      pose proof (utf8_encode_high cp Hhigh) as Hh.
      rewrite xml_esc_app in Hf |- *. rewrite (xml_esc_plain attr _ (high_plain _ Hh)) in Hf |- *.
      rewrite app_length in Hf.
      pose proof (std_utf8_decode_encode cp (xml_esc attr (flat_map utf8_encode cps)) (xml_char_scalar cp Hcp)) as Hd.
      pose proof (utf8_encode_nonnil cp) as Hnn.
      assert (ES : is_xml_S cp = false) by (unfold is_xml_S; lia).
      remember (utf8_encode cp) as enc eqn:Eenc.
      destruct enc as [|b0 t]; [congruence|].
      pose proof (Forall_inv Hh) as Hb0. cbn beta in Hb0.
      cbn [app] in Hd |- *. cbn [std_xml_expand].
      assert (E38 : (b0 =? 38) = false) by lia. assert (E60 : (b0 =? 60) = false) by lia.
      assert (E34 : (b0 =? 34) = false) by lia. assert (E93 : (93 =? b0) = false) by lia.
      rewrite E38, E60, E34. cbn [starts_with]. rewrite E93. cbn [andb]. rewrite !andb_false_r.
      rewrite Hd, Hcp, ES, andb_false_r.
      rewrite <- Eenc.
      rewrite IH by (cbn [length] in Hf; lia). rewrite <- app_assoc. reflexivity.
Qed.

(* C12, XML text: a conformant processor reports exactly the payload, for every string of Chars,
   as element content (attr = false) and as attribute value (attr = true) *)
Theorem xml_text_std_proof attr cps :
  xml_chars cps ->
  std_xml_text attr (xml_esc attr (flat_map utf8_encode cps)) = Some (flat_map utf8_encode cps).
Proof.
  intro H. unfold std_xml_text.
  rewrite (xml_eol_id _ (xml_esc_no13 attr _)).
  rewrite (std_xml_expand_printed attr cps H _ []); [reflexivity|lia].
Qed.

Corollary xml_content_std_proof cps :
  xml_chars cps -> std_xml_text false (xml_esc false (flat_map utf8_encode cps)) = Some (flat_map utf8_encode cps).
Proof. apply xml_text_std_proof. Qed.

Corollary xml_attr_std_proof cps :
  xml_chars cps -> std_xml_text true (xml_esc true (flat_map utf8_encode cps)) = Some (flat_map utf8_encode cps).
Proof. apply xml_text_std_proof. Qed.

(* the hypothesis is necessary: XML 1.0 has no way at all to write a character outside Char (for
   example U+0001: not even as a reference, 4.1 Legal Character); lyxml_dump_text() writes such a
   byte raw and the result is not well-formed. libyang's own XML lexer refuses these characters too
   (ly_getutf8), so they can only come from another input format or from the API. *)
Lemma xml_text_std_nonchar_refuted_proof :
  exists cps, forallb is_scalar cps = true /\ std_xml_text false (xml_esc false (flat_map utf8_encode cps)) = None.
Proof. exists [97; 1; 98]. split; reflexivity. Qed.

(* CR, TAB, LF (alone, paired, leading, trailing), every escape class, the CDATA-section-close
   sequence, DEL, 2-, 3- and 4-byte characters - as content and as attribute value *)
Example xml_text_std_example :
  let cps := [13; 97; 38; 60; 62; 34; 39; 9; 10; 13; 10; 13; 13; 32; 93; 93; 62; 233; 8364; 128512; 127; 65533; 10; 9; 13] in
  xml_chars cps /\
  std_xml_text false (xml_esc false (flat_map utf8_encode cps)) = Some (flat_map utf8_encode cps) /\
  std_xml_text true (xml_esc true (flat_map utf8_encode cps)) = Some (flat_map utf8_encode cps).
Proof. vm_compute. repeat split. Qed.

(* what the fixes 6fdbff2 / 47fa563 changed: the former output (CR, and TAB/LF in attributes,
   written raw) is read as something else by a conformant processor, the present output is not *)
Example xml_text_std_cr_tab_lf_example :
  xml_esc false [120; 13; 121] = [120; 38; 35; 120; 68; 59; 121] /\
  std_xml_text false [120; 13; 121] = Some [120; 10; 121] /\
  std_xml_text false (xml_esc false [120; 13; 121]) = Some [120; 13; 121] /\
  std_xml_text false (xml_esc false [120; 13; 10; 121]) = Some [120; 13; 10; 121] /\
  xml_esc true [97; 9; 98; 10; 99; 13; 10] = [97; 38;35;120;57;59; 98; 38;35;120;65;59; 99; 38;35;120;68;59; 38;35;120;65;59] /\
  std_xml_text true [97; 9; 98; 10; 99; 13; 10] = Some [97; 32; 98; 32; 99; 32] /\
  std_xml_text true (xml_esc true [97; 9; 98; 10; 99; 13; 10]) = Some [97; 9; 98; 10; 99; 13; 10] /\
  std_xml_text false (xml_esc false [97; 9; 98; 10; 99]) = Some [97; 9; 98; 10; 99].
Proof. vm_compute. repeat split. Qed.
