(* Extract_depset.v — extraction of slice depset (DepSet) to model_depset.ml *)
From Coq Require Extraction ExtrOcamlBasic.
From LY Require Import Base DepSet.
Extraction Language OCaml.
Extraction "model_depset.ml"
  N.add N.mul N.div N.modulo N.sub Z.add Z.mul Z.opp Z.of_N Z.abs_N Z.sub Z.ltb
  DepSet.dep_set_of DepSet.dep_fuel_out.
