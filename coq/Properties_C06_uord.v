(* Properties_C06_uord.v — property C06 (apply(diff(A,B), A) = B) for ONE user-ordered leaf-list
   (creation, deletion and reordering of instances), on the list-level model DiffUserOrd of
   lyd_diff_siblings_r / lyd_diff_userord_attrs / lyd_diff_add / lyd_diff_apply_r / lyd_diff_insert.
   Theorem statements only. *)
From LY Require Import Base DiffUserOrd DiffUserOrdP.
Local Open Scope N_scope.

(* For all duplicate-free instance lists l1 (first tree) and l2 (second tree): applying the diff nodes,
   in the sibling order of the diff tree (deletes, then creates and moves in l2 order), to l1 succeeds
   and yields exactly l2 - content and order. *)
Theorem C06_userord_moves_correct :
  forall l1 l2, NoDup l1 -> NoDup l2 -> apply_ops (userord_diff l1 l2) l1 = Ok l2.
Proof. exact userord_moves_correct. Qed.
Print Assumptions C06_userord_moves_correct.

(* ... and the pointer lyd_diff_apply_all() hands back in *data is the first sibling of the result. *)
Theorem C06_userord_first_sibling :
  forall l1 l2, NoDup l1 -> NoDup l2 -> apply_ops_full (userord_diff l1 l2) l1 = Ok (l2, hd_error l2).
Proof. exact userord_moves_first_sibling. Qed.
Print Assumptions C06_userord_first_sibling.

(* Whenever lyd_diff_userord_attrs() generates a move, first_pos >= second_pos, so the memmove length
   (first_pos - second_pos), computed in uint32_t, does not wrap. A consequence of the invariant of
   pass 2 (the first second_pos array positions are final), not an assumption. *)
Theorem C06_userord_memmove_safe :
  forall l1 l2, NoDup l1 -> NoDup l2 ->
  forall t, In t (userord_trace l1 l2) -> d_op (t_op t) = OpReplace -> (t_second t <= t_first t)%nat.
Proof. exact userord_memmove_safe. Qed.
Print Assumptions C06_userord_memmove_safe.

(* All array indices of every lyd_diff_userord_attrs() call are in range: a deleted instance is found
   (the assert), a create inserts inside the enlarged array, a move has
   second_pos < first_pos < LY_ARRAY_COUNT. *)
Theorem C06_userord_trace_safe :
  forall l1 l2, NoDup l1 -> NoDup l2 -> Forall tr_safe (userord_trace l1 l2).
Proof. exact userord_trace_safe. Qed.
Print Assumptions C06_userord_trace_safe.

(* The diff of a list with itself has no node (any list, duplicates included). *)
Theorem C06_userord_diff_self_empty : forall l, userord_diff l l = [].
Proof. exact userord_diff_self_empty. Qed.
Print Assumptions C06_userord_diff_self_empty.

(* the hypotheses are satisfiable by a non-trivial pair: one delete, one create, two moves *)
Example C06_userord_example :
  NoDup [1; 2; 3; 4; 5] /\ NoDup [6; 5; 1; 3; 2] /\
  userord_diff [1; 2; 3; 4; 5] [6; 5; 1; 3; 2] =
    [ mkdop OpDelete 4 None (Some (Some 3)); mkdop OpCreate 6 (Some None) None;
      mkdop OpReplace 5 (Some (Some 6)) (Some (Some 3)); mkdop OpReplace 3 (Some (Some 1)) (Some (Some 2)) ] /\
  apply_ops (userord_diff [1; 2; 3; 4; 5] [6; 5; 1; 3; 2]) [1; 2; 3; 4; 5] = Ok [6; 5; 1; 3; 2].
Proof.
  split; [repeat (constructor; [cbn [In]; intuition discriminate|]); constructor|].
  split; [repeat (constructor; [cbn [In]; intuition discriminate|]); constructor|].
  split; vm_compute; reflexivity.
Qed.
