(* JsonNumP.v - proofs about the JSON number model (JsonNum.v).
   A. reading the text, integer conversions      B. the scanning helpers (skip_digits, count_in_row,
   strnchr, strtoll)                              C. the allocated block (wrb, fillb, copy_loop)
   D. lex_number                                  E. number_is_zero
   F. lyjson_exp_number, one lemma per layout     G. lyjson_number: no_oob, len_bounded
   H. the refutation witnesses and a finite sweep of denotes_ok *)
From LY Require Import Base JsonNum.
From Coq Require Import ZifyBool ZifyNat ZifyN.
Local Open Scope Z_scope.

(* ================= A. reading the text, integer conversions ================= *)
Definition bat (s : bytes) (i : Z) : N := nth (Z.to_nat i) s 0%N.
Notation Ln s := (Z.of_nat (length s)).

Lemma rdin_ok s i : 0 <= i <= Ln s -> rdin s i = JOk (bat s i).
Proof.
  intro H. unfold rdin. replace ((0 <=? i) && (i <=? Ln s)) with true by lia. reflexivity.
Qed.

Lemma bat_nz s i : 0 <= i -> bat s i <> 0%N -> i < Ln s.
Proof.
  intros Hi Hn. destruct (Z_lt_ge_dec i (Ln s)) as [Hlt|Hge]; [exact Hlt|].
  exfalso. apply Hn. unfold bat. apply nth_overflow. lia.
Qed.

Lemma digit_nz c : is_digit c = true -> c <> 0%N.
Proof. unfold is_digit. lia. Qed.

Lemma digit_range c : is_digit c = true -> (48 <= c <= 57)%N.
Proof. unfold is_digit. lia. Qed.

Lemma u16_id x : 0 <= x < 65536 -> u16 x = x.
Proof. intro H. unfold u16. apply Z.mod_small. lia. Qed.
Lemma u32_id x : 0 <= x < 4294967296 -> u32 x = x.
Proof. intro H. unfold u32. apply Z.mod_small. lia. Qed.
Lemma u64_id x : 0 <= x < 18446744073709551616 -> u64 x = x.
Proof. intro H. unfold u64. apply Z.mod_small. lia. Qed.
Lemma i32_id x : -2147483648 <= x < 2147483648 -> i32 x = x.
Proof. intro H. unfold i32. rewrite Z.mod_small by lia. lia. Qed.

Lemma cstr_length s : (length (cstr s) <= length s)%nat.
Proof.
  induction s as [|c r IH]; cbn [cstr length]; [lia|].
  destruct (c =? 0)%N; cbn [length]; lia.
Qed.

(* ================= B. the scanning helpers ================= *)
Lemma skip_digits_spec fuel s off :
  0 <= off <= Ln s -> Ln s - off < Z.of_nat fuel ->
  exists o, skip_digits fuel s off = JOk o /\ off <= o <= Ln s /\
            (forall k, off <= k < o -> is_digit (bat s k) = true) /\ is_digit (bat s o) = false.
Proof.
  revert off; induction fuel as [|f IH]; intros off Ho Hf; [lia|].
  cbn [skip_digits]. rewrite rdin_ok by lia. cbn [jbind].
  destruct (is_digit (bat s off)) eqn:Hd.
  - assert (Hlt : off < Ln s) by (apply bat_nz; [lia|apply digit_nz; exact Hd]).
    destruct (IH (off + 1)) as (o & He & Hr & Hall & Hnd); [lia|lia|].
    exists o. split; [exact He|]. split; [lia|]. split; [|exact Hnd].
    intros k Hk. destruct (Z.eq_dec k off) as [->|Hne]; [exact Hd|]. apply Hall. lia.
  - exists off. split; [reflexivity|]. split; [lia|]. split; [|exact Hd].
    intros k Hk. lia.
Qed.

Lemma count_fwd_spec n s str c :
  0 <= str -> str + Z.of_nat n <= Ln s + 1 ->
  exists k, count_fwd n s str c = JOk k /\ 0 <= k <= Z.of_nat n /\
    (forall j, str <= j < str + k -> bat s j = c) /\ (k < Z.of_nat n -> bat s (str + k) <> c).
Proof.
  revert str; induction n as [|n IH]; intros str Hs Hn.
  - exists 0. cbn [count_fwd]. split; [reflexivity|]. split; [lia|]. split; intros; lia.
  - cbn [count_fwd]. rewrite rdin_ok by lia. cbn [jbind].
    destruct (bat s str =? c)%N eqn:Hc.
    + destruct (IH (str + 1)) as (k & He & Hr & Hall & Hstop); [lia|lia|].
      rewrite He. cbn [jbind]. exists (k + 1). split; [reflexivity|]. split; [lia|]. split.
      * intros j Hj. destruct (Z.eq_dec j str) as [->|Hne]; [lia|]. apply Hall. lia.
      * intro Hk. replace (str + (k + 1)) with (str + 1 + k) by lia. apply Hstop. lia.
    + exists 0. split; [reflexivity|]. split; [lia|]. split.
      * intros j Hj. lia.
      * intros _. replace (str + 0) with str by lia. lia.
Qed.

Lemma count_bwd_spec n s e c :
  0 <= e - Z.of_nat n -> e <= Ln s + 1 ->
  exists k, count_bwd n s e c = JOk k /\ 0 <= k <= Z.of_nat n /\
    (forall j, e - k <= j < e -> bat s j = c) /\ (k < Z.of_nat n -> bat s (e - 1 - k) <> c).
Proof.
  revert e; induction n as [|n IH]; intros e Hs Hn.
  - exists 0. cbn [count_bwd]. split; [reflexivity|]. split; [lia|]. split; intros; lia.
  - cbn [count_bwd]. rewrite rdin_ok by lia. cbn [jbind].
    destruct (bat s (e - 1) =? c)%N eqn:Hc.
    + destruct (IH (e - 1)) as (k & He & Hr & Hall & Hstop); [lia|lia|].
      rewrite He. cbn [jbind]. exists (k + 1). split; [reflexivity|]. split; [lia|]. split.
      * intros j Hj. destruct (Z.eq_dec j (e - 1)) as [->|Hne]; [lia|]. apply Hall. lia.
      * intro Hk. replace (e - 1 - (k + 1)) with (e - 1 - 1 - k) by lia. apply Hstop. lia.
    + exists 0. split; [reflexivity|]. split; [lia|]. split.
      * intros j Hj. lia.
      * intros _. replace (e - 1 - 0) with (e - 1) by lia. lia.
Qed.

(* lyjson_count_in_row: the 32-bit counter does not wrap because the text is shorter than 4 GiB *)
Lemma count_in_row_fwd s str e c :
  Ln s < 4294967296 -> 0 <= str -> e <= Ln s ->
  exists k, count_in_row s str e c false = JOk k /\ 0 <= k <= Z.max 0 (e - str) /\
    (forall j, str <= j < str + k -> bat s j = c) /\ (k < e - str -> bat s (str + k) <> c).
Proof.
  intros HL Hs He. unfold count_in_row. destruct (e <=? str) eqn:Hes.
  - exists 0. split; [reflexivity|]. split; [lia|]. split; intros; lia.
  - destruct (count_fwd_spec (Z.to_nat (e - str)) s str c) as (k & Hk & Hr & Hall & Hstop); [lia|lia|].
    rewrite Hk. cbn [jbind]. rewrite u32_id by lia. exists k. split; [reflexivity|].
    split; [lia|]. split; [exact Hall|]. intro Hlt. apply Hstop. lia.
Qed.

Lemma count_in_row_bwd s str e c :
  Ln s < 4294967296 -> 0 <= str -> e <= Ln s ->
  exists k, count_in_row s str e c true = JOk k /\ 0 <= k <= Z.max 0 (e - str) /\
    (forall j, e - k <= j < e -> bat s j = c) /\ (k < e - str -> bat s (e - 1 - k) <> c).
Proof.
  intros HL Hs He. unfold count_in_row. destruct (e <=? str) eqn:Hes.
  - exists 0. split; [reflexivity|]. split; [lia|]. split; intros; lia.
  - destruct (count_bwd_spec (Z.to_nat (e - str)) s e c) as (k & Hk & Hr & Hall & Hstop); [lia|lia|].
    rewrite Hk. cbn [jbind]. rewrite u32_id by lia. exists k. split; [reflexivity|].
    split; [lia|]. split; [exact Hall|]. intro Hlt. apply Hstop. lia.
Qed.

Lemma strnchr_spec n s p c :
  0 <= p -> p + Z.of_nat n <= Ln s + 1 ->
  (exists q, strnchr n s p c = JOk (Some q) /\ p <= q < p + Z.of_nat n /\ bat s q = c /\
             forall j, p <= j < q -> bat s j <> c)
  \/ (strnchr n s p c = JOk None /\ forall j, p <= j < p + Z.of_nat n -> bat s j <> c).
Proof.
  revert p; induction n as [|n IH]; intros p Hp Hn.
  - right. split; [reflexivity|]. intros j Hj. lia.
  - cbn [strnchr]. rewrite rdin_ok by lia. cbn [jbind].
    destruct (bat s p =? c)%N eqn:Hc.
    + left. exists p. split; [reflexivity|]. split; [lia|]. split; [lia|]. intros j Hj. lia.
    + destruct (IH (p + 1)) as [(q & He & Hr & Hq & Hall)|(He & Hall)]; [lia|lia| |].
      * left. exists q. split; [exact He|]. split; [lia|]. split; [exact Hq|].
        intros j Hj. destruct (Z.eq_dec j p) as [->|Hne]; [lia|]. apply Hall. lia.
      * right. split; [exact He|].
        intros j Hj. destruct (Z.eq_dec j p) as [->|Hne]; [lia|]. apply Hall. lia.
Qed.

(* the digit loop of strtoll: ends inside the text, the value is positive as soon as one digit of the
   run is not 0 *)
Lemma acc_digits_spec fuel s i acc :
  0 <= i <= Ln s -> Ln s - i < Z.of_nat fuel -> 0 <= acc ->
  exists a, acc_digits fuel s i acc = JOk a /\ acc <= a /\
    (forall k, i <= k -> (forall j, i <= j <= k -> is_digit (bat s j) = true) -> bat s k <> 48%N -> 0 < a).
Proof.
  revert i acc; induction fuel as [|f IH]; intros i acc Hi Hf Ha; [lia|].
  cbn [acc_digits]. rewrite rdin_ok by lia. cbn [jbind].
  destruct (is_digit (bat s i)) eqn:Hd.
  - assert (Hlt : i < Ln s) by (apply bat_nz; [lia|apply digit_nz; exact Hd]).
    pose proof (digit_range _ Hd) as Hrg.
    destruct (IH (i + 1) (10 * acc + (Z.of_N (bat s i) - 48))) as (a & He & Hge & Hpos); [lia|lia|lia|].
    exists a. split; [exact He|]. split; [lia|].
    intros k Hk Hall Hne. destruct (Z.eq_dec k i) as [->|Hki]; [lia|].
    apply (Hpos k); [lia| |exact Hne]. intros j Hj. apply Hall. lia.
  - exists acc. split; [reflexivity|]. split; [lia|].
    intros k Hk Hall Hne. rewrite (Hall i) in Hd by lia. discriminate.
Qed.

(* ================= C. the allocated block ================= *)
(* cells 0 .. k-1 have been written *)
Definition pinit (b : buffer) (k : Z) : Prop :=
  forall j, 0 <= j < k -> exists v, nth_error b (Z.to_nat j) = Some (Some v).

Lemma upd_length b i v : length (upd b i v) = length b.
Proof. revert i; induction b as [|x b IH]; intros [|i]; cbn [upd length]; auto. Qed.

Lemma nth_error_upd_same b i v : (i < length b)%nat -> nth_error (upd b i v) i = Some (Some v).
Proof.
  revert i; induction b as [|x b IH]; intros [|i] H; cbn [upd nth_error length] in *; try lia; auto.
  apply IH. lia.
Qed.

Lemma nth_error_upd_other b i j v : i <> j -> nth_error (upd b i v) j = nth_error b j.
Proof.
  revert i j; induction b as [|x b IH]; intros [|i] [|j] H; cbn [upd nth_error]; auto; try lia.
Qed.

Lemma pinit_mono b k k' : k' <= k -> pinit b k -> pinit b k'.
Proof. intros Hle Hp j Hj. apply Hp. lia. Qed.

Lemma pinit_upd_keep b i v k : pinit b k -> pinit (upd b i v) k.
Proof.
  intros Hp j Hj. destruct (Hp j Hj) as (w & Hw).
  destruct (Nat.eq_dec i (Z.to_nat j)) as [->|Hne].
  - exists v. apply nth_error_upd_same. apply nth_error_Some. rewrite Hw. discriminate.
  - exists w. rewrite nth_error_upd_other by exact Hne. exact Hw.
Qed.

Lemma pinit_upd_ext b k v :
  0 <= k < Z.of_nat (length b) -> pinit b k -> pinit (upd b (Z.to_nat k) v) (k + 1).
Proof.
  intros Hk Hp j Hj. destruct (Z.eq_dec j k) as [->|Hne].
  - exists v. apply nth_error_upd_same. lia.
  - apply (pinit_upd_keep b (Z.to_nat k) v k Hp j). lia.
Qed.

Lemma wrb_step b k v :
  0 <= k < Z.of_nat (length b) -> pinit b k ->
  exists b', wrb b k v = JOk b' /\ length b' = length b /\ pinit b' (k + 1).
Proof.
  intros Hk Hp. unfold wrb. replace ((0 <=? k) && (k <? Z.of_nat (length b))) with true by lia.
  eexists. split; [reflexivity|]. split; [apply upd_length|]. apply pinit_upd_ext; assumption.
Qed.

Lemma fill_length b i n v : length (fill b i n v) = length b.
Proof.
  revert b i; induction n as [|n IH]; intros b i; cbn [fill]; [reflexivity|].
  rewrite IH. apply upd_length.
Qed.

Lemma fill_pinit b i n v :
  (i + n <= length b)%nat -> pinit b (Z.of_nat i) -> pinit (fill b i n v) (Z.of_nat (i + n)).
Proof.
  revert b i; induction n as [|n IH]; intros b i Hle Hp; cbn [fill].
  - replace (i + 0)%nat with i by lia. exact Hp.
  - replace (i + S n)%nat with (S i + n)%nat by lia. apply IH.
    + rewrite upd_length. lia.
    + replace (Z.of_nat (S i)) with (Z.of_nat i + 1) by lia.
      replace i with (Z.to_nat (Z.of_nat i)) at 1 by lia.
      apply pinit_upd_ext; [lia|exact Hp].
Qed.

Lemma fillb_step b k n v :
  0 <= k -> 0 <= n -> k + n <= Z.of_nat (length b) -> pinit b k ->
  exists b', fillb b k n v = JOk b' /\ length b' = length b /\ pinit b' (k + n).
Proof.
  intros Hk Hn Hle Hp. unfold fillb. destruct (n =? 0) eqn:Hn0.
  - exists b. split; [reflexivity|]. split; [reflexivity|]. replace (k + n) with k by lia. exact Hp.
  - replace ((0 <=? k) && (k + n <=? Z.of_nat (length b))) with true by lia.
    eexists. split; [reflexivity|]. split; [apply fill_length|].
    replace (k + n) with (Z.of_nat (Z.to_nat k + Z.to_nat n)) by lia.
    apply fill_pinit; [lia|]. replace (Z.of_nat (Z.to_nat k)) with k by lia. exact Hp.
Qed.

Lemma repeat_None_length n : length (repeat (@None N) n) = n.
Proof. apply repeat_length. Qed.

(* lyjson_get_buffer_for_number: either the LY_NUMBER_MAXLEN error or a block of n + 1 bytes, n + 1 <= 22 *)
Lemma get_buffer_cases n :
  0 <= n < 9223372036854775808 ->
  get_buffer n = JErr E_MAXLEN \/
  (n + 1 <= 22 /\ exists b, get_buffer n = JOk b /\ Z.of_nat (length b) = n + 1 /\ pinit b 0).
Proof.
  intro Hn. unfold get_buffer. rewrite u64_id by lia. unfold LY_NUMBER_MAXLEN.
  destruct (22 <? n + 1) eqn:Hc; [left; reflexivity|right].
  split; [lia|]. eexists. split; [reflexivity|]. split.
  - rewrite repeat_length. lia.
  - intros j Hj. lia.
Qed.

Lemma maybe_minus_step b minus :
  minus = 0 \/ minus = 1 -> 1 <= Z.of_nat (length b) ->
  exists b', maybe_minus b minus = JOk (b', minus) /\ length b' = length b /\ pinit b' minus.
Proof.
  intros Hm Hl. unfold maybe_minus. destruct Hm as [-> | ->]; cbn [Z.eqb Pos.eqb].
  - exists b. split; [reflexivity|]. split; [reflexivity|]. intros j Hj. lia.
  - destruct (wrb_step b 0 45%N) as (b' & He & Hlen & Hp); [lia|intros j Hj; lia|].
    rewrite He. cbn [jbind]. exists b'. split; [reflexivity|]. split; [exact Hlen|exact Hp].
Qed.

(* number of source bytes the copy loop stores (it skips the old decimal point when it meets it) and
   whether it inserts the new decimal point *)
Definition cm (n cnt dec_idx : Z) : Z := cnt - Z.b2z ((n <=? dec_idx) && (dec_idx <? n + cnt)).
Definition cins (d dp m : Z) : Z := Z.b2z ((d <=? dp) && (dp <? d + m)).

Lemma copy_loop_spec cnt : forall s num dec_idx dp b base n d,
  0 <= num + n -> num + n + Z.of_nat cnt <= Ln s + 1 ->
  0 <= base + d ->
  base + d + cm n (Z.of_nat cnt) dec_idx + cins d dp (cm n (Z.of_nat cnt) dec_idx) <= Z.of_nat (length b) ->
  pinit b (base + d) ->
  exists b' d', copy_loop cnt s num dec_idx dp b base n d = JOk (b', d') /\
     d' = d + cm n (Z.of_nat cnt) dec_idx + cins d dp (cm n (Z.of_nat cnt) dec_idx) /\
     length b' = length b /\ pinit b' (base + d').
Proof.
  induction cnt as [|cnt IH]; intros s num dec_idx dp b base n d Hn0 Hn1 Hb0 Hb1 Hp.
  - cbn [copy_loop]. exists b, d. split; [reflexivity|]. split; [unfold cm, cins; lia|].
    split; [reflexivity|exact Hp].
  - cbn [copy_loop]. destruct (n =? dec_idx) eqn:Hnd.
    + destruct (IH s num dec_idx dp b base (n + 1) d) as (b' & d' & He & Hd' & Hl & Hp');
        [lia|lia|lia|unfold cm, cins in *; lia|exact Hp|].
      exists b', d'. split; [exact He|]. split; [unfold cm, cins in *; lia|]. split; [exact Hl|exact Hp'].
    + rewrite rdin_ok by lia. cbn [jbind]. destruct (d =? dp) eqn:Hdp.
      * destruct (wrb_step b (base + d) 46%N) as (b1 & He1 & Hl1 & Hp1);
          [unfold cm, cins in *; lia|exact Hp|].
        rewrite He1. cbn [jbind].
        destruct (wrb_step b1 (base + d + 1) (bat s (num + n))) as (b2 & He2 & Hl2 & Hp2);
          [unfold cm, cins in *; lia|exact Hp1|].
        rewrite He2. cbn [jbind].
        destruct (IH s num dec_idx dp b2 base (n + 1) (d + 2)) as (b' & d' & He & Hd' & Hl & Hp');
          [lia|lia|lia|unfold cm, cins in *; lia|
           replace (base + (d + 2)) with (base + d + 1 + 1) by lia; exact Hp2|].
        exists b', d'. split; [exact He|]. split; [unfold cm, cins in *; lia|]. split; [congruence|exact Hp'].
      * destruct (wrb_step b (base + d) (bat s (num + n))) as (b1 & He1 & Hl1 & Hp1);
          [unfold cm, cins in *; lia|exact Hp|].
        rewrite He1. cbn [jbind].
        destruct (IH s num dec_idx dp b1 base (n + 1) (d + 1)) as (b' & d' & He & Hd' & Hl & Hp');
          [lia|lia|lia|unfold cm, cins in *; lia|
           replace (base + (d + 1)) with (base + d + 1) by lia; exact Hp1|].
        exists b', d'. split; [exact He|]. split; [unfold cm, cins in *; lia|]. split; [congruence|exact Hp'].
Qed.

Definition decidx (dec_point : option Z) (num : Z) : Z :=
  match dec_point with Some p => p - num | None => INT32_MAX end.

(* lyjson_exp_number_copy_num_part: [m] source bytes are stored, [ins] is 1 when the new decimal point
   is inserted; neither assert fires, the stores are the cells base .. base + m + ins - 1 *)
Lemma copy_num_part_step s num num_len dec_point dp b base m ins :
  0 <= num -> 0 <= num_len <= 65535 -> num + num_len <= Ln s + 1 ->
  (forall p, dec_point = Some p -> 0 <= p - num < 65536) ->
  decidx dec_point num <> dp ->
  m = cm 0 num_len (decidx dec_point num) -> ins = cins 0 dp m ->
  0 <= base -> base + m + ins <= Z.of_nat (length b) -> pinit b base ->
  exists b', copy_num_part s num num_len dec_point dp b base = JOk (b', m + ins) /\
    length b' = length b /\ pinit b' (base + (m + ins)).
Proof.
  intros Hnum Hlen Hrd Hdec Hne Hm Hins Hb0 Hb1 Hp. unfold copy_num_part.
  replace (match dec_point with Some p => i32 (p - num) | None => INT32_MAX end) with (decidx dec_point num).
  2:{ unfold decidx. destruct dec_point as [p|]; [|reflexivity].
      specialize (Hdec p eq_refl). rewrite i32_id by lia. reflexivity. }
  assert (Hd0 : 0 <= decidx dec_point num).
  { unfold decidx, INT32_MAX. destruct dec_point as [p|]; [specialize (Hdec p eq_refl)|]; lia. }
  replace ((0 <=? decidx dec_point num) && negb (decidx dec_point num =? dp)) with true by lia.
  cbn [negb]. rewrite u32_id by lia.
  destruct (copy_loop_spec (Z.to_nat num_len) s num (decidx dec_point num) dp b base 0 0)
    as (b' & d' & He & Hd' & Hl & Hp').
  - lia.
  - lia.
  - lia.
  - rewrite Z2Nat.id by lia. rewrite <- Hm. rewrite <- Hins. lia.
  - replace (base + 0) with base by lia. exact Hp.
  - rewrite Z2Nat.id in Hd' by lia. rewrite <- Hm in Hd'. rewrite <- Hins in Hd'.
    rewrite He. cbn [jbind]. exists b'. replace d' with (m + ins) in * by lia.
    rewrite u32_id by (unfold cm, cins in *; lia).
    split; [reflexivity|]. split; [exact Hl|exact Hp'].
Qed.

(* what the theorems say about the block lyjson_exp_number() hands back *)
Definition xprops (x : expres) : Prop :=
  Z.of_nat (length (x_buf x)) = x_len x + 1 /\ 0 <= x_len x < 22 /\
  x_len x <= x_end x <= x_len x + 1 /\ (x_branch x <> 2%N -> x_end x = x_len x) /\
  pinit (x_buf x) (x_len x).

Definition xgood (r : jres expres) : Prop :=
  match r with JOk x => xprops x | JErr e => e <> E_FUEL | JOob => False end.

Lemma finish_step b buf_len wend br :
  Z.of_nat (length b) = buf_len + 1 -> 0 <= buf_len < 22 -> buf_len <= wend <= buf_len + 1 ->
  (br <> 2%N -> wend = buf_len) -> pinit b wend ->
  xgood (finish b buf_len wend br).
Proof.
  intros Hl Hb Hw Hbr Hp. unfold finish, wrb.
  replace ((0 <=? buf_len) && (buf_len <? Z.of_nat (length b))) with true by lia.
  cbn [jbind xgood]. unfold xprops. cbn [x_buf x_len x_end x_branch].
  split; [rewrite upd_length; exact Hl|]. split; [exact Hb|]. split; [exact Hw|]. split; [exact Hbr|].
  apply pinit_upd_keep. apply (pinit_mono b wend); [lia|exact Hp].
Qed.

Lemma xgood_maxlen : xgood (JErr E_MAXLEN).
Proof. cbn [xgood]. discriminate. Qed.

(* ================= D. lex_number ================= *)
(* first exponent digit: after the letter and an optional sign *)
Definition exp_start (s : bytes) (ex : Z) : Z :=
  if (bat s (ex + 1) =? 43)%N || (bat s (ex + 1) =? 45)%N then ex + 2 else ex + 1.

Definition lexfacts (s : bytes) (minus o1 o2 : Z) : Prop :=
  minus = (if (bat s 0 =? 45)%N then 1 else 0) /\ minus < o1 /\
  is_digit (bat s minus) = true /\
  (bat s minus = 48%N -> o1 = minus + 1) /\
  ((o2 = o1 /\ bat s o1 <> 46%N) \/ (bat s o1 = 46%N /\ o1 + 1 < o2)).

Definition lexok (s : bytes) (lx : lexed) : Prop :=
  lexfacts s (l_minus lx) (l_o1 lx) (l_o2 lx) /\ l_o2 lx <= l_off lx /\ l_off lx <= Ln s /\
  match l_exp lx with
  | None => l_off lx = l_o2 lx
  | Some ex => ex = l_o2 lx /\ (bat s ex = 101%N \/ bat s ex = 69%N) /\ exp_start s ex < l_off lx /\
               forall k, exp_start s ex <= k < l_off lx -> is_digit (bat s k) = true
  end.

Definition lgood (s : bytes) (r : jres lexed) : Prop :=
  match r with JOk lx => lexok s lx | JErr e => e <> E_FUEL | JOob => False end.

Definition lex_rest2 (s : bytes) (minus o1 o2 : Z) : jres lexed :=
  let fuel := S (length s) in
  let* c := rdin s o2 in
  if (c =? 101)%N || (c =? 69)%N then
    let* c1 := rdin s (o2 + 1) in
    let o := if (c1 =? 43)%N || (c1 =? 45)%N then o2 + 2 else o2 + 1 in
    let* d := rdin s o in
    if is_digit d then (let* o' := skip_digits fuel s o in
                        JOk {| l_minus := minus; l_o1 := o1; l_o2 := o2; l_exp := Some o2; l_off := o' |})
    else JErr E_CHAR
  else JOk {| l_minus := minus; l_o1 := o1; l_o2 := o2; l_exp := None; l_off := o2 |}.

Definition lex_rest1 (s : bytes) (minus o1 : Z) : jres lexed :=
  let fuel := S (length s) in
  let* c := rdin s o1 in
  let* o2 := if (c =? 46)%N
             then (let* d := rdin s (o1 + 1) in
                   if is_digit d then skip_digits fuel s (o1 + 1) else JErr E_CHAR)
             else JOk o1 in
  lex_rest2 s minus o1 o2.

Lemma lex_number_eq s :
  lex_number s =
  let fuel := S (length s) in
  let* c0 := rdin s 0 in
  let minus := if (c0 =? 45)%N then 1 else 0 in
  let* c := rdin s minus in
  let* o1 := if (c =? 48)%N then JOk (minus + 1)
             else if is_digit c then skip_digits fuel s (minus + 1)
             else JErr E_CHAR in
  lex_rest1 s minus o1.
Proof. reflexivity. Qed.

Lemma lex_rest2_spec s minus o1 o2 :
  lexfacts s minus o1 o2 -> 0 <= o2 <= Ln s -> lgood s (lex_rest2 s minus o1 o2).
Proof.
  intros Hf Ho2. unfold lex_rest2. rewrite rdin_ok by lia. cbn [jbind].
  destruct ((bat s o2 =? 101)%N || (bat s o2 =? 69)%N) eqn:He.
  - assert (Hlt : o2 < Ln s) by (apply bat_nz; lia).
    rewrite rdin_ok by lia. cbn [jbind]. fold (exp_start s o2).
    assert (Hes : o2 + 1 <= exp_start s o2 <= o2 + 2 /\ exp_start s o2 <= Ln s).
    { unfold exp_start. destruct ((bat s (o2 + 1) =? 43)%N || (bat s (o2 + 1) =? 45)%N) eqn:Hs; [|lia].
      assert (o2 + 1 < Ln s) by (apply bat_nz; lia). lia. }
    rewrite rdin_ok by lia. cbn [jbind].
    destruct (is_digit (bat s (exp_start s o2))) eqn:Hd; [|cbn [lgood]; discriminate].
    destruct (skip_digits_spec (S (length s)) s (exp_start s o2)) as (o' & Hsk & Hr & Hall & Hnd); [lia|lia|].
    rewrite Hsk. cbn [jbind lgood]. unfold lexok. cbn [l_minus l_o1 l_o2 l_exp l_off].
    assert (Hne : o' <> exp_start s o2) by (intros ->; congruence).
    split; [exact Hf|]. split; [lia|]. split; [lia|]. split; [reflexivity|].
    split; [lia|]. split; [lia|exact Hall].
  - cbn [lgood]. unfold lexok. cbn [l_minus l_o1 l_o2 l_exp l_off].
    split; [exact Hf|]. split; [lia|]. split; [lia|reflexivity].
Qed.

Lemma lex_rest1_spec s minus o1 :
  minus = (if (bat s 0 =? 45)%N then 1 else 0) -> minus < o1 -> is_digit (bat s minus) = true ->
  (bat s minus = 48%N -> o1 = minus + 1) -> 0 <= o1 <= Ln s ->
  lgood s (lex_rest1 s minus o1).
Proof.
  intros Hm Hlt Hdm H48 Ho1. unfold lex_rest1. rewrite rdin_ok by lia. cbn [jbind].
  destruct (bat s o1 =? 46)%N eqn:Hc.
  - assert (Hl : o1 < Ln s) by (apply bat_nz; lia).
    rewrite rdin_ok by lia. cbn [jbind].
    destruct (is_digit (bat s (o1 + 1))) eqn:Hd; [|cbn [jbind lgood]; discriminate].
    destruct (skip_digits_spec (S (length s)) s (o1 + 1)) as (o2 & Hsk & Hr & Hall & Hnd); [lia|lia|].
    rewrite Hsk. cbn [jbind].
    assert (Hne : o2 <> o1 + 1) by (intros ->; congruence).
    apply lex_rest2_spec; [|lia]. unfold lexfacts.
    split; [exact Hm|]. split; [exact Hlt|]. split; [exact Hdm|]. split; [exact H48|].
    right. split; [lia|lia].
  - cbn [jbind]. apply lex_rest2_spec; [|lia]. unfold lexfacts.
    split; [exact Hm|]. split; [exact Hlt|]. split; [exact Hdm|]. split; [exact H48|].
    left. split; [reflexivity|lia].
Qed.

Lemma lex_number_spec s : lgood s (lex_number s).
Proof.
  rewrite lex_number_eq. cbv zeta. rewrite rdin_ok by lia. cbn [jbind].
  set (minus := if (bat s 0 =? 45)%N then 1 else 0).
  assert (Hm : 0 <= minus <= 1 /\ minus <= Ln s).
  { subst minus. destruct (bat s 0 =? 45)%N eqn:H; [|lia].
    assert (0 < Ln s) by (apply bat_nz; lia). lia. }
  rewrite rdin_ok by lia. cbn [jbind].
  destruct (bat s minus =? 48)%N eqn:H48.
  - cbn [jbind]. assert (Hl : minus < Ln s) by (apply bat_nz; lia).
    apply lex_rest1_spec; [reflexivity|lia|unfold is_digit; lia|lia|lia].
  - destruct (is_digit (bat s minus)) eqn:Hd; [|cbn [jbind lgood]; discriminate].
    assert (Hl : minus < Ln s) by (apply bat_nz; [lia|apply digit_nz; exact Hd]).
    destruct (skip_digits_spec (S (length s)) s (minus + 1)) as (o1 & Hsk & Hr & Hall & Hnd); [lia|lia|].
    rewrite Hsk. cbn [jbind].
    apply lex_rest1_spec; [reflexivity|lia|exact Hd|lia|lia].
Qed.

(* ================= E. lyjson_number_is_zero ================= *)
Definition nz_start (s : bytes) (i : Z) : Z :=
  if (bat s i =? 45)%N || (bat s i =? 43)%N then i + 1 else i.

Lemma nz_tail s i2 e :
  Ln s < 4294967296 -> 0 <= i2 -> i2 < e -> e <= Ln s ->
  exists z, (let* k := count_in_row s i2 e 48%N false in JOk (k =? u32 (e - i2))) = JOk z /\
    (z = false -> exists k, i2 <= k < e /\ bat s k <> 48%N).
Proof.
  intros HL H0 Hlt He.
  destruct (count_in_row_fwd s i2 e 48%N HL H0 He) as (k & Hk & Hr & Hall & Hstop).
  rewrite Hk. cbn [jbind]. rewrite u32_id by lia. eexists. split; [reflexivity|].
  intro Hz. exists (i2 + k). split; [lia|]. apply Hstop. lia.
Qed.

(* no assert fires, no read leaves the text; when the answer is false some byte between the (signed)
   start and the end is not the digit 0 *)
Lemma number_is_zero_spec s i e :
  Ln s < 4294967296 -> 0 <= i -> i < e -> e <= Ln s -> nz_start s i < e ->
  exists z, number_is_zero s i e = JOk z /\
    (z = false -> exists k, nz_start s i <= k < e /\ bat s k <> 48%N).
Proof.
  intros HL H0 Hlt He Hst. unfold number_is_zero.
  replace (negb (i <? e)) with false by lia.
  rewrite rdin_ok by lia. cbn [jbind].
  assert (Hi1 : (if (bat s i =? 45)%N || (bat s i =? 43)%N
                 then (if negb (i + 1 <? e) then JOob else JOk (i + 1)) else JOk i) = JOk (nz_start s i)).
  { unfold nz_start in *. destruct ((bat s i =? 45)%N || (bat s i =? 43)%N); [|reflexivity].
    replace (negb (i + 1 <? e)) with false by lia. reflexivity. }
  rewrite Hi1. cbn [jbind].
  assert (Hi1r : i <= nz_start s i) by (unfold nz_start; destruct ((bat s i =? 45)%N || (bat s i =? 43)%N); lia).
  set (i1 := nz_start s i) in *. clearbody i1. clear Hi1.
  rewrite rdin_ok by lia. cbn [jbind].
  destruct (bat s i1 =? 48)%N eqn:H48.
  - rewrite rdin_ok by lia. cbn [jbind]. destruct (bat s (i1 + 1) =? 46)%N eqn:H46.
    + cbn [andb]. destruct (negb (i1 + 2 <? e)) eqn:Hc.
      * exists true. split; [reflexivity|discriminate].
      * destruct (nz_tail s (i1 + 2) e) as (z & Hz & Hk); [lia|lia|lia|lia|].
        exists z. split; [exact Hz|]. intro Hf. destruct (Hk Hf) as (k & Hkr & Hkn).
        exists k. split; [lia|exact Hkn].
    + cbn [andb]. destruct (nz_tail s i1 e) as (z & Hz & Hk); [lia|lia|lia|lia|].
      exists z. split; [exact Hz|exact Hk].
  - cbn [jbind andb]. destruct (nz_tail s i1 e) as (z & Hz & Hk); [lia|lia|lia|lia|].
    exists z. split; [exact Hz|exact Hk].
Qed.

(* ================= F. lyjson_exp_number ================= *)
(* the five layouts, cut out of exp_number word for word (exp_number_eq is by reflexivity) *)
Definition br1 (s : bytes) (minus num num_len : Z) (dec_point : option Z) (dp dot : Z) : jres expres :=
    let zeros := Z.abs dp in
    let buf_len := u64 (minus + 1 + dot + zeros + num_len) in
    let* b := get_buffer buf_len in
    let* (b, i) := maybe_minus b minus in
    let* b := wrb b i 48%N in
    let* b := wrb b (i + 1) 46%N in
    let* b := fillb b (i + 2) (u64 zeros) 48%N in
    let i := u32 (i + 2 + zeros) in
    let* (b, d) := copy_num_part s num num_len dec_point (-1) b i in
    finish b buf_len (i + d) 1.

Definition br2 (s : bytes) (minus num num_len dp : Z) : jres expres :=
    let num := num + 1 in
    let num_len := u16 (num_len - 1) in
    let dp := i32 (dp - 1) in
    let* zeros := count_in_row s num (num + dp + 1) 48%N false in
    let allz := zeros =? dp + 1 in
    let zeros := if allz then zeros - 1 else zeros in
    let dp := if allz then 1 else dp in
    let dot := if allz then 1 else 0 in
    let buf_len := u64 (minus + dot + (num_len - zeros)) in
    let* b := get_buffer buf_len in
    let* (b, i) := maybe_minus b minus in
    let* (b, d) := copy_num_part s (num + zeros) (num_len - zeros) None dp b i in
    finish b buf_len (i + d) 2.

Definition br3 (s : bytes) (minus num num_len : Z) (dec_point : option Z) (dp dot : Z) : jres expres :=
    let buf_len := u64 (minus + dot + num_len) in
    let* b := get_buffer buf_len in
    let* (b, i) := maybe_minus b minus in
    let* (b, d) := copy_num_part s num num_len dec_point dp b i in
    finish b buf_len (i + d) 3.

Definition br4 (s : bytes) (minus num num_len dp : Z) : jres expres :=
    let num := num + 1 in
    let num_len := u16 (num_len - 1) in
    let* zeros := count_in_row s num (num + num_len) 48%N false in
    let buf_len := u64 (minus + dp - zeros) in
    let* b := get_buffer buf_len in
    let* (b, i) := maybe_minus b minus in
    let* (b, d) := copy_num_part s (num + zeros) (num_len - zeros) None dp b i in
    let i := u32 (i + d) in
    let* b := fillb b i (u64 (buf_len - i)) 48%N in
    finish b buf_len (i + u64 (buf_len - i)) 4.

Definition br5 (s : bytes) (minus num num_len : Z) (dec_point : option Z) (dp : Z) : jres expres :=
    let buf_len := u64 (minus + dp) in
    let* b := get_buffer buf_len in
    let* (b, i) := maybe_minus b minus in
    let* (b, d) := copy_num_part s num num_len dec_point dp b i in
    let i := u32 (i + d) in
    let* b := fillb b i (u64 (buf_len - i)) 48%N in
    finish b buf_len (i + u64 (buf_len - i)) 5.

Definition xdot (dec_point : option Z) (num_len dp : Z) : Z :=
  match dec_point with
  | Some _ => if i32 (num_len - 1) =? dp then -1 else 0
  | None => 1
  end.

Definition xlayout (s : bytes) (ex minus : Z) (lz : bool) (num num_len0 : Z) (dec_point : option Z) (dp cnt : Z)
  : jres expres :=
  let num_len := u16 (num_len0 - cnt) in
  let dot := xdot dec_point num_len dp in
  if dp <=? 0 then br1 s minus num num_len dec_point dp dot
  else if lz && (dp <? num_len) then br2 s minus num num_len dp
  else if dp <? num_len then br3 s minus num num_len dec_point dp dot
  else if lz then br4 s minus num num_len dp
  else br5 s minus num num_len dec_point dp.

Definition xmid (s : bytes) (ex minus : Z) (lz : bool) (e_val : Z) : jres expres :=
  let num := if lz then minus + 1 else minus in
  let num_len := u16 (ex - num) in
  let* dec_point := strnchr (Z.to_nat num_len) s num 46%N in
  let dp := i32 (match dec_point with Some p => p - num + e_val | None => num_len + e_val end) in
  let* cnt := if 0 <? dp then count_in_row s (num + dp - 1) ex 48%N true
              else count_in_row s num ex 48%N true in
  xlayout s ex minus lz num num_len dec_point dp cnt.

Lemma exp_number_eq s ex total_len :
  exp_number s ex total_len =
  if negb (2 <? total_len) then JOob else
  let* ce := rdin s ex in
  if negb ((0 <? ex) && ((ce =? 101)%N || (ce =? 69)%N)) then JOob else
  if UINT16_MAX <? ex then JErr E_LONG else
  let* (e_val, errno) := strtoll s (ex + 1) in
  if errno || (UINT16_MAX <? e_val) || (e_val <? - UINT16_MAX) then JErr E_EXP else
  let* c0 := rdin s 0 in
  let minus := if (c0 =? 45)%N then 1 else 0 in
  let* cm := rdin s minus in
  let* lz := if (cm =? 48)%N
             then (let* c1 := rdin s (minus + 1) in if (c1 =? 46)%N then JOk true else JOob)
             else JOk false in
  xmid s ex minus lz e_val.
Proof. reflexivity. Qed.

(* layout 1: 0.000ddd *)
Lemma br1_good s minus num num_len dec_point dp dot :
  minus = 0 \/ minus = 1 -> 0 <= num -> 1 <= num_len <= 65535 -> num + num_len <= Ln s + 1 ->
  -131070 <= dp <= 0 ->
  match dec_point with Some p => 0 <= p - num < num_len /\ dot = 0 | None => dot = 1 end ->
  xgood (br1 s minus num num_len dec_point dp dot).
Proof.
  intros Hm Hnum Hlen Hrd Hdp Hdec. unfold br1. cbv zeta.
  assert (Hdot : 0 <= dot <= 1) by (destruct dec_point; lia).
  rewrite (u64_id (minus + 1 + dot + Z.abs dp + num_len)) by lia.
  remember (minus + 1 + dot + Z.abs dp + num_len) as buf_len eqn:Hbl.
  destruct (get_buffer_cases buf_len) as [Hg | (Hle & b0 & Hg & Hl0 & Hp0)];
    [lia|rewrite Hg; exact xgood_maxlen|].
  rewrite Hg. cbn [jbind].
  destruct (maybe_minus_step b0 minus Hm) as (b1 & He1 & Hl1 & Hp1); [lia|].
  rewrite He1. cbn [jbind].
  destruct (wrb_step b1 minus 48%N) as (b2 & He2 & Hl2 & Hp2); [lia|exact Hp1|].
  rewrite He2. cbn [jbind].
  destruct (wrb_step b2 (minus + 1) 46%N) as (b3 & He3 & Hl3 & Hp3); [lia|exact Hp2|].
  rewrite He3. cbn [jbind].
  rewrite (u64_id (Z.abs dp)) by lia.
  destruct (fillb_step b3 (minus + 2) (Z.abs dp) 48%N) as (b4 & He4 & Hl4 & Hp4);
    [lia|lia|lia|replace (minus + 2) with (minus + 1 + 1) by lia; exact Hp3|].
  rewrite He4. cbn [jbind].
  rewrite (u32_id (minus + 2 + Z.abs dp)) by lia.
  destruct (copy_num_part_step s num num_len dec_point (-1) b4 (minus + 2 + Z.abs dp) (num_len - 1 + dot) 0)
    as (b5 & He5 & Hl5 & Hp5).
  - exact Hnum.
  - lia.
  - exact Hrd.
  - intros p Hpe. rewrite Hpe in Hdec. lia.
  - unfold decidx, INT32_MAX. destruct dec_point; lia.
  - unfold cm, decidx, INT32_MAX. destruct dec_point; lia.
  - unfold cins. lia.
  - lia.
  - lia.
  - exact Hp4.
  - rewrite He5. cbn [jbind].
    apply finish_step; [lia|lia|lia|lia|exact Hp5].
Qed.

(* layout 3: the decimal point moves inside the digits (no leading 0.) *)
Lemma br3_good s minus num num_len dec_point dp dot :
  minus = 0 \/ minus = 1 -> 0 <= num -> num_len <= 65535 -> num + num_len <= Ln s + 1 ->
  0 < dp < num_len ->
  match dec_point with
  | Some p => 0 <= p - num < num_len /\ p - num <> dp /\
              ((num_len - 1 = dp /\ dot = -1) \/ (num_len - 1 <> dp /\ dot = 0))
  | None => dot = 1
  end ->
  xgood (br3 s minus num num_len dec_point dp dot).
Proof.
  intros Hm Hnum Hlen Hrd Hdp Hdec. unfold br3. cbv zeta.
  assert (Hdot : -1 <= dot <= 1) by (destruct dec_point; lia).
  rewrite (u64_id (minus + dot + num_len)) by lia.
  remember (minus + dot + num_len) as buf_len eqn:Hbl.
  destruct (get_buffer_cases buf_len) as [Hg | (Hle & b0 & Hg & Hl0 & Hp0)];
    [lia|rewrite Hg; exact xgood_maxlen|].
  rewrite Hg. cbn [jbind].
  destruct (maybe_minus_step b0 minus Hm) as (b1 & He1 & Hl1 & Hp1); [lia|].
  rewrite He1. cbn [jbind].
  pose (sd := match dec_point with Some _ => 1 | None => 0 end).
  destruct (copy_num_part_step s num num_len dec_point dp b1 minus (num_len - sd) (dot + sd))
    as (b5 & He5 & Hl5 & Hp5).
  - exact Hnum.
  - lia.
  - exact Hrd.
  - intros p Hpe. rewrite Hpe in Hdec. lia.
  - unfold decidx, INT32_MAX. destruct dec_point; lia.
  - unfold cm, decidx, INT32_MAX. subst sd. destruct dec_point; lia.
  - unfold cins. subst sd. destruct dec_point; lia.
  - lia.
  - subst sd. destruct dec_point; lia.
  - exact Hp1.
  - rewrite He5. cbn [jbind].
    apply finish_step; [lia|lia|subst sd; destruct dec_point; lia|subst sd; destruct dec_point; lia|exact Hp5].
Qed.

(* layout 5: ddd or d.dd becomes an integer *)
Lemma br5_good s minus num num_len dec_point dp :
  minus = 0 \/ minus = 1 -> 0 <= num -> 0 <= num_len <= 65535 -> num + num_len <= Ln s + 1 ->
  0 < dp <= 131070 -> num_len <= dp ->
  match dec_point with
  | Some p => 0 <= p - num < num_len /\ p - num <> dp
  | None => True
  end ->
  xgood (br5 s minus num num_len dec_point dp).
Proof.
  intros Hm Hnum Hlen Hrd Hdp Hge Hdec. unfold br5. cbv zeta.
  rewrite (u64_id (minus + dp)) by lia.
  remember (minus + dp) as buf_len eqn:Hbl.
  destruct (get_buffer_cases buf_len) as [Hg | (Hle & b0 & Hg & Hl0 & Hp0)];
    [lia|rewrite Hg; exact xgood_maxlen|].
  rewrite Hg. cbn [jbind].
  destruct (maybe_minus_step b0 minus Hm) as (b1 & He1 & Hl1 & Hp1); [lia|].
  rewrite He1. cbn [jbind].
  pose (sd := match dec_point with Some _ => 1 | None => 0 end).
  destruct (copy_num_part_step s num num_len dec_point dp b1 minus (num_len - sd) 0)
    as (b5 & He5 & Hl5 & Hp5).
  - exact Hnum.
  - lia.
  - exact Hrd.
  - intros p Hpe. rewrite Hpe in Hdec. lia.
  - unfold decidx, INT32_MAX. destruct dec_point; lia.
  - unfold cm, decidx, INT32_MAX. subst sd. destruct dec_point; lia.
  - unfold cins. subst sd. destruct dec_point; lia.
  - lia.
  - subst sd. destruct dec_point; lia.
  - exact Hp1.
  - rewrite He5. cbn [jbind].
    assert (Hsd : 0 <= sd <= 1 /\ sd <= num_len) by (subst sd; destruct dec_point; lia).
    clearbody sd.
    rewrite (u32_id (minus + (num_len - sd + 0))) by lia.
    rewrite (u64_id (buf_len - (minus + (num_len - sd + 0)))) by lia.
    destruct (fillb_step b5 (minus + (num_len - sd + 0)) (buf_len - (minus + (num_len - sd + 0))) 48%N)
      as (b6 & He6 & Hl6 & Hp6); [lia|lia|lia|exact Hp5|].
    rewrite He6. cbn [jbind].
    apply finish_step; [lia|lia|lia|lia|exact Hp6].
Qed.

(* layout 4: 0.ddd becomes an integer *)
Lemma br4_good s minus num num_len dp :
  Ln s < 4294967296 ->
  minus = 0 \/ minus = 1 -> 0 <= num -> 1 <= num_len <= 65535 -> num + num_len <= Ln s ->
  0 < dp <= 131070 -> num_len <= dp ->
  xgood (br4 s minus num num_len dp).
Proof.
  intros HL Hm Hnum Hlen Hrd Hdp Hge. unfold br4. cbv zeta.
  rewrite (u16_id (num_len - 1)) by lia.
  destruct (count_in_row_fwd s (num + 1) (num + 1 + (num_len - 1)) 48%N HL) as (zeros & Hz & Hzr & _ & _);
    [lia|lia|].
  rewrite Hz. cbn [jbind].
  rewrite (u64_id (minus + dp - zeros)) by lia.
  remember (minus + dp - zeros) as buf_len eqn:Hbl.
  destruct (get_buffer_cases buf_len) as [Hg | (Hle & b0 & Hg & Hl0 & Hp0)];
    [lia|rewrite Hg; exact xgood_maxlen|].
  rewrite Hg. cbn [jbind].
  destruct (maybe_minus_step b0 minus Hm) as (b1 & He1 & Hl1 & Hp1); [lia|].
  rewrite He1. cbn [jbind].
  destruct (copy_num_part_step s (num + 1 + zeros) (num_len - 1 - zeros) None dp b1 minus (num_len - 1 - zeros) 0)
    as (b5 & He5 & Hl5 & Hp5).
  - lia.
  - lia.
  - lia.
  - intros p Hpe. discriminate.
  - unfold decidx, INT32_MAX. lia.
  - unfold cm, decidx, INT32_MAX. lia.
  - unfold cins. lia.
  - lia.
  - lia.
  - exact Hp1.
  - rewrite He5. cbn [jbind].
    rewrite (u32_id (minus + (num_len - 1 - zeros + 0))) by lia.
    rewrite (u64_id (buf_len - (minus + (num_len - 1 - zeros + 0)))) by lia.
    destruct (fillb_step b5 (minus + (num_len - 1 - zeros + 0))
                (buf_len - (minus + (num_len - 1 - zeros + 0))) 48%N)
      as (b6 & He6 & Hl6 & Hp6); [lia|lia|lia|exact Hp5|].
    rewrite He6. cbn [jbind].
    apply finish_step; [lia|lia|lia|lia|exact Hp6].
Qed.

(* layout 2: 0.ddd with the new decimal point inside the digits. The byte count is NOT exact here (the
   defect): one byte more than buf_len may be stored, still inside the block of buf_len + 1 bytes.
   The lower bound needs that the last digit left after stripping is not 0. *)
Lemma br2_good s minus num num_len dp :
  Ln s < 4294967296 ->
  minus = 0 \/ minus = 1 -> 0 <= num -> num_len <= 65535 -> num + num_len <= Ln s ->
  0 < dp < num_len -> bat s (num + num_len - 1) <> 48%N ->
  xgood (br2 s minus num num_len dp).
Proof.
  intros HL Hm Hnum Hlen Hrd Hdp Hlast. unfold br2. cbv zeta.
  rewrite (u16_id (num_len - 1)) by lia. rewrite (i32_id (dp - 1)) by lia.
  destruct (count_in_row_fwd s (num + 1) (num + 1 + (dp - 1) + 1) 48%N HL) as (zeros & Hz & Hzr & Hzall & _);
    [lia|lia|].
  rewrite Hz. cbn [jbind].
  destruct (zeros =? dp - 1 + 1) eqn:Hallz.
  - (* only zeros up to the new decimal point: one of them is kept *)
    assert (Hbig : dp < num_len - 1).
    { destruct (Z_lt_ge_dec dp (num_len - 1)) as [Hlt|Hge]; [exact Hlt|]. exfalso. apply Hlast.
      apply Hzall. lia. }
    rewrite (u64_id (minus + 1 + (num_len - 1 - (zeros - 1)))) by lia.
    remember (minus + 1 + (num_len - 1 - (zeros - 1))) as buf_len eqn:Hbl.
    destruct (get_buffer_cases buf_len) as [Hg | (Hle & b0 & Hg & Hl0 & Hp0)];
      [lia|rewrite Hg; exact xgood_maxlen|].
    rewrite Hg. cbn [jbind].
    destruct (maybe_minus_step b0 minus Hm) as (b1 & He1 & Hl1 & Hp1); [lia|].
    rewrite He1. cbn [jbind].
    destruct (copy_num_part_step s (num + 1 + (zeros - 1)) (num_len - 1 - (zeros - 1)) None 1 b1 minus
                (num_len - 1 - (zeros - 1)) 1) as (b5 & He5 & Hl5 & Hp5).
    + lia.
    + lia.
    + lia.
    + intros p Hpe. discriminate.
    + unfold decidx, INT32_MAX. lia.
    + unfold cm, decidx, INT32_MAX. lia.
    + unfold cins. lia.
    + lia.
    + lia.
    + exact Hp1.
    + rewrite He5. cbn [jbind].
      apply finish_step; [lia|lia|lia|lia|exact Hp5].
  - rewrite (u64_id (minus + 0 + (num_len - 1 - zeros))) by lia.
    remember (minus + 0 + (num_len - 1 - zeros)) as buf_len eqn:Hbl.
    destruct (get_buffer_cases buf_len) as [Hg | (Hle & b0 & Hg & Hl0 & Hp0)];
      [lia|rewrite Hg; exact xgood_maxlen|].
    rewrite Hg. cbn [jbind].
    destruct (maybe_minus_step b0 minus Hm) as (b1 & He1 & Hl1 & Hp1); [lia|].
    rewrite He1. cbn [jbind].
    destruct (copy_num_part_step s (num + 1 + zeros) (num_len - 1 - zeros) None (dp - 1) b1 minus
                (num_len - 1 - zeros) (cins 0 (dp - 1) (num_len - 1 - zeros))) as (b5 & He5 & Hl5 & Hp5).
    + lia.
    + lia.
    + lia.
    + intros p Hpe. discriminate.
    + unfold decidx, INT32_MAX. lia.
    + unfold cm, decidx, INT32_MAX. lia.
    + reflexivity.
    + lia.
    + unfold cins. lia.
    + exact Hp1.
    + rewrite He5. cbn [jbind].
      apply finish_step; [lia|lia|unfold cins; lia|intro Hbr; exfalso; apply Hbr; reflexivity|exact Hp5].
Qed.

(* the choice of the layout after the useless zeros were counted *)
Lemma xlayout_good s ex minus (lz : bool) num e_val (dec_point : option Z) dp cnt :
  Ln s < 4294967296 -> minus = 0 \/ minus = 1 ->
  num = (if lz then minus + 1 else minus) ->
  num < ex -> ex <= 65535 -> ex <= Ln s ->
  (if lz then bat s num = 46%N /\ dec_point = Some num else bat s num <> 48%N) ->
  (forall p, dec_point = Some p -> num <= p < ex /\ bat s p = 46%N) ->
  e_val <> 0 -> -65535 <= e_val <= 65535 ->
  dp = match dec_point with Some p => p - num + e_val | None => (ex - num) + e_val end ->
  0 <= cnt <= Z.max 0 (ex - (if 0 <? dp then num + dp - 1 else num)) ->
  (forall j, ex - cnt <= j < ex -> bat s j = 48%N) ->
  (cnt < ex - (if 0 <? dp then num + dp - 1 else num) -> bat s (ex - 1 - cnt) <> 48%N) ->
  xgood (xlayout s ex minus lz num (ex - num) dec_point dp cnt).
Proof.
  intros HL Hm Hnum Hlt Hex HexL Hlz Hdec He0 Her Hdp Hcnt Hcall Hcstop.
  assert (Hnum0 : 0 <= num) by (destruct lz; lia).
  assert (Hcle : cnt <= ex - num) by (destruct (0 <? dp) eqn:Hd; lia).
  assert (Hdpr : -131070 <= dp <= 131070).
  { destruct dec_point as [p|]; [destruct (Hdec p eq_refl) as (Hp & _)|]; lia. }
  unfold xlayout. cbv zeta. rewrite (u16_id (ex - num - cnt)) by lia.
  remember (ex - num - cnt) as num_len eqn:Hnl.
  assert (Hdecr : forall p, dec_point = Some p -> 0 <= p - num < num_len).
  { intros p Hpe. destruct (Hdec p Hpe) as (Hp & H46). split; [lia|].
    destruct (Z_lt_ge_dec p (ex - cnt)) as [Hl|Hg]; [lia|]. exfalso.
    rewrite (Hcall p) in H46 by lia. discriminate. }
  assert (Hdot : match dec_point with
                 | Some _ => (num_len - 1 = dp /\ xdot dec_point num_len dp = -1) \/
                             (num_len - 1 <> dp /\ xdot dec_point num_len dp = 0)
                 | None => xdot dec_point num_len dp = 1
                 end).
  { unfold xdot. destruct dec_point as [p|]; [|reflexivity]. rewrite i32_id by lia.
    destruct (num_len - 1 =? dp) eqn:Hq; [left|right]; split; lia. }
  remember (xdot dec_point num_len dp) as dot eqn:Hdoteq. clear Hdoteq.
  destruct (dp <=? 0) eqn:Hdp0.
  - (* layout 1 *)
    replace (0 <? dp) with false in * by lia.
    assert (Hnl1 : 1 <= num_len).
    { destruct (Z_lt_ge_dec cnt (ex - num)) as [Hl|Hg]; [lia|]. exfalso.
      assert (H48 : bat s num = 48%N) by (apply Hcall; lia).
      destruct lz; [destruct Hlz as (H46 & _); rewrite H48 in H46; discriminate|contradiction]. }
    apply br1_good; [exact Hm|exact Hnum0|lia|lia|lia|].
    destruct dec_point as [p|]; [|exact Hdot]. specialize (Hdecr p eq_refl). split; [exact Hdecr|]. lia.
  - replace (0 <? dp) with true in * by lia.
    assert (Hlast : dp < num_len -> bat s (num + num_len - 1) <> 48%N).
    { intro Hlt2. replace (num + num_len - 1) with (ex - 1 - cnt) by lia. apply Hcstop. lia. }
    destruct lz.
    + destruct Hlz as (H46 & Hsome). cbn [andb].
      assert (Hnl1 : 1 <= num_len) by (specialize (Hdecr num Hsome); lia).
      destruct (dp <? num_len) eqn:Hin.
      * apply br2_good; [exact HL|exact Hm|exact Hnum0|lia|lia|lia|apply Hlast; lia].
      * apply br4_good; [exact HL|exact Hm|exact Hnum0|lia|lia|lia|lia].
    + cbn [andb]. destruct (dp <? num_len) eqn:Hin.
      * apply br3_good; [exact Hm|exact Hnum0|lia|lia|lia|].
        destruct dec_point as [p|]; [|exact Hdot]. specialize (Hdecr p eq_refl).
        split; [exact Hdecr|]. split; [lia|exact Hdot].
      * apply br5_good; [exact Hm|exact Hnum0|lia|lia|lia|lia|].
        destruct dec_point as [p|]; [|exact I]. specialize (Hdecr p eq_refl). split; [exact Hdecr|lia].
Qed.

Lemma xmid_tail s ex minus (lz : bool) num e_val (dec_point : option Z) dp :
  Ln s < 4294967296 -> minus = 0 \/ minus = 1 ->
  num = (if lz then minus + 1 else minus) ->
  num < ex -> ex <= 65535 -> ex <= Ln s ->
  (if lz then bat s num = 46%N /\ dec_point = Some num else bat s num <> 48%N) ->
  (forall p, dec_point = Some p -> num <= p < ex /\ bat s p = 46%N) ->
  e_val <> 0 -> -65535 <= e_val <= 65535 ->
  dp = match dec_point with Some p => p - num + e_val | None => (ex - num) + e_val end ->
  xgood (let* cnt := if 0 <? dp then count_in_row s (num + dp - 1) ex 48%N true
                     else count_in_row s num ex 48%N true in
         xlayout s ex minus lz num (ex - num) dec_point dp cnt).
Proof.
  intros HL Hm Hnum Hlt Hex HexL Hlz Hdec He0 Her Hdp.
  assert (Hnum0 : 0 <= num) by (destruct lz; lia).
  destruct (0 <? dp) eqn:Hd.
  - destruct (count_in_row_bwd s (num + dp - 1) ex 48%N HL) as (cnt & Hc & Hcr & Hcall & Hcstop); [lia|lia|].
    rewrite Hc. cbn [jbind].
    apply (xlayout_good s ex minus lz num e_val dec_point dp cnt); try assumption; rewrite Hd; assumption.
  - destruct (count_in_row_bwd s num ex 48%N HL) as (cnt & Hc & Hcr & Hcall & Hcstop); [lia|lia|].
    rewrite Hc. cbn [jbind].
    apply (xlayout_good s ex minus lz num e_val dec_point dp cnt); try assumption; rewrite Hd; assumption.
Qed.

Lemma xmid_good s ex minus (lz : bool) e_val :
  Ln s < 4294967296 -> minus = 0 \/ minus = 1 ->
  (if lz then minus + 1 else minus) < ex -> ex <= 65535 -> ex <= Ln s ->
  (if lz then bat s (minus + 1) = 46%N else bat s minus <> 48%N) ->
  e_val <> 0 -> -65535 <= e_val <= 65535 ->
  xgood (xmid s ex minus lz e_val).
Proof.
  intros HL Hm Hlt Hex HexL Hlz He0 Her. unfold xmid. cbv zeta.
  remember (if lz then minus + 1 else minus) as num eqn:Hnum.
  assert (Hnum0 : 0 <= num) by (destruct lz; lia).
  rewrite (u16_id (ex - num)) by lia.
  assert (Hlz' : if lz then bat s num = 46%N else bat s num <> 48%N).
  { destruct lz; rewrite Hnum; exact Hlz. }
  destruct (strnchr_spec (Z.to_nat (ex - num)) s num 46%N) as [(q & Hs & Hq & H46 & Hbefore)|(Hs & Hnone)];
    [lia|lia| |].
  - rewrite Hs. cbn [jbind]. rewrite (i32_id (q - num + e_val)) by lia.
    apply (xmid_tail s ex minus lz num e_val (Some q) (q - num + e_val)); try assumption; try lia.
    + destruct lz; [|exact Hlz']. split; [exact Hlz'|].
      destruct (Z.eq_dec q num) as [->|Hne]; [reflexivity|]. exfalso. apply (Hbefore num); [lia|exact Hlz'].
    + intros p Hpe. injection Hpe as <-. split; [lia|exact H46].
  - rewrite Hs. cbn [jbind]. rewrite (i32_id (ex - num + e_val)) by lia.
    apply (xmid_tail s ex minus lz num e_val None (ex - num + e_val)); try assumption; try lia.
    + destruct lz; [|exact Hlz']. exfalso. apply (Hnone num); [lia|exact Hlz'].
    + intros p Hpe. discriminate.
Qed.

(* lyjson_exp_number() as called by lyjson_number(): after a successful scan, mantissa and exponent
   both not zero *)
Lemma exp_number_good s ex off minus :
  Ln s < 4294967296 ->
  minus = (if (bat s 0 =? 45)%N then 1 else 0) -> minus < ex -> ex < Ln s -> 2 < off ->
  bat s ex = 101%N \/ bat s ex = 69%N ->
  (bat s minus = 48%N -> bat s (minus + 1) = 46%N) ->
  exp_start s ex <= Ln s ->
  (exists k, exp_start s ex <= k /\ (forall j, exp_start s ex <= j <= k -> is_digit (bat s j) = true) /\
             bat s k <> 48%N) ->
  xgood (exp_number s ex off).
Proof.
  intros HL Hm Hlt HexL Hoff Hce H48 Hes (k & Hk & Hkd & Hk48).
  assert (Hm01 : minus = 0 \/ minus = 1) by (destruct (bat s 0 =? 45)%N; lia).
  rewrite exp_number_eq. replace (negb (2 <? off)) with false by lia.
  rewrite rdin_ok by lia. cbn [jbind].
  replace (negb ((0 <? ex) && ((bat s ex =? 101)%N || (bat s ex =? 69)%N))) with false by lia.
  unfold UINT16_MAX. destruct (65535 <? ex) eqn:Hlong; [cbn [xgood]; discriminate|].
  unfold strtoll. rewrite rdin_ok by lia. cbn [jbind]. fold (exp_start s ex).
  assert (Hes' : (if (bat s (ex + 1) =? 45)%N || (bat s (ex + 1) =? 43)%N then ex + 1 + 1 else ex + 1) = exp_start s ex).
  { unfold exp_start. destruct (bat s (ex + 1) =? 45)%N, (bat s (ex + 1) =? 43)%N; cbn [orb]; lia. }
  rewrite Hes'.
  assert (Hes0 : ex + 1 <= exp_start s ex) by (unfold exp_start; destruct ((bat s (ex + 1) =? 43)%N || (bat s (ex + 1) =? 45)%N); lia).
  destruct (acc_digits_spec (S (length s)) s (exp_start s ex) 0) as (a & Ha & Hage & Hapos); [lia|lia|lia|].
  rewrite Ha. cbn [jbind].
  assert (Hap : 0 < a) by (apply (Hapos k Hk Hkd Hk48)).
  unfold LLONG_MAX, LLONG_MIN.
  remember (if (bat s (ex + 1) =? 45)%N then - a else a) as v eqn:Hv.
  assert (Hv0 : v <> 0) by (destruct (bat s (ex + 1) =? 45)%N; lia).
  destruct (9223372036854775807 <? v) eqn:Hmax; [cbn [jbind orb xgood]; discriminate|].
  destruct (v <? -9223372036854775808) eqn:Hmin; [cbn [jbind orb xgood]; discriminate|].
  cbn [jbind orb].
  match goal with |- xgood (if ?c then _ else _) => destruct c eqn:Hrange end; [cbn [xgood]; discriminate|].
  rewrite rdin_ok by lia. cbn [jbind]. rewrite <- Hm.
  assert (Hml : minus <= Ln s) by lia.
  rewrite rdin_ok by lia. cbn [jbind].
  destruct (bat s minus =? 48)%N eqn:Hz.
  - rewrite rdin_ok by lia. cbn [jbind].
    replace (bat s (minus + 1) =? 46)%N with true by lia. cbn [jbind].
    assert (Hne : minus + 1 <> ex) by (intros Heq; rewrite Heq in H48; lia).
    apply xmid_good; [exact HL|exact Hm01|lia|lia|lia|lia|exact Hv0|lia].
  - cbn [jbind]. apply xmid_good; [exact HL|exact Hm01|lia|lia|lia|lia|exact Hv0|lia].
Qed.

(* ================= G. lyjson_number ================= *)
Lemma all_init_map_Some (l : bytes) : all_init (map Some l) = true.
Proof. induction l as [|c l IH]; cbn [map all_init forallb]; [reflexivity|exact IH]. Qed.

Lemma all_init_slice s from len : all_init (slice s from len) = true.
Proof. unfold slice. apply all_init_map_Some. Qed.

Lemma all_init_firstn n : forall b : buffer,
  (forall j, (j < n)%nat -> exists v, nth_error b j = Some (Some v)) -> all_init (firstn n b) = true.
Proof.
  induction n as [|n IH]; intros b Hb; [reflexivity|].
  destruct b as [|c b]; [reflexivity|]. cbn [firstn all_init forallb].
  destruct (Hb 0%nat) as (v & Hv); [lia|]. cbn [nth_error] in Hv. injection Hv as ->.
  cbn [andb]. apply IH. intros j Hj. destruct (Hb (S j)) as (w & Hw); [lia|].
  exists w. exact Hw.
Qed.

Lemma pinit_all_init b k : pinit b k -> all_init (firstn (Z.to_nat k) b) = true.
Proof.
  intro Hp. apply all_init_firstn. intros j Hj.
  destruct (Hp (Z.of_nat j)) as (v & Hv); [lia|]. rewrite Nat2Z.id in Hv. exists v. exact Hv.
Qed.

Definition ngood (r : jres numres) : Prop :=
  match r with
  | JOk r => all_init (n_value r) = true /\ forall x, n_exp r = Some x -> xprops x
  | JErr e => e <> E_FUEL
  | JOob => False
  end.

Lemma ngood_slice s from len off :
  ngood (JOk {| n_value := slice s from len; n_consumed := off; n_dynamic := false; n_exp := None |}).
Proof.
  cbn [ngood n_value n_exp]. split; [apply all_init_slice|]. intros x Hx. discriminate.
Qed.

Lemma nz_start_exp s ex : nz_start s (ex + 1) = exp_start s ex.
Proof.
  unfold nz_start, exp_start. destruct (bat s (ex + 1) =? 45)%N, (bat s (ex + 1) =? 43)%N; cbn [orb]; lia.
Qed.

Lemma number_post_good s lx : Ln s < 4294967296 -> lexok s lx -> ngood (number_post s lx).
Proof.
  intros HL Hlx. destruct lx as [minus o1 o2 lexp off]. unfold lexok in Hlx.
  cbn [l_minus l_o1 l_o2 l_exp l_off] in Hlx.
  destruct Hlx as ((Hm & Hlt & Hdm & H48 & Hfrac) & Ho2 & HoffL & Hexp).
  unfold number_post. cbn [l_minus l_o1 l_o2 l_exp l_off].
  assert (He : match lexp with Some e => e | None => off end = o2).
  { destruct lexp as [ex|]; [destruct Hexp as (Hex & _); exact Hex|exact Hexp]. }
  rewrite He.
  assert (Hm01 : 0 <= minus <= 1) by (destruct (bat s 0 =? 45)%N; lia).
  assert (Hnz : nz_start s 0 = minus).
  { unfold nz_start. destruct (bat s 0 =? 45)%N eqn:H45; cbn [orb]; [lia|].
    destruct (bat s 0 =? 43)%N eqn:H43; [|lia]. exfalso.
    rewrite Hm in Hdm. unfold is_digit in Hdm. lia. }
  destruct (number_is_zero_spec s 0 o2) as (z & Hz & Hzf); [exact HL|lia|lia|lia|lia|].
  rewrite Hz. cbn [jbind]. destruct z; [apply ngood_slice|].
  destruct (Hzf eq_refl) as (k & Hk & Hk48). rewrite Hnz in Hk.
  destruct lexp as [ex|].
  - destruct Hexp as (Hex & Hce & Hes & Hed). subst ex.
    assert (Hes0 : o2 + 1 <= exp_start s o2)
      by (unfold exp_start; destruct ((bat s (o2 + 1) =? 43)%N || (bat s (o2 + 1) =? 45)%N); lia).
    destruct (number_is_zero_spec s (o2 + 1) off) as (ze & Hze & Hzef);
      [exact HL|lia|lia|lia|rewrite nz_start_exp; lia|].
    rewrite Hze. cbn [jbind]. destruct ze; [apply ngood_slice|].
    destruct (Hzef eq_refl) as (k2 & Hk2 & Hk248). rewrite nz_start_exp in Hk2.
    assert (Hx : xgood (exp_number s o2 off)).
    { apply (exp_number_good s o2 off minus); [exact HL|exact Hm|lia|lia|lia|exact Hce| |lia|].
      - intro Hz48. specialize (H48 Hz48). destruct Hfrac as [(Heq & Hn46)|(H46 & _)].
        + exfalso. apply Hk48. replace k with minus by lia. exact Hz48.
        + rewrite <- H48. exact H46.
      - exists k2. split; [lia|]. split; [|exact Hk248]. intros j Hj. apply Hed. lia. }
    destruct (exp_number s o2 off) as [x|e|]; cbn [xgood] in Hx; [|exact Hx|contradiction].
    cbn [jbind ngood n_value n_exp]. split.
    + apply pinit_all_init. destruct Hx as (_ & _ & _ & _ & Hp). exact Hp.
    + intros x' Hx'. injection Hx' as <-. exact Hx.
  - unfold LY_NUMBER_MAXLEN. destruct (22 <? off); [cbn [ngood]; discriminate|apply ngood_slice].
Qed.

Lemma number_good s : Ln s < 4294967296 -> ngood (number s).
Proof.
  intro HL. unfold number. pose proof (lex_number_spec s) as Hlex.
  destruct (lex_number s) as [lx|e|]; cbn [lgood] in Hlex; cbn [jbind].
  - apply number_post_good; assumption.
  - exact Hlex.
  - contradiction.
Qed.

Lemma number_c_good s : Ln s < 4294967296 -> ngood (number_c s).
Proof.
  intro HL. unfold number_c. apply number_good. pose proof (cstr_length s). lia.
Qed.

(* every read is inside the text and its NUL, every store inside the block obtained from malloc(), no
   assert() fires, the loops end within the fuel *)
Theorem number_c_no_oob :
  forall s : bytes, (Z.of_nat (length s) < 4294967296)%Z ->
    number_c s <> JOob /\ number_c s <> JErr E_FUEL.
Proof.
  intros s HL. pose proof (number_c_good s HL) as Hg.
  destruct (number_c s) as [r|e|]; cbn [ngood] in Hg.
  - split; discriminate.
  - split; [discriminate|]. intro Heq. injection Heq as ->. apply Hg. reflexivity.
  - contradiction.
Qed.

Theorem number_c_len_bounded :
  forall s : bytes, (Z.of_nat (length s) < 4294967296)%Z ->
  forall r x, number_c s = JOk r -> n_exp r = Some x ->
    Z.of_nat (length (x_buf x)) = x_len x + 1 /\ 0 <= x_len x < 22 /\
    x_len x <= x_end x <= x_len x + 1 /\ (x_branch x <> 2%N -> x_end x = x_len x) /\
    all_init (n_value r) = true.
Proof.
  intros s HL r x Hr Hx. pose proof (number_c_good s HL) as Hg. rewrite Hr in Hg.
  cbn [ngood] in Hg. destruct Hg as (Hinit & Hxp). destruct (Hxp x Hx) as (H1 & H2 & H3 & H4 & _).
  split; [exact H1|]. split; [exact H2|]. split; [exact H3|]. split; [exact H4|exact Hinit].
Qed.

(* ================= H. witnesses of the layout-2 defect, finite sweep ================= *)
(* 0.5E1  0.55E1  0.055E2  0.0055E3  0.123456E3 *)
Definition w_05E1 : bytes := [48;46;53;69;49]%N.
Definition w_055E1 : bytes := [48;46;53;53;69;49]%N.
Definition w_0055E2 : bytes := [48;46;48;53;53;69;50]%N.
Definition w_00055E3 : bytes := [48;46;48;48;53;53;69;51]%N.
Definition w_0123456E3 : bytes := [48;46;49;50;51;52;53;54;69;51]%N.

Definition value_of (s : bytes) : list cell :=
  match number_c s with JOk r => n_value r | _ => [] end.

(* what lyjson_number() hands on for 0.5E1: the block holds `.` and the NUL, buf_len is 1, but two bytes
   (`.` and `5`) were stored before the NUL, which overwrote the `5` *)
Definition x_05E1 : expres :=
  {| x_buf := [Some 46%N; Some 0%N]; x_len := 1; x_end := 2; x_branch := 2%N |}.
Definition r_05E1 : numres :=
  {| n_value := [Some 46%N]; n_consumed := 5; n_dynamic := true; n_exp := Some x_05E1 |}.
Definition x_00055E3 : expres :=
  {| x_buf := [Some 53%N; Some 53%N; Some 0%N]; x_len := 2; x_end := 2; x_branch := 2%N |}.
Definition r_00055E3 : numres :=
  {| n_value := [Some 53%N; Some 53%N]; n_consumed := 8; n_dynamic := true; n_exp := Some x_00055E3 |}.

Lemma len_exact_refuted :
  exists s r x, number_c s = JOk r /\ n_exp r = Some x /\ x_end x <> x_len x.
Proof.
  exists w_05E1, r_05E1, x_05E1. split; [vm_compute; reflexivity|]. split; [reflexivity|].
  vm_compute. discriminate.
Qed.

Lemma wrong_values :
  value_of w_05E1 = [Some 46%N] /\
  value_of w_055E1 = [Some 46%N; Some 53%N] /\
  value_of w_0055E2 = [Some 53%N; Some 46%N] /\
  value_of w_00055E3 = [Some 53%N; Some 53%N] /\
  value_of w_0123456E3 = [Some 49%N; Some 50%N; Some 46%N; Some 51%N; Some 52%N; Some 53%N].
Proof. vm_compute. repeat split. Qed.

Lemma denotes_refuted : exists s r, number_c s = JOk r /\ denotes_ok (cstr s) r = false.
Proof. exists w_05E1, r_05E1. split; vm_compute; reflexivity. Qed.

(* 0.0055E3 is 5.5; the text produced is `55`: a well-formed decimal, but another number *)
Lemma denotes_refuted_silent :
  exists s r, number_c s = JOk r /\ denotes_ok (cstr s) r = false /\
              json_denote (cstr s) = Some (55, -1) /\ dec_denote (cells_bytes (n_value r)) = Some (55, 0).
Proof. exists w_00055E3, r_00055E3. vm_compute. repeat split. Qed.

(* all strings of at most five characters over  0 1 5 - + . E e *)
Definition sweep_alphabet : bytes := [48;49;53;45;43;46;69;101]%N.

Fixpoint all_strs (n : nat) (f : bytes -> bool) : bool :=
  f [] && match n with
          | O => true
          | S k => forallb (fun c => all_strs k (fun t => f (c :: t))) sweep_alphabet
          end.

Lemma all_strs_spec n : forall f, all_strs n f = true ->
  forall t, (length t <= n)%nat -> Forall (fun c => In c sweep_alphabet) t -> f t = true.
Proof.
  induction n as [|n IH]; intros f H t Hl Hin; cbn [all_strs] in H; apply andb_true_iff in H;
    destruct H as [H0 H].
  - destruct t as [|c t]; [exact H0|]. cbn [length] in Hl. lia.
  - destruct t as [|c t]; [exact H0|]. inversion Hin as [|c' t' Hc Ht]; subst c' t'.
    rewrite forallb_forall in H. specialize (H c Hc).
    apply (IH (fun t => f (c :: t)) H t); [cbn [length] in Hl; lia|exact Ht].
Qed.

Definition sweep_ok (s : bytes) : bool :=
  match number_c s with
  | JOk r => if negb (n_dynamic r) || match n_exp r with Some x => negb (x_branch x =? 2)%N | None => false end
             then denotes_ok (cstr s) r else true
  | _ => true
  end.

Lemma sweep_all : all_strs 5 sweep_ok = true.
Proof. vm_cast_no_check (eq_refl true). Qed.

(* outside layout 2 the produced text denotes the number that was given, for every short string *)
Lemma denotes_bounded :
  forall s, (length s <= 5)%nat -> Forall (fun c => In c sweep_alphabet) s ->
  forall r, number_c s = JOk r ->
    (n_dynamic r = false \/ exists x, n_exp r = Some x /\ x_branch x <> 2%N) ->
    denotes_ok (cstr s) r = true.
Proof.
  intros s Hl Hin r Hr Hc. pose proof (all_strs_spec 5 sweep_ok sweep_all s Hl Hin) as Hs.
  unfold sweep_ok in Hs. rewrite Hr in Hs. destruct Hc as [Hd|(x & Hx & Hb)].
  - rewrite Hd in Hs. cbn [negb orb] in Hs. exact Hs.
  - rewrite Hx in Hs. replace (negb (x_branch x =? 2)%N) with true in Hs by lia.
    rewrite orb_true_r in Hs. exact Hs.
Qed.

(* the sweep meets every layout: 1E-1 (1), 0.1E1 (2, excluded from the statement), 15E-1 (3),
   0.1E5 (4), 1E1 (5) *)
Lemma sweep_layouts :
  map (fun s => match number_c s with
                | JOk r => match n_exp r with Some x => x_branch x | None => 0%N end
                | _ => 0%N end)
      [[49;69;45;49]; [48;46;49;69;49]; [49;53;69;45;49]; [48;46;49;69;53]; [49;69;49]]%N
  = [1; 2; 3; 4; 5]%N.
Proof. vm_compute. reflexivity. Qed.
