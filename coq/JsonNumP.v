(* JsonNumP.v - proofs about the JSON number model (JsonNum.v).
   A. reading the text, integer conversions, pieces of the text as lists
   B. the scanning helpers (skip_digits, count_in_row, strnchr, strtoll)
   C. the allocated block and its CONTENT (wrb, fillb, copy_loop)
   D. lex_number                                  E. lyjson_number_is_zero
   S. what a decimal text denotes (digits_val, dec_denote, json_denote, same_value)
   F. lyjson_exp_number, one lemma per layout: no access leaves its object, the byte count is exact, the
      text produced denotes mantissa x 10^exponent
   G. lyjson_number: no_oob, len_exact, denotes    H. regression witnesses and a finite sweep
   The model transcribes the code after the fix of /repo commit 63186d2 (layout 2 of lyjson_exp_number). *)
From LY Require Import Base JsonNum.
From Coq Require Import ZifyBool ZifyNat ZifyN.
Local Open Scope Z_scope.

(* ================= A. reading the text, integer conversions ================= *)
Definition bat (s : bytes) (i : Z) : N := nth (Z.to_nat i) s 0%N.
Notation Ln s := (Z.of_nat (length s)).

Lemma rdin_ok s i : 0 <= i <= Ln s -> rdin s i = JOk (bat s i).
Proof.
  intro H. unfold rdin. replace ((0 <=? i) && (i <=? Ln s)) with true by lia. reflexivity.
Qed.

Lemma bat_nz s i : 0 <= i -> bat s i <> 0%N -> i < Ln s.
Proof.
  intros Hi Hn. destruct (Z_lt_ge_dec i (Ln s)) as [Hlt|Hge]; [exact Hlt|].
  exfalso. apply Hn. unfold bat. apply nth_overflow. lia.
Qed.

Lemma digit_nz c : is_digit c = true -> c <> 0%N.
Proof. unfold is_digit. lia. Qed.

Lemma digit_range c : is_digit c = true -> (48 <= c <= 57)%N.
Proof. unfold is_digit. lia. Qed.

Lemma u16_id x : 0 <= x < 65536 -> u16 x = x.
Proof. intro H. unfold u16. apply Z.mod_small. lia. Qed.
Lemma u32_id x : 0 <= x < 4294967296 -> u32 x = x.
Proof. intro H. unfold u32. apply Z.mod_small. lia. Qed.
Lemma u64_id x : 0 <= x < 18446744073709551616 -> u64 x = x.
Proof. intro H. unfold u64. apply Z.mod_small. lia. Qed.
Lemma i32_id x : -2147483648 <= x < 2147483648 -> i32 x = x.
Proof. intro H. unfold i32. rewrite Z.mod_small by lia. lia. Qed.

Lemma cstr_length s : (length (cstr s) <= length s)%nat.
Proof.
  induction s as [|c r IH]; cbn [cstr length]; [lia|].
  destruct (c =? 0)%N; cbn [length]; lia.
Qed.

(* ================= B. the scanning helpers ================= *)
Lemma skip_digits_spec fuel s off :
  0 <= off <= Ln s -> Ln s - off < Z.of_nat fuel ->
  exists o, skip_digits fuel s off = JOk o /\ off <= o <= Ln s /\
            (forall k, off <= k < o -> is_digit (bat s k) = true) /\ is_digit (bat s o) = false.
Proof.
  revert off; induction fuel as [|f IH]; intros off Ho Hf; [lia|].
  cbn [skip_digits]. rewrite rdin_ok by lia. cbn [jbind].
  destruct (is_digit (bat s off)) eqn:Hd.
  - assert (Hlt : off < Ln s) by (apply bat_nz; [lia|apply digit_nz; exact Hd]).
    destruct (IH (off + 1)) as (o & He & Hr & Hall & Hnd); [lia|lia|].
    exists o. split; [exact He|]. split; [lia|]. split; [|exact Hnd].
    intros k Hk. destruct (Z.eq_dec k off) as [->|Hne]; [exact Hd|]. apply Hall. lia.
  - exists off. split; [reflexivity|]. split; [lia|]. split; [|exact Hd].
    intros k Hk. lia.
Qed.

Lemma count_fwd_spec n s str c :
  0 <= str -> str + Z.of_nat n <= Ln s + 1 ->
  exists k, count_fwd n s str c = JOk k /\ 0 <= k <= Z.of_nat n /\
    (forall j, str <= j < str + k -> bat s j = c) /\ (k < Z.of_nat n -> bat s (str + k) <> c).
Proof.
  revert str; induction n as [|n IH]; intros str Hs Hn.
  - exists 0. cbn [count_fwd]. split; [reflexivity|]. split; [lia|]. split; intros; lia.
  - cbn [count_fwd]. rewrite rdin_ok by lia. cbn [jbind].
    destruct (bat s str =? c)%N eqn:Hc.
    + destruct (IH (str + 1)) as (k & He & Hr & Hall & Hstop); [lia|lia|].
      rewrite He. cbn [jbind]. exists (k + 1). split; [reflexivity|]. split; [lia|]. split.
      * intros j Hj. destruct (Z.eq_dec j str) as [->|Hne]; [lia|]. apply Hall. lia.
      * intro Hk. replace (str + (k + 1)) with (str + 1 + k) by lia. apply Hstop. lia.
    + exists 0. split; [reflexivity|]. split; [lia|]. split.
      * intros j Hj. lia.
      * intros _. replace (str + 0) with str by lia. lia.
Qed.

Lemma count_bwd_spec n s e c :
  0 <= e - Z.of_nat n -> e <= Ln s + 1 ->
  exists k, count_bwd n s e c = JOk k /\ 0 <= k <= Z.of_nat n /\
    (forall j, e - k <= j < e -> bat s j = c) /\ (k < Z.of_nat n -> bat s (e - 1 - k) <> c).
Proof.
  revert e; induction n as [|n IH]; intros e Hs Hn.
  - exists 0. cbn [count_bwd]. split; [reflexivity|]. split; [lia|]. split; intros; lia.
  - cbn [count_bwd]. rewrite rdin_ok by lia. cbn [jbind].
    destruct (bat s (e - 1) =? c)%N eqn:Hc.
    + destruct (IH (e - 1)) as (k & He & Hr & Hall & Hstop); [lia|lia|].
      rewrite He. cbn [jbind]. exists (k + 1). split; [reflexivity|]. split; [lia|]. split.
      * intros j Hj. destruct (Z.eq_dec j (e - 1)) as [->|Hne]; [lia|]. apply Hall. lia.
      * intro Hk. replace (e - 1 - (k + 1)) with (e - 1 - 1 - k) by lia. apply Hstop. lia.
    + exists 0. split; [reflexivity|]. split; [lia|]. split.
      * intros j Hj. lia.
      * intros _. replace (e - 1 - 0) with (e - 1) by lia. lia.
Qed.

(* lyjson_count_in_row: the 32-bit counter does not wrap because the text is shorter than 4 GiB *)
Lemma count_in_row_fwd s str e c :
  Ln s < 4294967296 -> 0 <= str -> e <= Ln s ->
  exists k, count_in_row s str e c false = JOk k /\ 0 <= k <= Z.max 0 (e - str) /\
    (forall j, str <= j < str + k -> bat s j = c) /\ (k < e - str -> bat s (str + k) <> c).
Proof.
  intros HL Hs He. unfold count_in_row. destruct (e <=? str) eqn:Hes.
  - exists 0. split; [reflexivity|]. split; [lia|]. split; intros; lia.
  - destruct (count_fwd_spec (Z.to_nat (e - str)) s str c) as (k & Hk & Hr & Hall & Hstop); [lia|lia|].
    rewrite Hk. cbn [jbind]. rewrite u32_id by lia. exists k. split; [reflexivity|].
    split; [lia|]. split; [exact Hall|]. intro Hlt. apply Hstop. lia.
Qed.

Lemma count_in_row_bwd s str e c :
  Ln s < 4294967296 -> 0 <= str -> e <= Ln s ->
  exists k, count_in_row s str e c true = JOk k /\ 0 <= k <= Z.max 0 (e - str) /\
    (forall j, e - k <= j < e -> bat s j = c) /\ (k < e - str -> bat s (e - 1 - k) <> c).
Proof.
  intros HL Hs He. unfold count_in_row. destruct (e <=? str) eqn:Hes.
  - exists 0. split; [reflexivity|]. split; [lia|]. split; intros; lia.
  - destruct (count_bwd_spec (Z.to_nat (e - str)) s e c) as (k & Hk & Hr & Hall & Hstop); [lia|lia|].
    rewrite Hk. cbn [jbind]. rewrite u32_id by lia. exists k. split; [reflexivity|].
    split; [lia|]. split; [exact Hall|]. intro Hlt. apply Hstop. lia.
Qed.

Lemma strnchr_spec n s p c :
  0 <= p -> p + Z.of_nat n <= Ln s + 1 ->
  (exists q, strnchr n s p c = JOk (Some q) /\ p <= q < p + Z.of_nat n /\ bat s q = c /\
             forall j, p <= j < q -> bat s j <> c)
  \/ (strnchr n s p c = JOk None /\ forall j, p <= j < p + Z.of_nat n -> bat s j <> c).
Proof.
  revert p; induction n as [|n IH]; intros p Hp Hn.
  - right. split; [reflexivity|]. intros j Hj. lia.
  - cbn [strnchr]. rewrite rdin_ok by lia. cbn [jbind].
    destruct (bat s p =? c)%N eqn:Hc.
    + left. exists p. split; [reflexivity|]. split; [lia|]. split; [lia|]. intros j Hj. lia.
    + destruct (IH (p + 1)) as [(q & He & Hr & Hq & Hall)|(He & Hall)]; [lia|lia| |].
      * left. exists q. split; [exact He|]. split; [lia|]. split; [exact Hq|].
        intros j Hj. destruct (Z.eq_dec j p) as [->|Hne]; [lia|]. apply Hall. lia.
      * right. split; [exact He|].
        intros j Hj. destruct (Z.eq_dec j p) as [->|Hne]; [lia|]. apply Hall. lia.
Qed.

(* the digit loop of strtoll: ends inside the text, the value is positive as soon as one digit of the
   run is not 0 *)
Lemma acc_digits_spec fuel s i acc :
  0 <= i <= Ln s -> Ln s - i < Z.of_nat fuel -> 0 <= acc ->
  exists a, acc_digits fuel s i acc = JOk a /\ acc <= a /\
    (forall k, i <= k -> (forall j, i <= j <= k -> is_digit (bat s j) = true) -> bat s k <> 48%N -> 0 < a).
Proof.
  revert i acc; induction fuel as [|f IH]; intros i acc Hi Hf Ha; [lia|].
  cbn [acc_digits]. rewrite rdin_ok by lia. cbn [jbind].
  destruct (is_digit (bat s i)) eqn:Hd.
  - assert (Hlt : i < Ln s) by (apply bat_nz; [lia|apply digit_nz; exact Hd]).
    pose proof (digit_range _ Hd) as Hrg.
    destruct (IH (i + 1) (10 * acc + (Z.of_N (bat s i) - 48))) as (a & He & Hge & Hpos); [lia|lia|lia|].
    exists a. split; [exact He|]. split; [lia|].
    intros k Hk Hall Hne. destruct (Z.eq_dec k i) as [->|Hki]; [lia|].
    apply (Hpos k); [lia| |exact Hne]. intros j Hj. apply Hall. lia.
  - exists acc. split; [reflexivity|]. split; [lia|].
    intros k Hk Hall Hne. rewrite (Hall i) in Hd by lia. discriminate.
Qed.


(* ---------- pieces of the text as lists: sub s a b = bytes a .. b-1 ---------- *)
Definition sub (s : bytes) (a b : Z) : bytes := firstn (Z.to_nat (b - a)) (skipn (Z.to_nat a) s).
Definition isd (c : N) : Prop := is_digit c = true.

Lemma sub_nil s a b : b <= a -> sub s a b = [].
Proof. intro H. unfold sub. replace (Z.to_nat (b - a)) with 0%nat by lia. reflexivity. Qed.

Lemma skipn_nth_cons (l : bytes) : forall n, (n < length l)%nat -> skipn n l = nth n l 0%N :: skipn (S n) l.
Proof.
  induction l as [|x l IH]; intros n Hn; cbn [length] in Hn; [lia|].
  destruct n as [|n]; [reflexivity|]. cbn [skipn nth]. rewrite IH by lia. reflexivity.
Qed.

Lemma sub_cons s a b : 0 <= a < b -> a < Ln s -> sub s a b = bat s a :: sub s (a + 1) b.
Proof.
  intros Hab Hl. unfold sub, bat. rewrite skipn_nth_cons by lia.
  replace (Z.to_nat (b - a)) with (S (Z.to_nat (b - (a + 1)))) by lia.
  replace (Z.to_nat (a + 1)) with (S (Z.to_nat a)) by lia. reflexivity.
Qed.

Lemma sub_ind_aux (P : Z -> Prop) b :
  P b -> (forall a, 0 <= a < b -> P (a + 1) -> P a) -> forall n a, Z.of_nat n = b - a -> 0 <= a -> P a.
Proof.
  intros Hb Hstep. induction n as [|n IH]; intros a Hn Ha.
  - replace a with b by lia. exact Hb.
  - apply Hstep; [lia|]. apply IH; lia.
Qed.

Lemma sub_app s a b c : 0 <= a -> a <= b <= c -> c <= Ln s -> sub s a c = sub s a b ++ sub s b c.
Proof.
  intros Ha Hbc Hc.
  apply (sub_ind_aux (fun a => a <= b -> sub s a c = sub s a b ++ sub s b c) b) with (n := Z.to_nat (b - a));
    [| |lia|lia|lia].
  - intros _. rewrite (sub_nil s b b) by lia. reflexivity.
  - intros a' Ha' IH _. rewrite (sub_cons s a' c) by lia. rewrite (sub_cons s a' b) by lia.
    rewrite IH by lia. reflexivity.
Qed.

Lemma sub_length s a b : 0 <= a -> a <= b <= Ln s -> Ln (sub s a b) = b - a.
Proof.
  intros Ha Hb. unfold sub. rewrite firstn_length, skipn_length. lia.
Qed.

Lemma sub_one s a : 0 <= a < Ln s -> sub s a (a + 1) = [bat s a].
Proof. intro H. rewrite sub_cons by lia. rewrite sub_nil by lia. reflexivity. Qed.

Lemma sub_Forall (P : N -> Prop) s a b :
  0 <= a -> b <= Ln s -> (forall k, a <= k < b -> P (bat s k)) -> Forall P (sub s a b).
Proof.
  intros Ha Hb. destruct (Z_le_gt_dec b a) as [Hle|Hgt]; [intros _; rewrite sub_nil by lia; constructor|].
  apply (sub_ind_aux (fun a => (forall k, a <= k < b -> P (bat s k)) -> Forall P (sub s a b)) b)
    with (n := Z.to_nat (b - a)); [| |lia|lia].
  - intros _. rewrite sub_nil by lia. constructor.
  - intros a' Ha' IH Hall. rewrite sub_cons by lia. constructor; [apply Hall; lia|].
    apply IH. intros k Hk. apply Hall. lia.
Qed.

Lemma sub_repeat s a b c :
  0 <= a -> b <= Ln s -> (forall k, a <= k < b -> bat s k = c) -> sub s a b = repeat c (Z.to_nat (b - a)).
Proof.
  intros Ha Hb. destruct (Z_le_gt_dec b a) as [Hle|Hgt].
  { intros _. rewrite sub_nil by lia. replace (Z.to_nat (b - a)) with 0%nat by lia. reflexivity. }
  apply (sub_ind_aux (fun a => a <= b -> (forall k, a <= k < b -> bat s k = c) ->
                                  sub s a b = repeat c (Z.to_nat (b - a))) b)
    with (n := Z.to_nat (b - a)); [| |lia|lia|lia].
  - intros _ _. rewrite sub_nil by lia. replace (Z.to_nat (b - b)) with 0%nat by lia. reflexivity.
  - intros a' Ha' IH _ Hall. rewrite sub_cons by lia.
    replace (Z.to_nat (b - a')) with (S (Z.to_nat (b - (a' + 1)))) by lia. cbn [repeat].
    rewrite (Hall a') by lia. rewrite IH; [reflexivity|lia|]. intros k Hk. apply Hall. lia.
Qed.

Lemma sub_firstn s off : sub s 0 off = firstn (Z.to_nat off) s.
Proof. unfold sub. rewrite Z.sub_0_r. reflexivity. Qed.

Lemma slice_sub s n : slice s 0 n = map Some (sub s 0 n).
Proof. unfold slice. rewrite sub_firstn. reflexivity. Qed.

(* value of a digit string, accumulator style as digits_val / strtoll *)
Fixpoint dval (l : bytes) (acc : Z) : Z :=
  match l with
  | [] => acc
  | c :: r => dval r (10 * acc + (Z.of_N c - 48))
  end.

Lemma acc_digits_dval fuel s : forall i acc off,
  0 <= i <= off -> off <= Ln s -> Ln s - i < Z.of_nat fuel ->
  (forall k, i <= k < off -> is_digit (bat s k) = true) -> is_digit (bat s off) = false ->
  acc_digits fuel s i acc = JOk (dval (sub s i off) acc).
Proof.
  induction fuel as [|f IH]; intros i acc off Hi Hoff Hf Hd Hnd; [lia|].
  cbn [acc_digits]. rewrite rdin_ok by lia. cbn [jbind].
  destruct (Z.eq_dec i off) as [->|Hne].
  - rewrite Hnd. rewrite sub_nil by lia. reflexivity.
  - rewrite (Hd i) by lia. assert (Hlt : i < Ln s) by lia.
    rewrite (sub_cons s i off) by lia. cbn [dval]. apply IH; try lia; try assumption.
Qed.

(* ================= C. the allocated block and its content ================= *)
(* cells 0 .. k-1 have been written and hold the bytes l *)
Definition pfx (b : buffer) (k : Z) (l : bytes) : Prop :=
  Ln l = k /\ firstn (length l) b = map Some l.

Lemma upd_length b i v : length (upd b i v) = length b.
Proof. revert i; induction b as [|x b IH]; intros [|i]; cbn [upd length]; auto. Qed.

Lemma firstn_upd_ext (l : bytes) : forall (b : buffer) v,
  firstn (length l) b = map Some l -> (length l < length b)%nat ->
  firstn (length (l ++ [v])) (upd b (length l) v) = map Some (l ++ [v]).
Proof.
  induction l as [|c l IH]; intros b v Hf Hl.
  - destruct b as [|x b]; [cbn [length] in Hl; lia|]. reflexivity.
  - destruct b as [|x b]; [cbn [length] in Hl; lia|].
    cbn [length firstn map app upd] in *. injection Hf as Hx Hf. subst x.
    rewrite (IH b v Hf) by lia. reflexivity.
Qed.

Lemma firstn_upd_keep (b : buffer) : forall n i v, (n <= i)%nat -> firstn n (upd b i v) = firstn n b.
Proof.
  induction b as [|x b IH]; intros n i v Hni; [destruct i; reflexivity|].
  destruct n as [|n]; [reflexivity|]. destruct i as [|i]; [lia|].
  cbn [upd firstn]. rewrite IH by lia. reflexivity.
Qed.

Lemma wrb_step b k l v :
  pfx b k l -> k < Z.of_nat (length b) ->
  exists b', wrb b k v = JOk b' /\ length b' = length b /\ pfx b' (k + 1) (l ++ [v]).
Proof.
  intros (Hlen & Hp) Hk. unfold wrb. replace ((0 <=? k) && (k <? Z.of_nat (length b))) with true by lia.
  eexists. split; [reflexivity|]. split; [apply upd_length|]. split.
  - rewrite app_length. cbn [length]. lia.
  - replace (Z.to_nat k) with (length l) by lia. apply firstn_upd_ext; [exact Hp|lia].
Qed.

Lemma fill_length b i n v : length (fill b i n v) = length b.
Proof.
  revert b i; induction n as [|n IH]; intros b i; cbn [fill]; [reflexivity|].
  rewrite IH. apply upd_length.
Qed.

Lemma fill_pfx n : forall (b : buffer) (l : bytes) v,
  (length l + n <= length b)%nat -> firstn (length l) b = map Some l ->
  firstn (length (l ++ repeat v n)) (fill b (length l) n v) = map Some (l ++ repeat v n).
Proof.
  induction n as [|n IH]; intros b l v Hle Hp; cbn [fill repeat].
  - rewrite app_nil_r. exact Hp.
  - replace (l ++ v :: repeat v n) with ((l ++ [v]) ++ repeat v n) by (rewrite <- app_assoc; reflexivity).
    replace (S (length l)) with (length (l ++ [v])) by (rewrite app_length; cbn [length]; lia).
    apply IH.
    + rewrite upd_length, app_length. cbn [length]. unfold cell in *. lia.
    + apply firstn_upd_ext; [exact Hp|unfold cell in *; lia].
Qed.

Lemma fillb_step b k l n v :
  pfx b k l -> 0 <= n -> k + n <= Z.of_nat (length b) ->
  exists b', fillb b k n v = JOk b' /\ length b' = length b /\ pfx b' (k + n) (l ++ repeat v (Z.to_nat n)).
Proof.
  intros (Hlen & Hp) Hn Hle. unfold fillb. destruct (n =? 0) eqn:Hn0.
  - exists b. split; [reflexivity|]. split; [reflexivity|].
    replace (Z.to_nat n) with 0%nat by lia. cbn [repeat]. rewrite app_nil_r. split; [lia|exact Hp].
  - replace ((0 <=? k) && (k + n <=? Z.of_nat (length b))) with true by lia.
    eexists. split; [reflexivity|]. split; [apply fill_length|]. split.
    + rewrite app_length, repeat_length. lia.
    + replace (Z.to_nat k) with (length l) by lia. apply fill_pfx; [lia|exact Hp].
Qed.

(* lyjson_get_buffer_for_number: either the LY_NUMBER_MAXLEN error or a block of n + 1 bytes, n + 1 <= 22 *)
Lemma get_buffer_cases n :
  0 <= n < 9223372036854775808 ->
  get_buffer n = JErr E_MAXLEN \/
  (n + 1 <= 22 /\ exists b, get_buffer n = JOk b /\ Z.of_nat (length b) = n + 1 /\ pfx b 0 []).
Proof.
  intro Hn. unfold get_buffer. rewrite u64_id by lia. unfold LY_NUMBER_MAXLEN.
  destruct (22 <? n + 1) eqn:Hc; [left; reflexivity|right].
  split; [lia|]. eexists. split; [reflexivity|]. split.
  - rewrite repeat_length. lia.
  - split; reflexivity.
Qed.

Definition sgnl (minus : Z) : bytes := if minus =? 1 then [45%N] else [].

Lemma sgnl_length minus : minus = 0 \/ minus = 1 -> Ln (sgnl minus) = minus.
Proof. intros [-> | ->]; reflexivity. Qed.

Lemma maybe_minus_step b minus :
  minus = 0 \/ minus = 1 -> 1 <= Z.of_nat (length b) -> pfx b 0 [] ->
  exists b', maybe_minus b minus = JOk (b', minus) /\ length b' = length b /\ pfx b' minus (sgnl minus).
Proof.
  intros Hm Hl Hp. unfold maybe_minus. destruct Hm as [-> | ->]; cbn [Z.eqb Pos.eqb].
  - exists b. split; [reflexivity|]. split; [reflexivity|exact Hp].
  - destruct (wrb_step b 0 [] 45%N Hp) as (b' & He & Hlen & Hp'); [lia|].
    rewrite He. cbn [jbind]. exists b'. split; [reflexivity|]. split; [exact Hlen|exact Hp'].
Qed.

(* number of source bytes the copy loop stores (it skips the old decimal point when it meets it) and
   whether it inserts the new decimal point; the bytes it stores *)
Definition cm (n cnt dec_idx : Z) : Z := cnt - Z.b2z ((n <=? dec_idx) && (dec_idx <? n + cnt)).
Definition cins (d dp m : Z) : Z := Z.b2z ((d <=? dp) && (dp <? d + m)).

Fixpoint copy_list (cnt : nat) (s : bytes) (num dec_idx dp n d : Z) : bytes :=
  match cnt with
  | O => []
  | S c =>
      if n =? dec_idx then copy_list c s num dec_idx dp (n + 1) d
      else if d =? dp then 46%N :: bat s (num + n) :: copy_list c s num dec_idx dp (n + 1) (d + 2)
      else bat s (num + n) :: copy_list c s num dec_idx dp (n + 1) (d + 1)
  end.

Lemma copy_loop_spec cnt : forall s num dec_idx dp b l base n d,
  0 <= num + n -> num + n + Z.of_nat cnt <= Ln s + 1 ->
  base + d + cm n (Z.of_nat cnt) dec_idx + cins d dp (cm n (Z.of_nat cnt) dec_idx) <= Z.of_nat (length b) ->
  pfx b (base + d) l ->
  exists b' d', copy_loop cnt s num dec_idx dp b base n d = JOk (b', d') /\
     d' = d + cm n (Z.of_nat cnt) dec_idx + cins d dp (cm n (Z.of_nat cnt) dec_idx) /\
     length b' = length b /\ pfx b' (base + d') (l ++ copy_list cnt s num dec_idx dp n d).
Proof.
  induction cnt as [|cnt IH]; intros s num dec_idx dp b l base n d Hn0 Hn1 Hb1 Hp.
  - cbn [copy_loop copy_list]. exists b, d. split; [reflexivity|]. split; [unfold cm, cins; lia|].
    split; [reflexivity|]. rewrite app_nil_r. exact Hp.
  - cbn [copy_loop copy_list]. destruct (n =? dec_idx) eqn:Hnd.
    + destruct (IH s num dec_idx dp b l base (n + 1) d) as (b' & d' & He & Hd' & Hl & Hp');
        [lia|lia|unfold cm, cins in *; lia|exact Hp|].
      exists b', d'. split; [exact He|]. split; [unfold cm, cins in *; lia|]. split; [exact Hl|exact Hp'].
    + rewrite rdin_ok by lia. cbn [jbind]. destruct (d =? dp) eqn:Hdp.
      * destruct (wrb_step b (base + d) l 46%N Hp) as (b1 & He1 & Hl1 & Hp1);
          [unfold cm, cins in *; lia|].
        rewrite He1. cbn [jbind].
        destruct (wrb_step b1 (base + d + 1) (l ++ [46%N]) (bat s (num + n)) Hp1) as (b2 & He2 & Hl2 & Hp2);
          [unfold cm, cins in *; lia|].
        rewrite He2. cbn [jbind].
        destruct (IH s num dec_idx dp b2 ((l ++ [46%N]) ++ [bat s (num + n)]) base (n + 1) (d + 2))
          as (b' & d' & He & Hd' & Hl & Hp');
          [lia|lia|unfold cm, cins in *; lia|
           replace (base + (d + 2)) with (base + d + 1 + 1) by lia; exact Hp2|].
        exists b', d'. split; [exact He|]. split; [unfold cm, cins in *; lia|]. split; [congruence|].
        rewrite <- !app_assoc in Hp'. exact Hp'.
      * destruct (wrb_step b (base + d) l (bat s (num + n)) Hp) as (b1 & He1 & Hl1 & Hp1);
          [unfold cm, cins in *; lia|].
        rewrite He1. cbn [jbind].
        destruct (IH s num dec_idx dp b1 (l ++ [bat s (num + n)]) base (n + 1) (d + 1))
          as (b' & d' & He & Hd' & Hl & Hp');
          [lia|lia|unfold cm, cins in *; lia|
           replace (base + (d + 1)) with (base + d + 1) by lia; exact Hp1|].
        exists b', d'. split; [exact He|]. split; [unfold cm, cins in *; lia|]. split; [congruence|].
        rewrite <- !app_assoc in Hp'. exact Hp'.
Qed.

Definition decidx (dec_point : option Z) (num : Z) : Z :=
  match dec_point with Some p => p - num | None => INT32_MAX end.

(* lyjson_exp_number_copy_num_part: [m] source bytes are stored, [ins] is 1 when the new decimal point
   is inserted; neither assert fires, the stores are the cells base .. base + m + ins - 1 *)
Lemma copy_num_part_step s num num_len dec_point dp b l base m ins :
  pfx b base l -> 0 <= num -> 0 <= num_len <= 65535 -> num + num_len <= Ln s + 1 ->
  (forall p, dec_point = Some p -> 0 <= p - num < 65536) ->
  decidx dec_point num <> dp ->
  m = cm 0 num_len (decidx dec_point num) -> ins = cins 0 dp m ->
  base + m + ins <= Z.of_nat (length b) ->
  exists b', copy_num_part s num num_len dec_point dp b base = JOk (b', m + ins) /\
    length b' = length b /\
    pfx b' (base + (m + ins)) (l ++ copy_list (Z.to_nat num_len) s num (decidx dec_point num) dp 0 0).
Proof.
  intros Hp Hnum Hlen Hrd Hdec Hne Hm Hins Hb1. unfold copy_num_part.
  replace (match dec_point with Some p => i32 (p - num) | None => INT32_MAX end) with (decidx dec_point num).
  2:{ unfold decidx. destruct dec_point as [p|]; [|reflexivity].
      specialize (Hdec p eq_refl). rewrite i32_id by lia. reflexivity. }
  assert (Hd0 : 0 <= decidx dec_point num).
  { unfold decidx, INT32_MAX. destruct dec_point as [p|]; [specialize (Hdec p eq_refl)|]; lia. }
  replace ((0 <=? decidx dec_point num) && negb (decidx dec_point num =? dp)) with true by lia.
  cbn [negb]. rewrite u32_id by lia.
  destruct (copy_loop_spec (Z.to_nat num_len) s num (decidx dec_point num) dp b l base 0 0)
    as (b' & d' & He & Hd' & Hl & Hp').
  - lia.
  - lia.
  - rewrite Z2Nat.id by lia. rewrite <- Hm. rewrite <- Hins. lia.
  - replace (base + 0) with base by lia. exact Hp.
  - rewrite Z2Nat.id in Hd' by lia. rewrite <- Hm in Hd'. rewrite <- Hins in Hd'.
    rewrite He. cbn [jbind]. exists b'. replace d' with (m + ins) in * by lia.
    rewrite u32_id by (unfold cm, cins in *; lia).
    split; [reflexivity|]. split; [exact Hl|exact Hp'].
Qed.

(* what the theorems say about the block lyjson_exp_number() hands back: it has buf_len + 1 bytes, the
   bytes stored before the terminating NUL are exactly buf_len, and they are the text [out] with P out *)
Definition xprops (P : bytes -> Prop) (x : expres) : Prop :=
  Z.of_nat (length (x_buf x)) = x_len x + 1 /\ 0 <= x_len x < 22 /\ x_end x = x_len x /\
  exists out, firstn (Z.to_nat (x_len x)) (x_buf x) = map Some out /\ P out.

Definition xgood (P : bytes -> Prop) (r : jres expres) : Prop :=
  match r with JOk x => xprops P x | JErr e => e <> E_FUEL | JOob => False end.

Lemma xgood_impl (P Q : bytes -> Prop) r : (forall out, P out -> Q out) -> xgood P r -> xgood Q r.
Proof.
  intros HPQ. destruct r as [x|e|]; cbn [xgood]; auto.
  intros (H1 & H2 & H3 & out & Ho & HP). split; [exact H1|]. split; [exact H2|]. split; [exact H3|].
  exists out. split; [exact Ho|apply HPQ; exact HP].
Qed.

Lemma finish_step (P : bytes -> Prop) b buf_len l br :
  Z.of_nat (length b) = buf_len + 1 -> buf_len < 22 -> pfx b buf_len l -> P l ->
  xgood P (finish b buf_len buf_len br).
Proof.
  intros Hl Hb (Hlen & Hp) HP. unfold finish, wrb.
  replace ((0 <=? buf_len) && (buf_len <? Z.of_nat (length b))) with true by lia.
  cbn [jbind xgood]. unfold xprops. cbn [x_buf x_len x_end x_branch].
  split; [rewrite upd_length; exact Hl|]. split; [lia|]. split; [reflexivity|].
  exists l. split; [|exact HP]. replace (Z.to_nat buf_len) with (length l) by lia.
  rewrite firstn_upd_keep by lia. exact Hp.
Qed.

Lemma xgood_maxlen P : xgood P (JErr E_MAXLEN).
Proof. cbn [xgood]. discriminate. Qed.

(* ================= D. lex_number ================= *)
(* first exponent digit: after the letter and an optional sign *)
Definition exp_start (s : bytes) (ex : Z) : Z :=
  if (bat s (ex + 1) =? 43)%N || (bat s (ex + 1) =? 45)%N then ex + 2 else ex + 1.

Definition lexfacts (s : bytes) (minus o1 o2 : Z) : Prop :=
  minus = (if (bat s 0 =? 45)%N then 1 else 0) /\ minus < o1 /\
  (forall k, minus <= k < o1 -> is_digit (bat s k) = true) /\
  (bat s minus = 48%N -> o1 = minus + 1) /\
  ((o2 = o1 /\ bat s o1 <> 46%N) \/
   (bat s o1 = 46%N /\ o1 + 1 < o2 /\ forall k, o1 < k < o2 -> is_digit (bat s k) = true)).

Definition lexok (s : bytes) (lx : lexed) : Prop :=
  lexfacts s (l_minus lx) (l_o1 lx) (l_o2 lx) /\ l_o2 lx <= l_off lx /\ l_off lx <= Ln s /\
  match l_exp lx with
  | None => l_off lx = l_o2 lx /\ bat s (l_o2 lx) <> 101%N /\ bat s (l_o2 lx) <> 69%N
  | Some ex => ex = l_o2 lx /\ (bat s ex = 101%N \/ bat s ex = 69%N) /\ exp_start s ex < l_off lx /\
               (forall k, exp_start s ex <= k < l_off lx -> is_digit (bat s k) = true) /\
               is_digit (bat s (l_off lx)) = false
  end.

Definition lgood (s : bytes) (r : jres lexed) : Prop :=
  match r with JOk lx => lexok s lx | JErr e => e <> E_FUEL | JOob => False end.

Definition lex_rest2 (s : bytes) (minus o1 o2 : Z) : jres lexed :=
  let fuel := S (length s) in
  let* c := rdin s o2 in
  if (c =? 101)%N || (c =? 69)%N then
    let* c1 := rdin s (o2 + 1) in
    let o := if (c1 =? 43)%N || (c1 =? 45)%N then o2 + 2 else o2 + 1 in
    let* d := rdin s o in
    if is_digit d then (let* o' := skip_digits fuel s o in
                        JOk {| l_minus := minus; l_o1 := o1; l_o2 := o2; l_exp := Some o2; l_off := o' |})
    else JErr E_CHAR
  else JOk {| l_minus := minus; l_o1 := o1; l_o2 := o2; l_exp := None; l_off := o2 |}.

Definition lex_rest1 (s : bytes) (minus o1 : Z) : jres lexed :=
  let fuel := S (length s) in
  let* c := rdin s o1 in
  let* o2 := if (c =? 46)%N
             then (let* d := rdin s (o1 + 1) in
                   if is_digit d then skip_digits fuel s (o1 + 1) else JErr E_CHAR)
             else JOk o1 in
  lex_rest2 s minus o1 o2.

Lemma lex_number_eq s :
  lex_number s =
  let fuel := S (length s) in
  let* c0 := rdin s 0 in
  let minus := if (c0 =? 45)%N then 1 else 0 in
  let* c := rdin s minus in
  let* o1 := if (c =? 48)%N then JOk (minus + 1)
             else if is_digit c then skip_digits fuel s (minus + 1)
             else JErr E_CHAR in
  lex_rest1 s minus o1.
Proof. reflexivity. Qed.

Lemma lex_rest2_spec s minus o1 o2 :
  lexfacts s minus o1 o2 -> 0 <= o2 <= Ln s -> lgood s (lex_rest2 s minus o1 o2).
Proof.
  intros Hf Ho2. unfold lex_rest2. rewrite rdin_ok by lia. cbn [jbind].
  destruct ((bat s o2 =? 101)%N || (bat s o2 =? 69)%N) eqn:He.
  - assert (Hlt : o2 < Ln s) by (apply bat_nz; lia).
    rewrite rdin_ok by lia. cbn [jbind]. fold (exp_start s o2).
    assert (Hes : o2 + 1 <= exp_start s o2 <= o2 + 2 /\ exp_start s o2 <= Ln s).
    { unfold exp_start. destruct ((bat s (o2 + 1) =? 43)%N || (bat s (o2 + 1) =? 45)%N) eqn:Hs; [|lia].
      assert (o2 + 1 < Ln s) by (apply bat_nz; lia). lia. }
    rewrite rdin_ok by lia. cbn [jbind].
    destruct (is_digit (bat s (exp_start s o2))) eqn:Hd; [|cbn [lgood]; discriminate].
    destruct (skip_digits_spec (S (length s)) s (exp_start s o2)) as (o' & Hsk & Hr & Hall & Hnd); [lia|lia|].
    rewrite Hsk. cbn [jbind lgood]. unfold lexok. cbn [l_minus l_o1 l_o2 l_exp l_off].
    assert (Hne : o' <> exp_start s o2) by (intros ->; congruence).
    split; [exact Hf|]. split; [lia|]. split; [lia|]. split; [reflexivity|].
    split; [lia|]. split; [lia|]. split; [exact Hall|exact Hnd].
  - cbn [lgood]. unfold lexok. cbn [l_minus l_o1 l_o2 l_exp l_off].
    split; [exact Hf|]. split; [lia|]. split; [lia|]. split; [reflexivity|lia].
Qed.

Lemma lex_rest1_spec s minus o1 :
  minus = (if (bat s 0 =? 45)%N then 1 else 0) -> minus < o1 ->
  (forall k, minus <= k < o1 -> is_digit (bat s k) = true) ->
  (bat s minus = 48%N -> o1 = minus + 1) -> 0 <= o1 <= Ln s ->
  lgood s (lex_rest1 s minus o1).
Proof.
  intros Hm Hlt Hdm H48 Ho1. unfold lex_rest1. rewrite rdin_ok by lia. cbn [jbind].
  destruct (bat s o1 =? 46)%N eqn:Hc.
  - assert (Hl : o1 < Ln s) by (apply bat_nz; lia).
    rewrite rdin_ok by lia. cbn [jbind].
    destruct (is_digit (bat s (o1 + 1))) eqn:Hd; [|cbn [jbind lgood]; discriminate].
    destruct (skip_digits_spec (S (length s)) s (o1 + 1)) as (o2 & Hsk & Hr & Hall & Hnd); [lia|lia|].
    rewrite Hsk. cbn [jbind].
    assert (Hne : o2 <> o1 + 1) by (intros ->; congruence).
    apply lex_rest2_spec; [|lia]. unfold lexfacts.
    split; [exact Hm|]. split; [exact Hlt|]. split; [exact Hdm|]. split; [exact H48|].
    right. split; [lia|]. split; [lia|]. intros k Hk. apply Hall. lia.
  - cbn [jbind]. apply lex_rest2_spec; [|lia]. unfold lexfacts.
    split; [exact Hm|]. split; [exact Hlt|]. split; [exact Hdm|]. split; [exact H48|].
    left. split; [reflexivity|lia].
Qed.

Lemma lex_number_spec s : lgood s (lex_number s).
Proof.
  rewrite lex_number_eq. cbv zeta. rewrite rdin_ok by lia. cbn [jbind].
  set (minus := if (bat s 0 =? 45)%N then 1 else 0).
  assert (Hm : 0 <= minus <= 1 /\ minus <= Ln s).
  { subst minus. destruct (bat s 0 =? 45)%N eqn:H; [|lia].
    assert (0 < Ln s) by (apply bat_nz; lia). lia. }
  rewrite rdin_ok by lia. cbn [jbind].
  destruct (bat s minus =? 48)%N eqn:H48.
  - cbn [jbind]. assert (Hl : minus < Ln s) by (apply bat_nz; lia).
    apply lex_rest1_spec; [reflexivity|lia| |lia|lia].
    intros k Hk. replace k with minus by lia. unfold is_digit. lia.
  - destruct (is_digit (bat s minus)) eqn:Hd; [|cbn [jbind lgood]; discriminate].
    assert (Hl : minus < Ln s) by (apply bat_nz; [lia|apply digit_nz; exact Hd]).
    destruct (skip_digits_spec (S (length s)) s (minus + 1)) as (o1 & Hsk & Hr & Hall & Hnd); [lia|lia|].
    rewrite Hsk. cbn [jbind].
    apply lex_rest1_spec; [reflexivity|lia| |lia|lia].
    intros k Hk. destruct (Z.eq_dec k minus) as [->|Hne]; [exact Hd|]. apply Hall. lia.
Qed.

(* ================= E. lyjson_number_is_zero ================= *)
Definition nz_start (s : bytes) (i : Z) : Z :=
  if (bat s i =? 45)%N || (bat s i =? 43)%N then i + 1 else i.

Lemma nz_tail s i2 e :
  Ln s < 4294967296 -> 0 <= i2 -> i2 < e -> e <= Ln s ->
  exists z, (let* k := count_in_row s i2 e 48%N false in JOk (k =? u32 (e - i2))) = JOk z /\
    (z = false -> exists k, i2 <= k < e /\ bat s k <> 48%N) /\
    (z = true -> forall j, i2 <= j < e -> bat s j = 48%N).
Proof.
  intros HL H0 Hlt He.
  destruct (count_in_row_fwd s i2 e 48%N HL H0 He) as (k & Hk & Hr & Hall & Hstop).
  rewrite Hk. cbn [jbind]. rewrite u32_id by lia. eexists. split; [reflexivity|]. split.
  - intro Hz. exists (i2 + k). split; [lia|]. apply Hstop. lia.
  - intros Hz j Hj. apply Hall. lia.
Qed.

(* no assert fires, no read leaves the text. Answer false: some byte between the (signed) start and the
   end is not the digit 0 (behind the point when the text starts with 0.). Answer true: all of them are,
   or the text is 0. and the end *)
Lemma number_is_zero_spec s i e :
  Ln s < 4294967296 -> 0 <= i -> i < e -> e <= Ln s -> nz_start s i < e ->
  exists z, number_is_zero s i e = JOk z /\
    (z = false -> exists k, nz_start s i <= k < e /\ bat s k <> 48%N /\
                  (bat s (nz_start s i) = 48%N -> bat s (nz_start s i + 1) = 46%N -> nz_start s i + 2 <= k)) /\
    (z = true -> bat s (nz_start s i) = 48%N /\
                 ((bat s (nz_start s i + 1) = 46%N /\ forall j, nz_start s i + 2 <= j < e -> bat s j = 48%N) \/
                  (bat s (nz_start s i + 1) <> 46%N /\ forall j, nz_start s i <= j < e -> bat s j = 48%N))).
Proof.
  intros HL H0 Hlt He Hst. unfold number_is_zero.
  replace (negb (i <? e)) with false by lia.
  rewrite rdin_ok by lia. cbn [jbind].
  assert (Hi1 : (if (bat s i =? 45)%N || (bat s i =? 43)%N
                 then (if negb (i + 1 <? e) then JOob else JOk (i + 1)) else JOk i) = JOk (nz_start s i)).
  { unfold nz_start in *. destruct ((bat s i =? 45)%N || (bat s i =? 43)%N); [|reflexivity].
    replace (negb (i + 1 <? e)) with false by lia. reflexivity. }
  rewrite Hi1. cbn [jbind].
  assert (Hi1r : i <= nz_start s i) by (unfold nz_start; destruct ((bat s i =? 45)%N || (bat s i =? 43)%N); lia).
  set (i1 := nz_start s i) in *. clearbody i1. clear Hi1.
  rewrite rdin_ok by lia. cbn [jbind].
  destruct (bat s i1 =? 48)%N eqn:H48.
  - rewrite rdin_ok by lia. cbn [jbind]. destruct (bat s (i1 + 1) =? 46)%N eqn:H46.
    + cbn [andb]. destruct (negb (i1 + 2 <? e)) eqn:Hc.
      * exists true. split; [reflexivity|]. split; [discriminate|]. intros _. split; [lia|].
        left. split; [lia|]. intros j Hj. lia.
      * destruct (nz_tail s (i1 + 2) e) as (z & Hz & Hk & Hall); [lia|lia|lia|lia|].
        exists z. split; [exact Hz|]. split.
        -- intro Hf. destruct (Hk Hf) as (k & Hkr & Hkn).
           exists k. split; [lia|]. split; [exact Hkn|]. intros _ _. lia.
        -- intro Ht. split; [lia|]. left. split; [lia|apply Hall; exact Ht].
    + cbn [andb]. destruct (nz_tail s i1 e) as (z & Hz & Hk & Hall); [lia|lia|lia|lia|].
      exists z. split; [exact Hz|]. split.
      * intro Hf. destruct (Hk Hf) as (k & Hkr & Hkn).
        exists k. split; [lia|]. split; [exact Hkn|]. intros _ Hc. lia.
      * intro Ht. split; [lia|]. right. split; [lia|apply Hall; exact Ht].
  - cbn [jbind andb]. destruct (nz_tail s i1 e) as (z & Hz & Hk & Hall); [lia|lia|lia|lia|].
    exists z. split; [exact Hz|]. split.
    + intro Hf. destruct (Hk Hf) as (k & Hkr & Hkn).
      exists k. split; [lia|]. split; [exact Hkn|]. intros Hc. lia.
    + intro Ht. exfalso. specialize (Hall Ht i1). lia.
Qed.

(* ================= S. what a decimal text denotes ================= *)
Lemma digits_val_dval l : forall acc, Forall isd l -> digits_val l acc = Some (dval l acc).
Proof.
  induction l as [|c l IH]; intros acc H; [reflexivity|].
  inversion H as [|c' l' Hc Hl]; subst c' l'. cbn [digits_val dval]. unfold isd in Hc. rewrite Hc. apply IH. exact Hl.
Qed.

Lemma dval_app a : forall b acc, dval (a ++ b) acc = dval b (dval a acc).
Proof. induction a as [|c a IH]; intros b acc; cbn [app dval]; [reflexivity|apply IH]. Qed.

Lemma dval_acc l : forall acc, dval l acc = acc * 10 ^ Ln l + dval l 0.
Proof.
  induction l as [|c l IH]; intro acc.
  - cbn [dval length]. change (10 ^ Z.of_nat 0) with 1. lia.
  - cbn [dval]. rewrite (IH (10 * acc + (Z.of_N c - 48))), (IH (10 * 0 + (Z.of_N c - 48))).
    cbn [length]. rewrite Nat2Z.inj_succ, Z.pow_succ_r by lia. ring.
Qed.

Lemma dval_repeat0 n : forall acc, dval (repeat 48%N n) acc = acc * 10 ^ Z.of_nat n.
Proof.
  induction n as [|n IH]; intro acc.
  - cbn [repeat dval]. change (10 ^ Z.of_nat 0) with 1. lia.
  - cbn [repeat dval]. rewrite IH. rewrite Nat2Z.inj_succ, Z.pow_succ_r by lia.
    change (Z.of_N 48 - 48) with 0. ring.
Qed.

Lemma dval_zeros_l n l : dval (repeat 48%N n ++ l) 0 = dval l 0.
Proof. rewrite dval_app, dval_repeat0. reflexivity. Qed.

Lemma split_at_none c A : Forall (fun x => x <> c) A -> split_at c A = (A, None).
Proof.
  induction A as [|x A IH]; intro H; [reflexivity|].
  inversion H as [|x' A' Hx HA]; subst x' A'. cbn [split_at].
  replace (x =? c)%N with false by lia. rewrite (IH HA). reflexivity.
Qed.

Lemma split_at_some c A B : Forall (fun x => x <> c) A -> split_at c (A ++ c :: B) = (A, Some B).
Proof.
  induction A as [|x A IH]; intro H.
  - cbn [app split_at]. rewrite N.eqb_refl. reflexivity.
  - inversion H as [|x' A' Hx HA]; subst x' A'. cbn [app split_at].
    replace (x =? c)%N with false by lia. rewrite (IH HA). reflexivity.
Qed.

Lemma isd_ne c x : isd x -> (c < 48 \/ 57 < c)%N -> x <> c.
Proof. unfold isd, is_digit. lia. Qed.

Lemma Forall_isd_ne c l : (c < 48 \/ 57 < c)%N -> Forall isd l -> Forall (fun x => x <> c) l.
Proof. intros Hc H. eapply Forall_impl; [|exact H]. intros x Hx. apply isd_ne; assumption. Qed.

Definition sgz (minus x : Z) : Z := if minus =? 1 then - x else x.

Definition sign_split (s : bytes) : bool * bytes :=
  match s with
  | c :: r => if (c =? 45)%N then (true, r) else (false, s)
  | [] => (false, s)
  end.

Lemma dec_sign_eq s : (match s with 45%N :: r => (true, r) | _ => (false, s) end) = sign_split s.
Proof.
  destruct s as [|c r]; [reflexivity|]. unfold sign_split.
  destruct c as [|p]; [reflexivity|].
  do 6 (destruct p as [p|p|]; try reflexivity).
Qed.

Lemma sign_split_sgnl minus A :
  minus = 0 \/ minus = 1 -> A <> [] -> Forall isd A -> sign_split (sgnl minus ++ A) = (minus =? 1, A).
Proof.
  intros [-> | ->] Hne HA; [|reflexivity]. cbn [sgnl Z.eqb app].
  destruct A as [|c A]; [contradiction|]. inversion HA as [|c' A' Hc HA']; subst c' A'.
  unfold sign_split. replace (c =? 45)%N with false; [reflexivity|]. unfold isd, is_digit in Hc. lia.
Qed.

Lemma dec_denote_int minus A :
  minus = 0 \/ minus = 1 -> A <> [] -> Forall isd A ->
  dec_denote (sgnl minus ++ A) = Some (sgz minus (dval A 0), 0).
Proof.
  intros Hm Hne HA. unfold dec_denote. rewrite dec_sign_eq, (sign_split_sgnl minus A Hm Hne HA).
  rewrite (split_at_none 46%N A) by (apply Forall_isd_ne; [lia|exact HA]).
  destruct A as [|c A]; [contradiction|]. rewrite app_nil_r.
  rewrite (digits_val_dval _ 0 HA). reflexivity.
Qed.

Lemma dec_denote_frac minus A B :
  minus = 0 \/ minus = 1 -> A <> [] -> B <> [] -> Forall isd A -> Forall isd B ->
  dec_denote (sgnl minus ++ A ++ 46%N :: B) = Some (sgz minus (dval (A ++ B) 0), - Ln B).
Proof.
  intros Hm HneA HneB HA HB. unfold dec_denote.
  assert (Hsp : sign_split (sgnl minus ++ A ++ 46%N :: B) = (minus =? 1, A ++ 46%N :: B)).
  { destruct Hm as [-> | ->]; [|reflexivity]. cbn [sgnl Z.eqb app].
    destruct A as [|c A]; [contradiction|]. inversion HA as [|c' A' Hc HA']; subst c' A'.
    unfold sign_split. cbn [app]. replace (c =? 45)%N with false; [reflexivity|].
    unfold isd, is_digit in Hc. lia. }
  rewrite dec_sign_eq, Hsp.
  rewrite (split_at_some 46%N A B) by (apply Forall_isd_ne; [lia|exact HA]).
  destruct A as [|c A]; [contradiction|]. destruct B as [|d B]; [contradiction|].
  rewrite (digits_val_dval _ 0) by (apply Forall_app; split; assumption). reflexivity.
Qed.

Definition exp_sign_split (ex : bytes) : bool * bytes :=
  match ex with
  | c :: r => if (c =? 45)%N then (true, r) else if (c =? 43)%N then (false, r) else (false, ex)
  | [] => (false, ex)
  end.

Lemma exp_sign_eq ex :
  (match ex with 45%N :: r => (true, r) | 43%N :: r => (false, r) | _ => (false, ex) end) = exp_sign_split ex.
Proof.
  destruct ex as [|c r]; [reflexivity|]. unfold exp_sign_split.
  destruct c as [|p]; [reflexivity|].
  do 6 (destruct p as [p|p|]; try reflexivity).
Qed.

Definition noexp (c : N) : Prop := c <> 101%N /\ c <> 69%N.

Lemma split_exp_none M : Forall noexp M -> split_exp M = (M, None).
Proof.
  intro H. unfold split_exp.
  rewrite (split_at_none 101%N M) by (eapply Forall_impl; [|exact H]; intros x (Hx & _); exact Hx).
  apply split_at_none. eapply Forall_impl; [|exact H]. intros x (_ & Hx). exact Hx.
Qed.

Lemma split_exp_some M E X :
  Forall noexp M -> Forall noexp X -> E = 101%N \/ E = 69%N -> split_exp (M ++ E :: X) = (M, Some X).
Proof.
  intros HM HX HE. unfold split_exp.
  assert (HM1 : Forall (fun x => x <> 101%N) M) by (eapply Forall_impl; [|exact HM]; intros x (Hx & _); exact Hx).
  assert (HM2 : Forall (fun x => x <> 69%N) M) by (eapply Forall_impl; [|exact HM]; intros x (_ & Hx); exact Hx).
  destruct HE as [-> | ->].
  - rewrite (split_at_some 101%N M X HM1). reflexivity.
  - rewrite (split_at_none 101%N (M ++ 69%N :: X)).
    + apply split_at_some. exact HM2.
    + apply Forall_app. split; [exact HM1|]. constructor; [discriminate|].
      eapply Forall_impl; [|exact HX]. intros x (Hx & _). exact Hx.
Qed.

Lemma json_denote_noexp M v : Forall noexp M -> dec_denote M = Some v -> json_denote M = Some v.
Proof.
  intros HM Hd. unfold json_denote. rewrite (split_exp_none M HM), Hd. destruct v as [mv me]. reflexivity.
Qed.

Lemma json_denote_exp M E X mv me neg D :
  Forall noexp M -> Forall noexp X -> E = 101%N \/ E = 69%N -> dec_denote M = Some (mv, me) ->
  exp_sign_split X = (neg, D) -> D <> [] -> Forall isd D ->
  json_denote (M ++ E :: X) = Some (mv, me + (if neg then - dval D 0 else dval D 0)).
Proof.
  intros HM HX HE Hd Hs Hne HD. unfold json_denote. rewrite (split_exp_some M E X HM HX HE), Hd.
  rewrite exp_sign_eq, Hs. destruct D as [|d D]; [contradiction|].
  rewrite (digits_val_dval _ 0 HD). reflexivity.
Qed.

Lemma same_value_refl a : same_value a a = true.
Proof. destruct a as [m e]. unfold same_value. apply Z.eqb_refl. Qed.

Lemma pow10_pos k : 0 <= k -> 0 < 10 ^ k.
Proof. intro H. apply Z.pow_pos_nonneg; lia. Qed.

Lemma sv_iff m1 e1 m2 e2 e : e <= e1 -> e <= e2 ->
  (same_value (m1, e1) (m2, e2) = true <-> m1 * 10 ^ (e1 - e) = m2 * 10 ^ (e2 - e)).
Proof.
  intros H1 H2. unfold same_value. rewrite Z.eqb_eq.
  remember (Z.min e1 e2) as e0 eqn:He0.
  replace (e1 - e) with ((e1 - e0) + (e0 - e)) by lia.
  replace (e2 - e) with ((e2 - e0) + (e0 - e)) by lia.
  rewrite !Z.pow_add_r by lia. rewrite !Z.mul_assoc.
  assert (Hpos : 0 < 10 ^ (e0 - e)) by (apply pow10_pos; lia).
  split; intro H; [rewrite H; reflexivity|].
  apply Z.mul_cancel_r in H; [exact H|lia].
Qed.

Lemma pow10_neg_0 k : k < 0 -> 10 ^ k = 0.
Proof. intro H. apply Z.pow_neg_r. exact H. Qed.

Lemma same_value_trans a b c : same_value a b = true -> same_value b c = true -> same_value a c = true.
Proof.
  destruct a as [m1 e1], b as [m2 e2], c as [m3 e3]. intros H12 H23.
  remember (Z.min e1 (Z.min e2 e3)) as e eqn:He.
  apply (sv_iff m1 e1 m2 e2 e) in H12; [|lia|lia].
  apply (sv_iff m2 e2 m3 e3 e) in H23; [|lia|lia].
  apply (sv_iff m1 e1 m3 e3 e); [lia|lia|]. congruence.
Qed.

Lemma sgz_mul minus x k : sgz minus x * k = sgz minus (x * k).
Proof. unfold sgz. destruct (minus =? 1); ring. Qed.

(* ---------- the bytes the copy loop stores, as a list expression over the text ---------- *)
Definition ins_at (j : Z) (l : bytes) : bytes :=
  if (0 <=? j) && (j <? Ln l) then firstn (Z.to_nat j) l ++ 46%N :: skipn (Z.to_nat j) l else l.

(* the source bytes without the old decimal point *)
Fixpoint srcl (cnt : nat) (s : bytes) (num di n : Z) : bytes :=
  match cnt with
  | O => []
  | S c => if n =? di then srcl c s num di (n + 1) else bat s (num + n) :: srcl c s num di (n + 1)
  end.

Lemma ins_at_out j l : j < 0 \/ Ln l <= j -> ins_at j l = l.
Proof. intro H. unfold ins_at. replace ((0 <=? j) && (j <? Ln l)) with false by lia. reflexivity. Qed.

Lemma ins_at_0 c l : ins_at 0 (c :: l) = 46%N :: c :: l.
Proof. unfold ins_at. cbn [length]. replace ((0 <=? 0) && (0 <? Z.of_nat (S (length l)))) with true by lia. reflexivity. Qed.

Lemma ins_at_cons j c l : j <> 0 -> ins_at j (c :: l) = c :: ins_at (j - 1) l.
Proof.
  intro Hj. unfold ins_at. cbn [length].
  destruct ((0 <=? j) && (j <? Z.of_nat (S (length l)))) eqn:Hc.
  - replace ((0 <=? j - 1) && (j - 1 <? Ln l)) with true by lia.
    replace (Z.to_nat j) with (S (Z.to_nat (j - 1))) by lia. reflexivity.
  - replace ((0 <=? j - 1) && (j - 1 <? Ln l)) with false by lia. reflexivity.
Qed.

Lemma copy_list_eq cnt : forall s num di dp n d,
  copy_list cnt s num di dp n d = ins_at (dp - d) (srcl cnt s num di n).
Proof.
  induction cnt as [|cnt IH]; intros s num di dp n d; cbn [copy_list srcl].
  - rewrite ins_at_out by (cbn [length]; lia). reflexivity.
  - destruct (n =? di) eqn:Hn; [apply IH|]. destruct (d =? dp) eqn:Hd.
    + rewrite IH. rewrite ins_at_out by lia. replace (dp - d) with 0 by lia. rewrite ins_at_0. reflexivity.
    + rewrite IH. rewrite ins_at_cons by lia. replace (dp - (d + 1)) with (dp - d - 1) by lia. reflexivity.
Qed.

Lemma srcl_none cnt : forall s num di n,
  ~ (n <= di < n + Z.of_nat cnt) -> 0 <= num + n -> num + n + Z.of_nat cnt <= Ln s ->
  srcl cnt s num di n = sub s (num + n) (num + n + Z.of_nat cnt).
Proof.
  induction cnt as [|cnt IH]; intros s num di n Hd H0 H1; cbn [srcl].
  - rewrite sub_nil by lia. reflexivity.
  - replace (n =? di) with false by lia. rewrite (sub_cons s (num + n)) by lia.
    rewrite IH by lia. f_equal. f_equal; lia.
Qed.

Lemma srcl_some cnt : forall s num di n,
  n <= di < n + Z.of_nat cnt -> 0 <= num + n -> num + n + Z.of_nat cnt <= Ln s ->
  srcl cnt s num di n = sub s (num + n) (num + di) ++ sub s (num + di + 1) (num + n + Z.of_nat cnt).
Proof.
  induction cnt as [|cnt IH]; intros s num di n Hd H0 H1; cbn [srcl]; [lia|].
  destruct (n =? di) eqn:Hn.
  - rewrite srcl_none by lia. rewrite (sub_nil s (num + n) (num + di)) by lia. cbn [app]. f_equal; lia.
  - rewrite (sub_cons s (num + n) (num + di)) by lia. rewrite IH by lia. cbn [app]. f_equal. f_equal; f_equal; lia.
Qed.

(* ---------- the texts of the five layouts denote (m, e) ---------- *)
Definition den (minus m e : Z) (out : bytes) : Prop :=
  exists v, dec_denote out = Some v /\ same_value (sgz minus m, e) v = true.

Lemma Forall_firstn_isd n (l : bytes) : Forall isd l -> Forall isd (firstn n l).
Proof.
  intro H. rewrite <- (firstn_skipn n l) in H. apply Forall_app in H. destruct H as [H _]. exact H.
Qed.
Lemma Forall_skipn_isd n (l : bytes) : Forall isd l -> Forall isd (skipn n l).
Proof.
  intro H. rewrite <- (firstn_skipn n l) in H. apply Forall_app in H. destruct H as [_ H]. exact H.
Qed.

Lemma length_zero_nil (l : bytes) : l <> [] <-> 0 < Ln l.
Proof. destruct l; cbn [length]; split; intro H; try lia; try congruence. Qed.

Lemma Forall_repeat48 n : Forall isd (repeat 48%N n).
Proof. induction n as [|n IH]; cbn [repeat]; constructor; [reflexivity|exact IH]. Qed.

(* 0.000ddd *)
Lemma den_l1 minus Gs z :
  minus = 0 \/ minus = 1 -> Gs <> [] -> Forall isd Gs ->
  den minus (dval Gs 0) (- Z.of_nat z - Ln Gs) (sgnl minus ++ [48%N] ++ 46%N :: repeat 48%N z ++ Gs).
Proof.
  intros Hm Hne HG. unfold den.
  rewrite (dec_denote_frac minus [48%N] (repeat 48%N z ++ Gs) Hm).
  - eexists. split; [reflexivity|].
    change ([48%N] ++ repeat 48%N z ++ Gs) with (repeat 48%N (S z) ++ Gs). rewrite dval_zeros_l.
    rewrite app_length, repeat_length.
    replace (- (Z.of_nat (z + length Gs))) with (- Z.of_nat z - Ln Gs) by lia. apply same_value_refl.
  - discriminate.
  - destruct (repeat 48%N z); [exact Hne|discriminate].
  - constructor; [reflexivity|constructor].
  - apply Forall_app. split; [apply Forall_repeat48|exact HG].
Qed.

(* ddd.ddd, or ddd when the point would come last *)
Lemma den_ins minus Gs j :
  minus = 0 \/ minus = 1 -> 0 < j <= Ln Gs -> Forall isd Gs ->
  den minus (dval Gs 0) (j - Ln Gs) (sgnl minus ++ ins_at j Gs).
Proof.
  intros Hm Hj HG. unfold den. destruct (Z.eq_dec j (Ln Gs)) as [He|Hne].
  - rewrite ins_at_out by lia. rewrite (dec_denote_int minus Gs Hm); [|apply length_zero_nil; lia|exact HG].
    eexists. split; [reflexivity|]. replace (j - Ln Gs) with 0 by lia. apply same_value_refl.
  - unfold ins_at. replace ((0 <=? j) && (j <? Ln Gs)) with true by lia.
    assert (Hf : Ln (firstn (Z.to_nat j) Gs) = j) by (rewrite firstn_length; lia).
    assert (Hs : Ln (skipn (Z.to_nat j) Gs) = Ln Gs - j) by (rewrite skipn_length; lia).
    rewrite (dec_denote_frac minus _ _ Hm).
    + eexists. split; [reflexivity|]. rewrite firstn_skipn, Hs.
      replace (- (Ln Gs - j)) with (j - Ln Gs) by lia. apply same_value_refl.
    + apply length_zero_nil. lia.
    + apply length_zero_nil. lia.
    + apply Forall_firstn_isd. exact HG.
    + apply Forall_skipn_isd. exact HG.
Qed.

(* ddd000 *)
Lemma den_fill minus Gs j :
  minus = 0 \/ minus = 1 -> 0 < j -> Ln Gs <= j -> Forall isd Gs ->
  den minus (dval Gs 0) (j - Ln Gs) (sgnl minus ++ Gs ++ repeat 48%N (Z.to_nat (j - Ln Gs))).
Proof.
  intros Hm Hj Hle HG. unfold den. rewrite (dec_denote_int minus _ Hm).
  - eexists. split; [reflexivity|]. rewrite dval_app, dval_repeat0. rewrite Z2Nat.id by lia.
    apply (sv_iff _ _ _ _ 0); [lia|lia|]. rewrite sgz_mul.
    replace (j - Ln Gs - 0) with (j - Ln Gs) by lia. change (10 ^ (0 - 0)) with 1. lia.
  - apply length_zero_nil. rewrite app_length, repeat_length. lia.
  - apply Forall_app. split; [exact HG|apply Forall_repeat48].
Qed.

(* leading zeros that were dropped do not change the value *)
Lemma den_zeros minus z T e out :
  den minus (dval T 0) e out -> den minus (dval (repeat 48%N z ++ T) 0) e out.
Proof. rewrite dval_zeros_l. auto. Qed.

(* trailing zeros that were stripped are accounted for by the exponent *)
Lemma den_strip minus Gs c e out :
  den minus (dval Gs 0) e out -> den minus (dval (Gs ++ repeat 48%N c) 0) (e - Z.of_nat c) out.
Proof.
  intros (v & Hv & Hs). exists v. split; [exact Hv|].
  apply (same_value_trans _ (sgz minus (dval Gs 0), e)); [|exact Hs].
  apply (sv_iff _ _ _ _ (e - Z.of_nat c)); [lia|lia|].
  rewrite dval_app, dval_repeat0.
  replace (e - Z.of_nat c - (e - Z.of_nat c)) with 0 by lia.
  replace (e - (e - Z.of_nat c)) with (Z.of_nat c) by lia. change (10 ^ 0) with 1.
  rewrite !sgz_mul. f_equal. ring.
Qed.

(* ================= F. lyjson_exp_number ================= *)
(* the five layouts, cut out of exp_number word for word (exp_number_eq is by reflexivity) *)
Definition br1 (s : bytes) (minus num num_len : Z) (dec_point : option Z) (dp dot : Z) : jres expres :=
    let zeros := Z.abs dp in
    let buf_len := u64 (minus + 1 + dot + zeros + num_len) in
    let* b := get_buffer buf_len in
    let* (b, i) := maybe_minus b minus in
    let* b := wrb b i 48%N in
    let* b := wrb b (i + 1) 46%N in
    let* b := fillb b (i + 2) (u64 zeros) 48%N in
    let i := u32 (i + 2 + zeros) in
    let* (b, d) := copy_num_part s num num_len dec_point (-1) b i in
    finish b buf_len (i + d) 1.

Definition br2 (s : bytes) (minus num num_len dp : Z) : jres expres :=
    let num := num + 1 in
    let num_len := u16 (num_len - 1) in
    let dp := i32 (dp - 1) in
    let* zeros := count_in_row s num (num + dp + 1) 48%N false in
    let allz := zeros =? dp + 1 in
    let dp := if allz then 1 else i32 (dp + 1 - zeros) in
    let zeros := if allz then zeros - 1 else zeros in
    let dot := if allz then 1 else (if dp <? num_len - zeros then 1 else 0) in
    let buf_len := u64 (minus + dot + (num_len - zeros)) in
    let* b := get_buffer buf_len in
    let* (b, i) := maybe_minus b minus in
    let* (b, d) := copy_num_part s (num + zeros) (num_len - zeros) None dp b i in
    finish b buf_len (i + d) 2.

Definition br3 (s : bytes) (minus num num_len : Z) (dec_point : option Z) (dp dot : Z) : jres expres :=
    let buf_len := u64 (minus + dot + num_len) in
    let* b := get_buffer buf_len in
    let* (b, i) := maybe_minus b minus in
    let* (b, d) := copy_num_part s num num_len dec_point dp b i in
    finish b buf_len (i + d) 3.

Definition br4 (s : bytes) (minus num num_len dp : Z) : jres expres :=
    let num := num + 1 in
    let num_len := u16 (num_len - 1) in
    let* zeros := count_in_row s num (num + num_len) 48%N false in
    let buf_len := u64 (minus + dp - zeros) in
    let* b := get_buffer buf_len in
    let* (b, i) := maybe_minus b minus in
    let* (b, d) := copy_num_part s (num + zeros) (num_len - zeros) None dp b i in
    let i := u32 (i + d) in
    let* b := fillb b i (u64 (buf_len - i)) 48%N in
    finish b buf_len (i + u64 (buf_len - i)) 4.

Definition br5 (s : bytes) (minus num num_len : Z) (dec_point : option Z) (dp : Z) : jres expres :=
    let buf_len := u64 (minus + dp) in
    let* b := get_buffer buf_len in
    let* (b, i) := maybe_minus b minus in
    let* (b, d) := copy_num_part s num num_len dec_point dp b i in
    let i := u32 (i + d) in
    let* b := fillb b i (u64 (buf_len - i)) 48%N in
    finish b buf_len (i + u64 (buf_len - i)) 5.

Definition xdot (dec_point : option Z) (num_len dp : Z) : Z :=
  match dec_point with
  | Some _ => if i32 (num_len - 1) =? dp then -1 else 0
  | None => 1
  end.

Definition xlayout (s : bytes) (ex minus : Z) (lz : bool) (num num_len0 : Z) (dec_point : option Z) (dp cnt : Z)
  : jres expres :=
  let num_len := u16 (num_len0 - cnt) in
  let dot := xdot dec_point num_len dp in
  if dp <=? 0 then br1 s minus num num_len dec_point dp dot
  else if lz && (dp <? num_len) then br2 s minus num num_len dp
  else if dp <? num_len then br3 s minus num num_len dec_point dp dot
  else if lz then br4 s minus num num_len dp
  else br5 s minus num num_len dec_point dp.

Definition xmid (s : bytes) (ex minus : Z) (lz : bool) (e_val : Z) : jres expres :=
  let num := if lz then minus + 1 else minus in
  let num_len := u16 (ex - num) in
  let* dec_point := strnchr (Z.to_nat num_len) s num 46%N in
  let dp := i32 (match dec_point with Some p => p - num + e_val | None => num_len + e_val end) in
  let* cnt := if 0 <? dp then count_in_row s (num + dp - 1) ex 48%N true
              else count_in_row s num ex 48%N true in
  xlayout s ex minus lz num num_len dec_point dp cnt.

Lemma exp_number_eq s ex total_len :
  exp_number s ex total_len =
  if negb (2 <? total_len) then JOob else
  let* ce := rdin s ex in
  if negb ((0 <? ex) && ((ce =? 101)%N || (ce =? 69)%N)) then JOob else
  if UINT16_MAX <? ex then JErr E_LONG else
  let* (e_val, errno) := strtoll s (ex + 1) in
  if errno || (UINT16_MAX <? e_val) || (e_val <? - UINT16_MAX) then JErr E_EXP else
  let* c0 := rdin s 0 in
  let minus := if (c0 =? 45)%N then 1 else 0 in
  let* cm := rdin s minus in
  let* lz := if (cm =? 48)%N
             then (let* c1 := rdin s (minus + 1) in if (c1 =? 46)%N then JOk true else JOob)
             else JOk false in
  xmid s ex minus lz e_val.
Proof. reflexivity. Qed.

Lemma srcl_length cnt : forall s num di n, Ln (srcl cnt s num di n) = cm n (Z.of_nat cnt) di.
Proof.
  induction cnt as [|cnt IH]; intros s num di n; cbn [srcl]; [unfold cm; cbn [length]; lia|].
  destruct (n =? di) eqn:Hn; [|cbn [length]]; rewrite ?Nat2Z.inj_succ, IH; unfold cm; lia.
Qed.

(* layout 1: 0.000ddd *)
Lemma br1_good s minus num num_len dec_point dp dot :
  minus = 0 \/ minus = 1 -> 0 <= num -> 1 <= num_len <= 65535 -> num + num_len <= Ln s + 1 ->
  -131070 <= dp <= 0 ->
  match dec_point with Some p => 0 <= p - num < num_len /\ dot = 0 | None => dot = 1 end ->
  forall Gs, Gs = srcl (Z.to_nat num_len) s num (decidx dec_point num) 0 -> Gs <> [] -> Forall isd Gs ->
  xgood (den minus (dval Gs 0) (dp - Ln Gs)) (br1 s minus num num_len dec_point dp dot).
Proof.
  intros Hm Hnum Hlen Hrd Hdp Hdec Gs HGs HGne HGd. unfold br1. cbv zeta.
  assert (Hdot : 0 <= dot <= 1) by (destruct dec_point; lia).
  rewrite (u64_id (minus + 1 + dot + Z.abs dp + num_len)) by lia.
  remember (minus + 1 + dot + Z.abs dp + num_len) as buf_len eqn:Hbl.
  destruct (get_buffer_cases buf_len) as [Hg | (Hle & b0 & Hg & Hl0 & Hp0)];
    [lia|rewrite Hg; apply xgood_maxlen|].
  rewrite Hg. cbn [jbind].
  destruct (maybe_minus_step b0 minus Hm) as (b1 & He1 & Hl1 & Hp1); [lia|exact Hp0|].
  rewrite He1. cbn [jbind].
  destruct (wrb_step b1 minus _ 48%N Hp1) as (b2 & He2 & Hl2 & Hp2); [lia|].
  rewrite He2. cbn [jbind].
  destruct (wrb_step b2 (minus + 1) _ 46%N Hp2) as (b3 & He3 & Hl3 & Hp3); [lia|].
  rewrite He3. cbn [jbind].
  rewrite (u64_id (Z.abs dp)) by lia.
  replace (minus + 1 + 1) with (minus + 2) in Hp3 by lia.
  destruct (fillb_step b3 (minus + 2) _ (Z.abs dp) 48%N Hp3) as (b4 & He4 & Hl4 & Hp4); [lia|lia|].
  rewrite He4. cbn [jbind].
  rewrite (u32_id (minus + 2 + Z.abs dp)) by lia.
  destruct (copy_num_part_step s num num_len dec_point (-1) b4 _ (minus + 2 + Z.abs dp) (num_len - 1 + dot) 0 Hp4)
    as (b5 & He5 & Hl5 & Hp5).
  - exact Hnum.
  - lia.
  - exact Hrd.
  - intros p Hpe. rewrite Hpe in Hdec. lia.
  - unfold decidx, INT32_MAX. destruct dec_point; lia.
  - unfold cm, decidx, INT32_MAX. destruct dec_point; lia.
  - unfold cins. lia.
  - lia.
  - rewrite He5. cbn [jbind].
    replace (minus + 2 + Z.abs dp + (num_len - 1 + dot + 0)) with buf_len in * by lia.
    eapply finish_step; [lia|lia|exact Hp5|].
    rewrite copy_list_eq, ins_at_out by lia. rewrite <- HGs. rewrite <- !app_assoc.
    replace (dp - Ln Gs) with (- Z.of_nat (Z.to_nat (Z.abs dp)) - Ln Gs) by lia.
    exact (den_l1 minus Gs (Z.to_nat (Z.abs dp)) Hm HGne HGd).
Qed.

Lemma srcl_len_sd s num num_len dec_point :
  0 <= num_len <= 65535 ->
  (forall p, dec_point = Some p -> 0 <= p - num < num_len) ->
  Ln (srcl (Z.to_nat num_len) s num (decidx dec_point num) 0)
  = num_len - match dec_point with Some _ => 1 | None => 0 end.
Proof.
  intros Hlen Hdec. rewrite srcl_length, Z2Nat.id by lia. unfold cm, decidx, INT32_MAX.
  destruct dec_point as [p|]; [specialize (Hdec p eq_refl)|]; lia.
Qed.

(* layout 3: the decimal point moves inside the digits (no leading 0.) *)
Lemma br3_good s minus num num_len dec_point dp dot :
  minus = 0 \/ minus = 1 -> 0 <= num -> num_len <= 65535 -> num + num_len <= Ln s + 1 ->
  0 < dp < num_len ->
  match dec_point with
  | Some p => 0 <= p - num < num_len /\ p - num <> dp /\
              ((num_len - 1 = dp /\ dot = -1) \/ (num_len - 1 <> dp /\ dot = 0))
  | None => dot = 1
  end ->
  forall Gs, Gs = srcl (Z.to_nat num_len) s num (decidx dec_point num) 0 -> Forall isd Gs ->
  xgood (den minus (dval Gs 0) (dp - Ln Gs)) (br3 s minus num num_len dec_point dp dot).
Proof.
  intros Hm Hnum Hlen Hrd Hdp Hdec Gs HGs HGd. unfold br3. cbv zeta.
  assert (Hdot : -1 <= dot <= 1) by (destruct dec_point; lia).
  pose (sd := match dec_point with Some _ => 1 | None => 0 end).
  assert (HGl : Ln Gs = num_len - sd).
  { rewrite HGs. apply srcl_len_sd; [lia|]. intros p Hpe. rewrite Hpe in Hdec. lia. }
  rewrite (u64_id (minus + dot + num_len)) by lia.
  remember (minus + dot + num_len) as buf_len eqn:Hbl.
  destruct (get_buffer_cases buf_len) as [Hg | (Hle & b0 & Hg & Hl0 & Hp0)];
    [lia|rewrite Hg; apply xgood_maxlen|].
  rewrite Hg. cbn [jbind].
  destruct (maybe_minus_step b0 minus Hm) as (b1 & He1 & Hl1 & Hp1); [lia|exact Hp0|].
  rewrite He1. cbn [jbind].
  destruct (copy_num_part_step s num num_len dec_point dp b1 _ minus (num_len - sd) (dot + sd) Hp1)
    as (b5 & He5 & Hl5 & Hp5).
  - exact Hnum.
  - lia.
  - exact Hrd.
  - intros p Hpe. rewrite Hpe in Hdec. lia.
  - unfold decidx, INT32_MAX. destruct dec_point; lia.
  - unfold cm, decidx, INT32_MAX. subst sd. destruct dec_point; lia.
  - unfold cins. subst sd. destruct dec_point; lia.
  - subst sd. destruct dec_point; lia.
  - rewrite He5. cbn [jbind].
    replace (minus + (num_len - sd + (dot + sd))) with buf_len in * by lia.
    eapply finish_step; [lia|lia|exact Hp5|].
    rewrite copy_list_eq. rewrite <- HGs. replace (dp - 0) with dp by lia.
    apply den_ins; [exact Hm| |exact HGd]. subst sd. destruct dec_point; lia.
Qed.

(* layout 5: ddd or d.dd becomes an integer *)
Lemma br5_good s minus num num_len dec_point dp :
  minus = 0 \/ minus = 1 -> 0 <= num -> 0 <= num_len <= 65535 -> num + num_len <= Ln s + 1 ->
  0 < dp <= 131070 -> num_len <= dp ->
  match dec_point with
  | Some p => 0 <= p - num < num_len /\ p - num <> dp
  | None => True
  end ->
  forall Gs, Gs = srcl (Z.to_nat num_len) s num (decidx dec_point num) 0 -> Forall isd Gs ->
  xgood (den minus (dval Gs 0) (dp - Ln Gs)) (br5 s minus num num_len dec_point dp).
Proof.
  intros Hm Hnum Hlen Hrd Hdp Hge Hdec Gs HGs HGd. unfold br5. cbv zeta.
  pose (sd := match dec_point with Some _ => 1 | None => 0 end).
  assert (HGl : Ln Gs = num_len - sd).
  { rewrite HGs. apply srcl_len_sd; [lia|]. intros p Hpe. rewrite Hpe in Hdec. lia. }
  rewrite (u64_id (minus + dp)) by lia.
  remember (minus + dp) as buf_len eqn:Hbl.
  destruct (get_buffer_cases buf_len) as [Hg | (Hle & b0 & Hg & Hl0 & Hp0)];
    [lia|rewrite Hg; apply xgood_maxlen|].
  rewrite Hg. cbn [jbind].
  destruct (maybe_minus_step b0 minus Hm) as (b1 & He1 & Hl1 & Hp1); [lia|exact Hp0|].
  rewrite He1. cbn [jbind].
  destruct (copy_num_part_step s num num_len dec_point dp b1 _ minus (num_len - sd) 0 Hp1)
    as (b5 & He5 & Hl5 & Hp5).
  - exact Hnum.
  - lia.
  - exact Hrd.
  - intros p Hpe. rewrite Hpe in Hdec. lia.
  - unfold decidx, INT32_MAX. destruct dec_point; lia.
  - unfold cm, decidx, INT32_MAX. subst sd. destruct dec_point; lia.
  - unfold cins. subst sd. destruct dec_point; lia.
  - subst sd. destruct dec_point; lia.
  - rewrite He5. cbn [jbind].
    assert (Hsd : 0 <= sd <= 1 /\ sd <= num_len) by (subst sd; destruct dec_point; lia).
    clearbody sd.
    replace (num_len - sd + 0) with (Ln Gs) in * by lia.
    rewrite (u32_id (minus + Ln Gs)) by lia.
    rewrite (u64_id (buf_len - (minus + Ln Gs))) by lia.
    destruct (fillb_step b5 (minus + Ln Gs) _ (buf_len - (minus + Ln Gs)) 48%N Hp5)
      as (b6 & He6 & Hl6 & Hp6); [lia|lia|].
    rewrite He6. cbn [jbind].
    replace (minus + Ln Gs + (buf_len - (minus + Ln Gs))) with buf_len in * by lia.
    eapply finish_step; [lia|lia|exact Hp6|].
    rewrite copy_list_eq. rewrite <- HGs. rewrite ins_at_out by lia. rewrite <- app_assoc.
    replace (buf_len - (minus + Ln Gs)) with (dp - Ln Gs) by lia.
    apply den_fill; [exact Hm|lia|lia|exact HGd].
Qed.

(* the digits behind a dropped 0. : leading zeros, then the part that is copied *)
Lemma sub_zeros_split s a z e :
  0 <= a -> 0 <= z -> a + z <= e -> e <= Ln s -> (forall j, a <= j < a + z -> bat s j = 48%N) ->
  sub s a e = repeat 48%N (Z.to_nat z) ++ sub s (a + z) e.
Proof.
  intros Ha Hz He HL Hall. rewrite (sub_app s a (a + z) e) by lia.
  rewrite (sub_repeat s a (a + z) 48%N) by (try lia; exact Hall). do 2 f_equal. lia.
Qed.

Lemma srcl_plain s num n :
  0 <= num -> 0 <= n <= 65535 -> num + n <= Ln s ->
  srcl (Z.to_nat n) s num (decidx None num) 0 = sub s num (num + n).
Proof.
  intros Hnum Hn HL. unfold decidx, INT32_MAX. rewrite srcl_none by lia. f_equal; lia.
Qed.

(* layout 4: 0.ddd becomes an integer *)
Lemma br4_good s minus num num_len dp :
  Ln s < 4294967296 ->
  minus = 0 \/ minus = 1 -> 0 <= num -> 1 <= num_len <= 65535 -> num + num_len <= Ln s ->
  0 < dp <= 131070 -> num_len <= dp ->
  forall Gs, Gs = sub s (num + 1) (num + num_len) -> Forall isd Gs ->
  xgood (den minus (dval Gs 0) (dp - Ln Gs)) (br4 s minus num num_len dp).
Proof.
  intros HL Hm Hnum Hlen Hrd Hdp Hge Gs HGs HGd. unfold br4. cbv zeta.
  rewrite (u16_id (num_len - 1)) by lia.
  destruct (count_in_row_fwd s (num + 1) (num + 1 + (num_len - 1)) 48%N HL) as (zeros & Hz & Hzr & Hzall & _);
    [lia|lia|].
  rewrite Hz. cbn [jbind].
  assert (HGl : Ln Gs = num_len - 1) by (rewrite HGs, sub_length by lia; lia).
  remember (sub s (num + 1 + zeros) (num + num_len)) as T eqn:HT.
  assert (HGsplit : Gs = repeat 48%N (Z.to_nat zeros) ++ T).
  { rewrite HGs, HT. apply sub_zeros_split; try lia. exact Hzall. }
  assert (HTl : Ln T = num_len - 1 - zeros) by (rewrite HT, sub_length by lia; lia).
  assert (HTd : Forall isd T) by (rewrite HGsplit in HGd; apply Forall_app in HGd; tauto).
  rewrite (u64_id (minus + dp - zeros)) by lia.
  remember (minus + dp - zeros) as buf_len eqn:Hbl.
  destruct (get_buffer_cases buf_len) as [Hg | (Hle & b0 & Hg & Hl0 & Hp0)];
    [lia|rewrite Hg; apply xgood_maxlen|].
  rewrite Hg. cbn [jbind].
  destruct (maybe_minus_step b0 minus Hm) as (b1 & He1 & Hl1 & Hp1); [lia|exact Hp0|].
  rewrite He1. cbn [jbind].
  destruct (copy_num_part_step s (num + 1 + zeros) (num_len - 1 - zeros) None dp b1 _ minus
              (num_len - 1 - zeros) 0 Hp1) as (b5 & He5 & Hl5 & Hp5).
  - lia.
  - lia.
  - lia.
  - intros p Hpe. discriminate.
  - unfold decidx, INT32_MAX. lia.
  - unfold cm, decidx, INT32_MAX. lia.
  - unfold cins. lia.
  - lia.
  - rewrite He5. cbn [jbind].
    rewrite copy_list_eq, srcl_plain in Hp5 by lia.
    replace (num + 1 + zeros + (num_len - 1 - zeros)) with (num + num_len) in Hp5 by lia.
    rewrite <- HT in Hp5. rewrite ins_at_out in Hp5 by lia.
    replace (num_len - 1 - zeros + 0) with (Ln T) in * by lia.
    rewrite (u32_id (minus + Ln T)) by lia.
    rewrite (u64_id (buf_len - (minus + Ln T))) by lia.
    destruct (fillb_step b5 (minus + Ln T) _ (buf_len - (minus + Ln T)) 48%N Hp5)
      as (b6 & He6 & Hl6 & Hp6); [lia|lia|].
    rewrite He6. cbn [jbind].
    replace (minus + Ln T + (buf_len - (minus + Ln T))) with buf_len in * by lia.
    eapply finish_step; [lia|lia|exact Hp6|].
    rewrite <- app_assoc.
    replace (dp - Ln Gs) with (dp - zeros - Ln T) by lia. rewrite HGsplit. apply den_zeros.
    replace (buf_len - (minus + Ln T)) with (dp - zeros - Ln T) by lia.
    apply den_fill; [exact Hm|lia|lia|exact HTd].
Qed.

(* layout 2: 0.ddd with the new decimal point inside the digits (as fixed by /repo 63186d2). The lower
   bound of the all-zeros case needs that the last digit left after stripping is not 0. *)
Lemma br2_good s minus num num_len dp :
  Ln s < 4294967296 ->
  minus = 0 \/ minus = 1 -> 0 <= num -> num_len <= 65535 -> num + num_len <= Ln s ->
  0 < dp < num_len -> bat s (num + num_len - 1) <> 48%N ->
  forall Gs, Gs = sub s (num + 1) (num + num_len) -> Forall isd Gs ->
  xgood (den minus (dval Gs 0) (dp - Ln Gs)) (br2 s minus num num_len dp).
Proof.
  intros HL Hm Hnum Hlen Hrd Hdp Hlast Gs HGs HGd. unfold br2. cbv zeta.
  rewrite (u16_id (num_len - 1)) by lia. rewrite (i32_id (dp - 1)) by lia.
  destruct (count_in_row_fwd s (num + 1) (num + 1 + (dp - 1) + 1) 48%N HL) as (zeros & Hz & Hzr & Hzall & _);
    [lia|lia|].
  rewrite Hz. cbn [jbind].
  assert (HGl : Ln Gs = num_len - 1) by (rewrite HGs, sub_length by lia; lia).
  destruct (zeros =? dp - 1 + 1) eqn:Hallz.
  - (* only zeros up to the new decimal point: one of them is kept *)
    assert (Hbig : dp < num_len - 1).
    { destruct (Z_lt_ge_dec dp (num_len - 1)) as [Hlt|Hge]; [exact Hlt|]. exfalso. apply Hlast.
      apply Hzall. lia. }
    remember (sub s (num + 1 + (zeros - 1)) (num + num_len)) as T eqn:HT.
    assert (HGsplit : Gs = repeat 48%N (Z.to_nat (zeros - 1)) ++ T).
    { rewrite HGs, HT. apply sub_zeros_split; try lia. intros j Hj. apply Hzall. lia. }
    assert (HTl : Ln T = num_len - 1 - (zeros - 1)) by (rewrite HT, sub_length by lia; lia).
    assert (HTd : Forall isd T) by (rewrite HGsplit in HGd; apply Forall_app in HGd; tauto).
    replace (1 <? num_len - 1 - (zeros - 1)) with true by lia.
    rewrite (u64_id (minus + 1 + (num_len - 1 - (zeros - 1)))) by lia.
    remember (minus + 1 + (num_len - 1 - (zeros - 1))) as buf_len eqn:Hbl.
    destruct (get_buffer_cases buf_len) as [Hg | (Hle & b0 & Hg & Hl0 & Hp0)];
      [lia|rewrite Hg; apply xgood_maxlen|].
    rewrite Hg. cbn [jbind].
    destruct (maybe_minus_step b0 minus Hm) as (b1 & He1 & Hl1 & Hp1); [lia|exact Hp0|].
    rewrite He1. cbn [jbind].
    destruct (copy_num_part_step s (num + 1 + (zeros - 1)) (num_len - 1 - (zeros - 1)) None 1 b1 _ minus
                (num_len - 1 - (zeros - 1)) 1 Hp1) as (b5 & He5 & Hl5 & Hp5).
    + lia.
    + lia.
    + lia.
    + intros p Hpe. discriminate.
    + unfold decidx, INT32_MAX. lia.
    + unfold cm, decidx, INT32_MAX. lia.
    + unfold cins. lia.
    + lia.
    + rewrite He5. cbn [jbind].
      rewrite copy_list_eq, srcl_plain in Hp5 by lia.
      replace (num + 1 + (zeros - 1) + (num_len - 1 - (zeros - 1))) with (num + num_len) in Hp5 by lia.
      rewrite <- HT in Hp5.
      replace (minus + (num_len - 1 - (zeros - 1) + 1)) with buf_len in * by lia.
      eapply finish_step; [lia|lia|exact Hp5|].
      replace (dp - Ln Gs) with (1 - Ln T) by lia. rewrite HGsplit. apply den_zeros.
      replace (1 - 0) with 1 by lia. apply den_ins; [exact Hm|lia|exact HTd].
  - rewrite (i32_id (dp - 1 + 1 - zeros)) by lia.
    remember (sub s (num + 1 + zeros) (num + num_len)) as T eqn:HT.
    assert (HGsplit : Gs = repeat 48%N (Z.to_nat zeros) ++ T).
    { rewrite HGs, HT. apply sub_zeros_split; try lia. intros j Hj. apply Hzall. lia. }
    assert (HTl : Ln T = num_len - 1 - zeros) by (rewrite HT, sub_length by lia; lia).
    assert (HTd : Forall isd T) by (rewrite HGsplit in HGd; apply Forall_app in HGd; tauto).
    replace (if dp - 1 + 1 - zeros <? num_len - 1 - zeros then 1 else 0)
      with (cins 0 (dp - 1 + 1 - zeros) (num_len - 1 - zeros))
      by (unfold cins; destruct (dp - 1 + 1 - zeros <? num_len - 1 - zeros) eqn:Hc; lia).
    remember (cins 0 (dp - 1 + 1 - zeros) (num_len - 1 - zeros)) as ins eqn:Hins.
    assert (Hins01 : 0 <= ins <= 1) by (rewrite Hins; unfold cins; lia).
    rewrite (u64_id (minus + ins + (num_len - 1 - zeros))) by lia.
    remember (minus + ins + (num_len - 1 - zeros)) as buf_len eqn:Hbl.
    destruct (get_buffer_cases buf_len) as [Hg | (Hle & b0 & Hg & Hl0 & Hp0)];
      [lia|rewrite Hg; apply xgood_maxlen|].
    rewrite Hg. cbn [jbind].
    destruct (maybe_minus_step b0 minus Hm) as (b1 & He1 & Hl1 & Hp1); [lia|exact Hp0|].
    rewrite He1. cbn [jbind].
    destruct (copy_num_part_step s (num + 1 + zeros) (num_len - 1 - zeros) None (dp - 1 + 1 - zeros) b1 _ minus
                (num_len - 1 - zeros) ins Hp1) as (b5 & He5 & Hl5 & Hp5).
    + lia.
    + lia.
    + lia.
    + intros p Hpe. discriminate.
    + unfold decidx, INT32_MAX. lia.
    + unfold cm, decidx, INT32_MAX. lia.
    + exact Hins.
    + lia.
    + rewrite He5. cbn [jbind].
      rewrite copy_list_eq, srcl_plain in Hp5 by lia.
      replace (num + 1 + zeros + (num_len - 1 - zeros)) with (num + num_len) in Hp5 by lia.
      rewrite <- HT in Hp5.
      replace (minus + (num_len - 1 - zeros + ins)) with buf_len in * by lia.
      eapply finish_step; [lia|lia|exact Hp5|].
      replace (dp - Ln Gs) with (dp - zeros - Ln T) by lia. rewrite HGsplit. apply den_zeros.
      replace (dp - 1 + 1 - zeros - 0) with (dp - zeros) by lia. apply den_ins; [exact Hm|lia|exact HTd].
Qed.

Lemma srcl_point s num num_len p :
  0 <= num -> num <= p < num + num_len -> num_len <= 65535 -> num + num_len <= Ln s ->
  srcl (Z.to_nat num_len) s num (decidx (Some p) num) 0 = sub s num p ++ sub s (p + 1) (num + num_len).
Proof.
  intros Hnum Hp Hlen HL. unfold decidx. rewrite srcl_some by lia. f_equal; f_equal; lia.
Qed.

(* the choice of the layout after the useless zeros were counted. [o1] is the offset of the decimal
   point of the mantissa, or its end when there is none; the digits of the mantissa (without the point
   and without a leading 0 before it) are G, the number is +-G x 10^(dp - length G) *)
Lemma xlayout_good s ex minus (lz : bool) num o1 e_val (dec_point : option Z) dp cnt :
  Ln s < 4294967296 -> minus = 0 \/ minus = 1 ->
  num = (if lz then minus + 1 else minus) ->
  num < ex -> ex <= 65535 -> ex <= Ln s ->
  num <= o1 <= ex ->
  (forall k, num <= k < ex -> k <> o1 -> is_digit (bat s k) = true) ->
  ((o1 = ex /\ dec_point = None) \/ (o1 < ex /\ bat s o1 = 46%N /\ dec_point = Some o1)) ->
  (if lz then o1 = num else num < o1 /\ bat s num <> 48%N) ->
  (exists k, num <= k < ex /\ k <> o1 /\ bat s k <> 48%N) ->
  e_val <> 0 -> -65535 <= e_val <= 65535 ->
  dp = (o1 - num) + e_val ->
  0 <= cnt <= Z.max 0 (ex - (if 0 <? dp then num + dp - 1 else num)) ->
  (forall j, ex - cnt <= j < ex -> bat s j = 48%N) ->
  (cnt < ex - (if 0 <? dp then num + dp - 1 else num) -> bat s (ex - 1 - cnt) <> 48%N) ->
  forall G, G = sub s num o1 ++ sub s (o1 + 1) ex ->
  xgood (den minus (dval G 0) (dp - Ln G)) (xlayout s ex minus lz num (ex - num) dec_point dp cnt).
Proof.
  intros HL Hm Hnum Hlt Hex HexL Ho1 Hdig Hpt Hlz (kz & Hkz & Hkzo & Hkz48) He0 Her Hdp Hcnt Hcall Hcstop G HG.
  assert (Hnum0 : 0 <= num) by (destruct lz; lia).
  assert (Hcle : cnt <= ex - num) by (destruct (0 <? dp) eqn:Hd; lia).
  assert (Hdpr : -131070 <= dp <= 131070) by lia.
  unfold xlayout. cbv zeta. rewrite (u16_id (ex - num - cnt)) by lia.
  remember (ex - num - cnt) as num_len eqn:Hnl.
  assert (Hkzl : kz < ex - cnt).
  { destruct (Z_lt_ge_dec kz (ex - cnt)) as [Hl|Hg]; [exact Hl|]. exfalso. apply Hkz48. apply Hcall. lia. }
  assert (Hdecr : forall p, dec_point = Some p -> p = o1 /\ 0 <= p - num < num_len /\ bat s p = 46%N).
  { intros p Hpe. destruct Hpt as [(_ & Hn)|(Hl & H46 & Hs)]; [congruence|].
    assert (p = o1) by congruence. subst p. split; [reflexivity|]. split; [|exact H46]. split; [lia|].
    destruct (Z_lt_ge_dec o1 (ex - cnt)) as [Hl2|Hg]; [lia|]. exfalso.
    rewrite (Hcall o1) in H46 by lia. discriminate. }
  remember (srcl (Z.to_nat num_len) s num (decidx dec_point num) 0) as Gs eqn:HGs.
  assert (HGform : Gs = sub s num (Z.min o1 (ex - cnt)) ++ sub s (o1 + 1) (ex - cnt)).
  { rewrite HGs. destruct Hpt as [(Hoe & Hn)|(Hl & H46 & Hs)].
    - rewrite Hn. rewrite srcl_plain by lia. rewrite (sub_nil s (o1 + 1)) by lia. rewrite app_nil_r.
      f_equal; lia.
    - destruct (Hdecr o1 Hs) as (_ & Hr & _). rewrite Hs. rewrite srcl_point by lia. f_equal; f_equal; lia. }
  assert (HGsd : Forall isd Gs).
  { rewrite HGform. apply Forall_app. split; apply sub_Forall; try lia; intros k Hk; apply Hdig; lia. }
  assert (HGapp : G = Gs ++ repeat 48%N (Z.to_nat cnt)).
  { rewrite HG, HGform. destruct Hpt as [(Hoe & Hn)|(Hl & H46 & Hs)].
    - rewrite !(sub_nil s (o1 + 1)) by lia. rewrite !app_nil_r.
      rewrite (sub_app s num (ex - cnt) o1) by lia. rewrite (sub_repeat s (ex - cnt) o1 48%N) by (try lia; intros k Hk; apply Hcall; lia).
      replace (Z.min o1 (ex - cnt)) with (ex - cnt) by lia. do 2 f_equal. lia.
    - destruct (Hdecr o1 Hs) as (_ & Hr & _).
      rewrite (sub_app s (o1 + 1) (ex - cnt) ex) by lia.
      rewrite (sub_repeat s (ex - cnt) ex 48%N) by (try lia; exact Hcall).
      replace (Z.min o1 (ex - cnt)) with o1 by lia. rewrite app_assoc. do 2 f_equal. lia. }
  assert (HGsl : Ln Gs = num_len - match dec_point with Some _ => 1 | None => 0 end).
  { rewrite HGs. apply srcl_len_sd; [lia|]. intros p Hpe. apply (Hdecr p Hpe). }
  assert (HGne : Gs <> []).
  { apply length_zero_nil. rewrite HGsl. destruct dec_point as [p|]; [|lia].
    destruct (Hdecr p eq_refl) as (Hpo & Hr & _). lia. }
  apply (xgood_impl (den minus (dval Gs 0) (dp - Ln Gs))).
  { intros out Hout. rewrite HGapp, app_length, repeat_length.
    replace (dp - Z.of_nat (length Gs + Z.to_nat cnt)) with (dp - Ln Gs - Z.of_nat (Z.to_nat cnt)) by lia.
    apply den_strip. exact Hout. }
  assert (Hdot : match dec_point with
                 | Some _ => (num_len - 1 = dp /\ xdot dec_point num_len dp = -1) \/
                             (num_len - 1 <> dp /\ xdot dec_point num_len dp = 0)
                 | None => xdot dec_point num_len dp = 1
                 end).
  { unfold xdot. destruct dec_point as [p|]; [|reflexivity]. rewrite i32_id by lia.
    destruct (num_len - 1 =? dp) eqn:Hq; [left|right]; split; lia. }
  remember (xdot dec_point num_len dp) as dot eqn:Hdoteq. clear Hdoteq.
  destruct (dp <=? 0) eqn:Hdp0.
  - (* layout 1 *)
    assert (Hnl1 : 1 <= num_len) by (destruct dec_point; lia).
    apply br1_good; [exact Hm|exact Hnum0|lia|lia|lia| |exact HGs|exact HGne|exact HGsd].
    destruct dec_point as [p|]; [|exact Hdot]. destruct (Hdecr p eq_refl) as (Hpo & Hr & _). split; [exact Hr|]. lia.
  - replace (0 <? dp) with true in * by lia.
    assert (Hlast : dp < num_len -> bat s (num + num_len - 1) <> 48%N).
    { intro Hlt2. replace (num + num_len - 1) with (ex - 1 - cnt) by lia. apply Hcstop. lia. }
    destruct lz.
    + cbn [andb]. subst o1.
      assert (Hsome : dec_point = Some num) by (destruct Hpt as [(Hoe & _)|(_ & _ & Hs)]; [lia|exact Hs]).
      destruct (Hdecr num Hsome) as (_ & Hr & _).
      assert (HGsub : Gs = sub s (num + 1) (num + num_len)).
      { rewrite HGform. rewrite (sub_nil s num) by lia. cbn [app]. f_equal. lia. }
      destruct (dp <? num_len) eqn:Hin.
      * apply br2_good; [exact HL|exact Hm|exact Hnum0|lia|lia|lia|apply Hlast; lia|exact HGsub|exact HGsd].
      * apply br4_good; [exact HL|exact Hm|exact Hnum0|lia|lia|lia|lia|exact HGsub|exact HGsd].
    + cbn [andb]. destruct (dp <? num_len) eqn:Hin.
      * apply br3_good; [exact Hm|exact Hnum0|lia|lia|lia| |exact HGs|exact HGsd].
        destruct dec_point as [p|]; [|exact Hdot]. destruct (Hdecr p eq_refl) as (Hpo & Hr & _).
        split; [exact Hr|]. split; [lia|exact Hdot].
      * apply br5_good; [exact Hm|exact Hnum0|lia|lia|lia|lia| |exact HGs|exact HGsd].
        destruct dec_point as [p|]; [|exact I]. destruct (Hdecr p eq_refl) as (Hpo & Hr & _). split; [exact Hr|lia].
Qed.

Lemma xmid_tail s ex minus (lz : bool) num o1 e_val (dec_point : option Z) dp :
  Ln s < 4294967296 -> minus = 0 \/ minus = 1 ->
  num = (if lz then minus + 1 else minus) ->
  num < ex -> ex <= 65535 -> ex <= Ln s ->
  num <= o1 <= ex ->
  (forall k, num <= k < ex -> k <> o1 -> is_digit (bat s k) = true) ->
  ((o1 = ex /\ dec_point = None) \/ (o1 < ex /\ bat s o1 = 46%N /\ dec_point = Some o1)) ->
  (if lz then o1 = num else num < o1 /\ bat s num <> 48%N) ->
  (exists k, num <= k < ex /\ k <> o1 /\ bat s k <> 48%N) ->
  e_val <> 0 -> -65535 <= e_val <= 65535 ->
  dp = (o1 - num) + e_val ->
  forall G, G = sub s num o1 ++ sub s (o1 + 1) ex ->
  xgood (den minus (dval G 0) (dp - Ln G))
        (let* cnt := if 0 <? dp then count_in_row s (num + dp - 1) ex 48%N true
                     else count_in_row s num ex 48%N true in
         xlayout s ex minus lz num (ex - num) dec_point dp cnt).
Proof.
  intros HL Hm Hnum Hlt Hex HexL Ho1 Hdig Hpt Hlz Hnz He0 Her Hdp G HG.
  assert (Hnum0 : 0 <= num) by (destruct lz; lia).
  destruct (0 <? dp) eqn:Hd.
  - destruct (count_in_row_bwd s (num + dp - 1) ex 48%N HL) as (cnt & Hc & Hcr & Hcall & Hcstop); [lia|lia|].
    rewrite Hc. cbn [jbind].
    apply (xlayout_good s ex minus lz num o1 e_val dec_point dp cnt); try assumption; rewrite Hd; assumption.
  - destruct (count_in_row_bwd s num ex 48%N HL) as (cnt & Hc & Hcr & Hcall & Hcstop); [lia|lia|].
    rewrite Hc. cbn [jbind].
    apply (xlayout_good s ex minus lz num o1 e_val dec_point dp cnt); try assumption; rewrite Hd; assumption.
Qed.

Lemma xmid_good s ex minus (lz : bool) o1 e_val :
  Ln s < 4294967296 -> minus = 0 \/ minus = 1 ->
  forall num, num = (if lz then minus + 1 else minus) ->
  num < ex -> ex <= 65535 -> ex <= Ln s ->
  num <= o1 <= ex ->
  (forall k, num <= k < ex -> k <> o1 -> is_digit (bat s k) = true) ->
  (o1 = ex \/ (o1 < ex /\ bat s o1 = 46%N)) ->
  (if lz then o1 = num else num < o1 /\ bat s num <> 48%N) ->
  (exists k, num <= k < ex /\ k <> o1 /\ bat s k <> 48%N) ->
  e_val <> 0 -> -65535 <= e_val <= 65535 ->
  forall G, G = sub s num o1 ++ sub s (o1 + 1) ex ->
  xgood (den minus (dval G 0) (o1 - num + e_val - Ln G)) (xmid s ex minus lz e_val).
Proof.
  intros HL Hm num Hnum Hlt Hex HexL Ho1 Hdig Hpt Hlz Hnz He0 Her G HG. unfold xmid. cbv zeta.
  rewrite <- Hnum.
  assert (Hnum0 : 0 <= num) by (destruct lz; lia).
  rewrite (u16_id (ex - num)) by lia.
  assert (Hno46 : forall k, num <= k < ex -> k <> o1 -> bat s k <> 46%N).
  { intros k Hk Hko. specialize (Hdig k Hk Hko). unfold is_digit in Hdig. lia. }
  destruct (strnchr_spec (Z.to_nat (ex - num)) s num 46%N) as [(q & Hs & Hq & H46 & Hbefore)|(Hs & Hnone)];
    [lia|lia| |].
  - rewrite Hs. cbn [jbind].
    assert (Hqo : q = o1).
    { destruct (Z.eq_dec q o1) as [He|Hne]; [exact He|]. exfalso. apply (Hno46 q); [lia|exact Hne|exact H46]. }
    subst q. rewrite (i32_id (o1 - num + e_val)) by lia.
    apply (xmid_tail s ex minus lz num o1 e_val (Some o1) (o1 - num + e_val)); try assumption; try lia.
    right. split; [lia|]. split; [exact H46|reflexivity].
  - rewrite Hs. cbn [jbind]. rewrite (i32_id (ex - num + e_val)) by lia.
    assert (Hoe : o1 = ex).
    { destruct Hpt as [He|(Hl & H46)]; [exact He|]. exfalso. apply (Hnone o1); [lia|exact H46]. }
    subst o1.
    apply (xmid_tail s ex minus lz num ex e_val None (ex - num + e_val)); try assumption; try lia.
    left. split; reflexivity.
Qed.

(* the exponent as lyjson_exp_number() reads it with strtoll() *)
Definition exp_val (s : bytes) (ex off : Z) : Z :=
  if (bat s (ex + 1) =? 45)%N then - dval (sub s (exp_start s ex) off) 0
  else dval (sub s (exp_start s ex) off) 0.

(* lyjson_exp_number() as called by lyjson_number(): after a successful scan, mantissa and exponent both
   not zero. The text produced denotes  +- (integer digits ++ fraction digits) x 10^(exponent - fraction length) *)
Lemma exp_number_good s ex off minus o1 :
  Ln s < 4294967296 ->
  minus = (if (bat s 0 =? 45)%N then 1 else 0) -> minus < o1 -> o1 <= ex -> ex < Ln s -> 2 < off ->
  (forall k, minus <= k < o1 -> is_digit (bat s k) = true) ->
  (bat s minus = 48%N -> o1 = minus + 1) ->
  ((ex = o1 /\ bat s o1 <> 46%N) \/
   (bat s o1 = 46%N /\ o1 + 1 < ex /\ forall k, o1 < k < ex -> is_digit (bat s k) = true)) ->
  bat s ex = 101%N \/ bat s ex = 69%N ->
  (exists k, minus <= k < ex /\ bat s k <> 48%N /\
             (bat s minus = 48%N -> bat s (minus + 1) = 46%N -> minus + 2 <= k)) ->
  exp_start s ex < off -> off <= Ln s ->
  (forall k, exp_start s ex <= k < off -> is_digit (bat s k) = true) ->
  is_digit (bat s off) = false ->
  (exists k, exp_start s ex <= k < off /\ bat s k <> 48%N) ->
  xgood (den minus (dval (sub s minus o1 ++ sub s (o1 + 1) ex) 0) (exp_val s ex off - Ln (sub s (o1 + 1) ex)))
        (exp_number s ex off).
Proof.
  intros HL Hm Hlt Ho1 HexL Hoff Hint H48o Hfrac Hce (kz & Hkz & Hkz48 & Hkz2) Hes HoffL Hed Hend (k & Hk & Hk48).
  assert (Hm01 : minus = 0 \/ minus = 1) by (destruct (bat s 0 =? 45)%N; lia).
  assert (H48 : bat s minus = 48%N -> bat s (minus + 1) = 46%N).
  { intro Hz. specialize (H48o Hz). destruct Hfrac as [(Heq & Hn46)|(H46 & _)].
    - exfalso. apply Hkz48. replace kz with minus by lia. exact Hz.
    - rewrite <- H48o. exact H46. }
  rewrite exp_number_eq. replace (negb (2 <? off)) with false by lia.
  rewrite rdin_ok by lia. cbn [jbind].
  replace (negb ((0 <? ex) && ((bat s ex =? 101)%N || (bat s ex =? 69)%N))) with false by lia.
  unfold UINT16_MAX. destruct (65535 <? ex) eqn:Hlong; [cbn [xgood]; discriminate|].
  unfold strtoll. rewrite rdin_ok by lia. cbn [jbind]. fold (exp_start s ex).
  assert (Hes' : (if (bat s (ex + 1) =? 45)%N || (bat s (ex + 1) =? 43)%N then ex + 1 + 1 else ex + 1) = exp_start s ex).
  { unfold exp_start. destruct (bat s (ex + 1) =? 45)%N, (bat s (ex + 1) =? 43)%N; cbn [orb]; lia. }
  rewrite Hes'.
  assert (Hes0 : ex + 1 <= exp_start s ex) by (unfold exp_start; destruct ((bat s (ex + 1) =? 43)%N || (bat s (ex + 1) =? 45)%N); lia).
  destruct (acc_digits_spec (S (length s)) s (exp_start s ex) 0) as (a & Ha & Hage & Hapos); [lia|lia|lia|].
  assert (Hap : 0 < a).
  { apply (Hapos k); [lia| |exact Hk48]. intros j Hj. apply Hed. lia. }
  rewrite (acc_digits_dval (S (length s)) s (exp_start s ex) 0 off) in Ha by (try lia; assumption).
  injection Ha as Ha. rewrite (acc_digits_dval (S (length s)) s (exp_start s ex) 0 off) by (try lia; assumption).
  cbn [jbind]. unfold exp_val. rewrite Ha. clear Ha.
  unfold LLONG_MAX, LLONG_MIN.
  remember (if (bat s (ex + 1) =? 45)%N then - a else a) as v eqn:Hv.
  assert (Hv0 : v <> 0) by (destruct (bat s (ex + 1) =? 45)%N; lia).
  destruct (9223372036854775807 <? v) eqn:Hmax; [cbn [jbind orb xgood]; discriminate|].
  destruct (v <? -9223372036854775808) eqn:Hmin; [cbn [jbind orb xgood]; discriminate|].
  cbn [jbind orb].
  match goal with |- xgood _ (if ?c then _ else _) => destruct c eqn:Hrange end; [cbn [xgood]; discriminate|].
  rewrite rdin_ok by lia. cbn [jbind]. rewrite <- Hm.
  assert (Hml : minus <= Ln s) by lia.
  rewrite rdin_ok by lia. cbn [jbind].
  assert (Hvr : -65535 <= v <= 65535) by lia.
  assert (Hexr : ex <= 65535) by lia.
  clear Hrange Hmax Hmin Hes' Hapos Hv Hm Hlong Hap Hage Hes0 Hk Hk48 Hend.
  assert (HFl : Ln (sub s (o1 + 1) ex) = Z.max 0 (ex - (o1 + 1))).
  { destruct (Z_le_gt_dec ex (o1 + 1)) as [Hle|Hgt]; [rewrite sub_nil by lia; cbn [length]; lia|].
    rewrite sub_length by lia. lia. }
  destruct (bat s minus =? 48)%N eqn:Hz.
  - rewrite rdin_ok by lia. cbn [jbind].
    replace (bat s (minus + 1) =? 46)%N with true by lia. cbn [jbind].
    assert (Ho : o1 = minus + 1) by (apply H48o; lia).
    assert (H46 : bat s o1 = 46%N) by (rewrite Ho; apply H48; lia).
    destruct Hfrac as [(Heq & Hn46)|(_ & Hfl & Hfd)]; [contradiction|].
    rewrite Ho. rewrite (sub_one s minus) by lia.
    replace (bat s minus) with 48%N by lia.
    change ([48%N] ++ sub s (minus + 1 + 1) ex) with (repeat 48%N 1 ++ sub s (minus + 1 + 1) ex).
    rewrite dval_zeros_l.
    pose proof (xmid_good s ex minus true (minus + 1) v HL Hm01 (minus + 1) eq_refl) as Hx.
    rewrite (sub_nil s (minus + 1) (minus + 1)) in Hx by lia. cbn [app] in Hx.
    replace (v - Ln (sub s (minus + 1 + 1) ex))
      with (minus + 1 - (minus + 1) + v - Ln (sub s (minus + 1 + 1) ex)) by lia.
    apply Hx; try lia.
    + intros j Hj Hjo. apply Hfd. lia.
    + exists kz. split; [|split; [|exact Hkz48]]; specialize (Hkz2 ltac:(lia) ltac:(rewrite <- Ho; exact H46)); lia.
    + reflexivity.
  - cbn [jbind].
    pose proof (xmid_good s ex minus false o1 v HL Hm01 minus eq_refl) as Hx.
    replace (v - Ln (sub s (o1 + 1) ex))
      with (o1 - minus + v - Ln (sub s minus o1 ++ sub s (o1 + 1) ex))
      by (rewrite app_length, Nat2Z.inj_add, sub_length by lia; lia).
    apply Hx; try lia.
    + intros j Hj Hjo. destruct (Z_lt_ge_dec j o1) as [Hl|Hg]; [apply Hint; lia|].
      destruct Hfrac as [(Heq & _)|(_ & _ & Hfd)]; [lia|apply Hfd; lia].
    + exists minus. split; [lia|]. split; lia.
    + reflexivity.
Qed.

(* ================= G. lyjson_number ================= *)
Lemma all_init_map_Some (l : bytes) : all_init (map Some l) = true.
Proof. induction l as [|c l IH]; cbn [map all_init forallb]; [reflexivity|exact IH]. Qed.

Lemma cells_bytes_map_Some (l : bytes) : cells_bytes (map Some l) = l.
Proof. unfold cells_bytes. rewrite map_map. apply map_id. Qed.

Lemma same_value_zero e1 e2 : same_value (0, e1) (0, e2) = true.
Proof. unfold same_value. rewrite !Z.mul_0_l. reflexivity. Qed.

Lemma sgz_0 minus : sgz minus 0 = 0.
Proof. unfold sgz. destruct (minus =? 1); reflexivity. Qed.

(* ---------- the accepted text as lists ---------- *)
Lemma sub_sign s minus :
  minus = (if (bat s 0 =? 45)%N then 1 else 0) -> minus <= Ln s -> sub s 0 minus = sgnl minus.
Proof.
  intros Hm HL. destruct (bat s 0 =? 45)%N eqn:H45; subst minus.
  - rewrite (sub_cons s 0 1) by lia. rewrite sub_nil by lia. unfold sgnl. cbn [Z.eqb Pos.eqb]. f_equal. lia.
  - rewrite sub_nil by lia. reflexivity.
Qed.

Section Mantissa.
  Variables (s : bytes) (minus o1 o2 : Z).
  Hypothesis Hf : lexfacts s minus o1 o2.
  Hypothesis HL : o2 <= Ln s.

  Let I := sub s minus o1.
  Let F := sub s (o1 + 1) o2.

  Lemma mant_m01 : minus = 0 \/ minus = 1.
  Proof. destruct Hf as (Hm & _). destruct (bat s 0 =? 45)%N; lia. Qed.

  Lemma mant_order : 0 <= minus /\ minus < o1 /\ o1 <= o2.
  Proof. pose proof mant_m01. destruct Hf as (Hm & Hlt & _ & _ & [(He & _)|(_ & Hl & _)]); lia. Qed.

  Lemma mant_I : Forall isd I /\ I <> [].
  Proof.
    pose proof mant_order as Ho. destruct Hf as (Hm & Hlt & Hd & _). split.
    - apply sub_Forall; [lia|lia|exact Hd].
    - apply length_zero_nil. unfold I. rewrite sub_length by lia. lia.
  Qed.

  Lemma mant_F : Forall isd F.
  Proof.
    pose proof mant_order as Ho. destruct Hf as (_ & _ & _ & _ & [(He & _)|(_ & Hl & Hd)]).
    - unfold F. rewrite sub_nil by lia. constructor.
    - apply sub_Forall; [lia|lia|]. intros k Hk. apply Hd. lia.
  Qed.

  Lemma mant_text :
    sub s 0 o2 = sgnl minus ++ I ++ (if o2 =? o1 then [] else 46%N :: F).
  Proof.
    pose proof mant_order as Ho. destruct Hf as (Hm & Hlt & _ & _ & Hfr).
    rewrite (sub_app s 0 minus o2) by lia. rewrite (sub_sign s minus Hm) by lia. f_equal.
    rewrite (sub_app s minus o1 o2) by lia. fold I. f_equal.
    destruct Hfr as [(He & _)|(H46 & Hl & _)].
    - replace (o2 =? o1) with true by lia. apply sub_nil. lia.
    - replace (o2 =? o1) with false by lia. rewrite sub_cons by lia. rewrite H46. reflexivity.
  Qed.

  Lemma mant_denote :
    dec_denote (sub s 0 o2) = Some (sgz minus (dval (I ++ F) 0), - Ln F).
  Proof.
    pose proof mant_order as Ho. pose proof mant_m01 as Hm01. destruct mant_I as (HId & HIne).
    pose proof mant_F as HFd. rewrite mant_text. destruct Hf as (_ & _ & _ & _ & Hfr).
    destruct Hfr as [(He & _)|(H46 & Hl & _)].
    - replace (o2 =? o1) with true by lia. rewrite app_nil_r.
      assert (HFn : F = []) by (apply sub_nil; lia). rewrite HFn, app_nil_r.
      apply dec_denote_int; assumption.
    - replace (o2 =? o1) with false by lia. apply dec_denote_frac; try assumption.
      apply length_zero_nil. unfold F. rewrite sub_length by lia. lia.
  Qed.

  Lemma mant_noexp : Forall noexp (sub s 0 o2).
  Proof.
    pose proof mant_m01 as Hm01. destruct mant_I as (HId & _). pose proof mant_F as HFd.
    assert (Hdn : forall l, Forall isd l -> Forall noexp l).
    { intros l Hl. eapply Forall_impl; [|exact Hl]. intros c Hc. unfold isd, is_digit in Hc. unfold noexp. lia. }
    rewrite mant_text. apply Forall_app. split.
    - destruct Hm01 as [-> | ->]; [constructor|]. constructor; [unfold noexp; lia|constructor].
    - apply Forall_app. split; [apply Hdn; exact HId|].
      destruct (o2 =? o1); [constructor|]. constructor; [unfold noexp; lia|apply Hdn; exact HFd].
  Qed.
End Mantissa.

Lemma json_text_noexp s minus o1 o2 :
  lexfacts s minus o1 o2 -> o2 <= Ln s ->
  json_denote (sub s 0 o2)
  = Some (sgz minus (dval (sub s minus o1 ++ sub s (o1 + 1) o2) 0), - Ln (sub s (o1 + 1) o2)).
Proof.
  intros Hf HL. apply json_denote_noexp; [apply (mant_noexp s minus o1 o2 Hf HL)|apply mant_denote; assumption].
Qed.

Lemma json_text_exp s minus o1 o2 off :
  lexfacts s minus o1 o2 -> o2 < Ln s -> bat s o2 = 101%N \/ bat s o2 = 69%N ->
  exp_start s o2 < off -> off <= Ln s ->
  (forall k, exp_start s o2 <= k < off -> is_digit (bat s k) = true) ->
  json_denote (sub s 0 off)
  = Some (sgz minus (dval (sub s minus o1 ++ sub s (o1 + 1) o2) 0),
          - Ln (sub s (o1 + 1) o2) + exp_val s o2 off).
Proof.
  intros Hf HL Hce Hes HoffL Hed.
  pose proof (mant_order s minus o1 o2 Hf) as Ho.
  assert (Hes0 : o2 + 1 <= exp_start s o2 <= o2 + 2)
    by (unfold exp_start; destruct ((bat s (o2 + 1) =? 43)%N || (bat s (o2 + 1) =? 45)%N); lia).
  rewrite (sub_app s 0 o2 off) by lia. rewrite (sub_cons s o2 off) by lia.
  assert (HDd : Forall isd (sub s (exp_start s o2) off)) by (apply sub_Forall; [lia|lia|exact Hed]).
  assert (HDne : sub s (exp_start s o2) off <> []) by (apply length_zero_nil; rewrite sub_length by lia; lia).
  assert (Hdn : forall l, Forall isd l -> Forall noexp l).
  { intros l Hl. eapply Forall_impl; [|exact Hl]. intros c Hc. unfold isd, is_digit in Hc. unfold noexp. lia. }
  apply (json_denote_exp _ _ _ _ _ (bat s (o2 + 1) =? 45)%N (sub s (exp_start s o2) off)).
  - apply (mant_noexp s minus o1 o2 Hf). lia.
  - rewrite (sub_cons s (o2 + 1) off) by lia. unfold exp_start in *.
    destruct ((bat s (o2 + 1) =? 43)%N || (bat s (o2 + 1) =? 45)%N) eqn:Hsg.
    + constructor; [unfold noexp; lia|]. replace (o2 + 1 + 1) with (o2 + 2) by lia. apply Hdn. exact HDd.
    + rewrite <- (sub_cons s (o2 + 1) off) by lia. apply Hdn. exact HDd.
  - destruct Hce as [-> | ->]; [left|right]; reflexivity.
  - apply mant_denote; [exact Hf|lia].
  - rewrite (sub_cons s (o2 + 1) off) by lia. unfold exp_sign_split, exp_start in *.
    destruct (bat s (o2 + 1) =? 45)%N eqn:H45.
    + cbn [orb] in *. rewrite orb_true_r in *. replace (o2 + 1 + 1) with (o2 + 2) by lia. reflexivity.
    + destruct (bat s (o2 + 1) =? 43)%N eqn:H43; cbn [orb] in *.
      * replace (o2 + 1 + 1) with (o2 + 2) by lia. reflexivity.
      * rewrite <- (sub_cons s (o2 + 1) off) by lia. reflexivity.
  - exact HDne.
  - exact HDd.
Qed.

(* ---------- the four outcomes of lyjson_number ---------- *)
Definition ngood (s : bytes) (r : jres numres) : Prop :=
  match r with
  | JOk r => (forall x, n_exp r = Some x ->
                Z.of_nat (length (x_buf x)) = x_len x + 1 /\ 0 <= x_len x < 22 /\ x_end x = x_len x) /\
             all_init (n_value r) = true /\ denotes_ok s r = true
  | JErr e => e <> E_FUEL
  | JOob => False
  end.

Lemma denotes_intro s r out a b :
  n_value r = map Some out -> json_denote (firstn (Z.to_nat (n_consumed r)) s) = Some a ->
  dec_denote out = Some b -> same_value a b = true ->
  all_init (n_value r) = true /\ denotes_ok s r = true.
Proof.
  intros Hv Hj Hd Hs. unfold denotes_ok. rewrite Hv, all_init_map_Some, cells_bytes_map_Some, Hj, Hd.
  split; [reflexivity|exact Hs].
Qed.

Lemma ngood_slice s n off a b :
  json_denote (sub s 0 off) = Some a -> dec_denote (sub s 0 n) = Some b -> same_value a b = true ->
  ngood s (JOk {| n_value := slice s 0 n; n_consumed := off; n_dynamic := false; n_exp := None |}).
Proof.
  intros Hj Hd Hs. cbn [ngood n_exp]. split; [intros x Hx; discriminate|].
  apply (denotes_intro s _ (sub s 0 n) a b); cbn [n_value n_consumed].
  - apply slice_sub.
  - rewrite <- sub_firstn. exact Hj.
  - exact Hd.
  - exact Hs.
Qed.

Lemma dval_all_zero s a b :
  0 <= a -> b <= Ln s -> (forall j, a <= j < b -> bat s j = 48%N) -> forall acc, dval (sub s a b) acc = acc * 10 ^ Z.of_nat (Z.to_nat (b - a)).
Proof. intros Ha Hb Hall acc. rewrite (sub_repeat s a b 48%N Ha Hb Hall). apply dval_repeat0. Qed.

Lemma nz_start_exp s ex : nz_start s (ex + 1) = exp_start s ex.
Proof.
  unfold nz_start, exp_start. destruct (bat s (ex + 1) =? 45)%N, (bat s (ex + 1) =? 43)%N; cbn [orb]; lia.
Qed.

Lemma number_post_good s lx : Ln s < 4294967296 -> lexok s lx -> ngood s (number_post s lx).
Proof.
  intros HL Hlx. destruct lx as [minus o1 o2 lexp off]. unfold lexok in Hlx.
  cbn [l_minus l_o1 l_o2 l_exp l_off] in Hlx.
  destruct Hlx as (Hf & Ho2 & HoffL & Hexp).
  pose proof (mant_order s minus o1 o2 Hf) as Hord.
  pose proof (mant_m01 s minus o1 o2 Hf) as Hm01.
  pose proof Hf as (Hm & Hlt & Hdm & H48 & Hfrac).
  unfold number_post. cbn [l_minus l_o1 l_o2 l_exp l_off].
  assert (He : match lexp with Some e => e | None => off end = o2).
  { destruct lexp as [ex|]; [destruct Hexp as (Hex & _); exact Hex|destruct Hexp as (Hex & _); exact Hex]. }
  rewrite He.
  assert (Hnz : nz_start s 0 = minus).
  { unfold nz_start. destruct (bat s 0 =? 45)%N eqn:H45; cbn [orb]; [lia|].
    destruct (bat s 0 =? 43)%N eqn:H43; [|lia]. exfalso.
    specialize (Hdm minus ltac:(lia)). rewrite Hm in Hdm. unfold is_digit in Hdm. lia. }
  (* the text that was accepted denotes (mv, me) *)
  assert (Hjson : exists me, json_denote (sub s 0 off)
                    = Some (sgz minus (dval (sub s minus o1 ++ sub s (o1 + 1) o2) 0), me) /\
                    match lexp with
                    | Some ex => me = - Ln (sub s (o1 + 1) o2) + exp_val s o2 off
                    | None => me = - Ln (sub s (o1 + 1) o2)
                    end).
  { destruct lexp as [ex|].
    - destruct Hexp as (Hex & Hce & Hes & Hed & Hend). subst ex.
      assert (Hes0 : o2 + 1 <= exp_start s o2)
        by (unfold exp_start; destruct ((bat s (o2 + 1) =? 43)%N || (bat s (o2 + 1) =? 45)%N); lia).
      eexists. split; [apply json_text_exp; try assumption; lia|reflexivity].
    - destruct Hexp as (Hoff & _). rewrite Hoff. eexists. split; [apply json_text_noexp; [exact Hf|lia]|reflexivity]. }
  destruct Hjson as (me & Hjson & Hme).
  destruct (number_is_zero_spec s 0 o2) as (z & Hz & Hzf & Hzt); [exact HL|lia|lia|lia|lia|].
  rewrite Hz. cbn [jbind]. destruct z.
  { (* the mantissa is zero: `0` or `-0` *)
    destruct (Hzt eq_refl) as (Hz48 & Hzall). rewrite Hnz in Hz48, Hzall. specialize (H48 Hz48).
    assert (Hmz : dval (sub s minus o1 ++ sub s (o1 + 1) o2) 0 = 0).
    { rewrite dval_app. rewrite H48. rewrite (sub_one s minus) by lia. rewrite Hz48. cbn [dval].
      change (10 * 0 + (Z.of_N 48 - 48)) with 0.
      destruct Hfrac as [(Heq & Hn46)|(H46 & Hfl & Hfd)].
      - rewrite sub_nil by lia. reflexivity.
      - destruct Hzall as [(_ & Hall)|(Hc & _)]; [|rewrite <- H48 in Hc; contradiction].
        rewrite dval_all_zero; [lia|lia|lia|]. intros j Hj. apply Hall. lia. }
    rewrite Hmz, sgz_0 in Hjson.
    apply (ngood_slice s (minus + 1) off (0, me) (sgz minus (dval [48%N] 0), 0)); [exact Hjson| |].
    - rewrite (sub_app s 0 minus (minus + 1)) by lia. rewrite (sub_sign s minus Hm) by lia.
      rewrite (sub_one s minus) by lia. rewrite Hz48.
      apply dec_denote_int; [exact Hm01|discriminate|]. constructor; [reflexivity|constructor].
    - cbn [dval]. change (10 * 0 + (Z.of_N 48 - 48)) with 0. rewrite sgz_0. apply same_value_zero. }
  destruct (Hzf eq_refl) as (k & Hk & Hk48 & Hk2). rewrite Hnz in Hk, Hk2.
  pose proof (mant_denote s minus o1 o2 Hf ltac:(lia)) as Hmant.
  destruct lexp as [ex|].
  - destruct Hexp as (Hex & Hce & Hes & Hed & Hend). subst ex.
    assert (Hes0 : o2 + 1 <= exp_start s o2)
      by (unfold exp_start; destruct ((bat s (o2 + 1) =? 43)%N || (bat s (o2 + 1) =? 45)%N); lia).
    destruct (number_is_zero_spec s (o2 + 1) off) as (ze & Hze & Hzef & Hzet);
      [exact HL|lia|lia|lia|rewrite nz_start_exp; lia|].
    rewrite Hze. cbn [jbind]. destruct ze.
    { (* the exponent is zero: the mantissa as it stands *)
      destruct (Hzet eq_refl) as (Hz48 & Hzall). rewrite nz_start_exp in Hz48, Hzall.
      assert (Hall : forall j, exp_start s o2 <= j < off -> bat s j = 48%N).
      { destruct Hzall as [(H46 & _)|(_ & Hall)]; [|exact Hall].
        intros j Hj. destruct (Z.eq_dec j (exp_start s o2)) as [->|Hne]; [exact Hz48|].
        specialize (Hed (exp_start s o2 + 1) ltac:(lia)). rewrite H46 in Hed. discriminate. }
      assert (Hev : exp_val s o2 off = 0).
      { unfold exp_val. rewrite dval_all_zero; [|lia|lia|exact Hall]. destruct (bat s (o2 + 1) =? 45)%N; lia. }
      rewrite Hme, Hev, Z.add_0_r in Hjson.
      apply (ngood_slice s o2 off _ _ Hjson Hmant). apply same_value_refl. }
    destruct (Hzef eq_refl) as (k2 & Hk2r & Hk248 & _). rewrite nz_start_exp in Hk2r.
    assert (Hx : xgood (den minus (dval (sub s minus o1 ++ sub s (o1 + 1) o2) 0)
                            (exp_val s o2 off - Ln (sub s (o1 + 1) o2))) (exp_number s o2 off)).
    { apply (exp_number_good s o2 off minus o1); try assumption; try lia.
      - exists k. split; [lia|]. split; [exact Hk48|exact Hk2].
      - exists k2. split; [lia|exact Hk248]. }
    destruct (exp_number s o2 off) as [x|e|]; cbn [xgood] in Hx; [|exact Hx|contradiction].
    cbn [jbind ngood n_exp].
    destruct Hx as (Hx1 & Hx2 & Hx3 & out & Hout & v & Hv & Hsv).
    split; [intros x' Hx'; injection Hx' as <-; split; [exact Hx1|split; [exact Hx2|exact Hx3]]|].
    eapply (denotes_intro s _ out _ v); cbn [n_value n_consumed].
    + exact Hout.
    + rewrite <- sub_firstn. exact Hjson.
    + exact Hv.
    + rewrite Hme. replace (- Ln (sub s (o1 + 1) o2) + exp_val s o2 off)
        with (exp_val s o2 off - Ln (sub s (o1 + 1) o2)) by lia. exact Hsv.
  - destruct Hexp as (Hoff & _). subst off. rewrite Hme in Hjson.
    unfold LY_NUMBER_MAXLEN. destruct (22 <? o2); [cbn [ngood]; discriminate|].
    apply (ngood_slice s o2 o2 _ _ Hjson Hmant). apply same_value_refl.
Qed.

Lemma number_good s : Ln s < 4294967296 -> ngood s (number s).
Proof.
  intro HL. unfold number. pose proof (lex_number_spec s) as Hlex.
  destruct (lex_number s) as [lx|e|]; cbn [lgood] in Hlex; cbn [jbind].
  - apply number_post_good; assumption.
  - exact Hlex.
  - contradiction.
Qed.

Lemma number_c_good s : Ln s < 4294967296 -> ngood (cstr s) (number_c s).
Proof.
  intro HL. unfold number_c. apply number_good. pose proof (cstr_length s). lia.
Qed.

(* every read is inside the text and its NUL, every store inside the block obtained from malloc(), no
   assert() fires, the loops end within the fuel *)
Theorem number_c_no_oob :
  forall s : bytes, (Z.of_nat (length s) < 4294967296)%Z ->
    number_c s <> JOob /\ number_c s <> JErr E_FUEL.
Proof.
  intros s HL. pose proof (number_c_good s HL) as Hg.
  destruct (number_c s) as [r|e|]; cbn [ngood] in Hg.
  - split; discriminate.
  - split; [discriminate|]. intro Heq. injection Heq as ->. apply Hg. reflexivity.
  - contradiction.
Qed.

(* the block has buf_len + 1 bytes, exactly buf_len bytes are stored before the NUL, and the value handed
   on has no byte that was not written *)
Theorem number_c_len_exact :
  forall s : bytes, (Z.of_nat (length s) < 4294967296)%Z ->
  forall r x, number_c s = JOk r -> n_exp r = Some x ->
    Z.of_nat (length (x_buf x)) = x_len x + 1 /\ 0 <= x_len x < 22 /\ x_end x = x_len x /\
    all_init (n_value r) = true.
Proof.
  intros s HL r x Hr Hx. pose proof (number_c_good s HL) as Hg. rewrite Hr in Hg.
  cbn [ngood] in Hg. destruct Hg as (Hxp & Hinit & _). destruct (Hxp x Hx) as (H1 & H2 & H3).
  split; [exact H1|]. split; [exact H2|]. split; [exact H3|exact Hinit].
Qed.

(* for every accepted text the decimal string produced denotes mantissa x 10^exponent *)
Theorem number_c_denotes :
  forall s : bytes, (Z.of_nat (length s) < 4294967296)%Z ->
  forall r, number_c s = JOk r -> denotes_ok (cstr s) r = true.
Proof.
  intros s HL r Hr. pose proof (number_c_good s HL) as Hg. rewrite Hr in Hg.
  cbn [ngood] in Hg. destruct Hg as (_ & _ & Hd). exact Hd.
Qed.

(* ================= H. regression witnesses, finite sweep ================= *)
(* 0.5E1  0.55E1  0.055E2  0.0055E3  0.123456E3 : the inputs that layout 2 got wrong before /repo 63186d2 *)
Definition w_05E1 : bytes := [48;46;53;69;49]%N.
Definition w_055E1 : bytes := [48;46;53;53;69;49]%N.
Definition w_0055E2 : bytes := [48;46;48;53;53;69;50]%N.
Definition w_00055E3 : bytes := [48;46;48;48;53;53;69;51]%N.
Definition w_0123456E3 : bytes := [48;46;49;50;51;52;53;54;69;51]%N.

Definition value_of (s : bytes) : list cell :=
  match number_c s with JOk r => n_value r | _ => [] end.
Definition denotes_of (s : bytes) : bool :=
  match number_c s with JOk r => denotes_ok (cstr s) r | _ => false end.

Lemma former_witnesses :
  value_of w_05E1 = [Some 53%N] /\
  value_of w_055E1 = [Some 53%N; Some 46%N; Some 53%N] /\
  value_of w_0055E2 = [Some 53%N; Some 46%N; Some 53%N] /\
  value_of w_00055E3 = [Some 53%N; Some 46%N; Some 53%N] /\
  value_of w_0123456E3 = [Some 49%N; Some 50%N; Some 51%N; Some 46%N; Some 52%N; Some 53%N; Some 54%N] /\
  map denotes_of [w_05E1; w_055E1; w_0055E2; w_00055E3; w_0123456E3] = [true; true; true; true; true].
Proof. vm_compute. repeat split. Qed.

(* all strings of at most five characters over  0 1 5 - + . E e *)
Definition sweep_alphabet : bytes := [48;49;53;45;43;46;69;101]%N.

Fixpoint all_strs (n : nat) (f : bytes -> bool) : bool :=
  f [] && match n with
          | O => true
          | S k => forallb (fun c => all_strs k (fun t => f (c :: t))) sweep_alphabet
          end.

Lemma all_strs_spec n : forall f, all_strs n f = true ->
  forall t, (length t <= n)%nat -> Forall (fun c => In c sweep_alphabet) t -> f t = true.
Proof.
  induction n as [|n IH]; intros f H t Hl Hin; cbn [all_strs] in H; apply andb_true_iff in H;
    destruct H as [H0 H].
  - destruct t as [|c t]; [exact H0|]. cbn [length] in Hl. lia.
  - destruct t as [|c t]; [exact H0|]. inversion Hin as [|c' t' Hc Ht]; subst c' t'.
    rewrite forallb_forall in H. specialize (H c Hc).
    apply (IH (fun t => f (c :: t)) H t); [cbn [length] in Hl; lia|exact Ht].
Qed.

Definition sweep_ok (s : bytes) : bool :=
  match number_c s with
  | JOk r => denotes_ok (cstr s) r
  | _ => true
  end.

Lemma sweep_all : all_strs 5 sweep_ok = true.
Proof. vm_cast_no_check (eq_refl true). Qed.

(* the same statement as number_c_denotes on a finite set, by computation only: an independent check of
   the proof above and of the specification side (json_denote, dec_denote, same_value) *)
Lemma denotes_bounded :
  forall s, (length s <= 5)%nat -> Forall (fun c => In c sweep_alphabet) s ->
  forall r, number_c s = JOk r -> denotes_ok (cstr s) r = true.
Proof.
  intros s Hl Hin r Hr. pose proof (all_strs_spec 5 sweep_ok sweep_all s Hl Hin) as Hs.
  unfold sweep_ok in Hs. rewrite Hr in Hs. exact Hs.
Qed.

(* the sweep meets every layout: 1E-1 (1), 0.1E1 (2), 15E-1 (3), 0.1E5 (4), 1E1 (5) *)
Lemma sweep_layouts :
  map (fun s => match number_c s with
                | JOk r => match n_exp r with Some x => x_branch x | None => 0%N end
                | _ => 0%N end)
      [[49;69;45;49]; [48;46;49;69;49]; [49;53;69;45;49]; [48;46;49;69;53]; [49;69;49]]%N
  = [1; 2; 3; 4; 5]%N.
Proof. vm_compute. reflexivity. Qed.
