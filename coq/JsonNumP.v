(* JsonNumP.v - proofs about the JSON number model (JsonNum.v).
   A. reading the text, integer conversions, pieces of the text as lists
   B. the scanning helpers (skip_digits, count_in_row, strnchr, strtoll)
   C. the allocated block and its CONTENT (wrb, fillb, copy_loop)
   D. lex_number                                  E. lyjson_number_is_zero
   S. what a decimal text denotes (digits_val, dec_denote, json_denote, same_value)
   F. lyjson_exp_number, one lemma per layout: no access leaves its object, the byte count is exact, the
      text produced denotes mantissa x 10^exponent
   G. lyjson_number: no_oob, len_exact, denotes    H. regression witnesses and a finite sweep
   The model transcribes the code after the fix of /repo commit 63186d2 (layout 2 of lyjson_exp_number). *)
From LY Require Import Base JsonNum.
From Coq Require Import ZifyBool ZifyNat ZifyN.
Local Open Scope Z_scope.

(* ================= A. reading the text, integer conversions ================= *)
Definition bat (s : bytes) (i : Z) : N := nth (Z.to_nat i) s 0%N.
Notation Ln s := (Z.of_nat (length s)).

Lemma rdin_ok s i : 0 <= i <= Ln s -> rdin s i = JOk (bat s i).
Proof.
  intro H. unfold rdin. replace ((0 <=? i) && (i <=? Ln s)) with true by lia. reflexivity.
Qed.

Lemma bat_nz s i : 0 <= i -> bat s i <> 0%N -> i < Ln s.
Proof.
  intros Hi Hn. destruct (Z_lt_ge_dec i (Ln s)) as [Hlt|Hge]; [exact Hlt|].
  exfalso. apply Hn. unfold bat. apply nth_overflow. lia.
Qed.

Lemma digit_nz c : is_digit c = true -> c <> 0%N.
Proof. unfold is_digit. lia. Qed.

Lemma digit_range c : is_digit c = true -> (48 <= c <= 57)%N.
Proof. unfold is_digit. lia. Qed.

Lemma u16_id x : 0 <= x < 65536 -> u16 x = x.
Proof. intro H. unfold u16. apply Z.mod_small. lia. Qed.
Lemma u32_id x : 0 <= x < 4294967296 -> u32 x = x.
Proof. intro H. unfold u32. apply Z.mod_small. lia. Qed.
Lemma u64_id x : 0 <= x < 18446744073709551616 -> u64 x = x.
Proof. intro H. unfold u64. apply Z.mod_small. lia. Qed.
Lemma i32_id x : -2147483648 <= x < 2147483648 -> i32 x = x.
Proof. intro H. unfold i32. rewrite Z.mod_small by lia. lia. Qed.

Lemma cstr_length s : (length (cstr s) <= length s)%nat.
Proof.
  induction s as [|c r IH]; cbn [cstr length]; [lia|].
  destruct (c =? 0)%N; cbn [length]; lia.
Qed.

(* ================= B. the scanning helpers ================= *)
Lemma skip_digits_spec fuel s off :
  0 <= off <= Ln s -> Ln s - off < Z.of_nat fuel ->
  exists o, skip_digits fuel s off = JOk o /\ off <= o <= Ln s /\
            (forall k, off <= k < o -> is_digit (bat s k) = true) /\ is_digit (bat s o) = false.
Proof.
  revert off; induction fuel as [|f IH]; intros off Ho Hf; [lia|].
  cbn [skip_digits]. rewrite rdin_ok by lia. cbn [jbind].
  destruct (is_digit (bat s off)) eqn:Hd.
  - assert (Hlt : off < Ln s) by (apply bat_nz; [lia|apply digit_nz; exact Hd]).
    destruct (IH (off + 1)) as (o & He & Hr & Hall & Hnd); [lia|lia|].
    exists o. split; [exact He|]. split; [lia|]. split; [|exact Hnd].
    intros k Hk. destruct (Z.eq_dec k off) as [->|Hne]; [exact Hd|]. apply Hall. lia.
  - exists off. split; [reflexivity|]. split; [lia|]. split; [|exact Hd].
    intros k Hk. lia.
Qed.

Lemma count_fwd_spec n s str c :
  0 <= str -> str + Z.of_nat n <= Ln s + 1 ->
  exists k, count_fwd n s str c = JOk k /\ 0 <= k <= Z.of_nat n /\
    (forall j, str <= j < str + k -> bat s j = c) /\ (k < Z.of_nat n -> bat s (str + k) <> c).
Proof.
  revert str; induction n as [|n IH]; intros str Hs Hn.
  - exists 0. cbn [count_fwd]. split; [reflexivity|]. split; [lia|]. split; intros; lia.
  - cbn [count_fwd]. rewrite rdin_ok by lia. cbn [jbind].
    destruct (bat s str =? c)%N eqn:Hc.
    + destruct (IH (str + 1)) as (k & He & Hr & Hall & Hstop); [lia|lia|].
      rewrite He. cbn [jbind]. exists (k + 1). split; [reflexivity|]. split; [lia|]. split.
      * intros j Hj. destruct (Z.eq_dec j str) as [->|Hne]; [lia|]. apply Hall. lia.
      * intro Hk. replace (str + (k + 1)) with (str + 1 + k) by lia. apply Hstop. lia.
    + exists 0. split; [reflexivity|]. split; [lia|]. split.
      * intros j Hj. lia.
      * intros _. replace (str + 0) with str by lia. lia.
Qed.

Lemma count_bwd_spec n s e c :
  0 <= e - Z.of_nat n -> e <= Ln s + 1 ->
  exists k, count_bwd n s e c = JOk k /\ 0 <= k <= Z.of_nat n /\
    (forall j, e - k <= j < e -> bat s j = c) /\ (k < Z.of_nat n -> bat s (e - 1 - k) <> c).
Proof.
  revert e; induction n as [|n IH]; intros e Hs Hn.
  - exists 0. cbn [count_bwd]. split; [reflexivity|]. split; [lia|]. split; intros; lia.
  - cbn [count_bwd]. rewrite rdin_ok by lia. cbn [jbind].
    destruct (bat s (e - 1) =? c)%N eqn:Hc.
    + destruct (IH (e - 1)) as (k & He & Hr & Hall & Hstop); [lia|lia|].
      rewrite He. cbn [jbind]. exists (k + 1). split; [reflexivity|]. split; [lia|]. split.
      * intros j Hj. destruct (Z.eq_dec j (e - 1)) as [->|Hne]; [lia|]. apply Hall. lia.
      * intro Hk. replace (e - 1 - (k + 1)) with (e - 1 - 1 - k) by lia. apply Hstop. lia.
    + exists 0. split; [reflexivity|]. split; [lia|]. split.
      * intros j Hj. lia.
      * intros _. replace (e - 1 - 0) with (e - 1) by lia. lia.
Qed.

(* lyjson_count_in_row: the 32-bit counter does not wrap because the text is shorter than 4 GiB *)
Lemma count_in_row_fwd s str e c :
  Ln s < 4294967296 -> 0 <= str -> e <= Ln s ->
  exists k, count_in_row s str e c false = JOk k /\ 0 <= k <= Z.max 0 (e - str) /\
    (forall j, str <= j < str + k -> bat s j = c) /\ (k < e - str -> bat s (str + k) <> c).
Proof.
  intros HL Hs He. unfold count_in_row. destruct (e <=? str) eqn:Hes.
  - exists 0. split; [reflexivity|]. split; [lia|]. split; intros; lia.
  - destruct (count_fwd_spec (Z.to_nat (e - str)) s str c) as (k & Hk & Hr & Hall & Hstop); [lia|lia|].
    rewrite Hk. cbn [jbind]. rewrite u32_id by lia. exists k. split; [reflexivity|].
    split; [lia|]. split; [exact Hall|]. intro Hlt. apply Hstop. lia.
Qed.

Lemma count_in_row_bwd s str e c :
  Ln s < 4294967296 -> 0 <= str -> e <= Ln s ->
  exists k, count_in_row s str e c true = JOk k /\ 0 <= k <= Z.max 0 (e - str) /\
    (forall j, e - k <= j < e -> bat s j = c) /\ (k < e - str -> bat s (e - 1 - k) <> c).
Proof.
  intros HL Hs He. unfold count_in_row. destruct (e <=? str) eqn:Hes.
  - exists 0. split; [reflexivity|]. split; [lia|]. split; intros; lia.
  - destruct (count_bwd_spec (Z.to_nat (e - str)) s e c) as (k & Hk & Hr & Hall & Hstop); [lia|lia|].
    rewrite Hk. cbn [jbind]. rewrite u32_id by lia. exists k. split; [reflexivity|].
    split; [lia|]. split; [exact Hall|]. intro Hlt. apply Hstop. lia.
Qed.

Lemma strnchr_spec n s p c :
  0 <= p -> p + Z.of_nat n <= Ln s + 1 ->
  (exists q, strnchr n s p c = JOk (Some q) /\ p <= q < p + Z.of_nat n /\ bat s q = c /\
             forall j, p <= j < q -> bat s j <> c)
  \/ (strnchr n s p c = JOk None /\ forall j, p <= j < p + Z.of_nat n -> bat s j <> c).
Proof.
  revert p; induction n as [|n IH]; intros p Hp Hn.
  - right. split; [reflexivity|]. intros j Hj. lia.
  - cbn [strnchr]. rewrite rdin_ok by lia. cbn [jbind].
    destruct (bat s p =? c)%N eqn:Hc.
    + left. exists p. split; [reflexivity|]. split; [lia|]. split; [lia|]. intros j Hj. lia.
    + destruct (IH (p + 1)) as [(q & He & Hr & Hq & Hall)|(He & Hall)]; [lia|lia| |].
      * left. exists q. split; [exact He|]. split; [lia|]. split; [exact Hq|].
        intros j Hj. destruct (Z.eq_dec j p) as [->|Hne]; [lia|]. apply Hall. lia.
      * right. split; [exact He|].
        intros j Hj. destruct (Z.eq_dec j p) as [->|Hne]; [lia|]. apply Hall. lia.
Qed.

(* the digit loop of strtoll: ends inside the text, the value is positive as soon as one digit of the
   run is not 0 *)
Lemma acc_digits_spec fuel s i acc :
  0 <= i <= Ln s -> Ln s - i < Z.of_nat fuel -> 0 <= acc ->
  exists a, acc_digits fuel s i acc = JOk a /\ acc <= a /\
    (forall k, i <= k -> (forall j, i <= j <= k -> is_digit (bat s j) = true) -> bat s k <> 48%N -> 0 < a).
Proof.
  revert i acc; induction fuel as [|f IH]; intros i acc Hi Hf Ha; [lia|].
  cbn [acc_digits]. rewrite rdin_ok by lia. cbn [jbind].
  destruct (is_digit (bat s i)) eqn:Hd.
  - assert (Hlt : i < Ln s) by (apply bat_nz; [lia|apply digit_nz; exact Hd]).
    pose proof (digit_range _ Hd) as Hrg.
    destruct (IH (i + 1) (10 * acc + (Z.of_N (bat s i) - 48))) as (a & He & Hge & Hpos); [lia|lia|lia|].
    exists a. split; [exact He|]. split; [lia|].
    intros k Hk Hall Hne. destruct (Z.eq_dec k i) as [->|Hki]; [lia|].
    apply (Hpos k); [lia| |exact Hne]. intros j Hj. apply Hall. lia.
  - exists acc. split; [reflexivity|]. split; [lia|].
    intros k Hk Hall Hne. rewrite (Hall i) in Hd by lia. discriminate.
Qed.


(* ---------- pieces of the text as lists: sub s a b = bytes a .. b-1 ---------- *)
Definition sub (s : bytes) (a b : Z) : bytes := firstn (Z.to_nat (b - a)) (skipn (Z.to_nat a) s).
Definition isd (c : N) : Prop := is_digit c = true.

Lemma sub_nil s a b : b <= a -> sub s a b = [].
Proof. intro H. unfold sub. replace (Z.to_nat (b - a)) with 0%nat by lia. reflexivity. Qed.

Lemma skipn_nth_cons (l : bytes) : forall n, (n < length l)%nat -> skipn n l = nth n l 0%N :: skipn (S n) l.
Proof.
  induction l as [|x l IH]; intros n Hn; cbn [length] in Hn; [lia|].
  destruct n as [|n]; [reflexivity|]. cbn [skipn nth]. rewrite IH by lia. reflexivity.
Qed.

Lemma sub_cons s a b : 0 <= a < b -> a < Ln s -> sub s a b = bat s a :: sub s (a + 1) b.
Proof.
  intros Hab Hl. unfold sub, bat. rewrite skipn_nth_cons by lia.
  replace (Z.to_nat (b - a)) with (S (Z.to_nat (b - (a + 1)))) by lia.
  replace (Z.to_nat (a + 1)) with (S (Z.to_nat a)) by lia. reflexivity.
Qed.

Lemma sub_ind_aux (P : Z -> Prop) b :
  P b -> (forall a, 0 <= a < b -> P (a + 1) -> P a) -> forall n a, Z.of_nat n = b - a -> 0 <= a -> P a.
Proof.
  intros Hb Hstep. induction n as [|n IH]; intros a Hn Ha.
  - replace a with b by lia. exact Hb.
  - apply Hstep; [lia|]. apply IH; lia.
Qed.

Lemma sub_app s a b c : 0 <= a -> a <= b <= c -> c <= Ln s -> sub s a c = sub s a b ++ sub s b c.
Proof.
  intros Ha Hbc Hc.
  apply (sub_ind_aux (fun a => a <= b -> sub s a c = sub s a b ++ sub s b c) b) with (n := Z.to_nat (b - a));
    [| |lia|lia|lia].
  - intros _. rewrite (sub_nil s b b) by lia. reflexivity.
  - intros a' Ha' IH _. rewrite (sub_cons s a' c) by lia. rewrite (sub_cons s a' b) by lia.
    rewrite IH by lia. reflexivity.
Qed.

Lemma sub_length s a b : 0 <= a -> a <= b <= Ln s -> Ln (sub s a b) = b - a.
Proof.
  intros Ha Hb. unfold sub. rewrite firstn_length, skipn_length. lia.
Qed.

Lemma sub_one s a : 0 <= a < Ln s -> sub s a (a + 1) = [bat s a].
Proof. intro H. rewrite sub_cons by lia. rewrite sub_nil by lia. reflexivity. Qed.

Lemma sub_Forall (P : N -> Prop) s a b :
  0 <= a -> b <= Ln s -> (forall k, a <= k < b -> P (bat s k)) -> Forall P (sub s a b).
Proof.
  intros Ha Hb. destruct (Z_le_gt_dec b a) as [Hle|Hgt]; [intros _; rewrite sub_nil by lia; constructor|].
  apply (sub_ind_aux (fun a => (forall k, a <= k < b -> P (bat s k)) -> Forall P (sub s a b)) b)
    with (n := Z.to_nat (b - a)); [| |lia|lia].
  - intros _. rewrite sub_nil by lia. constructor.
  - intros a' Ha' IH Hall. rewrite sub_cons by lia. constructor; [apply Hall; lia|].
    apply IH. intros k Hk. apply Hall. lia.
Qed.

Lemma sub_repeat s a b c :
  0 <= a -> b <= Ln s -> (forall k, a <= k < b -> bat s k = c) -> sub s a b = repeat c (Z.to_nat (b - a)).
Proof.
  intros Ha Hb. destruct (Z_le_gt_dec b a) as [Hle|Hgt].
  { intros _. rewrite sub_nil by lia. replace (Z.to_nat (b - a)) with 0%nat by lia. reflexivity. }
  apply (sub_ind_aux (fun a => a <= b -> (forall k, a <= k < b -> bat s k = c) ->
                                  sub s a b = repeat c (Z.to_nat (b - a))) b)
    with (n := Z.to_nat (b - a)); [| |lia|lia|lia].
  - intros _ _. rewrite sub_nil by lia. replace (Z.to_nat (b - b)) with 0%nat by lia. reflexivity.
  - intros a' Ha' IH _ Hall. rewrite sub_cons by lia.
    replace (Z.to_nat (b - a')) with (S (Z.to_nat (b - (a' + 1)))) by lia. cbn [repeat].
    rewrite (Hall a') by lia. rewrite IH; [reflexivity|lia|]. intros k Hk. apply Hall. lia.
Qed.

Lemma sub_firstn s off : sub s 0 off = firstn (Z.to_nat off) s.
Proof. unfold sub. rewrite Z.sub_0_r. reflexivity. Qed.

Lemma slice_sub s n : slice s 0 n = map Some (sub s 0 n).
Proof. unfold slice. rewrite sub_firstn. reflexivity. Qed.

(* value of a digit string, accumulator style as digits_val / strtoll *)
Fixpoint dval (l : bytes) (acc : Z) : Z :=
  match l with
  | [] => acc
  | c :: r => dval r (10 * acc + (Z.of_N c - 48))
  end.

Lemma acc_digits_dval fuel s : forall i acc off,
  0 <= i <= off -> off <= Ln s -> Ln s - i < Z.of_nat fuel ->
  (forall k, i <= k < off -> is_digit (bat s k) = true) -> is_digit (bat s off) = false ->
  acc_digits fuel s i acc = JOk (dval (sub s i off) acc).
Proof.
  induction fuel as [|f IH]; intros i acc off Hi Hoff Hf Hd Hnd; [lia|].
  cbn [acc_digits]. rewrite rdin_ok by lia. cbn [jbind].
  destruct (Z.eq_dec i off) as [->|Hne].
  - rewrite Hnd. rewrite sub_nil by lia. reflexivity.
  - rewrite (Hd i) by lia. assert (Hlt : i < Ln s) by lia.
    rewrite (sub_cons s i off) by lia. cbn [dval]. apply IH; try lia; try assumption.
Qed.

(* ================= C. the allocated block and its content ================= *)
(* cells 0 .. k-1 have been written and hold the bytes l *)
Definition pfx (b : buffer) (k : Z) (l : bytes) : Prop :=
  Ln l = k /\ firstn (length l) b = map Some l.

Lemma upd_length b i v : length (upd b i v) = length b.
Proof. revert i; induction b as [|x b IH]; intros [|i]; cbn [upd length]; auto. Qed.

Lemma firstn_upd_ext (l : bytes) : forall (b : buffer) v,
  firstn (length l) b = map Some l -> (length l < length b)%nat ->
  firstn (length (l ++ [v])) (upd b (length l) v) = map Some (l ++ [v]).
Proof.
  induction l as [|c l IH]; intros b v Hf Hl.
  - destruct b as [|x b]; [cbn [length] in Hl; lia|]. reflexivity.
  - destruct b as [|x b]; [cbn [length] in Hl; lia|].
    cbn [length firstn map app upd] in *. injection Hf as Hx Hf. subst x.
    rewrite (IH b v Hf) by lia. reflexivity.
Qed.

Lemma firstn_upd_keep (b : buffer) : forall n i v, (n <= i)%nat -> firstn n (upd b i v) = firstn n b.
Proof.
  induction b as [|x b IH]; intros n i v Hni; [destruct i; reflexivity|].
  destruct n as [|n]; [reflexivity|]. destruct i as [|i]; [lia|].
  cbn [upd firstn]. rewrite IH by lia. reflexivity.
Qed.

Lemma wrb_step b k l v :
  k < Z.of_nat (length b) -> pfx b k l ->
  exists b', wrb b k v = JOk b' /\ length b' = length b /\ pfx b' (k + 1) (l ++ [v]).
Proof.
  intros Hk (Hlen & Hp). unfold wrb. replace ((0 <=? k) && (k <? Z.of_nat (length b))) with true by lia.
  eexists. split; [reflexivity|]. split; [apply upd_length|]. split.
  - rewrite app_length. cbn [length]. lia.
  - replace (Z.to_nat k) with (length l) by lia. apply firstn_upd_ext; [exact Hp|lia].
Qed.

Lemma fill_length b i n v : length (fill b i n v) = length b.
Proof.
  revert b i; induction n as [|n IH]; intros b i; cbn [fill]; [reflexivity|].
  rewrite IH. apply upd_length.
Qed.

Lemma fill_pfx n : forall (b : buffer) (l : bytes) v,
  (length l + n <= length b)%nat -> firstn (length l) b = map Some l ->
  firstn (length (l ++ repeat v n)) (fill b (length l) n v) = map Some (l ++ repeat v n).
Proof.
  induction n as [|n IH]; intros b l v Hle Hp; cbn [fill repeat].
  - rewrite app_nil_r. exact Hp.
  - replace (l ++ v :: repeat v n) with ((l ++ [v]) ++ repeat v n) by (rewrite <- app_assoc; reflexivity).
    replace (S (length l)) with (length (l ++ [v])) by (rewrite app_length; cbn [length]; lia).
    apply IH.
    + rewrite upd_length, app_length. cbn [length]. unfold cell in *. lia.
    + apply firstn_upd_ext; [exact Hp|unfold cell in *; lia].
Qed.

Lemma fillb_step b k l n v :
  0 <= n -> k + n <= Z.of_nat (length b) -> pfx b k l ->
  exists b', fillb b k n v = JOk b' /\ length b' = length b /\ pfx b' (k + n) (l ++ repeat v (Z.to_nat n)).
Proof.
  intros Hn Hle (Hlen & Hp). unfold fillb. destruct (n =? 0) eqn:Hn0.
  - exists b. split; [reflexivity|]. split; [reflexivity|].
    replace (Z.to_nat n) with 0%nat by lia. cbn [repeat]. rewrite app_nil_r. split; [lia|exact Hp].
  - replace ((0 <=? k) && (k + n <=? Z.of_nat (length b))) with true by lia.
    eexists. split; [reflexivity|]. split; [apply fill_length|]. split.
    + rewrite app_length, repeat_length. lia.
    + replace (Z.to_nat k) with (length l) by lia. apply fill_pfx; [lia|exact Hp].
Qed.

(* lyjson_get_buffer_for_number: either the LY_NUMBER_MAXLEN error or a block of n + 1 bytes, n + 1 <= 22 *)
Lemma get_buffer_cases n :
  0 <= n < 9223372036854775808 ->
  get_buffer n = JErr E_MAXLEN \/
  (n + 1 <= 22 /\ exists b, get_buffer n = JOk b /\ Z.of_nat (length b) = n + 1 /\ pfx b 0 []).
Proof.
  intro Hn. unfold get_buffer. rewrite u64_id by lia. unfold LY_NUMBER_MAXLEN.
  destruct (22 <? n + 1) eqn:Hc; [left; reflexivity|right].
  split; [lia|]. eexists. split; [reflexivity|]. split.
  - rewrite repeat_length. lia.
  - split; reflexivity.
Qed.

Definition sgnl (minus : Z) : bytes := if minus =? 1 then [45%N] else [].

Lemma sgnl_length minus : minus = 0 \/ minus = 1 -> Ln (sgnl minus) = minus.
Proof. intros [-> | ->]; reflexivity. Qed.

Lemma maybe_minus_step b minus :
  minus = 0 \/ minus = 1 -> 1 <= Z.of_nat (length b) -> pfx b 0 [] ->
  exists b', maybe_minus b minus = JOk (b', minus) /\ length b' = length b /\ pfx b' minus (sgnl minus).
Proof.
  intros Hm Hl Hp. unfold maybe_minus. destruct Hm as [-> | ->]; cbn [Z.eqb Pos.eqb].
  - exists b. split; [reflexivity|]. split; [reflexivity|exact Hp].
  - destruct (wrb_step b 0 [] 45%N) as (b' & He & Hlen & Hp'); [lia|exact Hp|].
    rewrite He. cbn [jbind]. exists b'. split; [reflexivity|]. split; [exact Hlen|exact Hp'].
Qed.

(* number of source bytes the copy loop stores (it skips the old decimal point when it meets it) and
   whether it inserts the new decimal point; the bytes it stores *)
Definition cm (n cnt dec_idx : Z) : Z := cnt - Z.b2z ((n <=? dec_idx) && (dec_idx <? n + cnt)).
Definition cins (d dp m : Z) : Z := Z.b2z ((d <=? dp) && (dp <? d + m)).

Fixpoint copy_list (cnt : nat) (s : bytes) (num dec_idx dp n d : Z) : bytes :=
  match cnt with
  | O => []
  | S c =>
      if n =? dec_idx then copy_list c s num dec_idx dp (n + 1) d
      else if d =? dp then 46%N :: bat s (num + n) :: copy_list c s num dec_idx dp (n + 1) (d + 2)
      else bat s (num + n) :: copy_list c s num dec_idx dp (n + 1) (d + 1)
  end.

Lemma copy_loop_spec cnt : forall s num dec_idx dp b l base n d,
  0 <= num + n -> num + n + Z.of_nat cnt <= Ln s + 1 ->
  base + d + cm n (Z.of_nat cnt) dec_idx + cins d dp (cm n (Z.of_nat cnt) dec_idx) <= Z.of_nat (length b) ->
  pfx b (base + d) l ->
  exists b' d', copy_loop cnt s num dec_idx dp b base n d = JOk (b', d') /\
     d' = d + cm n (Z.of_nat cnt) dec_idx + cins d dp (cm n (Z.of_nat cnt) dec_idx) /\
     length b' = length b /\ pfx b' (base + d') (l ++ copy_list cnt s num dec_idx dp n d).
Proof.
  induction cnt as [|cnt IH]; intros s num dec_idx dp b l base n d Hn0 Hn1 Hb1 Hp.
  - cbn [copy_loop copy_list]. exists b, d. split; [reflexivity|]. split; [unfold cm, cins; lia|].
    split; [reflexivity|]. rewrite app_nil_r. exact Hp.
  - cbn [copy_loop copy_list]. destruct (n =? dec_idx) eqn:Hnd.
    + destruct (IH s num dec_idx dp b l base (n + 1) d) as (b' & d' & He & Hd' & Hl & Hp');
        [lia|lia|unfold cm, cins in *; lia|exact Hp|].
      exists b', d'. split; [exact He|]. split; [unfold cm, cins in *; lia|]. split; [exact Hl|exact Hp'].
    + rewrite rdin_ok by lia. cbn [jbind]. destruct (d =? dp) eqn:Hdp.
      * destruct (wrb_step b (base + d) l 46%N) as (b1 & He1 & Hl1 & Hp1);
          [unfold cm, cins in *; lia|exact Hp|].
        rewrite He1. cbn [jbind].
        destruct (wrb_step b1 (base + d + 1) (l ++ [46%N]) (bat s (num + n))) as (b2 & He2 & Hl2 & Hp2);
          [unfold cm, cins in *; lia|exact Hp1|].
        rewrite He2. cbn [jbind].
        destruct (IH s num dec_idx dp b2 ((l ++ [46%N]) ++ [bat s (num + n)]) base (n + 1) (d + 2))
          as (b' & d' & He & Hd' & Hl & Hp');
          [lia|lia|unfold cm, cins in *; lia|
           replace (base + (d + 2)) with (base + d + 1 + 1) by lia; exact Hp2|].
        exists b', d'. split; [exact He|]. split; [unfold cm, cins in *; lia|]. split; [congruence|].
        rewrite <- !app_assoc in Hp'. exact Hp'.
      * destruct (wrb_step b (base + d) l (bat s (num + n))) as (b1 & He1 & Hl1 & Hp1);
          [unfold cm, cins in *; lia|exact Hp|].
        rewrite He1. cbn [jbind].
        destruct (IH s num dec_idx dp b1 (l ++ [bat s (num + n)]) base (n + 1) (d + 1))
          as (b' & d' & He & Hd' & Hl & Hp');
          [lia|lia|unfold cm, cins in *; lia|
           replace (base + (d + 1)) with (base + d + 1) by lia; exact Hp1|].
        exists b', d'. split; [exact He|]. split; [unfold cm, cins in *; lia|]. split; [congruence|].
        rewrite <- !app_assoc in Hp'. exact Hp'.
Qed.

Definition decidx (dec_point : option Z) (num : Z) : Z :=
  match dec_point with Some p => p - num | None => INT32_MAX end.

(* lyjson_exp_number_copy_num_part: [m] source bytes are stored, [ins] is 1 when the new decimal point
   is inserted; neither assert fires, the stores are the cells base .. base + m + ins - 1 *)
Lemma copy_num_part_step s num num_len dec_point dp b l base m ins :
  0 <= num -> 0 <= num_len <= 65535 -> num + num_len <= Ln s + 1 ->
  (forall p, dec_point = Some p -> 0 <= p - num < 65536) ->
  decidx dec_point num <> dp ->
  m = cm 0 num_len (decidx dec_point num) -> ins = cins 0 dp m ->
  base + m + ins <= Z.of_nat (length b) -> pfx b base l ->
  exists b', copy_num_part s num num_len dec_point dp b base = JOk (b', m + ins) /\
    length b' = length b /\
    pfx b' (base + (m + ins)) (l ++ copy_list (Z.to_nat num_len) s num (decidx dec_point num) dp 0 0).
Proof.
  intros Hnum Hlen Hrd Hdec Hne Hm Hins Hb1 Hp. unfold copy_num_part.
  replace (match dec_point with Some p => i32 (p - num) | None => INT32_MAX end) with (decidx dec_point num).
  2:{ unfold decidx. destruct dec_point as [p|]; [|reflexivity].
      specialize (Hdec p eq_refl). rewrite i32_id by lia. reflexivity. }
  assert (Hd0 : 0 <= decidx dec_point num).
  { unfold decidx, INT32_MAX. destruct dec_point as [p|]; [specialize (Hdec p eq_refl)|]; lia. }
  replace ((0 <=? decidx dec_point num) && negb (decidx dec_point num =? dp)) with true by lia.
  cbn [negb]. rewrite u32_id by lia.
  destruct (copy_loop_spec (Z.to_nat num_len) s num (decidx dec_point num) dp b l base 0 0)
    as (b' & d' & He & Hd' & Hl & Hp').
  - lia.
  - lia.
  - rewrite Z2Nat.id by lia. rewrite <- Hm. rewrite <- Hins. lia.
  - replace (base + 0) with base by lia. exact Hp.
  - rewrite Z2Nat.id in Hd' by lia. rewrite <- Hm in Hd'. rewrite <- Hins in Hd'.
    rewrite He. cbn [jbind]. exists b'. replace d' with (m + ins) in * by lia.
    rewrite u32_id by (unfold cm, cins in *; lia).
    split; [reflexivity|]. split; [exact Hl|exact Hp'].
Qed.

(* what the theorems say about the block lyjson_exp_number() hands back: it has buf_len + 1 bytes, the
   bytes stored before the terminating NUL are exactly buf_len, and they are the text [out] with P out *)
Definition xprops (P : bytes -> Prop) (x : expres) : Prop :=
  Z.of_nat (length (x_buf x)) = x_len x + 1 /\ 0 <= x_len x < 22 /\ x_end x = x_len x /\
  exists out, firstn (Z.to_nat (x_len x)) (x_buf x) = map Some out /\ P out.

Definition xgood (P : bytes -> Prop) (r : jres expres) : Prop :=
  match r with JOk x => xprops P x | JErr e => e <> E_FUEL | JOob => False end.

Lemma xgood_impl (P Q : bytes -> Prop) r : (forall out, P out -> Q out) -> xgood P r -> xgood Q r.
Proof.
  intros HPQ. destruct r as [x|e|]; cbn [xgood]; auto.
  intros (H1 & H2 & H3 & out & Ho & HP). split; [exact H1|]. split; [exact H2|]. split; [exact H3|].
  exists out. split; [exact Ho|apply HPQ; exact HP].
Qed.

Lemma finish_step (P : bytes -> Prop) b buf_len l br :
  Z.of_nat (length b) = buf_len + 1 -> buf_len < 22 -> pfx b buf_len l -> P l ->
  xgood P (finish b buf_len buf_len br).
Proof.
  intros Hl Hb (Hlen & Hp) HP. unfold finish, wrb.
  replace ((0 <=? buf_len) && (buf_len <? Z.of_nat (length b))) with true by lia.
  cbn [jbind xgood]. unfold xprops. cbn [x_buf x_len x_end x_branch].
  split; [rewrite upd_length; exact Hl|]. split; [lia|]. split; [reflexivity|].
  exists l. split; [|exact HP]. replace (Z.to_nat buf_len) with (length l) by lia.
  rewrite firstn_upd_keep by lia. exact Hp.
Qed.

Lemma xgood_maxlen P : xgood P (JErr E_MAXLEN).
Proof. cbn [xgood]. discriminate. Qed.

(* ================= D. lex_number ================= *)
(* first exponent digit: after the letter and an optional sign *)
Definition exp_start (s : bytes) (ex : Z) : Z :=
  if (bat s (ex + 1) =? 43)%N || (bat s (ex + 1) =? 45)%N then ex + 2 else ex + 1.

Definition lexfacts (s : bytes) (minus o1 o2 : Z) : Prop :=
  minus = (if (bat s 0 =? 45)%N then 1 else 0) /\ minus < o1 /\
  (forall k, minus <= k < o1 -> is_digit (bat s k) = true) /\
  (bat s minus = 48%N -> o1 = minus + 1) /\
  ((o2 = o1 /\ bat s o1 <> 46%N) \/
   (bat s o1 = 46%N /\ o1 + 1 < o2 /\ forall k, o1 < k < o2 -> is_digit (bat s k) = true)).

Definition lexok (s : bytes) (lx : lexed) : Prop :=
  lexfacts s (l_minus lx) (l_o1 lx) (l_o2 lx) /\ l_o2 lx <= l_off lx /\ l_off lx <= Ln s /\
  match l_exp lx with
  | None => l_off lx = l_o2 lx /\ bat s (l_o2 lx) <> 101%N /\ bat s (l_o2 lx) <> 69%N
  | Some ex => ex = l_o2 lx /\ (bat s ex = 101%N \/ bat s ex = 69%N) /\ exp_start s ex < l_off lx /\
               (forall k, exp_start s ex <= k < l_off lx -> is_digit (bat s k) = true) /\
               is_digit (bat s (l_off lx)) = false
  end.

Definition lgood (s : bytes) (r : jres lexed) : Prop :=
  match r with JOk lx => lexok s lx | JErr e => e <> E_FUEL | JOob => False end.

Definition lex_rest2 (s : bytes) (minus o1 o2 : Z) : jres lexed :=
  let fuel := S (length s) in
  let* c := rdin s o2 in
  if (c =? 101)%N || (c =? 69)%N then
    let* c1 := rdin s (o2 + 1) in
    let o := if (c1 =? 43)%N || (c1 =? 45)%N then o2 + 2 else o2 + 1 in
    let* d := rdin s o in
    if is_digit d then (let* o' := skip_digits fuel s o in
                        JOk {| l_minus := minus; l_o1 := o1; l_o2 := o2; l_exp := Some o2; l_off := o' |})
    else JErr E_CHAR
  else JOk {| l_minus := minus; l_o1 := o1; l_o2 := o2; l_exp := None; l_off := o2 |}.

Definition lex_rest1 (s : bytes) (minus o1 : Z) : jres lexed :=
  let fuel := S (length s) in
  let* c := rdin s o1 in
  let* o2 := if (c =? 46)%N
             then (let* d := rdin s (o1 + 1) in
                   if is_digit d then skip_digits fuel s (o1 + 1) else JErr E_CHAR)
             else JOk o1 in
  lex_rest2 s minus o1 o2.

Lemma lex_number_eq s :
  lex_number s =
  let fuel := S (length s) in
  let* c0 := rdin s 0 in
  let minus := if (c0 =? 45)%N then 1 else 0 in
  let* c := rdin s minus in
  let* o1 := if (c =? 48)%N then JOk (minus + 1)
             else if is_digit c then skip_digits fuel s (minus + 1)
             else JErr E_CHAR in
  lex_rest1 s minus o1.
Proof. reflexivity. Qed.

Lemma lex_rest2_spec s minus o1 o2 :
  lexfacts s minus o1 o2 -> 0 <= o2 <= Ln s -> lgood s (lex_rest2 s minus o1 o2).
Proof.
  intros Hf Ho2. unfold lex_rest2. rewrite rdin_ok by lia. cbn [jbind].
  destruct ((bat s o2 =? 101)%N || (bat s o2 =? 69)%N) eqn:He.
  - assert (Hlt : o2 < Ln s) by (apply bat_nz; lia).
    rewrite rdin_ok by lia. cbn [jbind]. fold (exp_start s o2).
    assert (Hes : o2 + 1 <= exp_start s o2 <= o2 + 2 /\ exp_start s o2 <= Ln s).
    { unfold exp_start. destruct ((bat s (o2 + 1) =? 43)%N || (bat s (o2 + 1) =? 45)%N) eqn:Hs; [|lia].
      assert (o2 + 1 < Ln s) by (apply bat_nz; lia). lia. }
    rewrite rdin_ok by lia. cbn [jbind].
    destruct (is_digit (bat s (exp_start s o2))) eqn:Hd; [|cbn [lgood]; discriminate].
    destruct (skip_digits_spec (S (length s)) s (exp_start s o2)) as (o' & Hsk & Hr & Hall & Hnd); [lia|lia|].
    rewrite Hsk. cbn [jbind lgood]. unfold lexok. cbn [l_minus l_o1 l_o2 l_exp l_off].
    assert (Hne : o' <> exp_start s o2) by (intros ->; congruence).
    split; [exact Hf|]. split; [lia|]. split; [lia|]. split; [reflexivity|].
    split; [lia|]. split; [lia|]. split; [exact Hall|exact Hnd].
  - cbn [lgood]. unfold lexok. cbn [l_minus l_o1 l_o2 l_exp l_off].
    split; [exact Hf|]. split; [lia|]. split; [lia|]. split; [reflexivity|lia].
Qed.

Lemma lex_rest1_spec s minus o1 :
  minus = (if (bat s 0 =? 45)%N then 1 else 0) -> minus < o1 ->
  (forall k, minus <= k < o1 -> is_digit (bat s k) = true) ->
  (bat s minus = 48%N -> o1 = minus + 1) -> 0 <= o1 <= Ln s ->
  lgood s (lex_rest1 s minus o1).
Proof.
  intros Hm Hlt Hdm H48 Ho1. unfold lex_rest1. rewrite rdin_ok by lia. cbn [jbind].
  destruct (bat s o1 =? 46)%N eqn:Hc.
  - assert (Hl : o1 < Ln s) by (apply bat_nz; lia).
    rewrite rdin_ok by lia. cbn [jbind].
    destruct (is_digit (bat s (o1 + 1))) eqn:Hd; [|cbn [jbind lgood]; discriminate].
    destruct (skip_digits_spec (S (length s)) s (o1 + 1)) as (o2 & Hsk & Hr & Hall & Hnd); [lia|lia|].
    rewrite Hsk. cbn [jbind].
    assert (Hne : o2 <> o1 + 1) by (intros ->; congruence).
    apply lex_rest2_spec; [|lia]. unfold lexfacts.
    split; [exact Hm|]. split; [exact Hlt|]. split; [exact Hdm|]. split; [exact H48|].
    right. split; [lia|]. split; [lia|]. intros k Hk. apply Hall. lia.
  - cbn [jbind]. apply lex_rest2_spec; [|lia]. unfold lexfacts.
    split; [exact Hm|]. split; [exact Hlt|]. split; [exact Hdm|]. split; [exact H48|].
    left. split; [reflexivity|lia].
Qed.

Lemma lex_number_spec s : lgood s (lex_number s).
Proof.
  rewrite lex_number_eq. cbv zeta. rewrite rdin_ok by lia. cbn [jbind].
  set (minus := if (bat s 0 =? 45)%N then 1 else 0).
  assert (Hm : 0 <= minus <= 1 /\ minus <= Ln s).
  { subst minus. destruct (bat s 0 =? 45)%N eqn:H; [|lia].
    assert (0 < Ln s) by (apply bat_nz; lia). lia. }
  rewrite rdin_ok by lia. cbn [jbind].
  destruct (bat s minus =? 48)%N eqn:H48.
  - cbn [jbind]. assert (Hl : minus < Ln s) by (apply bat_nz; lia).
    apply lex_rest1_spec; [reflexivity|lia| |lia|lia].
    intros k Hk. replace k with minus by lia. unfold is_digit. lia.
  - destruct (is_digit (bat s minus)) eqn:Hd; [|cbn [jbind lgood]; discriminate].
    assert (Hl : minus < Ln s) by (apply bat_nz; [lia|apply digit_nz; exact Hd]).
    destruct (skip_digits_spec (S (length s)) s (minus + 1)) as (o1 & Hsk & Hr & Hall & Hnd); [lia|lia|].
    rewrite Hsk. cbn [jbind].
    apply lex_rest1_spec; [reflexivity|lia| |lia|lia].
    intros k Hk. destruct (Z.eq_dec k minus) as [->|Hne]; [exact Hd|]. apply Hall. lia.
Qed.

(* ================= E. lyjson_number_is_zero ================= *)
Definition nz_start (s : bytes) (i : Z) : Z :=
  if (bat s i =? 45)%N || (bat s i =? 43)%N then i + 1 else i.

Lemma nz_tail s i2 e :
  Ln s < 4294967296 -> 0 <= i2 -> i2 < e -> e <= Ln s ->
  exists z, (let* k := count_in_row s i2 e 48%N false in JOk (k =? u32 (e - i2))) = JOk z /\
    (z = false -> exists k, i2 <= k < e /\ bat s k <> 48%N) /\
    (z = true -> forall j, i2 <= j < e -> bat s j = 48%N).
Proof.
  intros HL H0 Hlt He.
  destruct (count_in_row_fwd s i2 e 48%N HL H0 He) as (k & Hk & Hr & Hall & Hstop).
  rewrite Hk. cbn [jbind]. rewrite u32_id by lia. eexists. split; [reflexivity|]. split.
  - intro Hz. exists (i2 + k). split; [lia|]. apply Hstop. lia.
  - intros Hz j Hj. apply Hall. lia.
Qed.

(* no assert fires, no read leaves the text. Answer false: some byte between the (signed) start and the
   end is not the digit 0 (behind the point when the text starts with 0.). Answer true: all of them are,
   or the text is 0. and the end *)
Lemma number_is_zero_spec s i e :
  Ln s < 4294967296 -> 0 <= i -> i < e -> e <= Ln s -> nz_start s i < e ->
  exists z, number_is_zero s i e = JOk z /\
    (z = false -> exists k, nz_start s i <= k < e /\ bat s k <> 48%N /\
                  (bat s (nz_start s i) = 48%N -> bat s (nz_start s i + 1) = 46%N -> nz_start s i + 2 <= k)) /\
    (z = true -> bat s (nz_start s i) = 48%N /\
                 ((bat s (nz_start s i + 1) = 46%N /\ forall j, nz_start s i + 2 <= j < e -> bat s j = 48%N) \/
                  (bat s (nz_start s i + 1) <> 46%N /\ forall j, nz_start s i <= j < e -> bat s j = 48%N))).
Proof.
  intros HL H0 Hlt He Hst. unfold number_is_zero.
  replace (negb (i <? e)) with false by lia.
  rewrite rdin_ok by lia. cbn [jbind].
  assert (Hi1 : (if (bat s i =? 45)%N || (bat s i =? 43)%N
                 then (if negb (i + 1 <? e) then JOob else JOk (i + 1)) else JOk i) = JOk (nz_start s i)).
  { unfold nz_start in *. destruct ((bat s i =? 45)%N || (bat s i =? 43)%N); [|reflexivity].
    replace (negb (i + 1 <? e)) with false by lia. reflexivity. }
  rewrite Hi1. cbn [jbind].
  assert (Hi1r : i <= nz_start s i) by (unfold nz_start; destruct ((bat s i =? 45)%N || (bat s i =? 43)%N); lia).
  set (i1 := nz_start s i) in *. clearbody i1. clear Hi1.
  rewrite rdin_ok by lia. cbn [jbind].
  destruct (bat s i1 =? 48)%N eqn:H48.
  - rewrite rdin_ok by lia. cbn [jbind]. destruct (bat s (i1 + 1) =? 46)%N eqn:H46.
    + cbn [andb]. destruct (negb (i1 + 2 <? e)) eqn:Hc.
      * exists true. split; [reflexivity|]. split; [discriminate|]. intros _. split; [lia|].
        left. split; [lia|]. intros j Hj. lia.
      * destruct (nz_tail s (i1 + 2) e) as (z & Hz & Hk & Hall); [lia|lia|lia|lia|].
        exists z. split; [exact Hz|]. split.
        -- intro Hf. destruct (Hk Hf) as (k & Hkr & Hkn).
           exists k. split; [lia|]. split; [exact Hkn|]. intros _ _. lia.
        -- intro Ht. split; [lia|]. left. split; [lia|apply Hall; exact Ht].
    + cbn [andb]. destruct (nz_tail s i1 e) as (z & Hz & Hk & Hall); [lia|lia|lia|lia|].
      exists z. split; [exact Hz|]. split.
      * intro Hf. destruct (Hk Hf) as (k & Hkr & Hkn).
        exists k. split; [lia|]. split; [exact Hkn|]. intros _ Hc. lia.
      * intro Ht. split; [lia|]. right. split; [lia|apply Hall; exact Ht].
  - cbn [jbind andb]. destruct (nz_tail s i1 e) as (z & Hz & Hk & Hall); [lia|lia|lia|lia|].
    exists z. split; [exact Hz|]. split.
    + intro Hf. destruct (Hk Hf) as (k & Hkr & Hkn).
      exists k. split; [lia|]. split; [exact Hkn|]. intros Hc. lia.
    + intro Ht. exfalso. specialize (Hall Ht i1). lia.
Qed.

(* ================= S. what a decimal text denotes ================= *)
Lemma digits_val_dval l : forall acc, Forall isd l -> digits_val l acc = Some (dval l acc).
Proof.
  induction l as [|c l IH]; intros acc H; [reflexivity|].
  inversion H as [|c' l' Hc Hl]; subst c' l'. cbn [digits_val dval]. unfold isd in Hc. rewrite Hc. apply IH. exact Hl.
Qed.

Lemma dval_app a : forall b acc, dval (a ++ b) acc = dval b (dval a acc).
Proof. induction a as [|c a IH]; intros b acc; cbn [app dval]; [reflexivity|apply IH]. Qed.

Lemma dval_acc l : forall acc, dval l acc = acc * 10 ^ Ln l + dval l 0.
Proof.
  induction l as [|c l IH]; intro acc.
  - cbn [dval length]. change (10 ^ Z.of_nat 0) with 1. lia.
  - cbn [dval]. rewrite (IH (10 * acc + (Z.of_N c - 48))), (IH (10 * 0 + (Z.of_N c - 48))).
    cbn [length]. rewrite Nat2Z.inj_succ, Z.pow_succ_r by lia. ring.
Qed.

Lemma dval_repeat0 n : forall acc, dval (repeat 48%N n) acc = acc * 10 ^ Z.of_nat n.
Proof.
  induction n as [|n IH]; intro acc.
  - cbn [repeat dval]. change (10 ^ Z.of_nat 0) with 1. lia.
  - cbn [repeat dval]. rewrite IH. rewrite Nat2Z.inj_succ, Z.pow_succ_r by lia.
    change (Z.of_N 48 - 48) with 0. ring.
Qed.

Lemma dval_zeros_l n l : dval (repeat 48%N n ++ l) 0 = dval l 0.
Proof. rewrite dval_app, dval_repeat0. reflexivity. Qed.

Lemma split_at_none c A : Forall (fun x => x <> c) A -> split_at c A = (A, None).
Proof.
  induction A as [|x A IH]; intro H; [reflexivity|].
  inversion H as [|x' A' Hx HA]; subst x' A'. cbn [split_at].
  replace (x =? c)%N with false by lia. rewrite (IH HA). reflexivity.
Qed.

Lemma split_at_some c A B : Forall (fun x => x <> c) A -> split_at c (A ++ c :: B) = (A, Some B).
Proof.
  induction A as [|x A IH]; intro H.
  - cbn [app split_at]. rewrite N.eqb_refl. reflexivity.
  - inversion H as [|x' A' Hx HA]; subst x' A'. cbn [app split_at].
    replace (x =? c)%N with false by lia. rewrite (IH HA). reflexivity.
Qed.

Lemma isd_ne c x : isd x -> (c < 48 \/ 57 < c)%N -> x <> c.
Proof. unfold isd, is_digit. lia. Qed.

Lemma Forall_isd_ne c l : (c < 48 \/ 57 < c)%N -> Forall isd l -> Forall (fun x => x <> c) l.
Proof. intros Hc H. eapply Forall_impl; [|exact H]. intros x Hx. apply isd_ne; assumption. Qed.

Definition sgz (minus x : Z) : Z := if minus =? 1 then - x else x.

Definition sign_split (s : bytes) : bool * bytes :=
  match s with
  | c :: r => if (c =? 45)%N then (true, r) else (false, s)
  | [] => (false, s)
  end.

Lemma dec_sign_eq s : (match s with 45%N :: r => (true, r) | _ => (false, s) end) = sign_split s.
Proof.
  destruct s as [|c r]; [reflexivity|]. unfold sign_split.
  destruct c as [|p]; [reflexivity|].
  do 6 (destruct p as [p|p|]; try reflexivity).
Qed.

Lemma sign_split_sgnl minus A :
  minus = 0 \/ minus = 1 -> A <> [] -> Forall isd A -> sign_split (sgnl minus ++ A) = (minus =? 1, A).
Proof.
  intros [-> | ->] Hne HA; [|reflexivity]. cbn [sgnl Z.eqb app].
  destruct A as [|c A]; [contradiction|]. inversion HA as [|c' A' Hc HA']; subst c' A'.
  unfold sign_split. replace (c =? 45)%N with false; [reflexivity|]. unfold isd, is_digit in Hc. lia.
Qed.

Lemma dec_denote_int minus A :
  minus = 0 \/ minus = 1 -> A <> [] -> Forall isd A ->
  dec_denote (sgnl minus ++ A) = Some (sgz minus (dval A 0), 0).
Proof.
  intros Hm Hne HA. unfold dec_denote. rewrite dec_sign_eq, (sign_split_sgnl minus A Hm Hne HA).
  rewrite (split_at_none 46%N A) by (apply Forall_isd_ne; [lia|exact HA]).
  destruct A as [|c A]; [contradiction|]. rewrite app_nil_r.
  rewrite (digits_val_dval _ 0 HA). reflexivity.
Qed.

Lemma dec_denote_frac minus A B :
  minus = 0 \/ minus = 1 -> A <> [] -> B <> [] -> Forall isd A -> Forall isd B ->
  dec_denote (sgnl minus ++ A ++ 46%N :: B) = Some (sgz minus (dval (A ++ B) 0), - Ln B).
Proof.
  intros Hm HneA HneB HA HB. unfold dec_denote.
  assert (Hsp : sign_split (sgnl minus ++ A ++ 46%N :: B) = (minus =? 1, A ++ 46%N :: B)).
  { destruct Hm as [-> | ->]; [|reflexivity]. cbn [sgnl Z.eqb app].
    destruct A as [|c A]; [contradiction|]. inversion HA as [|c' A' Hc HA']; subst c' A'.
    unfold sign_split. cbn [app]. replace (c =? 45)%N with false; [reflexivity|].
    unfold isd, is_digit in Hc. lia. }
  rewrite dec_sign_eq, Hsp.
  rewrite (split_at_some 46%N A B) by (apply Forall_isd_ne; [lia|exact HA]).
  destruct A as [|c A]; [contradiction|]. destruct B as [|d B]; [contradiction|].
  rewrite (digits_val_dval _ 0) by (apply Forall_app; split; assumption). reflexivity.
Qed.

Definition exp_sign_split (ex : bytes) : bool * bytes :=
  match ex with
  | c :: r => if (c =? 45)%N then (true, r) else if (c =? 43)%N then (false, r) else (false, ex)
  | [] => (false, ex)
  end.

Lemma exp_sign_eq ex :
  (match ex with 45%N :: r => (true, r) | 43%N :: r => (false, r) | _ => (false, ex) end) = exp_sign_split ex.
Proof.
  destruct ex as [|c r]; [reflexivity|]. unfold exp_sign_split.
  destruct c as [|p]; [reflexivity|].
  do 6 (destruct p as [p|p|]; try reflexivity).
Qed.

Definition noexp (c : N) : Prop := c <> 101%N /\ c <> 69%N.

Lemma split_exp_none M : Forall noexp M -> split_exp M = (M, None).
Proof.
  intro H. unfold split_exp.
  rewrite (split_at_none 101%N M) by (eapply Forall_impl; [|exact H]; intros x (Hx & _); exact Hx).
  apply split_at_none. eapply Forall_impl; [|exact H]. intros x (_ & Hx). exact Hx.
Qed.

Lemma split_exp_some M E X :
  Forall noexp M -> Forall noexp X -> E = 101%N \/ E = 69%N -> split_exp (M ++ E :: X) = (M, Some X).
Proof.
  intros HM HX HE. unfold split_exp.
  assert (HM1 : Forall (fun x => x <> 101%N) M) by (eapply Forall_impl; [|exact HM]; intros x (Hx & _); exact Hx).
  assert (HM2 : Forall (fun x => x <> 69%N) M) by (eapply Forall_impl; [|exact HM]; intros x (_ & Hx); exact Hx).
  destruct HE as [-> | ->].
  - rewrite (split_at_some 101%N M X HM1). reflexivity.
  - rewrite (split_at_none 101%N (M ++ 69%N :: X)).
    + apply split_at_some. exact HM2.
    + apply Forall_app. split; [exact HM1|]. constructor; [discriminate|].
      eapply Forall_impl; [|exact HX]. intros x (Hx & _). exact Hx.
Qed.

Lemma json_denote_noexp M v : Forall noexp M -> dec_denote M = Some v -> json_denote M = Some v.
Proof.
  intros HM Hd. unfold json_denote. rewrite (split_exp_none M HM), Hd. destruct v as [mv me]. reflexivity.
Qed.

Lemma json_denote_exp M E X mv me neg D :
  Forall noexp M -> Forall noexp X -> E = 101%N \/ E = 69%N -> dec_denote M = Some (mv, me) ->
  exp_sign_split X = (neg, D) -> D <> [] -> Forall isd D ->
  json_denote (M ++ E :: X) = Some (mv, me + (if neg then - dval D 0 else dval D 0)).
Proof.
  intros HM HX HE Hd Hs Hne HD. unfold json_denote. rewrite (split_exp_some M E X HM HX HE), Hd.
  rewrite exp_sign_eq, Hs. destruct D as [|d D]; [contradiction|].
  rewrite (digits_val_dval _ 0 HD). reflexivity.
Qed.

Lemma same_value_refl a : same_value a a = true.
Proof. destruct a as [m e]. unfold same_value. apply Z.eqb_refl. Qed.

Lemma pow10_pos k : 0 <= k -> 0 < 10 ^ k.
Proof. intro H. apply Z.pow_pos_nonneg; lia. Qed.

Lemma sv_iff m1 e1 m2 e2 e : e <= e1 -> e <= e2 ->
  (same_value (m1, e1) (m2, e2) = true <-> m1 * 10 ^ (e1 - e) = m2 * 10 ^ (e2 - e)).
Proof.
  intros H1 H2. unfold same_value. rewrite Z.eqb_eq.
  remember (Z.min e1 e2) as e0 eqn:He0.
  replace (e1 - e) with ((e1 - e0) + (e0 - e)) by lia.
  replace (e2 - e) with ((e2 - e0) + (e0 - e)) by lia.
  rewrite !Z.pow_add_r by lia. rewrite !Z.mul_assoc.
  assert (Hpos : 0 < 10 ^ (e0 - e)) by (apply pow10_pos; lia).
  split; intro H; [rewrite H; reflexivity|].
  apply Z.mul_cancel_r in H; [exact H|lia].
Qed.

Lemma pow10_neg_0 k : k < 0 -> 10 ^ k = 0.
Proof. intro H. apply Z.pow_neg_r. exact H. Qed.

Lemma same_value_trans a b c : same_value a b = true -> same_value b c = true -> same_value a c = true.
Proof.
  destruct a as [m1 e1], b as [m2 e2], c as [m3 e3]. intros H12 H23.
  remember (Z.min e1 (Z.min e2 e3)) as e eqn:He.
  apply (sv_iff m1 e1 m2 e2 e) in H12; [|lia|lia].
  apply (sv_iff m2 e2 m3 e3 e) in H23; [|lia|lia].
  apply (sv_iff m1 e1 m3 e3 e); [lia|lia|]. congruence.
Qed.

Lemma sgz_mul minus x k : sgz minus x * k = sgz minus (x * k).
Proof. unfold sgz. destruct (minus =? 1); ring. Qed.
