(* Properties_C05_jsonnum.v - property C05 (arbitrary input never crashes, reads or writes out of bounds),
   JSON number part: lyjson_number() and lyjson_exp_number() of src/json.c with their helpers. Theorem
   statements only. Model: JsonNum.v (every read of the NUL-terminated text answers JOob outside the text
   and its NUL, every store into the block from malloc() answers JOob outside the block, a failed assert()
   answers JOob too); proofs: JsonNumP.v.

   Result: memory safety holds at full strength (C05_jsonnum_no_oob). The computed length is NOT always
   the number of bytes stored, and the produced text is NOT always the number that was given: the second
   layout of lyjson_exp_number() (leading `0.` and the new decimal point inside the digits) is wrong, see
   the ..._refuted theorems; what remains true of the length is C05_jsonnum_len_bounded.
   Not covered: pointer VALUES that leave the object without being dereferenced (header of JsonNum.v). *)
From LY Require Import Base JsonNum JsonNumP.
Local Open Scope Z_scope.

(* no_oob at full strength: for EVERY byte string (taken as a C string: it ends at its first NUL; a JSON
   number or not) lyjson_number() reads only inside the text and its NUL, stores only inside the block it
   obtained from malloc() (whose size is computed with the C integer widths), passes no wrapped size to
   memset(), fires none of the assert()s of the six functions, and its loops end within the fuel of the
   model. The only hypothesis is that the text is shorter than 4 GiB, so that the uint32_t counter of
   lyjson_count_in_row() cannot wrap. *)
Theorem C05_jsonnum_no_oob :
  forall s : bytes, (Z.of_nat (length s) < 4294967296)%Z ->
    number_c s <> JOob /\ number_c s <> JErr E_FUEL.
Proof. exact number_c_no_oob. Qed.
Print Assumptions C05_jsonnum_no_oob.

(* `computed length = bytes written` is FALSE as coded: for 0.5E1 two bytes are stored (`.` and `5`)
   but buf_len is 1; the terminating NUL overwrites the second byte *)
Theorem C05_jsonnum_len_exact_refuted :
  exists s r x, number_c s = JOk r /\ n_exp r = Some x /\ x_end x <> x_len x.
Proof. exact len_exact_refuted. Qed.
Print Assumptions C05_jsonnum_len_exact_refuted.

(* the wrong results as coded:  0.5E1 -> `.`   0.55E1 -> `.5`   0.055E2 -> `5.`   0.0055E3 -> `55`
   0.123456E3 -> `12.345` *)
Example C05_jsonnum_wrong_values :
  value_of w_05E1 = [Some 46%N] /\
  value_of w_055E1 = [Some 46%N; Some 53%N] /\
  value_of w_0055E2 = [Some 53%N; Some 46%N] /\
  value_of w_00055E3 = [Some 53%N; Some 53%N] /\
  value_of w_0123456E3 = [Some 49%N; Some 50%N; Some 46%N; Some 51%N; Some 52%N; Some 53%N].
Proof. exact wrong_values. Qed.

(* the part of `computed length = bytes written + NUL` that does hold, for every text: the block has
   exactly buf_len + 1 bytes and that is at most LY_NUMBER_MAXLEN; the bytes stored before the NUL are
   buf_len or buf_len + 1, so they never leave the block; outside layout 2 the count is exact; and the
   value handed on (the first buf_len bytes) never contains a byte that was not written, i.e. no
   uninitialised heap byte *)
Theorem C05_jsonnum_len_bounded :
  forall s : bytes, (Z.of_nat (length s) < 4294967296)%Z ->
  forall r x, number_c s = JOk r -> n_exp r = Some x ->
    Z.of_nat (length (x_buf x)) = x_len x + 1 /\ 0 <= x_len x < 22 /\
    x_len x <= x_end x <= x_len x + 1 /\ (x_branch x <> 2%N -> x_end x = x_len x) /\
    all_init (n_value r) = true.
Proof. exact number_c_len_bounded. Qed.
Print Assumptions C05_jsonnum_len_bounded.

(* `the produced text denotes the number that was given` is FALSE as coded: 0.5E1 gives `.` *)
Theorem C05_jsonnum_denotes_refuted :
  exists s r, number_c s = JOk r /\ denotes_ok (cstr s) r = false.
Proof. exact denotes_refuted. Qed.
Print Assumptions C05_jsonnum_denotes_refuted.

(* and it can fail silently: 0.0055E3 is 55 * 10^-1 = 5.5, the text produced is `55`, a well-formed
   decimal that a later parser accepts as another number *)
Theorem C05_jsonnum_denotes_refuted_silent :
  exists s r, number_c s = JOk r /\ denotes_ok (cstr s) r = false /\
              json_denote (cstr s) = Some (55, -1) /\ dec_denote (cells_bytes (n_value r)) = Some (55, 0).
Proof. exact denotes_refuted_silent. Qed.
Print Assumptions C05_jsonnum_denotes_refuted_silent.

(* finite sweep (37449 strings: all of at most five characters over  0 1 5 - + . E e): whenever the
   number is accepted and the result is not produced by layout 2, the produced text is initialised, a
   well-formed decimal, and denotes the number that was given. The sweep meets all five layouts
   (sweep_layouts in JsonNumP.v) *)
Theorem C05_jsonnum_denotes_bounded :
  forall s, (length s <= 5)%nat -> Forall (fun c => In c sweep_alphabet) s ->
  forall r, number_c s = JOk r ->
    (n_dynamic r = false \/ exists x, n_exp r = Some x /\ x_branch x <> 2%N) ->
    denotes_ok (cstr s) r = true.
Proof. exact denotes_bounded. Qed.
Print Assumptions C05_jsonnum_denotes_bounded.

(* the statements are not vacuous: -12.5E-1 is accepted, layout 3, and gives -1.25 with an exact count;
   1E-2 gives 0.01 (layout 1); 0.25E4 gives 2500 (layout 4); 1.5E1 gives 15 (layout 5); `1E` is
   rejected; 1E99999 has an exponent out of bounds; 1E30 exceeds LY_NUMBER_MAXLEN *)
Example C05_jsonnum_hypotheses_satisfiable :
  let s := [45;49;50;46;53;69;45;49]%N in
  (Z.of_nat (length s) < 4294967296)%Z /\
  (exists r x, number_c s = JOk r /\ n_exp r = Some x /\ x_branch x = 3%N /\ x_end x = x_len x /\
               denotes_ok (cstr s) r = true) /\
  value_of s = [Some 45%N; Some 49%N; Some 46%N; Some 50%N; Some 53%N] /\
  value_of [49;69;45;50]%N = [Some 48%N; Some 46%N; Some 48%N; Some 49%N] /\
  value_of [48;46;50;53;69;52]%N = [Some 50%N; Some 53%N; Some 48%N; Some 48%N] /\
  value_of [49;46;53;69;49]%N = [Some 49%N; Some 53%N] /\
  number_c [49;69]%N = JErr E_CHAR /\
  number_c [49;69;57;57;57;57;57]%N = JErr E_EXP /\
  number_c [49;69;51;48]%N = JErr E_MAXLEN.
Proof.
  cbv zeta. split; [cbn [length]; lia|]. split.
  - eexists. eexists. split; [vm_compute; reflexivity|]. vm_compute. repeat split.
  - vm_compute. repeat split.
Qed.
