(* Properties_C05_jsonnum.v - property C05 (arbitrary input never crashes, reads or writes out of bounds),
   JSON number part: lyjson_number() and lyjson_exp_number() of src/json.c with their helpers. Theorem
   statements only. Model: JsonNum.v (every read of the NUL-terminated text answers JOob outside the text
   and its NUL, every store into the block from malloc() answers JOob outside the block, a failed assert()
   answers JOob too); proofs: JsonNumP.v.

   History: an earlier version of the code (and of the model) was wrong in the second layout of
   lyjson_exp_number() (leading `0.` and the new decimal point inside the digits): the position of the
   new decimal point was taken before the useless leading zeros were dropped and its byte was not counted
   in buf_len, so 0.5E1 gave `.`, 0.55E1 `.5`, 0.055E2 `5.`, 0.0055E3 `55` (silently another number) and
   0.123456E3 `12.345`, one byte more than buf_len being stored (still inside the block). This file then
   held ..._len_exact_refuted, ..._denotes_refuted(_silent) with these witnesses and the weaker
   ..._len_bounded. The defect was fixed in /repo commit 63186d2. The model transcribes the fixed code
   and the three properties now hold at full strength for every input; the former witnesses are kept as a
   regression example.
   Not covered: pointer VALUES that leave the object without being dereferenced (header of JsonNum.v). *)
From LY Require Import Base JsonNum JsonNumP.
Local Open Scope Z_scope.

(* no_oob at full strength: for EVERY byte string (taken as a C string: it ends at its first NUL; a JSON
   number or not) lyjson_number() reads only inside the text and its NUL, stores only inside the block it
   obtained from malloc() (whose size is computed with the C integer widths), passes no wrapped size to
   memset(), fires none of the assert()s of the six functions, and its loops end within the fuel of the
   model. The only hypothesis is that the text is shorter than 4 GiB, so that the uint32_t counter of
   lyjson_count_in_row() cannot wrap. *)
Theorem C05_jsonnum_no_oob :
  forall s : bytes, (Z.of_nat (length s) < 4294967296)%Z ->
    number_c s <> JOob /\ number_c s <> JErr E_FUEL.
Proof. exact number_c_no_oob. Qed.
Print Assumptions C05_jsonnum_no_oob.

(* computed length = bytes written + NUL, at full strength: whenever lyjson_exp_number() produces a
   value, the block has exactly buf_len + 1 bytes, that is at most LY_NUMBER_MAXLEN, exactly buf_len
   bytes are stored before the terminating NUL (in every one of the five layouts), and the value handed
   on never contains a byte that was not written, i.e. no uninitialised heap byte *)
Theorem C05_jsonnum_len_exact :
  forall s : bytes, (Z.of_nat (length s) < 4294967296)%Z ->
  forall r x, number_c s = JOk r -> n_exp r = Some x ->
    Z.of_nat (length (x_buf x)) = x_len x + 1 /\ 0 <= x_len x < 22 /\ x_end x = x_len x /\
    all_init (n_value r) = true.
Proof. exact number_c_len_exact. Qed.
Print Assumptions C05_jsonnum_len_exact.

(* the value is right, at full strength: for EVERY accepted text, the bytes that become jsonctx->value
   are all initialised, form a well-formed plain decimal (optional minus, digits, optional point with
   digits on both sides) and denote the same rational number as the JSON text that was consumed:
   mantissa x 10^exponent. This covers the five layouts of lyjson_exp_number() and the three outcomes
   without conversion (zero mantissa gives 0 or -0, zero exponent and no exponent give the mantissa
   verbatim). denotes_ok / json_denote / dec_denote / same_value are defined in JsonNum.v. *)
Theorem C05_jsonnum_denotes :
  forall s : bytes, (Z.of_nat (length s) < 4294967296)%Z ->
  forall r, number_c s = JOk r -> denotes_ok (cstr s) r = true.
Proof. exact number_c_denotes. Qed.
Print Assumptions C05_jsonnum_denotes.

(* the same statement on a finite set (37449 strings: all of at most five characters over
   0 1 5 - + . E e), by computation only and without any exclusion: a check of the theorem above that
   does not go through its proof. The set meets all five layouts (sweep_layouts in JsonNumP.v). *)
Theorem C05_jsonnum_denotes_bounded :
  forall s, (length s <= 5)%nat -> Forall (fun c => In c sweep_alphabet) s ->
  forall r, number_c s = JOk r -> denotes_ok (cstr s) r = true.
Proof. exact denotes_bounded. Qed.
Print Assumptions C05_jsonnum_denotes_bounded.

(* regression: the former witnesses of the layout-2 defect now give
   0.5E1 -> `5`   0.55E1 -> `5.5`   0.055E2 -> `5.5`   0.0055E3 -> `5.5`   0.123456E3 -> `123.456`
   and each denotes the number that was given *)
Example C05_jsonnum_former_witnesses :
  value_of w_05E1 = [Some 53%N] /\
  value_of w_055E1 = [Some 53%N; Some 46%N; Some 53%N] /\
  value_of w_0055E2 = [Some 53%N; Some 46%N; Some 53%N] /\
  value_of w_00055E3 = [Some 53%N; Some 46%N; Some 53%N] /\
  value_of w_0123456E3 = [Some 49%N; Some 50%N; Some 51%N; Some 46%N; Some 52%N; Some 53%N; Some 54%N] /\
  map denotes_of [w_05E1; w_055E1; w_0055E2; w_00055E3; w_0123456E3] = [true; true; true; true; true].
Proof. exact former_witnesses. Qed.

(* the statements are not vacuous: -12.5E-1 is accepted, layout 3, and gives -1.25 with an exact count;
   1E-2 gives 0.01 (layout 1); 0.025E2 gives 2.5 (layout 2); 0.25E4 gives 2500 (layout 4); 1.5E1 gives 15
   (layout 5); -0.00E7 gives -0; 12.50E0 gives 12.50; `1E` is rejected; 1E99999 has an exponent out of
   bounds; 1E30 exceeds LY_NUMBER_MAXLEN *)
Example C05_jsonnum_hypotheses_satisfiable :
  let s := [45;49;50;46;53;69;45;49]%N in
  (Z.of_nat (length s) < 4294967296)%Z /\
  (exists r x, number_c s = JOk r /\ n_exp r = Some x /\ x_branch x = 3%N /\ x_end x = x_len x /\
               denotes_ok (cstr s) r = true) /\
  value_of s = [Some 45%N; Some 49%N; Some 46%N; Some 50%N; Some 53%N] /\
  value_of [49;69;45;50]%N = [Some 48%N; Some 46%N; Some 48%N; Some 49%N] /\
  value_of [48;46;48;50;53;69;50]%N = [Some 50%N; Some 46%N; Some 53%N] /\
  value_of [48;46;50;53;69;52]%N = [Some 50%N; Some 53%N; Some 48%N; Some 48%N] /\
  value_of [49;46;53;69;49]%N = [Some 49%N; Some 53%N] /\
  value_of [45;48;46;48;48;69;55]%N = [Some 45%N; Some 48%N] /\
  value_of [49;50;46;53;48;69;48]%N = [Some 49%N; Some 50%N; Some 46%N; Some 53%N; Some 48%N] /\
  number_c [49;69]%N = JErr E_CHAR /\
  number_c [49;69;57;57;57;57;57]%N = JErr E_EXP /\
  number_c [49;69;51;48]%N = JErr E_MAXLEN.
Proof.
  cbv zeta. split; [cbn [length]; lia|]. split.
  - eexists. eexists. split; [vm_compute; reflexivity|]. vm_compute. repeat split.
  - vm_compute. repeat split.
Qed.
