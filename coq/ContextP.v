(* ContextP.v — slice ctx (property C09): lemmas and proofs about the model Context.v.

   Main result: failed_restores — from a quiescent state (nothing pending, every implemented module compiled
   against the current features, no to_compile mark) a failing operation that does not take the latest-revision
   flag from an existing module and does not change the feature bits of an existing module leaves the
   observable state as it was. The proof follows the phases of an operation:
     parse (lys_parse_in / lys_parse_load)       invariant PI  : old modules only change their flag bits, new
                                                                  modules are appended and recorded in creating
     implement, dep sets, compile                invariant QI  : old modules keep frame, implemented ones stay
                                                                  implemented, a changed compiled tree belongs to
                                                                  a module that is still marked to_compile and
                                                                  sits in one of the dep sets
     revert                                      un-implement, remove the created tail, recompile the marked *)
From Coq Require Import Permutation.
From LY Require Import Base Context.
Local Open Scope N_scope.

(* ------------------------------------------------------------------------------------------------ *)
(* keys                                                                                             *)
(* ------------------------------------------------------------------------------------------------ *)
Lemma key_eqb_eq a b : key_eqb a b = true <-> a = b.
Proof.
  destruct a as [a1 a2], b as [b1 b2]. unfold key_eqb. cbn [fst snd]. rewrite andb_true_iff, !N.eqb_eq.
  split; [intros [-> ->]; reflexivity|intros H; inversion H; split; reflexivity].
Qed.
Lemma key_eqb_refl a : key_eqb a a = true.
Proof. apply key_eqb_eq. reflexivity. Qed.
Lemma key_eqb_neq a b : key_eqb a b = false <-> a <> b.
Proof.
  split.
  - intros H E. apply key_eqb_eq in E. congruence.
  - intros H. destruct (key_eqb a b) eqn:E; [apply key_eqb_eq in E; contradiction|reflexivity].
Qed.
Lemma key_eqb_sym a b : key_eqb a b = key_eqb b a.
Proof.
  destruct (key_eqb a b) eqn:E.
  - apply key_eqb_eq in E. subst. symmetry. apply key_eqb_refl.
  - symmetry. apply key_eqb_neq. apply key_eqb_neq in E. congruence.
Qed.
Lemma key_dec (a b : key) : {a = b} + {a <> b}.
Proof. destruct (key_eqb a b) eqn:E; [left; apply key_eqb_eq; exact E|right; apply key_eqb_neq; exact E]. Qed.

Lemma kmem_In k l : kmem k l = true <-> In k l.
Proof.
  induction l as [|x l IH]; cbn [kmem In].
  - split; [discriminate|tauto].
  - rewrite orb_true_iff, IH, key_eqb_eq. tauto.
Qed.
Lemma kmem_false k l : kmem k l = false <-> ~ In k l.
Proof. rewrite <- kmem_In. destruct (kmem k l); split; congruence. Qed.

Definition keys (l : list modl) : list key := map mkey l.

(* every setter keeps the key *)
Lemma mkey_set_impl b m : mkey (set_impl b m) = mkey m. Proof. reflexivity. Qed.
Lemma mkey_set_latest b m : mkey (set_latest b m) = mkey m. Proof. reflexivity. Qed.
Lemma mkey_set_lsearch b m : mkey (set_lsearch b m) = mkey m. Proof. reflexivity. Qed.
Lemma mkey_set_imprev b m : mkey (set_imprev b m) = mkey m. Proof. reflexivity. Qed.
Lemma mkey_set_limpclb b m : mkey (set_limpclb b m) = mkey m. Proof. reflexivity. Qed.
Lemma mkey_set_feats f m : mkey (set_feats f m) = mkey m. Proof. reflexivity. Qed.
Lemma mkey_set_imps i m : mkey (set_imps i m) = mkey m. Proof. reflexivity. Qed.
Lemma mkey_set_tc b m : mkey (set_tc b m) = mkey m. Proof. reflexivity. Qed.
Lemma mkey_set_comp c m : mkey (set_comp c m) = mkey m. Proof. reflexivity. Qed.

(* ------------------------------------------------------------------------------------------------ *)
(* upd, find_mod                                                                                    *)
(* ------------------------------------------------------------------------------------------------ *)
Lemma upd_app k g l1 l2 : upd k g (l1 ++ l2) = upd k g l1 ++ upd k g l2.
Proof. unfold upd. apply map_app. Qed.

Lemma upd_length k g l : length (upd k g l) = length l.
Proof. unfold upd. apply map_length. Qed.

Lemma keys_upd k g l : (forall m, mkey (g m) = mkey m) -> keys (upd k g l) = keys l.
Proof.
  intros Hg. unfold keys, upd. rewrite map_map. apply map_ext. intros m.
  destruct (key_eqb (mkey m) k); [apply Hg|reflexivity].
Qed.

Lemma upd_notin k g l : ~ In k (keys l) -> upd k g l = l.
Proof.
  induction l as [|m l IH]; cbn [upd map keys In]; intros H; [reflexivity|].
  destruct (key_eqb (mkey m) k) eqn:E.
  - apply key_eqb_eq in E. exfalso. apply H. left. exact E.
  - f_equal. apply IH. intros Hin. apply H. right. exact Hin.
Qed.

Lemma upd_firstn n k g l : firstn n (upd k g l) = upd k g (firstn n l).
Proof. unfold upd. apply firstn_map. Qed.
Lemma upd_skipn n k g l : skipn n (upd k g l) = upd k g (skipn n l).
Proof. unfold upd. apply skipn_map. Qed.

Lemma find_mod_In k l m : find_mod k l = Some m -> In m l /\ mkey m = k.
Proof.
  unfold find_mod. intros H. apply find_some in H. destruct H as [H1 H2]. apply key_eqb_eq in H2. tauto.
Qed.
Lemma find_mod_none k l : find_mod k l = None <-> ~ In k (keys l).
Proof.
  induction l as [|m l IH]; cbn [find_mod find keys map In].
  - tauto.
  - unfold find_mod in IH. destruct (key_eqb (mkey m) k) eqn:E.
    + apply key_eqb_eq in E. split; [discriminate|intros H; exfalso; apply H; left; exact E].
    + apply key_eqb_neq in E. rewrite IH. unfold keys. tauto.
Qed.
Lemma find_mod_some_in k l : In k (keys l) -> exists m, find_mod k l = Some m.
Proof.
  intros H. destruct (find_mod k l) eqn:E; [eexists; reflexivity|]. apply find_mod_none in E. contradiction.
Qed.
Lemma find_mod_app k l1 l2 :
  find_mod k (l1 ++ l2) = match find_mod k l1 with Some m => Some m | None => find_mod k l2 end.
Proof.
  unfold find_mod. induction l1 as [|m l1 IH]; cbn [app find]; [reflexivity|].
  destruct (key_eqb (mkey m) k); [reflexivity|exact IH].
Qed.

(* with unique keys the module with a key is the one find_mod returns *)
Lemma find_mod_unique k l m :
  NoDup (keys l) -> In m l -> mkey m = k -> find_mod k l = Some m.
Proof.
  induction l as [|x l IH]; cbn [keys map In]; intros Hnd Hin Hk; [contradiction|].
  inversion Hnd as [|? ? Hx Hnd']; subst. unfold find_mod. cbn [find].
  destruct Hin as [->|Hin].
  - rewrite key_eqb_refl. reflexivity.
  - destruct (key_eqb (mkey x) (mkey m)) eqn:E.
    + apply key_eqb_eq in E. exfalso. apply Hx. rewrite E. apply in_map. exact Hin.
    + apply IH; [exact Hnd'|exact Hin|reflexivity].
Qed.

Lemma find_mod_upd_same k g l m :
  (forall m, mkey (g m) = mkey m) -> find_mod k l = Some m -> find_mod k (upd k g l) = Some (g m).
Proof.
  intros Hg. unfold find_mod, upd. induction l as [|x l IH]; cbn [find map]; [discriminate|].
  destruct (key_eqb (mkey x) k) eqn:E.
  - intros H. inversion H; subst. rewrite Hg, E. reflexivity.
  - rewrite E. exact IH.
Qed.
Lemma find_mod_upd_other k k' g l :
  (forall m, mkey (g m) = mkey m) -> k' <> k -> find_mod k' (upd k g l) = find_mod k' l.
Proof.
  intros Hg Hne. unfold find_mod, upd. induction l as [|x l IH]; cbn [find map]; [reflexivity|].
  destruct (key_eqb (mkey x) k) eqn:E.
  - apply key_eqb_eq in E. rewrite Hg.
    assert (Hf : key_eqb (mkey x) k' = false) by (apply key_eqb_neq; congruence).
    rewrite Hf. exact IH.
  - destruct (key_eqb (mkey x) k'); [reflexivity|exact IH].
Qed.
Lemma find_mod_upd_none k k' g l :
  (forall m, mkey (g m) = mkey m) -> find_mod k' (upd k g l) = None <-> find_mod k' l = None.
Proof. intros Hg. rewrite !find_mod_none, keys_upd by exact Hg. tauto. Qed.

(* the shape of find_mod after an update, in one statement *)
Lemma find_mod_upd k k' g l :
  (forall m, mkey (g m) = mkey m) ->
  find_mod k' (upd k g l) =
  match find_mod k' l with
  | Some m => Some (if key_eqb k' k then g m else m)
  | None => None
  end.
Proof.
  intros Hg. destruct (key_eqb k' k) eqn:E.
  - apply key_eqb_eq in E. subst k'. destruct (find_mod k l) eqn:F.
    + apply find_mod_upd_same; assumption.
    + apply find_mod_upd_none; assumption.
  - apply key_eqb_neq in E. rewrite find_mod_upd_other by assumption. destruct (find_mod k' l); reflexivity.
Qed.

(* Forall2 along an update of the right list *)
Lemma Forall2_upd_r (R : modl -> modl -> Prop) k g l l' :
  Forall2 R l l' -> (forall m m', R m m' -> mkey m' = k -> R m (g m')) -> Forall2 R l (upd k g l').
Proof.
  intros H Hg. induction H as [|m m' l l' Hr H IH]; cbn [upd map]; [constructor|].
  constructor; [|exact IH].
  destruct (key_eqb (mkey m') k) eqn:E; [apply Hg; [exact Hr|apply key_eqb_eq; exact E]|exact Hr].
Qed.

Lemma Forall2_impl {A B} (R R' : A -> B -> Prop) l l' :
  (forall a b, R a b -> R' a b) -> Forall2 R l l' -> Forall2 R' l l'.
Proof. intros H F. induction F; constructor; auto. Qed.

Lemma Forall2_conj {A B} (R R' : A -> B -> Prop) l l' :
  Forall2 R l l' -> Forall2 R' l l' -> Forall2 (fun a b => R a b /\ R' a b) l l'.
Proof.
  intros F. induction F as [|a b l l' H F IH]; intros F'; inversion F'; subst; constructor; auto.
Qed.

Lemma Forall2_length' {A B} (R : A -> B -> Prop) l l' : Forall2 R l l' -> length l = length l'.
Proof. intros F. induction F; cbn; congruence. Qed.

Lemma Forall2_map_eq {A B C} (f : A -> C) (g : B -> C) l l' :
  Forall2 (fun a b => g b = f a) l l' <-> map g l' = map f l.
Proof.
  split.
  - intros F. induction F; cbn; congruence.
  - revert l'. induction l as [|a l IH]; intros [|b l'] H; cbn in H; try discriminate; constructor.
    + inversion H. reflexivity.
    + apply IH. inversion H. reflexivity.
Qed.

Lemma Forall2_In_l {A B} (R : A -> B -> Prop) l l' a :
  Forall2 R l l' -> In a l -> exists b, In b l' /\ R a b.
Proof.
  intros F. induction F as [|x y l l' H F IH]; cbn [In]; [tauto|].
  intros [->|Hin]; [exists y; tauto|]. destruct (IH Hin) as [b [Hb Hr]]. exists b. tauto.
Qed.
Lemma Forall2_In_r {A B} (R : A -> B -> Prop) l l' b :
  Forall2 R l l' -> In b l' -> exists a, In a l /\ R a b.
Proof.
  intros F. induction F as [|x y l l' H F IH]; cbn [In]; [tauto|].
  intros [->|Hin]; [exists x; tauto|]. destruct (IH Hin) as [a [Ha Hr]]. exists a. tauto.
Qed.

(* corresponding modules of two lists with the same keys *)
Lemma find_mod_Forall2 (R : modl -> modl -> Prop) k l l' m :
  Forall2 (fun a b => mkey b = mkey a /\ R a b) l l' -> find_mod k l = Some m ->
  exists m', find_mod k l' = Some m' /\ R m m'.
Proof.
  intros F. unfold find_mod. induction F as [|a b l l' [Hk Hr] F IH]; cbn [find]; [discriminate|].
  rewrite Hk. destruct (key_eqb (mkey a) k).
  - intros H. inversion H; subst. exists b. tauto.
  - exact IH.
Qed.
Lemma find_mod_Forall2_r (R : modl -> modl -> Prop) k l l' m' :
  Forall2 (fun a b => mkey b = mkey a /\ R a b) l l' -> find_mod k l' = Some m' ->
  exists m, find_mod k l = Some m /\ R m m'.
Proof.
  intros F. unfold find_mod. induction F as [|a b l l' [Hk Hr] F IH]; cbn [find]; [discriminate|].
  rewrite Hk. destruct (key_eqb (mkey a) k).
  - intros H. inversion H; subst. exists a. tauto.
  - exact IH.
Qed.

Lemma keys_Forall2 (R : modl -> modl -> Prop) l l' :
  Forall2 (fun a b => mkey b = mkey a /\ R a b) l l' -> keys l' = keys l.
Proof. intros F. unfold keys. induction F as [|a b l l' [Hk _] F IH]; cbn; congruence. Qed.

(* ------------------------------------------------------------------------------------------------ *)
(* rm_index / rm_mod / rm_key                                                                       *)
(* ------------------------------------------------------------------------------------------------ *)
Lemma last_removelast_perm {A} (r : list A) (x : A) :
  r <> [] -> Permutation (last r x :: removelast r) r.
Proof.
  intros H. rewrite (app_removelast_last x H) at 3.
  apply Permutation_cons_append.
Qed.

Lemma rm_index_perm {A} (i : nat) (l : list A) (x : A) :
  nth_error l i = Some x -> Permutation (x :: rm_index i l) l.
Proof.
  revert i. induction l as [|y l IH]; intros [|i] H; cbn in H; try discriminate.
  - inversion H; subst. cbn [rm_index]. destruct l as [|z l]; [apply Permutation_refl|].
    constructor. apply last_removelast_perm. discriminate.
  - cbn [rm_index]. eapply perm_trans; [apply perm_swap|]. constructor. apply IH. exact H.
Qed.

Lemma rm_index_app_r {A} (l1 l2 : list A) (j : nat) :
  rm_index (length l1 + j) (l1 ++ l2) = l1 ++ rm_index j l2 \/ l2 = [].
Proof.
  destruct l2 as [|z l2]; [right; reflexivity|left].
  induction l1 as [|y l1 IH]; cbn [length Nat.add app rm_index]; [reflexivity|]. rewrite IH. reflexivity.
Qed.
Lemma rm_index_app_r' {A} (l1 l2 : list A) (j : nat) :
  (j < length l2)%nat -> rm_index (length l1 + j) (l1 ++ l2) = l1 ++ rm_index j l2.
Proof.
  intros H. destruct (rm_index_app_r l1 l2 j) as [E|E]; [exact E|]. subst. cbn in H. lia.
Qed.

Lemma index_of_Some k l i : index_of k l = Some i -> nth_error l i = Some k.
Proof.
  revert i. induction l as [|x l IH]; intros i; cbn [index_of]; [discriminate|].
  destruct (key_eqb x k) eqn:E.
  - intros H. inversion H; subst. apply key_eqb_eq in E. subst. reflexivity.
  - destruct (index_of k l) as [j|] eqn:F; cbn [option_map]; [|discriminate].
    intros H. inversion H; subst. cbn. apply IH. reflexivity.
Qed.
Lemma index_of_None k l : index_of k l = None <-> ~ In k l.
Proof.
  induction l as [|x l IH]; cbn [index_of In]; [tauto|].
  destruct (key_eqb x k) eqn:E.
  - apply key_eqb_eq in E. split; [discriminate|intros H; exfalso; apply H; left; exact E].
  - apply key_eqb_neq in E. destruct (index_of k l); cbn [option_map].
    + split; [discriminate|]. intros H. exfalso.
      assert (Hn : ~ In k l) by (intros Hin; apply H; right; exact Hin).
      apply IH in Hn. discriminate.
    + split; [|reflexivity]. intros _ [H|H]; [contradiction|]. apply IH in H; [exact H|reflexivity].
Qed.

Lemma rm_index_length {A} (i : nat) (l : list A) : (i < length l)%nat -> length (rm_index i l) = pred (length l).
Proof.
  intros H. destruct (nth_error l i) as [x|] eqn:E.
  - apply rm_index_perm in E. apply Permutation_length in E. cbn in E. lia.
  - apply nth_error_None in E. lia.
Qed.

(* ------------------------------------------------------------------------------------------------ *)
(* executable well-formedness: the quiescent states                                                 *)
(* ------------------------------------------------------------------------------------------------ *)
Fixpoint pairs_eqb (a b : list (N * N)) : bool :=
  match a, b with
  | [], [] => true
  | (x1, x2) :: a', (y1, y2) :: b' => (x1 =? y1) && (x2 =? y2) && pairs_eqb a' b'
  | _, _ => false
  end.
Lemma pairs_eqb_eq a b : pairs_eqb a b = true <-> a = b.
Proof.
  revert b. induction a as [|[x1 x2] a IH]; intros [|[y1 y2] b]; cbn [pairs_eqb]; split; intros H;
    try reflexivity; try discriminate.
  - apply andb_true_iff in H. destruct H as [H H3]. apply andb_true_iff in H. destruct H as [H1 H2].
    apply N.eqb_eq in H1, H2. apply IH in H3. congruence.
  - inversion H; subst. rewrite !N.eqb_refl. cbn. apply IH. reflexivity.
Qed.

Definition comp_eqb (a b : option (list (N * N))) : bool :=
  match a, b with
  | None, None => true
  | Some x, Some y => pairs_eqb x y
  | _, _ => false
  end.
Lemma comp_eqb_eq a b : comp_eqb a b = true <-> a = b.
Proof.
  destruct a as [x|], b as [y|]; cbn [comp_eqb]; try (split; [discriminate|discriminate]); try tauto.
  rewrite pairs_eqb_eq. split; [intros ->; reflexivity|intros H; inversion H; reflexivity].
Qed.

Definition feat_eqb (f g : feat) : bool :=
  (f_name f =? f_name g) && beq_bytes (f_deps f) (f_deps g) && Bool.eqb (f_on f) (f_on g).
Lemma feat_eqb_eq f g : feat_eqb f g = true <-> f = g.
Proof.
  destruct f as [n1 d1 o1], g as [n2 d2 o2]. unfold feat_eqb. cbn [f_name f_deps f_on].
  rewrite !andb_true_iff, N.eqb_eq, beq_bytes_eq, Bool.eqb_true_iff.
  split; [intros [[-> ->] ->]; reflexivity|intros H; inversion H; tauto].
Qed.
Fixpoint feats_eqb (a b : list feat) : bool :=
  match a, b with
  | [], [] => true
  | x :: a', y :: b' => feat_eqb x y && feats_eqb a' b'
  | _, _ => false
  end.
Lemma feats_eqb_eq a b : feats_eqb a b = true <-> a = b.
Proof.
  revert b. induction a as [|x a IH]; intros [|y b]; cbn [feats_eqb]; split; intros H;
    try reflexivity; try discriminate.
  - apply andb_true_iff in H. destruct H as [H1 H2]. apply feat_eqb_eq in H1. apply IH in H2. congruence.
  - inversion H; subst. apply andb_true_iff. split; [apply feat_eqb_eq|apply IH]; reflexivity.
Qed.

Fixpoint nodupb (l : list key) : bool :=
  match l with [] => true | x :: r => negb (kmem x r) && nodupb r end.
Lemma nodupb_NoDup l : nodupb l = true <-> NoDup l.
Proof.
  induction l as [|x l IH]; cbn [nodupb].
  - split; [constructor|reflexivity].
  - rewrite andb_true_iff, negb_true_iff, kmem_false, IH. split.
    + intros [H1 H2]. constructor; assumption.
    + intros H. inversion H; subst. tauto.
Qed.

(* a list key under a disabled if-feature *)
Definition key_fault (m : modl) : bool := (m_cfault m =? 5) && negb (first_feat_on (m_feats m)).
(* the module passes lys_check_features and compiles *)
Definition compiles_ok (m : modl) : bool :=
  check_features (m_feats m) && negb (node_fault m) && negb (leafref_fault m) && negb (key_fault m).

(* no to_compile mark, imports are modules of the context, implemented = compiled against the current features
   (and it would compile again), not implemented = no compiled tree *)
Definition mod_ok (l : list modl) (m : modl) : bool :=
  negb (m_tc m) && forallb (fun k => kmem k (keys l)) (m_imps m) &&
  (if m_impl m then comp_eqb (m_comp m) (Some (snapshot l m)) && compiles_ok m
   else comp_eqb (m_comp m) None).

Definition is_nil {A} (l : list A) : bool := match l with [] => true | _ => false end.

(* nothing pending: what every state of a context without LY_CTX_EXPLICIT_COMPILE looks like between two calls
   unless one of the defects struck, and a context with explicit compilation right after ly_ctx_compile() *)
Definition quiescent (s : state) : bool :=
  nodupb (keys (mods s)) && forallb (mod_ok (mods s)) (mods s) && is_nil (creating s) && is_nil (implementing s).

(* the hypotheses about the failing operation: at the point where it jumps to its cleanup, every module that
   existed before still has its LYS_MOD_LATEST_REV bit / its feature bits *)
Definition keeps (p : modl -> modl -> bool) (R : repo) (s : state) (o : op) : bool :=
  forallb (fun m => match find_mod (mkey m) (mods (step_mid R s o)) with
                    | Some m' => p m m'
                    | None => false
                    end) (mods s).
Definition keeps_latest : repo -> state -> op -> bool := keeps (fun m m' => Bool.eqb (m_latest m') (m_latest m)).
Definition keeps_features : repo -> state -> op -> bool := keeps (fun m m' => feats_eqb (m_feats m') (m_feats m)).

Record wf_mod (l : list modl) (m : modl) : Prop := {
  wf_tc : m_tc m = false;
  wf_imps : forall k, In k (m_imps m) -> In k (keys l);
  wf_comp_impl : m_impl m = true -> m_comp m = Some (snapshot l m) /\ compiles_ok m = true;
  wf_comp_nimpl : m_impl m = false -> m_comp m = None }.

Lemma mod_ok_wf l m : mod_ok l m = true -> wf_mod l m.
Proof.
  unfold mod_ok. rewrite !andb_true_iff, negb_true_iff. intros [[H1 H2] H3]. constructor.
  - exact H1.
  - intros k Hk. rewrite forallb_forall in H2. apply kmem_In. apply H2. exact Hk.
  - intros Hi. rewrite Hi in H3. apply andb_true_iff in H3. destruct H3 as [H3 H4].
    apply comp_eqb_eq in H3. tauto.
  - intros Hi. rewrite Hi in H3. apply comp_eqb_eq in H3. exact H3.
Qed.

Record wf_state (s : state) : Prop := {
  wfs_nodup : NoDup (keys (mods s));
  wfs_mods : forall m, In m (mods s) -> wf_mod (mods s) m;
  wfs_creating : creating s = [];
  wfs_implementing : implementing s = [] }.

Lemma quiescent_wf s : quiescent s = true -> wf_state s.
Proof.
  unfold quiescent. rewrite !andb_true_iff. intros [[[H1 H2] H3] H4]. constructor.
  - apply nodupb_NoDup. exact H1.
  - intros m Hm. apply mod_ok_wf. rewrite forallb_forall in H2. apply H2. exact Hm.
  - destruct (creating s); [reflexivity|discriminate].
  - destruct (implementing s); [reflexivity|discriminate].
Qed.

Lemma quiescent_core s : quiescent (core s) = quiescent s.
Proof. reflexivity. Qed.

(* ------------------------------------------------------------------------------------------------ *)
(* parse phase: invariant PI                                                                        *)
(* ------------------------------------------------------------------------------------------------ *)
Definition olds_of (s t : state) : list modl := firstn (length (mods s)) (mods t).
Definition news_of (s t : state) : list modl := skipn (length (mods s)) (mods t).

Lemma olds_news s t : mods t = olds_of s t ++ news_of s t.
Proof. unfold olds_of, news_of. symmetry. apply firstn_skipn. Qed.

Definition clr_flags (m : modl) : modl :=
  set_limpclb false (set_imprev false (set_lsearch false (set_latest false m))).

Definition fresh (m : modl) : Prop := m_impl m = false /\ m_tc m = false /\ m_comp m = None.

Record PI (s t : state) : Prop := {
  pi_expl : explicit t = explicit s;
  pi_len : (length (mods s) <= length (mods t))%nat;
  pi_olds : map clr_flags (olds_of s t) = map clr_flags (mods s);
  pi_creating : creating t = keys (news_of s t);
  pi_nodup : NoDup (keys (mods t));
  pi_impl : implementing t = [];
  pi_evs : Forall (fun e => e = EvAdd) (evs t);
  pi_news : Forall fresh (news_of s t) }.

Lemma PI_refl s : wf_state s -> evs s = [] -> PI s s.
Proof.
  intros W He. constructor.
  - reflexivity.
  - lia.
  - unfold olds_of. rewrite firstn_all. reflexivity.
  - unfold news_of. rewrite skipn_all. rewrite (wfs_creating _ W). reflexivity.
  - apply (wfs_nodup _ W).
  - apply (wfs_implementing _ W).
  - rewrite He. constructor.
  - unfold news_of. rewrite skipn_all. constructor.
Qed.

Lemma keys_olds s t : PI s t -> keys (olds_of s t) = keys (mods s).
Proof.
  intros P. pose proof (pi_olds _ _ P) as H.
  assert (E : forall l, keys l = keys (map clr_flags l)).
  { intros l. unfold keys. rewrite map_map. reflexivity. }
  rewrite E, H, <- E. reflexivity.
Qed.

Lemma map_upd_inv {B} (f : modl -> B) k g l : (forall m, f (g m) = f m) -> map f (upd k g l) = map f l.
Proof.
  intros H. unfold upd. rewrite map_map. apply map_ext. intros m. destruct (key_eqb (mkey m) k); [apply H|reflexivity].
Qed.

Lemma Forall_upd (P : modl -> Prop) k g l : Forall P l -> (forall m, P m -> P (g m)) -> Forall P (upd k g l).
Proof.
  intros F H. unfold upd. induction F as [|m l Hm F IH]; cbn [map]; constructor; [|exact IH].
  destruct (key_eqb (mkey m) k); [apply H|]; exact Hm.
Qed.

Lemma olds_upd_s s t k g : olds_of s (upd_s k g t) = upd k g (olds_of s t).
Proof. unfold olds_of. cbn [upd_s with_mods mods]. apply upd_firstn. Qed.
Lemma news_upd_s s t k g : news_of s (upd_s k g t) = upd k g (news_of s t).
Proof. unfold news_of. cbn [upd_s with_mods mods]. apply upd_skipn. Qed.

(* an update that keeps key, implemented, to_compile, compiled, and either only touches the flags or is aimed at a
   key that is not one of the old modules *)
Lemma PI_upd s t k g :
  PI s t -> (forall m, mkey (g m) = mkey m) ->
  (forall m, m_impl (g m) = m_impl m /\ m_tc (g m) = m_tc m /\ m_comp (g m) = m_comp m) ->
  ((forall m, clr_flags (g m) = clr_flags m) \/ ~ In k (keys (mods s))) ->
  PI s (upd_s k g t).
Proof.
  intros P Hk Hf Hc. constructor; cbn [upd_s with_mods mods explicit creating implementing evs].
  - apply (pi_expl _ _ P).
  - rewrite upd_length. apply (pi_len _ _ P).
  - rewrite olds_upd_s. destruct Hc as [Hc|Hc].
    + rewrite map_upd_inv by exact Hc. apply (pi_olds _ _ P).
    + rewrite upd_notin; [apply (pi_olds _ _ P)|]. rewrite (keys_olds _ _ P). exact Hc.
  - rewrite news_upd_s. rewrite keys_upd by exact Hk. apply (pi_creating _ _ P).
  - rewrite keys_upd by exact Hk. apply (pi_nodup _ _ P).
  - apply (pi_impl _ _ P).
  - apply (pi_evs _ _ P).
  - rewrite news_upd_s. apply Forall_upd; [apply (pi_news _ _ P)|].
    intros m [H1 [H2 H3]]. destruct (Hf m) as [E1 [E2 E3]]. unfold fresh. rewrite E1, E2, E3. tauto.
Qed.

Lemma PI_flag s t k g :
  PI s t -> (forall m, mkey (g m) = mkey m) ->
  (forall m, m_impl (g m) = m_impl m /\ m_tc (g m) = m_tc m /\ m_comp (g m) = m_comp m) ->
  (forall m, clr_flags (g m) = clr_flags m) -> PI s (upd_s k g t).
Proof. intros. apply PI_upd; auto. Qed.

Lemma PI_set_latest s t k b : PI s t -> PI s (upd_s k (set_latest b) t).
Proof. intros P. apply PI_flag; auto. Qed.
Lemma PI_set_lsearch s t k b : PI s t -> PI s (upd_s k (set_lsearch b) t).
Proof. intros P. apply PI_flag; auto. Qed.
Lemma PI_set_imprev s t k b : PI s t -> PI s (upd_s k (set_imprev b) t).
Proof. intros P. apply PI_flag; auto. Qed.
Lemma PI_set_limpclb s t k b : PI s t -> PI s (upd_s k (set_limpclb b) t).
Proof. intros P. apply PI_flag; auto. Qed.

Lemma PI_out_of_fuel s t : PI s t -> PI s (out_of_fuel t).
Proof. intros P. destruct P. constructor; assumption. Qed.
Lemma PI_assert_fails s t : PI s t -> PI s (assert_fails t).
Proof. intros P. destruct P. constructor; assumption. Qed.

Lemma firstn_app_le {A} n (l1 l2 : list A) : (n <= length l1)%nat -> firstn n (l1 ++ l2) = firstn n l1.
Proof.
  intros H. rewrite firstn_app. replace (n - length l1)%nat with O by lia. cbn. apply app_nil_r.
Qed.
Lemma skipn_app_le {A} n (l1 l2 : list A) : (n <= length l1)%nat -> skipn n (l1 ++ l2) = skipn n l1 ++ l2.
Proof.
  intros H. rewrite skipn_app. replace (n - length l1)%nat with O by lia. reflexivity.
Qed.

Lemma NoDup_snoc {A} (l : list A) (x : A) : NoDup l -> ~ In x l -> NoDup (l ++ [x]).
Proof.
  intros H Hx. induction H as [|y l Hy H IH]; cbn [app].
  - constructor; [cbn; tauto|constructor].
  - constructor.
    + rewrite in_app_iff. cbn [In]. intros [Hin|[E|[]]]; [contradiction|]. subst. apply Hx. left. reflexivity.
    + apply IH. intros Hin. apply Hx. right. exact Hin.
Qed.

(* a new module is appended and recorded *)
Lemma PI_create s t d nl ns :
  PI s t -> ~ In (d_name d, d_rev d) (keys (mods t)) ->
  PI s (add_ev EvAdd (with_mods (mods (with_creating (creating t ++ [(d_name d, d_rev d)]) t) ++ [new_module d nl ns])
                                (with_creating (creating t ++ [(d_name d, d_rev d)]) t))).
Proof.
  intros P Hn. pose proof (pi_len _ _ P) as Hl.
  constructor; cbn [add_ev with_mods with_creating mods explicit creating implementing evs].
  - apply (pi_expl _ _ P).
  - rewrite app_length. lia.
  - unfold olds_of. cbn [add_ev with_mods with_creating mods]. rewrite firstn_app_le by exact Hl. apply (pi_olds _ _ P).
  - unfold news_of. cbn [add_ev with_mods with_creating mods]. rewrite skipn_app_le by exact Hl. unfold keys. rewrite map_app.
    fold (news_of s t). fold (keys (news_of s t)). rewrite <- (pi_creating _ _ P). reflexivity.
  - unfold keys. rewrite map_app. cbn [map]. fold (keys (mods t)).
    apply NoDup_snoc; [apply (pi_nodup _ _ P)|exact Hn].
  - apply (pi_impl _ _ P).
  - apply Forall_app. split; [apply (pi_evs _ _ P)|constructor; [reflexivity|constructor]].
  - unfold news_of. cbn [add_ev with_mods with_creating mods]. rewrite skipn_app_le by exact Hl. apply Forall_app.
    split; [apply (pi_news _ _ P)|].
    constructor; [|constructor]. unfold fresh, new_module. cbn. tauto.
Qed.

Ltac PI_step :=
  first [ assumption
        | apply PI_set_latest | apply PI_set_lsearch | apply PI_set_imprev | apply PI_set_limpclb
        | apply PI_out_of_fuel | apply PI_assert_fails ].

Lemma load_from_clb_PI s pin R t name rev ml :
  (forall t d chk, PI s t -> PI s (fst (pin t d chk))) ->
  PI s t -> PI s (fst (load_from_clb pin R t name rev ml)).
Proof.
  intros Hpin P. unfold load_from_clb.
  destruct (match ml with Some ml0 => m_limpclb ml0 | None => false end); [exact P|].
  destruct (repo_serve R name rev) as [d|]; [|exact P].
  pose proof (Hpin t d (Some (name, rev)) P) as Hp. destruct (pin t d (Some (name, rev))) as [s' r].
  cbn [fst] in Hp. destruct r; cbn [fst]; try exact Hp; destruct (rev =? 0); repeat PI_step.
Qed.

Lemma parse_load_PI s pin R t name rev :
  (forall t d chk, PI s t -> PI s (fst (pin t d chk))) ->
  PI s t -> PI s (fst (parse_load pin R t name rev)).
Proof.
  intros Hpin P. unfold parse_load.
  destruct (pick_in_ctx (mods t) name rev) as [found mod_latest].
  destruct found as [m|]; [exact P|].
  pose proof (load_from_clb_PI s pin R t name rev mod_latest Hpin P) as H2.
  destruct (load_from_clb pin R t name rev mod_latest) as [s2 got]. cbn [fst] in H2.
  destruct got as [k|]; [|destruct mod_latest as [ml|]]; cbn [fst].
  - destruct ((rev =? 0) && match find_mod k (mods s2) with Some m => m_latest m | None => false end); repeat PI_step.
  - destruct (find_mod (mkey ml) (mods s2)) as [ml'|]; [destruct (m_latest ml')|]; repeat PI_step.
  - exact H2.
Qed.

Lemma resolve_imports_PI s pl self imps t :
  (forall t n r, PI s t -> PI s (fst (pl t n r))) ->
  ~ In self (keys (mods s)) ->
  PI s t -> PI s (fst (resolve_imports pl self imps t)).
Proof.
  intros Hpl Hself. revert t. induction imps as [|[n r] imps IH]; intros t P; cbn [resolve_imports fst]; [exact P|].
  pose proof (Hpl t n r P) as H1. destruct (pl t n r) as [s1 res]. cbn [fst] in H1.
  destruct res as [k|]; [|exact H1].
  apply IH. apply PI_upd; [|reflexivity|intros m; cbn; tauto|right; exact Hself].
  destruct (r =? 0); repeat PI_step.
Qed.

Lemma get_module_none name rev l : get_module name rev l = None -> ~ In (name, rev) (keys l).
Proof. unfold get_module. apply find_mod_none. Qed.

Lemma parse_in_PI s fuel R : forall t d chk, PI s t -> PI s (fst (parse_in fuel R t d chk)).
Proof.
  induction fuel as [|fuel IH]; intros t d chk P; cbn [parse_in].
  - cbn [fst]. apply PI_out_of_fuel. exact P.
  - destruct (d_fault d =? 1); [exact P|].
    destruct (match get_latest (d_name d) (mods t) with
              | Some L => if negb (d_rev d =? 0) && ((m_rev L =? 0) || (m_rev L <? d_rev d))
                          then (m_latest L, m_lsearch L, Some (mkey L)) else (false, false, None)
              | None => (true, false, None) end) as [[nl ns] disp].
    destruct (_ =? 1); [exact P|]. destruct (_ =? 2); [exact P|].
    destruct (get_module (d_name d) (d_rev d) (mods t)) as [m|] eqn:G; [exact P|].
    apply get_module_none in G.
    set (t1 := match disp with Some lk => upd_s lk (fun m => set_lsearch false (set_latest false m)) t | None => t end).
    assert (P1 : PI s t1).
    { unfold t1. destruct disp; [|exact P]. apply PI_flag; auto. }
    assert (G1 : ~ In (d_name d, d_rev d) (keys (mods t1))).
    { unfold t1. destruct disp; [|exact G]. cbn [upd_s with_mods mods]. rewrite keys_upd; [exact G|reflexivity]. }
    pose proof (PI_create s t1 d nl ns P1 G1) as P3.
    match goal with |- context [resolve_imports ?pl ?k ?i ?t3] =>
      assert (H4 : PI s (fst (resolve_imports pl k i t3))) end.
    { apply resolve_imports_PI; [| |exact P3].
      - intros t' n r P'. apply parse_load_PI; [|exact P']. intros; apply IH; assumption.
      - intros Hin. apply G1. unfold t1. destruct disp.
        + cbn [upd_s with_mods mods]. rewrite keys_upd by reflexivity.
          rewrite (olds_news s t). unfold keys. rewrite map_app. apply in_or_app. left.
          fold (keys (olds_of s t)). rewrite (keys_olds s t P). exact Hin.
        + rewrite (olds_news s t). unfold keys. rewrite map_app. apply in_or_app. left.
          fold (keys (olds_of s t)). rewrite (keys_olds s t P). exact Hin. }
    match goal with |- context [resolve_imports ?pl ?k ?i ?t3] => destruct (resolve_imports pl k i t3) as [s4 ok] end.
    cbn [fst] in H4. destruct (negb ok); [exact H4|]. destruct (d_fault d =? 2); exact H4.
Qed.

(* ------------------------------------------------------------------------------------------------ *)
(* implement / dep sets / compile: invariant QI                                                     *)
(* ------------------------------------------------------------------------------------------------ *)
(* old module m (before the operation) and what it is now, m'; imp = unres.implementing, D = keys of the dep sets *)
Record qrel (imp D : list key) (m m' : modl) : Prop := {
  q_key : mkey m' = mkey m;
  q_imps : m_imps m' = m_imps m;
  q_cfault : m_cfault m' = m_cfault m;
  q_single : m_single m' = m_single m;
  q_hasdep : m_hasdep m' = m_hasdep m;
  q_impl1 : m_impl m = true -> m_impl m' = true;
  q_impl2 : m_impl m' = true -> m_impl m = true \/ In (mkey m) imp;
  q_imp : In (mkey m) imp -> m_impl m = false;
  q_tc : m_tc m' = true -> m_impl m' = true;
  q_comp : m_comp m' = m_comp m \/ (m_tc m' = true /\ In (mkey m) D) \/ In (mkey m) imp }.

Record QI (s : state) (imp D : list key) (t : state) : Prop := {
  qi_expl : explicit t = explicit s;
  qi_len : (length (mods s) <= length (mods t))%nat;
  qi_creating : creating t = keys (news_of s t);
  qi_nodup : NoDup (keys (mods t));
  qi_olds : Forall2 (qrel imp D) (mods s) (olds_of s t);
  qi_imp : implementing t = imp }.

Lemma map_eq_Forall2 {A B} (f : A -> B) l l' : map f l' = map f l -> Forall2 (fun a b => f b = f a) l l'.
Proof. intros H. apply Forall2_map_eq. exact H. Qed.

Lemma clr_flags_fields m m' : clr_flags m' = clr_flags m ->
  mkey m' = mkey m /\ m_imps m' = m_imps m /\ m_cfault m' = m_cfault m /\ m_single m' = m_single m /\
  m_hasdep m' = m_hasdep m /\ m_impl m' = m_impl m /\ m_tc m' = m_tc m /\ m_comp m' = m_comp m /\
  m_feats m' = m_feats m.
Proof.
  destruct m, m'. unfold clr_flags, set_limpclb, set_imprev, set_lsearch, set_latest, mkey. cbn.
  intros H. inversion H; subst. repeat split; reflexivity.
Qed.

Lemma Forall2_with_In {A B} (R : A -> B -> Prop) l l' :
  Forall2 R l l' -> Forall2 (fun a b => In a l /\ R a b) l l'.
Proof.
  intros F. induction F as [|x y l l' H F IH]; constructor.
  - split; [left; reflexivity|exact H].
  - eapply Forall2_impl; [|exact IH]. cbn. intros a b [H1 H2]. split; [right; exact H1|exact H2].
Qed.

Lemma PI_QI s t : wf_state s -> PI s t -> QI s [] [] t.
Proof.
  intros W P. constructor.
  - apply (pi_expl _ _ P).
  - apply (pi_len _ _ P).
  - apply (pi_creating _ _ P).
  - apply (pi_nodup _ _ P).
  - pose proof (map_eq_Forall2 _ _ _ (pi_olds _ _ P)) as F.
    pose proof (Forall2_with_In _ _ _ F) as F'.
    eapply Forall2_impl; [|exact F']. cbn. intros m m' [Hin E].
    apply clr_flags_fields in E. destruct E as [E1 [E2 [E3 [E4 [E5 [E6 [E7 [E8 E9]]]]]]]].
    pose proof (wfs_mods _ W m Hin) as Wm.
    constructor; try assumption.
    + intros H. congruence.
    + intros H. left. congruence.
    + intros [].
    + intros H. rewrite E7, (wf_tc _ _ Wm) in H. discriminate.
    + left. exact E8.
  - apply (pi_impl _ _ P).
Qed.

Lemma PI_feats s t : PI s t -> map m_feats (olds_of s t) = map m_feats (mods s).
Proof.
  intros P. pose proof (pi_olds _ _ P) as H.
  assert (E : forall l, map m_feats l = map m_feats (map clr_flags l)).
  { intros l. rewrite map_map. apply map_ext. intros m. destruct m; reflexivity. }
  rewrite E, H, <- E. reflexivity.
Qed.

(* Forall2 along an update of the right list, knowing the updated module is in the list *)
Lemma Forall2_upd_r_in (R : modl -> modl -> Prop) k g l l' :
  Forall2 R l l' -> (forall m m', In m' l' -> R m m' -> mkey m' = k -> R m (g m')) -> Forall2 R l (upd k g l').
Proof.
  intros H. induction H as [|m m' l l' Hr H IH]; intros Hg; cbn [upd map]; [constructor|].
  constructor.
  - destruct (key_eqb (mkey m') k) eqn:E; [apply Hg; [left; reflexivity|exact Hr|apply key_eqb_eq; exact E]|exact Hr].
  - apply IH. intros a b Hb. apply Hg. right. exact Hb.
Qed.

Lemma keys_olds_Q s imp D t : QI s imp D t -> keys (olds_of s t) = keys (mods s).
Proof.
  intros Q. pose proof (qi_olds _ _ _ _ Q) as F. unfold keys. induction F as [|a b l l' H F IH]; cbn; [reflexivity|].
  rewrite (q_key _ _ _ _ H). f_equal. exact IH.
Qed.

Lemma In_olds s t m : In m (olds_of s t) -> In m (mods t).
Proof.
  intros H. rewrite (olds_news s t). apply in_or_app. left. exact H.
Qed.

(* an update of the module(s) with key k that respects qrel for the module it hits *)
Lemma QI_upd s imp D t k g :
  QI s imp D t -> (forall m, mkey (g m) = mkey m) ->
  (forall m m', In m' (mods t) -> mkey m' = k -> qrel imp D m m' -> qrel imp D m (g m')) ->
  QI s imp D (upd_s k g t).
Proof.
  intros Q Hk Hg. constructor.
  - apply (qi_expl _ _ _ _ Q).
  - cbn [upd_s with_mods mods]. rewrite upd_length. apply (qi_len _ _ _ _ Q).
  - rewrite news_upd_s, keys_upd by exact Hk. apply (qi_creating _ _ _ _ Q).
  - cbn [upd_s with_mods mods]. rewrite keys_upd by exact Hk. apply (qi_nodup _ _ _ _ Q).
  - rewrite olds_upd_s. apply Forall2_upd_r_in; [apply (qi_olds _ _ _ _ Q)|].
    intros m m' Hin Hr Hkk. apply Hg; [apply (In_olds s t); exact Hin|exact Hkk|exact Hr].
  - apply (qi_imp _ _ _ _ Q).
Qed.

Lemma QI_out_of_fuel s imp D t : QI s imp D t -> QI s imp D (out_of_fuel t).
Proof. intros Q. destruct Q. constructor; assumption. Qed.
Lemma QI_add_ev s imp D t e : QI s imp D t -> QI s imp D (add_ev e t).
Proof. intros Q. destruct Q. constructor; assumption. Qed.

(* setting to_compile on an implemented module *)
Lemma qrel_set_tc_true imp D m m' : m_impl m' = true -> qrel imp D m m' -> qrel imp D m (set_tc true m').
Proof.
  intros Hi Q. destruct Q. constructor; cbn; try assumption.
  - intros _. exact Hi.
  - destruct q_comp0 as [H|[[H1 H2]|H]]; [left; exact H|right; left; split; [reflexivity|exact H2]|right; right; exact H].
Qed.

Lemma find_mod_is k l m m' : NoDup (keys l) -> find_mod k l = Some m -> In m' l -> mkey m' = k -> m' = m.
Proof.
  intros Hnd Hf Hin Hk. pose proof (find_mod_unique k l m' Hnd Hin Hk) as E. congruence.
Qed.

(* "only to_compile changed" between two states *)
Record same_but (N : modl -> modl) (t t' : state) : Prop := {
  sb_expl : explicit t' = explicit t;
  sb_creating : creating t' = creating t;
  sb_mods : map N (mods t') = map N (mods t) }.

Lemma same_but_refl N t : same_but N t t.
Proof. constructor; reflexivity. Qed.
Lemma same_but_trans N t1 t2 t3 : same_but N t1 t2 -> same_but N t2 t3 -> same_but N t1 t3.
Proof. intros [] []. constructor; congruence. Qed.
Lemma same_but_upd N t k g : (forall m, N (g m) = N m) -> same_but N t (upd_s k g t).
Proof.
  intros H. constructor; try reflexivity. cbn [upd_s with_mods mods]. apply map_upd_inv. exact H.
Qed.
Lemma same_but_out_of_fuel N t : same_but N t (out_of_fuel t).
Proof. constructor; reflexivity. Qed.
Lemma same_but_add_ev N t e : same_but N t (add_ev e t).
Proof. constructor; reflexivity. Qed.

Definition no_tc (m : modl) : modl := set_tc false m.
Definition no_tc_comp (m : modl) : modl := set_tc false (set_comp None m).

(* lys_has_compiled_import_r *)
Lemma hci_loop_QI s imp D rec imps :
  (forall t k, QI s imp D t -> QI s imp D (fst (rec t k)) /\ same_but no_tc t (fst (rec t k))) ->
  forall t, QI s imp D t ->
  QI s imp D (fst (hci_loop rec imps t)) /\ same_but no_tc t (fst (hci_loop rec imps t)).
Proof.
  intros Hrec. induction imps as [|ik imps IH]; intros t Q; cbn [hci_loop].
  - split; [exact Q|apply same_but_refl].
  - destruct (find_mod ik (mods t)) as [im|] eqn:F; [|apply IH; exact Q].
    destruct (negb (m_impl im)) eqn:Ei; [apply IH; exact Q|].
    destruct (negb (m_tc im)) eqn:Et.
    + cbn [fst]. split; [|apply same_but_upd; intros m; destruct m; reflexivity].
      apply QI_upd; [exact Q|reflexivity|]. intros m m' Hin Hk Hr.
      assert (m' = im) by (eapply find_mod_is; [apply (qi_nodup _ _ _ _ Q)|exact F|exact Hin|exact Hk]). subst m'.
      apply qrel_set_tc_true; [|exact Hr]. apply negb_false_iff in Ei. exact Ei.
    + destruct (Hrec t ik Q) as [Q1 S1]. destruct (rec t ik) as [s1 stop]. cbn [fst] in Q1, S1.
      destruct stop; cbn [fst]; [split; assumption|].
      destruct (IH s1 Q1) as [Q2 S2]. split; [exact Q2|eapply same_but_trans; eassumption].
Qed.

Lemma has_compiled_import_r_QI s imp D fuel : forall t k, QI s imp D t ->
  QI s imp D (fst (has_compiled_import_r fuel t k)) /\ same_but no_tc t (fst (has_compiled_import_r fuel t k)).
Proof.
  induction fuel as [|fuel IH]; intros t k Q; cbn [has_compiled_import_r].
  - cbn [fst]. split; [apply QI_out_of_fuel; exact Q|apply same_but_out_of_fuel].
  - destruct (find_mod k (mods t)) as [m|]; [|split; [exact Q|apply same_but_refl]].
    apply hci_loop_QI; [exact IH|exact Q].
Qed.
