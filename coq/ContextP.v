(* ContextP.v — slice ctx (property C09): lemmas and proofs about the model Context.v.

   Main result: failed_restores — from a quiescent state (nothing pending, every implemented module compiled
   against the current features, no to_compile mark) a failing operation that does not take the latest-revision
   flag from an existing module and does not change the feature bits of an existing module leaves the
   observable state as it was. The proof follows the phases of an operation:
     parse (lys_parse_in / lys_parse_load)       invariant PI  : old modules only change their flag bits, new
                                                                  modules are appended and recorded in creating
     implement, dep sets, compile                invariant QI  : old modules keep frame, implemented ones stay
                                                                  implemented, a changed compiled tree belongs to
                                                                  a module that is still marked to_compile and
                                                                  sits in one of the dep sets
     revert                                      un-implement, remove the created tail, recompile the marked *)
From Coq Require Import Permutation.
From LY Require Import Base Context.
Local Open Scope N_scope.

(* ------------------------------------------------------------------------------------------------ *)
(* keys                                                                                             *)
(* ------------------------------------------------------------------------------------------------ *)
Lemma key_eqb_eq a b : key_eqb a b = true <-> a = b.
Proof.
  destruct a as [a1 a2], b as [b1 b2]. unfold key_eqb. cbn [fst snd]. rewrite andb_true_iff, !N.eqb_eq.
  split; [intros [-> ->]; reflexivity|intros H; inversion H; split; reflexivity].
Qed.
Lemma key_eqb_refl a : key_eqb a a = true.
Proof. apply key_eqb_eq. reflexivity. Qed.
Lemma key_eqb_neq a b : key_eqb a b = false <-> a <> b.
Proof.
  split.
  - intros H E. apply key_eqb_eq in E. congruence.
  - intros H. destruct (key_eqb a b) eqn:E; [apply key_eqb_eq in E; contradiction|reflexivity].
Qed.
Lemma key_eqb_sym a b : key_eqb a b = key_eqb b a.
Proof.
  destruct (key_eqb a b) eqn:E.
  - apply key_eqb_eq in E. subst. symmetry. apply key_eqb_refl.
  - symmetry. apply key_eqb_neq. apply key_eqb_neq in E. congruence.
Qed.
Lemma key_dec (a b : key) : {a = b} + {a <> b}.
Proof. destruct (key_eqb a b) eqn:E; [left; apply key_eqb_eq; exact E|right; apply key_eqb_neq; exact E]. Qed.

Lemma kmem_In k l : kmem k l = true <-> In k l.
Proof.
  induction l as [|x l IH]; cbn [kmem In].
  - split; [discriminate|tauto].
  - rewrite orb_true_iff, IH, key_eqb_eq. tauto.
Qed.
Lemma kmem_false k l : kmem k l = false <-> ~ In k l.
Proof. rewrite <- kmem_In. destruct (kmem k l); split; congruence. Qed.

Definition keys (l : list modl) : list key := map mkey l.

(* every setter keeps the key *)
Lemma mkey_set_impl b m : mkey (set_impl b m) = mkey m. Proof. reflexivity. Qed.
Lemma mkey_set_latest b m : mkey (set_latest b m) = mkey m. Proof. reflexivity. Qed.
Lemma mkey_set_lsearch b m : mkey (set_lsearch b m) = mkey m. Proof. reflexivity. Qed.
Lemma mkey_set_imprev b m : mkey (set_imprev b m) = mkey m. Proof. reflexivity. Qed.
Lemma mkey_set_limpclb b m : mkey (set_limpclb b m) = mkey m. Proof. reflexivity. Qed.
Lemma mkey_set_feats f m : mkey (set_feats f m) = mkey m. Proof. reflexivity. Qed.
Lemma mkey_set_imps i m : mkey (set_imps i m) = mkey m. Proof. reflexivity. Qed.
Lemma mkey_set_tc b m : mkey (set_tc b m) = mkey m. Proof. reflexivity. Qed.
Lemma mkey_set_comp c m : mkey (set_comp c m) = mkey m. Proof. reflexivity. Qed.

(* ------------------------------------------------------------------------------------------------ *)
(* upd, find_mod                                                                                    *)
(* ------------------------------------------------------------------------------------------------ *)
Lemma upd_app k g l1 l2 : upd k g (l1 ++ l2) = upd k g l1 ++ upd k g l2.
Proof. unfold upd. apply map_app. Qed.

Lemma upd_length k g l : length (upd k g l) = length l.
Proof. unfold upd. apply map_length. Qed.

Lemma keys_upd k g l : (forall m, mkey (g m) = mkey m) -> keys (upd k g l) = keys l.
Proof.
  intros Hg. unfold keys, upd. rewrite map_map. apply map_ext. intros m.
  destruct (key_eqb (mkey m) k); [apply Hg|reflexivity].
Qed.

Lemma upd_notin k g l : ~ In k (keys l) -> upd k g l = l.
Proof.
  induction l as [|m l IH]; cbn [upd map keys In]; intros H; [reflexivity|].
  destruct (key_eqb (mkey m) k) eqn:E.
  - apply key_eqb_eq in E. exfalso. apply H. left. exact E.
  - f_equal. apply IH. intros Hin. apply H. right. exact Hin.
Qed.

Lemma upd_firstn n k g l : firstn n (upd k g l) = upd k g (firstn n l).
Proof. unfold upd. apply firstn_map. Qed.
Lemma upd_skipn n k g l : skipn n (upd k g l) = upd k g (skipn n l).
Proof. unfold upd. apply skipn_map. Qed.

Lemma find_mod_In k l m : find_mod k l = Some m -> In m l /\ mkey m = k.
Proof.
  unfold find_mod. intros H. apply find_some in H. destruct H as [H1 H2]. apply key_eqb_eq in H2. tauto.
Qed.
Lemma find_mod_none k l : find_mod k l = None <-> ~ In k (keys l).
Proof.
  induction l as [|m l IH]; cbn [find_mod find keys map In].
  - tauto.
  - unfold find_mod in IH. destruct (key_eqb (mkey m) k) eqn:E.
    + apply key_eqb_eq in E. split; [discriminate|intros H; exfalso; apply H; left; exact E].
    + apply key_eqb_neq in E. rewrite IH. unfold keys. tauto.
Qed.
Lemma find_mod_some_in k l : In k (keys l) -> exists m, find_mod k l = Some m.
Proof.
  intros H. destruct (find_mod k l) eqn:E; [eexists; reflexivity|]. apply find_mod_none in E. contradiction.
Qed.
Lemma find_mod_app k l1 l2 :
  find_mod k (l1 ++ l2) = match find_mod k l1 with Some m => Some m | None => find_mod k l2 end.
Proof.
  unfold find_mod. induction l1 as [|m l1 IH]; cbn [app find]; [reflexivity|].
  destruct (key_eqb (mkey m) k); [reflexivity|exact IH].
Qed.

(* with unique keys the module with a key is the one find_mod returns *)
Lemma find_mod_unique k l m :
  NoDup (keys l) -> In m l -> mkey m = k -> find_mod k l = Some m.
Proof.
  induction l as [|x l IH]; cbn [keys map In]; intros Hnd Hin Hk; [contradiction|].
  inversion Hnd as [|? ? Hx Hnd']; subst. unfold find_mod. cbn [find].
  destruct Hin as [->|Hin].
  - rewrite key_eqb_refl. reflexivity.
  - destruct (key_eqb (mkey x) (mkey m)) eqn:E.
    + apply key_eqb_eq in E. exfalso. apply Hx. rewrite E. apply in_map. exact Hin.
    + apply IH; [exact Hnd'|exact Hin|reflexivity].
Qed.

Lemma find_mod_upd_same k g l m :
  (forall m, mkey (g m) = mkey m) -> find_mod k l = Some m -> find_mod k (upd k g l) = Some (g m).
Proof.
  intros Hg. unfold find_mod, upd. induction l as [|x l IH]; cbn [find map]; [discriminate|].
  destruct (key_eqb (mkey x) k) eqn:E.
  - intros H. inversion H; subst. rewrite Hg, E. reflexivity.
  - rewrite E. exact IH.
Qed.
Lemma find_mod_upd_other k k' g l :
  (forall m, mkey (g m) = mkey m) -> k' <> k -> find_mod k' (upd k g l) = find_mod k' l.
Proof.
  intros Hg Hne. unfold find_mod, upd. induction l as [|x l IH]; cbn [find map]; [reflexivity|].
  destruct (key_eqb (mkey x) k) eqn:E.
  - apply key_eqb_eq in E. rewrite Hg.
    assert (Hf : key_eqb (mkey x) k' = false) by (apply key_eqb_neq; congruence).
    rewrite Hf. exact IH.
  - destruct (key_eqb (mkey x) k'); [reflexivity|exact IH].
Qed.
Lemma find_mod_upd_none k k' g l :
  (forall m, mkey (g m) = mkey m) -> find_mod k' (upd k g l) = None <-> find_mod k' l = None.
Proof. intros Hg. rewrite !find_mod_none, keys_upd by exact Hg. tauto. Qed.

(* the shape of find_mod after an update, in one statement *)
Lemma find_mod_upd k k' g l :
  (forall m, mkey (g m) = mkey m) ->
  find_mod k' (upd k g l) =
  match find_mod k' l with
  | Some m => Some (if key_eqb k' k then g m else m)
  | None => None
  end.
Proof.
  intros Hg. destruct (key_eqb k' k) eqn:E.
  - apply key_eqb_eq in E. subst k'. destruct (find_mod k l) eqn:F.
    + apply find_mod_upd_same; assumption.
    + apply find_mod_upd_none; assumption.
  - apply key_eqb_neq in E. rewrite find_mod_upd_other by assumption. destruct (find_mod k' l); reflexivity.
Qed.

(* Forall2 along an update of the right list *)
Lemma Forall2_upd_r (R : modl -> modl -> Prop) k g l l' :
  Forall2 R l l' -> (forall m m', R m m' -> mkey m' = k -> R m (g m')) -> Forall2 R l (upd k g l').
Proof.
  intros H Hg. induction H as [|m m' l l' Hr H IH]; cbn [upd map]; [constructor|].
  constructor; [|exact IH].
  destruct (key_eqb (mkey m') k) eqn:E; [apply Hg; [exact Hr|apply key_eqb_eq; exact E]|exact Hr].
Qed.

Lemma Forall2_impl {A B} (R R' : A -> B -> Prop) l l' :
  (forall a b, R a b -> R' a b) -> Forall2 R l l' -> Forall2 R' l l'.
Proof. intros H F. induction F; constructor; auto. Qed.

Lemma Forall2_conj {A B} (R R' : A -> B -> Prop) l l' :
  Forall2 R l l' -> Forall2 R' l l' -> Forall2 (fun a b => R a b /\ R' a b) l l'.
Proof.
  intros F. induction F as [|a b l l' H F IH]; intros F'; inversion F'; subst; constructor; auto.
Qed.

Lemma Forall2_length' {A B} (R : A -> B -> Prop) l l' : Forall2 R l l' -> length l = length l'.
Proof. intros F. induction F; cbn; congruence. Qed.

Lemma Forall2_map_eq {A B C} (f : A -> C) (g : B -> C) l l' :
  Forall2 (fun a b => g b = f a) l l' <-> map g l' = map f l.
Proof.
  split.
  - intros F. induction F; cbn; congruence.
  - revert l'. induction l as [|a l IH]; intros [|b l'] H; cbn in H; try discriminate; constructor.
    + inversion H. reflexivity.
    + apply IH. inversion H. reflexivity.
Qed.

Lemma Forall2_In_l {A B} (R : A -> B -> Prop) l l' a :
  Forall2 R l l' -> In a l -> exists b, In b l' /\ R a b.
Proof.
  intros F. induction F as [|x y l l' H F IH]; cbn [In]; [tauto|].
  intros [->|Hin]; [exists y; tauto|]. destruct (IH Hin) as [b [Hb Hr]]. exists b. tauto.
Qed.
Lemma Forall2_In_r {A B} (R : A -> B -> Prop) l l' b :
  Forall2 R l l' -> In b l' -> exists a, In a l /\ R a b.
Proof.
  intros F. induction F as [|x y l l' H F IH]; cbn [In]; [tauto|].
  intros [->|Hin]; [exists x; tauto|]. destruct (IH Hin) as [a [Ha Hr]]. exists a. tauto.
Qed.

(* corresponding modules of two lists with the same keys *)
Lemma find_mod_Forall2 (R : modl -> modl -> Prop) k l l' m :
  Forall2 (fun a b => mkey b = mkey a /\ R a b) l l' -> find_mod k l = Some m ->
  exists m', find_mod k l' = Some m' /\ R m m'.
Proof.
  intros F. unfold find_mod. induction F as [|a b l l' [Hk Hr] F IH]; cbn [find]; [discriminate|].
  rewrite Hk. destruct (key_eqb (mkey a) k).
  - intros H. inversion H; subst. exists b. tauto.
  - exact IH.
Qed.
Lemma find_mod_Forall2_r (R : modl -> modl -> Prop) k l l' m' :
  Forall2 (fun a b => mkey b = mkey a /\ R a b) l l' -> find_mod k l' = Some m' ->
  exists m, find_mod k l = Some m /\ R m m'.
Proof.
  intros F. unfold find_mod. induction F as [|a b l l' [Hk Hr] F IH]; cbn [find]; [discriminate|].
  rewrite Hk. destruct (key_eqb (mkey a) k).
  - intros H. inversion H; subst. exists a. tauto.
  - exact IH.
Qed.

Lemma keys_Forall2 (R : modl -> modl -> Prop) l l' :
  Forall2 (fun a b => mkey b = mkey a /\ R a b) l l' -> keys l' = keys l.
Proof. intros F. unfold keys. induction F as [|a b l l' [Hk _] F IH]; cbn; congruence. Qed.

(* ------------------------------------------------------------------------------------------------ *)
(* rm_index / rm_mod / rm_key                                                                       *)
(* ------------------------------------------------------------------------------------------------ *)
Lemma last_removelast_perm {A} (r : list A) (x : A) :
  r <> [] -> Permutation (last r x :: removelast r) r.
Proof.
  intros H. rewrite (app_removelast_last x H) at 3.
  apply Permutation_cons_append.
Qed.

Lemma rm_index_perm {A} (i : nat) (l : list A) (x : A) :
  nth_error l i = Some x -> Permutation (x :: rm_index i l) l.
Proof.
  revert i. induction l as [|y l IH]; intros [|i] H; cbn in H; try discriminate.
  - inversion H; subst. cbn [rm_index]. destruct l as [|z l]; [apply Permutation_refl|].
    constructor. apply last_removelast_perm. discriminate.
  - cbn [rm_index]. eapply perm_trans; [apply perm_swap|]. constructor. apply IH. exact H.
Qed.

Lemma rm_index_app_r {A} (l1 l2 : list A) (j : nat) :
  rm_index (length l1 + j) (l1 ++ l2) = l1 ++ rm_index j l2 \/ l2 = [].
Proof.
  destruct l2 as [|z l2]; [right; reflexivity|left].
  induction l1 as [|y l1 IH]; cbn [length Nat.add app rm_index]; [reflexivity|]. rewrite IH. reflexivity.
Qed.
Lemma rm_index_app_r' {A} (l1 l2 : list A) (j : nat) :
  (j < length l2)%nat -> rm_index (length l1 + j) (l1 ++ l2) = l1 ++ rm_index j l2.
Proof.
  intros H. destruct (rm_index_app_r l1 l2 j) as [E|E]; [exact E|]. subst. cbn in H. lia.
Qed.

Lemma index_of_Some k l i : index_of k l = Some i -> nth_error l i = Some k.
Proof.
  revert i. induction l as [|x l IH]; intros i; cbn [index_of]; [discriminate|].
  destruct (key_eqb x k) eqn:E.
  - intros H. inversion H; subst. apply key_eqb_eq in E. subst. reflexivity.
  - destruct (index_of k l) as [j|] eqn:F; cbn [option_map]; [|discriminate].
    intros H. inversion H; subst. cbn. apply IH. reflexivity.
Qed.
Lemma index_of_None k l : index_of k l = None <-> ~ In k l.
Proof.
  induction l as [|x l IH]; cbn [index_of In]; [tauto|].
  destruct (key_eqb x k) eqn:E.
  - apply key_eqb_eq in E. split; [discriminate|intros H; exfalso; apply H; left; exact E].
  - apply key_eqb_neq in E. destruct (index_of k l); cbn [option_map].
    + split; [discriminate|]. intros H. exfalso.
      assert (Hn : ~ In k l) by (intros Hin; apply H; right; exact Hin).
      apply IH in Hn. discriminate.
    + split; [|reflexivity]. intros _ [H|H]; [contradiction|]. apply IH in H; [exact H|reflexivity].
Qed.

Lemma rm_index_length {A} (i : nat) (l : list A) : (i < length l)%nat -> length (rm_index i l) = pred (length l).
Proof.
  intros H. destruct (nth_error l i) as [x|] eqn:E.
  - apply rm_index_perm in E. apply Permutation_length in E. cbn in E. lia.
  - apply nth_error_None in E. lia.
Qed.

(* ------------------------------------------------------------------------------------------------ *)
(* executable well-formedness: the quiescent states                                                 *)
(* ------------------------------------------------------------------------------------------------ *)
Fixpoint pairs_eqb (a b : list (N * N)) : bool :=
  match a, b with
  | [], [] => true
  | (x1, x2) :: a', (y1, y2) :: b' => (x1 =? y1) && (x2 =? y2) && pairs_eqb a' b'
  | _, _ => false
  end.
Lemma pairs_eqb_eq a b : pairs_eqb a b = true <-> a = b.
Proof.
  revert b. induction a as [|[x1 x2] a IH]; intros [|[y1 y2] b]; cbn [pairs_eqb]; split; intros H;
    try reflexivity; try discriminate.
  - apply andb_true_iff in H. destruct H as [H H3]. apply andb_true_iff in H. destruct H as [H1 H2].
    apply N.eqb_eq in H1, H2. apply IH in H3. congruence.
  - inversion H; subst. rewrite !N.eqb_refl. cbn. apply IH. reflexivity.
Qed.

Definition comp_eqb (a b : option (list (N * N))) : bool :=
  match a, b with
  | None, None => true
  | Some x, Some y => pairs_eqb x y
  | _, _ => false
  end.
Lemma comp_eqb_eq a b : comp_eqb a b = true <-> a = b.
Proof.
  destruct a as [x|], b as [y|]; cbn [comp_eqb]; try (split; [discriminate|discriminate]); try tauto.
  rewrite pairs_eqb_eq. split; [intros ->; reflexivity|intros H; inversion H; reflexivity].
Qed.

Definition feat_eqb (f g : feat) : bool :=
  (f_name f =? f_name g) && beq_bytes (f_deps f) (f_deps g) && Bool.eqb (f_on f) (f_on g).
Lemma feat_eqb_eq f g : feat_eqb f g = true <-> f = g.
Proof.
  destruct f as [n1 d1 o1], g as [n2 d2 o2]. unfold feat_eqb. cbn [f_name f_deps f_on].
  rewrite !andb_true_iff, N.eqb_eq, beq_bytes_eq, Bool.eqb_true_iff.
  split; [intros [[-> ->] ->]; reflexivity|intros H; inversion H; tauto].
Qed.
Fixpoint feats_eqb (a b : list feat) : bool :=
  match a, b with
  | [], [] => true
  | x :: a', y :: b' => feat_eqb x y && feats_eqb a' b'
  | _, _ => false
  end.
Lemma feats_eqb_eq a b : feats_eqb a b = true <-> a = b.
Proof.
  revert b. induction a as [|x a IH]; intros [|y b]; cbn [feats_eqb]; split; intros H;
    try reflexivity; try discriminate.
  - apply andb_true_iff in H. destruct H as [H1 H2]. apply feat_eqb_eq in H1. apply IH in H2. congruence.
  - inversion H; subst. apply andb_true_iff. split; [apply feat_eqb_eq|apply IH]; reflexivity.
Qed.

Fixpoint nodupb (l : list key) : bool :=
  match l with [] => true | x :: r => negb (kmem x r) && nodupb r end.
Lemma nodupb_NoDup l : nodupb l = true <-> NoDup l.
Proof.
  induction l as [|x l IH]; cbn [nodupb].
  - split; [constructor|reflexivity].
  - rewrite andb_true_iff, negb_true_iff, kmem_false, IH. split.
    + intros [H1 H2]. constructor; assumption.
    + intros H. inversion H; subst. tauto.
Qed.

(* a list key under a disabled if-feature *)
Definition key_fault (m : modl) : bool := (m_cfault m =? 5) && negb (first_feat_on (m_feats m)).
(* the module passes lys_check_features and compiles *)
Definition compiles_ok (m : modl) : bool :=
  check_features (m_feats m) && negb (node_fault m) && negb (leafref_fault m) && negb (key_fault m).

(* no to_compile mark, imports are modules of the context, implemented = compiled against the current features
   (and it would compile again), not implemented = no compiled tree *)
Definition mod_ok (l : list modl) (m : modl) : bool :=
  negb (m_tc m) && forallb (fun k => kmem k (keys l)) (m_imps m) &&
  (if m_impl m then comp_eqb (m_comp m) (Some (snapshot l m)) && compiles_ok m
   else comp_eqb (m_comp m) None).

Definition is_nil {A} (l : list A) : bool := match l with [] => true | _ => false end.

(* nothing pending: what every state of a context without LY_CTX_EXPLICIT_COMPILE looks like between two calls
   unless one of the defects struck, and a context with explicit compilation right after ly_ctx_compile() *)
Definition quiescent (s : state) : bool :=
  nodupb (keys (mods s)) && forallb (mod_ok (mods s)) (mods s) && is_nil (creating s) && is_nil (implementing s).

(* the hypotheses about the failing operation: at the point where it jumps to its cleanup, every module that
   existed before still has its LYS_MOD_LATEST_REV bit / its feature bits *)
Definition keeps (p : modl -> modl -> bool) (R : repo) (s : state) (o : op) : bool :=
  forallb (fun m => match find_mod (mkey m) (mods (step_mid R s o)) with
                    | Some m' => p m m'
                    | None => false
                    end) (mods s).
Definition keeps_latest : repo -> state -> op -> bool := keeps (fun m m' => Bool.eqb (m_latest m') (m_latest m)).
Definition keeps_features : repo -> state -> op -> bool := keeps (fun m m' => feats_eqb (m_feats m') (m_feats m)).

Record wf_mod (l : list modl) (m : modl) : Prop := {
  wf_tc : m_tc m = false;
  wf_imps : forall k, In k (m_imps m) -> In k (keys l);
  wf_comp_impl : m_impl m = true -> m_comp m = Some (snapshot l m) /\ compiles_ok m = true;
  wf_comp_nimpl : m_impl m = false -> m_comp m = None }.

Lemma mod_ok_wf l m : mod_ok l m = true -> wf_mod l m.
Proof.
  unfold mod_ok. rewrite !andb_true_iff, negb_true_iff. intros [[H1 H2] H3]. constructor.
  - exact H1.
  - intros k Hk. rewrite forallb_forall in H2. apply kmem_In. apply H2. exact Hk.
  - intros Hi. rewrite Hi in H3. apply andb_true_iff in H3. destruct H3 as [H3 H4].
    apply comp_eqb_eq in H3. tauto.
  - intros Hi. rewrite Hi in H3. apply comp_eqb_eq in H3. exact H3.
Qed.

Record wf_state (s : state) : Prop := {
  wfs_nodup : NoDup (keys (mods s));
  wfs_mods : forall m, In m (mods s) -> wf_mod (mods s) m;
  wfs_creating : creating s = [];
  wfs_implementing : implementing s = [] }.

Lemma quiescent_wf s : quiescent s = true -> wf_state s.
Proof.
  unfold quiescent. rewrite !andb_true_iff. intros [[[H1 H2] H3] H4]. constructor.
  - apply nodupb_NoDup. exact H1.
  - intros m Hm. apply mod_ok_wf. rewrite forallb_forall in H2. apply H2. exact Hm.
  - destruct (creating s); [reflexivity|discriminate].
  - destruct (implementing s); [reflexivity|discriminate].
Qed.

Lemma quiescent_core s : quiescent (core s) = quiescent s.
Proof. reflexivity. Qed.

(* ------------------------------------------------------------------------------------------------ *)
(* parse phase: invariant PI                                                                        *)
(* ------------------------------------------------------------------------------------------------ *)
Definition olds_of (s t : state) : list modl := firstn (length (mods s)) (mods t).
Definition news_of (s t : state) : list modl := skipn (length (mods s)) (mods t).

Lemma olds_news s t : mods t = olds_of s t ++ news_of s t.
Proof. unfold olds_of, news_of. symmetry. apply firstn_skipn. Qed.

Definition clr_flags (m : modl) : modl :=
  set_limpclb false (set_imprev false (set_lsearch false (set_latest false m))).

Definition fresh (m : modl) : Prop := m_impl m = false /\ m_tc m = false /\ m_comp m = None.

Record PI (s t : state) : Prop := {
  pi_expl : explicit t = explicit s;
  pi_len : (length (mods s) <= length (mods t))%nat;
  pi_olds : map clr_flags (olds_of s t) = map clr_flags (mods s);
  pi_creating : creating t = keys (news_of s t);
  pi_nodup : NoDup (keys (mods t));
  pi_impl : implementing t = [];
  pi_evs : Forall (fun e => e = EvAdd) (evs t);
  pi_news : Forall fresh (news_of s t) }.

Lemma PI_refl s : wf_state s -> evs s = [] -> PI s s.
Proof.
  intros W He. constructor.
  - reflexivity.
  - lia.
  - unfold olds_of. rewrite firstn_all. reflexivity.
  - unfold news_of. rewrite skipn_all. rewrite (wfs_creating _ W). reflexivity.
  - apply (wfs_nodup _ W).
  - apply (wfs_implementing _ W).
  - rewrite He. constructor.
  - unfold news_of. rewrite skipn_all. constructor.
Qed.

Lemma keys_olds s t : PI s t -> keys (olds_of s t) = keys (mods s).
Proof.
  intros P. pose proof (pi_olds _ _ P) as H.
  assert (E : forall l, keys l = keys (map clr_flags l)).
  { intros l. unfold keys. rewrite map_map. reflexivity. }
  rewrite E, H, <- E. reflexivity.
Qed.

Lemma map_upd_inv {B} (f : modl -> B) k g l : (forall m, f (g m) = f m) -> map f (upd k g l) = map f l.
Proof.
  intros H. unfold upd. rewrite map_map. apply map_ext. intros m. destruct (key_eqb (mkey m) k); [apply H|reflexivity].
Qed.

Lemma Forall_upd (P : modl -> Prop) k g l : Forall P l -> (forall m, P m -> P (g m)) -> Forall P (upd k g l).
Proof.
  intros F H. unfold upd. induction F as [|m l Hm F IH]; cbn [map]; constructor; [|exact IH].
  destruct (key_eqb (mkey m) k); [apply H|]; exact Hm.
Qed.

Lemma olds_upd_s s t k g : olds_of s (upd_s k g t) = upd k g (olds_of s t).
Proof. unfold olds_of. cbn [upd_s with_mods mods]. apply upd_firstn. Qed.
Lemma news_upd_s s t k g : news_of s (upd_s k g t) = upd k g (news_of s t).
Proof. unfold news_of. cbn [upd_s with_mods mods]. apply upd_skipn. Qed.

(* an update that keeps key, implemented, to_compile, compiled, and either only touches the flags or is aimed at a
   key that is not one of the old modules *)
Lemma PI_upd s t k g :
  PI s t -> (forall m, mkey (g m) = mkey m) ->
  (forall m, m_impl (g m) = m_impl m /\ m_tc (g m) = m_tc m /\ m_comp (g m) = m_comp m) ->
  ((forall m, clr_flags (g m) = clr_flags m) \/ ~ In k (keys (mods s))) ->
  PI s (upd_s k g t).
Proof.
  intros P Hk Hf Hc. constructor; cbn [upd_s with_mods mods explicit creating implementing evs].
  - apply (pi_expl _ _ P).
  - rewrite upd_length. apply (pi_len _ _ P).
  - rewrite olds_upd_s. destruct Hc as [Hc|Hc].
    + rewrite map_upd_inv by exact Hc. apply (pi_olds _ _ P).
    + rewrite upd_notin; [apply (pi_olds _ _ P)|]. rewrite (keys_olds _ _ P). exact Hc.
  - rewrite news_upd_s. rewrite keys_upd by exact Hk. apply (pi_creating _ _ P).
  - rewrite keys_upd by exact Hk. apply (pi_nodup _ _ P).
  - apply (pi_impl _ _ P).
  - apply (pi_evs _ _ P).
  - rewrite news_upd_s. apply Forall_upd; [apply (pi_news _ _ P)|].
    intros m [H1 [H2 H3]]. destruct (Hf m) as [E1 [E2 E3]]. unfold fresh. rewrite E1, E2, E3. tauto.
Qed.

Lemma PI_flag s t k g :
  PI s t -> (forall m, mkey (g m) = mkey m) ->
  (forall m, m_impl (g m) = m_impl m /\ m_tc (g m) = m_tc m /\ m_comp (g m) = m_comp m) ->
  (forall m, clr_flags (g m) = clr_flags m) -> PI s (upd_s k g t).
Proof. intros. apply PI_upd; auto. Qed.

Lemma PI_set_latest s t k b : PI s t -> PI s (upd_s k (set_latest b) t).
Proof. intros P. apply PI_flag; auto. Qed.
Lemma PI_set_lsearch s t k b : PI s t -> PI s (upd_s k (set_lsearch b) t).
Proof. intros P. apply PI_flag; auto. Qed.
Lemma PI_set_imprev s t k b : PI s t -> PI s (upd_s k (set_imprev b) t).
Proof. intros P. apply PI_flag; auto. Qed.
Lemma PI_set_limpclb s t k b : PI s t -> PI s (upd_s k (set_limpclb b) t).
Proof. intros P. apply PI_flag; auto. Qed.

Lemma PI_out_of_fuel s t : PI s t -> PI s (out_of_fuel t).
Proof. intros P. destruct P. constructor; assumption. Qed.
Lemma PI_assert_fails s t : PI s t -> PI s (assert_fails t).
Proof. intros P. destruct P. constructor; assumption. Qed.

Lemma firstn_app_le {A} n (l1 l2 : list A) : (n <= length l1)%nat -> firstn n (l1 ++ l2) = firstn n l1.
Proof.
  intros H. rewrite firstn_app. replace (n - length l1)%nat with O by lia. cbn. apply app_nil_r.
Qed.
Lemma skipn_app_le {A} n (l1 l2 : list A) : (n <= length l1)%nat -> skipn n (l1 ++ l2) = skipn n l1 ++ l2.
Proof.
  intros H. rewrite skipn_app. replace (n - length l1)%nat with O by lia. reflexivity.
Qed.

Lemma NoDup_snoc {A} (l : list A) (x : A) : NoDup l -> ~ In x l -> NoDup (l ++ [x]).
Proof.
  intros H Hx. induction H as [|y l Hy H IH]; cbn [app].
  - constructor; [cbn; tauto|constructor].
  - constructor.
    + rewrite in_app_iff. cbn [In]. intros [Hin|[E|[]]]; [contradiction|]. subst. apply Hx. left. reflexivity.
    + apply IH. intros Hin. apply Hx. right. exact Hin.
Qed.

(* a new module is appended and recorded *)
Lemma PI_create s t d nl ns :
  PI s t -> ~ In (d_name d, d_rev d) (keys (mods t)) ->
  PI s (add_ev EvAdd (with_mods (mods (with_creating (creating t ++ [(d_name d, d_rev d)]) t) ++ [new_module d nl ns])
                                (with_creating (creating t ++ [(d_name d, d_rev d)]) t))).
Proof.
  intros P Hn. pose proof (pi_len _ _ P) as Hl.
  constructor; cbn [add_ev with_mods with_creating mods explicit creating implementing evs].
  - apply (pi_expl _ _ P).
  - rewrite app_length. lia.
  - unfold olds_of. cbn [add_ev with_mods with_creating mods]. rewrite firstn_app_le by exact Hl. apply (pi_olds _ _ P).
  - unfold news_of. cbn [add_ev with_mods with_creating mods]. rewrite skipn_app_le by exact Hl. unfold keys. rewrite map_app.
    fold (news_of s t). fold (keys (news_of s t)). rewrite <- (pi_creating _ _ P). reflexivity.
  - unfold keys. rewrite map_app. cbn [map]. fold (keys (mods t)).
    apply NoDup_snoc; [apply (pi_nodup _ _ P)|exact Hn].
  - apply (pi_impl _ _ P).
  - apply Forall_app. split; [apply (pi_evs _ _ P)|constructor; [reflexivity|constructor]].
  - unfold news_of. cbn [add_ev with_mods with_creating mods]. rewrite skipn_app_le by exact Hl. apply Forall_app.
    split; [apply (pi_news _ _ P)|].
    constructor; [|constructor]. unfold fresh, new_module. cbn. tauto.
Qed.

Ltac PI_step :=
  first [ assumption
        | apply PI_set_latest | apply PI_set_lsearch | apply PI_set_imprev | apply PI_set_limpclb
        | apply PI_out_of_fuel | apply PI_assert_fails ].

Lemma load_from_clb_PI s pin R t name rev ml :
  (forall t d chk, PI s t -> PI s (fst (pin t d chk))) ->
  PI s t -> PI s (fst (load_from_clb pin R t name rev ml)).
Proof.
  intros Hpin P. unfold load_from_clb.
  destruct (match ml with Some ml0 => m_limpclb ml0 | None => false end); [exact P|].
  destruct (repo_serve R name rev) as [d|]; [|exact P].
  pose proof (Hpin t d (Some (name, rev)) P) as Hp. destruct (pin t d (Some (name, rev))) as [s' r].
  cbn [fst] in Hp. destruct r; cbn [fst]; try exact Hp; destruct (rev =? 0); repeat PI_step.
Qed.

Lemma parse_load_PI s pin R t name rev :
  (forall t d chk, PI s t -> PI s (fst (pin t d chk))) ->
  PI s t -> PI s (fst (parse_load pin R t name rev)).
Proof.
  intros Hpin P. unfold parse_load.
  destruct (pick_in_ctx (mods t) name rev) as [found mod_latest].
  destruct found as [m|]; [exact P|].
  pose proof (load_from_clb_PI s pin R t name rev mod_latest Hpin P) as H2.
  destruct (load_from_clb pin R t name rev mod_latest) as [s2 got]. cbn [fst] in H2.
  destruct got as [k|]; [|destruct mod_latest as [ml|]]; cbn [fst].
  - destruct ((rev =? 0) && match find_mod k (mods s2) with Some m => m_latest m | None => false end); repeat PI_step.
  - destruct (find_mod (mkey ml) (mods s2)) as [ml'|]; [destruct (m_latest ml')|]; repeat PI_step.
  - exact H2.
Qed.

Lemma resolve_imports_PI s pl self imps t :
  (forall t n r, PI s t -> PI s (fst (pl t n r))) ->
  ~ In self (keys (mods s)) ->
  PI s t -> PI s (fst (resolve_imports pl self imps t)).
Proof.
  intros Hpl Hself. revert t. induction imps as [|[n r] imps IH]; intros t P; cbn [resolve_imports fst]; [exact P|].
  pose proof (Hpl t n r P) as H1. destruct (pl t n r) as [s1 res]. cbn [fst] in H1.
  destruct res as [k|]; [|exact H1].
  apply IH. apply PI_upd; [|reflexivity|intros m; cbn; tauto|right; exact Hself].
  destruct (r =? 0); repeat PI_step.
Qed.

Lemma get_module_none name rev l : get_module name rev l = None -> ~ In (name, rev) (keys l).
Proof. unfold get_module. apply find_mod_none. Qed.

Lemma parse_in_PI s fuel R : forall t d chk, PI s t -> PI s (fst (parse_in fuel R t d chk)).
Proof.
  induction fuel as [|fuel IH]; intros t d chk P; cbn [parse_in].
  - cbn [fst]. apply PI_out_of_fuel. exact P.
  - destruct (d_fault d =? 1); [exact P|].
    destruct (match get_latest (d_name d) (mods t) with
              | Some L => if negb (d_rev d =? 0) && ((m_rev L =? 0) || (m_rev L <? d_rev d))
                          then (m_latest L, m_lsearch L, Some (mkey L)) else (false, false, None)
              | None => (true, false, None) end) as [[nl ns] disp].
    destruct (_ =? 1); [exact P|]. destruct (_ =? 2); [exact P|].
    destruct (get_module (d_name d) (d_rev d) (mods t)) as [m|] eqn:G; [exact P|].
    apply get_module_none in G.
    set (t1 := match disp with Some lk => upd_s lk (fun m => set_lsearch false (set_latest false m)) t | None => t end).
    assert (P1 : PI s t1).
    { unfold t1. destruct disp; [|exact P]. apply PI_flag; auto. }
    assert (G1 : ~ In (d_name d, d_rev d) (keys (mods t1))).
    { unfold t1. destruct disp; [|exact G]. cbn [upd_s with_mods mods]. rewrite keys_upd; [exact G|reflexivity]. }
    pose proof (PI_create s t1 d nl ns P1 G1) as P3.
    match goal with |- context [resolve_imports ?pl ?k ?i ?t3] =>
      assert (H4 : PI s (fst (resolve_imports pl k i t3))) end.
    { apply resolve_imports_PI; [| |exact P3].
      - intros t' n r P'. apply parse_load_PI; [|exact P']. intros; apply IH; assumption.
      - intros Hin. apply G1. unfold t1. destruct disp.
        + cbn [upd_s with_mods mods]. rewrite keys_upd by reflexivity.
          rewrite (olds_news s t). unfold keys. rewrite map_app. apply in_or_app. left.
          fold (keys (olds_of s t)). rewrite (keys_olds s t P). exact Hin.
        + rewrite (olds_news s t). unfold keys. rewrite map_app. apply in_or_app. left.
          fold (keys (olds_of s t)). rewrite (keys_olds s t P). exact Hin. }
    match goal with |- context [resolve_imports ?pl ?k ?i ?t3] => destruct (resolve_imports pl k i t3) as [s4 ok] end.
    cbn [fst] in H4. destruct (negb ok); [exact H4|]. destruct (d_fault d =? 2); exact H4.
Qed.

(* ------------------------------------------------------------------------------------------------ *)
(* implement / dep sets / compile: invariant QI                                                     *)
(* ------------------------------------------------------------------------------------------------ *)
(* old module m (before the operation) and what it is now, m'; imp = unres.implementing, D = keys of the dep sets *)
Record qrel (imp D : list key) (m m' : modl) : Prop := {
  q_key : mkey m' = mkey m;
  q_imps : m_imps m' = m_imps m;
  q_cfault : m_cfault m' = m_cfault m;
  q_single : m_single m' = m_single m;
  q_hasdep : m_hasdep m' = m_hasdep m;
  q_impl1 : m_impl m = true -> m_impl m' = true;
  q_impl2 : m_impl m' = true -> m_impl m = true \/ In (mkey m) imp;
  q_imp : In (mkey m) imp -> m_impl m = false;
  q_tc : m_tc m' = true -> m_impl m' = true;
  q_comp : m_comp m' = m_comp m \/ (m_tc m' = true /\ In (mkey m) D) \/ In (mkey m) imp }.

Record QI (s : state) (imp D : list key) (t : state) : Prop := {
  qi_expl : explicit t = explicit s;
  qi_len : (length (mods s) <= length (mods t))%nat;
  qi_creating : creating t = keys (news_of s t);
  qi_nodup : NoDup (keys (mods t));
  qi_olds : Forall2 (qrel imp D) (mods s) (olds_of s t);
  qi_imp : implementing t = imp }.

Lemma map_eq_Forall2 {A B} (f : A -> B) l l' : map f l' = map f l -> Forall2 (fun a b => f b = f a) l l'.
Proof. intros H. apply Forall2_map_eq. exact H. Qed.

Lemma clr_flags_fields m m' : clr_flags m' = clr_flags m ->
  mkey m' = mkey m /\ m_imps m' = m_imps m /\ m_cfault m' = m_cfault m /\ m_single m' = m_single m /\
  m_hasdep m' = m_hasdep m /\ m_impl m' = m_impl m /\ m_tc m' = m_tc m /\ m_comp m' = m_comp m /\
  m_feats m' = m_feats m.
Proof.
  destruct m, m'. unfold clr_flags, set_limpclb, set_imprev, set_lsearch, set_latest, mkey. cbn.
  intros H. inversion H; subst. repeat split; reflexivity.
Qed.

Lemma Forall2_with_In {A B} (R : A -> B -> Prop) l l' :
  Forall2 R l l' -> Forall2 (fun a b => In a l /\ R a b) l l'.
Proof.
  intros F. induction F as [|x y l l' H F IH]; constructor.
  - split; [left; reflexivity|exact H].
  - eapply Forall2_impl; [|exact IH]. cbn. intros a b [H1 H2]. split; [right; exact H1|exact H2].
Qed.

Lemma PI_QI s t : wf_state s -> PI s t -> QI s [] [] t.
Proof.
  intros W P. constructor.
  - apply (pi_expl _ _ P).
  - apply (pi_len _ _ P).
  - apply (pi_creating _ _ P).
  - apply (pi_nodup _ _ P).
  - pose proof (map_eq_Forall2 _ _ _ (pi_olds _ _ P)) as F.
    pose proof (Forall2_with_In _ _ _ F) as F'.
    eapply Forall2_impl; [|exact F']. cbn. intros m m' [Hin E].
    apply clr_flags_fields in E. destruct E as [E1 [E2 [E3 [E4 [E5 [E6 [E7 [E8 E9]]]]]]]].
    pose proof (wfs_mods _ W m Hin) as Wm.
    constructor; try assumption.
    + intros H. congruence.
    + intros H. left. congruence.
    + intros [].
    + intros H. rewrite E7, (wf_tc _ _ Wm) in H. discriminate.
    + left. exact E8.
  - apply (pi_impl _ _ P).
Qed.

Lemma PI_feats s t : PI s t -> map m_feats (olds_of s t) = map m_feats (mods s).
Proof.
  intros P. pose proof (pi_olds _ _ P) as H.
  assert (E : forall l, map m_feats l = map m_feats (map clr_flags l)).
  { intros l. rewrite map_map. apply map_ext. intros m. destruct m; reflexivity. }
  rewrite E, H, <- E. reflexivity.
Qed.

(* Forall2 along an update of the right list, knowing the updated module is in the list *)
Lemma Forall2_upd_r_in (R : modl -> modl -> Prop) k g l l' :
  Forall2 R l l' -> (forall m m', In m' l' -> R m m' -> mkey m' = k -> R m (g m')) -> Forall2 R l (upd k g l').
Proof.
  intros H. induction H as [|m m' l l' Hr H IH]; intros Hg; cbn [upd map]; [constructor|].
  constructor.
  - destruct (key_eqb (mkey m') k) eqn:E; [apply Hg; [left; reflexivity|exact Hr|apply key_eqb_eq; exact E]|exact Hr].
  - apply IH. intros a b Hb. apply Hg. right. exact Hb.
Qed.

Lemma keys_olds_Q s imp D t : QI s imp D t -> keys (olds_of s t) = keys (mods s).
Proof.
  intros Q. pose proof (qi_olds _ _ _ _ Q) as F. unfold keys. induction F as [|a b l l' H F IH]; cbn; [reflexivity|].
  rewrite (q_key _ _ _ _ H). f_equal. exact IH.
Qed.

Lemma In_olds s t m : In m (olds_of s t) -> In m (mods t).
Proof.
  intros H. rewrite (olds_news s t). apply in_or_app. left. exact H.
Qed.

(* an update of the module(s) with key k that respects qrel for the module it hits *)
Lemma QI_upd s imp D t k g :
  QI s imp D t -> (forall m, mkey (g m) = mkey m) ->
  (forall m m', In m' (mods t) -> mkey m' = k -> qrel imp D m m' -> qrel imp D m (g m')) ->
  QI s imp D (upd_s k g t).
Proof.
  intros Q Hk Hg. constructor.
  - apply (qi_expl _ _ _ _ Q).
  - cbn [upd_s with_mods mods]. rewrite upd_length. apply (qi_len _ _ _ _ Q).
  - rewrite news_upd_s, keys_upd by exact Hk. apply (qi_creating _ _ _ _ Q).
  - cbn [upd_s with_mods mods]. rewrite keys_upd by exact Hk. apply (qi_nodup _ _ _ _ Q).
  - rewrite olds_upd_s. apply Forall2_upd_r_in; [apply (qi_olds _ _ _ _ Q)|].
    intros m m' Hin Hr Hkk. apply Hg; [apply (In_olds s t); exact Hin|exact Hkk|exact Hr].
  - apply (qi_imp _ _ _ _ Q).
Qed.

Lemma QI_out_of_fuel s imp D t : QI s imp D t -> QI s imp D (out_of_fuel t).
Proof. intros Q. destruct Q. constructor; assumption. Qed.
Lemma QI_add_ev s imp D t e : QI s imp D t -> QI s imp D (add_ev e t).
Proof. intros Q. destruct Q. constructor; assumption. Qed.

(* setting to_compile on an implemented module *)
Lemma qrel_set_tc_true imp D m m' : m_impl m' = true -> qrel imp D m m' -> qrel imp D m (set_tc true m').
Proof.
  intros Hi Q. destruct Q. constructor; cbn; try assumption.
  - intros _. exact Hi.
  - destruct q_comp0 as [H|[[H1 H2]|H]]; [left; exact H|right; left; split; [reflexivity|exact H2]|right; right; exact H].
Qed.

Lemma find_mod_is k l m m' : NoDup (keys l) -> find_mod k l = Some m -> In m' l -> mkey m' = k -> m' = m.
Proof.
  intros Hnd Hf Hin Hk. pose proof (find_mod_unique k l m' Hnd Hin Hk) as E. congruence.
Qed.

(* "only to_compile changed" between two states *)
Record same_but (N : modl -> modl) (t t' : state) : Prop := {
  sb_expl : explicit t' = explicit t;
  sb_creating : creating t' = creating t;
  sb_mods : map N (mods t') = map N (mods t) }.

Lemma same_but_refl N t : same_but N t t.
Proof. constructor; reflexivity. Qed.
Lemma same_but_trans N t1 t2 t3 : same_but N t1 t2 -> same_but N t2 t3 -> same_but N t1 t3.
Proof. intros [] []. constructor; congruence. Qed.
Lemma same_but_upd N t k g : (forall m, N (g m) = N m) -> same_but N t (upd_s k g t).
Proof.
  intros H. constructor; try reflexivity. cbn [upd_s with_mods mods]. apply map_upd_inv. exact H.
Qed.
Lemma same_but_out_of_fuel N t : same_but N t (out_of_fuel t).
Proof. constructor; reflexivity. Qed.
Lemma same_but_add_ev N t e : same_but N t (add_ev e t).
Proof. constructor; reflexivity. Qed.

Definition no_tc (m : modl) : modl := set_tc false m.
Definition no_tc_comp (m : modl) : modl := set_tc false (set_comp None m).

(* lys_has_compiled_import_r *)
Lemma hci_loop_QI s imp D rec imps :
  (forall t k, QI s imp D t -> QI s imp D (fst (rec t k)) /\ same_but no_tc t (fst (rec t k))) ->
  forall t, QI s imp D t ->
  QI s imp D (fst (hci_loop rec imps t)) /\ same_but no_tc t (fst (hci_loop rec imps t)).
Proof.
  intros Hrec. induction imps as [|ik imps IH]; intros t Q; cbn [hci_loop].
  - split; [exact Q|apply same_but_refl].
  - destruct (find_mod ik (mods t)) as [im|] eqn:F; [|apply IH; exact Q].
    destruct (negb (m_impl im)) eqn:Ei; [apply IH; exact Q|].
    destruct (negb (m_tc im)) eqn:Et.
    + cbn [fst]. split; [|apply same_but_upd; intros m; destruct m; reflexivity].
      apply QI_upd; [exact Q|reflexivity|]. intros m m' Hin Hk Hr.
      assert (m' = im) by (eapply find_mod_is; [apply (qi_nodup _ _ _ _ Q)|exact F|exact Hin|exact Hk]). subst m'.
      apply qrel_set_tc_true; [|exact Hr]. apply negb_false_iff in Ei. exact Ei.
    + destruct (Hrec t ik Q) as [Q1 S1]. destruct (rec t ik) as [s1 stop]. cbn [fst] in Q1, S1.
      destruct stop; cbn [fst]; [split; assumption|].
      destruct (IH s1 Q1) as [Q2 S2]. split; [exact Q2|eapply same_but_trans; eassumption].
Qed.

Lemma has_compiled_import_r_QI s imp D fuel : forall t k, QI s imp D t ->
  QI s imp D (fst (has_compiled_import_r fuel t k)) /\ same_but no_tc t (fst (has_compiled_import_r fuel t k)).
Proof.
  induction fuel as [|fuel IH]; intros t k Q; cbn [has_compiled_import_r].
  - cbn [fst]. split; [apply QI_out_of_fuel; exact Q|apply same_but_out_of_fuel].
  - destruct (find_mod k (mods t)) as [m|]; [|split; [exact Q|apply same_but_refl]].
    apply hci_loop_QI; [exact IH|exact Q].
Qed.

(* ------------------------------------------------------------------------------------------------ *)
(* lys_set_features                                                                                 *)
(* ------------------------------------------------------------------------------------------------ *)
Lemma map_on_same (p : feat -> bool) fs :
  map (fun f => mkFeat (f_name f) (f_deps f) (p f)) fs = fs -> forallb (fun f => Bool.eqb (f_on f) (p f)) fs = true.
Proof.
  induction fs as [|f fs IH]; cbn [map forallb]; [reflexivity|].
  intros H. inversion H as [[H1 H2]]. rewrite H2. rewrite (IH H2). destruct f as [n d o]. cbn in *.
  inversion H1 as [Ho]. rewrite <- Ho at 1. rewrite Bool.eqb_reflx. reflexivity.
Qed.

(* LY_SUCCESS of lys_set_features means a bit changed *)
Lemma set_features_changed fs sel fs' : set_features fs sel = SfOk fs' -> fs' <> fs.
Proof.
  unfold set_features. destruct sel as [| |l].
  - discriminate.
  - destruct (forallb f_on fs) eqn:E; [discriminate|]. intros H. inversion H; subst. intros Heq.
    apply map_on_same in Heq.
    assert (Ht : forallb f_on fs = true).
    { rewrite forallb_forall in Heq. apply forallb_forall. intros f Hf. specialize (Heq f Hf).
      apply Bool.eqb_prop in Heq. exact Heq. }
    congruence.
  - destruct l as [|n l].
    + destruct (existsb f_on fs) eqn:E; [|discriminate]. intros H. inversion H; subst. intros Heq.
      apply map_on_same in Heq. apply existsb_exists in E. destruct E as [f [Hf Hon]].
      rewrite forallb_forall in Heq. specialize (Heq f Hf). rewrite Hon in Heq. discriminate.
    + destruct (negb (forallb (fun n0 => feat_exists n0 fs) (n :: l))); [discriminate|].
      destruct (forallb (fun f => Bool.eqb (f_on f) (existsb (N.eqb (f_name f)) (n :: l))) fs) eqn:E; [discriminate|].
      intros H. inversion H; subst. intros Heq.
      apply (map_on_same (fun f => existsb (N.eqb (f_name f)) (n :: l))) in Heq. cbv beta in Heq.
      rewrite E in Heq. discriminate.
Qed.

(* ------------------------------------------------------------------------------------------------ *)
(* _lys_set_implemented                                                                             *)
(* ------------------------------------------------------------------------------------------------ *)
Definition nrm_B (m : modl) : modl := set_tc false (set_comp None (set_impl false (set_feats [] m))).

Inductive si_case (t : state) (k : key) (sel : fsel) : state * bool -> Prop :=
| SiFail : si_case t k sel (t, false)
| SiSame : si_case t k sel (t, true)
| SiFeat m fs : find_mod k (mods t) = Some m -> m_impl m = true -> set_features (m_feats m) sel = SfOk fs ->
    si_case t k sel (upd_s k (fun m => set_tc true (set_feats fs m)) t, true)
| SiImpl m fs : find_mod k (mods t) = Some m -> m_impl m = false ->
    (set_features (m_feats m) sel = SfOk fs \/ fs = m_feats m) ->
    si_case t k sel
      (fst (has_compiled_import_r (S (length (mods t)))
              (with_implementing (implementing t ++ [k])
                 (upd_s k (fun m => set_tc true (set_impl true (set_feats fs m))) t)) k), true).

Lemma let_fst_true {A B} (x : A * B) : (let '(a, _) := x in (a, true)) = (fst x, true).
Proof. destruct x; reflexivity. Qed.

Lemma set_implemented_cases t k sel : si_case t k sel (set_implemented t k sel).
Proof.
  unfold set_implemented. destruct (find_mod k (mods t)) as [m|] eqn:F; [|constructor].
  destruct (m_impl m) eqn:Ei.
  - destruct (set_features (m_feats m) sel) as [fs| |] eqn:Es; try constructor.
    eapply SiFeat; eassumption.
  - destruct (get_implemented (m_name m) (mods t)); [constructor|].
    destruct (set_features (m_feats m) sel) as [fs| |] eqn:Es; [| |constructor].
    + rewrite let_fst_true. cbn [upd_s with_mods mods with_implementing implementing]. rewrite upd_length.
      eapply (SiImpl t k sel m fs); [exact F|exact Ei|left; exact Es].
    + rewrite let_fst_true. cbn [upd_s with_mods mods with_implementing implementing]. rewrite upd_length.
      eapply (SiImpl t k sel m (m_feats m)); [exact F|exact Ei|right; reflexivity].
Qed.

Lemma qrel_mono imp D imp' D' m m' :
  qrel imp D m m' -> incl imp imp' -> incl D D' -> (forall k, In k imp' -> ~ In k imp -> k <> mkey m) ->
  qrel imp' D' m m'.
Proof.
  intros Q Hi Hd Hn. destruct Q as [Q1 Q2 Q3 Q4 Q5 Q6 Q7 Q8 Q9 Q10]. constructor; try assumption.
  - intros H. destruct (Q7 H) as [H'|H']; [left; exact H'|right; apply Hi; exact H'].
  - intros H. destruct (in_dec key_dec (mkey m) imp) as [H'|H']; [apply Q8; exact H'|].
    exfalso. apply (Hn _ H H'). reflexivity.
  - destruct Q10 as [H|[[H1 H2]|H]]; [left; exact H|right; left; split; [exact H1|apply Hd; exact H2]|
                                          right; right; apply Hi; exact H].
Qed.

Lemma QI_mono_D s imp D D' t : QI s imp D t -> incl D D' -> QI s imp D' t.
Proof.
  intros Q Hd. destruct Q as [Q1 Q2 Q3 Q4 Q5 Q6]. constructor; try assumption.
  eapply Forall2_impl; [|exact Q5]. intros m m' Hr. eapply qrel_mono; [exact Hr|apply incl_refl|exact Hd|].
  intros k H1 H2. contradiction.
Qed.

(* lys_implement: the module becomes implemented, marked, gets its features, and is recorded in implementing *)
Lemma QI_implement s D t k m fs :
  QI s [] D t -> find_mod k (mods t) = Some m -> m_impl m = false ->
  QI s [k] D (with_implementing (implementing t ++ [k])
                (upd_s k (fun m => set_tc true (set_impl true (set_feats fs m))) t)).
Proof.
  intros Q F Hi. pose proof (qi_nodup _ _ _ _ Q) as Hnd.
  constructor; cbn [with_implementing explicit creating implementing mods].
  - apply (qi_expl _ _ _ _ Q).
  - cbn [upd_s with_mods mods]. rewrite upd_length. apply (qi_len _ _ _ _ Q).
  - change (creating t = keys (news_of s (upd_s k (fun m0 => set_tc true (set_impl true (set_feats fs m0))) t))).
    rewrite news_upd_s, keys_upd by reflexivity. apply (qi_creating _ _ _ _ Q).
  - cbn [upd_s with_mods mods]. rewrite keys_upd by reflexivity. exact Hnd.
  - change (Forall2 (qrel [k] D) (mods s) (olds_of s (upd_s k (fun m0 => set_tc true (set_impl true (set_feats fs m0))) t))).
    rewrite olds_upd_s.
    assert (F2 : Forall2 (fun a b => In b (olds_of s t) /\ qrel [] D a b) (mods s) (olds_of s t)).
    { pose proof (qi_olds _ _ _ _ Q) as F0. clear -F0. induction F0 as [|x y l l' H F0 IH]; constructor.
      - split; [left; reflexivity|exact H].
      - eapply Forall2_impl; [|exact IH]. cbn. intros a b [H1 H2]. split; [right; exact H1|exact H2]. }
    clear -F2 F Hi Hnd. induction F2 as [|a b l l' [Hin Hr] F2 IH]; cbn [upd map]; constructor; [|exact IH].
    destruct (key_eqb (mkey b) k) eqn:E.
    + apply key_eqb_eq in E.
      assert (b = m) by (eapply find_mod_is; [exact Hnd|exact F|apply (In_olds s t); exact Hin|exact E]). subst b.
      destruct Hr as [Q1 Q2 Q3 Q4 Q5 Q6 Q7 Q8 Q9 Q10]. constructor; cbn; try assumption.
      * intros _. reflexivity.
      * intros _. right. left. congruence.
      * intros _. destruct (m_impl a) eqn:Ea; [|reflexivity]. rewrite (Q6 eq_refl) in Hi. discriminate.
      * intros _. reflexivity.
      * right. right. left. congruence.
    + apply key_eqb_neq in E. eapply qrel_mono; [exact Hr|intros x []|apply incl_refl|].
      intros k' [<-|[]] _ Heq. apply E. rewrite Heq. apply (q_key _ _ _ _ Hr).
  - rewrite (qi_imp _ _ _ _ Q). reflexivity.
Qed.

Lemma same_but_implementing N t l : same_but N t (with_implementing l t).
Proof. constructor; reflexivity. Qed.

Lemma same_but_weaken (N N' : modl -> modl) t t' :
  (forall m, N' m = N' (N m)) -> same_but N t t' -> same_but N' t t'.
Proof.
  intros H [E1 E2 E3]. constructor; [exact E1|exact E2|].
  assert (E : forall l, map N' l = map N' (map N l)).
  { intros l. rewrite map_map. apply map_ext. exact H. }
  rewrite E, E3, <- E. reflexivity.
Qed.

Lemma hci_loop_same_but rec imps :
  (forall t k, same_but no_tc t (fst (rec t k))) ->
  forall t, same_but no_tc t (fst (hci_loop rec imps t)).
Proof.
  intros Hrec. induction imps as [|ik imps IH]; intros t; cbn [hci_loop]; [apply same_but_refl|].
  destruct (find_mod ik (mods t)) as [im|]; [|apply IH].
  destruct (negb (m_impl im)); [apply IH|]. destruct (negb (m_tc im)).
  - cbn [fst]. apply same_but_upd. intros m; destruct m; reflexivity.
  - pose proof (Hrec t ik) as S1. destruct (rec t ik) as [s1 stop]. cbn [fst] in S1.
    destruct stop; cbn [fst]; [exact S1|]. eapply same_but_trans; [exact S1|apply IH].
Qed.
Lemma has_compiled_import_r_same_but fuel : forall t k, same_but no_tc t (fst (has_compiled_import_r fuel t k)).
Proof.
  induction fuel as [|fuel IH]; intros t k; cbn [has_compiled_import_r]; [apply same_but_out_of_fuel|].
  destruct (find_mod k (mods t)); [|apply same_but_refl]. apply hci_loop_same_but. exact IH.
Qed.

(* _lys_set_implemented changes implemented / features / to_compile at most *)
Lemma set_implemented_same_but t k sel : same_but nrm_B t (fst (set_implemented t k sel)).
Proof.
  destruct (set_implemented_cases t k sel) as [| |m fs F Hi Hs|m fs F Hi Hs]; cbn [fst]; try apply same_but_refl.
  - apply same_but_upd. intros x. destruct x; reflexivity.
  - eapply (same_but_trans nrm_B _ (with_implementing (implementing t ++ [k])
                                       (upd_s k (fun m => set_tc true (set_impl true (set_feats fs m))) t))).
    + eapply (same_but_trans nrm_B _ (upd_s k (fun m => set_tc true (set_impl true (set_feats fs m))) t));
        [apply same_but_upd; intros x; destruct x; reflexivity|apply same_but_implementing].
    + apply (same_but_weaken no_tc nrm_B); [intros x; destruct x; reflexivity|apply has_compiled_import_r_same_but].
Qed.

(* ------------------------------------------------------------------------------------------------ *)
(* lys_unres_dep_sets_create only sets to_compile, and only on implemented modules                  *)
(* ------------------------------------------------------------------------------------------------ *)
Lemma qrel_mark imp D m m' : qrel imp D m m' -> qrel imp D m (if m_impl m' then set_tc true m' else m').
Proof.
  intros Q. destruct (m_impl m') eqn:E; [apply qrel_set_tc_true; assumption|exact Q].
Qed.

Lemma fold_mark_QI s imp D ds : forall t, QI s imp D t ->
  QI s imp D (fold_left (fun s k => upd_s k (fun m => if m_impl m then set_tc true m else m) s) ds t).
Proof.
  induction ds as [|k ds IH]; intros t Q; cbn [fold_left]; [exact Q|]. apply IH.
  apply QI_upd; [exact Q|intros m; destruct (m_impl m); reflexivity|]. intros m m' _ _ Hr. apply qrel_mark. exact Hr.
Qed.
Lemma fold_mark_same_but ds : forall t,
  same_but no_tc t (fold_left (fun s k => upd_s k (fun m => if m_impl m then set_tc true m else m) s) ds t).
Proof.
  induction ds as [|k ds IH]; intros t; cbn [fold_left]; [apply same_but_refl|].
  eapply same_but_trans; [|apply IH]. apply same_but_upd. intros m. destruct m as [? ? [] ? ? ? ? ? ? ? ? ? ? ?]; reflexivity.
Qed.

Lemma mark_depset_QI s imp D ds t : QI s imp D t -> QI s imp D (mark_depset ds t).
Proof. intros Q. unfold mark_depset. destruct (existsb _ ds); [apply fold_mark_QI|]; exact Q. Qed.
Lemma mark_depset_same_but ds t : same_but no_tc t (mark_depset ds t).
Proof. unfold mark_depset. destruct (existsb _ ds); [apply fold_mark_same_but|apply same_but_refl]. Qed.

Lemma dep_sets_loop_QI s imp D fuel target : forall t cs main, QI s imp D t ->
  QI s imp D (fst (dep_sets_loop fuel t target cs main)) /\ same_but no_tc t (fst (dep_sets_loop fuel t target cs main)).
Proof.
  induction fuel as [|fuel IH]; intros t cs main Q; cbn [dep_sets_loop].
  - cbn [fst]. split; [apply QI_out_of_fuel; exact Q|apply same_but_out_of_fuel].
  - destruct cs as [|c0 cs']; [split; [exact Q|apply same_but_refl]|].
    destruct (dep_dfs _ t _ _) as [[[cs1 ds] aux] oof].
    set (t1 := if oof then out_of_fuel t else t).
    assert (Q1 : QI s imp D t1) by (unfold t1; destruct oof; [apply QI_out_of_fuel|]; exact Q).
    assert (S1 : same_but no_tc t t1) by (unfold t1; destruct oof; [apply same_but_out_of_fuel|apply same_but_refl]).
    pose proof (mark_depset_QI s imp D ds t1 Q1) as Q2. pose proof (mark_depset_same_but ds t1) as S2.
    destruct target as [k|].
    + cbn [fst]. split; [exact Q2|eapply same_but_trans; eassumption].
    + destruct (IH (mark_depset ds t1) cs1 (main ++ [ds]) Q2) as [Q3 S3].
      split; [exact Q3|]. eapply same_but_trans; [exact S1|]. eapply same_but_trans; eassumption.
Qed.

Lemma dep_sets_create_QI s imp D t target : QI s imp D t ->
  QI s imp D (fst (dep_sets_create t target)) /\ same_but no_tc t (fst (dep_sets_create t target)).
Proof.
  intros Q. unfold dep_sets_create. destruct (create_single _ t 0 _ []) as [cs1 main1].
  destruct target as [k|].
  - destruct (negb (kmem k cs1)); [split; [exact Q|apply same_but_refl]|]. apply dep_sets_loop_QI. exact Q.
  - apply dep_sets_loop_QI. exact Q.
Qed.

(* ------------------------------------------------------------------------------------------------ *)
(* compilation                                                                                      *)
(* ------------------------------------------------------------------------------------------------ *)
Definition no_comp (m : modl) : modl := set_comp None m.

Lemma find_mod_map_eq (N : modl -> modl) k : (forall m, mkey (N m) = mkey m) ->
  forall l l', map N l' = map N l -> forall m', find_mod k l' = Some m' ->
  exists m, find_mod k l = Some m /\ N m' = N m.
Proof.
  intros HN. induction l as [|a l IH]; intros [|b l'] H m' F; cbn in H; try discriminate H.
  - unfold find_mod in F. cbn in F. discriminate F.
  - inversion H as [[H1 H2]]. unfold find_mod in *. cbn [find] in *.
    assert (Ek : mkey b = mkey a) by (rewrite <- (HN b), <- (HN a), H1; reflexivity).
    rewrite Ek in F. destruct (key_eqb (mkey a) k).
    + inversion F; subst. exists a. split; [reflexivity|exact H1].
    + apply (IH l' H2 m' F).
Qed.

Lemma same_but_find N t t' k m' : (forall m, mkey (N m) = mkey m) -> same_but N t t' ->
  find_mod k (mods t') = Some m' -> exists m, find_mod k (mods t) = Some m /\ N m' = N m.
Proof. intros HN S F. eapply find_mod_map_eq; [exact HN|apply (sb_mods _ _ _ S)|exact F]. Qed.
Lemma same_but_find_l N t t' k m : (forall m, mkey (N m) = mkey m) -> same_but N t t' ->
  find_mod k (mods t) = Some m -> exists m', find_mod k (mods t') = Some m' /\ N m' = N m.
Proof.
  intros HN S F. destruct (find_mod_map_eq N k HN (mods t') (mods t) (eq_sym (sb_mods _ _ _ S)) m F) as [m' [F' E]].
  exists m'. split; [exact F'|symmetry; exact E].
Qed.

Lemma same_but_sym N t t' : same_but N t t' -> same_but N t' t.
Proof. intros [E1 E2 E3]. constructor; congruence. Qed.

(* the abstract compiled schema only reads features, imports and keys *)
Lemma snapshot_ext l l' m m' :
  m_feats m' = m_feats m -> m_imps m' = m_imps m ->
  (forall ik, In ik (m_imps m) ->
     match find_mod ik l, find_mod ik l' with
     | Some a, Some b => m_feats b = m_feats a
     | None, None => True
     | _, _ => False
     end) ->
  snapshot l' m' = snapshot l m /\ snapshot_all l' m' = snapshot_all l m.
Proof.
  intros Hf Hi Hfind. unfold snapshot, snapshot_all. rewrite Hf, Hi.
  assert (E : forall (g : list feat -> list N) (ik : nat * key), In ik (combine (seq 0 (length (m_imps m))) (m_imps m)) ->
          match find_mod (snd ik) l' with
          | Some im => map (fun n => (N.of_nat (S (fst ik)), n)) (g (m_feats im))
          | None => []
          end =
          match find_mod (snd ik) l with
          | Some im => map (fun n => (N.of_nat (S (fst ik)), n)) (g (m_feats im))
          | None => []
          end).
  { intros g [i ik] Hin. apply in_combine_r in Hin. cbn [fst snd]. specialize (Hfind ik Hin).
    destruct (find_mod ik l), (find_mod ik l'); try contradiction; [rewrite Hfind|]; reflexivity. }
  split; f_equal; f_equal.
  - apply map_ext_in. intros ik Hin. apply (E enabled_names ik Hin).
  - apply map_ext_in. intros ik Hin. apply (E (map f_name) ik Hin).
Qed.

Lemma same_but_snapshot t t' m : same_but no_tc_comp t t' ->
  snapshot (mods t') m = snapshot (mods t) m /\ snapshot_all (mods t') m = snapshot_all (mods t) m.
Proof.
  intros S. apply snapshot_ext; try reflexivity. intros ik _.
  destruct (find_mod ik (mods t)) as [a|] eqn:Fa.
  - destruct (same_but_find_l no_tc_comp t t' ik a) as [b [Fb E]]; [intros x; destruct x; reflexivity|exact S|exact Fa|].
    rewrite Fb. destruct a, b. unfold no_tc_comp, set_tc, set_comp in E. cbn in E. inversion E. reflexivity.
  - destruct (find_mod ik (mods t')) as [b|] eqn:Fb; [|exact I].
    destruct (same_but_find no_tc_comp t t' ik b) as [a [Fa' _]]; [intros x; destruct x; reflexivity|exact S|exact Fb|].
    congruence.
Qed.

Definition all_tc (t : state) (ks : list key) : Prop :=
  forall k m, In k ks -> find_mod k (mods t) = Some m -> m_tc m = true.

Lemma qrel_set_comp imp D m m' c :
  m_tc m' = true -> In (mkey m) D -> qrel imp D m m' -> qrel imp D m (set_comp c m').
Proof.
  intros Ht Hd [Q1 Q2 Q3 Q4 Q5 Q6 Q7 Q8 Q9 Q10]. constructor; cbn; try assumption.
  right. left. split; assumption.
Qed.

Lemma QI_set_comp s imp D t k m c :
  QI s imp D t -> find_mod k (mods t) = Some m -> m_tc m = true -> In k D -> QI s imp D (upd_s k (set_comp c) t).
Proof.
  intros Q F Ht Hd. apply QI_upd; [exact Q|reflexivity|]. intros a b Hin Hk Hr.
  assert (b = m) by (eapply find_mod_is; [apply (qi_nodup _ _ _ _ Q)|exact F|exact Hin|exact Hk]). subst b.
  apply qrel_set_comp; [exact Ht| |exact Hr]. rewrite <- (q_key _ _ _ _ Hr), Hk. exact Hd.
Qed.

Lemma no_comp_weaken t t' : same_but no_comp t t' -> same_but no_tc_comp t t'.
Proof. apply same_but_weaken. intros m. destruct m; reflexivity. Qed.

Lemma all_tc_same t t' ks : same_but no_comp t t' -> all_tc t ks -> all_tc t' ks.
Proof.
  intros S H k m' Hin F.
  destruct (same_but_find no_comp t t' k m') as [m [F0 E]]; [intros x; destruct x; reflexivity|exact S|exact F|].
  specialize (H k m Hin F0). rewrite <- H. exact (f_equal m_tc E).
Qed.

Lemma compile_mods_QI s imp D : forall ds t done,
  QI s imp D t -> incl ds D -> all_tc t done ->
  let r := compile_mods ds t done in
  QI s imp D (fst (fst r)) /\ same_but no_comp t (fst (fst r)) /\ all_tc (fst (fst r)) (snd (fst r)) /\
  incl (snd (fst r)) (done ++ ds) /\
  (snd r = true -> forall k m, In k ds -> find_mod k (mods t) = Some m -> m_tc m = true -> In k (snd (fst r))) /\
  incl done (snd (fst r)).
Proof.
  induction ds as [|k ds IH]; intros t done Q Hd Ht; cbn [compile_mods].
  - cbn [fst snd]. refine (conj Q (conj _ (conj Ht (conj _ (conj _ _))))).
    + apply same_but_refl.
    + rewrite app_nil_r. apply incl_refl.
    + intros _ k m [].
    + apply incl_refl.
  - assert (Hd' : incl ds D) by (intros x Hx; apply Hd; right; exact Hx).
    destruct (find_mod k (mods t)) as [m|] eqn:F.
    2:{ destruct (IH t done Q Hd' Ht) as [H1 [H2 [H3 [H4 [H5 H6]]]]].
        refine (conj H1 (conj H2 (conj H3 (conj _ (conj _ H6))))).
        - intros x Hx. apply H4 in Hx. apply in_app_or in Hx. apply in_or_app. destruct Hx; [left|right; right]; assumption.
        - intros Hok k' m' [<-|Hin] F' Htc; [congruence|]. apply (H5 Hok k' m' Hin F' Htc). }
    destruct (negb (m_tc m)) eqn:Etc.
    { destruct (IH t done Q Hd' Ht) as [H1 [H2 [H3 [H4 [H5 H6]]]]].
      refine (conj H1 (conj H2 (conj H3 (conj _ (conj _ H6))))).
      - intros x Hx. apply H4 in Hx. apply in_app_or in Hx. apply in_or_app. destruct Hx; [left|right; right]; assumption.
      - intros Hok k' m' [<-|Hin] F' Htc; [|apply (H5 Hok k' m' Hin F' Htc)].
        rewrite F in F'. inversion F'; subst. apply negb_true_iff in Etc. congruence. }
    apply negb_false_iff in Etc.
    assert (HkD : In k D) by (apply Hd; left; reflexivity).
    set (t1 := add_ev (EvCompile k) (upd_s k (set_comp None) t)).
    assert (Q1 : QI s imp D t1) by (apply QI_add_ev; eapply QI_set_comp; eassumption).
    assert (S1 : same_but no_comp t t1).
    { eapply same_but_trans; [apply same_but_upd|apply same_but_add_ev]. intros x; destruct x; reflexivity. }
    destruct (node_fault m).
    { cbn [fst snd]. refine (conj Q1 (conj S1 (conj _ (conj _ (conj _ _))))).
      - eapply all_tc_same; eassumption.
      - apply incl_appl. apply incl_refl.
      - discriminate.
      - apply incl_refl. }
    set (t2 := upd_s k (set_comp (Some (snapshot_all (mods t1) m))) t1).
    assert (F1 : find_mod k (mods t1) = Some (set_comp None m)).
    { unfold t1. cbn [add_ev mods upd_s with_mods]. apply find_mod_upd_same; [reflexivity|exact F]. }
    assert (Q2 : QI s imp D t2) by (eapply QI_set_comp; [exact Q1|exact F1|exact Etc|exact HkD]).
    assert (S2 : same_but no_comp t t2).
    { eapply same_but_trans; [exact S1|]. apply same_but_upd. intros x; destruct x; reflexivity. }
    assert (Ht2 : all_tc t2 (done ++ [k])).
    { intros k' m' Hin F'. apply in_app_or in Hin. destruct Hin as [Hin|[<-|[]]].
      - eapply (all_tc_same t t2 done S2 Ht); eassumption.
      - destruct (same_but_find no_comp t t2 k m') as [m0 [F0 E]]; [intros x; destruct x; reflexivity|exact S2|exact F'|].
        rewrite F in F0. inversion F0; subst. rewrite <- Etc. exact (f_equal m_tc E). }
    destruct (IH t2 (done ++ [k]) Q2 Hd' Ht2) as [H1 [H2 [H3 [H4 [H5 H6]]]]].
    refine (conj H1 (conj _ (conj H3 (conj _ (conj _ _))))).
    + eapply same_but_trans; eassumption.
    + intros x Hx. apply H4 in Hx. rewrite <- app_assoc in Hx. exact Hx.
    + intros Hok k' m' [<-|Hin] F' Htc.
      * apply H6. apply in_or_app. right. left. reflexivity.
      * destruct (same_but_find_l no_comp t t2 k' m') as [m2 [F2 E]]; [intros x; destruct x; reflexivity|exact S2|exact F'|].
        apply (H5 Hok k' m2 Hin F2). rewrite <- Htc. exact (f_equal m_tc E).
    + intros x Hx. apply H6. apply in_or_app. left. exact Hx.
Qed.

Lemma prune_mods_other : forall done t k, ~ In k done ->
  find_mod k (mods (fst (prune_mods done t))) = find_mod k (mods t).
Proof.
  induction done as [|k0 done IH]; intros t k Hn; cbn [prune_mods]; [reflexivity|].
  assert (Hne : k <> k0) by (intros E; apply Hn; left; symmetry; exact E).
  assert (Hn' : ~ In k done) by (intros H; apply Hn; right; exact H).
  destruct (find_mod k0 (mods t)) as [m|]; [|apply IH; exact Hn'].
  match goal with |- context [if ?c then _ else _] => destruct c end; cbn [fst].
  - cbn [upd_s with_mods mods]. apply find_mod_upd_other; [reflexivity|exact Hne].
  - rewrite IH by exact Hn'. cbn [upd_s with_mods mods]. apply find_mod_upd_other; [reflexivity|exact Hne].
Qed.

Definition pruned (t : state) (ks : list key) : Prop :=
  forall k m, In k ks -> find_mod k (mods t) = Some m -> m_comp m = Some (snapshot (mods t) m).

Lemma prune_mods_QI s imp D : forall done t,
  QI s imp D t -> incl done D -> all_tc t done ->
  let r := prune_mods done t in
  QI s imp D (fst r) /\ same_but no_comp t (fst r) /\ (snd r = true -> pruned (fst r) done).
Proof.
  induction done as [|k done IH]; intros t Q Hd Ht; cbn [prune_mods].
  - cbn [fst snd]. refine (conj Q (conj (same_but_refl _ _) _)). intros _ k m [].
  - assert (Hd' : incl done D) by (intros x Hx; apply Hd; right; exact Hx).
    assert (Ht' : all_tc t done) by (intros k' m' Hin; apply Ht; right; exact Hin).
    destruct (find_mod k (mods t)) as [m|] eqn:F.
    2:{ destruct (IH t Q Hd' Ht') as [H1 [H2 H3]]. refine (conj H1 (conj H2 _)).
        intros Hok k' m' [<-|Hin] F'; [|apply (H3 Hok k' m' Hin F')].
        destruct (in_dec key_dec k done) as [Hin|Hn]; [apply (H3 Hok k m' Hin F')|].
        rewrite prune_mods_other in F' by exact Hn. congruence. }
    assert (Etc : m_tc m = true) by (apply (Ht k m); [left; reflexivity|exact F]).
    assert (HkD : In k D) by (apply Hd; left; reflexivity).
    set (t1 := upd_s k (set_comp (Some (snapshot (mods t) m))) t).
    assert (Q1 : QI s imp D t1) by (eapply QI_set_comp; eassumption).
    assert (S1 : same_but no_comp t t1) by (apply same_but_upd; intros x; destruct x; reflexivity).
    match goal with |- context [if ?c then _ else _] => destruct c end.
    { cbn [fst snd]. refine (conj Q1 (conj S1 _)). discriminate. }
    assert (Ht1 : all_tc t1 done) by (eapply all_tc_same; eassumption).
    destruct (IH t1 Q1 Hd' Ht1) as [H1 [H2 H3]]. refine (conj H1 (conj _ _)).
    + eapply same_but_trans; eassumption.
    + intros Hok k' m' [<-|Hin] F'; [|apply (H3 Hok k' m' Hin F')].
      destruct (in_dec key_dec k done) as [Hin|Hn]; [apply (H3 Hok k m' Hin F')|].
      rewrite prune_mods_other in F' by exact Hn.
      unfold t1 in F'. cbn [upd_s with_mods mods] in F'. rewrite (find_mod_upd_same k _ _ m) in F'; [|reflexivity|exact F].
      inversion F'; subst m'. cbn [set_comp m_comp]. f_equal.
      assert (S : same_but no_tc_comp t (fst (prune_mods done t1))).
      { apply no_comp_weaken. eapply same_but_trans; eassumption. }
      destruct (same_but_snapshot _ _ m S) as [E _]. rewrite <- E.
      symmetry. apply snapshot_ext; try reflexivity. intros ik _. destruct (find_mod ik _); [reflexivity|exact I].
Qed.

(* a fold of updates with an idempotent function = one map *)
Lemma fold_upd_mods g : (forall m, mkey (g m) = mkey m) -> (forall m, g (g m) = g m) ->
  forall ds t, fold_left (fun s k => upd_s k g s) ds t
               = with_mods (map (fun m => if kmem (mkey m) ds then g m else m) (mods t)) t.
Proof.
  intros Hk Hg. induction ds as [|k ds IH]; intros t; cbn [fold_left].
  - cbn [kmem]. rewrite map_id. destruct t; reflexivity.
  - rewrite IH. cbn [upd_s with_mods mods]. unfold with_mods. cbn. f_equal.
    unfold upd. rewrite map_map. apply map_ext. intros m. cbn [kmem].
    destruct (key_eqb (mkey m) k) eqn:E.
    + rewrite Hk. rewrite (key_eqb_sym k (mkey m)), E. cbn [orb]. destruct (kmem (mkey m) ds); [apply Hg|reflexivity].
    + rewrite (key_eqb_sym k (mkey m)), E. reflexivity.
Qed.

Lemma Forall2_map_r_in {A B} (R : A -> B -> Prop) (h : B -> B) l l' :
  Forall2 R l l' -> (forall a b, In a l -> In b l' -> R a b -> R a (h b)) -> Forall2 R l (map h l').
Proof.
  intros F. induction F as [|x y l l' H F IH]; intros Hh; cbn [map]; constructor.
  - apply Hh; [left; reflexivity|left; reflexivity|exact H].
  - apply IH. intros a b Ha Hb. apply Hh; right; assumption.
Qed.

Definition FE (s t : state) : Prop :=
  Forall2 (fun m m' => mkey m' = mkey m /\ m_feats m' = m_feats m) (mods s) (olds_of s t).

Lemma NoDup_keys_eq l a b : NoDup (keys l) -> In a l -> In b l -> mkey a = mkey b -> a = b.
Proof.
  intros Hnd Ha Hb E. pose proof (find_mod_unique (mkey b) l a Hnd Ha E) as F1.
  pose proof (find_mod_unique (mkey b) l b Hnd Hb eq_refl) as F2. congruence.
Qed.

(* the old module and the module of the current state with the same key are related *)
Lemma partner (R : modl -> modl -> Prop) s t m0 m' :
  Forall2 (fun a b => mkey b = mkey a /\ R a b) (mods s) (olds_of s t) -> NoDup (keys (mods t)) ->
  In m0 (mods s) -> In m' (mods t) -> mkey m' = mkey m0 -> R m0 m'.
Proof.
  intros F Hnd H0 H' Hk. destruct (Forall2_In_l _ _ _ _ F H0) as [b [Hb [Hkb Hr]]].
  assert (b = m') by (eapply NoDup_keys_eq; [exact Hnd|apply (In_olds s t); exact Hb|exact H'|congruence]).
  subst b. exact Hr.
Qed.

Lemma QI_keyed s imp D t : QI s imp D t ->
  Forall2 (fun a b => mkey b = mkey a /\ qrel imp D a b) (mods s) (olds_of s t).
Proof.
  intros Q. eapply Forall2_impl; [|apply (qi_olds _ _ _ _ Q)]. intros a b H. split; [apply (q_key _ _ _ _ H)|exact H].
Qed.

Lemma olds_same_len s t t' : length (mods t') = length (mods t) -> length (olds_of s t') = length (olds_of s t).
Proof. intros H. unfold olds_of. rewrite !firstn_length. lia. Qed.

Lemma FE_same_but s t t' : same_but no_tc_comp t t' -> FE s t -> FE s t'.
Proof.
  intros S F. unfold FE in *.
  assert (E : map (fun m => (mkey m, m_feats m)) (olds_of s t') = map (fun m => (mkey m, m_feats m)) (olds_of s t)).
  { unfold olds_of. rewrite <- !firstn_map. f_equal.
    assert (G : forall l, map (fun m => (mkey m, m_feats m)) l = map (fun m => (mkey m, m_feats m)) (map no_tc_comp l)).
    { intros l. rewrite map_map. apply map_ext. intros m; destruct m; reflexivity. }
    rewrite G, (sb_mods _ _ _ S), <- G. reflexivity. }
  assert (F1 : Forall2 (fun a b => (mkey b, m_feats b) = (mkey a, m_feats a)) (mods s) (olds_of s t)).
  { eapply Forall2_impl; [|exact F]. cbn. intros a b [H1 H2]. congruence. }
  apply Forall2_map_eq in F1. rewrite <- E in F1. apply Forall2_map_eq in F1.
  eapply Forall2_impl; [|exact F1]. cbn. intros a b H. split; [exact (f_equal fst H)|exact (f_equal snd H)].
Qed.

(* the compiled schema of an old module, compiled now, is what it was *)
Lemma old_snapshot s imp D t m0 m' :
  wf_state s -> QI s imp D t -> FE s t -> In m0 (mods s) -> qrel imp D m0 m' -> m_feats m' = m_feats m0 ->
  snapshot (mods t) m' = snapshot (mods s) m0.
Proof.
  intros W Q F H0 Hr Hf. apply snapshot_ext; [exact Hf|apply (q_imps _ _ _ _ Hr)|].
  intros ik Hik. pose proof (wf_imps _ _ (wfs_mods _ W m0 H0) ik Hik) as Hin.
  destruct (find_mod_some_in ik (mods s) Hin) as [a Fa]. rewrite Fa.
  destruct (find_mod_Forall2 _ ik _ _ a F Fa) as [b [Fb Hfb]].
  rewrite (olds_news s t), find_mod_app, Fb. exact Hfb.
Qed.

Lemma depset_r_QI s imp D ds t :
  wf_state s -> QI s imp D t -> FE s t -> incl ds D ->
  QI s imp D (fst (depset_r ds t)) /\ same_but no_tc_comp t (fst (depset_r ds t)).
Proof.
  intros W Q F Hd. unfold depset_r.
  pose proof (compile_mods_QI s imp D ds t [] Q Hd) as H. cbv zeta in H.
  destruct (compile_mods ds t []) as [[t1 done] ok]. cbn [fst snd] in H.
  destruct H as [Q1 [S1 [T1 [I1 [C1 _]]]]]; [intros k m []|].
  destruct (negb ok) eqn:Eok; [cbn [fst]; split; [exact Q1|apply no_comp_weaken; exact S1]|].
  destruct (existsb _ done); [cbn [fst]; split; [exact Q1|apply no_comp_weaken; exact S1]|].
  assert (Hdd : incl done D) by (intros x Hx; apply Hd; apply I1 in Hx; exact Hx).
  pose proof (prune_mods_QI s imp D done t1 Q1 Hdd T1) as H. cbv zeta in H.
  destruct (prune_mods done t1) as [t2 ok2]. cbn [fst snd] in H. destruct H as [Q2 [S2 P2]].
  assert (S12 : same_but no_comp t t2) by (eapply same_but_trans; eassumption).
  destruct (negb ok2) eqn:Eok2; [cbn [fst]; split; [exact Q2|apply no_comp_weaken; exact S12]|].
  apply negb_false_iff in Eok, Eok2. cbn [fst].
  rewrite (fold_upd_mods (set_tc false)) by reflexivity.
  split.
  2:{ eapply same_but_trans; [apply no_comp_weaken; exact S12|]. constructor; try reflexivity.
      cbn [with_mods mods]. rewrite map_map. apply map_ext. intros m. destruct (kmem (mkey m) ds); destruct m; reflexivity. }
  assert (F2 : FE s t2) by (eapply FE_same_but; [apply no_comp_weaken; exact S12|exact F]).
  set (h := fun m => if kmem (mkey m) ds then set_tc false m else m).
  assert (Hhk : forall m, mkey (h m) = mkey m) by (intros m; unfold h; destruct (kmem (mkey m) ds); reflexivity).
  constructor; cbn [with_mods explicit creating implementing mods].
  - apply (qi_expl _ _ _ _ Q2).
  - rewrite map_length. apply (qi_len _ _ _ _ Q2).
  - unfold news_of. cbn [with_mods mods]. rewrite skipn_map. fold (news_of s t2). unfold keys. rewrite map_map.
    rewrite (map_ext _ mkey Hhk). apply (qi_creating _ _ _ _ Q2).
  - unfold keys. rewrite map_map. rewrite (map_ext _ mkey Hhk). apply (qi_nodup _ _ _ _ Q2).
  - unfold olds_of. cbn [with_mods mods]. rewrite firstn_map. fold (olds_of s t2).
    apply Forall2_map_r_in; [apply (qi_olds _ _ _ _ Q2)|]. intros m0 m' H0 H' Hr. unfold h.
    destruct (kmem (mkey m') ds) eqn:Ek; [|exact Hr]. apply kmem_In in Ek.
    pose proof Hr as [R1 R2 R3 R4 R5 R6 R7 R8 R9 R10]. constructor; cbn; try assumption; [discriminate|].
    destruct R10 as [Hc|[[Htc HD]|Hi]]; [left; exact Hc| |right; right; exact Hi].
    destruct (in_dec key_dec (mkey m0) imp) as [Hi|Hni]; [right; right; exact Hi|]. left.
    assert (Hin' : In m' (mods t2)) by (apply (In_olds s t2); exact H').
    assert (Fm : find_mod (mkey m') (mods t2) = Some m') by (apply find_mod_unique; [apply (qi_nodup _ _ _ _ Q2)|exact Hin'|reflexivity]).
    (* it was marked when the round started, so it was compiled and pruned in this round *)
    destruct (same_but_find no_comp t t2 (mkey m') m') as [mt [Ft Et]]; [intros x; destruct x; reflexivity|exact S12|exact Fm|].
    assert (Htct : m_tc mt = true).
    { rewrite <- Htc. exact (eq_sym (f_equal m_tc Et)). }
    pose proof (C1 Eok (mkey m') mt Ek Ft Htct) as Hdone.
    rewrite (P2 Eok2 (mkey m') m' Hdone Fm).
    assert (Hfe : m_feats m' = m_feats m0).
    { apply (partner (fun a b => m_feats b = m_feats a) s t2 m0 m' F2 (qi_nodup _ _ _ _ Q2) H0 Hin' R1). }
    rewrite (old_snapshot s imp D t2 m0 m' W Q2 F2 H0 Hr Hfe).
    assert (Him0 : m_impl m0 = true) by (destruct (R7 (R9 Htc)) as [E|E]; [exact E|contradiction]).
    destruct (wf_comp_impl _ _ (wfs_mods _ W m0 H0) Him0) as [E _]. symmetry. exact E.
  - apply (qi_imp _ _ _ _ Q2).
Qed.
