(* ContextP.v — slice ctx (property C09): lemmas and proofs about the model Context.v.

   Main result: failed_restores — from a quiescent state (nothing pending, every implemented module compiled
   against the current features, no to_compile mark) in which exactly the newest revision of every name carries
   LYS_MOD_LATEST_REV (invariant LJ, proved for every reachable state: reachable_LJ) a failing operation leaves the
   observable state as it was. The proof follows the phases of an operation:
     parse (lys_parse_in / lys_parse_load)       invariant PI  : old modules only change their flag bits, new
                                                                  modules are appended and recorded in creating
     implement, dep sets, compile                invariant QI  : old modules keep frame, implemented ones stay
                                                                  implemented, a changed compiled tree belongs to
                                                                  a module that is still marked to_compile and
                                                                  sits in one of the dep sets
     revert                                      un-implement, remove the created tail, recompile the marked *)
From Coq Require Import Permutation.
From LY Require Import Base Context.
Local Open Scope N_scope.

(* ------------------------------------------------------------------------------------------------ *)
(* keys                                                                                             *)
(* ------------------------------------------------------------------------------------------------ *)
Lemma key_eqb_eq a b : key_eqb a b = true <-> a = b.
Proof.
  destruct a as [a1 a2], b as [b1 b2]. unfold key_eqb. cbn [fst snd]. rewrite andb_true_iff, !N.eqb_eq.
  split; [intros [-> ->]; reflexivity|intros H; inversion H; split; reflexivity].
Qed.
Lemma key_eqb_refl a : key_eqb a a = true.
Proof. apply key_eqb_eq. reflexivity. Qed.
Lemma key_eqb_neq a b : key_eqb a b = false <-> a <> b.
Proof.
  split.
  - intros H E. apply key_eqb_eq in E. congruence.
  - intros H. destruct (key_eqb a b) eqn:E; [apply key_eqb_eq in E; contradiction|reflexivity].
Qed.
Lemma key_eqb_sym a b : key_eqb a b = key_eqb b a.
Proof.
  destruct (key_eqb a b) eqn:E.
  - apply key_eqb_eq in E. subst. symmetry. apply key_eqb_refl.
  - symmetry. apply key_eqb_neq. apply key_eqb_neq in E. congruence.
Qed.
Lemma key_dec (a b : key) : {a = b} + {a <> b}.
Proof. destruct (key_eqb a b) eqn:E; [left; apply key_eqb_eq; exact E|right; apply key_eqb_neq; exact E]. Qed.

Lemma kmem_In k l : kmem k l = true <-> In k l.
Proof.
  induction l as [|x l IH]; cbn [kmem In].
  - split; [discriminate|tauto].
  - rewrite orb_true_iff, IH, key_eqb_eq. tauto.
Qed.
Lemma kmem_false k l : kmem k l = false <-> ~ In k l.
Proof. rewrite <- kmem_In. destruct (kmem k l); split; congruence. Qed.


(* every setter keeps the key *)
Lemma mkey_set_impl b m : mkey (set_impl b m) = mkey m. Proof. reflexivity. Qed.
Lemma mkey_set_latest b m : mkey (set_latest b m) = mkey m. Proof. reflexivity. Qed.
Lemma mkey_set_lsearch b m : mkey (set_lsearch b m) = mkey m. Proof. reflexivity. Qed.
Lemma mkey_set_imprev b m : mkey (set_imprev b m) = mkey m. Proof. reflexivity. Qed.
Lemma mkey_set_limpclb b m : mkey (set_limpclb b m) = mkey m. Proof. reflexivity. Qed.
Lemma mkey_set_feats f m : mkey (set_feats f m) = mkey m. Proof. reflexivity. Qed.
Lemma mkey_set_imps i m : mkey (set_imps i m) = mkey m. Proof. reflexivity. Qed.
Lemma mkey_set_tc b m : mkey (set_tc b m) = mkey m. Proof. reflexivity. Qed.
Lemma mkey_set_comp c m : mkey (set_comp c m) = mkey m. Proof. reflexivity. Qed.

(* ------------------------------------------------------------------------------------------------ *)
(* upd, find_mod                                                                                    *)
(* ------------------------------------------------------------------------------------------------ *)
Lemma upd_app k g l1 l2 : upd k g (l1 ++ l2) = upd k g l1 ++ upd k g l2.
Proof. unfold upd. apply map_app. Qed.

Lemma upd_length k g l : length (upd k g l) = length l.
Proof. unfold upd. apply map_length. Qed.

Lemma keys_upd k g l : (forall m, mkey (g m) = mkey m) -> keys (upd k g l) = keys l.
Proof.
  intros Hg. unfold keys, upd. rewrite map_map. apply map_ext. intros m.
  destruct (key_eqb (mkey m) k); [apply Hg|reflexivity].
Qed.

Lemma upd_notin k g l : ~ In k (keys l) -> upd k g l = l.
Proof.
  induction l as [|m l IH]; cbn [upd map keys In]; intros H; [reflexivity|].
  destruct (key_eqb (mkey m) k) eqn:E.
  - apply key_eqb_eq in E. exfalso. apply H. left. exact E.
  - f_equal. apply IH. intros Hin. apply H. right. exact Hin.
Qed.

Lemma upd_firstn n k g l : firstn n (upd k g l) = upd k g (firstn n l).
Proof. unfold upd. apply firstn_map. Qed.
Lemma upd_skipn n k g l : skipn n (upd k g l) = upd k g (skipn n l).
Proof. unfold upd. apply skipn_map. Qed.

Lemma find_mod_In k l m : find_mod k l = Some m -> In m l /\ mkey m = k.
Proof.
  unfold find_mod. intros H. apply find_some in H. destruct H as [H1 H2]. apply key_eqb_eq in H2. tauto.
Qed.
Lemma find_mod_none k l : find_mod k l = None <-> ~ In k (keys l).
Proof.
  induction l as [|m l IH]; cbn [find_mod find keys map In].
  - tauto.
  - unfold find_mod in IH. destruct (key_eqb (mkey m) k) eqn:E.
    + apply key_eqb_eq in E. split; [discriminate|intros H; exfalso; apply H; left; exact E].
    + apply key_eqb_neq in E. rewrite IH. unfold keys. tauto.
Qed.
Lemma find_mod_some_in k l : In k (keys l) -> exists m, find_mod k l = Some m.
Proof.
  intros H. destruct (find_mod k l) eqn:E; [eexists; reflexivity|]. apply find_mod_none in E. contradiction.
Qed.
Lemma find_mod_app k l1 l2 :
  find_mod k (l1 ++ l2) = match find_mod k l1 with Some m => Some m | None => find_mod k l2 end.
Proof.
  unfold find_mod. induction l1 as [|m l1 IH]; cbn [app find]; [reflexivity|].
  destruct (key_eqb (mkey m) k); [reflexivity|exact IH].
Qed.

(* with unique keys the module with a key is the one find_mod returns *)
Lemma find_mod_unique k l m :
  NoDup (keys l) -> In m l -> mkey m = k -> find_mod k l = Some m.
Proof.
  induction l as [|x l IH]; cbn [keys map In]; intros Hnd Hin Hk; [contradiction|].
  inversion Hnd as [|? ? Hx Hnd']; subst. unfold find_mod. cbn [find].
  destruct Hin as [->|Hin].
  - rewrite key_eqb_refl. reflexivity.
  - destruct (key_eqb (mkey x) (mkey m)) eqn:E.
    + apply key_eqb_eq in E. exfalso. apply Hx. rewrite E. apply in_map. exact Hin.
    + apply IH; [exact Hnd'|exact Hin|reflexivity].
Qed.

Lemma find_mod_upd_same k g l m :
  (forall m, mkey (g m) = mkey m) -> find_mod k l = Some m -> find_mod k (upd k g l) = Some (g m).
Proof.
  intros Hg. unfold find_mod, upd. induction l as [|x l IH]; cbn [find map]; [discriminate|].
  destruct (key_eqb (mkey x) k) eqn:E.
  - intros H. inversion H; subst. rewrite Hg, E. reflexivity.
  - rewrite E. exact IH.
Qed.
Lemma find_mod_upd_other k k' g l :
  (forall m, mkey (g m) = mkey m) -> k' <> k -> find_mod k' (upd k g l) = find_mod k' l.
Proof.
  intros Hg Hne. unfold find_mod, upd. induction l as [|x l IH]; cbn [find map]; [reflexivity|].
  destruct (key_eqb (mkey x) k) eqn:E.
  - apply key_eqb_eq in E. rewrite Hg.
    assert (Hf : key_eqb (mkey x) k' = false) by (apply key_eqb_neq; congruence).
    rewrite Hf. exact IH.
  - destruct (key_eqb (mkey x) k'); [reflexivity|exact IH].
Qed.
Lemma find_mod_upd_none k k' g l :
  (forall m, mkey (g m) = mkey m) -> find_mod k' (upd k g l) = None <-> find_mod k' l = None.
Proof. intros Hg. rewrite !find_mod_none, keys_upd by exact Hg. tauto. Qed.

(* the shape of find_mod after an update, in one statement *)
Lemma find_mod_upd k k' g l :
  (forall m, mkey (g m) = mkey m) ->
  find_mod k' (upd k g l) =
  match find_mod k' l with
  | Some m => Some (if key_eqb k' k then g m else m)
  | None => None
  end.
Proof.
  intros Hg. destruct (key_eqb k' k) eqn:E.
  - apply key_eqb_eq in E. subst k'. destruct (find_mod k l) eqn:F.
    + apply find_mod_upd_same; assumption.
    + apply find_mod_upd_none; assumption.
  - apply key_eqb_neq in E. rewrite find_mod_upd_other by assumption. destruct (find_mod k' l); reflexivity.
Qed.

(* Forall2 along an update of the right list *)
Lemma Forall2_upd_r (R : modl -> modl -> Prop) k g l l' :
  Forall2 R l l' -> (forall m m', R m m' -> mkey m' = k -> R m (g m')) -> Forall2 R l (upd k g l').
Proof.
  intros H Hg. induction H as [|m m' l l' Hr H IH]; cbn [upd map]; [constructor|].
  constructor; [|exact IH].
  destruct (key_eqb (mkey m') k) eqn:E; [apply Hg; [exact Hr|apply key_eqb_eq; exact E]|exact Hr].
Qed.

Lemma Forall2_impl {A B} (R R' : A -> B -> Prop) l l' :
  (forall a b, R a b -> R' a b) -> Forall2 R l l' -> Forall2 R' l l'.
Proof. intros H F. induction F; constructor; auto. Qed.

Lemma Forall2_conj {A B} (R R' : A -> B -> Prop) l l' :
  Forall2 R l l' -> Forall2 R' l l' -> Forall2 (fun a b => R a b /\ R' a b) l l'.
Proof.
  intros F. induction F as [|a b l l' H F IH]; intros F'; inversion F'; subst; constructor; auto.
Qed.

Lemma Forall2_length' {A B} (R : A -> B -> Prop) l l' : Forall2 R l l' -> length l = length l'.
Proof. intros F. induction F; cbn; congruence. Qed.

Lemma Forall2_map_eq {A B C} (f : A -> C) (g : B -> C) l l' :
  Forall2 (fun a b => g b = f a) l l' <-> map g l' = map f l.
Proof.
  split.
  - intros F. induction F; cbn; congruence.
  - revert l'. induction l as [|a l IH]; intros [|b l'] H; cbn in H; try discriminate; constructor.
    + inversion H. reflexivity.
    + apply IH. inversion H. reflexivity.
Qed.

Lemma Forall2_In_l {A B} (R : A -> B -> Prop) l l' a :
  Forall2 R l l' -> In a l -> exists b, In b l' /\ R a b.
Proof.
  intros F. induction F as [|x y l l' H F IH]; cbn [In]; [tauto|].
  intros [->|Hin]; [exists y; tauto|]. destruct (IH Hin) as [b [Hb Hr]]. exists b. tauto.
Qed.
Lemma Forall2_In_r {A B} (R : A -> B -> Prop) l l' b :
  Forall2 R l l' -> In b l' -> exists a, In a l /\ R a b.
Proof.
  intros F. induction F as [|x y l l' H F IH]; cbn [In]; [tauto|].
  intros [->|Hin]; [exists x; tauto|]. destruct (IH Hin) as [a [Ha Hr]]. exists a. tauto.
Qed.

(* corresponding modules of two lists with the same keys *)
Lemma find_mod_Forall2 (R : modl -> modl -> Prop) k l l' m :
  Forall2 (fun a b => mkey b = mkey a /\ R a b) l l' -> find_mod k l = Some m ->
  exists m', find_mod k l' = Some m' /\ R m m'.
Proof.
  intros F. unfold find_mod. induction F as [|a b l l' [Hk Hr] F IH]; cbn [find]; [discriminate|].
  rewrite Hk. destruct (key_eqb (mkey a) k).
  - intros H. inversion H; subst. exists b. tauto.
  - exact IH.
Qed.
Lemma find_mod_Forall2_r (R : modl -> modl -> Prop) k l l' m' :
  Forall2 (fun a b => mkey b = mkey a /\ R a b) l l' -> find_mod k l' = Some m' ->
  exists m, find_mod k l = Some m /\ R m m'.
Proof.
  intros F. unfold find_mod. induction F as [|a b l l' [Hk Hr] F IH]; cbn [find]; [discriminate|].
  rewrite Hk. destruct (key_eqb (mkey a) k).
  - intros H. inversion H; subst. exists a. tauto.
  - exact IH.
Qed.

Lemma keys_Forall2 (R : modl -> modl -> Prop) l l' :
  Forall2 (fun a b => mkey b = mkey a /\ R a b) l l' -> keys l' = keys l.
Proof. intros F. unfold keys. induction F as [|a b l l' [Hk _] F IH]; cbn; congruence. Qed.

(* ------------------------------------------------------------------------------------------------ *)
(* rm_index / rm_mod / rm_key                                                                       *)
(* ------------------------------------------------------------------------------------------------ *)
Lemma last_removelast_perm {A} (r : list A) (x : A) :
  r <> [] -> Permutation (last r x :: removelast r) r.
Proof.
  intros H. rewrite (app_removelast_last x H) at 3.
  apply Permutation_cons_append.
Qed.

Lemma rm_index_perm {A} (i : nat) (l : list A) (x : A) :
  nth_error l i = Some x -> Permutation (x :: rm_index i l) l.
Proof.
  revert i. induction l as [|y l IH]; intros [|i] H; cbn in H; try discriminate.
  - inversion H; subst. cbn [rm_index]. destruct l as [|z l]; [apply Permutation_refl|].
    constructor. apply last_removelast_perm. discriminate.
  - cbn [rm_index]. eapply perm_trans; [apply perm_swap|]. constructor. apply IH. exact H.
Qed.

Lemma rm_index_app_r {A} (l1 l2 : list A) (j : nat) :
  rm_index (length l1 + j) (l1 ++ l2) = l1 ++ rm_index j l2 \/ l2 = [].
Proof.
  destruct l2 as [|z l2]; [right; reflexivity|left].
  induction l1 as [|y l1 IH]; cbn [length Nat.add app rm_index]; [reflexivity|]. rewrite IH. reflexivity.
Qed.
Lemma rm_index_app_r' {A} (l1 l2 : list A) (j : nat) :
  (j < length l2)%nat -> rm_index (length l1 + j) (l1 ++ l2) = l1 ++ rm_index j l2.
Proof.
  intros H. destruct (rm_index_app_r l1 l2 j) as [E|E]; [exact E|]. subst. cbn in H. lia.
Qed.

Lemma index_of_Some k l i : index_of k l = Some i -> nth_error l i = Some k.
Proof.
  revert i. induction l as [|x l IH]; intros i; cbn [index_of]; [discriminate|].
  destruct (key_eqb x k) eqn:E.
  - intros H. inversion H; subst. apply key_eqb_eq in E. subst. reflexivity.
  - destruct (index_of k l) as [j|] eqn:F; cbn [option_map]; [|discriminate].
    intros H. inversion H; subst. cbn. apply IH. reflexivity.
Qed.
Lemma index_of_None k l : index_of k l = None <-> ~ In k l.
Proof.
  induction l as [|x l IH]; cbn [index_of In]; [tauto|].
  destruct (key_eqb x k) eqn:E.
  - apply key_eqb_eq in E. split; [discriminate|intros H; exfalso; apply H; left; exact E].
  - apply key_eqb_neq in E. destruct (index_of k l); cbn [option_map].
    + split; [discriminate|]. intros H. exfalso.
      assert (Hn : ~ In k l) by (intros Hin; apply H; right; exact Hin).
      apply IH in Hn. discriminate.
    + split; [|reflexivity]. intros _ [H|H]; [contradiction|]. apply IH in H; [exact H|reflexivity].
Qed.

Lemma rm_index_length {A} (i : nat) (l : list A) : (i < length l)%nat -> length (rm_index i l) = pred (length l).
Proof.
  intros H. destruct (nth_error l i) as [x|] eqn:E.
  - apply rm_index_perm in E. apply Permutation_length in E. cbn in E. lia.
  - apply nth_error_None in E. lia.
Qed.

(* ------------------------------------------------------------------------------------------------ *)
(* executable well-formedness: the quiescent states                                                 *)
(* ------------------------------------------------------------------------------------------------ *)
Lemma pairs_eqb_eq a b : pairs_eqb a b = true <-> a = b.
Proof.
  revert b. induction a as [|[x1 x2] a IH]; intros [|[y1 y2] b]; cbn [pairs_eqb]; split; intros H;
    try reflexivity; try discriminate.
  - apply andb_true_iff in H. destruct H as [H H3]. apply andb_true_iff in H. destruct H as [H1 H2].
    apply N.eqb_eq in H1, H2. apply IH in H3. congruence.
  - inversion H; subst. rewrite !N.eqb_refl. cbn. apply IH. reflexivity.
Qed.

Lemma comp_eqb_eq a b : comp_eqb a b = true <-> a = b.
Proof.
  destruct a as [x|], b as [y|]; cbn [comp_eqb]; try (split; [discriminate|discriminate]); try tauto.
  rewrite pairs_eqb_eq. split; [intros ->; reflexivity|intros H; inversion H; reflexivity].
Qed.

Lemma feat_eqb_eq f g : feat_eqb f g = true <-> f = g.
Proof.
  destruct f as [n1 d1 o1], g as [n2 d2 o2]. unfold feat_eqb. cbn [f_name f_deps f_on].
  rewrite !andb_true_iff, N.eqb_eq, beq_bytes_eq, Bool.eqb_true_iff.
  split; [intros [[-> ->] ->]; reflexivity|intros H; inversion H; tauto].
Qed.
Lemma feats_eqb_eq a b : feats_eqb a b = true <-> a = b.
Proof.
  revert b. induction a as [|x a IH]; intros [|y b]; cbn [feats_eqb]; split; intros H;
    try reflexivity; try discriminate.
  - apply andb_true_iff in H. destruct H as [H1 H2]. apply feat_eqb_eq in H1. apply IH in H2. congruence.
  - inversion H; subst. apply andb_true_iff. split; [apply feat_eqb_eq|apply IH]; reflexivity.
Qed.

Lemma nodupb_NoDup l : nodupb l = true <-> NoDup l.
Proof.
  induction l as [|x l IH]; cbn [nodupb].
  - split; [constructor|reflexivity].
  - rewrite andb_true_iff, negb_true_iff, kmem_false, IH. split.
    + intros [H1 H2]. constructor; assumption.
    + intros H. inversion H; subst. tauto.
Qed.

Record wf_mod (l : list modl) (m : modl) : Prop := {
  wf_tc : m_tc m = false;
  wf_imps : forall k, In k (m_imps m) -> In k (keys l);
  wf_comp_impl : m_impl m = true -> m_comp m = Some (snapshot l m) /\ compiles_ok m = true;
  wf_comp_nimpl : m_impl m = false -> m_comp m = None }.

Lemma mod_ok_wf l m : mod_ok l m = true -> wf_mod l m.
Proof.
  unfold mod_ok. rewrite !andb_true_iff, negb_true_iff. intros [[H1 H2] H3]. constructor.
  - exact H1.
  - intros k Hk. rewrite forallb_forall in H2. apply kmem_In. apply H2. exact Hk.
  - intros Hi. rewrite Hi in H3. apply andb_true_iff in H3. destruct H3 as [H3 H4].
    apply comp_eqb_eq in H3. tauto.
  - intros Hi. rewrite Hi in H3. apply comp_eqb_eq in H3. exact H3.
Qed.

Record wf_state (s : state) : Prop := {
  wfs_nodup : NoDup (keys (mods s));
  wfs_mods : forall m, In m (mods s) -> wf_mod (mods s) m;
  wfs_creating : creating s = [];
  wfs_implementing : implementing s = [];
  wfs_featsaved : featsaved s = [];
  wfs_plain : forall m, In m (mods s) -> m_single m = true -> snapshot_all (mods s) m = [] }.

Lemma quiescent_wf s : quiescent s = true -> wf_state s.
Proof.
  unfold quiescent. rewrite !andb_true_iff. intros [[[[[H1 H2] H3] H4] H5] H6]. constructor.
  - apply nodupb_NoDup. exact H1.
  - intros m Hm. apply mod_ok_wf. rewrite forallb_forall in H2. apply H2. exact Hm.
  - destruct (creating s); [reflexivity|discriminate].
  - destruct (implementing s); [reflexivity|discriminate].
  - destruct (featsaved s); [reflexivity|discriminate].
  - intros m Hm Hs. rewrite forallb_forall in H6. specialize (H6 m Hm). rewrite Hs in H6. cbn in H6.
    unfold plain in H6. destruct (snapshot_all (mods s) m); [reflexivity|discriminate].
Qed.

Lemma quiescent_core s : quiescent (core s) = quiescent s.
Proof. reflexivity. Qed.

(* ------------------------------------------------------------------------------------------------ *)
(* parse phase: invariant PI                                                                        *)
(* ------------------------------------------------------------------------------------------------ *)
Definition olds_of (s t : state) : list modl := firstn (length (mods s)) (mods t).
Definition news_of (s t : state) : list modl := skipn (length (mods s)) (mods t).

Lemma olds_news s t : mods t = olds_of s t ++ news_of s t.
Proof. unfold olds_of, news_of. symmetry. apply firstn_skipn. Qed.

Definition clr_flags (m : modl) : modl :=
  set_limpclb false (set_imprev false (set_lsearch false (set_latest false m))).

Definition fresh (m : modl) : Prop := m_impl m = false /\ m_tc m = false /\ m_comp m = None.

Record PI (s t : state) : Prop := {
  pi_expl : explicit t = explicit s;
  pi_xopts : xopts t = xopts s;
  pi_len : (length (mods s) <= length (mods t))%nat;
  pi_olds : map clr_flags (olds_of s t) = map clr_flags (mods s);
  pi_creating : creating t = keys (news_of s t);
  pi_nodup : NoDup (keys (mods t));
  pi_impl : implementing t = [];
  pi_fsaved : featsaved t = [];
  pi_evs : Forall (fun e => e = EvAdd) (evs t);
  pi_news : Forall fresh (news_of s t) }.

Lemma PI_refl s : wf_state s -> evs s = [] -> PI s s.
Proof.
  intros W He. constructor.
  - reflexivity.
  - reflexivity.
  - lia.
  - unfold olds_of. rewrite firstn_all. reflexivity.
  - unfold news_of. rewrite skipn_all. rewrite (wfs_creating _ W). reflexivity.
  - apply (wfs_nodup _ W).
  - apply (wfs_implementing _ W).
  - apply (wfs_featsaved _ W).
  - rewrite He. constructor.
  - unfold news_of. rewrite skipn_all. constructor.
Qed.

Lemma keys_olds s t : PI s t -> keys (olds_of s t) = keys (mods s).
Proof.
  intros P. pose proof (pi_olds _ _ P) as H.
  assert (E : forall l, keys l = keys (map clr_flags l)).
  { intros l. unfold keys. rewrite map_map. reflexivity. }
  rewrite E, H, <- E. reflexivity.
Qed.

Lemma map_upd_inv {B} (f : modl -> B) k g l : (forall m, f (g m) = f m) -> map f (upd k g l) = map f l.
Proof.
  intros H. unfold upd. rewrite map_map. apply map_ext. intros m. destruct (key_eqb (mkey m) k); [apply H|reflexivity].
Qed.

Lemma Forall_upd (P : modl -> Prop) k g l : Forall P l -> (forall m, P m -> P (g m)) -> Forall P (upd k g l).
Proof.
  intros F H. unfold upd. induction F as [|m l Hm F IH]; cbn [map]; constructor; [|exact IH].
  destruct (key_eqb (mkey m) k); [apply H|]; exact Hm.
Qed.

Lemma olds_upd_s s t k g : olds_of s (upd_s k g t) = upd k g (olds_of s t).
Proof. unfold olds_of. cbn [upd_s with_mods mods]. apply upd_firstn. Qed.
Lemma news_upd_s s t k g : news_of s (upd_s k g t) = upd k g (news_of s t).
Proof. unfold news_of. cbn [upd_s with_mods mods]. apply upd_skipn. Qed.

(* an update that keeps key, implemented, to_compile, compiled, and either only touches the flags or is aimed at a
   key that is not one of the old modules *)
Lemma PI_upd s t k g :
  PI s t -> (forall m, mkey (g m) = mkey m) ->
  (forall m, m_impl (g m) = m_impl m /\ m_tc (g m) = m_tc m /\ m_comp (g m) = m_comp m) ->
  ((forall m, clr_flags (g m) = clr_flags m) \/ ~ In k (keys (mods s))) ->
  PI s (upd_s k g t).
Proof.
  intros P Hk Hf Hc. constructor; cbn [upd_s with_mods mods explicit creating implementing evs].
  - apply (pi_expl _ _ P).
  - apply (pi_xopts _ _ P).
  - rewrite upd_length. apply (pi_len _ _ P).
  - rewrite olds_upd_s. destruct Hc as [Hc|Hc].
    + rewrite map_upd_inv by exact Hc. apply (pi_olds _ _ P).
    + rewrite upd_notin; [apply (pi_olds _ _ P)|]. rewrite (keys_olds _ _ P). exact Hc.
  - rewrite news_upd_s. rewrite keys_upd by exact Hk. apply (pi_creating _ _ P).
  - rewrite keys_upd by exact Hk. apply (pi_nodup _ _ P).
  - apply (pi_impl _ _ P).
  - apply (pi_fsaved _ _ P).
  - apply (pi_evs _ _ P).
  - rewrite news_upd_s. apply Forall_upd; [apply (pi_news _ _ P)|].
    intros m [H1 [H2 H3]]. destruct (Hf m) as [E1 [E2 E3]]. unfold fresh. rewrite E1, E2, E3. tauto.
Qed.

Lemma PI_flag s t k g :
  PI s t -> (forall m, mkey (g m) = mkey m) ->
  (forall m, m_impl (g m) = m_impl m /\ m_tc (g m) = m_tc m /\ m_comp (g m) = m_comp m) ->
  (forall m, clr_flags (g m) = clr_flags m) -> PI s (upd_s k g t).
Proof. intros. apply PI_upd; auto. Qed.

Lemma PI_set_latest s t k b : PI s t -> PI s (upd_s k (set_latest b) t).
Proof. intros P. apply PI_flag; auto. Qed.
Lemma PI_set_lsearch s t k b : PI s t -> PI s (upd_s k (set_lsearch b) t).
Proof. intros P. apply PI_flag; auto. Qed.
Lemma PI_set_imprev s t k b : PI s t -> PI s (upd_s k (set_imprev b) t).
Proof. intros P. apply PI_flag; auto. Qed.
Lemma PI_set_limpclb s t k b : PI s t -> PI s (upd_s k (set_limpclb b) t).
Proof. intros P. apply PI_flag; auto. Qed.

Lemma PI_out_of_fuel s t : PI s t -> PI s (out_of_fuel t).
Proof. intros P. destruct P. constructor; assumption. Qed.
Lemma PI_assert_fails s t : PI s t -> PI s (assert_fails t).
Proof. intros P. destruct P. constructor; assumption. Qed.

Lemma firstn_app_le {A} n (l1 l2 : list A) : (n <= length l1)%nat -> firstn n (l1 ++ l2) = firstn n l1.
Proof.
  intros H. rewrite firstn_app. replace (n - length l1)%nat with O by lia. cbn. apply app_nil_r.
Qed.
Lemma skipn_app_le {A} n (l1 l2 : list A) : (n <= length l1)%nat -> skipn n (l1 ++ l2) = skipn n l1 ++ l2.
Proof.
  intros H. rewrite skipn_app. replace (n - length l1)%nat with O by lia. reflexivity.
Qed.

Lemma NoDup_snoc {A} (l : list A) (x : A) : NoDup l -> ~ In x l -> NoDup (l ++ [x]).
Proof.
  intros H Hx. induction H as [|y l Hy H IH]; cbn [app].
  - constructor; [cbn; tauto|constructor].
  - constructor.
    + rewrite in_app_iff. cbn [In]. intros [Hin|[E|[]]]; [contradiction|]. subst. apply Hx. left. reflexivity.
    + apply IH. intros Hin. apply Hx. right. exact Hin.
Qed.

(* a new module is appended and recorded *)
Lemma PI_create s t d nl ns :
  PI s t -> ~ In (d_name d, d_rev d) (keys (mods t)) ->
  PI s (add_ev EvAdd (with_mods (mods (with_creating (creating t ++ [(d_name d, d_rev d)]) t) ++ [new_module d nl ns])
                                (with_creating (creating t ++ [(d_name d, d_rev d)]) t))).
Proof.
  intros P Hn. pose proof (pi_len _ _ P) as Hl.
  constructor; cbn [add_ev with_mods with_creating mods explicit creating implementing evs].
  - apply (pi_expl _ _ P).
  - apply (pi_xopts _ _ P).
  - rewrite app_length. lia.
  - unfold olds_of. cbn [add_ev with_mods with_creating mods]. rewrite firstn_app_le by exact Hl. apply (pi_olds _ _ P).
  - unfold news_of. cbn [add_ev with_mods with_creating mods]. rewrite skipn_app_le by exact Hl. unfold keys. rewrite map_app.
    fold (news_of s t). fold (keys (news_of s t)). rewrite <- (pi_creating _ _ P). reflexivity.
  - unfold keys. rewrite map_app. cbn [map]. fold (keys (mods t)).
    apply NoDup_snoc; [apply (pi_nodup _ _ P)|exact Hn].
  - apply (pi_impl _ _ P).
  - apply (pi_fsaved _ _ P).
  - apply Forall_app. split; [apply (pi_evs _ _ P)|constructor; [reflexivity|constructor]].
  - unfold news_of. cbn [add_ev with_mods with_creating mods]. rewrite skipn_app_le by exact Hl. apply Forall_app.
    split; [apply (pi_news _ _ P)|].
    constructor; [|constructor]. unfold fresh, new_module. cbn. tauto.
Qed.

Ltac PI_step :=
  first [ assumption
        | apply PI_set_latest | apply PI_set_lsearch | apply PI_set_imprev | apply PI_set_limpclb
        | apply PI_out_of_fuel | apply PI_assert_fails ].

Lemma load_from_clb_PI s pin R t name rev ml :
  (forall t d chk, PI s t -> PI s (fst (pin t d chk))) ->
  PI s t -> PI s (fst (load_from_clb pin R t name rev ml)).
Proof.
  intros Hpin P. unfold load_from_clb.
  destruct (match ml with Some ml0 => m_limpclb ml0 | None => false end); [exact P|].
  destruct (repo_serve R name rev) as [d|]; [|exact P].
  pose proof (Hpin t d (Some (name, rev)) P) as Hp. destruct (pin t d (Some (name, rev))) as [s' r].
  cbn [fst] in Hp. destruct r; cbn [fst]; try exact Hp; destruct (rev =? 0); repeat PI_step.
Qed.

Lemma parse_load_PI s pin R t name rev :
  (forall t d chk, PI s t -> PI s (fst (pin t d chk))) ->
  PI s t -> PI s (fst (parse_load pin R t name rev)).
Proof.
  intros Hpin P. unfold parse_load.
  destruct (pick_in_ctx (mods t) name rev) as [found mod_latest].
  destruct found as [m|]; [exact P|].
  pose proof (load_from_clb_PI s pin R t name rev mod_latest Hpin P) as H2.
  destruct (load_from_clb pin R t name rev mod_latest) as [s2 got]. cbn [fst] in H2.
  destruct got as [k|]; [|destruct mod_latest as [ml|]]; cbn [fst].
  - destruct ((rev =? 0) && match find_mod k (mods s2) with Some m => m_latest m | None => false end); repeat PI_step.
  - destruct (find_mod (mkey ml) (mods s2)) as [ml'|]; [destruct (m_latest ml')|]; repeat PI_step.
  - exact H2.
Qed.

Lemma resolve_imports_PI s pl self imps t :
  (forall t n r, PI s t -> PI s (fst (pl t n r))) ->
  ~ In self (keys (mods s)) ->
  PI s t -> PI s (fst (resolve_imports pl self imps t)).
Proof.
  intros Hpl Hself. revert t. induction imps as [|[n r] imps IH]; intros t P; cbn [resolve_imports fst]; [exact P|].
  pose proof (Hpl t n r P) as H1. destruct (pl t n r) as [s1 res]. cbn [fst] in H1.
  destruct res as [k|]; [|exact H1].
  apply IH. apply PI_upd; [|reflexivity|intros m; cbn; tauto|right; exact Hself].
  destruct (r =? 0); repeat PI_step.
Qed.

Lemma get_module_none name rev l : get_module name rev l = None -> ~ In (name, rev) (keys l).
Proof. unfold get_module. apply find_mod_none. Qed.

Lemma parse_in_PI s fuel R : forall t d chk, PI s t -> PI s (fst (parse_in fuel R t d chk)).
Proof.
  induction fuel as [|fuel IH]; intros t d chk P; cbn [parse_in].
  - cbn [fst]. apply PI_out_of_fuel. exact P.
  - destruct (d_fault d =? 1); [exact P|].
    destruct (match get_latest (d_name d) (mods t) with
              | Some L => if negb (d_rev d =? 0) && ((m_rev L =? 0) || (m_rev L <? d_rev d))
                          then (m_latest L, m_lsearch L, Some (mkey L)) else (false, false, None)
              | None => (true, false, None) end) as [[nl ns] disp].
    destruct (_ =? 1); [exact P|]. destruct (_ =? 2); [exact P|].
    destruct (get_module (d_name d) (d_rev d) (mods t)) as [m|] eqn:G; [exact P|].
    apply get_module_none in G.
    set (t1 := match disp with Some lk => upd_s lk (fun m => set_lsearch false (set_latest false m)) t | None => t end).
    assert (P1 : PI s t1).
    { unfold t1. destruct disp; [|exact P]. apply PI_flag; auto. }
    assert (G1 : ~ In (d_name d, d_rev d) (keys (mods t1))).
    { unfold t1. destruct disp; [|exact G]. cbn [upd_s with_mods mods]. rewrite keys_upd; [exact G|reflexivity]. }
    pose proof (PI_create s t1 d nl ns P1 G1) as P3.
    match goal with |- context [resolve_imports ?pl ?k ?i ?t3] =>
      assert (H4 : PI s (fst (resolve_imports pl k i t3))) end.
    { apply resolve_imports_PI; [| |exact P3].
      - intros t' n r P'. apply parse_load_PI; [|exact P']. intros; apply IH; assumption.
      - intros Hin. apply G1. unfold t1. destruct disp.
        + cbn [upd_s with_mods mods]. rewrite keys_upd by reflexivity.
          rewrite (olds_news s t). unfold keys. rewrite map_app. apply in_or_app. left.
          fold (keys (olds_of s t)). rewrite (keys_olds s t P). exact Hin.
        + rewrite (olds_news s t). unfold keys. rewrite map_app. apply in_or_app. left.
          fold (keys (olds_of s t)). rewrite (keys_olds s t P). exact Hin. }
    match goal with |- context [resolve_imports ?pl ?k ?i ?t3] => destruct (resolve_imports pl k i t3) as [s4 ok] end.
    cbn [fst] in H4. destruct (negb ok); [exact H4|]. destruct (d_fault d =? 2); exact H4.
Qed.

(* ------------------------------------------------------------------------------------------------ *)
(* implement / dep sets / compile: invariant QI                                                     *)
(* ------------------------------------------------------------------------------------------------ *)
(* old module m (before the operation) and what it is now, m'; imp = unres.implementing, D = keys of the dep sets *)
(* name and if-feature of a feature: what lys_set_features never changes *)
Definition fdecl (f : feat) : N * list N := (f_name f, f_deps f).

Record qrel (imp D : list key) (m m' : modl) : Prop := {
  q_key : mkey m' = mkey m;
  q_imps : m_imps m' = m_imps m;
  q_cfault : m_cfault m' = m_cfault m;
  q_single : m_single m' = m_single m;
  q_hasdep : m_hasdep m' = m_hasdep m;
  q_impl1 : m_impl m = true -> m_impl m' = true;
  q_impl2 : m_impl m' = true -> m_impl m = true \/ In (mkey m) imp;
  q_imp : In (mkey m) imp -> m_impl m = false;
  q_tc : m_tc m' = true -> m_impl m' = true;
  q_comp : m_comp m' = m_comp m \/ (m_tc m' = true /\ In (mkey m) D) \/ In (mkey m) imp;
  q_fdecl : map fdecl (m_feats m') = map fdecl (m_feats m) }.

Record QI (s : state) (imp D : list key) (t : state) : Prop := {
  qi_expl : explicit t = explicit s;
  qi_len : (length (mods s) <= length (mods t))%nat;
  qi_nodup : NoDup (keys (mods t));
  qi_olds : Forall2 (qrel imp D) (mods s) (olds_of s t) }.

Lemma map_eq_Forall2 {A B} (f : A -> B) l l' : map f l' = map f l -> Forall2 (fun a b => f b = f a) l l'.
Proof. intros H. apply Forall2_map_eq. exact H. Qed.

Lemma clr_flags_fields m m' : clr_flags m' = clr_flags m ->
  mkey m' = mkey m /\ m_imps m' = m_imps m /\ m_cfault m' = m_cfault m /\ m_single m' = m_single m /\
  m_hasdep m' = m_hasdep m /\ m_impl m' = m_impl m /\ m_tc m' = m_tc m /\ m_comp m' = m_comp m /\
  m_feats m' = m_feats m.
Proof.
  destruct m, m'. unfold clr_flags, set_limpclb, set_imprev, set_lsearch, set_latest, mkey. cbn.
  intros H. inversion H; subst. repeat split; reflexivity.
Qed.

Lemma Forall2_with_In {A B} (R : A -> B -> Prop) l l' :
  Forall2 R l l' -> Forall2 (fun a b => In a l /\ R a b) l l'.
Proof.
  intros F. induction F as [|x y l l' H F IH]; constructor.
  - split; [left; reflexivity|exact H].
  - eapply Forall2_impl; [|exact IH]. cbn. intros a b [H1 H2]. split; [right; exact H1|exact H2].
Qed.

Lemma PI_QI s t : wf_state s -> PI s t -> QI s [] [] t.
Proof.
  intros W P. constructor.
  - apply (pi_expl _ _ P).
  - apply (pi_len _ _ P).
  - apply (pi_nodup _ _ P).
  - pose proof (map_eq_Forall2 _ _ _ (pi_olds _ _ P)) as F.
    pose proof (Forall2_with_In _ _ _ F) as F'.
    eapply Forall2_impl; [|exact F']. cbn. intros m m' [Hin E].
    apply clr_flags_fields in E. destruct E as [E1 [E2 [E3 [E4 [E5 [E6 [E7 [E8 E9]]]]]]]].
    pose proof (wfs_mods _ W m Hin) as Wm.
    constructor; try assumption.
    + intros H. congruence.
    + intros H. left. congruence.
    + intros [].
    + intros H. rewrite E7, (wf_tc _ _ Wm) in H. discriminate.
    + left. exact E8.
    + rewrite E9. reflexivity.
Qed.

Lemma PI_feats s t : PI s t -> map m_feats (olds_of s t) = map m_feats (mods s).
Proof.
  intros P. pose proof (pi_olds _ _ P) as H.
  assert (E : forall l, map m_feats l = map m_feats (map clr_flags l)).
  { intros l. rewrite map_map. apply map_ext. intros m. destruct m; reflexivity. }
  rewrite E, H, <- E. reflexivity.
Qed.

(* Forall2 along an update of the right list, knowing the updated module is in the list *)
Lemma Forall2_upd_r_in (R : modl -> modl -> Prop) k g l l' :
  Forall2 R l l' -> (forall m m', In m' l' -> R m m' -> mkey m' = k -> R m (g m')) -> Forall2 R l (upd k g l').
Proof.
  intros H. induction H as [|m m' l l' Hr H IH]; intros Hg; cbn [upd map]; [constructor|].
  constructor.
  - destruct (key_eqb (mkey m') k) eqn:E; [apply Hg; [left; reflexivity|exact Hr|apply key_eqb_eq; exact E]|exact Hr].
  - apply IH. intros a b Hb. apply Hg. right. exact Hb.
Qed.

Lemma keys_olds_Q s imp D t : QI s imp D t -> keys (olds_of s t) = keys (mods s).
Proof.
  intros Q. pose proof (qi_olds _ _ _ _ Q) as F. unfold keys. induction F as [|a b l l' H F IH]; cbn; [reflexivity|].
  rewrite (q_key _ _ _ _ H). f_equal. exact IH.
Qed.

Lemma In_olds s t m : In m (olds_of s t) -> In m (mods t).
Proof.
  intros H. rewrite (olds_news s t). apply in_or_app. left. exact H.
Qed.

(* an update of the module(s) with key k that respects qrel for the module it hits *)
Lemma QI_upd s imp D t k g :
  QI s imp D t -> (forall m, mkey (g m) = mkey m) ->
  (forall m m', In m' (mods t) -> mkey m' = k -> qrel imp D m m' -> qrel imp D m (g m')) ->
  QI s imp D (upd_s k g t).
Proof.
  intros Q Hk Hg. constructor.
  - apply (qi_expl _ _ _ _ Q).
  - cbn [upd_s with_mods mods]. rewrite upd_length. apply (qi_len _ _ _ _ Q).
  - cbn [upd_s with_mods mods]. rewrite keys_upd by exact Hk. apply (qi_nodup _ _ _ _ Q).
  - rewrite olds_upd_s. apply Forall2_upd_r_in; [apply (qi_olds _ _ _ _ Q)|].
    intros m m' Hin Hr Hkk. apply Hg; [apply (In_olds s t); exact Hin|exact Hkk|exact Hr].
Qed.

Lemma QI_out_of_fuel s imp D t : QI s imp D t -> QI s imp D (out_of_fuel t).
Proof. intros Q. destruct Q. constructor; assumption. Qed.
Lemma QI_add_ev s imp D t e : QI s imp D t -> QI s imp D (add_ev e t).
Proof. intros Q. destruct Q. constructor; assumption. Qed.

(* setting to_compile on an implemented module *)
Lemma qrel_set_tc_true imp D m m' : m_impl m' = true -> qrel imp D m m' -> qrel imp D m (set_tc true m').
Proof.
  intros Hi Q. destruct Q. constructor; cbn; try assumption.
  - intros _. exact Hi.
  - destruct q_comp0 as [H|[[H1 H2]|H]]; [left; exact H|right; left; split; [reflexivity|exact H2]|right; right; exact H].
Qed.

Lemma find_mod_is k l m m' : NoDup (keys l) -> find_mod k l = Some m -> In m' l -> mkey m' = k -> m' = m.
Proof.
  intros Hnd Hf Hin Hk. pose proof (find_mod_unique k l m' Hnd Hin Hk) as E. congruence.
Qed.

(* only to_compile / the compiled tree / ... changed between two states: equal after the normaliser N *)
Record same_but (N : modl -> modl) (t t' : state) : Prop := {
  sb_expl : explicit t' = explicit t;
  sb_xopts : xopts t' = xopts t;
  sb_creating : creating t' = creating t;
  sb_implementing : implementing t' = implementing t;
  sb_featsaved : featsaved t' = featsaved t;
  sb_mods : map N (mods t') = map N (mods t) }.

Lemma same_but_refl N t : same_but N t t.
Proof. constructor; reflexivity. Qed.
Lemma same_but_trans N t1 t2 t3 : same_but N t1 t2 -> same_but N t2 t3 -> same_but N t1 t3.
Proof. intros [] []. constructor; congruence. Qed.
Lemma same_but_upd N t k g : (forall m, N (g m) = N m) -> same_but N t (upd_s k g t).
Proof.
  intros H. constructor; try reflexivity. cbn [upd_s with_mods mods]. apply map_upd_inv. exact H.
Qed.
Lemma same_but_out_of_fuel N t : same_but N t (out_of_fuel t).
Proof. constructor; reflexivity. Qed.
Lemma same_but_add_ev N t e : same_but N t (add_ev e t).
Proof. constructor; reflexivity. Qed.

Definition no_tc (m : modl) : modl := set_tc false m.
Definition no_tc_comp (m : modl) : modl := set_tc false (set_comp None m).

(* lys_has_compiled_import_r *)
Lemma hci_loop_QI s imp D rec imps :
  (forall t k, QI s imp D t -> QI s imp D (fst (rec t k)) /\ same_but no_tc t (fst (rec t k))) ->
  forall t, QI s imp D t ->
  QI s imp D (fst (hci_loop rec imps t)) /\ same_but no_tc t (fst (hci_loop rec imps t)).
Proof.
  intros Hrec. induction imps as [|ik imps IH]; intros t Q; cbn [hci_loop].
  - split; [exact Q|apply same_but_refl].
  - destruct (find_mod ik (mods t)) as [im|] eqn:F; [|apply IH; exact Q].
    destruct (negb (m_impl im)) eqn:Ei; [apply IH; exact Q|].
    destruct (negb (m_tc im)) eqn:Et.
    + cbn [fst]. split; [|apply same_but_upd; intros m; destruct m; reflexivity].
      apply QI_upd; [exact Q|reflexivity|]. intros m m' Hin Hk Hr.
      assert (m' = im) by (eapply find_mod_is; [apply (qi_nodup _ _ _ _ Q)|exact F|exact Hin|exact Hk]). subst m'.
      apply qrel_set_tc_true; [|exact Hr]. apply negb_false_iff in Ei. exact Ei.
    + destruct (Hrec t ik Q) as [Q1 S1]. destruct (rec t ik) as [s1 stop]. cbn [fst] in Q1, S1.
      destruct stop; cbn [fst]; [split; assumption|].
      destruct (IH s1 Q1) as [Q2 S2]. split; [exact Q2|eapply same_but_trans; eassumption].
Qed.

Lemma has_compiled_import_r_QI s imp D fuel : forall t k, QI s imp D t ->
  QI s imp D (fst (has_compiled_import_r fuel t k)) /\ same_but no_tc t (fst (has_compiled_import_r fuel t k)).
Proof.
  induction fuel as [|fuel IH]; intros t k Q; cbn [has_compiled_import_r].
  - cbn [fst]. split; [apply QI_out_of_fuel; exact Q|apply same_but_out_of_fuel].
  - destruct (find_mod k (mods t)) as [m|]; [|split; [exact Q|apply same_but_refl]].
    apply hci_loop_QI; [exact IH|exact Q].
Qed.

(* ------------------------------------------------------------------------------------------------ *)
(* lys_set_features                                                                                 *)
(* ------------------------------------------------------------------------------------------------ *)
Lemma map_on_same (p : feat -> bool) fs :
  map (fun f => mkFeat (f_name f) (f_deps f) (p f)) fs = fs -> forallb (fun f => Bool.eqb (f_on f) (p f)) fs = true.
Proof.
  induction fs as [|f fs IH]; cbn [map forallb]; [reflexivity|].
  intros H. inversion H as [[H1 H2]]. rewrite H2. rewrite (IH H2). destruct f as [n d o]. cbn in *.
  inversion H1 as [Ho]. rewrite <- Ho at 1. rewrite Bool.eqb_reflx. reflexivity.
Qed.

(* LY_SUCCESS of lys_set_features means a bit changed *)
Lemma set_features_changed fs sel fs' : set_features fs sel = SfOk fs' -> fs' <> fs.
Proof.
  unfold set_features. destruct sel as [| |l].
  - discriminate.
  - destruct (forallb f_on fs) eqn:E; [discriminate|]. intros H. inversion H; subst. intros Heq.
    apply map_on_same in Heq.
    assert (Ht : forallb f_on fs = true).
    { rewrite forallb_forall in Heq. apply forallb_forall. intros f Hf. specialize (Heq f Hf).
      apply Bool.eqb_prop in Heq. exact Heq. }
    congruence.
  - destruct l as [|n l].
    + destruct (existsb f_on fs) eqn:E; [|discriminate]. intros H. inversion H; subst. intros Heq.
      apply map_on_same in Heq. apply existsb_exists in E. destruct E as [f [Hf Hon]].
      rewrite forallb_forall in Heq. specialize (Heq f Hf). rewrite Hon in Heq. discriminate.
    + destruct (negb (forallb (fun n0 => feat_exists n0 fs) (n :: l))); [discriminate|].
      destruct (forallb (fun f => Bool.eqb (f_on f) (existsb (N.eqb (f_name f)) (n :: l))) fs) eqn:E; [discriminate|].
      intros H. inversion H; subst. intros Heq.
      apply (map_on_same (fun f => existsb (N.eqb (f_name f)) (n :: l))) in Heq. cbv beta in Heq.
      rewrite E in Heq. discriminate.
Qed.

(* ------------------------------------------------------------------------------------------------ *)
(* _lys_set_implemented                                                                             *)
(* ------------------------------------------------------------------------------------------------ *)
Definition nrm_B (m : modl) : modl := set_tc false (set_comp None (set_impl false (set_feats [] m))).

(* the state after the feature states were remembered *)
Definition saved (t : state) (k : key) (sel : fsel) (m : modl) : state := feat_backup t k sel m.

Lemma mods_saved t k sel m : mods (saved t k sel m) = mods t.
Proof. unfold saved, feat_backup. destruct sel; reflexivity. Qed.
Lemma implementing_saved t k sel m : implementing (saved t k sel m) = implementing t.
Proof. unfold saved, feat_backup. destruct sel; reflexivity. Qed.

Inductive si_case (t : state) (k : key) (sel : fsel) : state * bool -> Prop :=
| SiNone : find_mod k (mods t) = None -> si_case t k sel (t, false)
| SiDenied m : find_mod k (mods t) = Some m -> si_case t k sel (t, false)
| SiFail m : find_mod k (mods t) = Some m -> si_case t k sel (saved t k sel m, false)
| SiSame m : find_mod k (mods t) = Some m -> si_case t k sel (saved t k sel m, true)
| SiFeat m fs : find_mod k (mods t) = Some m -> m_impl m = true -> set_features (m_feats m) sel = SfOk fs ->
    si_case t k sel (add_ev EvChange (upd_s k (fun m => set_tc true (set_feats fs m)) (saved t k sel m)), true)
| SiImpl m fs : find_mod k (mods t) = Some m -> m_impl m = false ->
    (set_features (m_feats m) sel = SfOk fs \/ fs = m_feats m) ->
    si_case t k sel
      (fst (has_compiled_import_r (S (length (mods t)))
              (with_implementing (implementing t ++ [k])
                 (add_ev EvChange (upd_s k (fun m => set_tc true (set_impl true (set_feats fs m))) (saved t k sel m)))) k), true).

Lemma let_fst_true {A B} (x : A * B) : (let '(a, _) := x in (a, true)) = (fst x, true).
Proof. destruct x; reflexivity. Qed.

Lemma set_implemented_cases t k sel : si_case t k sel (set_implemented t k sel).
Proof.
  unfold set_implemented. destruct (find_mod k (mods t)) as [m|] eqn:F; [|constructor; exact F].
  fold (saved t k sel m).
  destruct (m_impl m) eqn:Ei.
  - destruct (set_features (m_feats m) sel) as [fs| |] eqn:Es; try (econstructor; eassumption).
  - destruct (get_implemented (m_name m) (mods t)); [eapply SiDenied; exact F|].
    destruct (set_features (m_feats m) sel) as [fs| |] eqn:Es; [| |eapply SiFail; exact F].
    + rewrite let_fst_true. cbn [upd_s with_mods mods with_implementing implementing add_ev].
      rewrite upd_length, (mods_saved t k sel m), (implementing_saved t k sel m).
      eapply (SiImpl t k sel m fs); [exact F|exact Ei|left; exact Es].
    + rewrite let_fst_true. cbn [upd_s with_mods mods with_implementing implementing add_ev].
      rewrite upd_length, (mods_saved t k sel m), (implementing_saved t k sel m).
      eapply (SiImpl t k sel m (m_feats m)); [exact F|exact Ei|right; reflexivity].
Qed.

Lemma qrel_mono imp D imp' D' m m' :
  qrel imp D m m' -> incl imp imp' -> incl D D' -> (forall k, In k imp' -> ~ In k imp -> k <> mkey m) ->
  qrel imp' D' m m'.
Proof.
  intros Q Hi Hd Hn. destruct Q as [Q1 Q2 Q3 Q4 Q5 Q6 Q7 Q8 Q9 Q10 Q11]. constructor; try assumption.
  - intros H. destruct (Q7 H) as [H'|H']; [left; exact H'|right; apply Hi; exact H'].
  - intros H. destruct (in_dec key_dec (mkey m) imp) as [H'|H']; [apply Q8; exact H'|].
    exfalso. apply (Hn _ H H'). reflexivity.
  - destruct Q10 as [H|[[H1 H2]|H]]; [left; exact H|right; left; split; [exact H1|apply Hd; exact H2]|
                                          right; right; apply Hi; exact H].
Qed.

Lemma QI_mono_D s imp D D' t : QI s imp D t -> incl D D' -> QI s imp D' t.
Proof.
  intros Q Hd. destruct Q as [Q1 Q2 Q3 Q4]. constructor; try assumption.
  eapply Forall2_impl; [|exact Q4]. intros m m' Hr. eapply qrel_mono; [exact Hr|apply incl_refl|exact Hd|].
  intros k H1 H2. contradiction.
Qed.

(* lys_implement: the module becomes implemented, marked, gets its features, and is recorded in implementing *)
Lemma QI_implement s D t k m fs :
  QI s [] D t -> find_mod k (mods t) = Some m -> m_impl m = false -> map fdecl fs = map fdecl (m_feats m) ->
  QI s [k] D (with_implementing (implementing t ++ [k])
                (add_ev EvChange (upd_s k (fun m => set_tc true (set_impl true (set_feats fs m))) t))).
Proof.
  intros Q F Hi Hfd. pose proof (qi_nodup _ _ _ _ Q) as Hnd.
  constructor; cbn [with_implementing add_ev explicit creating implementing mods].
  - apply (qi_expl _ _ _ _ Q).
  - cbn [upd_s with_mods mods]. rewrite upd_length. apply (qi_len _ _ _ _ Q).
  - cbn [upd_s with_mods mods]. rewrite keys_upd by reflexivity. exact Hnd.
  - change (Forall2 (qrel [k] D) (mods s) (olds_of s (upd_s k (fun m0 => set_tc true (set_impl true (set_feats fs m0))) t))).
    rewrite olds_upd_s.
    assert (F2 : Forall2 (fun a b => In b (olds_of s t) /\ qrel [] D a b) (mods s) (olds_of s t)).
    { pose proof (qi_olds _ _ _ _ Q) as F0. clear -F0. induction F0 as [|x y l l' H F0 IH]; constructor.
      - split; [left; reflexivity|exact H].
      - eapply Forall2_impl; [|exact IH]. cbn. intros a b [H1 H2]. split; [right; exact H1|exact H2]. }
    clear -F2 F Hi Hnd Hfd. induction F2 as [|a b l l' [Hin Hr] F2 IH]; cbn [upd map]; constructor; [|exact IH].
    destruct (key_eqb (mkey b) k) eqn:E.
    + apply key_eqb_eq in E.
      assert (b = m) by (eapply find_mod_is; [exact Hnd|exact F|apply (In_olds s t); exact Hin|exact E]). subst b.
      destruct Hr as [Q1 Q2 Q3 Q4 Q5 Q6 Q7 Q8 Q9 Q10 Q11]. constructor; cbn; try assumption.
      * intros _. reflexivity.
      * intros _. right. left. congruence.
      * intros _. destruct (m_impl a) eqn:Ea; [|reflexivity]. rewrite (Q6 eq_refl) in Hi. discriminate.
      * intros _. reflexivity.
      * right. right. left. congruence.
      * rewrite Hfd. exact Q11.
    + apply key_eqb_neq in E. eapply qrel_mono; [exact Hr|intros x []|apply incl_refl|].
      intros k' [<-|[]] _ Heq. apply E. rewrite Heq. apply (q_key _ _ _ _ Hr).
Qed.

Lemma same_but_weaken (N N' : modl -> modl) t t' :
  (forall m, N' m = N' (N m)) -> same_but N t t' -> same_but N' t t'.
Proof.
  intros H [E1 Ex E2 E3 E4 E5]. constructor; [exact E1|exact Ex|exact E2|exact E3|exact E4|].
  assert (E : forall l, map N' l = map N' (map N l)).
  { intros l. rewrite map_map. apply map_ext. exact H. }
  rewrite E, E5, <- E. reflexivity.
Qed.

Lemma hci_loop_same_but rec imps :
  (forall t k, same_but no_tc t (fst (rec t k))) ->
  forall t, same_but no_tc t (fst (hci_loop rec imps t)).
Proof.
  intros Hrec. induction imps as [|ik imps IH]; intros t; cbn [hci_loop]; [apply same_but_refl|].
  destruct (find_mod ik (mods t)) as [im|]; [|apply IH].
  destruct (negb (m_impl im)); [apply IH|]. destruct (negb (m_tc im)).
  - cbn [fst]. apply same_but_upd. intros m; destruct m; reflexivity.
  - pose proof (Hrec t ik) as S1. destruct (rec t ik) as [s1 stop]. cbn [fst] in S1.
    destruct stop; cbn [fst]; [exact S1|]. eapply same_but_trans; [exact S1|apply IH].
Qed.
Lemma has_compiled_import_r_same_but fuel : forall t k, same_but no_tc t (fst (has_compiled_import_r fuel t k)).
Proof.
  induction fuel as [|fuel IH]; intros t k; cbn [has_compiled_import_r]; [apply same_but_out_of_fuel|].
  destruct (find_mod k (mods t)); [|apply same_but_refl]. apply hci_loop_same_but. exact IH.
Qed.

(* ------------------------------------------------------------------------------------------------ *)
(* lys_unres_dep_sets_create only sets to_compile, and only on implemented modules                  *)
(* ------------------------------------------------------------------------------------------------ *)
Lemma qrel_mark imp D m m' : qrel imp D m m' -> qrel imp D m (if m_impl m' then set_tc true m' else m').
Proof.
  intros Q. destruct (m_impl m') eqn:E; [apply qrel_set_tc_true; assumption|exact Q].
Qed.

Lemma fold_mark_QI s imp D ds : forall t, QI s imp D t ->
  QI s imp D (fold_left (fun s k => upd_s k (fun m => if m_impl m then set_tc true m else m) s) ds t).
Proof.
  induction ds as [|k ds IH]; intros t Q; cbn [fold_left]; [exact Q|]. apply IH.
  apply QI_upd; [exact Q|intros m; destruct (m_impl m); reflexivity|]. intros m m' _ _ Hr. apply qrel_mark. exact Hr.
Qed.
Lemma fold_mark_same_but ds : forall t,
  same_but no_tc t (fold_left (fun s k => upd_s k (fun m => if m_impl m then set_tc true m else m) s) ds t).
Proof.
  induction ds as [|k ds IH]; intros t; cbn [fold_left]; [apply same_but_refl|].
  eapply same_but_trans; [|apply IH]. apply same_but_upd. intros m. destruct m as [? ? [] ? ? ? ? ? ? ? ? ? ? ?]; reflexivity.
Qed.

Lemma mark_depset_QI s imp D ds t : QI s imp D t -> QI s imp D (mark_depset ds t).
Proof. intros Q. unfold mark_depset. destruct (existsb _ ds); [apply fold_mark_QI|]; exact Q. Qed.
Lemma mark_all_QI s imp D dss t : QI s imp D t -> QI s imp D (mark_all dss t).
Proof. intros Q. unfold mark_all. apply fold_mark_QI. exact Q. Qed.
Lemma mark_all_same_but dss t : same_but no_tc t (mark_all dss t).
Proof. unfold mark_all. apply fold_mark_same_but. Qed.

Lemma mark_depset_same_but ds t : same_but no_tc t (mark_depset ds t).
Proof. unfold mark_depset. destruct (existsb _ ds); [apply fold_mark_same_but|apply same_but_refl]. Qed.

Lemma dep_sets_loop_QI s imp D fuel target : forall t cs main, QI s imp D t ->
  QI s imp D (fst (dep_sets_loop fuel t target cs main)) /\ same_but no_tc t (fst (dep_sets_loop fuel t target cs main)).
Proof.
  induction fuel as [|fuel IH]; intros t cs main Q; cbn [dep_sets_loop].
  - cbn [fst]. split; [apply QI_out_of_fuel; exact Q|apply same_but_out_of_fuel].
  - destruct cs as [|c0 cs']; [split; [exact Q|apply same_but_refl]|].
    destruct (dep_dfs _ t _ _) as [[[cs1 ds] aux] oof].
    set (t1 := if oof then out_of_fuel t else t).
    assert (Q1 : QI s imp D t1) by (unfold t1; destruct oof; [apply QI_out_of_fuel|]; exact Q).
    assert (S1 : same_but no_tc t t1) by (unfold t1; destruct oof; [apply same_but_out_of_fuel|apply same_but_refl]).
    pose proof (mark_depset_QI s imp D ds t1 Q1) as Q2. pose proof (mark_depset_same_but ds t1) as S2.
    destruct target as [k|].
    + cbn [fst]. split; [exact Q2|eapply same_but_trans; eassumption].
    + destruct (IH (mark_depset ds t1) cs1 (main ++ [ds]) Q2) as [Q3 S3].
      split; [exact Q3|]. eapply same_but_trans; [exact S1|]. eapply same_but_trans; eassumption.
Qed.

Lemma dep_sets_create_QI s imp D t target : QI s imp D t ->
  QI s imp D (fst (dep_sets_create t target)) /\ same_but no_tc t (fst (dep_sets_create t target)).
Proof.
  intros Q. unfold dep_sets_create. destruct (create_single _ t 0 _ []) as [cs1 main1].
  destruct target as [k|].
  - destruct (negb (kmem k cs1)); [split; [exact Q|apply same_but_refl]|]. apply dep_sets_loop_QI. exact Q.
  - apply dep_sets_loop_QI. exact Q.
Qed.

(* ------------------------------------------------------------------------------------------------ *)
(* compilation                                                                                      *)
(* ------------------------------------------------------------------------------------------------ *)
Definition no_comp (m : modl) : modl := set_comp None m.

Lemma find_mod_map_eq (N : modl -> modl) k : (forall m, mkey (N m) = mkey m) ->
  forall l l', map N l' = map N l -> forall m', find_mod k l' = Some m' ->
  exists m, find_mod k l = Some m /\ N m' = N m.
Proof.
  intros HN. induction l as [|a l IH]; intros [|b l'] H m' F; cbn in H; try discriminate H.
  - unfold find_mod in F. cbn in F. discriminate F.
  - inversion H as [[H1 H2]]. unfold find_mod in *. cbn [find] in *.
    assert (Ek : mkey b = mkey a) by (rewrite <- (HN b), <- (HN a), H1; reflexivity).
    rewrite Ek in F. destruct (key_eqb (mkey a) k).
    + inversion F; subst. exists a. split; [reflexivity|exact H1].
    + apply (IH l' H2 m' F).
Qed.

Lemma same_but_find N t t' k m' : (forall m, mkey (N m) = mkey m) -> same_but N t t' ->
  find_mod k (mods t') = Some m' -> exists m, find_mod k (mods t) = Some m /\ N m' = N m.
Proof. intros HN S F. eapply find_mod_map_eq; [exact HN|apply (sb_mods _ _ _ S)|exact F]. Qed.
Lemma same_but_find_l N t t' k m : (forall m, mkey (N m) = mkey m) -> same_but N t t' ->
  find_mod k (mods t) = Some m -> exists m', find_mod k (mods t') = Some m' /\ N m' = N m.
Proof.
  intros HN S F. destruct (find_mod_map_eq N k HN (mods t') (mods t) (eq_sym (sb_mods _ _ _ S)) m F) as [m' [F' E]].
  exists m'. split; [exact F'|symmetry; exact E].
Qed.

Lemma same_but_sym N t t' : same_but N t t' -> same_but N t' t.
Proof. intros [E1 Ex E2 E3 E4 E5]. constructor; congruence. Qed.

(* the abstract compiled schema only reads features, imports and keys *)
Lemma snapshot_ext l l' m m' :
  m_feats m' = m_feats m -> m_imps m' = m_imps m ->
  (forall ik, In ik (m_imps m) ->
     match find_mod ik l, find_mod ik l' with
     | Some a, Some b => m_feats b = m_feats a
     | None, None => True
     | _, _ => False
     end) ->
  snapshot l' m' = snapshot l m /\ snapshot_all l' m' = snapshot_all l m.
Proof.
  intros Hf Hi Hfind. unfold snapshot, snapshot_all. rewrite Hf, Hi.
  assert (E : forall (g : list feat -> list N) (ik : nat * key), In ik (combine (seq 0 (length (m_imps m))) (m_imps m)) ->
          match find_mod (snd ik) l' with
          | Some im => map (fun n => (N.of_nat (S (fst ik)), n)) (g (m_feats im))
          | None => []
          end =
          match find_mod (snd ik) l with
          | Some im => map (fun n => (N.of_nat (S (fst ik)), n)) (g (m_feats im))
          | None => []
          end).
  { intros g [i ik] Hin. apply in_combine_r in Hin. cbn [fst snd]. specialize (Hfind ik Hin).
    destruct (find_mod ik l), (find_mod ik l'); try contradiction; [rewrite Hfind|]; reflexivity. }
  split; f_equal; f_equal.
  - apply map_ext_in. intros ik Hin. apply (E enabled_names ik Hin).
  - apply map_ext_in. intros ik Hin. apply (E (map f_name) ik Hin).
Qed.

Lemma same_but_snapshot t t' m : same_but no_tc_comp t t' ->
  snapshot (mods t') m = snapshot (mods t) m /\ snapshot_all (mods t') m = snapshot_all (mods t) m.
Proof.
  intros S. apply snapshot_ext; try reflexivity. intros ik _.
  destruct (find_mod ik (mods t)) as [a|] eqn:Fa.
  - destruct (same_but_find_l no_tc_comp t t' ik a) as [b [Fb E]]; [intros x; destruct x; reflexivity|exact S|exact Fa|].
    rewrite Fb. destruct a, b. unfold no_tc_comp, set_tc, set_comp in E. cbn in E. inversion E. reflexivity.
  - destruct (find_mod ik (mods t')) as [b|] eqn:Fb; [|exact I].
    destruct (same_but_find no_tc_comp t t' ik b) as [a [Fa' _]]; [intros x; destruct x; reflexivity|exact S|exact Fb|].
    congruence.
Qed.

Definition all_tc (t : state) (ks : list key) : Prop :=
  forall k m, In k ks -> find_mod k (mods t) = Some m -> m_tc m = true.

Lemma qrel_set_comp imp D m m' c :
  m_tc m' = true -> In (mkey m) D -> qrel imp D m m' -> qrel imp D m (set_comp c m').
Proof.
  intros Ht Hd [Q1 Q2 Q3 Q4 Q5 Q6 Q7 Q8 Q9 Q10 Q11]. constructor; cbn; try assumption.
  right. left. split; assumption.
Qed.

Lemma QI_set_comp s imp D t k m c :
  QI s imp D t -> find_mod k (mods t) = Some m -> m_tc m = true -> In k D -> QI s imp D (upd_s k (set_comp c) t).
Proof.
  intros Q F Ht Hd. apply QI_upd; [exact Q|reflexivity|]. intros a b Hin Hk Hr.
  assert (b = m) by (eapply find_mod_is; [apply (qi_nodup _ _ _ _ Q)|exact F|exact Hin|exact Hk]). subst b.
  apply qrel_set_comp; [exact Ht| |exact Hr]. rewrite <- (q_key _ _ _ _ Hr), Hk. exact Hd.
Qed.

Lemma no_comp_weaken t t' : same_but no_comp t t' -> same_but no_tc_comp t t'.
Proof. apply same_but_weaken. intros m. destruct m; reflexivity. Qed.

Lemma all_tc_same t t' ks : same_but no_comp t t' -> all_tc t ks -> all_tc t' ks.
Proof.
  intros S H k m' Hin F.
  destruct (same_but_find no_comp t t' k m') as [m [F0 E]]; [intros x; destruct x; reflexivity|exact S|exact F|].
  specialize (H k m Hin F0). rewrite <- H. exact (f_equal m_tc E).
Qed.

Lemma compile_mods_QI s imp D : forall ds t done,
  QI s imp D t -> incl ds D -> all_tc t done ->
  let r := compile_mods ds t done in
  QI s imp D (fst (fst r)) /\ same_but no_comp t (fst (fst r)) /\ all_tc (fst (fst r)) (snd (fst r)) /\
  incl (snd (fst r)) (done ++ ds) /\
  (snd r = true -> forall k m, In k ds -> find_mod k (mods t) = Some m -> m_tc m = true -> In k (snd (fst r))) /\
  incl done (snd (fst r)).
Proof.
  induction ds as [|k ds IH]; intros t done Q Hd Ht; cbn [compile_mods].
  - cbn [fst snd]. refine (conj Q (conj _ (conj Ht (conj _ (conj _ _))))).
    + apply same_but_refl.
    + rewrite app_nil_r. apply incl_refl.
    + intros _ k m [].
    + apply incl_refl.
  - assert (Hd' : incl ds D) by (intros x Hx; apply Hd; right; exact Hx).
    destruct (find_mod k (mods t)) as [m|] eqn:F.
    2:{ destruct (IH t done Q Hd' Ht) as [H1 [H2 [H3 [H4 [H5 H6]]]]].
        refine (conj H1 (conj H2 (conj H3 (conj _ (conj _ H6))))).
        - intros x Hx. apply H4 in Hx. apply in_app_or in Hx. apply in_or_app. destruct Hx; [left|right; right]; assumption.
        - intros Hok k' m' [<-|Hin] F' Htc; [congruence|]. apply (H5 Hok k' m' Hin F' Htc). }
    destruct (negb (m_tc m)) eqn:Etc.
    { destruct (IH t done Q Hd' Ht) as [H1 [H2 [H3 [H4 [H5 H6]]]]].
      refine (conj H1 (conj H2 (conj H3 (conj _ (conj _ H6))))).
      - intros x Hx. apply H4 in Hx. apply in_app_or in Hx. apply in_or_app. destruct Hx; [left|right; right]; assumption.
      - intros Hok k' m' [<-|Hin] F' Htc; [|apply (H5 Hok k' m' Hin F' Htc)].
        rewrite F in F'. inversion F'; subst. apply negb_true_iff in Etc. congruence. }
    apply negb_false_iff in Etc.
    assert (HkD : In k D) by (apply Hd; left; reflexivity).
    set (t1 := add_ev (EvCompile k) (upd_s k (set_comp None) t)).
    assert (Q1 : QI s imp D t1) by (apply QI_add_ev; eapply QI_set_comp; eassumption).
    assert (S1 : same_but no_comp t t1).
    { eapply same_but_trans; [apply same_but_upd|apply same_but_add_ev]. intros x; destruct x; reflexivity. }
    destruct (node_fault m).
    { cbn [fst snd]. refine (conj Q1 (conj S1 (conj _ (conj _ (conj _ _))))).
      - eapply all_tc_same; eassumption.
      - apply incl_appl. apply incl_refl.
      - discriminate.
      - apply incl_refl. }
    set (t2 := upd_s k (set_comp (Some (snapshot_all (mods t1) m))) t1).
    assert (F1 : find_mod k (mods t1) = Some (set_comp None m)).
    { unfold t1. cbn [add_ev mods upd_s with_mods]. apply find_mod_upd_same; [reflexivity|exact F]. }
    assert (Q2 : QI s imp D t2) by (eapply QI_set_comp; [exact Q1|exact F1|exact Etc|exact HkD]).
    assert (S2 : same_but no_comp t t2).
    { eapply same_but_trans; [exact S1|]. apply same_but_upd. intros x; destruct x; reflexivity. }
    assert (Ht2 : all_tc t2 (done ++ [k])).
    { intros k' m' Hin F'. apply in_app_or in Hin. destruct Hin as [Hin|[<-|[]]].
      - eapply (all_tc_same t t2 done S2 Ht); eassumption.
      - destruct (same_but_find no_comp t t2 k m') as [m0 [F0 E]]; [intros x; destruct x; reflexivity|exact S2|exact F'|].
        rewrite F in F0. inversion F0; subst. rewrite <- Etc. exact (f_equal m_tc E). }
    destruct (IH t2 (done ++ [k]) Q2 Hd' Ht2) as [H1 [H2 [H3 [H4 [H5 H6]]]]].
    refine (conj H1 (conj _ (conj H3 (conj _ (conj _ _))))).
    + eapply same_but_trans; eassumption.
    + intros x Hx. apply H4 in Hx. rewrite <- app_assoc in Hx. exact Hx.
    + intros Hok k' m' [<-|Hin] F' Htc.
      * apply H6. apply in_or_app. right. left. reflexivity.
      * destruct (same_but_find_l no_comp t t2 k' m') as [m2 [F2 E]]; [intros x; destruct x; reflexivity|exact S2|exact F'|].
        apply (H5 Hok k' m2 Hin F2). rewrite <- Htc. exact (f_equal m_tc E).
    + intros x Hx. apply H6. apply in_or_app. left. exact Hx.
Qed.

Lemma prune_mods_other : forall done t k, ~ In k done ->
  find_mod k (mods (fst (prune_mods done t))) = find_mod k (mods t).
Proof.
  induction done as [|k0 done IH]; intros t k Hn; cbn [prune_mods]; [reflexivity|].
  assert (Hne : k <> k0) by (intros E; apply Hn; left; symmetry; exact E).
  assert (Hn' : ~ In k done) by (intros H; apply Hn; right; exact H).
  destruct (find_mod k0 (mods t)) as [m|]; [|apply IH; exact Hn'].
  match goal with |- context [if ?c then _ else _] => destruct c end; cbn [fst].
  - cbn [upd_s with_mods mods]. apply find_mod_upd_other; [reflexivity|exact Hne].
  - rewrite IH by exact Hn'. cbn [upd_s with_mods mods]. apply find_mod_upd_other; [reflexivity|exact Hne].
Qed.

Definition pruned (t : state) (ks : list key) : Prop :=
  forall k m, In k ks -> find_mod k (mods t) = Some m -> m_comp m = Some (snapshot (mods t) m).

Lemma prune_mods_QI s imp D : forall done t,
  QI s imp D t -> incl done D -> all_tc t done ->
  let r := prune_mods done t in
  QI s imp D (fst r) /\ same_but no_comp t (fst r) /\ (snd r = true -> pruned (fst r) done).
Proof.
  induction done as [|k done IH]; intros t Q Hd Ht; cbn [prune_mods].
  - cbn [fst snd]. refine (conj Q (conj (same_but_refl _ _) _)). intros _ k m [].
  - assert (Hd' : incl done D) by (intros x Hx; apply Hd; right; exact Hx).
    assert (Ht' : all_tc t done) by (intros k' m' Hin; apply Ht; right; exact Hin).
    destruct (find_mod k (mods t)) as [m|] eqn:F.
    2:{ destruct (IH t Q Hd' Ht') as [H1 [H2 H3]]. refine (conj H1 (conj H2 _)).
        intros Hok k' m' [<-|Hin] F'; [|apply (H3 Hok k' m' Hin F')].
        destruct (in_dec key_dec k done) as [Hin|Hn]; [apply (H3 Hok k m' Hin F')|].
        rewrite prune_mods_other in F' by exact Hn. congruence. }
    assert (Etc : m_tc m = true) by (apply (Ht k m); [left; reflexivity|exact F]).
    assert (HkD : In k D) by (apply Hd; left; reflexivity).
    set (t1 := upd_s k (set_comp (Some (snapshot (mods t) m))) t).
    assert (Q1 : QI s imp D t1) by (eapply QI_set_comp; eassumption).
    assert (S1 : same_but no_comp t t1) by (apply same_but_upd; intros x; destruct x; reflexivity).
    match goal with |- context [if ?c then _ else _] => destruct c end.
    { cbn [fst snd]. refine (conj Q1 (conj S1 _)). discriminate. }
    assert (Ht1 : all_tc t1 done) by (eapply all_tc_same; eassumption).
    destruct (IH t1 Q1 Hd' Ht1) as [H1 [H2 H3]]. refine (conj H1 (conj _ _)).
    + eapply same_but_trans; eassumption.
    + intros Hok k' m' [<-|Hin] F'; [|apply (H3 Hok k' m' Hin F')].
      destruct (in_dec key_dec k done) as [Hin|Hn]; [apply (H3 Hok k m' Hin F')|].
      rewrite prune_mods_other in F' by exact Hn.
      unfold t1 in F'. cbn [upd_s with_mods mods] in F'. rewrite (find_mod_upd_same k _ _ m) in F'; [|reflexivity|exact F].
      inversion F'; subst m'. cbn [set_comp m_comp]. f_equal.
      assert (S : same_but no_tc_comp t (fst (prune_mods done t1))).
      { apply no_comp_weaken. eapply same_but_trans; eassumption. }
      destruct (same_but_snapshot _ _ m S) as [E _]. rewrite <- E.
      symmetry. apply snapshot_ext; try reflexivity. intros ik _. destruct (find_mod ik _); [reflexivity|exact I].
Qed.

(* a fold of updates with an idempotent function = one map *)
Lemma fold_upd_mods g : (forall m, mkey (g m) = mkey m) -> (forall m, g (g m) = g m) ->
  forall ds t, fold_left (fun s k => upd_s k g s) ds t
               = with_mods (map (fun m => if kmem (mkey m) ds then g m else m) (mods t)) t.
Proof.
  intros Hk Hg. induction ds as [|k ds IH]; intros t; cbn [fold_left].
  - cbn [kmem]. rewrite map_id. destruct t; reflexivity.
  - rewrite IH. cbn [upd_s with_mods mods]. unfold with_mods. cbn. f_equal.
    unfold upd. rewrite map_map. apply map_ext. intros m. cbn [kmem].
    destruct (key_eqb (mkey m) k) eqn:E.
    + rewrite Hk. rewrite (key_eqb_sym k (mkey m)), E. cbn [orb]. destruct (kmem (mkey m) ds); [apply Hg|reflexivity].
    + rewrite (key_eqb_sym k (mkey m)), E. reflexivity.
Qed.

Lemma Forall2_map_r_in {A B} (R : A -> B -> Prop) (h : B -> B) l l' :
  Forall2 R l l' -> (forall a b, In a l -> In b l' -> R a b -> R a (h b)) -> Forall2 R l (map h l').
Proof.
  intros F. induction F as [|x y l l' H F IH]; intros Hh; cbn [map]; constructor.
  - apply Hh; [left; reflexivity|left; reflexivity|exact H].
  - apply IH. intros a b Ha Hb. apply Hh; right; assumption.
Qed.

Definition FE (s t : state) : Prop :=
  Forall2 (fun m m' => mkey m' = mkey m /\ m_feats m' = m_feats m) (mods s) (olds_of s t).

Lemma NoDup_keys_eq l a b : NoDup (keys l) -> In a l -> In b l -> mkey a = mkey b -> a = b.
Proof.
  intros Hnd Ha Hb E. pose proof (find_mod_unique (mkey b) l a Hnd Ha E) as F1.
  pose proof (find_mod_unique (mkey b) l b Hnd Hb eq_refl) as F2. congruence.
Qed.

(* the old module and the module of the current state with the same key are related *)
Lemma partner (R : modl -> modl -> Prop) s t m0 m' :
  Forall2 (fun a b => mkey b = mkey a /\ R a b) (mods s) (olds_of s t) -> NoDup (keys (mods t)) ->
  In m0 (mods s) -> In m' (mods t) -> mkey m' = mkey m0 -> R m0 m'.
Proof.
  intros F Hnd H0 H' Hk. destruct (Forall2_In_l _ _ _ _ F H0) as [b [Hb [Hkb Hr]]].
  assert (b = m') by (eapply NoDup_keys_eq; [exact Hnd|apply (In_olds s t); exact Hb|exact H'|congruence]).
  subst b. exact Hr.
Qed.

Lemma QI_keyed s imp D t : QI s imp D t ->
  Forall2 (fun a b => mkey b = mkey a /\ qrel imp D a b) (mods s) (olds_of s t).
Proof.
  intros Q. eapply Forall2_impl; [|apply (qi_olds _ _ _ _ Q)]. intros a b H. split; [apply (q_key _ _ _ _ H)|exact H].
Qed.

Lemma olds_same_len s t t' : length (mods t') = length (mods t) -> length (olds_of s t') = length (olds_of s t).
Proof. intros H. unfold olds_of. rewrite !firstn_length. lia. Qed.

Lemma FE_same_but s t t' : same_but no_tc_comp t t' -> FE s t -> FE s t'.
Proof.
  intros S F. unfold FE in *.
  assert (E : map (fun m => (mkey m, m_feats m)) (olds_of s t') = map (fun m => (mkey m, m_feats m)) (olds_of s t)).
  { unfold olds_of. rewrite <- !firstn_map. f_equal.
    assert (G : forall l, map (fun m => (mkey m, m_feats m)) l = map (fun m => (mkey m, m_feats m)) (map no_tc_comp l)).
    { intros l. rewrite map_map. apply map_ext. intros m; destruct m; reflexivity. }
    rewrite G, (sb_mods _ _ _ S), <- G. reflexivity. }
  assert (F1 : Forall2 (fun a b => (mkey b, m_feats b) = (mkey a, m_feats a)) (mods s) (olds_of s t)).
  { eapply Forall2_impl; [|exact F]. cbn. intros a b [H1 H2]. congruence. }
  apply Forall2_map_eq in F1. rewrite <- E in F1. apply Forall2_map_eq in F1.
  eapply Forall2_impl; [|exact F1]. cbn. intros a b H. split; [exact (f_equal fst H)|exact (f_equal snd H)].
Qed.

(* the compiled schema of an old module, compiled now, is what it was *)
Lemma old_snapshot s imp D t m0 m' :
  wf_state s -> QI s imp D t -> FE s t -> In m0 (mods s) -> qrel imp D m0 m' -> m_feats m' = m_feats m0 ->
  snapshot (mods t) m' = snapshot (mods s) m0.
Proof.
  intros W Q F H0 Hr Hf. apply snapshot_ext; [exact Hf|apply (q_imps _ _ _ _ Hr)|].
  intros ik Hik. pose proof (wf_imps _ _ (wfs_mods _ W m0 H0) ik Hik) as Hin.
  destruct (find_mod_some_in ik (mods s) Hin) as [a Fa]. rewrite Fa.
  destruct (find_mod_Forall2 _ ik _ _ a F Fa) as [b [Fb Hfb]].
  rewrite (olds_news s t), find_mod_app, Fb. exact Hfb.
Qed.

Lemma depset_r_QI s imp D ds t :
  wf_state s -> QI s imp D t -> FE s t -> incl ds D ->
  QI s imp D (fst (depset_r ds t)) /\ same_but no_tc_comp t (fst (depset_r ds t)).
Proof.
  intros W Q F Hd. unfold depset_r.
  pose proof (compile_mods_QI s imp D ds t [] Q Hd) as H. cbv zeta in H.
  destruct (compile_mods ds t []) as [[t1 done] ok]. cbn [fst snd] in H.
  destruct H as [Q1 [S1 [T1 [I1 [C1 _]]]]]; [intros k m []|].
  destruct (negb ok) eqn:Eok; [cbn [fst]; split; [exact Q1|apply no_comp_weaken; exact S1]|].
  destruct (existsb _ done); [cbn [fst]; split; [exact Q1|apply no_comp_weaken; exact S1]|].
  assert (Hdd : incl done D) by (intros x Hx; apply Hd; apply I1 in Hx; exact Hx).
  pose proof (prune_mods_QI s imp D done t1 Q1 Hdd T1) as H. cbv zeta in H.
  destruct (prune_mods done t1) as [t2 ok2]. cbn [fst snd] in H. destruct H as [Q2 [S2 P2]].
  assert (S12 : same_but no_comp t t2) by (eapply same_but_trans; eassumption).
  destruct (negb ok2) eqn:Eok2; [cbn [fst]; split; [exact Q2|apply no_comp_weaken; exact S12]|].
  apply negb_false_iff in Eok, Eok2. cbn [fst].
  rewrite (fold_upd_mods (set_tc false)) by reflexivity.
  split.
  2:{ eapply same_but_trans; [apply no_comp_weaken; exact S12|]. constructor; try reflexivity.
      cbn [with_mods mods]. rewrite map_map. apply map_ext. intros m. destruct (kmem (mkey m) ds); destruct m; reflexivity. }
  assert (F2 : FE s t2) by (eapply FE_same_but; [apply no_comp_weaken; exact S12|exact F]).
  set (h := fun m => if kmem (mkey m) ds then set_tc false m else m).
  assert (Hhk : forall m, mkey (h m) = mkey m) by (intros m; unfold h; destruct (kmem (mkey m) ds); reflexivity).
  constructor; cbn [with_mods explicit creating implementing mods].
  - apply (qi_expl _ _ _ _ Q2).
  - rewrite map_length. apply (qi_len _ _ _ _ Q2).
  - unfold keys. rewrite map_map. rewrite (map_ext _ mkey Hhk). apply (qi_nodup _ _ _ _ Q2).
  - unfold olds_of. cbn [with_mods mods]. rewrite firstn_map. fold (olds_of s t2).
    apply Forall2_map_r_in; [apply (qi_olds _ _ _ _ Q2)|]. intros m0 m' H0 H' Hr. unfold h.
    destruct (kmem (mkey m') ds) eqn:Ek; [|exact Hr]. apply kmem_In in Ek.
    pose proof Hr as [R1 R2 R3 R4 R5 R6 R7 R8 R9 R10 R11]. constructor; cbn; try assumption; [discriminate|].
    destruct R10 as [Hc|[[Htc HD]|Hi]]; [left; exact Hc| |right; right; exact Hi].
    destruct (in_dec key_dec (mkey m0) imp) as [Hi|Hni]; [right; right; exact Hi|]. left.
    assert (Hin' : In m' (mods t2)) by (apply (In_olds s t2); exact H').
    assert (Fm : find_mod (mkey m') (mods t2) = Some m') by (apply find_mod_unique; [apply (qi_nodup _ _ _ _ Q2)|exact Hin'|reflexivity]).
    (* it was marked when the round started, so it was compiled and pruned in this round *)
    destruct (same_but_find no_comp t t2 (mkey m') m') as [mt [Ft Et]]; [intros x; destruct x; reflexivity|exact S12|exact Fm|].
    assert (Htct : m_tc mt = true).
    { rewrite <- Htc. exact (eq_sym (f_equal m_tc Et)). }
    pose proof (C1 Eok (mkey m') mt Ek Ft Htct) as Hdone.
    rewrite (P2 Eok2 (mkey m') m' Hdone Fm).
    assert (Hfe : m_feats m' = m_feats m0).
    { apply (partner (fun a b => m_feats b = m_feats a) s t2 m0 m' F2 (qi_nodup _ _ _ _ Q2) H0 Hin' R1). }
    rewrite (old_snapshot s imp D t2 m0 m' W Q2 F2 H0 Hr Hfe).
    assert (Him0 : m_impl m0 = true) by (destruct (R7 (R9 Htc)) as [E|E]; [exact E|contradiction]).
    destruct (wf_comp_impl _ _ (wfs_mods _ W m0 H0) Him0) as [E _]. symmetry. exact E.
Qed.

Lemma compile_all_QI s imp D : wf_state s -> forall dss t,
  QI s imp D t -> FE s t -> (forall ds, In ds dss -> incl ds D) ->
  QI s imp D (fst (compile_all dss t)) /\ same_but no_tc_comp t (fst (compile_all dss t)).
Proof.
  intros W. induction dss as [|ds dss IH]; intros t Q F Hd; cbn [compile_all].
  - cbn [fst]. split; [exact Q|apply same_but_refl].
  - destruct (negb (depset_check_features ds t)); [cbn [fst]; split; [exact Q|apply same_but_refl]|].
    destruct (depset_r_QI s imp D ds t W Q F (Hd ds (or_introl eq_refl))) as [Q1 S1].
    destruct (depset_r ds t) as [t1 ok]. cbn [fst] in Q1, S1.
    destruct (negb ok); [cbn [fst]; split; assumption|].
    destruct (IH t1 Q1 (FE_same_but s t t1 S1 F) (fun ds' H => Hd ds' (or_intror H))) as [Q2 S2].
    split; [exact Q2|eapply same_but_trans; eassumption].
Qed.

(* ------------------------------------------------------------------------------------------------ *)
(* nothing marked: nothing is compiled                                                              *)
(* ------------------------------------------------------------------------------------------------ *)
Definition none_tc (t : state) : Prop := forall m, In m (mods t) -> m_tc m = false.

Lemma none_tc_find t k m : none_tc t -> find_mod k (mods t) = Some m -> m_tc m = false.
Proof. intros H F. apply H. apply (find_mod_In _ _ _ F). Qed.

Lemma mark_depset_none ds t : none_tc t -> mark_depset ds t = t.
Proof.
  intros H. unfold mark_depset.
  replace (existsb _ ds) with false; [reflexivity|]. symmetry. apply not_true_is_false. intros E.
  apply existsb_exists in E. destruct E as [k [_ Hk]]. destruct (find_mod k (mods t)) as [m|] eqn:F; [|discriminate].
  rewrite (none_tc_find t k m H F) in Hk. discriminate.
Qed.

Lemma none_tc_out_of_fuel t : none_tc t -> none_tc (out_of_fuel t).
Proof. intros H. exact H. Qed.

Lemma dep_sets_loop_none fuel target : forall t cs main, none_tc t ->
  none_tc (fst (dep_sets_loop fuel t target cs main)).
Proof.
  induction fuel as [|fuel IH]; intros t cs main H; cbn [dep_sets_loop]; [exact H|].
  destruct cs as [|c0 cs']; [exact H|].
  destruct (dep_dfs _ t _ _) as [[[cs1 ds] aux] oof].
  assert (H1 : none_tc (if oof then out_of_fuel t else t)) by (destruct oof; exact H).
  rewrite (mark_depset_none ds _ H1). destruct target; [exact H1|]. apply IH. exact H1.
Qed.

Lemma dep_sets_create_none t target : none_tc t -> none_tc (fst (dep_sets_create t target)).
Proof.
  intros H. unfold dep_sets_create. destruct (create_single _ t 0 _ []) as [cs1 main1].
  destruct target as [k|]; [destruct (negb (kmem k cs1)); [exact H|]|]; apply dep_sets_loop_none; exact H.
Qed.

Lemma compile_mods_none : forall ds t done, none_tc t -> compile_mods ds t done = (t, done, true).
Proof.
  induction ds as [|k ds IH]; intros t done H; cbn [compile_mods]; [reflexivity|].
  destruct (find_mod k (mods t)) as [m|] eqn:F; [|apply IH; exact H].
  rewrite (none_tc_find t k m H F). cbn [negb]. apply IH. exact H.
Qed.

Lemma fold_set_tc_false_none ds t : none_tc t -> mods (fold_left (fun s k => upd_s k (set_tc false) s) ds t) = mods t.
Proof.
  intros H. rewrite (fold_upd_mods (set_tc false)) by reflexivity. cbn [with_mods mods].
  rewrite <- (map_id (mods t)) at 2. apply map_ext_in. intros m Hm. destruct (kmem (mkey m) ds); [|reflexivity].
  pose proof (H m Hm) as E. destruct m. cbn in *. subst. reflexivity.
Qed.

Lemma compile_all_none : forall dss t, none_tc t ->
  snd (compile_all dss t) = true /\ none_tc (fst (compile_all dss t)) /\ evs (fst (compile_all dss t)) = evs t.
Proof.
  induction dss as [|ds dss IH]; intros t H; cbn [compile_all]; [cbn; tauto|].
  assert (Hc : depset_check_features ds t = true).
  { unfold depset_check_features. apply forallb_forall. intros k _. destruct (find_mod k (mods t)) as [m|] eqn:F; [|reflexivity].
    rewrite (none_tc_find t k m H F). reflexivity. }
  rewrite Hc. cbn [negb]. unfold depset_r. rewrite (compile_mods_none ds t [] H). cbn [negb existsb prune_mods].
  set (t1 := fold_left (fun s k => upd_s k (set_tc false) s) ds t).
  assert (H1 : none_tc t1).
  { intros m Hm. unfold t1 in Hm. rewrite (fold_set_tc_false_none ds t H) in Hm. apply H. exact Hm. }
  assert (E1 : evs t1 = evs t).
  { unfold t1. rewrite (fold_upd_mods (set_tc false)) by reflexivity. reflexivity. }
  destruct (IH t1 H1) as [A [B C]]. rewrite E1 in C. tauto.
Qed.

(* ------------------------------------------------------------------------------------------------ *)
(* recompilation of modules that compile: lys_compile_depset_all succeeds and clears the marks      *)
(* ------------------------------------------------------------------------------------------------ *)
Definition healthy (t : state) : Prop := forall m, In m (mods t) -> m_tc m = true -> compiles_ok m = true.

Lemma in_map_eq {A B} (N : A -> B) l l' a' : map N l' = map N l -> In a' l' -> exists a, In a l /\ N a' = N a.
Proof.
  revert l'. induction l as [|a l IH]; intros [|b l'] H Hin; cbn in H; try discriminate; [contradiction|].
  inversion H as [[H1 H2]]. destruct Hin as [<-|Hin].
  - exists a. split; [left; reflexivity|exact H1].
  - destruct (IH l' H2 Hin) as [x [Hx E]]. exists x. split; [right; exact Hx|exact E].
Qed.

Lemma compiles_ok_no_comp a b : no_comp a = no_comp b -> compiles_ok a = compiles_ok b /\ m_tc a = m_tc b.
Proof.
  intros E. pose proof (f_equal m_feats E) as E1. pose proof (f_equal m_cfault E) as E2. pose proof (f_equal m_tc E) as E3.
  cbn in E1, E2, E3. unfold compiles_ok, node_fault, leafref_fault, key_fault. rewrite E1, E2. split; [reflexivity|exact E3].
Qed.

Lemma healthy_same t t' : same_but no_comp t t' -> healthy t -> healthy t'.
Proof.
  intros S H m' Hin Htc. destruct (in_map_eq no_comp _ _ m' (sb_mods _ _ _ S) Hin) as [m [Hm E]].
  destruct (compiles_ok_no_comp m' m E) as [E1 E2]. rewrite E1. apply H; [exact Hm|congruence].
Qed.

Lemma compiles_ok_parts m : compiles_ok m = true ->
  check_features (m_feats m) = true /\ node_fault m = false /\ leafref_fault m = false /\ key_fault m = false.
Proof.
  unfold compiles_ok. rewrite !andb_true_iff, !negb_true_iff. tauto.
Qed.

Lemma compile_mods_ok : forall ds t done, healthy t -> snd (compile_mods ds t done) = true.
Proof.
  induction ds as [|k ds IH]; intros t done H; cbn [compile_mods]; [reflexivity|].
  destruct (find_mod k (mods t)) as [m|] eqn:F; [|apply IH; exact H].
  destruct (negb (m_tc m)) eqn:Etc; [apply IH; exact H|]. apply negb_false_iff in Etc.
  destruct (compiles_ok_parts m (H m (proj1 (find_mod_In _ _ _ F)) Etc)) as [_ [Hn _]]. rewrite Hn.
  apply IH. eapply healthy_same; [|exact H].
  eapply same_but_trans; [eapply same_but_trans; [apply same_but_upd|apply same_but_add_ev]|apply same_but_upd];
    intros x; destruct x; reflexivity.
Qed.

Lemma prune_mods_ok : forall done t, healthy t -> all_tc t done -> snd (prune_mods done t) = true.
Proof.
  induction done as [|k done IH]; intros t H Ht; cbn [prune_mods]; [reflexivity|].
  assert (Ht' : all_tc t done) by (intros k' m' Hin; apply Ht; right; exact Hin).
  destruct (find_mod k (mods t)) as [m|] eqn:F; [|apply IH; assumption].
  assert (Etc : m_tc m = true) by (apply (Ht k m); [left; reflexivity|exact F]).
  destruct (compiles_ok_parts m (H m (proj1 (find_mod_In _ _ _ F)) Etc)) as [_ [_ [_ Hk]]].
  unfold key_fault in Hk. rewrite Hk.
  assert (S : same_but no_comp t (upd_s k (set_comp (Some (snapshot (mods t) m))) t))
    by (apply same_but_upd; intros x; destruct x; reflexivity).
  apply IH; [eapply healthy_same; eassumption|eapply all_tc_same; eassumption].
Qed.

(* after a successful round no module of the dep set is marked; no mark appears anywhere *)
Definition tc_le (t t' : state) : Prop :=
  forall k m', find_mod k (mods t') = Some m' -> m_tc m' = true -> exists m, find_mod k (mods t) = Some m /\ m_tc m = true.

Lemma tc_le_refl t : tc_le t t.
Proof. intros k m F H. exists m. tauto. Qed.
Lemma tc_le_trans t1 t2 t3 : tc_le t1 t2 -> tc_le t2 t3 -> tc_le t1 t3.
Proof. intros A B k m F H. destruct (B k m F H) as [m2 [F2 H2]]. apply (A k m2 F2 H2). Qed.

Lemma depset_r_ok s D ds t :
  QI s [] D t -> healthy t -> incl ds D ->
  snd (depset_r ds t) = true /\ healthy (fst (depset_r ds t)) /\ tc_le t (fst (depset_r ds t)) /\
  (forall k m, In k ds -> find_mod k (mods (fst (depset_r ds t))) = Some m -> m_tc m = false).
Proof.
  intros Q H Hd. unfold depset_r.
  pose proof (compile_mods_QI s [] D ds t [] Q Hd) as C. cbv zeta in C.
  pose proof (compile_mods_ok ds t [] H) as Cok.
  destruct (compile_mods ds t []) as [[t1 done] ok]. cbn [fst snd] in C, Cok. subst ok. cbn [negb].
  destruct C as [Q1 [S1 [T1 [I1 _]]]]; [intros k m []|].
  assert (H1 : healthy t1) by (eapply healthy_same; eassumption).
  assert (Hl : existsb (fun k => match find_mod k (mods t1) with Some m => leafref_fault m | None => false end) done = false).
  { apply not_true_is_false. intros E. apply existsb_exists in E. destruct E as [k [Hk E]].
    destruct (find_mod k (mods t1)) as [m|] eqn:F; [|discriminate].
    destruct (compiles_ok_parts m (H1 m (proj1 (find_mod_In _ _ _ F)) (T1 k m Hk F))) as [_ [_ [Hlf _]]]. congruence. }
  rewrite Hl.
  assert (Hdd : incl done D) by (intros x Hx; apply Hd; apply I1 in Hx; exact Hx).
  pose proof (prune_mods_QI s [] D done t1 Q1 Hdd T1) as P. cbv zeta in P.
  pose proof (prune_mods_ok done t1 H1 T1) as Pok.
  destruct (prune_mods done t1) as [t2 ok2]. cbn [fst snd] in P, Pok. subst ok2. cbn [negb fst snd].
  destruct P as [Q2 [S2 _]].
  assert (S12 : same_but no_comp t t2) by (eapply same_but_trans; eassumption).
  assert (H2 : healthy t2) by (eapply healthy_same; eassumption).
  rewrite (fold_upd_mods (set_tc false)) by reflexivity. cbn [with_mods mods].
  set (h := fun m => if kmem (mkey m) ds then set_tc false m else m).
  assert (Hhk : forall m, mkey (h m) = mkey m) by (intros m; unfold h; destruct (kmem (mkey m) ds); reflexivity).
  assert (Hfind : forall k, find_mod k (map h (mods t2)) = option_map h (find_mod k (mods t2))).
  { intros k. unfold find_mod. induction (mods t2) as [|x l IHl]; cbn [map find option_map]; [reflexivity|].
    rewrite Hhk. destruct (key_eqb (mkey x) k); [reflexivity|exact IHl]. }
  split; [reflexivity|]. split; [|split].
  - intros m' Hin Htc. apply in_map_iff in Hin. destruct Hin as [m [<- Hm]]. unfold h in *.
    destruct (kmem (mkey m) ds); [discriminate Htc|]. apply H2; assumption.
  - intros k m' F Htc. rewrite Hfind in F. destruct (find_mod k (mods t2)) as [m2|] eqn:F2; [|discriminate].
    cbn [option_map] in F. inversion F; subst m'. unfold h in Htc. destruct (kmem (mkey m2) ds); [discriminate Htc|].
    destruct (same_but_find no_comp t t2 k m2) as [m [Fm E]]; [intros x; destruct x; reflexivity|exact S12|exact F2|].
    exists m. split; [exact Fm|]. rewrite <- Htc. exact (eq_sym (f_equal m_tc E)).
  - intros k m' Hk F. rewrite Hfind in F. destruct (find_mod k (mods t2)) as [m2|] eqn:F2; [|discriminate].
    cbn [option_map] in F. inversion F; subst m'. unfold h.
    assert (Ek : mkey m2 = k) by (apply (find_mod_In _ _ _ F2)). rewrite Ek.
    apply kmem_In in Hk. rewrite Hk. reflexivity.
Qed.

Lemma compile_all_ok s D : wf_state s -> forall dss t,
  QI s [] D t -> FE s t -> healthy t -> (forall ds, In ds dss -> incl ds D) ->
  snd (compile_all dss t) = true /\ tc_le t (fst (compile_all dss t)) /\
  (forall k m, In k (concat dss) -> find_mod k (mods (fst (compile_all dss t))) = Some m -> m_tc m = false).
Proof.
  intros W. induction dss as [|ds dss IH]; intros t Q F H Hd; cbn [compile_all].
  - cbn [fst snd concat]. split; [reflexivity|]. split; [apply tc_le_refl|]. intros k m [].
  - assert (Hc : depset_check_features ds t = true).
    { unfold depset_check_features. apply forallb_forall. intros k _. destruct (find_mod k (mods t)) as [m|] eqn:Fm; [|reflexivity].
      destruct (m_tc m) eqn:Etc; [|reflexivity]. cbn [negb orb].
      apply (compiles_ok_parts m (H m (proj1 (find_mod_In _ _ _ Fm)) Etc)). }
    rewrite Hc. cbn [negb].
    assert (Hds : incl ds D) by (apply Hd; left; reflexivity).
    destruct (depset_r_ok s D ds t Q H Hds) as [A1 [A2 [A3 A4]]].
    destruct (depset_r_QI s [] D ds t W Q F Hds) as [Q1 S1].
    destruct (depset_r ds t) as [t1 ok]. cbn [fst snd] in *. subst ok. cbn [negb].
    destruct (IH t1 Q1 (FE_same_but s t t1 S1 F) A2 (fun ds' Hin => Hd ds' (or_intror Hin))) as [B1 [B2 B3]].
    split; [exact B1|]. split; [eapply tc_le_trans; eassumption|].
    intros k m Hin Fm. cbn [concat] in Hin. apply in_app_or in Hin. destruct Hin as [Hin|Hin]; [|apply (B3 k m Hin Fm)].
    destruct (m_tc m) eqn:Etc; [|reflexivity]. destruct (B2 k m Fm Etc) as [m1 [F1 E1]].
    rewrite (A4 k m1 Hin F1) in E1. discriminate.
Qed.

(* ------------------------------------------------------------------------------------------------ *)
(* removing the created modules (ly_set_rm moves the last item into the hole)                       *)
(* ------------------------------------------------------------------------------------------------ *)
Lemma index_of_app_r k l1 l2 : ~ In k l1 -> index_of k (l1 ++ l2) = option_map (Nat.add (length l1)) (index_of k l2).
Proof.
  induction l1 as [|x l1 IH]; intros H; cbn [app index_of length].
  - destruct (index_of k l2); reflexivity.
  - assert (E : key_eqb x k = false) by (apply key_eqb_neq; intros ->; apply H; left; reflexivity).
    rewrite E, IH by (intros Hin; apply H; right; exact Hin).
    destruct (index_of k l2); reflexivity.
Qed.

Lemma map_last' {A B} (f : A -> B) l x : f (last l x) = last (map f l) (f x).
Proof.
  induction l as [|y l IH]; [reflexivity|]. cbn [last map]. destruct l as [|z l]; [reflexivity|]. exact IH.
Qed.
Lemma map_removelast' {A B} (f : A -> B) l : map f (removelast l) = removelast (map f l).
Proof.
  induction l as [|y l IH]; [reflexivity|]. cbn [removelast map]. destruct l as [|z l]; [reflexivity|].
  cbn [map] in *. f_equal. exact IH.
Qed.

Lemma rm_index_map {A B} (f : A -> B) i l : map f (rm_index i l) = rm_index i (map f l).
Proof.
  revert i. induction l as [|x l IH]; intros [|i]; cbn [rm_index map]; try reflexivity.
  - destruct l as [|y l]; [reflexivity|]. cbn [map]. f_equal.
    + apply (map_last' f (y :: l) x).
    + apply (map_removelast' f (y :: l)).
  - f_equal. apply IH.
Qed.

Lemma NoDup_app_not_l {A} (l1 l2 : list A) x : NoDup (l1 ++ l2) -> In x l2 -> ~ In x l1.
Proof.
  induction l1 as [|y l1 IH]; cbn [app]; intros H Hin; [tauto|]. inversion H as [|? ? Hy H']; subst.
  intros [->|Hx]; [apply Hy; apply in_or_app; right; exact Hin|apply (IH H' Hin Hx)].
Qed.

Lemma rm_mod_app_new olds news k :
  ~ In k (keys olds) -> In k (keys news) ->
  exists news', rm_mod k (olds ++ news) = olds ++ news' /\ Permutation (k :: keys news') (keys news).
Proof.
  intros Ho Hn. unfold rm_mod. unfold keys in *. rewrite map_app, index_of_app_r by exact Ho.
  destruct (index_of k (map mkey news)) as [j|] eqn:E; [|apply index_of_None in E; contradiction].
  cbn [option_map]. rewrite map_length. apply index_of_Some in E.
  assert (Hj : (j < length news)%nat).
  { rewrite <- (map_length mkey). apply nth_error_Some. congruence. }
  exists (rm_index j news). split; [apply rm_index_app_r'; exact Hj|].
  rewrite rm_index_map. apply rm_index_perm. exact E.
Qed.

Lemma rm_key_keeps k ds x : x <> k -> In x ds -> In x (rm_key k ds).
Proof.
  intros Hne Hin. unfold rm_key. destruct (index_of k ds) as [i|] eqn:E; [|exact Hin].
  apply index_of_Some in E. pose proof (rm_index_perm i ds k E) as P.
  apply Permutation_sym in P. apply (Permutation_in _ P) in Hin. destruct Hin as [->|Hin]; [contradiction|exact Hin].
Qed.

Lemma rm_from_depsets_keeps k : forall dss x, x <> k -> In x (concat dss) -> In x (concat (rm_from_depsets k dss)).
Proof.
  induction dss as [|ds dss IH]; intros x Hne Hin; cbn [rm_from_depsets concat] in *; [exact Hin|].
  apply in_app_or in Hin. destruct (kmem k ds); cbn [concat]; apply in_or_app.
  - destruct Hin as [Hin|Hin]; [left; apply rm_key_keeps; assumption|right; exact Hin].
  - destruct Hin as [Hin|Hin]; [left; exact Hin|right; apply IH; assumption].
Qed.


(* ------------------------------------------------------------------------------------------------ *)
(* observable equality                                                                              *)
(* ------------------------------------------------------------------------------------------------ *)
Record frel (m m' : modl) : Prop := {
  fr_key : mkey m' = mkey m;
  fr_impl : m_impl m' = m_impl m;
  fr_feats : m_feats m' = m_feats m;
  fr_comp : m_comp m' = m_comp m;
  fr_latest : m_latest m' = m_latest m }.

Lemma Forall2_skipn {A B} (R : A -> B -> Prop) n : forall l l', Forall2 R l l' -> Forall2 R (skipn n l) (skipn n l').
Proof.
  induction n as [|n IH]; intros l l' F; [exact F|]. destruct F; [constructor|]. cbn [skipn]. apply IH. exact F.
Qed.

Lemma find_Forall2 {A} (R : A -> A -> Prop) (p : A -> bool) l l' :
  Forall2 R l l' -> (forall a b, R a b -> p b = p a) ->
  match find p l, find p l' with
  | Some a, Some b => R a b
  | None, None => True
  | _, _ => False
  end.
Proof.
  intros F Hp. induction F as [|a b l l' H F IH]; cbn [find]; [exact I|].
  rewrite (Hp a b H). destruct (p a); [exact H|exact IH].
Qed.

Lemma mkey_parts m m' : mkey m' = mkey m -> m_name m' = m_name m /\ m_rev m' = m_rev m.
Proof. unfold mkey. intros H. inversion H. tauto. Qed.

Lemma obs_frel s s' : explicit s' = explicit s -> xopts s' = xopts s -> Forall2 frel (mods s) (mods s') -> obs s' = obs s.
Proof.
  intros Ee Ex F. unfold obs.
  assert (Fu : Forall2 frel (user_mods s) (user_mods s')) by (apply Forall2_skipn; exact F).
  assert (E1 : map omod_of (user_mods s') = map omod_of (user_mods s)).
  { apply Forall2_map_eq. eapply Forall2_impl; [|exact Fu]. intros a b [K I Fe C L].
    destruct (mkey_parts _ _ K) as [K1 K2]. unfold omod_of. rewrite K1, K2, I, Fe, C. reflexivity. }
  assert (E2 : map (fun n => option_map m_rev (get_latest n (mods s'))) names
               = map (fun n => option_map m_rev (get_latest n (mods s))) names).
  { apply map_ext. intros n. unfold get_latest.
    pose proof (find_Forall2 frel (fun m => (m_name m =? n) && m_latest m) _ _ F) as H.
    destruct (find _ (mods s)) as [a|], (find _ (mods s')) as [b|]; cbn [option_map].
    - destruct H as [K _ _ _ _]; [|destruct (mkey_parts _ _ K) as [_ K2]; rewrite K2; reflexivity].
      intros a' b' [K' _ _ _ L']. destruct (mkey_parts _ _ K') as [K1 _]. rewrite K1, L'. reflexivity.
    - exfalso. apply H. intros a' b' [K' _ _ _ L']. destruct (mkey_parts _ _ K') as [K1 _]. rewrite K1, L'. reflexivity.
    - exfalso. apply H. intros a' b' [K' _ _ _ L']. destruct (mkey_parts _ _ K') as [K1 _]. rewrite K1, L'. reflexivity.
    - reflexivity. }
  assert (E3 : map (fun n => option_map m_rev (get_implemented n (mods s'))) names
               = map (fun n => option_map m_rev (get_implemented n (mods s))) names).
  { apply map_ext. intros n. unfold get_implemented.
    pose proof (find_Forall2 frel (fun m => (m_name m =? n) && m_impl m) _ _ F) as H.
    destruct (find _ (mods s)) as [a|], (find _ (mods s')) as [b|]; cbn [option_map].
    - destruct H as [K _ _ _ _]; [|destruct (mkey_parts _ _ K) as [_ K2]; rewrite K2; reflexivity].
      intros a' b' [K' I' _ _ _]. destruct (mkey_parts _ _ K') as [K1 _]. rewrite K1, I'. reflexivity.
    - exfalso. apply H. intros a' b' [K' I' _ _ _]. destruct (mkey_parts _ _ K') as [K1 _]. rewrite K1, I'. reflexivity.
    - exfalso. apply H. intros a' b' [K' I' _ _ _]. destruct (mkey_parts _ _ K') as [K1 _]. rewrite K1, I'. reflexivity.
    - reflexivity. }
  assert (E4 : hash_fields s' = hash_fields s).
  { unfold hash_fields. apply Forall2_map_eq. eapply Forall2_impl; [|exact Fu]. intros x y [K' I' Fe' _ _].
    destruct (mkey_parts _ _ K') as [K1' K2']. rewrite K1', K2', I', Fe'. reflexivity. }
  rewrite E1, E2, E3, E4, Ee, Ex. reflexivity.
Qed.

(* ------------------------------------------------------------------------------------------------ *)
(* helpers for lys_unres_glob_revert                                                                *)
(* ------------------------------------------------------------------------------------------------ *)
Definition PE {X} (f : modl -> X) (s t : state) : Prop :=
  Forall2 (fun m m' => mkey m' = mkey m /\ f m' = f m) (mods s) (olds_of s t).
Definition LE : state -> state -> Prop := PE m_latest.

Lemma PE_same_but {X} (f : modl -> X) N s t t' :
  (forall m, f (N m) = f m) -> (forall m, mkey (N m) = mkey m) -> same_but N t t' -> PE f s t -> PE f s t'.
Proof.
  intros Hf Hk S F. unfold PE in *.
  assert (E : map (fun m => (mkey m, f m)) (olds_of s t') = map (fun m => (mkey m, f m)) (olds_of s t)).
  { unfold olds_of. rewrite <- !firstn_map. f_equal.
    assert (G : forall l, map (fun m => (mkey m, f m)) l = map (fun m => (mkey m, f m)) (map N l)).
    { intros l. rewrite map_map. apply map_ext. intros m. rewrite Hf, Hk. reflexivity. }
    rewrite G, (sb_mods _ _ _ S), <- G. reflexivity. }
  assert (F1 : Forall2 (fun a b => (mkey b, f b) = (mkey a, f a)) (mods s) (olds_of s t)).
  { eapply Forall2_impl; [|exact F]. cbn. intros a b [H1 H2]. congruence. }
  apply Forall2_map_eq in F1. rewrite <- E in F1. apply Forall2_map_eq in F1.
  eapply Forall2_impl; [|exact F1]. cbn. intros a b H. split; [exact (f_equal fst H)|exact (f_equal snd H)].
Qed.

Definition unimpl (m : modl) : modl := set_tc false (set_comp None (set_impl false m)).

Lemma compiles_ok_ext m m' : m_feats m' = m_feats m -> m_cfault m' = m_cfault m -> compiles_ok m' = compiles_ok m.
Proof. intros E1 E2. unfold compiles_ok, node_fault, leafref_fault, key_fault. rewrite E1, E2. reflexivity. Qed.

Lemma Forall2_3 {A B} (R1 R2 R3 : A -> B -> Prop) l l' :
  Forall2 R1 l l' -> Forall2 R2 l l' -> Forall2 R3 l l' -> Forall2 (fun a b => R1 a b /\ R2 a b /\ R3 a b) l l'.
Proof. intros F1 F2 F3. apply Forall2_conj; [exact F1|apply Forall2_conj; assumption]. Qed.

Lemma Forall2_map_r_gen {A B} (R R' : A -> B -> Prop) (h : B -> B) l l' :
  Forall2 R l l' -> (forall a b, R a b -> R' a (h b)) -> Forall2 R' l (map h l').
Proof. intros F H. induction F; cbn [map]; constructor; auto. Qed.

Lemma Forall2_with_In_r {A B} (R : A -> B -> Prop) l l' :
  Forall2 R l l' -> Forall2 (fun a b => In b l' /\ R a b) l l'.
Proof.
  intros F. induction F as [|x y l l' H F IH]; constructor.
  - split; [left; reflexivity|exact H].
  - eapply Forall2_impl; [|exact IH]. cbn. intros a b [H1 H2]. split; [right; exact H1|exact H2].
Qed.

(* ------------------------------------------------------------------------------------------------ *)
(* the hypotheses at the cleanup point, positionally                                                *)
(* ------------------------------------------------------------------------------------------------ *)
Lemma keeps_Forall2 (p : modl -> modl -> bool) L : NoDup (keys L) -> forall l l',
  keys l' = keys l -> (forall m', In m' l' -> In m' L) ->
  forallb (fun m => match find_mod (mkey m) L with Some m' => p m m' | None => false end) l = true ->
  Forall2 (fun m m' => mkey m' = mkey m /\ p m m' = true) l l'.
Proof.
  intros Hnd. induction l as [|a l IH]; intros [|b l'] Hk Hin Hf; cbn [keys map] in Hk; try discriminate; constructor.
  - pose proof (f_equal (@hd key (0, 0)) Hk) as Hk1. cbn [hd] in Hk1. split; [exact Hk1|].
    cbn [forallb] in Hf. apply andb_true_iff in Hf. destruct Hf as [Hf _].
    rewrite (find_mod_unique (mkey a) L b Hnd (Hin b (or_introl eq_refl)) Hk1) in Hf. exact Hf.
  - pose proof (f_equal (@tl key) Hk) as Hk2. cbn [tl] in Hk2.
    cbn [forallb] in Hf. apply andb_true_iff in Hf. destruct Hf as [_ Hf].
    apply IH; [exact Hk2|intros m' H; apply Hin; right; exact H|exact Hf].
Qed.

Record frame_eq (t t' : state) : Prop := {
  fe_expl : explicit t' = explicit t;
  fe_xopts : xopts t' = xopts t;
  fe_creating : creating t' = creating t;
  fe_keys : keys (mods t') = keys (mods t) }.

Lemma frame_eq_refl t : frame_eq t t.
Proof. constructor; reflexivity. Qed.
Lemma frame_eq_trans t1 t2 t3 : frame_eq t1 t2 -> frame_eq t2 t3 -> frame_eq t1 t3.
Proof. intros [] []. constructor; congruence. Qed.
Lemma same_but_frame N t t' : (forall m, mkey (N m) = mkey m) -> same_but N t t' -> frame_eq t t'.
Proof.
  intros HN [E1 Ex E2 E3 E4 E5]. constructor; [exact E1|exact Ex|exact E2|].
  assert (G : forall l, keys l = keys (map N l)).
  { intros l. unfold keys. rewrite map_map. apply map_ext. intros m. symmetry. apply HN. }
  rewrite G, E5, <- G. reflexivity.
Qed.
Lemma frame_eq_upd t k g : (forall m, mkey (g m) = mkey m) -> frame_eq t (upd_s k g t).
Proof. intros H. constructor; try reflexivity. cbn [upd_s with_mods mods]. apply keys_upd. exact H. Qed.

Lemma same_but_compile_all : forall dss t, same_but no_tc_comp t (fst (compile_all dss t)).
Proof.
  assert (Hc : forall ds t done, same_but no_comp t (fst (fst (compile_mods ds t done)))).
  { induction ds as [|k ds IH]; intros t done; cbn [compile_mods]; [apply same_but_refl|].
    destruct (find_mod k (mods t)) as [m|]; [|apply IH]. destruct (negb (m_tc m)); [apply IH|].
    assert (S1 : same_but no_comp t (add_ev (EvCompile k) (upd_s k (set_comp None) t))).
    { eapply same_but_trans; [apply same_but_upd|apply same_but_add_ev]. intros x; destruct x; reflexivity. }
    destruct (node_fault m); [exact S1|]. eapply same_but_trans; [exact S1|].
    eapply same_but_trans; [|apply IH]. apply same_but_upd. intros x; destruct x; reflexivity. }
  assert (Hp : forall done t, same_but no_comp t (fst (prune_mods done t))).
  { induction done as [|k done IH]; intros t; cbn [prune_mods]; [apply same_but_refl|].
    destruct (find_mod k (mods t)) as [m|]; [|apply IH].
    assert (S1 : same_but no_comp t (upd_s k (set_comp (Some (snapshot (mods t) m))) t))
      by (apply same_but_upd; intros x; destruct x; reflexivity).
    match goal with |- context [if ?c then _ else _] => destruct c end; [exact S1|].
    eapply same_but_trans; [exact S1|apply IH]. }
  assert (Hd : forall ds t, same_but no_tc_comp t (fst (depset_r ds t))).
  { intros ds t. unfold depset_r. pose proof (Hc ds t []) as S1.
    destruct (compile_mods ds t []) as [[t1 done] ok]. cbn [fst] in S1.
    destruct (negb ok); [apply no_comp_weaken; exact S1|].
    destruct (existsb _ done); [apply no_comp_weaken; exact S1|].
    pose proof (Hp done t1) as S2. destruct (prune_mods done t1) as [t2 ok2]. cbn [fst] in S2.
    assert (S12 : same_but no_tc_comp t t2) by (apply no_comp_weaken; eapply same_but_trans; eassumption).
    destruct (negb ok2); [exact S12|]. cbn [fst]. eapply same_but_trans; [exact S12|].
    rewrite (fold_upd_mods (set_tc false)) by reflexivity. constructor; try reflexivity.
    cbn [with_mods mods]. rewrite map_map. apply map_ext. intros m. destruct (kmem (mkey m) ds); destruct m; reflexivity. }
  induction dss as [|ds dss IH]; intros t; cbn [compile_all]; [apply same_but_refl|].
  destruct (negb (depset_check_features ds t)); [apply same_but_refl|].
  pose proof (Hd ds t) as S1. destruct (depset_r ds t) as [t1 ok]. cbn [fst] in S1.
  destruct (negb ok); [exact S1|]. eapply same_but_trans; [exact S1|apply IH].
Qed.

Lemma same_but_dep_sets_create t target : same_but no_tc t (fst (dep_sets_create t target)).
Proof.
  assert (Hl : forall fuel t cs main, same_but no_tc t (fst (dep_sets_loop fuel t target cs main))).
  { induction fuel as [|fuel IH]; intros t0 cs main; cbn [dep_sets_loop]; [apply same_but_out_of_fuel|].
    destruct cs as [|c0 cs']; [apply same_but_refl|].
    destruct (dep_dfs _ t0 _ _) as [[[cs1 ds] aux] oof].
    assert (S1 : same_but no_tc t0 (if oof then out_of_fuel t0 else t0))
      by (destruct oof; [apply same_but_out_of_fuel|apply same_but_refl]).
    pose proof (mark_depset_same_but ds (if oof then out_of_fuel t0 else t0)) as S2.
    destruct target; [eapply same_but_trans; eassumption|].
    eapply same_but_trans; [exact S1|]. eapply same_but_trans; [exact S2|apply IH]. }
  unfold dep_sets_create. destruct (create_single _ t 0 _ []) as [cs1 main1].
  destruct target as [k|]; [destruct (negb (kmem k cs1)); [apply same_but_refl|]|]; apply Hl.
Qed.

Lemma no_tc_weaken t t' : same_but no_tc t t' -> same_but no_tc_comp t t'.
Proof. apply same_but_weaken. intros m. destruct m; reflexivity. Qed.

(* dep sets + compilation of implement_and_compile *)
Definition dc (t : state) (k : key) : state * list (list key) * bool :=
  let '(s2, dss) := dep_sets_create t (Some k) in
  let '(s3, ok3) := compile_all dss s2 in (s3, dss, ok3).

Lemma dc_same_but t k : same_but no_tc_comp t (fst (fst (dc t k))).
Proof.
  unfold dc. pose proof (same_but_dep_sets_create t (Some k)) as S1.
  destruct (dep_sets_create t (Some k)) as [s2 dss]. cbn [fst] in S1.
  pose proof (same_but_compile_all dss s2) as S2. destruct (compile_all dss s2) as [s3 ok3]. cbn [fst] in *.
  eapply same_but_trans; [apply no_tc_weaken; exact S1|exact S2].
Qed.

Lemma iac_unfold t k sel :
  implement_and_compile t k sel =
  let '(s1, ok) := set_implemented t k sel in
  if negb ok then (s1, [], false) else if explicit s1 then (s1, [], true) else dc s1 k.
Proof. reflexivity. Qed.

Lemma iac_frame t k sel : frame_eq t (fst (fst (implement_and_compile t k sel))).
Proof.
  rewrite iac_unfold.
  assert (Hdc : forall t2, frame_eq t t2 -> frame_eq t (fst (fst (if explicit t2 then (t2, [], true) else dc t2 k)))).
  { intros t2 F2. destruct (explicit t2); [exact F2|]. eapply frame_eq_trans; [exact F2|].
    apply (same_but_frame no_tc_comp); [intros m; reflexivity|apply dc_same_but]. }
  assert (Hsv : forall m, frame_eq t (saved t k sel m)) by (intros m; unfold saved, feat_backup; destruct sel; constructor; reflexivity).
  destruct (set_implemented_cases t k sel) as [F|m F|m F|m F|m fs F Hi Hs|m fs F Hi Hs]; cbn [negb fst].
  - apply frame_eq_refl.
  - apply frame_eq_refl.
  - apply Hsv.
  - apply Hdc. apply Hsv.
  - apply Hdc. eapply frame_eq_trans; [apply (Hsv m)|]. constructor; try reflexivity.
    cbn [add_ev upd_s with_mods mods]. apply keys_upd. reflexivity.
  - apply Hdc. eapply frame_eq_trans; [|apply (same_but_frame no_tc); [intros x; reflexivity|apply has_compiled_import_r_same_but]].
    eapply frame_eq_trans; [apply (Hsv m)|]. constructor; try reflexivity.
    cbn [with_implementing add_ev upd_s with_mods mods]. apply keys_upd. reflexivity.
Qed.


(* ------------------------------------------------------------------------------------------------ *)
(* the latest-revision flag: exactly the newest revision of every name carries it (invariant LJ)    *)
(* ------------------------------------------------------------------------------------------------ *)
Definition kl (l : list modl) : list (key * bool) := map (fun m => (mkey m, m_latest m)) l.

Definition is_max (n : N) (ks : list key) (k : key) : Prop :=
  In k ks /\ fst k = n /\ forall k', In k' ks -> fst k' = n -> snd k' <= snd k.

Definition LJ (l : list modl) : Prop :=
  NoDup (keys l) /\ forall k b, In (k, b) (kl l) -> (b = true <-> is_max (fst k) (keys l) k).

Lemma keys_kl l : keys l = map fst (kl l).
Proof. unfold keys, kl. rewrite map_map. reflexivity. Qed.

Lemma LJ_kl l l' : kl l' = kl l -> LJ l -> LJ l'.
Proof. intros E [H1 H2]. unfold LJ. rewrite (keys_kl l'), E, <- (keys_kl l). split; assumption. Qed.

Lemma is_max_unique n ks k k' : is_max n ks k -> is_max n ks k' -> k = k'.
Proof.
  intros [I1 [F1 M1]] [I2 [F2 M2]]. pose proof (M1 k' I2 F2). pose proof (M2 k I1 F1).
  destruct k, k'. cbn in *. f_equal; [congruence|lia].
Qed.

Lemma is_max_perm n ks ks' k : Permutation ks ks' -> is_max n ks k -> is_max n ks' k.
Proof.
  intros P [I [F M]]. split; [apply (Permutation_in _ P I)|]. split; [exact F|].
  intros k' I' F'. apply M; [apply (Permutation_in _ (Permutation_sym P) I')|exact F'].
Qed.

Lemma classic_dec_ex n (ks : list key) : {exists k, In k ks /\ fst k = n} + {~ exists k, In k ks /\ fst k = n}.
Proof.
  induction ks as [|x ks IH].
  - right. intros [k [[] _]].
  - destruct (N.eq_dec (fst x) n) as [E|E]; [left; exists x; split; [left; reflexivity|exact E]|].
    destruct IH as [H|H].
    + left. destruct H as [k [I F]]. exists k. split; [right; exact I|exact F].
    + right. intros [k [[<-|I] F]]; [contradiction|]. apply H. exists k. tauto.
Qed.

Lemma max_exists n ks : (exists k, In k ks /\ fst k = n) -> exists k, is_max n ks k.
Proof.
  induction ks as [|x ks IH]; intros [k [Hin Hf]]; [destruct Hin|].
  destruct (N.eq_dec (fst x) n) as [Ex|Ex].
  - destruct (classic_dec_ex n ks) as [Hex|Hno].
    + destruct (IH Hex) as [m [I [F M]]]. destruct (N.le_gt_cases (snd x) (snd m)) as [Hle|Hgt].
      * exists m. split; [right; exact I|]. split; [exact F|]. intros k' [<-|I'] F'; [exact Hle|apply M; assumption].
      * exists x. split; [left; reflexivity|]. split; [exact Ex|]. intros k' [<-|I'] F'; [lia|].
        pose proof (M k' I' F'). lia.
    + exists x. split; [left; reflexivity|]. split; [exact Ex|]. intros k' [<-|I'] F'; [lia|].
      exfalso. apply Hno. exists k'. tauto.
  - destruct Hin as [->|Hin]; [contradiction|]. destruct (IH (ex_intro _ k (conj Hin Hf))) as [m [I [F M]]].
    exists m. split; [right; exact I|]. split; [exact F|]. intros k' [<-|I'] F'; [contradiction|apply M; assumption].
Qed.

Lemma newer_cond a m : negb (m_rev m =? 0) && ((m_rev a =? 0) || (m_rev a <? m_rev m)) = (m_rev a <? m_rev m).
Proof.
  destruct (m_rev m =? 0) eqn:E0; cbn [negb andb].
  - apply N.eqb_eq in E0. rewrite E0. symmetry. apply N.ltb_ge. lia.
  - destruct (m_rev a =? 0) eqn:Ea; cbn [orb]; [|reflexivity].
    apply N.eqb_eq in Ea. apply N.eqb_neq in E0. symmetry. apply N.ltb_lt. lia.
Qed.

Lemma keys_app l1 l2 : keys (l1 ++ l2) = keys l1 ++ keys l2.
Proof. unfold keys. apply map_app. Qed.

Definition newest_inv (n : N) (p : list modl) (acc : option modl) : Prop :=
  match acc with
  | None => forall m, In m p -> m_name m <> n
  | Some a => In a p /\ is_max n (keys p) (mkey a)
  end.

Lemma newest_gen n : forall l p acc, newest_inv n p acc ->
  newest_inv n (p ++ l)
    (fold_left (fun acc m =>
                  if m_name m =? n then
                    match acc with
                    | None => Some m
                    | Some a => if negb (m_rev m =? 0) && ((m_rev a =? 0) || (m_rev a <? m_rev m)) then Some m else Some a
                    end
                  else acc) l acc).
Proof.
  induction l as [|m l IH]; intros p acc H; cbn [fold_left]; [rewrite app_nil_r; exact H|].
  replace (p ++ m :: l) with ((p ++ [m]) ++ l) by (rewrite <- app_assoc; reflexivity).
  apply IH. destruct (m_name m =? n) eqn:En.
  - apply N.eqb_eq in En. destruct acc as [a|]; cbn [newest_inv] in *.
    + rewrite newer_cond. destruct H as [Ia [Ik [Fk Mk]]]. destruct (m_rev a <? m_rev m) eqn:El.
      * apply N.ltb_lt in El. split; [apply in_or_app; right; left; reflexivity|].
        rewrite keys_app. split; [apply in_or_app; right; left; reflexivity|]. split; [exact En|].
        intros k' Hk' Fk'. apply in_app_or in Hk'. destruct Hk' as [Hk'|[<-|[]]]; [|cbn; lia].
        pose proof (Mk k' Hk' Fk') as Hle. cbn [mkey snd] in *. lia.
      * apply N.ltb_ge in El. split; [apply in_or_app; left; exact Ia|]. rewrite keys_app.
        split; [apply in_or_app; left; exact Ik|]. split; [exact Fk|].
        intros k' Hk' Fk'. apply in_app_or in Hk'. destruct Hk' as [Hk'|[<-|[]]]; [apply Mk; assumption|exact El].
    + split; [apply in_or_app; right; left; reflexivity|]. rewrite keys_app.
      split; [apply in_or_app; right; left; reflexivity|]. split; [exact En|].
      intros k' Hk' Fk'. apply in_app_or in Hk'. destruct Hk' as [Hk'|[<-|[]]]; [|cbn; lia].
      unfold keys in Hk'. apply in_map_iff in Hk'. destruct Hk' as [x [<- Hx]]. exfalso. apply (H x Hx). exact Fk'.
  - apply N.eqb_neq in En. destruct acc as [a|]; cbn [newest_inv] in *.
    + destruct H as [Ia [Ik [Fk Mk]]]. split; [apply in_or_app; left; exact Ia|]. rewrite keys_app.
      split; [apply in_or_app; left; exact Ik|]. split; [exact Fk|].
      intros k' Hk' Fk'. apply in_app_or in Hk'. destruct Hk' as [Hk'|[<-|[]]]; [apply Mk; assumption|].
      exfalso. apply En. exact Fk'.
    + intros x Hx. apply in_app_or in Hx. destruct Hx as [Hx|[<-|[]]]; [apply H; exact Hx|exact En].
Qed.

Lemma newest_spec n l : newest_inv n l (newest n l).
Proof. apply (newest_gen n l [] None). intros m []. Qed.

(* with the invariant, ly_ctx_get_module_latest finds the newest revision, or the name is not in the context *)
Lemma LJ_flag l m : LJ l -> In m l -> (m_latest m = true <-> is_max (m_name m) (keys l) (mkey m)).
Proof.
  intros [_ H] Hin. apply (H (mkey m) (m_latest m)). unfold kl. apply in_map_iff. exists m. tauto.
Qed.

Lemma LJ_get_latest l n : LJ l ->
  match get_latest n l with
  | Some L => In L l /\ m_latest L = true /\ is_max n (keys l) (mkey L)
  | None => forall m, In m l -> m_name m <> n
  end.
Proof.
  intros J. unfold get_latest. destruct (find _ l) as [L|] eqn:F.
  - apply find_some in F. destruct F as [Hin H]. apply andb_true_iff in H. destruct H as [Hn Hl].
    apply N.eqb_eq in Hn. split; [exact Hin|]. split; [exact Hl|]. rewrite <- Hn. apply (LJ_flag l L J Hin). exact Hl.
  - intros m Hin Hn.
    destruct (max_exists n (keys l)) as [k Hk]; [exists (mkey m); split; [apply in_map; exact Hin|exact Hn]|].
    pose proof Hk as [Ik [Fk _]]. apply in_map_iff in Ik. destruct Ik as [x [Ex Hx]]. subst k.
    pose proof (find_none _ _ F x Hx) as Hf. cbn in Hf.
    cbn [mkey fst] in Fk.
    assert (Hlx : m_latest x = true) by (apply (LJ_flag l x J Hx); rewrite Fk; exact Hk).
    rewrite Fk, N.eqb_refl, Hlx in Hf. discriminate.
Qed.

Lemma LJ_intro l : NoDup (keys l) ->
  (forall m, In m l -> (m_latest m = true <-> is_max (m_name m) (keys l) (mkey m))) -> LJ l.
Proof.
  intros Hnd H. split; [exact Hnd|]. intros k b Hin. unfold kl in Hin. apply in_map_iff in Hin.
  destruct Hin as [m [E Hm]]. inversion E; subst. apply (H m Hm).
Qed.

Lemma is_max_snoc_other n ks k x : fst k <> n -> (is_max n (ks ++ [k]) x <-> is_max n ks x).
Proof.
  intros Hne. split; intros [I [F M]].
  - split; [|split; [exact F|]].
    + apply in_app_or in I. destruct I as [I|[<-|[]]]; [exact I|contradiction].
    + intros k' I' F'. apply M; [apply in_or_app; left; exact I'|exact F'].
  - split; [apply in_or_app; left; exact I|]. split; [exact F|].
    intros k' I' F'. apply in_app_or in I'. destruct I' as [I'|[<-|[]]]; [apply M; assumption|contradiction].
Qed.
Lemma is_max_snoc_inv n ks k x : is_max n (ks ++ [k]) x -> In x ks -> is_max n ks x.
Proof.
  intros [I [F M]] Hx. split; [exact Hx|]. split; [exact F|]. intros k' I' F'. apply M; [apply in_or_app; left; exact I'|exact F'].
Qed.
Lemma is_max_snoc_keep n ks k x : is_max n ks x -> snd k <= snd x -> is_max n (ks ++ [k]) x.
Proof.
  intros [I [F M]] Hle. split; [apply in_or_app; left; exact I|]. split; [exact F|].
  intros k' I' F'. apply in_app_or in I'. destruct I' as [I'|[<-|[]]]; [apply M; assumption|exact Hle].
Qed.

Lemma newer_cond_N ra r : negb (r =? 0) && ((ra =? 0) || (ra <? r)) = (ra <? r).
Proof.
  destruct (r =? 0) eqn:E0; cbn [negb andb].
  - apply N.eqb_eq in E0. rewrite E0. symmetry. apply N.ltb_ge. lia.
  - destruct (ra =? 0) eqn:Ea; cbn [orb]; [|reflexivity].
    apply N.eqb_eq in Ea. apply N.eqb_neq in E0. symmetry. apply N.ltb_lt. lia.
Qed.

Definition clr_ls (m : modl) : modl := set_lsearch false (set_latest false m).

(* lys_parse_in: the new module takes the flag from the previous latest revision exactly when it is newer *)
Lemma create_LJ l d :
  LJ l -> ~ In (d_name d, d_rev d) (keys l) ->
  LJ (match get_latest (d_name d) l with
      | Some L => if negb (d_rev d =? 0) && ((m_rev L =? 0) || (m_rev L <? d_rev d))
                  then upd (mkey L) clr_ls l ++ [new_module d (m_latest L) (m_lsearch L)]
                  else l ++ [new_module d false false]
      | None => l ++ [new_module d true false]
      end).
Proof.
  intros J Hfresh. pose proof (proj1 J) as Hnd. set (k := (d_name d, d_rev d)) in *.
  pose proof (LJ_get_latest l (d_name d) J) as HL. destruct (get_latest (d_name d) l) as [L|].
  - destruct HL as [HinL [HlL HmL]]. rewrite newer_cond_N. destruct (m_rev L <? d_rev d) eqn:El.
    + apply N.ltb_lt in El.
      assert (Hk : keys (upd (mkey L) clr_ls l ++ [new_module d (m_latest L) (m_lsearch L)]) = keys l ++ [k]).
      { rewrite keys_app, keys_upd by reflexivity. reflexivity. }
      apply LJ_intro; rewrite Hk; [apply NoDup_snoc; assumption|].
      intros m' Hin. apply in_app_or in Hin. destruct Hin as [Hin|[<-|[]]].
      * unfold upd in Hin. apply in_map_iff in Hin. destruct Hin as [m [E Hm]].
        destruct (key_eqb (mkey m) (mkey L)) eqn:Ek.
        -- apply key_eqb_eq in Ek. subst m'. cbn. split; [discriminate|]. intros [_ [_ M]]. exfalso.
           assert (Hle : snd k <= snd (mkey m)).
           { apply M; [apply in_or_app; right; left; reflexivity|]. cbn.
             pose proof (f_equal fst Ek) as E1. cbn in E1. destruct HmL as [_ [F _]]. cbn in F. congruence. }
           pose proof (f_equal snd Ek) as E2. cbn in E2, Hle. lia.
        -- apply key_eqb_neq in Ek. subst m'. destruct (N.eq_dec (m_name m) (d_name d)) as [En|En].
           ++ assert (Hnot : ~ is_max (m_name m) (keys l) (mkey m)).
              { intros Hm'. rewrite En in Hm'. apply Ek. apply (is_max_unique _ _ _ _ Hm' HmL). }
              split; [intros Hl; exfalso; apply Hnot; apply (LJ_flag l m J Hm); exact Hl|].
              intros Hm'. exfalso. apply Hnot. apply (is_max_snoc_inv _ _ k); [exact Hm'|apply in_map; exact Hm].
           ++ rewrite is_max_snoc_other by (cbn; congruence). apply (LJ_flag l m J Hm).
      * cbn. rewrite HlL. split; [intros _|reflexivity]. split; [apply in_or_app; right; left; reflexivity|].
        split; [reflexivity|]. intros k' I' F'. apply in_app_or in I'. destruct I' as [I'|[<-|[]]]; [|cbn; lia].
        destruct HmL as [_ [_ M]]. pose proof (M k' I' F') as Hle. cbn in *. lia.
    + apply N.ltb_ge in El. apply LJ_intro; rewrite keys_app; [apply NoDup_snoc; assumption|].
      change (keys [new_module d false false]) with [k].
      intros m' Hin. apply in_app_or in Hin. destruct Hin as [Hm|[<-|[]]].
      * destruct (N.eq_dec (m_name m') (d_name d)) as [En|En].
        -- rewrite (LJ_flag l m' J Hm). split.
           ++ intros Hm'. apply is_max_snoc_keep; [exact Hm'|]. rewrite En in Hm'.
              rewrite (is_max_unique _ _ _ _ Hm' HmL). exact El.
           ++ intros Hm'. apply (is_max_snoc_inv _ _ k); [exact Hm'|apply in_map; exact Hm].
        -- rewrite is_max_snoc_other by (cbn; congruence). apply (LJ_flag l m' J Hm).
      * cbn. split; [discriminate|]. intros [_ [_ M]]. exfalso.
        destruct HmL as [IL [FL ML]].
        assert (Hle : snd (mkey L) <= snd k) by (apply M; [apply in_or_app; left; exact IL|exact FL]).
        apply Hfresh. replace k with (mkey L); [exact IL|]. unfold k, mkey. cbn in FL, Hle. f_equal; [exact FL|lia].
  - apply LJ_intro; rewrite keys_app; [apply NoDup_snoc; assumption|].
    change (keys [new_module d true false]) with [k].
    intros m' Hin. apply in_app_or in Hin. destruct Hin as [Hm|[<-|[]]].
    + rewrite is_max_snoc_other by (cbn; intros E; apply (HL m' Hm); symmetry; exact E). apply (LJ_flag l m' J Hm).
    + cbn. split; [intros _|reflexivity]. split; [apply in_or_app; right; left; reflexivity|]. split; [reflexivity|].
      intros k' I' F'. apply in_app_or in I'. destruct I' as [I'|[<-|[]]]; [|cbn; lia].
      unfold keys in I'. apply in_map_iff in I'. destruct I' as [x [<- Hx]]. exfalso. apply (HL x Hx). exact F'.
Qed.

Definition LJs (t : state) : Prop := LJ (mods t).

Lemma kl_upd k g l : (forall m, mkey (g m) = mkey m /\ m_latest (g m) = m_latest m) -> kl (upd k g l) = kl l.
Proof.
  intros H. unfold kl, upd. rewrite map_map. apply map_ext. intros m. destruct (key_eqb (mkey m) k); [|reflexivity].
  destruct (H m) as [-> ->]. reflexivity.
Qed.
Lemma LJs_upd t k g : LJs t -> (forall m, mkey (g m) = mkey m /\ m_latest (g m) = m_latest m) -> LJs (upd_s k g t).
Proof. intros J H. unfold LJs in *. cbn [upd_s with_mods mods]. eapply LJ_kl; [apply kl_upd; exact H|exact J]. Qed.

Ltac LJ_step :=
  first [ assumption
        | apply LJs_upd; [|intros ?m; split; reflexivity] ].

Lemma load_from_clb_LJ pin R t name rev ml :
  (forall t d chk, LJs t -> LJs (fst (pin t d chk))) -> LJs t -> LJs (fst (load_from_clb pin R t name rev ml)).
Proof.
  intros Hpin P. unfold load_from_clb.
  destruct (match ml with Some ml0 => m_limpclb ml0 | None => false end); [exact P|].
  destruct (repo_serve R name rev) as [d|]; [|exact P].
  pose proof (Hpin t d (Some (name, rev)) P) as Hp. destruct (pin t d (Some (name, rev))) as [s' r].
  cbn [fst] in Hp. destruct r; cbn [fst]; try exact Hp; destruct (rev =? 0); repeat LJ_step.
Qed.

Lemma parse_load_LJ pin R t name rev :
  (forall t d chk, LJs t -> LJs (fst (pin t d chk))) -> LJs t -> LJs (fst (parse_load pin R t name rev)).
Proof.
  intros Hpin P. unfold parse_load.
  destruct (pick_in_ctx (mods t) name rev) as [found mod_latest].
  destruct found as [m|]; [exact P|].
  pose proof (load_from_clb_LJ pin R t name rev mod_latest Hpin P) as H2.
  destruct (load_from_clb pin R t name rev mod_latest) as [s2 got]. cbn [fst] in H2.
  destruct got as [k|]; [|destruct mod_latest as [ml|]]; cbn [fst].
  - destruct ((rev =? 0) && match find_mod k (mods s2) with Some m => m_latest m | None => false end); repeat LJ_step.
  - destruct (find_mod (mkey ml) (mods s2)) as [ml'|]; [destruct (m_latest ml')|]; repeat LJ_step.
  - exact H2.
Qed.

Lemma resolve_imports_LJ pl self imps : (forall t n r, LJs t -> LJs (fst (pl t n r))) ->
  forall t, LJs t -> LJs (fst (resolve_imports pl self imps t)).
Proof.
  intros Hpl. induction imps as [|[n r] imps IH]; intros t P; cbn [resolve_imports fst]; [exact P|].
  pose proof (Hpl t n r P) as H1. destruct (pl t n r) as [s1 res]. cbn [fst] in H1.
  destruct res as [k|]; [|exact H1]. apply IH. destruct (r =? 0); repeat LJ_step.
Qed.

Lemma parse_in_LJ fuel R : forall t d chk, LJs t -> LJs (fst (parse_in fuel R t d chk)).
Proof.
  induction fuel as [|fuel IH]; intros t d chk P; cbn [parse_in]; [exact P|].
  destruct (d_fault d =? 1); [exact P|].
  destruct (match get_latest (d_name d) (mods t) with
            | Some L => if negb (d_rev d =? 0) && ((m_rev L =? 0) || (m_rev L <? d_rev d))
                        then (m_latest L, m_lsearch L, Some (mkey L)) else (false, false, None)
            | None => (true, false, None) end) as [[nl ns] disp] eqn:Ed.
  destruct (_ =? 1); [exact P|]. destruct (_ =? 2); [exact P|].
  destruct (get_module (d_name d) (d_rev d) (mods t)) as [m|] eqn:G; [exact P|].
  apply get_module_none in G.
  match goal with |- context [resolve_imports ?pl ?k ?i ?t3] =>
    assert (P3 : LJs t3); [|assert (H4 : LJs (fst (resolve_imports pl k i t3)))] end.
  - unfold LJs. cbn [add_ev with_mods with_creating mods]. pose proof (create_LJ (mods t) d P G) as C.
    destruct (get_latest (d_name d) (mods t)) as [L|].
    + destruct (negb (d_rev d =? 0) && ((m_rev L =? 0) || (m_rev L <? d_rev d))); inversion Ed; subst; exact C.
    + inversion Ed; subst. exact C.
  - apply resolve_imports_LJ; [|exact P3]. intros t' n r P'. apply parse_load_LJ; [|exact P']. intros; apply IH; assumption.
  - match goal with |- context [resolve_imports ?pl ?k ?i ?t3] => destruct (resolve_imports pl k i t3) as [s4 ok] end.
    cbn [fst] in H4. destruct (negb ok); [exact H4|]. destruct (d_fault d =? 2); exact H4.
Qed.

Lemma is_max_cons_other n k ks x : fst k <> n -> (is_max n (k :: ks) x <-> is_max n ks x).
Proof.
  intros Hne. split; intros [I [F M]].
  - split; [destruct I as [<-|I]; [contradiction|exact I]|]. split; [exact F|]. intros k' I' F'. apply M; [right; exact I'|exact F'].
  - split; [right; exact I|]. split; [exact F|]. intros k' [<-|I'] F'; [contradiction|apply M; assumption].
Qed.
Lemma is_max_cons_inv n k ks x : is_max n (k :: ks) x -> In x ks -> is_max n ks x.
Proof. intros [I [F M]] Hx. split; [exact Hx|]. split; [exact F|]. intros k' I' F'. apply M; [right; exact I'|exact F']. Qed.
Lemma is_max_cons_keep n k ks x : is_max n ks x -> (fst k = n -> snd k <= snd x) -> is_max n (k :: ks) x.
Proof.
  intros [I [F M]] Hle. split; [right; exact I|]. split; [exact F|]. intros k' [<-|I'] F'; [apply Hle; exact F'|apply M; assumption].
Qed.

Lemma nth_error_keys l i k : nth_error (keys l) i = Some k -> exists m, nth_error l i = Some m /\ mkey m = k.
Proof.
  unfold keys. intros H. destruct (nth_error l i) as [m|] eqn:E.
  - exists m. rewrite (map_nth_error mkey i l E) in H. inversion H. tauto.
  - apply nth_error_None in E. assert (nth_error (map mkey l) i = None) by (apply nth_error_None; rewrite map_length; exact E). congruence.
Qed.

(* one step of the removal loop of lys_unres_glob_revert keeps the invariant *)
Lemma rm_step_LJ t dss k : LJs t -> LJs (fst (rm_step (t, dss) k)).
Proof.
  unfold LJs, rm_step. cbn [fst snd with_mods mods]. set (l := mods t). intros J. pose proof (proj1 J) as Hnd.
  unfold rm_mod. fold (keys l). destruct (index_of k (keys l)) as [i|] eqn:Ei.
  2:{ apply index_of_None in Ei. assert (F : find_mod k l = None) by (apply find_mod_none; exact Ei). rewrite F. exact J. }
  apply index_of_Some in Ei. destruct (nth_error_keys l i k Ei) as [mk [Emk Kmk]].
  pose proof (rm_index_perm i l mk Emk) as Pm. set (l1 := rm_index i l) in *.
  assert (Hmk : In mk l) by (apply (Permutation_in _ Pm); left; reflexivity).
  assert (F : find_mod k l = Some mk) by (apply find_mod_unique; assumption). rewrite F.
  assert (Pk : Permutation (k :: keys l1) (keys l)).
  { unfold keys. rewrite <- Kmk. change (mkey mk :: map mkey l1) with (map mkey (mk :: l1)). apply Permutation_map. exact Pm. }
  assert (Hnd1 : NoDup (k :: keys l1)) by (apply (Permutation_NoDup (Permutation_sym Pk) Hnd)).
  apply NoDup_cons_iff in Hnd1. destruct Hnd1 as [Hk1 Hnd1'].
  assert (Hsub : forall m, In m l1 -> In m l) by (intros m Hm; apply (Permutation_in _ Pm); right; exact Hm).
  assert (Hflag : forall m, In m l1 -> (m_latest m = true <-> is_max (m_name m) (k :: keys l1) (mkey m))).
  { intros m Hm. rewrite (LJ_flag l m J (Hsub m Hm)). split; apply is_max_perm; [apply Permutation_sym|]; exact Pk. }
  assert (Hkm : forall m, In m l1 -> mkey m <> k).
  { intros m Hm E. apply Hk1. rewrite <- E. apply in_map. exact Hm. }
  destruct (m_latest mk) eqn:Elk.
  - (* the removed module carried the flag: it was the newest revision of its name *)
    assert (Mk : is_max (fst k) (keys l) k) by (rewrite <- Kmk; apply (LJ_flag l mk J Hmk); exact Elk).
    assert (Hnone : forall m, In m l1 -> m_name m = fst k -> m_latest m = false).
    { intros m Hm En. destruct (m_latest m) eqn:E; [|reflexivity]. exfalso. apply (Hkm m Hm).
      apply (LJ_flag l m J (Hsub m Hm)) in E. rewrite En in E. apply (is_max_unique _ _ _ _ E Mk). }
    pose proof (newest_spec (fst k) l1) as Hn. destruct (newest (fst k) l1) as [ml|]; cbn [newest_inv] in Hn.
    + destruct Hn as [Iml Mml]. apply LJ_intro; rewrite keys_upd by reflexivity; [exact Hnd1'|].
      intros m' Hin. unfold upd in Hin. apply in_map_iff in Hin. destruct Hin as [m [E Hm]].
      destruct (key_eqb (mkey m) (mkey ml)) eqn:Ek.
      * apply key_eqb_eq in Ek. subst m'. cbn. split; [intros _|reflexivity].
        change (is_max (m_name m) (keys l1) (mkey m)). rewrite Ek. destruct Mml as [A [B C]].
        replace (m_name m) with (fst k); [split; [exact A|split; [exact B|exact C]]|].
        pose proof (f_equal fst Ek) as E1. cbn in E1, B. congruence.
      * apply key_eqb_neq in Ek. subst m'. destruct (N.eq_dec (m_name m) (fst k)) as [En|En].
        -- rewrite (Hnone m Hm En). split; [discriminate|]. intros Hmax. exfalso. apply Ek. rewrite En in Hmax.
           apply (is_max_unique _ _ _ _ Hmax Mml).
        -- rewrite (Hflag m Hm). apply is_max_cons_other. congruence.
    + apply LJ_intro; [exact Hnd1'|]. intros m Hm. rewrite (Hflag m Hm). apply is_max_cons_other.
      intros E. apply (Hn m Hm). symmetry. exact E.
  - (* it did not: the newest revision of its name stays *)
    apply LJ_intro; [exact Hnd1'|]. intros m Hm. rewrite (Hflag m Hm). split.
    + intros Hmax. apply (is_max_cons_inv _ k); [exact Hmax|apply in_map; exact Hm].
    + intros Hmax. apply is_max_cons_keep; [exact Hmax|]. intros Efk.
      (* the newest revision of the name in l is flagged, so it is not the removed module *)
      destruct (max_exists (m_name m) (keys l)) as [kx Hkx]; [exists (mkey m); split; [apply in_map; apply Hsub; exact Hm|reflexivity]|].
      pose proof Hkx as [Ikx [Fkx Mkx]]. unfold keys in Ikx. apply in_map_iff in Ikx. destruct Ikx as [x [Ex Hx]].
      assert (Hlx : m_latest x = true).
      { apply (LJ_flag l x J Hx). rewrite Ex. replace (m_name x) with (m_name m); [exact Hkx|]. rewrite <- Ex in Fkx. cbn in Fkx. congruence. }
      assert (Hxk : kx <> k).
      { intros E. subst kx. assert (x = mk) by (apply (NoDup_keys_eq l); try assumption; congruence). subst x. congruence. }
      assert (Ikx1 : In kx (keys l1)).
      { assert (Hin : In kx (k :: keys l1)) by (apply (Permutation_in _ (Permutation_sym Pk)); rewrite <- Ex; apply in_map; exact Hx).
        destruct Hin as [E|Hin]; [congruence|exact Hin]. }
      destruct Hmax as [_ [_ Mm]]. pose proof (Mm kx Ikx1 Fkx) as H1.
      assert (H2 : snd k <= snd kx).
      { apply Mkx; [rewrite <- Kmk; apply in_map; exact Hmk|exact Efk]. }
      lia.
Qed.

Lemma same_but_kl N t t' : (forall m, mkey (N m) = mkey m /\ m_latest (N m) = m_latest m) -> same_but N t t' ->
  kl (mods t') = kl (mods t).
Proof.
  intros HN S.
  assert (G : forall l, kl l = kl (map N l)).
  { intros l. unfold kl. rewrite map_map. apply map_ext. intros m. destruct (HN m) as [-> ->]. reflexivity. }
  rewrite G, (sb_mods _ _ _ S), <- G. reflexivity.
Qed.

Lemma fold_rm_step_LJ ks : forall t dss, LJs t -> LJs (fst (fold_left rm_step ks (t, dss))).
Proof.
  induction ks as [|k ks IH]; intros t dss J; cbn [fold_left]; [exact J|].
  pose proof (rm_step_LJ t dss k J) as J1. destruct (rm_step (t, dss) k) as [t1 dss1]. apply IH. exact J1.
Qed.

Lemma restore_features_kl t : kl (mods (restore_features t)) = kl (mods t).
Proof.
  unfold restore_features. generalize (rev (featsaved t)). intros l. revert t.
  induction l as [|e l IH]; intros t; cbn [fold_left]; [reflexivity|]. rewrite IH.
  cbn [upd_s with_mods mods]. apply kl_upd. intros m; split; reflexivity.
Qed.

Lemma revert_LJ t dss : LJs t -> LJs (revert t dss).
Proof.
  intros J0. unfold revert.
  assert (J : LJs (restore_features t)) by (unfold LJs; eapply LJ_kl; [apply restore_features_kl|exact J0]).
  set (t0 := restore_features t) in *.
  set (s1 := fold_left _ (implementing t0) t0).
  assert (J1 : LJs s1).
  { unfold s1. rewrite (fold_upd_mods (fun m => set_tc false (set_comp None (set_impl false m)))) by reflexivity.
    unfold LJs. cbn [with_mods mods]. eapply LJ_kl; [|exact J]. unfold kl. rewrite map_map. apply map_ext.
    intros m. destruct (kmem (mkey m) (implementing t0)); reflexivity. }
  pose proof (fold_rm_step_LJ (creating s1) s1 dss J1) as J2.
  destruct (fold_left rm_step (creating s1) (s1, dss)) as [s2 dss2]. cbn [fst] in J2.
  assert (J3 : LJs (fst (compile_all dss2 (mark_all dss2 s2)))).
  { unfold LJs. eapply LJ_kl; [|exact J2].
    rewrite (same_but_kl no_tc_comp _ _ (fun x => conj eq_refl eq_refl) (same_but_compile_all dss2 (mark_all dss2 s2))).
    apply (same_but_kl no_tc _ _ (fun x => conj eq_refl eq_refl) (mark_all_same_but dss2 s2)). }
  destruct (implementing s2); [destruct (featsaved s2)|]; assumption.
Qed.

Lemma iac_kl t k sel : kl (mods (fst (fst (implement_and_compile t k sel)))) = kl (mods t).
Proof.
  rewrite iac_unfold.
  assert (Hdc : forall t2, kl (mods t2) = kl (mods t) ->
            kl (mods (fst (fst (if explicit t2 then (t2, [], true) else dc t2 k)))) = kl (mods t)).
  { intros t2 E2. destruct (explicit t2); [exact E2|]. rewrite <- E2.
    apply (same_but_kl no_tc_comp); [intros m; split; reflexivity|apply dc_same_but]. }
  destruct (set_implemented_cases t k sel) as [F|m F|m F|m F|m fs F Hi Hs|m fs F Hi Hs]; cbn [negb fst].
  - reflexivity.
  - reflexivity.
  - rewrite mods_saved. reflexivity.
  - apply Hdc. rewrite mods_saved. reflexivity.
  - apply Hdc. cbn [add_ev upd_s with_mods mods]. rewrite mods_saved. apply kl_upd. intros x; split; reflexivity.
  - apply Hdc. rewrite (same_but_kl no_tc _ _ (fun x => conj eq_refl eq_refl) (has_compiled_import_r_same_but _ _ k)).
    cbn [with_implementing add_ev upd_s with_mods mods]. rewrite mods_saved. apply kl_upd. intros x; split; reflexivity.
Qed.

Lemma attempt_LJ R t o : LJs t -> LJs (fst (fst (attempt R t o))).
Proof.
  intros J. destruct o as [d sel|name rev sel|name rev sel| |fl|fl]; cbn [attempt]; try exact J.
  - pose proof (parse_in_LJ (pfuel R) R t d None J) as J1. destruct (parse_in (pfuel R) R t d None) as [t1 pr]. cbn [fst] in J1.
    assert (H : forall k, LJs (fst (fst (let '(s2, dss, ok) := implement_and_compile t1 k sel in (s2, dss, if ok then ROk else RErr))))).
    { intros k. pose proof (iac_kl t1 k sel) as E. destruct (implement_and_compile t1 k sel) as [[s2 dss] ok]. cbn [fst] in *.
      unfold LJs. eapply LJ_kl; eassumption. }
    destruct pr; try exact J1; apply H.
  - pose proof (parse_load_LJ (parse_in (pfuel R) R) R t name rev (fun t0 d chk => parse_in_LJ (pfuel R) R t0 d chk) J) as J1.
    destruct (parse_load (parse_in (pfuel R) R) R t name rev) as [t1 pr]. cbn [fst] in J1.
    destruct pr as [k|]; [|exact J1].
    pose proof (iac_kl t1 k sel) as E. destruct (implement_and_compile t1 k sel) as [[s2 dss] ok]. cbn [fst] in *.
    unfold LJs. eapply LJ_kl; eassumption.
  - destruct (get_module name rev (mods t)) as [m|]; [|exact J].
    pose proof (iac_kl t (mkey m) sel) as E. destruct (implement_and_compile t (mkey m) sel) as [[s2 dss] ok]. cbn [fst] in *.
    unfold LJs. eapply LJ_kl; eassumption.
  - pose proof (same_but_dep_sets_create t None) as S1. destruct (dep_sets_create t None) as [s1 dss].
    pose proof (same_but_compile_all dss s1) as S2. destruct (compile_all dss s1) as [s2 ok]. cbn [fst] in *.
    unfold LJs. eapply LJ_kl; [|exact J].
    rewrite (same_but_kl no_tc_comp _ _ (fun x => conj eq_refl eq_refl) S2).
    apply (same_but_kl no_tc _ _ (fun x => conj eq_refl eq_refl) S1).
Qed.

Lemma with_flags_mods e x t : mods (with_flags e x t) = mods t.
Proof. reflexivity. Qed.

Lemma do_compile_LJ t : LJs t -> LJs (fst (do_compile t)).
Proof.
  intros J. unfold do_compile.
  pose proof (same_but_dep_sets_create t None) as S1. destruct (dep_sets_create t None) as [s1 dss].
  pose proof (same_but_compile_all dss s1) as S2. destruct (compile_all dss s1) as [s2 ok]. cbn [fst] in *.
  assert (J2 : LJs s2).
  { unfold LJs. eapply LJ_kl; [|exact J].
    rewrite (same_but_kl no_tc_comp _ _ (fun x => conj eq_refl eq_refl) S2).
    apply (same_but_kl no_tc _ _ (fun x => conj eq_refl eq_refl) S1). }
  destruct ok; cbn [fst]; [exact J2|]. apply (revert_LJ s2 dss J2).
Qed.

Lemma set_options_gen_LJ b t fl : LJs t -> LJs (fst (set_options_gen b t fl)).
Proof.
  intros J. unfold set_options_gen. destruct (negb (x_priv (xopts t)) && of_priv fl); [|exact J].
  match goal with |- context [do_compile ?sm] => assert (Jm : LJs sm) end.
  { unfold LJs. eapply LJ_kl; [|exact J]. rewrite (same_but_kl no_tc _ _ (fun x => conj eq_refl eq_refl) (mark_all_same_but _ _)).
    destruct b; reflexivity. }
  match goal with |- context [do_compile ?sm] => pose proof (do_compile_LJ sm Jm) as J2; destruct (do_compile sm) as [s2 ok] end.
  cbn [fst] in J2. destruct ok; exact J2.
Qed.

Lemma step_LJ R s o : LJs s -> LJs (fst (step R s o)).
Proof.
  intros J. unfold step.
  assert (Hold : LJs (fst (finish o (attempt R (core s) o)))).
  { pose proof (attempt_LJ R (core s) o J) as J1.
    destruct (attempt R (core s) o) as [[mid dss] r]. cbn [fst] in J1. unfold finish.
    assert (Hr : LJs (erase (revert mid dss))) by (apply (revert_LJ mid dss J1)).
    destruct r; try exact Hr; try exact J1.
    destruct o; try destruct (explicit mid); exact J1. }
  destruct o; try exact Hold.
  - pose proof (set_options_gen_LJ false (core s) fl J) as J1. unfold set_options.
    destruct (set_options_gen false (core s) fl) as [s' ok]. exact J1.
Qed.

Lemma init_LJ expl : LJs (init expl).
Proof.
  unfold LJs, init. cbn [mods]. apply LJ_intro.
  - unfold keys, internal_mods. cbn. repeat constructor; cbn; intuition discriminate.
  - intros m Hin. cbn in Hin.
    repeat (destruct Hin as [<-|Hin]; [cbn; split; [intros _|reflexivity]; (split; [cbn; tauto|split; [reflexivity|]]);
      intros k' Hk' Fk'; cbn in Hk'; repeat (destruct Hk' as [<-|Hk']; [first [discriminate Fk'|cbn; lia]|]); destruct Hk'|]).
    destruct Hin.
Qed.

Lemma reachable_LJ R s : (exists expl ops, s = run R (init expl) ops) -> LJs s.
Proof.
  intros [expl [ops ->]]. unfold run. generalize (init_LJ expl). generalize (init expl).
  induction ops as [|o ops IH]; intros s0 J; cbn [fold_left]; [exact J|]. apply IH. apply step_LJ. exact J.
Qed.

(* ------------------------------------------------------------------------------------------------ *)
(* lys_unres_glob_revert: the loop over the created modules                                         *)
(* ------------------------------------------------------------------------------------------------ *)
Definition nrm_L (m : modl) : modl := set_latest false m.

Lemma with_mods_with_mods l l' t : with_mods l (with_mods l' t) = with_mods l t.
Proof. reflexivity. Qed.

Lemma remove_created : forall ks olds news t dss,
  mods t = olds ++ news -> Permutation ks (keys news) -> NoDup (keys (olds ++ news)) ->
  let r := fold_left rm_step ks (t, dss) in
  exists olds', fst r = with_mods olds' t /\ map nrm_L olds' = map nrm_L olds /\
                (forall x, ~ In x ks -> In x (concat dss) -> In x (concat (snd r))).
Proof.
  induction ks as [|k ks IH]; intros olds news t dss Hm Hp Hnd; cbn [fold_left].
  - cbn [fst snd]. apply Permutation_nil in Hp. destruct news; [|discriminate]. rewrite app_nil_r in Hm.
    exists olds. split; [rewrite <- Hm; destruct t; reflexivity|]. split; [reflexivity|intros x _ H; exact H].
  - assert (Hk : In k (keys news)) by (apply (Permutation_in _ Hp); left; reflexivity).
    assert (Hko : ~ In k (keys olds)).
    { unfold keys in *. rewrite map_app in Hnd. apply (NoDup_app_not_l _ _ k Hnd Hk). }
    destruct (rm_mod_app_new olds news k Hko Hk) as [news' [E P]].
    assert (Hp' : Permutation ks (keys news')).
    { apply (Permutation_cons_inv (a := k)). eapply perm_trans; [exact Hp|apply Permutation_sym; exact P]. }
    assert (Hnd' : NoDup (keys (olds ++ news'))).
    { unfold keys in *. rewrite map_app in *.
      assert (P2 : Permutation (map mkey olds ++ k :: map mkey news') (map mkey olds ++ map mkey news))
        by (apply Permutation_app_head; exact P).
      apply Permutation_sym in P2. pose proof (Permutation_NoDup P2 Hnd) as H. apply NoDup_remove_1 in H. exact H. }
    (* the list after this step: olds and news' up to latest flags *)
    assert (Hstep : exists olds1 news1, rm_step (t, dss) k = (with_mods (olds1 ++ news1) t, rm_from_depsets k dss) /\
                      map nrm_L olds1 = map nrm_L olds /\ keys olds1 = keys olds /\ keys news1 = keys news').
    { unfold rm_step. cbn [fst snd]. rewrite Hm, E.
      destruct (match find_mod k (olds ++ news) with Some m => m_latest m | None => false end).
      - destruct (newest (fst k) (olds ++ news')) as [ml|].
        + exists (upd (mkey ml) (set_latest true) olds), (upd (mkey ml) (set_latest true) news').
          rewrite upd_app. split; [reflexivity|]. split; [apply map_upd_inv; intros m; reflexivity|].
          split; apply keys_upd; reflexivity.
        + exists olds, news'. tauto.
      - exists olds, news'. tauto. }
    destruct Hstep as [olds1 [news1 [Es [En [Ek1 Ek2]]]]]. rewrite Es.
    assert (Hnd1 : NoDup (keys (olds1 ++ news1))).
    { rewrite keys_app, Ek1, Ek2, <- keys_app. exact Hnd'. }
    destruct (IH olds1 news1 (with_mods (olds1 ++ news1) t) (rm_from_depsets k dss) eq_refl
                (eq_ind_r (fun x => Permutation ks x) Hp' Ek2) Hnd1) as [olds' [A [B C]]].
    exists olds'. split; [rewrite A; reflexivity|]. split; [rewrite B; exact En|].
    intros x Hx Hin. apply C; [intros H; apply Hx; right; exact H|].
    apply rm_from_depsets_keeps; [intros Heq; apply Hx; left; symmetry; exact Heq|exact Hin].
Qed.

Lemma LJ_same_keys l l' :
  Forall2 (fun m m' => mkey m' = mkey m) l l' -> LJ l -> LJ l' -> Forall2 (fun m m' => m_latest m' = m_latest m) l l'.
Proof.
  intros F J J'.
  assert (Ek : keys l' = keys l).
  { unfold keys. clear -F. induction F as [|a b l l' H F IH]; cbn; [reflexivity|]. rewrite H, IH. reflexivity. }
  pose proof (Forall2_with_In_r _ _ _ (Forall2_with_In _ _ _ F)) as F2.
  eapply Forall2_impl; [|exact F2]. cbn. intros a b [Hb [Ha Hk]].
  pose proof (LJ_flag l a J Ha) as Fa. pose proof (LJ_flag l' b J' Hb) as Fb. rewrite Ek, Hk in Fb.
  assert (En : m_name b = m_name a) by (apply (f_equal fst Hk)). rewrite En in Fb.
  destruct (m_latest a), (m_latest b); try reflexivity.
  - apply Fb. apply Fa. reflexivity.
  - symmetry. apply Fa. apply Fb. reflexivity.
Qed.

Lemma nrm_L_qrel imp D a b b' : nrm_L b' = nrm_L b -> qrel imp D a b -> qrel imp D a b'.
Proof.
  intros E [R1 R2 R3 R4 R5 R6 R7 R8 R9 R10 R11].
  pose proof (f_equal mkey E) as E1. pose proof (f_equal m_imps E) as E2. pose proof (f_equal m_cfault E) as E3.
  pose proof (f_equal m_single E) as E4. pose proof (f_equal m_hasdep E) as E5. pose proof (f_equal m_impl E) as E6.
  pose proof (f_equal m_tc E) as E7. pose proof (f_equal m_comp E) as E8. pose proof (f_equal m_feats E) as E9.
  cbn in E1, E2, E3, E4, E5, E6, E7, E8, E9. change (mkey b' = mkey b) in E1.
  constructor; rewrite ?E1, ?E2, ?E3, ?E4, ?E5, ?E6, ?E7, ?E8, ?E9; assumption.
Qed.

Lemma Forall2_compose {A B} (R R' : A -> B -> Prop) (S : B -> B -> Prop) l l1 l2 :
  Forall2 R l l1 -> Forall2 S l1 l2 -> (forall a b c, R a b -> S b c -> R' a c) -> Forall2 R' l l2.
Proof.
  intros F. revert l2. induction F as [|a b l l1 H F IH]; intros l2 G HS; inversion G; subst; constructor.
  - eapply HS; eassumption.
  - apply IH; assumption.
Qed.


(* ------------------------------------------------------------------------------------------------ *)
(* the compilation of the failing call itself: the features of the module it was given may differ    *)
(* ------------------------------------------------------------------------------------------------ *)
(* the compiled schema of the old modules of a dep set would be what it was *)
Definition snap_ok (s t : state) (ds : list key) : Prop :=
  forall m0 m', In m0 (mods s) -> In m' (mods t) -> mkey m' = mkey m0 -> In (mkey m0) ds ->
    snapshot (mods t) m' = snapshot (mods s) m0.

Lemma snapshot_no_comp l a b : no_comp a = no_comp b -> snapshot l a = snapshot l b.
Proof.
  intros E. apply snapshot_ext; [exact (f_equal m_feats E)|exact (f_equal m_imps E)|].
  intros ik _. destruct (find_mod ik l); [reflexivity|exact I].
Qed.

Lemma depset_r_QI_sn s imp D ds t :
  wf_state s -> QI s imp D t -> snap_ok s t ds -> incl ds D ->
  QI s imp D (fst (depset_r ds t)) /\ same_but no_tc_comp t (fst (depset_r ds t)).
Proof.
  intros W Q SN Hd. unfold depset_r.
  pose proof (compile_mods_QI s imp D ds t [] Q Hd) as H. cbv zeta in H.
  destruct (compile_mods ds t []) as [[t1 done] ok]. cbn [fst snd] in H.
  destruct H as [Q1 [S1 [T1 [I1 [C1 _]]]]]; [intros k m []|].
  destruct (negb ok) eqn:Eok; [cbn [fst]; split; [exact Q1|apply no_comp_weaken; exact S1]|].
  destruct (existsb _ done); [cbn [fst]; split; [exact Q1|apply no_comp_weaken; exact S1]|].
  assert (Hdd : incl done D) by (intros x Hx; apply Hd; apply I1 in Hx; exact Hx).
  pose proof (prune_mods_QI s imp D done t1 Q1 Hdd T1) as H. cbv zeta in H.
  destruct (prune_mods done t1) as [t2 ok2]. cbn [fst snd] in H. destruct H as [Q2 [S2 P2]].
  assert (S12 : same_but no_comp t t2) by (eapply same_but_trans; eassumption).
  destruct (negb ok2) eqn:Eok2; [cbn [fst]; split; [exact Q2|apply no_comp_weaken; exact S12]|].
  apply negb_false_iff in Eok, Eok2. cbn [fst].
  rewrite (fold_upd_mods (set_tc false)) by reflexivity.
  split.
  2:{ eapply same_but_trans; [apply no_comp_weaken; exact S12|]. constructor; try reflexivity.
      cbn [with_mods mods]. rewrite map_map. apply map_ext. intros m. destruct (kmem (mkey m) ds); destruct m; reflexivity. }
  set (h := fun m => if kmem (mkey m) ds then set_tc false m else m).
  assert (Hhk : forall m, mkey (h m) = mkey m) by (intros m; unfold h; destruct (kmem (mkey m) ds); reflexivity).
  constructor; cbn [with_mods explicit creating implementing mods].
  - apply (qi_expl _ _ _ _ Q2).
  - rewrite map_length. apply (qi_len _ _ _ _ Q2).
  - unfold keys. rewrite map_map. rewrite (map_ext _ mkey Hhk). apply (qi_nodup _ _ _ _ Q2).
  - unfold olds_of. cbn [with_mods mods]. rewrite firstn_map. fold (olds_of s t2).
    apply Forall2_map_r_in; [apply (qi_olds _ _ _ _ Q2)|]. intros m0 m' H0 H' Hr. unfold h.
    destruct (kmem (mkey m') ds) eqn:Ek; [|exact Hr]. apply kmem_In in Ek.
    pose proof Hr as [R1 R2 R3 R4 R5 R6 R7 R8 R9 R10 R11]. constructor; cbn; try assumption; [discriminate|].
    destruct R10 as [Hc|[[Htc HD]|Hi]]; [left; exact Hc| |right; right; exact Hi].
    destruct (in_dec key_dec (mkey m0) imp) as [Hi|Hni]; [right; right; exact Hi|]. left.
    assert (Hin' : In m' (mods t2)) by (apply (In_olds s t2); exact H').
    assert (Fm : find_mod (mkey m') (mods t2) = Some m') by (apply find_mod_unique; [apply (qi_nodup _ _ _ _ Q2)|exact Hin'|reflexivity]).
    destruct (same_but_find no_comp t t2 (mkey m') m') as [mt [Ft Et]]; [intros x; destruct x; reflexivity|exact S12|exact Fm|].
    assert (Htct : m_tc mt = true) by (rewrite <- Htc; exact (eq_sym (f_equal m_tc Et))).
    pose proof (C1 Eok (mkey m') mt Ek Ft Htct) as Hdone.
    rewrite (P2 Eok2 (mkey m') m' Hdone Fm).
    destruct (same_but_snapshot t t2 m' (no_comp_weaken _ _ S12)) as [Es _]. rewrite Es.
    rewrite (snapshot_no_comp (mods t) m' mt Et).
    destruct (find_mod_In _ _ _ Ft) as [Hmt Kmt].
    rewrite (SN m0 mt H0 Hmt (eq_trans Kmt R1)) by (rewrite <- R1; exact Ek).
    assert (Him0 : m_impl m0 = true) by (destruct (R7 (R9 Htc)) as [E|E]; [exact E|contradiction]).
    destruct (wf_comp_impl _ _ (wfs_mods _ W m0 H0) Him0) as [E _]. symmetry. exact E.
Qed.

Lemma depset_r_QI_fail s imp D ds t :
  QI s imp D t -> incl ds D -> snd (depset_r ds t) = false -> QI s imp D (fst (depset_r ds t)).
Proof.
  intros Q Hd. unfold depset_r.
  pose proof (compile_mods_QI s imp D ds t [] Q Hd) as H. cbv zeta in H.
  destruct (compile_mods ds t []) as [[t1 done] ok]. cbn [fst snd] in H.
  destruct H as [Q1 [S1 [T1 [I1 _]]]]; [intros k m []|].
  destruct (negb ok); [intros _; exact Q1|]. destruct (existsb _ done); [intros _; exact Q1|].
  assert (Hdd : incl done D) by (intros x Hx; apply Hd; apply I1 in Hx; exact Hx).
  pose proof (prune_mods_QI s imp D done t1 Q1 Hdd T1) as H. cbv zeta in H.
  destruct (prune_mods done t1) as [t2 ok2]. cbn [fst snd] in H. destruct H as [Q2 _].
  destruct (negb ok2); [intros _; exact Q2|]. cbn [snd]. discriminate.
Qed.

(* the failing compilation: every dep set before the failing one keeps its compiled schemas *)
Lemma compile_all_QI_fail s imp D : wf_state s -> forall dss t,
  QI s imp D t -> (forall ds, In ds dss -> incl ds D) ->
  (forall ds t', In ds (removelast dss) -> QI s imp D t' -> same_but no_tc_comp t t' -> snap_ok s t' ds) ->
  snd (compile_all dss t) = false -> QI s imp D (fst (compile_all dss t)).
Proof.
  intros W. induction dss as [|ds dss IH]; intros t Q Hd Hsn; cbn [compile_all]; [discriminate|].
  destruct (negb (depset_check_features ds t)); [intros _; exact Q|].
  assert (Hds : incl ds D) by (apply Hd; left; reflexivity).
  pose proof (depset_r_QI_fail s imp D ds t Q Hds) as Hf.
  destruct (depset_r ds t) as [t1 ok] eqn:Er. cbn [fst snd] in Hf.
  destruct ok; cbn [negb]; [|intros _; apply Hf; reflexivity].
  destruct dss as [|ds2 dss']; [cbn; discriminate|].
  assert (SN : snap_ok s t ds) by (apply (Hsn ds t); [left; reflexivity|exact Q|apply same_but_refl]).
  destruct (depset_r_QI_sn s imp D ds t W Q SN Hds) as [Q1 S1]. rewrite Er in Q1, S1. cbn [fst] in Q1, S1.
  apply IH; [exact Q1|intros d Hin; apply Hd; right; exact Hin|].
  intros d t' Hin Q' S'. apply (Hsn d t'); [right; exact Hin|exact Q'|eapply same_but_trans; eassumption].
Qed.

(* modules that form a dep set of their own depend on no feature: their compiled schema is always the same *)
Lemma snapshot_all_ext l l' m m' :
  map f_name (m_feats m') = map f_name (m_feats m) -> m_imps m' = m_imps m ->
  (forall ik, In ik (m_imps m) ->
     match find_mod ik l, find_mod ik l' with
     | Some a, Some b => map f_name (m_feats b) = map f_name (m_feats a)
     | None, None => True
     | _, _ => False
     end) ->
  snapshot_all l' m' = snapshot_all l m.
Proof.
  intros Hf Hi Hfind. unfold snapshot_all. rewrite Hf, Hi. f_equal. f_equal.
  apply map_ext_in. intros [i ik] Hin. apply in_combine_r in Hin. cbn [fst snd]. specialize (Hfind ik Hin).
  destruct (find_mod ik l), (find_mod ik l'); try contradiction; [rewrite Hfind|]; reflexivity.
Qed.

Lemma concat_nil {A} (ll : list (list A)) : concat ll = [] -> forall x, In x ll -> x = [].
Proof.
  induction ll as [|a ll IH]; cbn [concat]; intros H x Hin; [destruct Hin|].
  apply app_eq_nil in H. destruct H as [Ha Hl]. destruct Hin as [<-|Hin]; [exact Ha|apply IH; assumption].
Qed.
Lemma concat_all_nil {A} (ll : list (list A)) : (forall x, In x ll -> x = []) -> concat ll = [].
Proof.
  induction ll as [|a ll IH]; intros H; [reflexivity|]. cbn [concat]. rewrite (H a (or_introl eq_refl)). apply IH.
  intros x Hx. apply H. right. exact Hx.
Qed.

Lemma snapshot_nil l m : snapshot_all l m = [] -> snapshot l m = [].
Proof.
  unfold snapshot_all, snapshot. intros H. apply app_eq_nil in H. destruct H as [H1 H2].
  apply map_eq_nil in H1. apply map_eq_nil in H1. rewrite H1. cbn [enabled_names filter map app].
  apply concat_all_nil. intros x Hx. apply in_map_iff in Hx. destruct Hx as [ik [<- Hik]].
  pose proof (concat_nil _ H2 _ (in_map _ _ ik Hik)) as E. cbn beta in E.
  destruct (find_mod (snd ik) l) as [im|]; [|reflexivity].
  apply map_eq_nil in E. apply map_eq_nil in E. rewrite E. reflexivity.
Qed.

Definition single_ds (t : state) (ds : list key) : Prop := forall x, In x ds -> is_single t x = true.

Lemma fdecl_names fs fs' : map fdecl fs' = map fdecl fs -> map f_name fs' = map f_name fs.
Proof.
  intros H. assert (E : forall l, map f_name l = map fst (map fdecl l)) by (intros l; rewrite map_map; reflexivity).
  rewrite E, H, <- E. reflexivity.
Qed.

Lemma old_snapshot_all s imp D t m0 m' :
  wf_state s -> QI s imp D t -> In m0 (mods s) -> qrel imp D m0 m' -> snapshot_all (mods t) m' = snapshot_all (mods s) m0.
Proof.
  intros W Q H0 Hr. apply snapshot_all_ext; [apply fdecl_names; apply (q_fdecl _ _ _ _ Hr)|apply (q_imps _ _ _ _ Hr)|].
  intros ik Hik. pose proof (wf_imps _ _ (wfs_mods _ W m0 H0) ik Hik) as Hin.
  destruct (find_mod_some_in ik (mods s) Hin) as [a Fa]. rewrite Fa.
  destruct (find_mod_Forall2 _ ik _ _ a (QI_keyed s imp D t Q) Fa) as [b [Fb Hrb]].
  rewrite (olds_news s t), find_mod_app, Fb. apply fdecl_names. apply (q_fdecl _ _ _ _ Hrb).
Qed.

Lemma plain_snap_ok s imp D t ds : wf_state s -> QI s imp D t -> single_ds t ds -> snap_ok s t ds.
Proof.
  intros W Q Hs m0 m' H0 H' Hk Hin.
  pose proof (partner (qrel imp D) s t m0 m' (QI_keyed s imp D t Q) (qi_nodup _ _ _ _ Q) H0 H' Hk) as Hr.
  assert (Hsm : m_single m0 = true).
  { rewrite <- (q_single _ _ _ _ Hr). specialize (Hs (mkey m0) Hin). unfold is_single in Hs.
    rewrite (find_mod_unique (mkey m0) (mods t) m' (qi_nodup _ _ _ _ Q) H' Hk) in Hs. exact Hs. }
  pose proof (wfs_plain _ W m0 H0 Hsm) as E0.
  rewrite (snapshot_nil _ _ E0). apply snapshot_nil. rewrite (old_snapshot_all s imp D t m0 m' W Q H0 Hr). exact E0.
Qed.

Lemma In_removelast {A} (l : list A) x : In x (removelast l) -> In x l.
Proof.
  induction l as [|a l IH]; cbn [removelast]; [tauto|]. destruct l as [|b l]; [intros []|].
  intros [<-|H]; [left; reflexivity|right; apply IH; exact H].
Qed.

Lemma create_single_shape s : forall fuel i cs main,
  (forall ds, In ds main -> single_ds s ds) -> forall ds, In ds (snd (create_single fuel s i cs main)) -> single_ds s ds.
Proof.
  induction fuel as [|fuel IH]; intros i cs main Hm; cbn [create_single snd]; [exact Hm|].
  destruct (nth_error cs i) as [k|]; [|exact Hm]. destruct (is_single s k) eqn:Es; [|apply IH; exact Hm].
  apply IH. intros ds Hin. apply in_app_or in Hin. destruct Hin as [Hin|[<-|[]]]; [apply Hm; exact Hin|].
  intros x [<-|[]]. exact Es.
Qed.

Lemma dep_sets_create_shape t k :
  forall ds, In ds (removelast (snd (dep_sets_create t (Some k)))) -> single_ds t ds.
Proof.
  unfold dep_sets_create. pose proof (create_single_shape t (S (2 * length (map mkey (mods t)))) 0 (map mkey (mods t)) []) as Hs.
  destruct (create_single _ t 0 _ []) as [cs1 main1]. cbn [snd] in Hs.
  assert (Hm : forall ds, In ds main1 -> single_ds t ds) by (apply Hs; intros ds []).
  destruct (negb (kmem k cs1)); [cbn [snd]; intros ds Hin; apply Hm; apply In_removelast; exact Hin|].
  destruct (length (map mkey (mods t))) as [|n] eqn:El; cbn [dep_sets_loop].
  - cbn [snd]. destruct cs1; cbn [snd]; try (intros ds Hin; apply Hm; apply In_removelast; exact Hin).
    destruct (dep_dfs _ t k _) as [[[cs2 ds0] aux] oof]. cbn [snd]. rewrite removelast_last. exact Hm.
  - destruct cs1; cbn [snd]; try (intros ds Hin; apply Hm; apply In_removelast; exact Hin).
    destruct (dep_dfs _ t k _) as [[[cs2 ds0] aux] oof]. cbn [snd]. rewrite removelast_last. exact Hm.
Qed.

(* ------------------------------------------------------------------------------------------------ *)
(* the remembered feature states                                                                    *)
(* ------------------------------------------------------------------------------------------------ *)
Lemma restore_bits_fdecl_id : forall fs' fs, map fdecl fs' = map fdecl fs -> restore_bits fs' (map f_on fs) = fs.
Proof.
  induction fs' as [|f' fs' IH]; intros [|f fs] H; cbn in H; try discriminate; [reflexivity|].
  inversion H as [[H1 H2 H3]]. cbn [map restore_bits]. rewrite (IH fs H3), H1, H2. destruct f; reflexivity.
Qed.
Lemma fdecl_restore_bits : forall fs bits, map fdecl (restore_bits fs bits) = map fdecl fs.
Proof.
  induction fs as [|f fs IH]; intros [|b bits]; cbn [restore_bits map]; try reflexivity. rewrite IH. reflexivity.
Qed.

Lemma restore_features_nil t : featsaved t = [] -> restore_features t = t.
Proof. intros H. unfold restore_features. rewrite H. reflexivity. Qed.
Lemma restore_features_one t k bits : featsaved t = [(k, bits)] ->
  restore_features t = upd_s k (fun m => set_feats (restore_bits (m_feats m) bits) m) t.
Proof. intros H. unfold restore_features. rewrite H. reflexivity. Qed.

Definition nrm_F (m : modl) : modl := set_feats [] m.

Lemma restore_features_same_but t : same_but nrm_F t (restore_features t).
Proof.
  unfold restore_features. generalize (rev (featsaved t)). intros l. revert t.
  induction l as [|e l IH]; intros t; cbn [fold_left]; [apply same_but_refl|].
  eapply same_but_trans; [|apply IH]. apply same_but_upd. intros m; reflexivity.
Qed.

Lemma qrel_set_feats imp D m m' fs : map fdecl fs = map fdecl (m_feats m') -> qrel imp D m m' -> qrel imp D m (set_feats fs m').
Proof.
  intros H [Q1 Q2 Q3 Q4 Q5 Q6 Q7 Q8 Q9 Q10 Q11]. constructor; cbn; try assumption. rewrite H. exact Q11.
Qed.

Lemma QI_restore s imp D t : QI s imp D t -> QI s imp D (restore_features t).
Proof.
  unfold restore_features. generalize (rev (featsaved t)). intros l. revert t.
  induction l as [|e l IH]; intros t Q; cbn [fold_left]; [exact Q|]. apply IH.
  apply QI_upd; [exact Q|reflexivity|]. intros m m' _ _ Hr. apply qrel_set_feats; [apply fdecl_restore_bits|exact Hr].
Qed.

Lemma Forall2_firstn {A B} (R : A -> B -> Prop) n : forall l l', Forall2 R l l' -> Forall2 R (firstn n l) (firstn n l').
Proof.
  induction n as [|n IH]; intros l l' F; [constructor|]. destruct F; [constructor|]. cbn [firstn]. constructor; [assumption|apply IH; assumption].
Qed.

(* the feature states of the old modules after the restore: what they were before the operation.
   t1 = end of the parse phase, k = the module the operation was given (m in t1), mid = where it failed *)
Definition feats_but (k : key) (x x' : modl) : Prop :=
  mkey x' = mkey x /\ (mkey x <> k -> m_feats x' = m_feats x) /\ map fdecl (m_feats x') = map fdecl (m_feats x).

Definition ff (x : modl) : key * list feat := (mkey x, m_feats x).

Lemma FE_of_map s t : map ff (olds_of s t) = map ff (mods s) -> FE s t.
Proof.
  intros E. unfold FE. apply Forall2_map_eq in E. eapply Forall2_impl; [|exact E]. cbn.
  intros a b H. split; [exact (f_equal fst H)|exact (f_equal snd H)].
Qed.
Lemma map_of_FE s t : FE s t -> map ff (olds_of s t) = map ff (mods s).
Proof.
  intros F. apply Forall2_map_eq. eapply Forall2_impl; [|exact F]. cbn. intros a b [H1 H2]. unfold ff. congruence.
Qed.

Lemma PI_FE' s t : PI s t -> FE s t.
Proof.
  intros P. pose proof (map_eq_Forall2 _ _ _ (pi_olds _ _ P)) as F. eapply Forall2_impl; [|exact F]. cbn.
  intros a b E. apply clr_flags_fields in E. tauto.
Qed.

Lemma restore_map l k m bits : NoDup (keys l) -> find_mod k l = Some m -> bits = map f_on (m_feats m) ->
  forall l0 l', Forall2 (fun x x' => In x l /\ feats_but k x x') l0 l' ->
  map ff (upd k (fun x => set_feats (restore_bits (m_feats x) bits) x) l') = map ff l0.
Proof.
  intros Hnd Fm -> l0 l' F. induction F as [|x x' l1 l1' [Hin [K [Hne Hfd]]] F IH]; [reflexivity|].
  cbn [upd map]. fold (upd k (fun x0 => set_feats (restore_bits (m_feats x0) (map f_on (m_feats m))) x0) l1'). rewrite IH. f_equal.
  destruct (key_eqb (mkey x') k) eqn:E.
  - apply key_eqb_eq in E. assert (x = m) by (eapply find_mod_is; [exact Hnd|exact Fm|exact Hin|congruence]). subst x.
    unfold ff. f_equal; [exact K|]. apply restore_bits_fdecl_id. exact Hfd.
  - apply key_eqb_neq in E. unfold ff. rewrite K, Hne by congruence. reflexivity.
Qed.

Lemma restore_FE s t1 mid k m :
  PI s t1 -> find_mod k (mods t1) = Some m -> Forall2 (feats_but k) (mods t1) (mods mid) ->
  (featsaved mid = [] -> map ff (mods mid) = map ff (mods t1)) ->
  (featsaved mid = [] \/ featsaved mid = [(k, map f_on (m_feats m))]) ->
  FE s (restore_features mid).
Proof.
  intros P Fm FB Hsame Hsv. apply FE_of_map. rewrite <- (map_of_FE s t1 (PI_FE' s t1 P)).
  unfold olds_of. rewrite <- !firstn_map. f_equal.
  destruct Hsv as [E|E].
  - rewrite (restore_features_nil mid E). apply Hsame. exact E.
  - rewrite (restore_features_one mid k _ E). cbn [upd_s with_mods mods].
    apply (restore_map (mods t1) k m _ (pi_nodup _ _ P) Fm eq_refl (mods t1)). apply Forall2_with_In. exact FB.
Qed.

Lemma revert_restores s imp dss mid0 :
  wf_state s -> QI s imp (concat dss) mid0 -> FE s (restore_features mid0) -> LJs s -> LJs mid0 ->
  implementing mid0 = imp -> creating mid0 = keys (news_of s mid0) -> (imp = [] -> featsaved mid0 = [] -> dss = []) ->
  Forall2 frel (mods s) (mods (erase (revert mid0 dss))).
Proof.
  intros W Q0 F Js Jm0 Himp0 Hcr0 Hnil0.
  unfold revert. pose proof (restore_features_same_but mid0) as Sr.
  pose proof (QI_restore s imp (concat dss) mid0 Q0) as Q. set (mid := restore_features mid0) in *.
  assert (Jm : LJs mid) by (unfold LJs; eapply LJ_kl; [apply restore_features_kl|exact Jm0]).
  assert (Himp : implementing mid = imp) by (rewrite (sb_implementing _ _ _ Sr); exact Himp0).
  assert (Hfsv : featsaved mid = featsaved mid0) by apply (sb_featsaved _ _ _ Sr).
  assert (Hcr : creating mid = keys (news_of s mid)).
  { rewrite (sb_creating _ _ _ Sr), Hcr0. unfold news_of, keys. rewrite <- !skipn_map. f_equal.
    symmetry. apply (fe_keys _ _ (same_but_frame nrm_F mid0 mid (fun m => eq_refl) Sr)). }
  assert (Hnil : imp = [] -> featsaved mid = [] -> dss = []) by (rewrite Hfsv; exact Hnil0).
  pose proof (qi_nodup _ _ _ _ Q) as Hnd. pose proof (qi_len _ _ _ _ Q) as Hlen.
  rewrite Himp.
  change (fun s0 k => upd_s k (fun m => set_tc false (set_comp None (set_impl false m))) s0)
    with (fun s0 k => upd_s k unimpl s0).
  rewrite (fold_upd_mods unimpl) by reflexivity.
  set (h1 := fun m => if kmem (mkey m) imp then unimpl m else m).
  assert (Hh1k : forall m, mkey (h1 m) = mkey m) by (intros m; unfold h1; destruct (kmem (mkey m) imp); reflexivity).
  set (s1 := with_mods (map h1 (mods mid)) mid).
  assert (J1 : LJs s1).
  { unfold LJs, s1. cbn [with_mods mods]. eapply LJ_kl; [|exact Jm]. unfold kl. rewrite map_map. apply map_ext.
    intros m. unfold h1. destruct (kmem (mkey m) imp); reflexivity. }
  assert (Hm1 : mods s1 = map h1 (olds_of s mid) ++ map h1 (news_of s mid)).
  { unfold s1. cbn [with_mods mods]. rewrite (olds_news s mid) at 1. apply map_app. }
  assert (Hk1 : keys (map h1 (news_of s mid)) = keys (news_of s mid)).
  { unfold keys. rewrite map_map. apply map_ext. exact Hh1k. }
  assert (Hko : keys (map h1 (olds_of s mid)) = keys (olds_of s mid)).
  { unfold keys. rewrite map_map. apply map_ext. exact Hh1k. }
  assert (Hnd1 : NoDup (keys (map h1 (olds_of s mid) ++ map h1 (news_of s mid)))).
  { unfold keys in *. rewrite map_app, Hk1, Hko, <- map_app, <- (olds_news s mid). exact Hnd. }
  assert (Hperm : Permutation (creating s1) (keys (map h1 (news_of s mid)))).
  { unfold s1. cbn [with_mods creating]. rewrite Hcr, Hk1. apply Permutation_refl. }
  pose proof (remove_created (creating s1) (map h1 (olds_of s mid)) (map h1 (news_of s mid)) s1 dss Hm1 Hperm Hnd1) as R.
  pose proof (fold_rm_step_LJ (creating s1) s1 dss J1) as J2.
  cbv zeta in R. destruct (fold_left rm_step (creating s1) (s1, dss)) as [s2 dss2]. cbn [fst snd] in R, J2.
  destruct R as [olds' [Es2 [Eol Hkeep]]]. subst s2.
  set (s2 := with_mods olds' s1) in *.
  assert (FL : Forall2 (fun b b' => nrm_L b' = nrm_L b) (map h1 (olds_of s mid)) olds') by (apply Forall2_map_eq; exact Eol).
  assert (Hko' : keys olds' = keys (olds_of s mid)).
  { rewrite <- Hko. unfold keys. assert (G : forall l, map mkey l = map mkey (map nrm_L l)) by (intros l; rewrite map_map; reflexivity).
    rewrite G, Eol, <- G. reflexivity. }
  (* the pairs *)
  pose proof (Forall2_with_In _ _ _ (Forall2_conj _ _ _ _ (qi_olds _ _ _ _ Q) F)) as FA.
  assert (Hlen2 : length (mods s2) = length (mods s)).
  { unfold s2. cbn [with_mods mods]. rewrite <- (Forall2_length' _ _ _ FL), map_length. symmetry.
    apply (Forall2_length' _ _ _ (qi_olds _ _ _ _ Q)). }
  assert (Holds2 : olds_of s s2 = mods s2) by (unfold olds_of; rewrite <- Hlen2; apply firstn_all).
  assert (Hnew : forall m0, In m0 (mods s) -> ~ In (mkey m0) (creating s1)).
  { intros m0 H0. unfold s1. cbn [with_mods creating]. rewrite Hcr. rewrite (olds_news s mid) in Hnd.
    unfold keys in Hnd. rewrite map_app in Hnd. intros Hin. apply (NoDup_app_not_l _ _ _ Hnd Hin).
    fold (keys (olds_of s mid)). rewrite (keys_olds_Q s imp _ mid Q). apply in_map. exact H0. }
  set (U := fun m0 m'' : modl => In m0 (mods s) /\ qrel [] (concat dss2) m0 m'' /\ m_feats m'' = m_feats m0 /\
                                (imp = [] -> featsaved mid = [] -> m_comp m'' = m_comp m0)).
  assert (FU : Forall2 U (mods s) (mods s2)).
  { unfold s2. cbn [with_mods mods].
    apply (Forall2_compose U U (fun b b' => nrm_L b' = nrm_L b) (mods s) (map h1 (olds_of s mid)) olds'); [|exact FL|].
    2:{ intros a b c [H0 [Hr [Hf Hc]]] E. split; [exact H0|]. split; [apply (nrm_L_qrel _ _ a b c E Hr)|].
        pose proof (f_equal m_feats E) as E1. pose proof (f_equal m_comp E) as E2. cbn in E1, E2.
        split; [rewrite E1; exact Hf|rewrite E2; exact Hc]. }
    apply (Forall2_map_r_gen _ U h1 _ _ FA). unfold U. cbn.
    intros m0 m' [H0 [Hr [_ Hf]]]. pose proof (wfs_mods _ W m0 H0) as Wm.
    destruct Hr as [R1 R2 R3 R4 R5 R6 R7 R8 R9 R10 R11]. unfold h1.
    destruct (kmem (mkey m') imp) eqn:Ek.
    - apply kmem_In in Ek. rewrite R1 in Ek. pose proof (R8 Ek) as Hi0.
      split; [exact H0|]. split; [|split; [exact Hf|]].
      + constructor; cbn; try assumption; try discriminate.
        * intros H. congruence.
        * intros [].
        * left. symmetry. apply (wf_comp_nimpl _ _ Wm Hi0).
      + intros _ _. cbn. symmetry. apply (wf_comp_nimpl _ _ Wm Hi0).
    - apply kmem_false in Ek. rewrite R1 in Ek.
      split; [exact H0|]. split; [|split; [exact Hf|]].
      + constructor; try assumption.
        * intros H. destruct (R7 H) as [H'|H']; [left; exact H'|contradiction].
        * intros [].
        * destruct R10 as [H|[[H1 H2]|H]]; [left; exact H| |contradiction].
          right. left. split; [exact H1|]. apply Hkeep; [apply Hnew; exact H0|exact H2].
      + intros Hnl Hfn. destruct R10 as [H|[[H1 H2]|H]]; [exact H| |contradiction].
        rewrite (Hnil Hnl Hfn) in H2. destruct H2. }
  unfold U in FU. clear U.
  assert (Q2 : QI s [] (concat dss2) s2).
  { constructor.
    - apply (qi_expl _ _ _ _ Q).
    - rewrite Hlen2. apply le_n.
    - unfold s2. cbn [with_mods mods]. rewrite Hko', (keys_olds_Q s imp _ mid Q). apply (wfs_nodup _ W).
    - rewrite Holds2. eapply Forall2_impl; [|exact FU]. cbn. tauto. }
  assert (F2 : FE s s2).
  { unfold FE. rewrite Holds2. eapply Forall2_impl; [|exact FU]. cbn. intros a b [_ [Hr [Hf _]]].
    split; [apply (q_key _ _ _ _ Hr)|exact Hf]. }
  assert (Himp2 : implementing s2 = imp) by exact Himp.
  assert (Hfs2 : featsaved s2 = featsaved mid) by reflexivity.
  rewrite Himp2, Hfs2.
  (* the recompilation of the previous context *)
  assert (Hrec : Forall2 frel (mods s) (mods (erase (fst (compile_all dss2 (mark_all dss2 s2)))))).
  { pose proof (mark_all_QI s [] (concat dss2) dss2 s2 Q2) as Q2m.
    pose proof (no_tc_weaken _ _ (mark_all_same_but dss2 s2)) as S2m.
    pose proof (FE_same_but s s2 (mark_all dss2 s2) S2m F2) as F2m.
    assert (J2m : LJs (mark_all dss2 s2)).
    { unfold LJs. eapply LJ_kl; [|exact J2]. apply (same_but_kl no_tc_comp); [intros m; split; reflexivity|exact S2m]. }
    assert (Hlen2m : length (mods (mark_all dss2 s2)) = length (mods s)).
    { rewrite <- Hlen2. pose proof (f_equal (@length _) (sb_mods _ _ _ S2m)) as E. rewrite !map_length in E. exact E. }
    assert (Holds2m : olds_of s (mark_all dss2 s2) = mods (mark_all dss2 s2)) by (unfold olds_of; rewrite <- Hlen2m; apply firstn_all).
    clear J2. set (s2m := mark_all dss2 s2) in *.
    assert (H2 : healthy s2m).
    { pose proof (Forall2_with_In _ _ _ (Forall2_conj _ _ _ _ (qi_olds _ _ _ _ Q2m) F2m)) as FUm. rewrite Holds2m in FUm.
      intros m'' Hin Htc. destruct (Forall2_In_r _ _ _ _ FUm Hin) as [m0 [_ [H0 [Hr [_ Hf]]]]].
      destruct Hr as [R1 R2 R3 R4 R5 R6 R7 R8 R9 R10 R11].
      rewrite (compiles_ok_ext m0 m'' Hf R3). destruct (R7 (R9 Htc)) as [Hi|[]].
      apply (wf_comp_impl _ _ (wfs_mods _ W m0 H0) Hi). }
    assert (Hd2 : forall ds, In ds dss2 -> incl ds (concat dss2)).
    { intros ds Hin x Hx. apply in_concat. exists ds. tauto. }
    destruct (compile_all_QI s [] (concat dss2) W dss2 s2m Q2m F2m Hd2) as [Q3 S3].
    destruct (compile_all_ok s (concat dss2) W dss2 s2m Q2m F2m H2 Hd2) as [_ [_ T3]].
    set (s3 := fst (compile_all dss2 s2m)) in *.
    assert (Hlen3 : length (mods s3) = length (mods s)).
    { rewrite <- Hlen2m. pose proof (f_equal (@length _) (sb_mods _ _ _ S3)) as E. rewrite !map_length in E. exact E. }
    assert (Holds3 : olds_of s s3 = mods s3) by (unfold olds_of; rewrite <- Hlen3; apply firstn_all).
    pose proof (FE_same_but s s2m s3 S3 F2m) as F3.
    assert (J3 : LJs s3).
    { unfold LJs. eapply LJ_kl; [|exact J2m]. apply (same_but_kl no_tc_comp); [intros m; split; reflexivity|exact S3]. }
    cbn [erase with_featsaved with_implementing with_creating mods].
    assert (FK : Forall2 (fun m m' => mkey m' = mkey m) (mods s) (mods s3)).
    { rewrite <- Holds3. eapply Forall2_impl; [|exact (qi_olds _ _ _ _ Q3)]. intros a b Hr. apply (q_key _ _ _ _ Hr). }
    pose proof (LJ_same_keys _ _ FK Js J3) as FLt.
    pose proof (Forall2_with_In _ _ _ (Forall2_conj _ _ _ _ (qi_olds _ _ _ _ Q3) F3)) as FB.
    rewrite Holds3 in FB. pose proof (Forall2_with_In_r _ _ _ (Forall2_conj _ _ _ _ FB FLt)) as FB'.
    eapply Forall2_impl; [|exact FB']. cbn. intros a b [Hb [[H0 [Hr [_ Hf]]] Hl]].
    destruct Hr as [R1 R2 R3 R4 R5 R6 R7 R8 R9 R10 R11]. constructor; try assumption.
    + destruct (m_impl a) eqn:Ea; [apply R6; reflexivity|]. destruct (m_impl b) eqn:Eb; [|reflexivity].
      destruct (R7 eq_refl) as [H|[]]. discriminate.
    + destruct R10 as [H|[[H1 H2']|[]]]; [exact H|].
      assert (Fb : find_mod (mkey b) (mods s3) = Some b)
        by (apply find_mod_unique; [apply (qi_nodup _ _ _ _ Q3)|exact Hb|reflexivity]).
      rewrite R1 in Fb. rewrite (T3 (mkey a) b H2' Fb) in H1. discriminate. }
  destruct imp as [|k0 imp']; [destruct (featsaved mid) as [|e0 fsv'] eqn:Efs|]; try exact Hrec.
  (* nothing was being implemented and no feature was touched: nothing is recompiled *)
  cbn [erase with_featsaved with_implementing with_creating mods].
  assert (FK : Forall2 (fun m m' => mkey m' = mkey m) (mods s) (mods s2)).
  { eapply Forall2_impl; [|exact FU]. cbn. intros a b [_ [Hr _]]. apply (q_key _ _ _ _ Hr). }
  pose proof (LJ_same_keys _ _ FK Js J2) as FLt.
  eapply Forall2_impl; [|exact (Forall2_conj _ _ _ _ FU FLt)]. cbn. intros a b [[_ [Hr [Hf Hc]]] Hl].
  destruct Hr as [R1 R2 R3 R4 R5 R6 R7 R8 R9 R10 R11]. constructor; try assumption; [|apply Hc; reflexivity].
  destruct (m_impl a) eqn:Ea; [apply R6; reflexivity|]. destruct (m_impl b) eqn:Eb; [|reflexivity].
  destruct (R7 eq_refl) as [H|[]]. discriminate.
Qed.

(* ------------------------------------------------------------------------------------------------ *)
(* the main theorem                                                                                 *)
(* ------------------------------------------------------------------------------------------------ *)
Lemma PI_frame s t1 mid : PI s t1 -> frame_eq t1 mid ->
  NoDup (keys (mods mid)) /\ keys (olds_of s mid) = keys (mods s) /\ creating mid = keys (news_of s mid).
Proof.
  intros P [E1 Ex E2 E3]. split; [rewrite E3; apply (pi_nodup _ _ P)|]. split.
  - unfold olds_of, keys. rewrite <- firstn_map. fold (keys (mods mid)). rewrite E3. unfold keys. rewrite firstn_map.
    apply (keys_olds s t1 P).
  - rewrite E2, (pi_creating _ _ P). unfold news_of, keys. rewrite <- !skipn_map. fold (keys (mods mid)). rewrite E3. reflexivity.
Qed.

Lemma PI_none_tc s t : wf_state s -> PI s t -> none_tc t.
Proof.
  intros W P m Hin. rewrite (olds_news s t) in Hin. apply in_app_or in Hin. destruct Hin as [Hin|Hin].
  - pose proof (map_eq_Forall2 _ _ _ (pi_olds _ _ P)) as F.
    destruct (Forall2_In_r _ _ _ _ (Forall2_with_In _ _ _ F) Hin) as [m0 [_ [H0 E]]].
    apply clr_flags_fields in E. destruct E as [_ [_ [_ [_ [_ [_ [E _]]]]]]]. rewrite E. apply (wf_tc _ _ (wfs_mods _ W m0 H0)).
  - pose proof (pi_news _ _ P) as Fn. rewrite Forall_forall in Fn. apply (Fn m Hin).
Qed.

Lemma set_features_fdecl fs sel fs' : set_features fs sel = SfOk fs' -> map fdecl fs' = map fdecl fs.
Proof.
  unfold set_features. destruct sel as [| |l].
  - discriminate.
  - destruct (forallb f_on fs); [discriminate|]. intros H. inversion H. rewrite map_map. reflexivity.
  - destruct l as [|n l].
    + destruct (existsb f_on fs); [|discriminate]. intros H. inversion H. rewrite map_map. reflexivity.
    + destruct (negb _); [discriminate|]. destruct (forallb _ fs); [discriminate|]. intros H. inversion H. rewrite map_map. reflexivity.
Qed.

Lemma QI_mods_eq s imp D t t' : mods t' = mods t -> explicit t' = explicit t -> QI s imp D t -> QI s imp D t'.
Proof.
  intros Em Ee [Q1 Q2 Q3 Q4]. constructor; unfold olds_of in *; rewrite ?Em, ?Ee; assumption.
Qed.

Lemma saved_explicit t k sel m : explicit (saved t k sel m) = explicit t.
Proof. unfold saved, feat_backup. destruct sel; reflexivity. Qed.
Lemma saved_featsaved t k sel m : featsaved t = [] ->
  (sel = FNull /\ featsaved (saved t k sel m) = []) \/ (sel <> FNull /\ featsaved (saved t k sel m) = [(k, map f_on (m_feats m))]).
Proof. intros H. unfold saved, feat_backup. destruct sel; cbn; rewrite ?H; [left; tauto|right; split; [discriminate|reflexivity]..]. Qed.

Lemma Forall2_refl_In {A} (l : list A) : Forall2 (fun x x' => In x l /\ x' = x) l l.
Proof.
  apply Forall2_with_In. induction l; constructor; [reflexivity|assumption].
Qed.

(* the features after lys_set_features and the rest of the call: only those of the module it was given may differ *)
Lemma feats_chain t1 k m fs g t2 mid :
  NoDup (keys (mods t1)) -> find_mod k (mods t1) = Some m ->
  (forall x, mkey (g x) = mkey x /\ m_feats (g x) = fs) -> map fdecl fs = map fdecl (m_feats m) ->
  mods t2 = upd k g (mods t1) -> same_but no_tc_comp t2 mid ->
  Forall2 (feats_but k) (mods t1) (mods mid) /\ (fs = m_feats m -> map ff (mods mid) = map ff (mods t1)).
Proof.
  intros Hnd Fm Hg Hfd E2 S.
  assert (Eff : map ff (mods mid) = map ff (mods t2)).
  { assert (G : forall l, map ff l = map ff (map no_tc_comp l)) by (intros l; rewrite map_map; apply map_ext; intros x; destruct x; reflexivity).
    rewrite G, (sb_mods _ _ _ S), <- G. reflexivity. }
  assert (F12 : Forall2 (fun x x2 => feats_but k x x2 /\ (fs = m_feats m -> ff x2 = ff x)) (mods t1) (mods t2)).
  { rewrite E2. pose proof (Forall2_refl_In (mods t1)) as F0.
    unfold upd. apply (Forall2_map_r_gen _ _ _ _ _ F0). cbn. intros x x' [Hin ->].
    destruct (key_eqb (mkey x) k) eqn:E.
    - apply key_eqb_eq in E. assert (x = m) by (eapply find_mod_is; eassumption). subst x.
      destruct (Hg m) as [G1 G2]. split; [split; [exact G1|split; [intros H; contradiction|rewrite G2; exact Hfd]]|].
      intros Hfs. unfold ff. rewrite G1, G2, Hfs. reflexivity.
    - split; [split; [reflexivity|split; [reflexivity|reflexivity]]|reflexivity]. }
  assert (F2m : Forall2 (fun x2 x' => ff x' = ff x2) (mods t2) (mods mid)) by (apply Forall2_map_eq; exact Eff).
  split.
  - eapply (Forall2_compose _ _ _ _ _ _ F12 F2m). cbn. intros a b c [[K [Hne Hfd']] _] E.
    pose proof (f_equal fst E) as E1. pose proof (f_equal snd E) as E3. cbn in E1, E3.
    split; [congruence|]. split; [intros H; rewrite E3; apply Hne; exact H|rewrite E3; exact Hfd'].
  - intros Hfs. rewrite Eff. apply Forall2_map_eq. eapply Forall2_impl; [|exact F12]. cbn. intros a b [_ H]. apply H. exact Hfs.
Qed.

Lemma single_ds_same t t' ds : same_but no_tc_comp t t' -> single_ds t ds -> single_ds t' ds.
Proof.
  intros S H x Hx. specialize (H x Hx). unfold is_single in *.
  destruct (find_mod x (mods t')) as [m'|] eqn:F'.
  - destruct (same_but_find no_tc_comp t t' x m' (fun y => eq_refl) S F') as [m [F E]]. rewrite F in H.
    rewrite <- H. exact (f_equal m_single E).
  - destruct (find_mod x (mods t)) as [m|] eqn:F; [|exact H].
    destruct (same_but_find_l no_tc_comp t t' x m (fun y => eq_refl) S F) as [m' [F2 _]]. congruence.
Qed.

(* dep sets and compilation after a successful _lys_set_implemented, failing *)
Lemma dc_fail_QI s imp t2 k mid dss :
  wf_state s -> QI s imp [] t2 -> dc t2 k = (mid, dss, false) ->
  QI s imp (concat dss) mid /\ same_but no_tc_comp t2 mid.
Proof.
  intros W Q2 E. pose proof (dc_same_but t2 k) as S. rewrite E in S. cbn [fst] in S. split; [|exact S].
  unfold dc in E. destruct (dep_sets_create_QI s imp [] t2 (Some k) Q2) as [Q3 S3].
  pose proof (dep_sets_create_shape t2 k) as Hshape.
  destruct (dep_sets_create t2 (Some k)) as [t3 dss3]. cbn [fst snd] in Q3, S3, Hshape.
  assert (Hd3 : forall ds, In ds dss3 -> incl ds (concat dss3)).
  { intros ds Hin x Hx. apply in_concat. exists ds. tauto. }
  assert (Q3' : QI s imp (concat dss3) t3) by (eapply QI_mono_D; [exact Q3|intros x []]).
  pose proof (compile_all_QI_fail s imp (concat dss3) W dss3 t3 Q3' Hd3) as Hc.
  destruct (compile_all dss3 t3) as [t4 ok4]. inversion E; subst t4 dss3 ok4. cbn [fst snd] in Hc.
  apply Hc; [|reflexivity]. intros ds t' Hin Q' S'.
  apply (plain_snap_ok s imp (concat dss) t' ds W Q').
  apply (single_ds_same t3 t' ds S'). apply (single_ds_same t2 t3 ds (no_tc_weaken _ _ S3)). apply Hshape. exact Hin.
Qed.

Lemma none_tc_mods t t' : mods t' = mods t -> none_tc t -> none_tc t'.
Proof. intros E H m Hm. apply H. rewrite <- E. exact Hm. Qed.

(* implement_and_compile from the end of the parse phase, failing *)
Lemma iac_restores s t1 k sel mid dss :
  wf_state s -> PI s t1 -> implement_and_compile t1 k sel = (mid, dss, false) -> LJs s -> LJs mid ->
  Forall2 frel (mods s) (mods (erase (revert mid dss))).
Proof.
  intros W P E Js Jm.
  pose proof (iac_frame t1 k sel) as Fr. rewrite E in Fr. cbn [fst] in Fr.
  destruct (PI_frame s t1 mid P Fr) as [Hnd [Hko Hcr]].
  pose proof (PI_QI s t1 W P) as Q1. pose proof (pi_fsaved _ _ P) as Hf1. pose proof (pi_impl _ _ P) as Hi1.
  rewrite iac_unfold in E.
  destruct (set_implemented_cases t1 k sel) as [Fn|m Fm|m Fm|m Fm|m fs Fm Hi Hs|m fs Fm Hi Hs]; cbn [negb] in E.
  - (* the module is not there (does not happen) *)
    inversion E; subst mid dss.
    apply (revert_restores s [] [] t1 W Q1); [|exact Js|exact Jm|exact Hi1|exact Hcr|reflexivity].
    rewrite (restore_features_nil t1 Hf1). apply PI_FE'. exact P.
  - (* another revision is implemented: nothing was touched after the parse phase *)
    inversion E; subst mid dss.
    apply (revert_restores s [] [] t1 W Q1); [|exact Js|exact Jm|exact Hi1|exact Hcr|reflexivity].
    rewrite (restore_features_nil t1 Hf1). apply PI_FE'. exact P.
  - (* _lys_set_implemented failed: nothing was touched after the parse phase *)
    inversion E; subst mid dss. set (t' := saved t1 k sel m) in *.
    assert (Q' : QI s [] [] t') by (apply (QI_mods_eq s [] [] t1 t' (mods_saved _ _ _ _) (saved_explicit _ _ _ _) Q1)).
    apply (revert_restores s [] [] t' W Q'); [|exact Js|exact Jm|unfold t'; rewrite implementing_saved; exact Hi1|exact Hcr|reflexivity].
    apply (restore_FE s t1 t' k m P Fm).
    + unfold t'. rewrite mods_saved. eapply Forall2_impl; [|apply (Forall2_refl_In (mods t1))]. cbn.
      intros a b [_ ->]. split; [reflexivity|split; reflexivity].
    + intros _. unfold t'. rewrite mods_saved. reflexivity.
    + destruct (saved_featsaved t1 k sel m Hf1) as [[_ H]|[_ H]]; [left|right]; exact H.
  - (* no change: nothing is marked, the compilation cannot fail *)
    exfalso. set (t' := saved t1 k sel m) in *. destruct (explicit t'); [discriminate E|]. unfold dc in E.
    assert (N' : none_tc t') by (apply (none_tc_mods t1 t' (mods_saved _ _ _ _)); apply (PI_none_tc s t1 W P)).
    pose proof (dep_sets_create_none t' (Some k) N') as N2.
    destruct (dep_sets_create t' (Some k)) as [s2 dss2]. cbn [fst] in N2.
    destruct (compile_all_none dss2 s2 N2) as [Ok _]. destruct (compile_all dss2 s2) as [s3 ok3]. cbn [snd] in Ok.
    inversion E. congruence.
  - (* the features of an implemented module were changed and the compilation failed *)
    set (t' := saved t1 k sel m) in *.
    assert (Q' : QI s [] [] t') by (apply (QI_mods_eq s [] [] t1 t' (mods_saved _ _ _ _) (saved_explicit _ _ _ _) Q1)).
    assert (Fm' : find_mod k (mods t') = Some m) by (unfold t'; rewrite mods_saved; exact Fm).
    pose proof (set_features_fdecl _ _ _ Hs) as Hfd.
    set (t2 := add_ev EvChange (upd_s k (fun m0 => set_tc true (set_feats fs m0)) t')) in *.
    assert (Q2 : QI s [] [] t2).
    { unfold t2. apply QI_add_ev. apply QI_upd; [exact Q'|reflexivity|]. intros a b Hin Hk Hr.
      assert (b = m) by (eapply find_mod_is; [apply (qi_nodup _ _ _ _ Q')|exact Fm'|exact Hin|exact Hk]). subst b.
      apply qrel_set_tc_true; [exact Hi|]. apply qrel_set_feats; [exact Hfd|exact Hr]. }
    destruct (explicit t2); [discriminate E|].
    destruct (dc_fail_QI s [] t2 k mid dss W Q2 E) as [Qm Sm].
    assert (Hsel : sel <> FNull) by (intros ->; discriminate Hs).
    assert (Hfsm : featsaved mid = [(k, map f_on (m_feats m))]).
    { rewrite (sb_featsaved _ _ _ Sm). unfold t2. cbn [add_ev upd_s with_mods featsaved].
      destruct (saved_featsaved t1 k sel m Hf1) as [[H _]|[_ H]]; [contradiction|exact H]. }
    destruct (feats_chain t1 k m fs (fun m0 => set_tc true (set_feats fs m0)) t2 mid (pi_nodup _ _ P) Fm
                (fun x => conj eq_refl eq_refl) Hfd) as [FB _]; [unfold t2; cbn [add_ev upd_s with_mods mods]; unfold t'; rewrite mods_saved; reflexivity|exact Sm|].
    apply (revert_restores s [] dss mid W Qm); [|exact Js|exact Jm| |exact Hcr|].
    + apply (restore_FE s t1 mid k m P Fm FB); [rewrite Hfsm; discriminate|right; exact Hfsm].
    + rewrite (sb_implementing _ _ _ Sm). unfold t2. cbn [add_ev upd_s with_mods implementing]. unfold t'. rewrite implementing_saved. exact Hi1.
    + intros _ H. rewrite Hfsm in H. discriminate H.
  - (* lys_implement *)
    set (t' := saved t1 k sel m) in *.
    assert (Q' : QI s [] [] t') by (apply (QI_mods_eq s [] [] t1 t' (mods_saved _ _ _ _) (saved_explicit _ _ _ _) Q1)).
    assert (Fm' : find_mod k (mods t') = Some m) by (unfold t'; rewrite mods_saved; exact Fm).
    assert (Hfd : map fdecl fs = map fdecl (m_feats m)) by (destruct Hs as [Hs'|Hs']; [apply (set_features_fdecl _ _ _ Hs')|rewrite Hs'; reflexivity]).
    set (t2' := with_implementing (implementing t1 ++ [k])
                  (add_ev EvChange (upd_s k (fun m0 => set_tc true (set_impl true (set_feats fs m0))) t'))) in *.
    assert (Q2' : QI s [k] [] t2').
    { pose proof (QI_implement s [] t' k m fs Q' Fm' Hi Hfd) as H. unfold t' in H. rewrite implementing_saved in H. exact H. }
    destruct (has_compiled_import_r_QI s [k] [] (S (length (mods t1))) t2' k Q2') as [Q2 S2].
    set (t2 := fst (has_compiled_import_r (S (length (mods t1))) t2' k)) in *.
    assert (Hi2 : implementing t2 = [k]).
    { rewrite (sb_implementing _ _ _ S2). unfold t2'. cbn [with_implementing implementing]. rewrite Hi1. reflexivity. }
    destruct (explicit t2); [discriminate E|].
    destruct (dc_fail_QI s [k] t2 k mid dss W Q2 E) as [Qm Sm].
    assert (S2m : same_but no_tc_comp t2' mid) by (eapply same_but_trans; [apply no_tc_weaken; exact S2|exact Sm]).
    destruct (feats_chain t1 k m fs (fun m0 => set_tc true (set_impl true (set_feats fs m0))) t2' mid (pi_nodup _ _ P) Fm
                (fun x => conj eq_refl eq_refl) Hfd) as [FB Hsame];
      [unfold t2'; cbn [with_implementing add_ev upd_s with_mods mods]; unfold t'; rewrite mods_saved; reflexivity|exact S2m|].
    assert (Hfsm : featsaved mid = featsaved t').
    { rewrite (sb_featsaved _ _ _ S2m). reflexivity. }
    apply (revert_restores s [k] dss mid W Qm); [|exact Js|exact Jm| |exact Hcr|discriminate].
    + apply (restore_FE s t1 mid k m P Fm FB).
      * intros Hn. apply Hsame. rewrite Hfsm in Hn.
        destruct (saved_featsaved t1 k sel m Hf1) as [[Hsel _]|[_ H]]; [|unfold t' in Hn; rewrite H in Hn; discriminate Hn].
        subst sel. destruct Hs as [Hs|Hs]; [discriminate Hs|exact Hs].
      * rewrite Hfsm. destruct (saved_featsaved t1 k sel m Hf1) as [[_ H]|[_ H]]; [left|right]; exact H.
    + rewrite (sb_implementing _ _ _ Sm). exact Hi2.
Qed.

(* ------------------------------------------------------------------------------------------------ *)
(* the context options                                                                              *)
(* ------------------------------------------------------------------------------------------------ *)
Definition fl_eq (t t' : state) : Prop := explicit t' = explicit t /\ xopts t' = xopts t.

Lemma fl_refl t : fl_eq t t.
Proof. split; reflexivity. Qed.
Lemma fl_trans t1 t2 t3 : fl_eq t1 t2 -> fl_eq t2 t3 -> fl_eq t1 t3.
Proof. intros [A1 A2] [B1 B2]. split; congruence. Qed.
Lemma same_but_fl N t t' : same_but N t t' -> fl_eq t t'.
Proof. intros S. split; [apply (sb_expl _ _ _ S)|apply (sb_xopts _ _ _ S)]. Qed.
Lemma frame_fl t t' : frame_eq t t' -> fl_eq t t'.
Proof. intros F. split; [apply (fe_expl _ _ F)|apply (fe_xopts _ _ F)]. Qed.
Lemma PI_fl s t : PI s t -> fl_eq s t.
Proof. intros P. split; [apply (pi_expl _ _ P)|apply (pi_xopts _ _ P)]. Qed.

Lemma fold_upd_fl g ds : forall t, fl_eq t (fold_left (fun s k => upd_s k g s) ds t).
Proof.
  induction ds as [|k ds IH]; intros t; cbn [fold_left]; [apply fl_refl|].
  eapply fl_trans; [|apply IH]. split; reflexivity.
Qed.

Lemma fold_rm_fl ks : forall a, fl_eq (fst a) (fst (fold_left rm_step ks a)).
Proof.
  induction ks as [|k ks IH]; intros a; cbn [fold_left]; [apply fl_refl|].
  eapply fl_trans; [|apply IH]. split; reflexivity.
Qed.

Lemma revert_fl t dss : fl_eq t (revert t dss).
Proof.
  unfold revert. pose proof (same_but_fl _ _ _ (restore_features_same_but t)) as F1.
  set (t1 := restore_features t) in *.
  pose proof (fold_upd_fl (fun m => set_tc false (set_comp None (set_impl false m))) (implementing t1) t1) as F2.
  set (t2 := fold_left _ (implementing t1) t1) in *.
  pose proof (fold_rm_fl (creating t2) (t2, dss)) as F3. cbn [fst] in F3.
  destruct (fold_left rm_step (creating t2) (t2, dss)) as [s2 dss2]. cbn [fst] in F3.
  assert (F : fl_eq t s2) by (eapply fl_trans; [exact F1|eapply fl_trans; [exact F2|exact F3]]).
  assert (G : fl_eq t (fst (compile_all dss2 (mark_all dss2 s2)))).
  { eapply fl_trans; [exact F|]. eapply fl_trans; [apply (same_but_fl _ _ _ (mark_all_same_but dss2 s2))|].
    apply (same_but_fl _ _ _ (same_but_compile_all dss2 (mark_all dss2 s2))). }
  destruct (implementing s2); [destruct (featsaved s2)|]; assumption.
Qed.

Lemma erase_fl t : fl_eq t (erase t).
Proof. split; reflexivity. Qed.

Lemma do_compile_fl t : fl_eq t (fst (do_compile t)).
Proof.
  unfold do_compile.
  pose proof (same_but_fl _ _ _ (same_but_dep_sets_create t None)) as F1. destruct (dep_sets_create t None) as [s1 dss].
  pose proof (same_but_fl _ _ _ (same_but_compile_all dss s1)) as F2. destruct (compile_all dss s1) as [s2 ok]. cbn [fst] in *.
  assert (F : fl_eq t s2) by (eapply fl_trans; eassumption).
  destruct ok; cbn [fst].
  - eapply fl_trans; [exact F|apply erase_fl].
  - eapply fl_trans; [exact F|]. eapply fl_trans; [apply revert_fl|apply erase_fl].
Qed.

(* ly_ctx_set_options() as coded: a failing call leaves every option as it was (the other new flags are only ORed in after
   the recompilation succeeded, and LY_CTX_SET_PRIV_PARSED is cleared again); this holds in every state *)
Lemma set_options_failed_keeps_flags t fl :
  snd (set_options t fl) = false -> fl_eq t (fst (set_options t fl)).
Proof.
  unfold set_options, set_options_gen. destruct (negb (x_priv (xopts t)) && of_priv fl) eqn:Ec; [|discriminate].
  apply andb_true_iff in Ec. destruct Ec as [Ep _]. apply negb_true_iff in Ep.
  match goal with |- context [do_compile ?sm] =>
    pose proof (do_compile_fl sm) as F2;
    assert (Fm : explicit sm = explicit t /\ x_impf (xopts sm) = x_impf (xopts t) /\ x_refi (xopts sm) = x_refi (xopts t));
    [|destruct (do_compile sm) as [s2 ok]] end.
  { match goal with |- context [mark_all ?d ?sp] => pose proof (same_but_fl _ _ _ (mark_all_same_but d sp)) as [A B] end.
    rewrite A, B. cbn. auto. }
  cbn [fst] in F2. destruct ok; [discriminate|]. intros _. cbn [fst]. destruct F2 as [A B]. destruct Fm as [M1 [M2 M3]].
  split; cbn [with_flags explicit xopts].
  - congruence.
  - rewrite B, M2, M3. destruct (xopts t) as [a b c]. cbn in *. subst c. reflexivity.
Qed.

Lemma QI_healthy s D t : wf_state s -> QI s [] D t -> FE s t -> length (mods t) = length (mods s) -> healthy t.
Proof.
  intros W Q F Hlen.
  assert (Holds : olds_of s t = mods t) by (unfold olds_of; rewrite <- Hlen; apply firstn_all).
  pose proof (Forall2_with_In _ _ _ (Forall2_conj _ _ _ _ (qi_olds _ _ _ _ Q) F)) as FU. rewrite Holds in FU.
  intros m'' Hin Htc. destruct (Forall2_In_r _ _ _ _ FU Hin) as [m0 [_ [H0 [Hr [_ Hf]]]]].
  destruct Hr as [R1 R2 R3 R4 R5 R6 R7 R8 R9 R10 R11].
  rewrite (compiles_ok_ext m0 m'' Hf R3). destruct (R7 (R9 Htc)) as [Hi|[]].
  apply (wf_comp_impl _ _ (wfs_mods _ W m0 H0) Hi).
Qed.

Lemma same_but_len N t t' : same_but N t t' -> length (mods t') = length (mods t).
Proof. intros S. pose proof (f_equal (@length _) (sb_mods _ _ _ S)) as E. rewrite !map_length in E. exact E. Qed.

(* with nothing pending the recompilation of ly_ctx_set_options(LY_CTX_SET_PRIV_PARSED) cannot fail: everything that is
   compiled compiles again *)
Lemma set_options_quiescent_ok s fl : wf_state s -> evs s = [] -> snd (set_options s fl) = true.
Proof.
  intros W He. unfold set_options, set_options_gen. destruct (negb (x_priv (xopts s)) && of_priv fl); [|reflexivity].
  assert (P0 : PI s s) by (apply PI_refl; [exact W|exact He]).
  match goal with |- context [do_compile (mark_all ?d ?sp)] => set (sp0 := sp) end.
  set (d0 := [map mkey (mods sp0)]).
  assert (Q0 : QI s [] [] sp0) by (apply (QI_mods_eq s [] [] s sp0); [reflexivity|reflexivity|apply (PI_QI s s W P0)]).
  assert (F0 : FE s sp0) by exact (PI_FE' s s P0).
  pose proof (mark_all_QI s [] [] d0 sp0 Q0) as Q1.
  pose proof (no_tc_weaken _ _ (mark_all_same_but d0 sp0)) as S1.
  pose proof (FE_same_but s sp0 _ S1 F0) as F1.
  set (sm := mark_all d0 sp0) in *.
  unfold do_compile.
  destruct (dep_sets_create_QI s [] [] sm None Q1) as [Q2 S2]. apply no_tc_weaken in S2.
  pose proof (FE_same_but s sm _ S2 F1) as F2.
  destruct (dep_sets_create sm None) as [s1 dss]. cbn [fst] in *.
  assert (Q2' : QI s [] (concat dss) s1) by (apply (QI_mono_D s [] [] _ s1 Q2); intros x []).
  assert (Hlen : length (mods s1) = length (mods s)).
  { rewrite (same_but_len _ _ _ S2), (same_but_len _ _ _ S1). reflexivity. }
  pose proof (QI_healthy s _ s1 W Q2' F2 Hlen) as H2.
  assert (Hd : forall ds, In ds dss -> incl ds (concat dss)) by (intros ds Hin x Hx; apply in_concat; exists ds; tauto).
  destruct (compile_all_ok s (concat dss) W dss s1 Q2' F2 H2 Hd) as [Ok _].
  destruct (compile_all dss s1) as [s2 ok]. cbn [snd] in Ok. subst ok. cbv beta iota zeta. reflexivity.
Qed.

Lemma finish_err o mid dss r s' :
  finish o (mid, dss, r) = (s', RErr) -> r = RErr /\ s' = erase (revert mid dss).
Proof.
  unfold finish. destruct (fuel_out mid); [destruct r, o; try destruct (explicit mid); intros H; inversion H|].
  destruct (aborted mid); [destruct r, o; try destruct (explicit mid); intros H; inversion H|].
  destruct r; try (intros H; inversion H; fail).
  - destruct o; try destruct (explicit mid); intros H; inversion H.
  - intros H. inversion H. tauto.
Qed.

Theorem failed_restores R s o s' :
  LJs s -> quiescent s = true -> step R s o = (s', RErr) -> obs s' = obs s.
Proof.
  intros Js Hq Hstep.
  assert (W : wf_state (core s)) by (apply quiescent_wf; exact Hq).
  assert (P0 : PI (core s) (core s)) by (apply PI_refl; [exact W|reflexivity]).
  destruct (match o with OpSetOpt _ | OpUnsetOpt _ => true | _ => false end) eqn:Eo.
  { (* the option calls cannot fail when nothing is pending *)
    exfalso. destruct o as [d sel|name rev sel|name rev sel| |fl|fl]; try discriminate Eo; unfold step in Hstep.
    - pose proof (set_options_quiescent_ok (core s) fl W eq_refl) as Ok. destruct (set_options (core s) fl) as [s2 ok].
      cbn [snd] in Ok. subst ok. inversion Hstep as [[E1 E2]]. destruct (fuel_out s2); [discriminate|].
      destruct (aborted s2); discriminate.
    - inversion Hstep. }
  assert (Hstep' : finish o (attempt R (core s) o) = (s', RErr)) by (destruct o; try discriminate Eo; exact Hstep).
  clear Hstep. rename Hstep' into Hstep.
  change (obs s) with (obs (core s)).
  pose proof (attempt_LJ R (core s) o Js) as Jmid.
  destruct (attempt R (core s) o) as [[mid dss] r] eqn:Ea. cbn [fst] in Jmid.
  destruct (finish_err o mid dss r s' Hstep) as [-> ->].
  cut (fl_eq (core s) mid /\ Forall2 frel (mods (core s)) (mods (erase (revert mid dss)))).
  { intros [[A B] C]. destruct (revert_fl mid dss) as [A' B'].
    apply obs_frel; [exact (eq_trans A' A)|exact (eq_trans B' B)|exact C]. }
  assert (Hfail : forall t1, PI (core s) t1 -> mid = t1 -> dss = [] ->
            fl_eq (core s) mid /\ Forall2 frel (mods (core s)) (mods (erase (revert mid dss)))).
  { intros t1 P1 -> ->. split; [apply (PI_fl _ _ P1)|].
    destruct (PI_frame (core s) t1 t1 P1 (frame_eq_refl t1)) as [_ [_ Hcr]].
    apply (revert_restores (core s) [] [] t1 W (PI_QI _ _ W P1)); [|exact Js|exact Jmid|apply (pi_impl _ _ P1)|exact Hcr|reflexivity].
    rewrite (restore_features_nil t1 (pi_fsaved _ _ P1)). apply PI_FE'. exact P1. }
  assert (Hiac : forall t1 k sel, PI (core s) t1 ->
            (let '(s2, dss2, ok) := implement_and_compile t1 k sel in (s2, dss2, if ok then ROk else RErr)) = (mid, dss, RErr) ->
            fl_eq (core s) mid /\ Forall2 frel (mods (core s)) (mods (erase (revert mid dss)))).
  { intros t1 k sel P1 E. pose proof (iac_frame t1 k sel) as Fr.
    destruct (implement_and_compile t1 k sel) as [[s2 dss2] ok] eqn:Ei.
    destruct ok; [discriminate E|]. inversion E; subst s2 dss2. cbn [fst] in Fr.
    split; [eapply fl_trans; [apply (PI_fl _ _ P1)|apply (frame_fl _ _ Fr)]|].
    apply (iac_restores (core s) t1 k sel mid dss W P1 Ei Js Jmid). }
  destruct o as [d sel|name rev sel|name rev sel| |fl|fl]; try discriminate Eo; cbn [attempt] in Ea.
  - pose proof (parse_in_PI (core s) (pfuel R) R (core s) d None P0) as P1.
    destruct (parse_in (pfuel R) R (core s) d None) as [t1 pr]. cbn [fst] in P1.
    destruct pr as [k|k| |].
    + apply (Hiac t1 k sel P1 Ea).
    + apply (Hiac t1 k sel P1 Ea).
    + apply (Hfail t1 P1); congruence.
    + apply (Hfail t1 P1); congruence.
  - pose proof (parse_load_PI (core s) (parse_in (pfuel R) R) R (core s) name rev
                  (fun t d chk Pt => parse_in_PI (core s) (pfuel R) R t d chk Pt) P0) as P1.
    destruct (parse_load (parse_in (pfuel R) R) R (core s) name rev) as [t1 pr]. cbn [fst] in P1.
    destruct pr as [k|]; [apply (Hiac t1 k sel P1 Ea)|apply (Hfail t1 P1); congruence].
  - destruct (get_module name rev (mods (core s))) as [m|]; [apply (Hiac (core s) (mkey m) sel P0 Ea)|discriminate Ea].
  - (* ly_ctx_compile with nothing pending cannot fail *)
    exfalso. assert (N0 : none_tc (core s)) by (apply (PI_none_tc (core s)); assumption).
    pose proof (dep_sets_create_none (core s) None N0) as N1.
    destruct (dep_sets_create (core s) None) as [s1 dss1]. cbn [fst] in N1.
    destruct (compile_all_none dss1 s1 N1) as [Ok _]. destruct (compile_all dss1 s1) as [s2 ok]. cbn [snd] in Ok.
    subst ok. inversion Ea.
Qed.

(* a failing ly_ctx_set_options() leaves ly_ctx_get_options() as it was, in every state *)
Lemma set_options_step_failed R s fl s' :
  step R s (OpSetOpt fl) = (s', RErr) -> explicit s' = explicit s /\ xopts s' = xopts s.
Proof.
  unfold step. pose proof (set_options_failed_keeps_flags (core s) fl) as K.
  destruct (set_options (core s) fl) as [s2 ok]. cbn [fst snd] in K. intros H. inversion H as [[E1 E2]]. subst s2.
  destruct (fuel_out s'); [discriminate|]. destruct (aborted s'); [discriminate|]. destruct ok; [discriminate|].
  exact (K eq_refl).
Qed.

(* with nothing pending neither option call fails *)
Lemma option_calls_quiescent_ok R s fl : quiescent s = true ->
  snd (step R s (OpSetOpt fl)) <> RErr /\ snd (step R s (OpUnsetOpt fl)) = ROk.
Proof.
  intros Hq. assert (W : wf_state (core s)) by (apply quiescent_wf; exact Hq). split; [|reflexivity].
  unfold step. pose proof (set_options_quiescent_ok (core s) fl W eq_refl) as Ok.
  destruct (set_options (core s) fl) as [s2 ok]. cbn [snd] in *. subst ok.
  destruct (fuel_out s2); [discriminate|]. destruct (aborted s2); discriminate.
Qed.

(* ------------------------------------------------------------------------------------------------ *)
(* reachability, later operations, change count                                                     *)
(* ------------------------------------------------------------------------------------------------ *)
Definition reachable (R : repo) (s : state) : Prop := exists expl ops, s = run R (init expl) ops.

(* the operations of a history that did not fail (RNoMod: lys_set_implemented of a module the context does not have is not a
   failing call of the library, the script driver just has nothing to call) *)
Fixpoint succ_ops (R : repo) (s : state) (ops : list op) : list op :=
  match ops with
  | [] => []
  | o :: ops' => let '(s', r) := step R s o in
                 match r with RErr => succ_ops R s' ops' | _ => o :: succ_ops R s' ops' end
  end.

(* what an operation does only depends on the C state (not on the event log of the previous operation) *)
Lemma step_core R s1 s2 o : core s1 = core s2 -> step R s1 o = step R s2 o.
Proof. intros H. unfold step. rewrite H. reflexivity. Qed.

Lemma run_core R o ops s1 s2 : core s1 = core s2 -> run R s1 (o :: ops) = run R s2 (o :: ops).
Proof. intros H. unfold run. cbn [fold_left]. rewrite (step_core R s1 s2 o H). reflexivity. Qed.

(* ly_ctx_get_change_count never decreases except by wrapping around at 2^16 *)
Lemma change_count_step R c o :
  let c' := fst (cstep R c o) in
  snd c' = (snd c + N.of_nat (length (evs (fst c')))) mod 65536 /\
  (snd c + N.of_nat (length (evs (fst c'))) < 65536 -> snd c <= snd c').
Proof.
  unfold cstep. destruct (step R (fst c) o) as [s' r]. cbn [fst snd]. unfold change_count_after. split; [reflexivity|].
  intros H. rewrite N.mod_small by exact H. lia.
Qed.

(* ------------------------------------------------------------------------------------------------ *)
(* fault kinds                                                                                      *)
(* ------------------------------------------------------------------------------------------------ *)
(* a syntax error in the module text fails (and restores, as every failure does) *)
Lemma syntax_fault_fails R s d sel : d_fault d = 1 -> snd (step R s (OpParse d sel)) = RErr.
Proof.
  intros Hf. unfold step, attempt, pfuel. cbn [parse_in]. rewrite Hf. reflexivity.
Qed.

(* ly_ctx_compile() with nothing pending succeeds (and compiles nothing) *)
Lemma compile_quiescent_ok R s : quiescent s = true ->
  snd (step R s OpCompile) <> RErr /\ compiled_in (fst (step R s OpCompile)) = [].
Proof.
  intros Hq. assert (W : wf_state (core s)) by (apply quiescent_wf; exact Hq).
  assert (N0 : none_tc (core s)) by (apply (PI_none_tc (core s)); [exact W|apply PI_refl; [exact W|reflexivity]]).
  unfold step, attempt.
  pose proof (dep_sets_create_none (core s) None N0) as N1.
  pose proof (same_but_dep_sets_create (core s) None) as S1.
  destruct (dep_sets_create (core s) None) as [s1 dss1] eqn:Ed. cbn [fst] in N1, S1.
  destruct (compile_all_none dss1 s1 N1) as [Ok [_ Ev]]. destruct (compile_all dss1 s1) as [s2 ok]. cbn [fst snd] in Ok, Ev.
  subst ok. unfold finish. split.
  - destruct (fuel_out s2); [discriminate|]. destruct (aborted s2); discriminate.
  - cbn [fst]. unfold compiled_in, erase. cbn [with_featsaved with_implementing with_creating evs]. rewrite Ev.
    assert (E1 : evs s1 = []).
    { clear -Ed. unfold dep_sets_create in Ed. destruct (create_single _ (core s) 0 _ []) as [cs1 main1].
      assert (Hl : forall fuel t cs main, evs (fst (dep_sets_loop fuel t None cs main)) = evs t).
      { induction fuel as [|fuel IH]; intros t cs main; cbn [dep_sets_loop]; [reflexivity|].
        destruct cs as [|c0 cs']; [reflexivity|]. destruct (dep_dfs _ t _ _) as [[[cs2 ds] aux] oof].
        rewrite IH. unfold mark_depset. destruct (existsb _ ds).
        - rewrite (fold_upd_mods (fun m => if m_impl m then set_tc true m else m)).
          + destruct oof; reflexivity.
          + intros m; destruct (m_impl m); reflexivity.
          + intros m; destruct (m_impl m) eqn:E; [cbn; rewrite E; reflexivity|rewrite E; reflexivity].
        - destruct oof; reflexivity. }
      pose proof (Hl (S (length (map mkey (mods (core s))))) (core s) cs1 main1) as H. rewrite Ed in H. exact H. }
    rewrite E1. reflexivity.
Qed.

(* ------------------------------------------------------------------------------------------------ *)
(* data trees: a failure in the parse stage compiles nothing                                        *)
(* ------------------------------------------------------------------------------------------------ *)
Definition fails_in_parse (R : repo) (s : state) (o : op) : bool :=
  match o with
  | OpParse d _ => match snd (parse_in (pfuel R) R (core s) d None) with POk _ | PDup _ => false | _ => true end
  | OpLoad name rev _ => match snd (parse_load (parse_in (pfuel R) R) R (core s) name rev) with Some _ => false | None => true end
  | _ => false
  end.

Lemma revert_parse_evs s t1 : PI s t1 -> evs (erase (revert t1 [])) = evs t1.
Proof.
  intros P. unfold revert. rewrite (restore_features_nil t1 (pi_fsaved _ _ P)). rewrite (pi_impl _ _ P). cbn [fold_left].
  assert (Hp : Permutation (creating t1) (keys (news_of s t1))) by (rewrite (pi_creating _ _ P); apply Permutation_refl).
  assert (Hnd : NoDup (keys (olds_of s t1 ++ news_of s t1))) by (rewrite <- (olds_news s t1); apply (pi_nodup _ _ P)).
  pose proof (remove_created (creating t1) (olds_of s t1) (news_of s t1) t1 [] (olds_news s t1) Hp Hnd) as H. cbv zeta in H.
  destruct (fold_left rm_step (creating t1) (t1, [])) as [s2 dss2]. cbn [fst] in H. destruct H as [olds' [-> _]].
  cbn [with_mods implementing featsaved]. rewrite (pi_impl _ _ P), (pi_fsaved _ _ P). reflexivity.
Qed.

Lemma parse_failure_compiles_nothing R s o :
  quiescent s = true -> fails_in_parse R s o = true -> compiled_in (fst (step R s o)) = [].
Proof.
  intros Hq Hf. assert (W : wf_state (core s)) by (apply quiescent_wf; exact Hq).
  assert (P0 : PI (core s) (core s)) by (apply PI_refl; [exact W|reflexivity]).
  assert (Hgoal : forall t1, PI (core s) t1 -> compiled_in (fst (finish o (t1, [], RErr))) = []).
  { intros t1 P1. unfold finish. cbn [fst]. unfold compiled_in. rewrite (revert_parse_evs (core s) t1 P1).
    pose proof (pi_evs _ _ P1) as He. induction He as [|e l -> He IH]; [reflexivity|exact IH]. }
  destruct o as [d sel|name rev sel|name rev sel| |fl|fl]; cbn [fails_in_parse] in Hf; try discriminate Hf; unfold step; cbn [attempt].
  - pose proof (parse_in_PI (core s) (pfuel R) R (core s) d None P0) as P1.
    destruct (parse_in (pfuel R) R (core s) d None) as [t1 pr]. cbn [fst snd] in *.
    destruct pr; try discriminate; apply (Hgoal t1 P1).
  - pose proof (parse_load_PI (core s) (parse_in (pfuel R) R) R (core s) name rev
                  (fun t d chk Pt => parse_in_PI (core s) (pfuel R) R t d chk Pt) P0) as P1.
    destruct (parse_load (parse_in (pfuel R) R) R (core s) name rev) as [t1 pr]. cbn [fst snd] in *.
    destruct pr; try discriminate; apply (Hgoal t1 P1).
Qed.

(* ------------------------------------------------------------------------------------------------ *)
(* witnesses (all found on the real library first; impl/t_ctx.c prints the same lines)              *)
(* ------------------------------------------------------------------------------------------------ *)
(* names: 0 a, 1 b, 2 c, 3 d, 7 h (a module nobody has); features f1 f2 *)
Definition w_a1 : mdesc := mkDesc 0 1 [] [] 0.
Definition w_a2_imp_h : mdesc := mkDesc 0 2 [(7, 1)] [] 0.
Definition w_af1 : mdesc := mkDesc 0 1 [] [(1, []); (2, [1])] 0.           (* feature f1; feature f2 { if-feature f1; } *)
Definition w_b1_imp_a : mdesc := mkDesc 1 1 [(0, 1)] [] 0.
Definition w_b1_leafref : mdesc := mkDesc 1 1 [(0, 1)] [] 4.
Definition w_b1 : mdesc := mkDesc 1 1 [] [] 0.
Definition w_c1_syntax : mdesc := mkDesc 2 1 [] [] 1.

(* 1. (regression, fixed by /repo commit 21681e3) failed load of a newer revision: ly_ctx_get_module_latest(a) was NULL
   afterwards; now a@1 is the latest revision again *)
Definition w1_R : repo := [w_a1; w_a2_imp_h].
Definition w1_s : state := run w1_R (init false) [OpParse w_a1 FNull].
Definition w1_o : op := OpParse w_a2_imp_h FNull.
Lemma w1_facts :
  quiescent w1_s = true /\ true = true /\
  snd (step w1_R w1_s w1_o) = RErr /\ obs (fst (step w1_R w1_s w1_o)) = obs w1_s /\
  option_map m_latest (find_mod (0, 1) (mods (step_mid w1_R w1_s w1_o))) = Some false.
Proof. vm_compute. repeat split. Qed.

(* 2. (regression, fixed by /repo commit af27b8d) lys_set_implemented(a, {f2}) on the implemented a left f1 off, f2 on and
   to_compile set; now the bits are written back, and the later load of b importing a succeeds *)
Definition w2_R : repo := [w_af1; w_b1_imp_a].
Definition w2_s : state := run w2_R (init false) [OpParse w_af1 (FList [1])].
Definition w2_o : op := OpImpl 0 1 (FList [2]).
Lemma w2_facts :
  quiescent w2_s = true /\ snd (step w2_R w2_s w2_o) = RErr /\
  option_map (fun m => map f_on (m_feats m)) (find_mod (0, 1) (mods (step_mid w2_R w2_s w2_o))) = Some [false; true] /\
  obs (fst (step w2_R w2_s w2_o)) = obs w2_s /\ quiescent (fst (step w2_R w2_s w2_o)) = true /\
  snd (step w2_R (fst (step w2_R w2_s w2_o)) (OpParse w_b1_imp_a FNull)) = ROk.
Proof. vm_compute. repeat split. Qed.

(* 3. (regression, af27b8d) the same on a module that is only imported: the bits stayed and b was recompiled against them *)
Definition w3_s : state := run w2_R (init false) [OpParse w_b1_imp_a FNull].
Lemma w3_facts :
  quiescent w3_s = true /\ snd (step w2_R w3_s w2_o) = RErr /\
  option_map (fun m => map f_on (m_feats m)) (find_mod (0, 1) (mods (step_mid w2_R w3_s w2_o))) = Some [false; true] /\
  obs (fst (step w2_R w3_s w2_o)) = obs w3_s /\ quiescent (fst (step w2_R w3_s w2_o)) = true.
Proof. vm_compute. repeat split. Qed.

(* 4. explicit compilation: the failed parse of c removes b, which an earlier successful call added *)
Definition w4_R : repo := [w_a1; w_b1; w_c1_syntax].
Definition w4_s : state := run w4_R (init true) [OpParse w_a1 FNull; OpCompile; OpParse w_b1 FNull].
Definition w4_o : op := OpParse w_c1_syntax FNull.
Lemma w4_facts :
  quiescent w4_s = false /\
  snd (step w4_R w4_s w4_o) = RErr /\ obs (fst (step w4_R w4_s w4_o)) <> obs w4_s.
Proof. vm_compute. repeat split; discriminate. Qed.

(* 5. hidden state: LYS_MOD_IMPORTED_REV stays on a@1 after the failed load of b; the observable is restored,
   but c (import a without revision) later binds to a@1 instead of the implemented a@2 *)
Definition w5_a1 : mdesc := mkDesc 0 1 [] [(1, [])] 0.
Definition w5_a2 : mdesc := mkDesc 0 2 [] [(1, [])] 0.
Definition w5_d1 : mdesc := mkDesc 3 1 [(0, 1)] [] 0.
Definition w5_b1 : mdesc := mkDesc 1 1 [(0, 0)] [] 4.
Definition w5_c1 : mdesc := mkDesc 2 1 [(0, 0)] [] 0.
Definition w5_R : repo := [w5_a1; w5_a2; w5_d1; w5_b1; w5_c1].
Definition w5_s : state := run w5_R (init false) [OpParse w5_d1 FNull].
Definition w5_o : op := OpParse w5_b1 FNull.
Definition w5_later : list op := [OpParse w5_a2 (FList [1]); OpParse w5_c1 FNull].
Lemma w5_facts :
  quiescent w5_s = true /\ snd (step w5_R w5_s w5_o) = RErr /\ obs (fst (step w5_R w5_s w5_o)) = obs w5_s /\
  obs (run w5_R (fst (step w5_R w5_s w5_o)) w5_later) <> obs (run w5_R w5_s w5_later).
Proof. vm_compute. repeat split; discriminate. Qed.

(* 6. data trees: the failed load of b (leafref without target) recompiles a *)
Definition w6_R : repo := [w_a1; w_b1_leafref].
Definition w6_s : state := run w6_R (init false) [OpParse w_a1 FNull].
Definition w6_o : op := OpParse w_b1_leafref FNull.
Lemma w6_facts :
  quiescent w6_s = true /\ snd (step w6_R w6_s w6_o) = RErr /\ obs (fst (step w6_R w6_s w6_o)) = obs w6_s /\
  In (0, 1) (compiled_in (fst (step w6_R w6_s w6_o))) /\
  option_map m_impl (find_mod (0, 1) (mods w6_s)) = Some true.
Proof. vm_compute. repeat split; try discriminate. repeat (first [left; reflexivity|right]). Qed.

(* 8. (regression of the seeded change C09-7) explicit compilation, b (leafref without target) parsed but not compiled yet;
   ly_ctx_set_options(ENABLE_IMP_FEATURES | SET_PRIV_PARSED) fails in the recompilation. As coded the options are what they
   were; the variant that ORs the new flags in before the recompilation leaves LY_CTX_ENABLE_IMP_FEATURES set *)
Definition w8_b : mdesc := mkDesc 1 1 [] [] 4.
Definition w8_R : repo := [w8_b].
Definition w8_s : state := run w8_R (init true) [OpParse w8_b FNull].
Definition w8_fl : oflags := mkOf false true false true.
Lemma w8_facts :
  snd (step w8_R w8_s (OpSetOpt w8_fl)) = RErr /\ xopts (fst (step w8_R w8_s (OpSetOpt w8_fl))) = xopts w8_s /\
  snd (set_options_gen true (core w8_s) w8_fl) = false /\
  x_impf (xopts w8_s) = false /\ x_impf (xopts (fst (set_options_gen true (core w8_s) w8_fl))) = true.
Proof. vm_compute. repeat split. Qed.

Lemma reachable_run R expl ops : reachable R (run R (init expl) ops).
Proof. exists expl, ops. reflexivity. Qed.

(* the hypotheses of failed_restores hold for a failing operation of every fault kind *)
Definition w7_R : repo :=
  [ w_af1; w_b1_leafref;
    mkDesc 2 1 [(0, 0); (7, 1)] [] 0;           (* c: an import is not found *)
    mkDesc 3 1 [(0, 1)] [] 2;                   (* d: duplicate feature, found after the imports were resolved *)
    mkDesc 4 1 [] [(1, []); (2, [1])] 0;        (* e: loaded with f2 only: if-feature not satisfied *)
    mkDesc 5 1 [(0, 1)] [] 3;                   (* f: a node that does not compile *)
    mkDesc 6 1 [(0, 1)] [(1, [])] 5;            (* g: list key under if-feature f1, f1 off *)
    mkDesc 0 1 [] [(1, []); (2, [1])] 1 ].      (* syntax error *)
Definition w7_s : state := run w7_R (init false) [OpParse w_af1 (FList [1]); OpParse w_b1_imp_a FNull].
Definition w7_ops : list op :=
  [ OpParse (mkDesc 5 2 [(0, 1)] [] 4) FNull; OpLoad 2 1 FNull; OpLoad 3 0 FAll; OpLoad 4 1 (FList [2]); OpLoad 5 0 FNull;
    OpLoad 6 1 (FList []); OpParse (mkDesc 2 2 [] [] 1) FNull; OpLoad 7 0 FNull; OpImpl 0 1 (FList [9]);
    OpParse w_af1 (FList [9]) ].
Lemma w7_facts :
  quiescent w7_s = true /\
  forallb (fun o => match snd (step w7_R w7_s o) with RErr => true | _ => false end) w7_ops = true.
Proof. vm_compute. split; reflexivity. Qed.

(* ------------------------------------------------------------------------------------------------ *)
(* the statements of Properties_C09_ctx.v that need more than `exact`                                *)
(* ------------------------------------------------------------------------------------------------ *)
Lemma full_statement_refuted : ~ (forall R s o s', reachable R s -> step R s o = (s', RErr) -> obs s' = obs s).
Proof.
  intros H. destruct w4_facts as [_ [Hr Ho]]. apply Ho.
  apply (H w4_R w4_s w4_o (fst (step w4_R w4_s w4_o)) (reachable_run _ _ _)).
  rewrite <- Hr. destruct (step w4_R w4_s w4_o); reflexivity.
Qed.

Lemma failed_restores_reachable R s o s' :
  reachable R s -> quiescent s = true -> step R s o = (s', RErr) -> obs s' = obs s.
Proof. intros Hr. apply failed_restores. apply (reachable_LJ R s Hr). Qed.

Lemma quiescent_necessary :
  exists R s o, reachable R s /\ quiescent s = false /\ snd (step R s o) = RErr /\ obs (fst (step R s o)) <> obs s.
Proof. exists w4_R, w4_s, w4_o. split; [apply reachable_run|exact w4_facts]. Qed.

Lemma hypotheses_satisfiable :
  reachable w7_R w7_s /\ quiescent w7_s = true /\
  forallb (fun o => match snd (step w7_R w7_s o) with RErr => true | _ => false end) w7_ops = true.
Proof. split; [apply reachable_run|exact w7_facts]. Qed.

Lemma latest_flag_given_back :
  reachable w1_R w1_s /\ snd (step w1_R w1_s w1_o) = RErr /\
  option_map m_latest (find_mod (0, 1) (mods (step_mid w1_R w1_s w1_o))) = Some false /\
  obs (fst (step w1_R w1_s w1_o)) = obs w1_s.
Proof.
  split; [apply reachable_run|]. destruct w1_facts as [_ [_ [A [B C]]]]. exact (conj A (conj C B)).
Qed.

(* regression of the defects fixed by af27b8d: at the cleanup jump f1 is off and f2 on; after the revert the observable
   is what it was, the state is quiescent again and (implemented case) the later load of b succeeds *)
Lemma feature_bits_restored :
  (reachable w2_R w2_s /\ snd (step w2_R w2_s w2_o) = RErr /\
   option_map (fun m => map f_on (m_feats m)) (find_mod (0, 1) (mods (step_mid w2_R w2_s w2_o))) = Some [false; true] /\
   obs (fst (step w2_R w2_s w2_o)) = obs w2_s /\
   snd (step w2_R (fst (step w2_R w2_s w2_o)) (OpParse w_b1_imp_a FNull)) = ROk) /\
  (reachable w2_R w3_s /\ snd (step w2_R w3_s w2_o) = RErr /\
   option_map (fun m => map f_on (m_feats m)) (find_mod (0, 1) (mods (step_mid w2_R w3_s w2_o))) = Some [false; true] /\
   obs (fst (step w2_R w3_s w2_o)) = obs w3_s).
Proof.
  split.
  - split; [apply reachable_run|]. destruct w2_facts as [_ [A [B [C [_ D]]]]]. exact (conj A (conj B (conj C D))).
  - split; [apply reachable_run|]. destruct w3_facts as [_ [A [B [C _]]]]. exact (conj A (conj B C)).
Qed.

Lemma syntax_fault_restores_reachable R s d sel s' r :
  reachable R s -> quiescent s = true -> d_fault d = 1 -> step R s (OpParse d sel) = (s', r) -> r = RErr /\ obs s' = obs s.
Proof.
  intros Hr Hq Hf Hs. pose proof (syntax_fault_fails R s d sel Hf) as E. rewrite Hs in E. cbn [snd] in E. subst r.
  split; [reflexivity|]. apply (failed_restores_reachable R s (OpParse d sel) s' Hr Hq Hs).
Qed.

Lemma later_load_unaffected : forall R s s' o2,
  core s' = core s -> step R s' o2 = step R s o2.
Proof. intros R s s' o2 H. apply step_core. exact H. Qed.

Lemma later_load_affected :
  exists R s o later, reachable R s /\ quiescent s = true /\ snd (step R s o) = RErr /\
    obs (fst (step R s o)) = obs s /\ obs (run R (fst (step R s o)) later) <> obs (run R s later).
Proof.
  exists w5_R, w5_s, w5_o, w5_later. split; [apply reachable_run|]. exact w5_facts.
Qed.

Lemma data_trees_refuted :
  exists R s o k, reachable R s /\ quiescent s = true /\ snd (step R s o) = RErr /\ obs (fst (step R s o)) = obs s /\
    option_map m_impl (find_mod k (mods s)) = Some true /\ In k (compiled_in (fst (step R s o))).
Proof.
  exists w6_R, w6_s, w6_o, (0, 1). split; [apply reachable_run|]. destruct w6_facts as [A [B [C [D E]]]].
  exact (conj A (conj B (conj C (conj E D)))).
Qed.

Lemma set_options_or_first_refuted :
  ~ (forall s fl, snd (set_options_gen true s fl) = false -> xopts (fst (set_options_gen true s fl)) = xopts s).
Proof.
  intros H. destruct w8_facts as [_ [_ [A [B C]]]]. rewrite (H (core w8_s) w8_fl A) in C.
  change (xopts (core w8_s)) with (xopts w8_s) in C. rewrite B in C. discriminate C.
Qed.

(* the whole-history form of the property does not hold, not even without LY_CTX_EXPLICIT_COMPILE: the history of witness 5
   (every state before a call is quiescent, the one failing call restores the observable) ends in another observable than
   the history of its successful calls *)
Definition w5_ops : list op := OpParse w5_d1 FNull :: w5_o :: w5_later.
Lemma w5_history :
  succ_ops w5_R (init false) w5_ops = OpParse w5_d1 FNull :: w5_later /\
  forallb (fun n => quiescent (run w5_R (init false) (firstn n w5_ops))) (seq 0 5) = true /\
  obs (run w5_R (init false) w5_ops) <> obs (run w5_R (init false) (succ_ops w5_R (init false) w5_ops)).
Proof. vm_compute. split; [reflexivity|]. split; [reflexivity|discriminate]. Qed.

Lemma history_failed_ops_invisible_refuted :
  ~ (forall R ops, obs (run R (init false) ops) = obs (run R (init false) (succ_ops R (init false) ops))).
Proof. intros H. destruct w5_history as [_ [_ N]]. apply N. apply H. Qed.

Lemma history_counterexample_quiescent :
  exists R ops, (forall n, quiescent (run R (init false) (firstn n ops)) = true) /\
    obs (run R (init false) ops) <> obs (run R (init false) (succ_ops R (init false) ops)).
Proof.
  exists w5_R, w5_ops. destruct w5_history as [_ [Q N]]. split; [|exact N].
  rewrite forallb_forall in Q. intros n. destruct (Nat.lt_ge_cases n 5) as [L|G].
  - apply Q. apply in_seq. lia.
  - assert (E : firstn n w5_ops = firstn 4 w5_ops).
    { rewrite !firstn_all2; [reflexivity| |]; unfold w5_ops, w5_later; cbn [length]; lia. }
    rewrite E. apply Q. apply in_seq. lia.
Qed.
