(* Properties_C11_restrstr.v — property C11, string types along a typedef chain: the length restriction and the
   patterns are inherited independently. Model: RestrictStr.v (lys_compile_type_ case LY_TYPE_STRING of
   src/schema_compile_node.c: own length through lys_compile_type_range, else the base's length duplicated whole; the
   base's patterns duplicated, the own ones appended), on top of Restrict.v; proofs: RestrictStrP.v.
   A pattern is opaque (type parameter P with an arbitrary matcher: regular expressions are property C18); a level
   is (the length argument text if the level has a length statement, its pattern statements in order). *)
From LY Require Import Base TypesMisc IntLex Dec64 Restrict RestrictP RestrictStr RestrictStrP.

(* C11_string_chain_independent: for ANY levels (texts in the grammar or not, any patterns), compiling the chain of
   string types gives exactly (the length chain of Restrict.compile_chain on the length statements alone, the patterns of
   the base followed by the pattern statements of all levels in order): neither restriction depends on the other,
   whichever levels restate which, and it fails exactly when the length chain fails. *)
Theorem C11_string_chain_independent :
  forall (P : Type) (lvls : list (option bytes * list P)) (b : str_eff P),
    compile_str_chain P b lvls =
    match compile_chain RLen (se_len b) (map fst lvls) with
    | Ok ps => Ok {| se_len := ps; se_pats := se_pats b ++ concat (map snd lvls) |}
    | Err e => Err e
    end.
Proof. exact str_chain_independent. Qed.
Print Assumptions C11_string_chain_independent.

(* C11_string_chain_accepts: the leaf's type accepts a value exactly when its length passes the effective length of the
   length chain (which, by C11_range_chain_never_widens / C11_range_chain_intersection, is inside every length stated
   along the chain) AND every pattern of every level matches - the intersection of the stated lengths and the
   conjunction of all levels' patterns. [matches] is any pattern matcher. *)
Theorem C11_string_chain_accepts :
  forall (P : Type) (matches : P -> bytes -> bool) lvls (b eff : str_eff P) len s,
    compile_str_chain P b lvls = Ok eff ->
    (str_accepts P matches eff len s = true <->
     (exists ps, compile_chain RLen (se_len b) (map fst lvls) = Ok ps /\ validate_range ps len = true) /\
     Forall (fun p => matches p s = true) (se_pats b ++ concat (map snd lvls))).
Proof. exact str_chain_accepts. Qed.
Print Assumptions C11_string_chain_accepts.

(* a level without a length statement keeps ALL parts of the inherited length; a level with only a length statement
   keeps ALL inherited patterns *)
Theorem C11_string_level_inherits_length :
  forall (P : Type) (b : str_eff P) pl,
    compile_str_level P b (None, pl) = Ok {| se_len := se_len b; se_pats := se_pats b ++ pl |}.
Proof. exact str_level_inherits. Qed.
Print Assumptions C11_string_level_inherits_length.

Theorem C11_string_level_keeps_patterns :
  forall (P : Type) (b b' : str_eff P) r,
    compile_str_level P b (Some r, []) = Ok b' -> se_pats b' = se_pats b.
Proof. exact str_level_keeps_patterns. Qed.
Print Assumptions C11_string_level_keeps_patterns.

(* regression Examples (patterns named 1, 2): base length 1..3 | 6..8 | 12 with pattern 1. A level that adds only
   pattern 2 keeps all three parts (seeded change C11-5 kept the first part only); a level that restates only the
   length 6..8 keeps both patterns, in either order of the levels (seeded change C18-7 lost the inherited patterns) *)
Example C11_string_chain_regressions :
  let base := {| se_len := [(1, 3); (6, 8); (12, 12)]%Z; se_pats := [1%nat] |} in
  compile_str_chain nat base [(None, [2%nat])] = Ok {| se_len := [(1, 3); (6, 8); (12, 12)]%Z; se_pats := [1; 2]%nat |} /\
  compile_str_chain nat base [(None, [2%nat]); (Some w_68, [])]
    = Ok {| se_len := [(6, 8)]%Z; se_pats := [1; 2]%nat |} /\
  compile_str_chain nat base [(Some w_68, []); (None, [2%nat]); (None, [])]
    = Ok {| se_len := [(6, 8)]%Z; se_pats := [1; 2]%nat |}.
Proof. exact str_chain_witness. Qed.
