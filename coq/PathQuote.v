(* PathQuote.v — how lyd_path() quotes key / leaf-list values and how the two searches read them back.
     printer  src/tree_data.c : lyd_path_list_predicate(), lyd_path_leaflist_predicate()
     readers  src/xpath.c     : lyxp_expr_parse(), the two Literal branches (the tokenizer used by
                                lyd_find_path() through ly_path_parse() and by lyd_find_xpath());
              src/path.c      : ly_path_check_predicate() / ly_path_compile_predicate() (value = token
                                without its first and last byte);
              src/xpath.c     : eval_literal() (same, the empty literal special-cased).
   ly_parse_instance_predicate() of src/ly_common.c has no caller in the library; its quoted-string
   scan (which, unlike the tokenizer, honours a backslash before the closing quote) is modelled as
   [inst_quoted] for comparison only. *)
From LY Require Import Base Utf8.
Local Open Scope N_scope.

Definition pq_has (b : N) (s : bytes) : bool := existsb (N.eqb b) s.

(* ---------- printer ---------- *)
(* quot = single quote; if (strchr(val, single quote)) quot = double quote; no escaping *)
Definition quote_for (v : bytes) : N := if pq_has 39 v then 34 else 39.

(* sprintf [%s=%c%s%c] *)
Definition list_pred (name v : bytes) : bytes :=
  let q := quote_for v in [91] ++ name ++ [61; q] ++ v ++ [q; 93].
(* sprintf [.=%c%s%c] *)
Definition leaflist_pred (v : bytes) : bytes :=
  let q := quote_for v in [91; 46; 61; q] ++ v ++ [q; 93].

(* ---------- tokenizer: Literal ---------- *)
(* for (tok_len = 1; expr[parsed + tok_len] != 0 && expr[parsed + tok_len] != quote; ++tok_len);
   error at the end of the expression; ++tok_len.  [s] is the input after the opening quote. *)
Fixpoint lit_len (q : N) (s : bytes) (n : nat) : option nat :=
  match s with
  | [] => None
  | c :: s' => if c =? q then Some (S n) else lit_len q s' (S n)
  end.
(* length of the Literal token at the head of [s] *)
Definition tok_literal (s : bytes) : option nat :=
  match s with
  | q :: s' => if (q =? 39) || (q =? 34) then lit_len q s' 1 else None
  | [] => None
  end.

(* ly_path_compile_predicate(): val = expr + tok_pos + 1, val_len = tok_len - 2 *)
Definition path_literal (s : bytes) : option (bytes * bytes) :=
  match tok_literal s with
  | Some n => Some (firstn (n - 2) (skipn 1 s), skipn n s)
  | None => None
  end.
(* eval_literal(): tok_len == 2 gives the empty string, else the same bytes *)
Definition xpath_literal (s : bytes) : option (bytes * bytes) :=
  match tok_literal s with
  | Some n => Some (if Nat.eqb n 2 then [] else firstn (n - 2) (skipn 1 s), skipn n s)
  | None => None
  end.

(* ---------- one predicate of the shape lyd_path() prints ---------- *)
Definition is_name_start (b : N) : bool :=
  ((65 <=? b) && (b <=? 90)) || ((97 <=? b) && (b <=? 122)) || (b =? 95).
Definition is_name_byte (b : N) : bool :=
  is_name_start b || is_digit b || (b =? 45) || (b =? 46).
Fixpoint span_name (s acc : bytes) : bytes * bytes :=
  match s with
  | c :: s' => if is_name_byte c then span_name s' (c :: acc) else (rev acc, s)
  | [] => (rev acc, s)
  end.
Definition name_ok (n : bytes) : bool :=
  match n with
  | c :: n' => is_name_start c && forallb is_name_byte n'
  | [] => false
  end.

(* tokens [ (NameTest | .) = Literal ]  written without blanks (ly_path_check_predicate() with
   LY_PATH_PRED_SIMPLE; an XPath predicate of the same shape). Result: (None for the dot or the name,
   value, remaining input). *)
Definition parse_pred (lit : bytes -> option (bytes * bytes)) (s : bytes)
  : option (option bytes * bytes * bytes) :=
  match s with
  | 91 :: s1 =>
      let '(nm, s2) :=
        match s1 with
        | 46 :: t => (None, t)
        | _ => let '(n, t) := span_name s1 [] in (Some n, t)
        end in
      let okname := match nm with None => true | Some n => name_ok n end in
      if negb okname then None else
      match s2 with
      | 61 :: s3 =>
          match lit s3 with
          | Some (v, s4) =>
              match s4 with
              | 93 :: s5 => Some (nm, v, s5)
              | _ => None
              end
          | None => None
          end
      | _ => None
      end
  | _ => None
  end.

(* does the search find the node whose predicate was printed as [p]: the predicate must be read as
   exactly (name, v) and nothing may be left over *)
Definition beq_opt_name (a b : option bytes) : bool :=
  match a, b with
  | None, None => true
  | Some x, Some y => beq_bytes x y
  | _, _ => false
  end.
Definition pred_finds (lit : bytes -> option (bytes * bytes)) (nm : option bytes) (v p : bytes) : bool :=
  match parse_pred lit p with
  | Some (nm', v', rest) =>
      beq_opt_name nm nm' && beq_bytes v v' && match rest with [] => true | _ => false end
  | None => false
  end.

(* ---------- ly_parse_instance_predicate(): quoted-string part (unused by the library) ----------
   for (; offset < limit && (in[offset] != quot || (offset && in[offset - 1] == backslash)); offset++);
   [s] is the input after the opening quote, [prev] the byte before the current one. *)
Fixpoint inst_scan (q prev : N) (s acc : bytes) : option (bytes * bytes) :=
  match s with
  | [] => None
  | c :: s' =>
      if (c =? q) && negb (prev =? 92) then Some (rev acc, s')
      else inst_scan q c s' (c :: acc)
  end.
Definition inst_quoted (s : bytes) : option (bytes * bytes) :=
  match s with
  | q :: s' => if (q =? 39) || (q =? 34) then inst_scan q q s' [] else None
  | [] => None
  end.

(* ---------- what the driver component pathq prints, on the fixed module
   module m { ... container c { leaf-list ll {type string;} list l {key k; leaf k {type string;} ...}}} ---------- *)
Definition path_ll (v : bytes) : bytes := [47;109;58;99;47;108;108] ++ leaflist_pred v.     (* /m:c/ll *)
Definition path_l (v : bytes) : bytes := [47;109;58;99;47;108] ++ list_pred [107] v.        (* /m:c/l, key k *)
