(* DiffTreeP.v -- lemmas about DiffTree.v (diff + apply at tree level, non-user-ordered fragment).

   Plan (DESIGN Appendix C.4): operations on different instance identities are independent, so one sibling level is
   handled by a fold over the diff nodes in WHATEVER order the diff tree has them ([apply_children_fold]): every diff
   node turns its own instance of the first tree into the one of the second tree ([Transforms]); what a diff node means is
   the order-independent relation [Sp] (one node) / [LevelSp] (one sibling level); [apply_sp] shows that applying a
   diff that satisfies it to the first siblings yields the second siblings exactly, default flags of the parents
   included ([walks_spec]: the lyd_np_cont_dflt_set/_del walks keep the invariant: a non-presence container is default iff all its
   children are).  [diff_sp] shows that lyd_diff_siblings produces such a diff. *)
From Coq Require Import Permutation Sorted.
From LY Require Import Base Tree TreeP DiffTree.
From Coq Require Import ZifyBool ZifyNat ZifyN.
Local Open Scope N_scope.

(* ------------------------------------------------------------------------------------------- *)
(* lists                                                                                         *)
(* ------------------------------------------------------------------------------------------- *)
Lemma find_idx_split {A} (p : A -> bool) : forall l i,
  find_idx p l = Some i ->
  exists l1 x l2, l = l1 ++ x :: l2 /\ length l1 = i /\ p x = true /\ (forall y, In y l1 -> p y = false).
Proof.
  induction l as [|a l IH]; intros i H; cbn [find_idx] in H; [discriminate|].
  destruct (p a) eqn:Ea.
  - inversion H; subst. exists [], a, l. repeat split; try assumption. intros y [].
  - destruct (find_idx p l) as [j|] eqn:Ej; [|discriminate]. inversion H; subst.
    destruct (IH j eq_refl) as [l1 [x [l2 [E [Hl [Hx Hn]]]]]]. subst l.
    exists (a :: l1), x, l2. repeat split; [cbn; congruence|assumption|].
    intros y [Hy|Hy]; [subst; assumption|apply Hn; assumption].
Qed.

Lemma find_idx_none {A} (p : A -> bool) : forall l, find_idx p l = None -> forall x, In x l -> p x = false.
Proof.
  induction l as [|a l IH]; intros H x Hx; [destruct Hx|]. cbn [find_idx] in H.
  destruct (p a) eqn:Ea; [discriminate|]. destruct (find_idx p l) eqn:Ej; [discriminate|].
  destruct Hx as [Hx|Hx]; [subst; assumption|apply IH; [reflexivity|assumption]].
Qed.

Lemma find_idx_first {A} (p : A -> bool) : forall l1 x l2,
  p x = true -> (forall y, In y l1 -> p y = false) -> find_idx p (l1 ++ x :: l2) = Some (length l1).
Proof.
  induction l1 as [|a l1 IH]; intros x l2 Hx Hn; cbn [app find_idx length].
  - rewrite Hx. reflexivity.
  - rewrite (Hn a (or_introl eq_refl)). rewrite (IH x l2 Hx); [reflexivity|].
    intros y Hy. apply Hn. right. exact Hy.
Qed.

Lemma nth_split_at {A} (l1 : list A) x l2 d : nth (length l1) (l1 ++ x :: l2) d = x.
Proof. induction l1; cbn; [reflexivity|assumption]. Qed.

Lemma replace_nth_split {A} (l1 : list A) x l2 y : replace_nth (length l1) (l1 ++ x :: l2) y = l1 ++ y :: l2.
Proof. induction l1; cbn; [reflexivity|congruence]. Qed.

Lemma remove_nth_split {A} (l1 : list A) x l2 : remove_nth (length l1) (l1 ++ x :: l2) = l1 ++ l2.
Proof. induction l1; cbn; [reflexivity|congruence]. Qed.

Lemma others_split {A} (p : A -> bool) (l1 : list A) x l2 : others p (length l1) (l1 ++ x :: l2) = forallb p (l1 ++ l2).
Proof. induction l1; cbn; [reflexivity|congruence]. Qed.

Lemma forallb_perm {A} (p : A -> bool) l l' : Permutation l l' -> forallb p l = forallb p l'.
Proof.
  induction 1; cbn; try congruence.
  - destruct (p x), (p y); reflexivity.
Qed.

Definition opt {A} (o : option A) : list A := match o with Some x => [x] | None => [] end.

(* ------------------------------------------------------------------------------------------- *)
(* default-flag walks                                                                            *)
(* ------------------------------------------------------------------------------------------- *)
(* what a sequence of requests says about the child they come from: after lyd_np_cont_dflt_del the child is
   explicit, after lyd_np_cont_dflt_set it is default or gone; [c] = its state before *)
Definition sig_status (c : bool) (sg : list sig) : bool :=
  fold_left (fun c s => match s with SDel => false | SSet _ => true end) sg c.

(* every set request carries the right information about the other children *)
Definition sigs_ok (o : bool) (sg : list sig) : Prop := forall x, In (SSet x) sg -> x = o.

Lemma sigs_ok_nil o : sigs_ok o [].
Proof. intros x []. Qed.

Lemma sigs_ok_cons o s sg : sigs_ok o (s :: sg) <-> (match s with SSet x => x = o | SDel => True end) /\ sigs_ok o sg.
Proof.
  unfold sigs_ok. split.
  - intro H. split; [destruct s as [|x]; [exact I|apply H; left; reflexivity]|].
    intros x Hx. apply H. right. exact Hx.
  - intros [H1 H2] x [Hx|Hx]; [subst s; exact H1|apply H2; exact Hx].
Qed.

Lemma sigs_ok_app o a b : sigs_ok o (a ++ b) <-> sigs_ok o a /\ sigs_ok o b.
Proof.
  unfold sigs_ok. split.
  - intro H. split; intros x Hx; apply H, in_or_app; [left|right]; exact Hx.
  - intros [H1 H2] x Hx. apply in_app_or in Hx. destruct Hx; [apply H1|apply H2]; assumption.
Qed.

Lemma sig_status_app c a b : sig_status c (a ++ b) = sig_status (sig_status c a) b.
Proof. unfold sig_status. apply fold_left_app. Qed.

(* The walks keep the invariant: a node whose flag is [np && (others default && child default)] before has
   [np && (others default && child state after the requests)] afterwards ([np]: it is a non-presence container; other
   inner nodes never carry the flag); the requests that go on to its parent describe its own state in the same way. *)
Lemma walks_spec np o oup : forall sg fl c0,
  sigs_ok o sg -> fl = np && (o && c0) ->
  fst (walks np fl oup sg) = np && (o && sig_status c0 sg) /\
  sigs_ok oup (snd (walks np fl oup sg)) /\
  sig_status fl (snd (walks np fl oup sg)) = fst (walks np fl oup sg).
Proof.
  induction sg as [|s sg IH]; intros fl c0 Hok Hfl.
  - cbn. split; [exact Hfl|]. split; [apply sigs_ok_nil|reflexivity].
  - apply sigs_ok_cons in Hok. destruct Hok as [Hs Hok].
    cbn [walks]. destruct s as [|x].
    + (* del *)
      cbn [walk1]. destruct fl.
      * specialize (IH false false Hok). destruct (walks np false oup sg) as [fl2 ups] eqn:Ew.
        cbn [fst snd] in *. destruct IH as [I1 [I2 I3]]; [destruct np, o; reflexivity|].
        split; [exact I1|]. split; [apply sigs_ok_cons; split; [exact I|exact I2]|].
        cbn. exact I3.
      * specialize (IH false false Hok). destruct (walks np false oup sg) as [fl2 ups] eqn:Ew.
        cbn [fst snd] in *. destruct IH as [I1 [I2 I3]]; [destruct np, o; reflexivity|].
        split; [exact I1|]. split; assumption.
    + subst x. cbn [walk1].
      destruct (np && negb fl && o) eqn:Ec.
      * specialize (IH true true Hok). destruct (walks np true oup sg) as [fl2 ups] eqn:Ew.
        cbn [fst snd] in *.
        assert (Hn : np = true /\ fl = false /\ o = true) by (destruct np, fl, o; cbn in Ec; try discriminate; auto).
        destruct Hn as [-> [-> ->]].
        destruct IH as [I1 [I2 I3]]; [reflexivity|].
        split; [exact I1|]. split; [apply sigs_ok_cons; split; [reflexivity|exact I2]|].
        cbn. exact I3.
      * specialize (IH fl true Hok). destruct (walks np fl oup sg) as [fl2 ups] eqn:Ew.
        cbn [fst snd] in *.
        destruct IH as [I1 [I2 I3]].
        { subst fl. destruct np, o, c0; cbn in *; try reflexivity; discriminate. }
        split; [exact I1|]. split; assumption.
Qed.

(* ------------------------------------------------------------------------------------------- *)
(* identities                                                                                    *)
(* ------------------------------------------------------------------------------------------- *)
Lemma has_id_iff sch j x : has_id sch j x = true <-> inst_id sch x = Some j.
Proof.
  unfold has_id. destruct (inst_id sch x) as [k|]; [|split; discriminate].
  rewrite iid_eqb_eq. split; congruence.
Qed.

Lemma NoDup_map_in_eq {A B} (f : A -> B) l x y : NoDup (map f l) -> In x l -> In y l -> f x = f y -> x = y.
Proof.
  induction l as [|a l IH]; intros Hn Hx Hy E; [destruct Hx|].
  cbn [map] in Hn. inversion Hn as [|? ? Hna Hn']; subst.
  destruct Hx as [Hx|Hx], Hy as [Hy|Hy]; subst.
  - reflexivity.
  - exfalso. apply Hna. rewrite E. apply in_map. exact Hy.
  - exfalso. apply Hna. rewrite <- E. apply in_map. exact Hx.
  - apply IH; assumption.
Qed.

Section WithSchema.
Variable sch : schema.

Definition ids (f : forest) : list (option iid) := map (inst_id sch) f.

Lemma ids_app a b : ids (a ++ b) = ids a ++ ids b.
Proof. apply map_app. Qed.

Lemma ids_perm a b : Permutation a b -> Permutation (ids a) (ids b).
Proof. apply Permutation_map. Qed.

(* the first sibling with identity i is the one at the split, when identities are unique *)
Lemma match_idx_split l1 a l2 i :
  inst_id sch a = Some i -> NoDup (ids (l1 ++ a :: l2)) -> match_idx sch (l1 ++ a :: l2) (Some i) = Some (length l1).
Proof.
  intros Ha Hn. cbn [match_idx]. apply find_idx_first; [apply has_id_iff; exact Ha|].
  intros y Hy. destruct (has_id sch i y) eqn:E; [|reflexivity]. exfalso.
  apply has_id_iff in E. rewrite ids_app in Hn. cbn [ids map] in Hn.
  apply NoDup_remove_2 in Hn. apply Hn. apply in_or_app. left. rewrite Ha, <- E. apply in_map. exact Hy.
Qed.

Lemma match_idx_absent f i : ~ In (Some i) (ids f) -> match_idx sch f (Some i) = None.
Proof.
  intro H. cbn [match_idx]. destruct (find_idx (has_id sch i) f) as [k|] eqn:E; [|reflexivity]. exfalso.
  apply find_idx_split in E. destruct E as [l1 [x [l2 [-> [_ [Hx _]]]]]]. apply has_id_iff in Hx.
  apply H. rewrite <- Hx. apply in_map, in_or_app. right. left. reflexivity.
Qed.

(* a permutation that exposes one element gives a split *)
Lemma perm_split {A} (cur : list A) a rest :
  Permutation cur (a :: rest) -> exists l1 l2, cur = l1 ++ a :: l2 /\ Permutation (l1 ++ l2) rest.
Proof.
  intro H. assert (Hin : In a cur) by (apply (Permutation_in _ (Permutation_sym H)); left; reflexivity).
  apply in_split in Hin. destruct Hin as [l1 [l2 ->]]. exists l1, l2. split; [reflexivity|].
  apply Permutation_cons_inv with (a := a). rewrite <- H. apply Permutation_middle.
Qed.

(* ------------------------------------------------------------------------------------------- *)
(* sorted siblings under removal and replacement                                                 *)
(* ------------------------------------------------------------------------------------------- *)
Lemma Adj_remove {A} (R : A -> A -> Prop) (Ht : forall a b c, R a b -> R b c -> R a c) :
  forall l1 x l2, Adj R (l1 ++ x :: l2) -> Adj R (l1 ++ l2).
Proof.
  induction l1 as [|a l1 IH]; intros x l2 H; cbn [app] in *.
  - apply (Adj_tail _ _ _ H).
  - destruct l1 as [|b l1]; cbn [app] in *.
    + destruct l2 as [|c l2]; [constructor|].
      pose proof (Adj_head _ _ _ _ H) as H1. pose proof (Adj_tail _ _ _ H) as H2.
      constructor; [apply (Ht _ _ _ H1 (Adj_head _ _ _ _ H2))|apply (Adj_tail _ _ _ H2)].
    + constructor; [apply (Adj_head _ _ _ _ H)|]. apply (IH x l2). apply (Adj_tail _ _ _ H).
Qed.

Lemma Adj_replace {A} (R : A -> A -> Prop) x y :
  (forall z, R z x -> R z y) -> (forall z, R x z -> R y z) ->
  forall l1 l2, Adj R (l1 ++ x :: l2) -> Adj R (l1 ++ y :: l2).
Proof.
  intros H1 H2. induction l1 as [|a l1 IH]; intros l2 H; cbn [app] in *.
  - destruct l2 as [|c l2]; [constructor|].
    constructor; [apply H2, (Adj_head _ _ _ _ H)|apply (Adj_tail _ _ _ H)].
  - destruct l1 as [|b l1]; cbn [app] in *.
    + constructor; [apply H1, (Adj_head _ _ _ _ H)|]. apply (IH l2). apply (Adj_tail _ _ _ H).
    + constructor; [apply (Adj_head _ _ _ _ H)|]. apply (IH l2). apply (Adj_tail _ _ _ H).
Qed.

Lemma sib_ok_congr_r x y z :
  d_sid x = d_sid y -> (multi sch (d_sid x) = true -> node_key sch x = node_key sch y) ->
  sib_ok sch z x -> sib_ok sch z y.
Proof.
  unfold sib_ok. intros Es Hk [H|[E [M S]]]; [left; congruence|right].
  assert (M' : multi sch (d_sid x) = true) by congruence.
  repeat split; [congruence|assumption|]. intro Hs. unfold node_cmp in *. rewrite <- (Hk M'). apply S, Hs.
Qed.

Lemma sib_ok_congr_l x y z :
  d_sid x = d_sid y -> (multi sch (d_sid x) = true -> node_key sch x = node_key sch y) ->
  sib_ok sch x z -> sib_ok sch y z.
Proof.
  unfold sib_ok. intros Es Hk [H|[E [M S]]]; [left; congruence|right].
  repeat split; [congruence|congruence|]. intro Hs. unfold node_cmp in *. rewrite <- (Hk M). apply S. congruence.
Qed.

Lemma Adj_replace_same l1 x y l2 :
  d_sid x = d_sid y -> (multi sch (d_sid x) = true -> node_key sch x = node_key sch y) ->
  Adj (sib_ok sch) (l1 ++ x :: l2) -> Adj (sib_ok sch) (l1 ++ y :: l2).
Proof.
  intros Es Hk. apply Adj_replace.
  - intros z. apply sib_ok_congr_r; assumption.
  - intros z. apply sib_ok_congr_l; assumption.
Qed.

Lemma Adj_of_strong {A} (R : A -> A -> Prop) l : StronglySorted R l -> Adj R l.
Proof.
  induction 1 as [|a l Hs IH Hf]; [constructor|].
  destruct l as [|b l]; [constructor|]. constructor; [inversion Hf; assumption|exact IH].
Qed.

(* sorted siblings with unique identities on which the order tells identities apart are determined by their
   elements *)
Definition OrdId (f : forest) : Prop :=
  forall x y, In x f -> In y f -> sib_ok sch x y -> sib_ok sch y x -> inst_id sch x = inst_id sch y.

Record SibOk (f : forest) : Prop := {
  so_adj : Adj (sib_ok sch) f;
  so_nodup : NoDup (ids f);
  so_ordid : OrdId f
}.

Lemma canon_ext : forall f g,
  Adj (sib_ok sch) f -> Adj (sib_ok sch) g -> NoDup (ids g) -> OrdId g -> Permutation f g -> f = g.
Proof.
  intros f g Hf Hg. apply (Adj_strong _ (sib_ok_trans sch)) in Hf. apply (Adj_strong _ (sib_ok_trans sch)) in Hg.
  revert g Hg. induction Hf as [|x f' Hs IH Hfa]; intros g Hg Hn Ho Hp.
  - apply Permutation_nil in Hp. congruence.
  - destruct g as [|y g']; [apply Permutation_sym, Permutation_nil in Hp; discriminate|].
    assert (Exy : x = y).
    { destruct (in_inv (Permutation_in _ Hp (or_introl eq_refl))) as [E|Hxg]; [congruence|].
      assert (Hyf : In y (x :: f')) by (apply (Permutation_in _ (Permutation_sym Hp)); left; reflexivity).
      destruct Hyf as [E|Hyf]; [congruence|].
      inversion Hg as [|? ? _ Hga]; subst.
      rewrite Forall_forall in Hfa, Hga.
      apply (NoDup_map_in_eq (inst_id sch) (y :: g')); [exact Hn|right; exact Hxg|left; reflexivity|].
      apply Ho; [right; exact Hxg|left; reflexivity|apply Hfa, Hyf|apply Hga, Hxg]. }
    subst y. f_equal. inversion Hg; subst. apply IH.
    + assumption.
    + cbn [ids map] in Hn. inversion Hn; assumption.
    + intros a b Ha Hb. apply Ho; right; assumption.
    + apply Permutation_cons_inv in Hp. exact Hp.
Qed.

(* ------------------------------------------------------------------------------------------- *)
(* what one diff node does to the siblings                                                       *)
(* ------------------------------------------------------------------------------------------- *)
Definition st (o : option dnode) : bool := match o with Some x => d_dflt x | None => true end.

(* [step] turns the instance [oa] with identity [i] into [ob] (absent = None), leaves the other siblings alone,
   keeps the siblings sorted, and its default-flag requests describe the change of that instance *)
Definition Transforms (step : forest -> res (forest * list sig)) (i : iid) (oa ob : option dnode) : Prop :=
  forall cur rest,
    Permutation cur (opt oa ++ rest) -> NoDup (ids cur) -> ~ In None (ids cur) -> ~ In (Some i) (ids rest) ->
    Adj (sib_ok sch) cur ->
    exists cur' sg,
      step cur = Ok (cur', sg) /\ Permutation cur' (opt ob ++ rest) /\ Adj (sib_ok sch) cur' /\
      sigs_ok (forallb d_dflt rest) sg /\ sig_status (st oa) sg = st ob.

Lemma apply_r_delete inh d f :
  eff_op inh (dd_op d) = Some OpDelete ->
  apply_r sch inh d f =
    match match_idx sch f (dd_id sch d) with
    | None => Err e_inval
    | Some i => let f' := remove_nth i f in Ok (f', [SSet (forallb d_dflt f')])
    end.
Proof. destruct d as [s v fl op od ov ch]. cbn [apply_r dd_op]. intros ->. reflexivity. Qed.

Lemma transforms_delete inh d a i :
  eff_op inh (dd_op d) = Some OpDelete -> dd_id sch d = Some i -> inst_id sch a = Some i ->
  Transforms (apply_r sch inh d) i (Some a) None.
Proof.
  intros He Hd Ha cur rest Hp Hn Hsome Hni Hadj. cbn [opt app] in Hp.
  destruct (perm_split _ _ _ Hp) as [l1 [l2 [-> Hp']]].
  rewrite (apply_r_delete _ _ _ He), Hd, (match_idx_split _ _ _ _ Ha Hn). cbn zeta.
  rewrite remove_nth_split. eexists _, _. split; [reflexivity|].
  split; [exact Hp'|]. split; [apply (Adj_remove _ (sib_ok_trans sch) _ _ _ Hadj)|].
  split; [|reflexivity].
  apply sigs_ok_cons. split; [apply forallb_perm; exact Hp'|apply sigs_ok_nil].
Qed.

Lemma apply_r_replace inh d f :
  eff_op inh (dd_op d) = Some OpReplace -> kind_of sch (dd_sid d) = KLeaf ->
  apply_r sch inh d f =
    match match_idx sch f (dd_id sch d) with
    | None => Err e_inval
    | Some i =>
        let m := nth i f (DN (dd_sid d) (dd_val d) (dd_dflt d) [] []) in
        if beq_bytes (dd_val d) (d_val m) && negb (d_dflt m) then Err e_inval
        else Ok (replace_nth i f (set_dflt (set_val m (dd_val d)) (dd_dflt d)),
                 (if d_dflt m then [SDel] else []) ++
                 [if dd_dflt d then SSet (others d_dflt i f) else SDel])
    end.
Proof.
  destruct d as [s v fl op od ov ch]. cbn [apply_r dd_op dd_sid dd_val dd_dflt]. intros -> ->. reflexivity.
Qed.

Lemma multi_leaf s : kind_of sch s = KLeaf -> multi sch s = false.
Proof. unfold multi. intros ->. reflexivity. Qed.

Lemma d_sid_set_dflt n f : d_sid (set_dflt n f) = d_sid n.
Proof. destruct n; reflexivity. Qed.
Lemma d_sid_set_val n v : d_sid (set_val n v) = d_sid n.
Proof. destruct n; reflexivity. Qed.
Lemma d_sid_set_ch n c : d_sid (set_ch n c) = d_sid n.
Proof. destruct n; reflexivity. Qed.
Lemma d_dflt_set_dflt n f : d_dflt (set_dflt n f) = f.
Proof. destruct n; reflexivity. Qed.
Lemma node_key_set_dflt n f : node_key sch (set_dflt n f) = node_key sch n.
Proof. destruct n; reflexivity. Qed.

Lemma transforms_replace inh d a i :
  eff_op inh (dd_op d) = Some OpReplace -> kind_of sch (dd_sid d) = KLeaf ->
  dd_id sch d = Some i -> inst_id sch a = Some i -> d_sid a = dd_sid d ->
  beq_bytes (dd_val d) (d_val a) && negb (d_dflt a) = false ->
  Transforms (apply_r sch inh d) i (Some a) (Some (set_dflt (set_val a (dd_val d)) (dd_dflt d))).
Proof.
  intros He Hk Hd Ha Hs Hne cur rest Hp Hn Hsome Hni Hadj. cbn [opt app] in Hp.
  destruct (perm_split _ _ _ Hp) as [l1 [l2 [-> Hp']]].
  rewrite (apply_r_replace _ _ _ He Hk), Hd, (match_idx_split _ _ _ _ Ha Hn). cbn zeta.
  rewrite nth_split_at, Hne, replace_nth_split, others_split.
  eexists _, _. split; [reflexivity|].
  split; [cbn [opt app]; rewrite <- Hp'; symmetry; apply Permutation_middle|].
  split.
  { apply (Adj_replace_same l1 a _ l2); [rewrite d_sid_set_dflt, d_sid_set_val; reflexivity| |exact Hadj].
    intro M. rewrite Hs, (multi_leaf _ Hk) in M. discriminate. }
  split.
  - apply sigs_ok_app. split; [destruct (d_dflt a); [apply sigs_ok_cons; split; [exact I|apply sigs_ok_nil]|apply sigs_ok_nil]|].
    apply sigs_ok_cons. split; [|apply sigs_ok_nil].
    destruct (dd_dflt d); [apply forallb_perm; exact Hp'|exact I].
  - cbn [st]. rewrite d_dflt_set_dflt, sig_status_app.
    destruct (dd_dflt d); reflexivity.
Qed.

Lemma apply_r_none_term inh d f :
  eff_op inh (dd_op d) = Some OpNone -> is_term sch (dd_sid d) = true ->
  apply_r sch inh d f =
    match match_idx sch f (dd_id sch d) with
    | None => Err e_inval
    | Some i =>
        let m := nth i f (DN (dd_sid d) (dd_val d) (dd_dflt d) [] []) in
        Ok (replace_nth i f (set_dflt m (dd_dflt d)),
            [if dd_dflt d then SSet (others d_dflt i f) else SDel])
    end.
Proof.
  destruct d as [s v fl op od ov ch]. cbn [apply_r dd_op dd_sid dd_val dd_dflt]. intros -> ->. reflexivity.
Qed.

Lemma transforms_none_term inh d a i :
  eff_op inh (dd_op d) = Some OpNone -> is_term sch (dd_sid d) = true ->
  dd_id sch d = Some i -> inst_id sch a = Some i ->
  Transforms (apply_r sch inh d) i (Some a) (Some (set_dflt a (dd_dflt d))).
Proof.
  intros He Hk Hd Ha cur rest Hp Hn Hsome Hni Hadj. cbn [opt app] in Hp.
  destruct (perm_split _ _ _ Hp) as [l1 [l2 [-> Hp']]].
  rewrite (apply_r_none_term _ _ _ He Hk), Hd, (match_idx_split _ _ _ _ Ha Hn). cbn zeta.
  rewrite nth_split_at, replace_nth_split, others_split.
  eexists _, _. split; [reflexivity|].
  split; [cbn [opt app]; rewrite <- Hp'; symmetry; apply Permutation_middle|].
  split.
  { apply (Adj_replace_same l1 a _ l2); [rewrite d_sid_set_dflt; reflexivity| |exact Hadj].
    intros _. rewrite node_key_set_dflt. reflexivity. }
  split.
  - apply sigs_ok_cons. split; [|apply sigs_ok_nil].
    destruct (dd_dflt d); [apply forallb_perm; exact Hp'|exact I].
  - cbn [st]. rewrite d_dflt_set_dflt. destruct (dd_dflt d); reflexivity.
Qed.

Lemma apply_r_none_inner inh d f :
  eff_op inh (dd_op d) = Some OpNone -> is_term sch (dd_sid d) = false ->
  apply_r sch inh d f =
    match match_idx sch f (dd_id sch d) with
    | None => Err e_inval
    | Some i =>
        let m := nth i f (DN (dd_sid d) (dd_val d) (dd_dflt d) [] []) in
        if negb (has_nokey_child sch (dd_ch d)) then Err e_inval
        else
          match apply_children sch (apply_r sch (child_inh inh (dd_op d))) (is_np_cont sch (dd_sid d))
                               (others d_dflt i f) true (dd_ch d) (d_ch m) (d_dflt m) [] with
          | Err e' => Err e'
          | Ok (ch', fl', up) => Ok (replace_nth i f (set_dflt (set_ch m ch') fl'), up)
          end
    end.
Proof.
  destruct d as [s v fl op od ov ch]. cbn [apply_r dd_op dd_sid dd_val dd_dflt dd_ch]. intros -> ->. reflexivity.
Qed.

(* the children-level fact a none on an inner node needs: applying the child diff nodes to the children [cha] with
   parent flag [fla] gives children [chb] and flag [flb] whatever the siblings of the parent look like *)
Definition ChildrenOk (inh : option dop) (np : bool) (dch : list dd) (cha : forest) (fla : bool) (chb : forest) (flb : bool)
  : Prop :=
  forall oup, exists ups,
    apply_children sch (apply_r sch inh) np oup true dch cha fla [] = Ok (chb, flb, ups) /\
    sigs_ok oup ups /\ sig_status fla ups = flb.

Lemma transforms_none_inner inh d a i chb flb :
  eff_op inh (dd_op d) = Some OpNone -> is_term sch (dd_sid d) = false ->
  dd_id sch d = Some i -> inst_id sch a = Some i ->
  has_nokey_child sch (dd_ch d) = true ->
  ChildrenOk (child_inh inh (dd_op d)) (is_np_cont sch (dd_sid d)) (dd_ch d) (d_ch a) (d_dflt a) chb flb ->
  (multi sch (d_sid a) = true -> node_key sch a = node_key sch (set_dflt (set_ch a chb) flb)) ->
  Transforms (apply_r sch inh d) i (Some a) (Some (set_dflt (set_ch a chb) flb)).
Proof.
  intros He Hk Hd Ha Hc Hch Hkey cur rest Hp Hn Hsome Hni Hadj. cbn [opt app] in Hp.
  destruct (perm_split _ _ _ Hp) as [l1 [l2 [-> Hp']]].
  rewrite (apply_r_none_inner _ _ _ He Hk), Hd, (match_idx_split _ _ _ _ Ha Hn). cbn zeta.
  rewrite nth_split_at, Hc, others_split. cbn [negb].
  destruct (Hch (forallb d_dflt (l1 ++ l2))) as [ups [E [Hok Hst]]]. rewrite E, replace_nth_split.
  eexists _, _. split; [reflexivity|].
  split; [cbn [opt app]; rewrite <- Hp'; symmetry; apply Permutation_middle|].
  split.
  { apply (Adj_replace_same l1 a _ l2); [rewrite d_sid_set_dflt, d_sid_set_ch; reflexivity|exact Hkey|exact Hadj]. }
  split.
  - rewrite <- (forallb_perm _ _ _ Hp'). exact Hok.
  - cbn [st]. rewrite d_dflt_set_dflt. exact Hst.
Qed.

Lemma apply_r_create_term inh d f :
  eff_op inh (dd_op d) = Some OpCreate -> is_term sch (dd_sid d) = true ->
  apply_r sch inh d f =
    let keys' := match kind_of sch (dd_sid d) with KList => map dd_node (dd_leadkeys sch (dd_ch d)) | _ => [] end in
    let fl0 := dd_dflt d && forallb d_dflt keys' in
    Ok (insert_node sch f (DN (dd_sid d) (dd_val d) fl0 [] []), if fl0 then [] else [SDel]).
Proof.
  destruct d as [s v fl op od ov ch]. cbn [apply_r dd_op dd_sid dd_val dd_dflt dd_ch]. intros -> ->. reflexivity.
Qed.

Lemma apply_r_create_inner inh d f :
  eff_op inh (dd_op d) = Some OpCreate -> is_term sch (dd_sid d) = false ->
  apply_r sch inh d f =
    let keys' := match kind_of sch (dd_sid d) with KList => map dd_node (dd_leadkeys sch (dd_ch d)) | _ => [] end in
    let fl0 := dd_dflt d && forallb d_dflt keys' in
    match apply_children sch (apply_r sch (child_inh inh (dd_op d))) (is_np_cont sch (dd_sid d)) (forallb d_dflt f)
                         true (dd_ch d) keys' fl0 [] with
    | Err e' => Err e'
    | Ok (ch', fl', up) =>
        Ok (insert_node sch f (DN (dd_sid d) (dd_val d) fl' [] ch'), (if fl0 then [] else [SDel]) ++ up)
    end.
Proof.
  destruct d as [s v fl op od ov ch]. cbn [apply_r dd_op dd_sid dd_val dd_dflt dd_ch]. intros -> ->. reflexivity.
Qed.

(* a node that is not an instance of a (leaf-)list is identified by its schema node alone *)
Lemma inst_id_single n : multi sch (d_sid n) = false -> inst_id sch n = Some (IdNode (d_sid n)) \/ inst_id sch n = None.
Proof.
  unfold inst_id, multi. destruct (dup_inst sch (d_sid n)); [right; reflexivity|].
  destruct (kind_of sch (d_sid n)); intro H; try discriminate; left; reflexivity.
Qed.

Lemma insertable_of_absent cur b i :
  inst_id sch b = Some i -> ~ In (Some i) (ids cur) -> ~ In None (ids cur) -> insertable sch cur b.
Proof.
  intros Hb Hni Hs. unfold insertable. destruct (multi sch (d_sid b)) eqn:M; [left; reflexivity|right].
  intros x Hx E. apply Hni.
  destruct (inst_id_single b M) as [Eb|Eb]; [|congruence].
  assert (Mx : multi sch (d_sid x) = false) by congruence.
  destruct (inst_id_single x Mx) as [Ex|Ex]; [|exfalso; apply Hs; rewrite <- Ex; apply in_map; exact Hx].
  assert (H : Some i = inst_id sch x) by congruence. rewrite H. apply in_map. exact Hx.
Qed.

Lemma transforms_create inh d b i :
  inst_id sch b = Some i ->
  (forall f, exists sg, apply_r sch inh d f = Ok (insert_node sch f b, sg) /\
                        sigs_ok (forallb d_dflt f) sg /\ sig_status true sg = d_dflt b) ->
  Transforms (apply_r sch inh d) i None (Some b).
Proof.
  intros Hb Hap cur rest Hp Hn Hsome Hni Hadj. cbn [opt app] in Hp.
  destruct (Hap cur) as [sg [E [Hok Hst]]]. exists (insert_node sch cur b), sg.
  split; [exact E|]. split; [cbn [opt app]; rewrite <- (insert_node_perm sch cur b); constructor; exact Hp|].
  split.
  { apply insert_node_adj; [exact Hadj|]. apply (insertable_of_absent _ _ i Hb); [|exact Hsome].
    intro Hin. apply Hni. apply (Permutation_in _ (ids_perm _ _ Hp)). exact Hin. }
  split; [rewrite <- (forallb_perm _ _ _ Hp); exact Hok|exact Hst].
Qed.

(* ------------------------------------------------------------------------------------------- *)
(* well-formed trees                                                                             *)
(* ------------------------------------------------------------------------------------------- *)
Lemma userordered_dup_inst s : userordered sch s = false -> dup_inst sch s = false.
Proof.
  unfold userordered, dup_inst. destruct (si_kind (sget sch s)); try reflexivity.
  - destruct (si_userord (sget sch s)), (si_config (sget sch s)); cbn; try discriminate; reflexivity.
  - destruct (si_userord (sget sch s)), (si_config (sget sch s)), (si_keys (sget sch s)); cbn; try discriminate; reflexivity.
Qed.

Lemma inst_id_some_uo n : userordered sch (d_sid n) = false -> exists i, inst_id sch n = Some i.
Proof.
  intro H. unfold inst_id. rewrite (userordered_dup_inst _ H). destruct (kind_of sch (d_sid n)); eexists; reflexivity.
Qed.

Lemma is_nilb_nil {A} (l : list A) : is_nilb l = true -> l = [].
Proof. destruct l; [reflexivity|discriminate]. Qed.

Lemma uniq_nodup f : uniq_idsb_list sch f = true -> ~ In None (ids f) -> NoDup (ids f).
Proof.
  induction f as [|n f IH]; intros Hu Hs; [constructor|].
  cbn [uniq_idsb_list] in Hu. apply andb_true_iff in Hu. destruct Hu as [H1 H2]. apply negb_true_iff in H1.
  cbn [ids map] in *. constructor.
  - intro Hin. destruct (inst_id sch n) as [i|] eqn:Ei; [|apply Hs; left; reflexivity].
    apply in_map_iff in Hin. destruct Hin as [y [Ey Hy]].
    assert (Hex : existsb (same_inst sch n) f = true).
    { apply existsb_exists. exists y. split; [exact Hy|]. unfold same_inst. rewrite Ei. apply has_id_iff. exact Ey. }
    congruence.
  - apply IH; [exact H2|]. intro Hin. apply Hs. right. exact Hin.
Qed.

Lemma same_idb_eq x y : same_idb sch x y = true -> inst_id sch x = inst_id sch y.
Proof.
  unfold same_idb. destruct (inst_id sch x), (inst_id sch y); intro H; try discriminate; [|reflexivity].
  apply iid_eqb_eq in H. congruence.
Qed.

Lemma ord_idb_spec f : ord_idb sch f = true -> OrdId f.
Proof.
  unfold ord_idb, OrdId. intros H x y Hx Hy H1 H2. rewrite forallb_forall in H. specialize (H x Hx).
  rewrite forallb_forall in H. specialize (H y Hy).
  apply (proj2 (sib_okb_spec sch x y)) in H1. apply (proj2 (sib_okb_spec sch y x)) in H2. rewrite H1, H2 in H.
  cbn in H. apply same_idb_eq. exact H.
Qed.

(* all nodes of a forest are in the fragment: every identity exists *)
Definition AllSome (f : forest) : Prop := ~ In None (ids f).

Lemma sibs_okb_spec f : sibs_okb sch f = true -> AllSome f -> SibOk f.
Proof.
  unfold sibs_okb. intros H Hs. apply andb_true_iff in H. destruct H as [H H3]. apply andb_true_iff in H. destruct H as [H1 H2].
  constructor.
  - apply (adjb_spec _ _ (sib_okb_spec sch)). exact H1.
  - apply uniq_nodup; assumption.
  - apply ord_idb_spec. exact H3.
Qed.

Lemma wf_node_userord n : wf_node sch n = true -> userordered sch (d_sid n) = false.
Proof.
  destruct n as [s v d m ch]. cbn [wf_node d_sid]. intro H.
  repeat (apply andb_true_iff in H; destruct H as [H ?]).
  apply negb_true_iff. assumption.
Qed.

Lemma wf_allsome f : forallb (wf_node sch) f = true -> AllSome f.
Proof.
  unfold AllSome, ids. intros H Hin. apply in_map_iff in Hin. destruct Hin as [x [Ex Hx]].
  rewrite forallb_forall in H. destruct (inst_id_some_uo x (wf_node_userord _ (H x Hx))) as [i Ei]. congruence.
Qed.

(* everything [wf_node] says about one node *)
Record WfNode (s : sid) (v : bytes) (d : bool) (m : list (bytes * bytes)) (ch : forest) : Prop := {
  wn_meta : m = [];
  wn_uo : userordered sch s = false;
  wn_kind : match kind_of sch s with
            | KAny => False
            | KCont false => d = forallb d_dflt ch /\ v = [] /\ (forall c, In c ch -> is_key sch (d_sid c) = false)
            | KCont true => d = false /\ v = [] /\ (forall c, In c ch -> is_key sch (d_sid c) = false)
            | KList => d = false /\ v = [] /\ (forall c, In c (nokeys sch ch) -> is_key sch (d_sid c) = false) /\
                       (forall k, In k (si_keys (sget sch s)) -> (exists c, In c ch /\ d_sid c = k) /\ kind_of sch k = KLeaf)
            | KLeaf | KLeafList => ch = [] /\ (is_key sch s = true -> d = false)
            end;
  wn_parent : forall c, In c ch -> si_parent (sget sch (d_sid c)) = Some s;
  wn_sibs : SibOk ch;
  wn_ch : forallb (wf_node sch) ch = true
}.

Lemma wf_node_inv s v d m ch : wf_node sch (DN s v d m ch) = true -> WfNode s v d m ch.
Proof.
  cbn [wf_node]. intro H.
  apply andb_true_iff in H. destruct H as [H Hch].
  apply andb_true_iff in H. destruct H as [H Hsib].
  apply andb_true_iff in H. destruct H as [H Hpar].
  apply andb_true_iff in H. destruct H as [H Hkind].
  apply andb_true_iff in H. destruct H as [Hm Huo].
  constructor.
  - apply is_nilb_nil. exact Hm.
  - apply negb_true_iff. exact Huo.
  - destruct (kind_of sch s) as [[|]| | | |].
    + repeat (apply andb_true_iff in Hkind; destruct Hkind as [Hkind ?]).
      apply negb_true_iff in Hkind. repeat split; [assumption|apply is_nilb_nil; assumption|].
      intros c Hc. rewrite forallb_forall in H. apply negb_true_iff. apply H, Hc.
    + repeat (apply andb_true_iff in Hkind; destruct Hkind as [Hkind ?]).
      apply Bool.eqb_prop in Hkind. repeat split; [assumption|apply is_nilb_nil; assumption|].
      intros c Hc. rewrite forallb_forall in H. apply negb_true_iff. apply H, Hc.
    + apply andb_true_iff in Hkind. destruct Hkind as [H1 H2]. split; [apply is_nilb_nil; exact H1|].
      intro Hk. rewrite Hk in H2. cbn in H2. apply negb_true_iff. exact H2.
    + apply andb_true_iff in Hkind. destruct Hkind as [H1 H2]. split; [apply is_nilb_nil; exact H1|].
      intro Hk. rewrite Hk in H2. cbn in H2. apply negb_true_iff. exact H2.
    + repeat (apply andb_true_iff in Hkind; destruct Hkind as [Hkind ?]).
      apply negb_true_iff in Hkind. split; [assumption|]. split; [apply is_nilb_nil; assumption|]. split.
      * intros c Hc. rewrite forallb_forall in H0. apply negb_true_iff. apply H0, Hc.
      * intros k Hk. rewrite forallb_forall in H. specialize (H k Hk). apply andb_true_iff in H. destruct H as [H Hkk].
        split; [|destruct (kind_of sch k); try discriminate; reflexivity].
        apply existsb_exists in H.
        destruct H as [c [Hc E]]. apply N.eqb_eq in E. exists c. split; assumption.
    + discriminate.
  - intros c Hc. rewrite forallb_forall in Hpar. apply opt_sid_eqb_eq. apply Hpar, Hc.
  - apply sibs_okb_spec; [exact Hsib|apply wf_allsome; exact Hch].
  - exact Hch.
Qed.

(* a forest of well-formed siblings *)
Record WfSibs (f : forest) : Prop := {
  ws_sibs : SibOk f;
  ws_nodes : forallb (wf_node sch) f = true
}.

Lemma wf_children s v d m ch : wf_node sch (DN s v d m ch) = true -> WfSibs ch.
Proof. intro H. apply wf_node_inv in H. constructor; [apply (wn_sibs _ _ _ _ _ H)|apply (wn_ch _ _ _ _ _ H)]. Qed.

Lemma wfb_sibs f : wfb sch f = true -> WfSibs f.
Proof.
  unfold wfb. intro H. apply andb_true_iff in H. destruct H as [H H3]. apply andb_true_iff in H. destruct H as [H1 H2].
  constructor; [apply sibs_okb_spec; [exact H2|apply wf_allsome; exact H3]|exact H3].
Qed.

(* ------------------------------------------------------------------------------------------- *)
(* lift / dd_node                                                                                *)
(* ------------------------------------------------------------------------------------------- *)
Lemma dd_sid_lift n : dd_sid (lift n) = d_sid n.
Proof. destruct n; reflexivity. Qed.

Lemma lift_unfold s v d m ch :
  lift (DN s v d m ch) = DD s v (d && forallb dd_dflt (map lift ch)) None None None (map lift ch).
Proof. reflexivity. Qed.

Lemma forallb_map {A B} (f : A -> B) (p : B -> bool) l : forallb p (map f l) = forallb (fun x => p (f x)) l.
Proof. induction l; cbn; congruence. Qed.

Lemma forallb_ext_in {A} (p q : A -> bool) l : (forall x, In x l -> p x = q x) -> forallb p l = forallb q l.
Proof.
  induction l as [|a l IH]; intro H; cbn; [reflexivity|].
  rewrite (H a (or_introl eq_refl)), IH; [reflexivity|]. intros x Hx. apply H. right. exact Hx.
Qed.

(* on a well-formed tree the duplication keeps every default flag *)
Lemma dd_dflt_lift n : wf_node sch n = true -> dd_dflt (lift n) = d_dflt n.
Proof.
  induction n as [s v d m ch IH] using dnode_ind'. intro H. rewrite lift_unfold. cbn [dd_dflt d_dflt].
  pose proof (wf_node_inv _ _ _ _ _ H) as W.
  assert (E : forallb dd_dflt (map lift ch) = forallb d_dflt ch).
  { rewrite forallb_map. apply forallb_ext_in. intros x Hx. rewrite Forall_forall in IH. apply IH; [exact Hx|].
    pose proof (wn_ch _ _ _ _ _ W) as Hc. rewrite forallb_forall in Hc. apply Hc, Hx. }
  rewrite E. pose proof (wn_kind _ _ _ _ _ W) as K.
  destruct (kind_of sch s) as [[|]| | | |].
  - destruct K as [-> _]. reflexivity.
  - destruct K as [-> _]. destruct (forallb d_dflt ch); reflexivity.
  - destruct K as [-> _]. cbn. apply andb_true_r.
  - destruct K as [-> _]. cbn. apply andb_true_r.
  - destruct K as [-> _]. reflexivity.
  - destruct K.
Qed.

Lemma dd_node_lift n : wf_node sch n = true -> dd_node (lift n) = n.
Proof.
  induction n as [s v d m ch IH] using dnode_ind'. intro H.
  pose proof (dd_dflt_lift _ H) as Hd. rewrite lift_unfold in *. cbn [dd_node dd_dflt d_dflt] in *.
  pose proof (wf_node_inv _ _ _ _ _ H) as W. rewrite Hd, (wn_meta _ _ _ _ _ W). f_equal.
  rewrite map_map. rewrite <- (map_id ch) at 2. apply map_ext_in. intros x Hx.
  rewrite Forall_forall in IH. apply IH; [exact Hx|].
  pose proof (wn_ch _ _ _ _ _ W) as Hc. rewrite forallb_forall in Hc. apply Hc, Hx.
Qed.

Lemma dd_id_lift n : wf_node sch n = true -> dd_id sch (lift n) = inst_id sch n.
Proof. intro H. unfold dd_id. rewrite (dd_node_lift _ H). reflexivity. Qed.

Lemma dd_node_set_op d o : dd_node (dd_set_op d o) = dd_node d.
Proof. destruct d; reflexivity. Qed.

Lemma dd_id_set_op d o : dd_id sch (dd_set_op d o) = dd_id sch d.
Proof. unfold dd_id. rewrite dd_node_set_op. reflexivity. Qed.

(* ------------------------------------------------------------------------------------------- *)
(* insertion behind sorted siblings                                                              *)
(* ------------------------------------------------------------------------------------------- *)
Lemma sib_ok_not_goes_before x n : sib_ok sch x n -> goes_before sch n x = false.
Proof.
  unfold sib_ok, goes_before. intros [H|[E [M S]]].
  - apply orb_false_iff. split; [apply N.ltb_ge; lia|].
    replace (d_sid n =? d_sid x) with false; [reflexivity|]. symmetry. apply N.eqb_neq. lia.
  - apply orb_false_iff. split; [apply N.ltb_ge; lia|].
    rewrite <- E, N.eqb_refl. cbn [andb]. destruct (sorted_sid sch (d_sid x)) eqn:Es; [|reflexivity].
    cbn [andb]. apply is_gt_false. apply S. reflexivity.
Qed.

Lemma insert_node_at_end l n : Adj (sib_ok sch) (l ++ [n]) -> insert_node sch l n = l ++ [n].
Proof.
  intro H. apply (Adj_strong _ (sib_ok_trans sch)) in H.
  induction l as [|x l IH]; [reflexivity|].
  cbn [app] in H. inversion H as [|? ? Hs Hf]; subst. cbn [insert_node app].
  rewrite sib_ok_not_goes_before; [rewrite (IH Hs); reflexivity|].
  rewrite Forall_forall in Hf. apply Hf. apply in_or_app. right. left. reflexivity.
Qed.

(* ------------------------------------------------------------------------------------------- *)
(* create: applying the duplicated subtree of a well-formed node inserts exactly that node        *)
(* ------------------------------------------------------------------------------------------- *)
Lemma lead_nokeys l : l = leadkeys sch l ++ nokeys sch l.
Proof.
  induction l as [|x l IH]; [reflexivity|]. cbn [leadkeys nokeys].
  destruct (is_key sch (d_sid x)); [cbn [app]; f_equal; exact IH|reflexivity].
Qed.

Lemma dd_nokeys_map_lift l : dd_nokeys sch (map lift l) = map lift (nokeys sch l).
Proof.
  induction l as [|x l IH]; [reflexivity|]. cbn [map dd_nokeys nokeys]. rewrite dd_sid_lift.
  destruct (is_key sch (d_sid x)); [exact IH|reflexivity].
Qed.

Lemma dd_leadkeys_map_lift l : dd_leadkeys sch (map lift l) = map lift (leadkeys sch l).
Proof.
  induction l as [|x l IH]; [reflexivity|]. cbn [map dd_leadkeys leadkeys]. rewrite dd_sid_lift.
  destruct (is_key sch (d_sid x)); [cbn [map]; f_equal; exact IH|reflexivity].
Qed.

Lemma leadkeys_in l x : In x (leadkeys sch l) -> In x l /\ is_key sch (d_sid x) = true.
Proof.
  induction l as [|y l IH]; [intros []|]. cbn [leadkeys]. destruct (is_key sch (d_sid y)) eqn:E; [|intros []].
  intros [->|H]; [split; [left; reflexivity|exact E]|]. destruct (IH H). split; [right|]; assumption.
Qed.

Lemma leadkeys_none l : (forall c, In c l -> is_key sch (d_sid c) = false) -> leadkeys sch l = [].
Proof.
  destruct l as [|x l]; [reflexivity|]. intro H. cbn [leadkeys]. rewrite (H x (or_introl eq_refl)). reflexivity.
Qed.

Lemma nokeys_in l x : In x (nokeys sch l) -> In x l.
Proof.
  induction l as [|y l IH]; [intros []|]. cbn [nokeys]. destruct (is_key sch (d_sid y)); [intro H; right; apply IH, H|auto].
Qed.

Lemma apply_children_lead step np oup : forall l cur fl up,
  apply_children sch step np oup true l cur fl up = apply_children sch step np oup false (dd_nokeys sch l) cur fl up.
Proof.
  induction l as [|c l IH]; intros cur fl up; [reflexivity|].
  cbn [apply_children dd_nokeys]. cbn [andb]. destruct (is_key sch (dd_sid c)) eqn:E.
  - apply IH.
  - cbn [apply_children]. cbn [andb]. reflexivity.
Qed.

Lemma apply_children_false_cons step np oup c l cur fl up :
  apply_children sch step np oup false (c :: l) cur fl up =
  match step c cur with
  | Err e => Err e
  | Ok (cur', sg) => let '(fl', ups) := walks np fl oup sg in apply_children sch step np oup false l cur' fl' (up ++ ups)
  end.
Proof. reflexivity. Qed.

Lemma Adj_app_l {A} (R : A -> A -> Prop) l1 l2 : Adj R (l1 ++ l2) -> Adj R l1.
Proof.
  induction l1 as [|a l1 IH]; intro H; [constructor|].
  destruct l1 as [|b l1]; [constructor|]. cbn [app] in *.
  constructor; [apply (Adj_head _ _ _ _ H)|apply IH, (Adj_tail _ _ _ H)].
Qed.

Lemma create_children inh np oup : forall R pre fl,
  (forall r, In r R -> forall f, apply_r sch inh (lift r) f = Ok (insert_node sch f r, if d_dflt r then [] else [SDel])) ->
  Adj (sib_ok sch) (pre ++ R) -> (fl = true -> forall r, In r R -> d_dflt r = true) ->
  apply_children sch (apply_r sch inh) np oup false (map lift R) pre fl [] = Ok (pre ++ R, fl, []).
Proof.
  induction R as [|r R IH]; intros pre fl Hr Hadj Hfl.
  - cbn. rewrite app_nil_r. reflexivity.
  - cbn [map]. rewrite apply_children_false_cons, (Hr r (or_introl eq_refl)).
    assert (Hi : insert_node sch pre r = pre ++ [r]).
    { apply insert_node_at_end. apply (Adj_app_l _ (pre ++ [r]) R). rewrite <- app_assoc. exact Hadj. }
    rewrite Hi.
    assert (Hw : walks np fl oup (if d_dflt r then [] else [SDel]) = (fl, [])).
    { destruct (d_dflt r) eqn:Ed; [reflexivity|]. destruct fl; [|reflexivity].
      rewrite (Hfl eq_refl r (or_introl eq_refl)) in Ed. discriminate. }
    rewrite Hw. cbn [app]. rewrite (IH (pre ++ [r]) fl).
    + rewrite <- app_assoc. reflexivity.
    + intros x Hx. apply Hr. right. exact Hx.
    + rewrite <- app_assoc. exact Hadj.
    + intros E x Hx. apply (Hfl E). right. exact Hx.
Qed.

Lemma dd_set_op_lift_none n : dd_set_op (lift n) None = lift n.
Proof. destruct n; reflexivity. Qed.

Lemma child_inh_create inh op : eff_op inh op = Some OpCreate -> child_inh inh op = Some OpCreate.
Proof. destruct op as [[| | |]|]; cbn; intro H; try discriminate; assumption. Qed.

Lemma is_term_kind_of s : is_term sch s = is_term_kind (kind_of sch s).
Proof. reflexivity. Qed.

Theorem apply_create_lift b : wf_node sch b = true ->
  forall inh op f, eff_op inh op = Some OpCreate ->
  apply_r sch inh (dd_set_op (lift b) op) f = Ok (insert_node sch f b, if d_dflt b then [] else [SDel]).
Proof.
  induction b as [s v d m ch IH] using dnode_ind'. intros Hwf inh op f He.
  pose proof (dd_dflt_lift _ Hwf) as Hd. pose proof (wf_node_inv _ _ _ _ _ Hwf) as W.
  rewrite lift_unfold in *. cbn [dd_dflt d_dflt dd_set_op] in *. rewrite Hd.
  pose proof (wn_kind _ _ _ _ _ W) as K. pose proof (wn_meta _ _ _ _ _ W) as Hm. subst m.
  destruct (is_term sch s) eqn:Et.
  - rewrite apply_r_create_term; [|exact He|exact Et]. cbn [dd_sid dd_val dd_dflt dd_ch].
    rewrite is_term_kind_of in Et.
    destruct (kind_of sch s) as [[|]| | | |]; cbn in Et; try discriminate.
    + destruct K as [-> _]. cbn [forallb]. rewrite andb_true_r. reflexivity.
    + destruct K as [-> _]. cbn [forallb]. rewrite andb_true_r. reflexivity.
    + destruct K.
  - rewrite apply_r_create_inner; [|exact He|exact Et]. cbn [dd_sid dd_val dd_dflt dd_ch dd_op].
    rewrite (child_inh_create _ _ He), dd_leadkeys_map_lift, apply_children_lead, dd_nokeys_map_lift.
    pose proof (wn_ch _ _ _ _ _ W) as Hch. rewrite forallb_forall in Hch.
    assert (Hk : map dd_node (map lift (leadkeys sch ch)) = leadkeys sch ch).
    { rewrite map_map. rewrite <- (map_id (leadkeys sch ch)) at 2. apply map_ext_in. intros x Hx.
      apply dd_node_lift. apply Hch. apply (leadkeys_in _ _ Hx). }
    assert (Hkeys : match kind_of sch s with KList => map dd_node (map lift (leadkeys sch ch)) | _ => [] end = leadkeys sch ch
                    /\ d && forallb d_dflt (leadkeys sch ch) = d /\ (d = true -> forall r, In r ch -> d_dflt r = true)).
    { rewrite is_term_kind_of in Et.
      destruct (kind_of sch s) as [[|]| | | |]; cbn in Et; try discriminate.
      - destruct K as [-> [_ Hnk]]. rewrite (leadkeys_none _ Hnk). repeat split; discriminate.
      - destruct K as [Hdd [_ Hnk]]. rewrite (leadkeys_none _ Hnk). cbn [forallb]. rewrite andb_true_r.
        repeat split. intros E r Hr. rewrite E in Hdd. symmetry in Hdd. rewrite forallb_forall in Hdd. apply Hdd, Hr.
      - destruct K as [-> _]. rewrite Hk. repeat split. discriminate. }
    destruct Hkeys as [-> [Hfl0 Hall]]. rewrite Hfl0.
    rewrite (create_children (Some OpCreate) (is_np_cont sch s) (forallb d_dflt f) (nokeys sch ch) (leadkeys sch ch) d).
    + rewrite <- lead_nokeys, app_nil_r. reflexivity.
    + intros r Hr f'. apply nokeys_in in Hr. rewrite Forall_forall in IH.
      rewrite <- (dd_set_op_lift_none r). apply IH; [exact Hr|apply Hch, Hr|reflexivity].
    + rewrite <- lead_nokeys. apply (so_adj _ (wn_sibs _ _ _ _ _ W)).
    + intros E r Hr. apply (Hall E). apply nokeys_in. exact Hr.
Qed.

(* ------------------------------------------------------------------------------------------- *)
(* what a diff means: Sp (one node), LevelSp (one sibling level)                                  *)
(* ------------------------------------------------------------------------------------------- *)
(* a diff node together with the instance of the first / second siblings it is about *)
Record item := mkitem { it_d : dd; it_a : option dnode; it_b : option dnode }.

Definition itA (its : list item) : forest := flat_map (fun it => opt (it_a it)) its.
Definition itB (its : list item) : forest := flat_map (fun it => opt (it_b it)) its.
Definition itIds (its : list item) : list (option iid) := map (fun it => dd_id sch (it_d it)) its.

(* the diff nodes [ds] describe the change from the siblings [fa] to the siblings [fb]: every diff node is about one
   identity, different diff nodes about different ones, and the instances no diff node is about are the same on both
   sides.  No condition on the ORDER of [ds]. *)
Definition LevelSp (P : dd -> option dnode -> option dnode -> Prop) (ds : list dd) (fa fb : forest) : Prop :=
  exists its unch,
    ds = map it_d its /\ Forall (fun it => P (it_d it) (it_a it) (it_b it)) its /\ NoDup (itIds its) /\
    Permutation fa (itA its ++ unch) /\ Permutation fb (itB its ++ unch).

(* [Sp inh d oa ob]: under the inherited operation [inh] the diff node [d] says that the instance [oa] of the first
   siblings (None: absent) becomes [ob] *)
Inductive Sp : option dop -> dd -> option dnode -> option dnode -> Prop :=
| Sp_delete inh d a i :
    eff_op inh (dd_op d) = Some OpDelete -> inst_id sch a = Some i -> d = dd_set_op (lift a) (dd_op d) ->
    wf_node sch a = true ->
    Sp inh d (Some a) None
| Sp_create inh d b i :
    eff_op inh (dd_op d) = Some OpCreate -> inst_id sch b = Some i -> d = dd_set_op (lift b) (dd_op d) ->
    wf_node sch b = true ->
    Sp inh d None (Some b)
| Sp_replace inh d a i :
    eff_op inh (dd_op d) = Some OpReplace -> kind_of sch (dd_sid d) = KLeaf ->
    dd_id sch d = Some i -> inst_id sch a = Some i -> d_sid a = dd_sid d ->
    beq_bytes (dd_val d) (d_val a) = false ->
    dd_oval d = Some (d_val a) -> dd_odflt d = Some (d_dflt a) -> dd_ch d = [] ->
    Sp inh d (Some a) (Some (set_dflt (set_val a (dd_val d)) (dd_dflt d)))
| Sp_none_term inh d a i :
    eff_op inh (dd_op d) = Some OpNone -> is_term sch (dd_sid d) = true ->
    dd_id sch d = Some i -> inst_id sch a = Some i ->
    dd_odflt d = Some (d_dflt a) -> dd_ch d = [] -> kind_of sch (dd_sid d) <> KAny -> dd_dflt d <> d_dflt a ->
    Sp inh d (Some a) (Some (set_dflt a (dd_dflt d)))
| Sp_none_inner inh d a i chb :
    eff_op inh (dd_op d) = Some OpNone -> is_term sch (dd_sid d) = false ->
    dd_id sch d = Some i -> inst_id sch a = Some i -> d_sid a = dd_sid d ->
    dd_nokeys sch (dd_ch d) <> [] ->
    LevelSp (Sp (child_inh inh (dd_op d))) (dd_nokeys sch (dd_ch d)) (d_ch a) chb ->
    SibOk (d_ch a) -> AllSome (d_ch a) -> SibOk chb -> AllSome chb ->
    d_dflt a = is_np_cont sch (d_sid a) && forallb d_dflt (d_ch a) ->
    inst_id sch (set_ch a chb) = Some i ->
    (multi sch (d_sid a) = true -> node_key sch a = node_key sch (set_ch a chb)) ->
    (forall c, In c (dd_nokeys sch (dd_ch d)) -> is_key sch (dd_sid c) = false) ->
    (forall fl' o' od' ov' r', dd_id sch (DD (dd_sid d) (dd_val d) fl' o' od' ov' (dd_leadkeys sch (dd_ch d) ++ r')) = Some i) ->
    (forall k, In k (dd_leadkeys sch (dd_ch d)) -> dd_ch k = []) ->
    Sp inh d (Some a) (Some (set_dflt (set_ch a chb) (is_np_cont sch (d_sid a) && forallb d_dflt chb))).

(* what the fold over one level needs to know about one diff node *)
Definition ItemOk (step : dd -> forest -> res (forest * list sig)) (it : item) : Prop :=
  exists i, dd_id sch (it_d it) = Some i /\ Transforms (step (it_d it)) i (it_a it) (it_b it) /\
            (forall a, it_a it = Some a -> inst_id sch a = Some i) /\
            (forall b, it_b it = Some b -> inst_id sch b = Some i).

Lemma inst_id_set_dflt n f : inst_id sch (set_dflt n f) = inst_id sch n.
Proof. destruct n; reflexivity. Qed.

Lemma inst_id_set_val_leaf n v : kind_of sch (d_sid n) = KLeaf -> inst_id sch (set_val n v) = inst_id sch n.
Proof. destruct n as [s v0 d m ch]. unfold inst_id. cbn [d_sid set_val]. intros ->. reflexivity. Qed.

Lemma ids_itA_sub its x :
  Forall (fun it => exists i, dd_id sch (it_d it) = Some i /\ (forall a, it_a it = Some a -> inst_id sch a = Some i)) its ->
  In x (ids (itA its)) -> In x (itIds its).
Proof.
  induction its as [|it its IH]; intros Hf Hin; [destruct Hin|].
  inversion Hf as [|? ? [i [Hi Ha]] Hf']; subst. unfold itA in Hin. cbn [flat_map] in Hin. rewrite ids_app in Hin.
  apply in_app_or in Hin. destruct Hin as [Hin|Hin].
  - destruct (it_a it) as [a|] eqn:Ea; [|destruct Hin]. cbn in Hin. destruct Hin as [<-|[]].
    left. rewrite Hi. symmetry. apply Ha. reflexivity.
  - right. apply IH; assumption.
Qed.

Lemma perm_rot1 {A} (d o x u : list A) : Permutation (d ++ (o ++ x) ++ u) (o ++ (d ++ x ++ u)).
Proof. rewrite <- !app_assoc. apply Permutation_app_swap_app. Qed.

Lemma perm_rot2 {A} (d o x u : list A) : Permutation (o ++ (d ++ x ++ u)) ((d ++ o) ++ x ++ u).
Proof. rewrite <- !app_assoc. apply Permutation_app_swap_app. Qed.

Lemma NoDup_app_l {A} (l1 l2 : list A) : NoDup (l1 ++ l2) -> NoDup l1.
Proof.
  induction l1 as [|a l1 IH]; intro H; [constructor|]. cbn in H. inversion H as [|? ? Hnot Hnd']; subst.
  constructor; [intro Hi; apply Hnot, in_or_app; left; exact Hi|apply IH; assumption].
Qed.

Lemma NoDup_app_r {A} (l1 l2 : list A) : NoDup (l1 ++ l2) -> NoDup l2.
Proof. induction l1 as [|a l1 IH]; intro H; [exact H|]. cbn in H. inversion H; subst. apply IH. assumption. Qed.

(* the fold over the diff nodes of one level, in the order they have *)
Lemma apply_children_fold step np oup : forall its done unch cur fl up,
  Forall (ItemOk step) its ->
  NoDup (itIds its ++ ids done ++ ids unch) ->
  Permutation cur (done ++ itA its ++ unch) -> NoDup (ids cur) -> AllSome cur -> Adj (sib_ok sch) cur ->
  fl = np && forallb d_dflt cur ->
  exists cur' ups,
    apply_children sch step np oup false (map it_d its) cur fl up = Ok (cur', np && forallb d_dflt cur', up ++ ups) /\
    Permutation cur' (done ++ itB its ++ unch) /\ Adj (sib_ok sch) cur' /\
    sigs_ok oup ups /\ sig_status fl ups = np && forallb d_dflt cur'.
Proof.
  induction its as [|it its IH]; intros done unch cur fl up Hok Hnd Hp Hn Hs Hadj Hfl.
  - exists cur, []. cbn [map apply_children]. rewrite app_nil_r. subst fl.
    split; [reflexivity|]. split; [exact Hp|]. split; [exact Hadj|]. split; [apply sigs_ok_nil|reflexivity].
  - pose proof (Forall_inv Hok) as [i [Hi [Ht [Hia Hib]]]]. pose proof (Forall_inv_tail Hok) as Hok'.
    cbn [map]. rewrite apply_children_false_cons.
    unfold itA in Hp. cbn [flat_map] in Hp. fold (itA its) in Hp.
    set (rest := done ++ itA its ++ unch).
    assert (Hp1 : Permutation cur (opt (it_a it) ++ rest)) by (rewrite Hp; apply perm_rot1).
    assert (Hni : ~ In (Some i) (ids rest)).
    { unfold rest. rewrite !ids_app. cbn [itIds map] in Hnd. rewrite Hi in Hnd. cbn [app] in Hnd.
      inversion Hnd as [|? ? Hnot _]; subst. intro Hin. apply Hnot.
      apply in_app_or in Hin. destruct Hin as [Hin|Hin]; [apply in_or_app; right; apply in_or_app; left; exact Hin|].
      apply in_app_or in Hin. destruct Hin as [Hin|Hin]; [|apply in_or_app; right; apply in_or_app; right; exact Hin].
      apply in_or_app. left. apply ids_itA_sub; [|exact Hin].
      eapply Forall_impl; [|exact Hok']. intros x [j [Hj [_ [Hja _]]]]. exists j. split; assumption. }
    destruct (Ht cur rest Hp1 Hn Hs Hni Hadj) as [cur1 [sg [Estep [Hp2 [Hadj1 [Hsok Hsst]]]]]].
    rewrite Estep.
    assert (Hfl' : fl = np && (forallb d_dflt rest && st (it_a it))).
    { rewrite Hfl, (forallb_perm _ _ _ Hp1). f_equal. destruct (it_a it); cbn [opt app forallb st]; [apply andb_comm|rewrite andb_true_r; reflexivity]. }
    destruct (walks_spec np (forallb d_dflt rest) oup sg fl (st (it_a it)) Hsok Hfl') as [W1 [W2 W3]].
    destruct (walks np fl oup sg) as [fl1 ups1] eqn:Ew. cbn [fst snd] in W1, W2, W3.
    assert (Hfl1 : fl1 = np && forallb d_dflt cur1).
    { rewrite W1, Hsst, (forallb_perm _ _ _ Hp2). f_equal. destruct (it_b it); cbn [opt app forallb st]; [apply andb_comm|rewrite andb_true_r; reflexivity]. }
    assert (Hrestn : NoDup (ids rest)).
    { apply ids_perm in Hp1. apply (Permutation_NoDup Hp1) in Hn. rewrite ids_app in Hn. apply (NoDup_app_r _ _ Hn). }
    assert (Hn1 : NoDup (ids cur1)).
    { apply (Permutation_NoDup (Permutation_sym (ids_perm _ _ Hp2))). rewrite ids_app.
      destruct (it_b it) as [b|] eqn:Eb; cbn [opt ids map app]; [|exact Hrestn].
      constructor; [rewrite (Hib b eq_refl); exact Hni|exact Hrestn]. }
    assert (Hs1 : AllSome cur1).
    { unfold AllSome. intro Hin. apply (Permutation_in _ (ids_perm _ _ Hp2)) in Hin. rewrite ids_app in Hin.
      apply in_app_or in Hin. destruct Hin as [Hin|Hin].
      - destruct (it_b it) as [b|] eqn:Eb; cbn [opt ids map] in Hin; [|destruct Hin].
        destruct Hin as [Hin|[]]. rewrite (Hib b eq_refl) in Hin. discriminate.
      - apply Hs. apply (Permutation_in _ (Permutation_sym (ids_perm _ _ Hp1))). rewrite ids_app. apply in_or_app. right. exact Hin. }
    destruct (IH (done ++ opt (it_b it)) unch cur1 fl1 (up ++ ups1) Hok') as [cur' [ups2 [E2 [Hp3 [Hadj3 [Hok3 Hst3]]]]]].
    + cbn [itIds map] in Hnd. rewrite Hi in Hnd. rewrite ids_app.
      destruct (it_b it) as [b|] eqn:Eb; cbn [opt ids map].
      * rewrite (Hib b eq_refl).
        apply (Permutation_NoDup (l := Some i :: itIds its ++ ids done ++ ids unch)); [|exact Hnd].
        rewrite <- !app_assoc. cbn [app].
        etransitivity; [apply Permutation_middle|]. apply Permutation_app_head. apply Permutation_middle.
      * rewrite app_nil_r. inversion Hnd; assumption.
    + rewrite Hp2. apply perm_rot2.
    + exact Hn1.
    + exact Hs1.
    + exact Hadj1.
    + exact Hfl1.
    + exists cur', (ups1 ++ ups2). rewrite E2, app_assoc.
      split; [reflexivity|]. split.
      { rewrite Hp3. unfold itB. cbn [flat_map]. rewrite <- !app_assoc. reflexivity. }
      split; [exact Hadj3|]. split; [apply sigs_ok_app; split; assumption|].
      rewrite sig_status_app, W3. exact Hst3.
Qed.

Lemma NoDup_app_disjoint {A} (l1 l2 : list A) :
  NoDup l1 -> NoDup l2 -> (forall x, In x l1 -> In x l2 -> False) -> NoDup (l1 ++ l2).
Proof.
  induction l1 as [|a l1 IH]; intros H1 H2 Hd; [exact H2|].
  cbn [app]. inversion H1; subst. constructor.
  - intro Hin. apply in_app_or in Hin. destruct Hin as [Hin|Hin]; [contradiction|]. apply (Hd a); [left; reflexivity|exact Hin].
  - apply IH; [assumption|assumption|]. intros x Hx1 Hx2. apply (Hd x); [right; exact Hx1|exact Hx2].
Qed.

Lemma NoDup_app_in_both {A} (l1 l2 : list A) x : NoDup (l1 ++ l2) -> In x l1 -> In x l2 -> False.
Proof.
  induction l1 as [|a l1 IH]; intros H H1 H2; [destruct H1|].
  cbn [app] in H. inversion H as [|? ? Hnot Hnd']; subst. destruct H1 as [->|H1].
  - apply Hnot. apply in_or_app. right. exact H2.
  - apply IH; assumption.
Qed.

(* one level: a diff that describes the change from [fa] to [fb] yields exactly [fb], with the flag and the requests of
   the parent as the walks prescribe *)
Lemma apply_level step np oup its unch fa fb :
  Forall (ItemOk step) its -> NoDup (itIds its) ->
  Forall (fun it => it_a it <> None \/ it_b it <> None) its ->
  Permutation fa (itA its ++ unch) -> Permutation fb (itB its ++ unch) ->
  SibOk fa -> AllSome fa -> SibOk fb ->
  exists ups,
    apply_children sch step np oup false (map it_d its) fa (np && forallb d_dflt fa) [] =
      Ok (fb, np && forallb d_dflt fb, ups) /\
    sigs_ok oup ups /\ sig_status (np && forallb d_dflt fa) ups = np && forallb d_dflt fb.
Proof.
  intros Hok Hnd Hne Hpa Hpb Sa Hsa Sb.
  assert (Hglob : NoDup (itIds its ++ ids [] ++ ids unch)).
  { cbn [ids map app]. apply NoDup_app_disjoint.
    - exact Hnd.
    - pose proof (so_nodup _ Sa) as H. apply (Permutation_NoDup (ids_perm _ _ Hpa)) in H. rewrite ids_app in H.
      apply (NoDup_app_r _ _ H).
    - intros x Hx1 Hx2. unfold itIds in Hx1. apply in_map_iff in Hx1. destruct Hx1 as [it [Ex Hit]].
      rewrite Forall_forall in Hok, Hne. destruct (Hok it Hit) as [i [Hi [_ [Hia Hib]]]].
      destruct (Hne it Hit) as [Ha|Hb].
      + destruct (it_a it) as [a|] eqn:Ea; [|congruence].
        pose proof (so_nodup _ Sa) as H. apply (Permutation_NoDup (ids_perm _ _ Hpa)) in H. rewrite ids_app in H.
        apply (NoDup_app_in_both _ _ x H); [|exact Hx2].
        rewrite <- Ex, Hi, <- (Hia a eq_refl). apply in_map. unfold itA. apply in_flat_map. exists it. split; [exact Hit|].
        rewrite Ea. left. reflexivity.
      + destruct (it_b it) as [b|] eqn:Eb; [|congruence].
        pose proof (so_nodup _ Sb) as H. apply (Permutation_NoDup (ids_perm _ _ Hpb)) in H. rewrite ids_app in H.
        apply (NoDup_app_in_both _ _ x H); [|exact Hx2].
        rewrite <- Ex, Hi, <- (Hib b eq_refl). apply in_map. unfold itB. apply in_flat_map. exists it. split; [exact Hit|].
        rewrite Eb. left. reflexivity. }
  destruct (apply_children_fold step np oup its [] unch fa (np && forallb d_dflt fa) [] Hok Hglob)
    as [cur' [ups [E [Hp [Hadj [Hsok Hst]]]]]].
  - exact Hpa.
  - apply (so_nodup _ Sa).
  - exact Hsa.
  - apply (so_adj _ Sa).
  - reflexivity.
  - cbn [app] in *.
    assert (cur' = fb).
    { apply canon_ext; [exact Hadj|apply (so_adj _ Sb)|apply (so_nodup _ Sb)|apply (so_ordid _ Sb)|].
      rewrite Hp. symmetry. exact Hpb. }
    subst cur'. exists ups. split; [exact E|]. split; assumption.
Qed.

(* ------------------------------------------------------------------------------------------- *)
(* applying a diff that means [fa becomes fb] yields fb                                           *)
(* ------------------------------------------------------------------------------------------- *)
Lemma dd_nokeys_in l x : In x (dd_nokeys sch l) -> In x l.
Proof.
  induction l as [|y l IH]; [intros []|]. cbn [dd_nokeys]. destruct (is_key sch (dd_sid y)); [intro H; right; apply IH, H|auto].
Qed.

Lemma has_nokey_child_true l : dd_nokeys sch l <> [] -> has_nokey_child sch l = true.
Proof. unfold has_nokey_child. destruct (dd_nokeys sch l); [congruence|reflexivity]. Qed.

Lemma sp_sides inh d oa ob : Sp inh d oa ob -> oa <> None \/ ob <> None.
Proof. destruct 1; try (left; discriminate); right; discriminate. Qed.

Theorem apply_sp d : forall inh oa ob, Sp inh d oa ob -> ItemOk (apply_r sch inh) (mkitem d oa ob).
Proof.
  induction d as [s v fl op od ov ch IH] using dd_ind'. intros inh oa ob H. unfold ItemOk. cbn [it_d it_a it_b].
  inversion H as [inh0 d0 a i He Ha Hdd Hwf | inh0 d0 b i He Hb Hdd Hwf | inh0 d0 a i He Hk Hd Ha Hs Hne Hov Hod Hch0
                 | inh0 d0 a i He Hk Hd Ha Hod Hch0 Hnany Hreal | inh0 d0 a i chb He Hk Hd Ha Hs Hnk Hlev Sa Hsa Sb Hsb Hfl Hidb Hkey Hnkey Hidk Hkch]; subst.
  - assert (Hd : dd_id sch (DD s v fl op od ov ch) = Some i).
    { rewrite Hdd, dd_id_set_op, dd_id_lift; assumption. }
    exists i. split; [exact Hd|]. split; [apply transforms_delete; assumption|].
    split; [intros a' E; inversion E; subst; exact Ha|intros b' E; discriminate].
  - exists i.
    assert (Hid : dd_id sch (DD s v fl op od ov ch) = Some i).
    { rewrite Hdd, dd_id_set_op, dd_id_lift; assumption. }
    split; [exact Hid|]. split.
    + apply transforms_create; [exact Hb|]. intro f. rewrite Hdd. cbn [dd_op] in He.
      rewrite (apply_create_lift b Hwf inh (dd_op (DD s v fl op od ov ch)) f He).
      eexists. split; [reflexivity|]. destruct (d_dflt b); cbn.
      * split; [apply sigs_ok_nil|reflexivity].
      * split; [apply sigs_ok_cons; split; [exact I|apply sigs_ok_nil]|reflexivity].
    + split; [intros a' E; discriminate|intros b' E; inversion E; subst; exact Hb].
  - exists i. split; [exact Hd|]. split; [apply transforms_replace; try assumption; rewrite Hne; reflexivity|].
    split; [intros a' E; inversion E; subst; exact Ha|].
    intros b' E. inversion E; subst. rewrite inst_id_set_dflt, inst_id_set_val_leaf; [exact Ha|].
    rewrite Hs. exact Hk.
  - exists i. split; [exact Hd|]. split; [apply transforms_none_term; assumption|].
    split; [intros a' E; inversion E; subst; exact Ha|].
    intros b' E. inversion E; subst. rewrite inst_id_set_dflt. exact Ha.
  - exists i. split; [exact Hd|]. split.
    + apply transforms_none_inner; try assumption.
      * apply has_nokey_child_true. exact Hnk.
      * (* the children *)
        cbn [dd_op dd_sid dd_ch] in *.
        destruct Hlev as [its [unch [Eds [Hsp [Hnd [Hpa Hpb]]]]]].
        intro oup. rewrite apply_children_lead, Eds, Hfl, Hs.
        apply (apply_level _ _ _ its unch (d_ch a) chb); try assumption.
        -- (* every child diff node: induction hypothesis *)
           apply Forall_forall. intros it Hit. rewrite Forall_forall in Hsp, IH.
           assert (Hin : In (it_d it) ch).
           { apply dd_nokeys_in. rewrite Eds. apply in_map. exact Hit. }
           specialize (IH (it_d it) Hin _ _ _ (Hsp it Hit)). destruct it; exact IH.
        -- apply Forall_forall. intros it Hit. rewrite Forall_forall in Hsp. apply (sp_sides _ _ _ _ (Hsp it Hit)).
      * intro M. rewrite node_key_set_dflt. apply Hkey, M.
    + split; [intros a' E; inversion E; subst; exact Ha|].
      intros b' E. inversion E; subst. rewrite inst_id_set_dflt. exact Hidb.
Qed.

(* the roots: lyd_diff_apply_module() is the same loop without a parent *)
Lemma apply_roots_children : forall ds f np oup fl up f' fl' up',
  apply_children sch (apply_r sch None) np oup false ds f fl up = Ok (f', fl', up') -> apply_roots sch ds f = Ok f'.
Proof.
  induction ds as [|d ds IH]; intros f np oup fl up f' fl' up' H.
  - cbn in H. inversion H; subst. reflexivity.
  - rewrite apply_children_false_cons in H. cbn [apply_roots].
    destruct (apply_r sch None d f) as [[f1 sg]|e]; [|discriminate].
    destruct (walks np fl oup sg) as [fl1 ups]. apply (IH _ _ _ _ _ _ _ _ H).
Qed.

Theorem apply_level_sp ds fa fb :
  LevelSp (Sp None) ds fa fb -> SibOk fa -> AllSome fa -> SibOk fb -> apply sch ds fa = Ok fb.
Proof.
  intros [its [unch [Eds [Hsp [Hnd [Hpa Hpb]]]]]] Sa Hsa Sb.
  destruct (apply_level (apply_r sch None) false false its unch fa fb) as [ups [E _]]; try assumption.
  - apply Forall_forall. intros it Hit. rewrite Forall_forall in Hsp.
    pose proof (apply_sp _ _ _ _ (Hsp it Hit)) as Hi. destruct it; exact Hi.
  - apply Forall_forall. intros it Hit. rewrite Forall_forall in Hsp. apply (sp_sides _ _ _ _ (Hsp it Hit)).
  - unfold apply. rewrite Eds. apply (apply_roots_children _ _ _ _ _ _ _ _ _ E).
Qed.

(* ------------------------------------------------------------------------------------------- *)
(* the shape of what lyd_diff_siblings produces                                                  *)
(* ------------------------------------------------------------------------------------------- *)
Lemma LevelSp_perm P ds ds' fa fb : Permutation ds ds' -> LevelSp P ds fa fb -> LevelSp P ds' fa fb.
Proof.
  intros Hp [its [unch [Eds [Hsp [Hnd [Hpa Hpb]]]]]]. subst ds.
  apply Permutation_sym in Hp. destruct (Permutation_map_inv _ _ Hp) as [its' [E Hp']].
  exists its', unch. split; [exact E|].
  split; [apply (Permutation_Forall Hp'); exact Hsp|].
  split; [apply (Permutation_NoDup (Permutation_map _ Hp')); exact Hnd|].
  split.
  - rewrite Hpa. apply Permutation_app_tail. unfold itA. apply Permutation_flat_map. exact Hp'.
  - rewrite Hpb. apply Permutation_app_tail. unfold itB. apply Permutation_flat_map. exact Hp'.
Qed.

Lemma place_last_k_perm k l n : Permutation (map fst (place_last_k k l n)) (n :: map fst l).
Proof.
  induction l as [|b l IH]; cbn [place_last_k map]; [reflexivity|].
  destruct (dd_sid n <? dd_sid (fst b)); cbn [map fst]; [reflexivity|].
  rewrite IH. apply perm_swap.
Qed.

Lemma insert_at_perm {A} (x : A) : forall i l, Permutation (insert_at i l x) (x :: l).
Proof.
  induction i as [|i IH]; intro l; cbn [insert_at]; [reflexivity|].
  destruct l as [|a l]; [reflexivity|]. rewrite IH. apply perm_swap.
Qed.

Lemma place_sorted_perm l n : Permutation (map fst (place_sorted sch l n)) (n :: map fst l).
Proof.
  unfold place_sorted. destruct (pred_idx sch l n 0 None) as [k|].
  - rewrite (Permutation_map fst (insert_at_perm (n, true) (S k) l)). reflexivity.
  - destruct (find_idx _ l) as [k|].
    + rewrite (Permutation_map fst (insert_at_perm (n, true) k l)). reflexivity.
    + apply place_last_k_perm.
Qed.

Lemma build_tree_perm s : forall todo acc, Permutation (map fst (build_tree sch s todo acc)) (map fst acc ++ map fst todo).
Proof.
  induction todo as [|[b k] todo IH]; intro acc; cbn [build_tree map]; [rewrite app_nil_r; reflexivity|].
  destruct (dd_sid b =? s).
  - rewrite IH, place_sorted_perm. cbn [fst app]. apply Permutation_middle.
  - rewrite IH, map_app. cbn [map fst]. rewrite <- app_assoc. reflexivity.
Qed.

Lemma place_default_perm l n : Permutation (map fst (place_default sch l n)) (n :: map fst l).
Proof.
  unfold place_default. destruct (sorted_sid sch (dd_sid n) && existsb _ l); [|apply place_last_k_perm].
  rewrite place_sorted_perm. constructor.
  destruct (existsb _ l); [reflexivity|]. rewrite build_tree_perm. reflexivity.
Qed.

Lemma place_all_perm top : forall g acc,
  Permutation (map fst (place_all sch top g acc)) (map fst acc ++ map (fun x : gitem => fst (fst x)) g).
Proof.
  induction g as [|[[d sd] inner] g IH]; intro acc; cbn [place_all map]; [rewrite app_nil_r; reflexivity|].
  rewrite IH. cbn [fst]. destruct (inner && negb top).
  - rewrite place_default_perm. cbn [app]. apply Permutation_middle.
  - unfold place_last. rewrite place_last_k_perm. cbn [app]. apply Permutation_middle.
Qed.

Lemma order_level_perm top g :
  Permutation (order_level sch top g) (map (fun x : gitem => fst (fst x)) (fix_ops top true g)).
Proof. unfold order_level. rewrite place_all_perm. reflexivity. Qed.

(* lyd_diff_find_match with the defaults option: the sibling with that identity *)
Lemma find_match_true_some f i x : NoDup (ids f) -> In x f -> inst_id sch x = Some i -> find_match sch true f (Some i) = Some x.
Proof.
  intros Hn Hx Hi. apply in_split in Hx. destruct Hx as [l1 [l2 ->]].
  unfold find_match. rewrite (match_idx_split _ _ _ _ Hi Hn).
  rewrite nth_error_app2, Nat.sub_diag; [|apply Nat.le_refl]. cbn [nth_error]. rewrite andb_false_r. reflexivity.
Qed.

Lemma find_match_true_inv f i x : find_match sch true f (Some i) = Some x -> In x f /\ inst_id sch x = Some i.
Proof.
  unfold find_match. cbn [match_idx]. destruct (find_idx (has_id sch i) f) as [k|] eqn:E; [|discriminate].
  destruct (find_idx_split _ _ _ E) as [l1 [y [l2 [-> [Hl [Hy _]]]]]]. subst k.
  rewrite nth_error_app2, Nat.sub_diag; [|apply Nat.le_refl]. cbn [nth_error]. rewrite andb_false_r.
  intro H. inversion H; subst. split; [apply in_or_app; right; left; reflexivity|apply has_id_iff; exact Hy].
Qed.

Lemma find_match_true_none f i : find_match sch true f (Some i) = None -> ~ In (Some i) (ids f).
Proof.
  unfold find_match. cbn [match_idx]. destruct (find_idx (has_id sch i) f) as [k|] eqn:E.
  - destruct (find_idx_split _ _ _ E) as [l1 [y [l2 [-> [Hl [Hy _]]]]]]. subst k.
    rewrite nth_error_app2, Nat.sub_diag; [|apply Nat.le_refl]. cbn [nth_error]. rewrite andb_false_r. discriminate.
  - intros _ Hin. apply in_map_iff in Hin. destruct Hin as [y [Ey Hy]].
    pose proof (find_idx_none _ _ E y Hy) as Hf. apply (proj2 (has_id_iff sch i y)) in Ey. congruence.
Qed.

(* the two loops without their key skipping *)
Lemma pass1_all_false p1 l bs : pass1_all sch p1 false l bs = flat_map (fun a => p1 a bs) l.
Proof. induction l as [|x l IH]; [reflexivity|]. cbn [pass1_all flat_map andb]. rewrite IH. reflexivity. Qed.

Lemma pass1_all_lead p1 l bs : pass1_all sch p1 true l bs = pass1_all sch p1 false (nokeys sch l) bs.
Proof.
  induction l as [|x l IH]; [reflexivity|]. cbn [pass1_all nokeys andb].
  destruct (is_key sch (d_sid x)); [exact IH|]. cbn [pass1_all andb]. reflexivity.
Qed.

Definition create_item (fa : forest) (x : dnode) : list gitem :=
  match find_match sch true fa (inst_id sch x) with
  | None => [(dd_set_op (lift x) (Some OpCreate), SB, false)]
  | Some _ => []
  end.

Lemma pass2_all_false l fa : pass2_all sch true false l fa = flat_map (create_item fa) l.
Proof.
  induction l as [|x l IH]; [reflexivity|]. cbn [pass2_all flat_map andb]. rewrite IH.
  rewrite andb_false_r. reflexivity.
Qed.

Lemma pass2_all_lead l fa : pass2_all sch true true l fa = pass2_all sch true false (nokeys sch l) fa.
Proof.
  induction l as [|x l IH]; [reflexivity|]. cbn [pass2_all nokeys andb].
  destruct (is_key sch (d_sid x)); [exact IH|]. cbn [pass2_all andb]. reflexivity.
Qed.

Lemma nokeys_idem l : (forall c, In c (nokeys sch l) -> is_key sch (d_sid c) = false) -> nokeys sch (nokeys sch l) = nokeys sch l.
Proof.
  intro H. destruct (nokeys sch l) as [|x r] eqn:E; [reflexivity|]. cbn [nokeys].
  rewrite (H x (or_introl eq_refl)). reflexivity.
Qed.

(* the generated items of one level, on the children behind the keys *)
Definition gen_level (la lb : forest) : list gitem :=
  flat_map (fun a => diff1 sch true a lb) la ++ flat_map (create_item la) lb.

Lemma diff_level_gen fa fb :
  (forall c, In c (nokeys sch fa) -> is_key sch (d_sid c) = false) ->
  (forall c, In c (nokeys sch fb) -> is_key sch (d_sid c) = false) ->
  pass1_all sch (diff1 sch true) true fa (nokeys sch fb) ++ pass2_all sch true true fb (nokeys sch fa) =
  gen_level (nokeys sch fa) (nokeys sch fb).
Proof.
  intros Ha Hb. unfold gen_level. rewrite pass1_all_lead, pass1_all_false, pass2_all_lead, pass2_all_false. reflexivity.
Qed.

(* ------------------------------------------------------------------------------------------- *)
(* the meaning of the generated items                                                            *)
(* ------------------------------------------------------------------------------------------- *)
Definition gd (g : gitem) : dd := fst (fst g).
Definition ginner (g : gitem) : bool := snd g.

(* which yang:operation a generated node may end up with (fix_ops): a duplicated parent none or nothing, as long as
   the effective operation is none; every other node keeps its own *)
Definition Allowed (inner : bool) (d : dd) (o : option dop) (inh : option dop) : Prop :=
  if inner then eff_op inh o = Some OpNone else o = dd_op d.

Definition mean := (option dnode * option dnode)%type.
Definition msA (ms : list mean) : forest := flat_map (fun m => opt (fst m)) ms.
Definition msB (ms : list mean) : forest := flat_map (fun m => opt (snd m)) ms.

Definition GM (inh : option dop) (g : gitem) (m : mean) : Prop :=
  (forall o, Allowed (ginner g) (gd g) o inh -> Sp inh (dd_set_op (gd g) o) (fst m) (snd m)) /\
  (ginner g = true -> dd_op (gd g) = None \/ dd_op (gd g) = Some OpNone).

(* the operation inherited at a level: nothing at the top, none below a duplicated parent *)
Definition LevelInh (top : bool) (inh : option dop) : Prop :=
  (top = true /\ inh = None) \/ (top = false /\ inh = Some OpNone).

Lemma dd_set_op_same d : dd_set_op d (dd_op d) = d.
Proof. destruct d; reflexivity. Qed.

Lemma fix_ops_its top inh : LevelInh top inh -> forall G ms, Forall2 (GM inh) G ms -> forall first,
  exists its,
    map it_d its = map gd (fix_ops top first G) /\ map it_a its = map fst ms /\ map it_b its = map snd ms /\
    Forall (fun it => Sp inh (it_d it) (it_a it) (it_b it)) its /\
    itIds its = map (fun g => dd_id sch (gd g)) G.
Proof.
  intros Hl G ms H. induction H as [|g m G ms [Hg Hop] HF IH]; intro first.
  - exists []. cbn. repeat split. constructor.
  - destruct (IH false) as [its [E1 [E2 [E3 [E4 E5]]]]].
    destruct g as [[d sd] inner]. cbn [fix_ops]. unfold gd, ginner in *. cbn [fst snd] in *.
    set (d' := if inner then if top then dd_set_op d (Some OpNone) else if first then dd_set_op d None else d else d).
    assert (Hd' : exists o, d' = dd_set_op d o /\ Allowed inner d o inh).
    { unfold d', Allowed. destruct inner.
      - destruct Hl as [[-> ->]|[-> ->]].
        + exists (Some OpNone). split; reflexivity.
        + destruct first.
          * exists None. split; reflexivity.
          * exists (dd_op d). split; [symmetry; apply dd_set_op_same|].
            destruct (Hop eq_refl) as [-> | ->]; reflexivity.
      - exists (dd_op d). split; [symmetry; apply dd_set_op_same|reflexivity]. }
    destruct Hd' as [o [Ed' Hall]].
    exists (mkitem d' (fst m) (snd m) :: its). cbn [map it_d it_a it_b fst snd gd].
    split; [f_equal; exact E1|]. split; [f_equal; exact E2|]. split; [f_equal; exact E3|].
    split; [constructor; [cbn [it_d it_a it_b]; rewrite Ed'; apply Hg, Hall|exact E4]|].
    unfold itIds in *. cbn [map it_d]. f_equal; [|exact E5]. rewrite Ed'. apply dd_id_set_op.
Qed.

Lemma flat_map_opt_map {A B} (f : A -> option B) l : flat_map (fun x => opt (f x)) l = flat_map opt (map f l).
Proof. induction l as [|a l IH]; [reflexivity|]. cbn [flat_map map]. rewrite IH. reflexivity. Qed.

(* what the first loop does with one node [a] of the first siblings, given the second siblings [lb] *)
Definition NodeSem (inh : option dop) (a : dnode) (lb : forest) : Prop :=
  exists i, inst_id sch a = Some i /\
    match find_match sch true lb (Some i) with
    | None => exists g, diff1 sch true a lb = [g] /\ GM inh g (Some a, None) /\ dd_id sch (gd g) = Some i
    | Some b => (a = b /\ diff1 sch true a lb = []) \/
                exists g, diff1 sch true a lb = [g] /\ GM inh g (Some a, Some b) /\ dd_id sch (gd g) = Some i
    end.

Lemma pass1_sem inh lb : forall la,
  (forall a, In a la -> NodeSem inh a lb) ->
  exists ms unch,
    Forall2 (GM inh) (flat_map (fun a => diff1 sch true a lb) la) ms /\
    Permutation la (msA ms ++ unch) /\
    map (fun g => dd_id sch (gd g)) (flat_map (fun a => diff1 sch true a lb) la) = ids (msA ms) /\
    Forall (fun m : mean => exists a i, fst m = Some a /\ inst_id sch a = Some i /\ snd m = find_match sch true lb (Some i)) ms /\
    Forall (fun u => exists i, inst_id sch u = Some i /\ find_match sch true lb (Some i) = Some u) unch.
Proof.
  induction la as [|a la IH]; intro HQ.
  - exists [], []. cbn. repeat split; constructor.
  - destruct IH as [ms [unch [F2 [Hp [Hids [Hms Hun]]]]]]; [intros x Hx; apply HQ; right; exact Hx|].
    destruct (HQ a (or_introl eq_refl)) as [i [Hi Hcase]]. cbn [flat_map].
    destruct (find_match sch true lb (Some i)) as [b|] eqn:Ef.
    + destruct Hcase as [[Eab Ed]|[g [Ed [Hg Hgi]]]].
      * subst b. rewrite Ed. cbn [app]. exists ms, (a :: unch).
        split; [exact F2|]. split; [rewrite <- Permutation_middle; constructor; exact Hp|].
        split; [exact Hids|]. split; [exact Hms|]. constructor; [exists i; split; assumption|exact Hun].
      * rewrite Ed. cbn [app]. exists ((Some a, Some b) :: ms), unch.
        split; [constructor; assumption|]. split; [cbn [msA flat_map fst opt app]; constructor; exact Hp|].
        split; [cbn [map msA flat_map fst opt app ids]; rewrite Hgi, Hi; f_equal; exact Hids|].
        split; [constructor; [exists a, i; cbn [fst snd]; rewrite Ef; repeat split; assumption|exact Hms]|exact Hun].
    + destruct Hcase as [g [Ed [Hg Hgi]]]. rewrite Ed. cbn [app]. exists ((Some a, None) :: ms), unch.
      split; [constructor; assumption|]. split; [cbn [msA flat_map fst opt app]; constructor; exact Hp|].
      split; [cbn [map msA flat_map fst opt app ids]; rewrite Hgi, Hi; f_equal; exact Hids|].
      split; [constructor; [exists a, i; cbn [fst snd]; rewrite Ef; repeat split; assumption|exact Hms]|exact Hun].
Qed.

Definition unmatched (la : forest) (b : dnode) : bool :=
  match find_match sch true la (inst_id sch b) with None => true | Some _ => false end.

Lemma pass2_sem inh la : forall lb,
  (forall b, In b lb -> wf_node sch b = true) ->
  exists ms,
    Forall2 (GM inh) (flat_map (create_item la) lb) ms /\ msA ms = [] /\ msB ms = filter (unmatched la) lb /\
    map (fun g => dd_id sch (gd g)) (flat_map (create_item la) lb) = ids (msB ms).
Proof.
  induction lb as [|b lb IH]; intro Hwf.
  - exists []. cbn. repeat split. constructor.
  - destruct IH as [ms [F2 [HA [HB Hids]]]]; [intros x Hx; apply Hwf; right; exact Hx|].
    pose proof (Hwf b (or_introl eq_refl)) as Hb.
    destruct (inst_id_some_uo b (wf_node_userord _ Hb)) as [i Hi].
    assert (Ec : create_item la b = if unmatched la b then [(dd_set_op (lift b) (Some OpCreate), SB, false)] else []).
    { unfold create_item, unmatched. destruct (find_match sch true la (inst_id sch b)); reflexivity. }
    cbn [flat_map filter]. rewrite Ec. destruct (unmatched la b).
    2:{ cbn [app]. exists ms. split; [exact F2|]. split; [exact HA|]. split; [exact HB|exact Hids]. }
    + cbn [app]. exists ((None, Some b) :: ms).
      split.
      { constructor; [|exact F2]. split; [|discriminate].
        unfold Allowed, ginner, gd. cbn [fst snd]. intros o Ho. subst o.
        rewrite dd_set_op_same. apply (Sp_create _ _ b i).
        - destruct (lift b); reflexivity.
        - exact Hi.
        - destruct (lift b); reflexivity.
        - exact Hb. }
      split; [cbn [msA flat_map fst opt app]; exact HA|].
      split; [cbn [msB flat_map snd opt app]; f_equal; exact HB|].
      cbn [map msB flat_map snd opt app ids gd fst]. rewrite dd_id_set_op, (dd_id_lift _ Hb). f_equal. exact Hids.
Qed.

Lemma NoDup_map_filter {A B} (f : A -> B) p l : NoDup (map f l) -> NoDup (map f (filter p l)).
Proof.
  induction l as [|a l IH]; intro H; [constructor|]. cbn [map filter] in *. inversion H as [|? ? Hn Hd]; subst.
  destruct (p a); [|apply IH; exact Hd]. cbn [map]. constructor; [|apply IH; exact Hd].
  intro Hin. apply Hn. apply in_map_iff in Hin. destruct Hin as [x [Ex Hx]]. apply filter_In in Hx.
  rewrite <- Ex. apply in_map. apply Hx.
Qed.

Lemma ids_msB_sub ms x :
  Forall (fun m : mean => exists a i, fst m = Some a /\ inst_id sch a = Some i /\ (forall b, snd m = Some b -> inst_id sch b = Some i)) ms ->
  In x (ids (msB ms)) -> In x (ids (msA ms)).
Proof.
  induction ms as [|m ms IH]; intros Hf Hin; [destruct Hin|].
  inversion Hf as [|? ? [a [i [Ea [Hi Hb]]]] Hf']; subst.
  unfold msA, msB in *. cbn [flat_map] in *. rewrite ids_app in *. rewrite Ea. cbn [opt ids map app].
  apply in_app_or in Hin. destruct Hin as [Hin|Hin].
  - destruct (snd m) as [b|] eqn:Eb; [|destruct Hin]. cbn [opt ids map] in Hin. destruct Hin as [<-|[]].
    left. rewrite Hi. symmetry. apply Hb. reflexivity.
  - right. apply IH; assumption.
Qed.

Lemma msB_ids_nodup X : forall ms,
  Forall (fun m : mean => exists a i, fst m = Some a /\ inst_id sch a = Some i /\ (forall b, snd m = Some b -> inst_id sch b = Some i)) ms ->
  NoDup (ids (msA ms) ++ X) -> NoDup (ids (msB ms) ++ X).
Proof.
  induction ms as [|m ms IH]; intros Hf Hn; [exact Hn|].
  pose proof (Forall_inv Hf) as [a [i [Ea [Hi Hb]]]]. pose proof (Forall_inv_tail Hf) as Hf'.
  unfold msA, msB in *. cbn [flat_map] in *. rewrite ids_app in *. rewrite Ea in Hn. cbn [opt ids map app] in Hn.
  inversion Hn as [|? ? Hnot Hn']; subst. specialize (IH Hf' Hn').
  destruct (snd m) as [b|] eqn:Eb; cbn [opt ids map app]; [|exact IH].
  rewrite (Hb b eq_refl), <- Hi. constructor; [|exact IH].
  intro Hin. apply Hnot. apply in_app_or in Hin. apply in_or_app. destruct Hin as [Hin|Hin]; [left|right; exact Hin].
  apply (ids_msB_sub ms _ Hf'). exact Hin.
Qed.

Lemma in_msA ms a : In a (msA ms) -> exists m, In m ms /\ fst m = Some a.
Proof.
  unfold msA. intro H. apply in_flat_map in H. destruct H as [m [Hm Ha]]. exists m. split; [exact Hm|].
  destruct (fst m); [destruct Ha as [->|[]]; reflexivity|destruct Ha].
Qed.

Lemma in_msB_intro ms (m : mean) b : In m ms -> snd m = Some b -> In b (msB ms).
Proof. intros Hm E. unfold msB. apply in_flat_map. exists m. split; [exact Hm|]. rewrite E. left. reflexivity. Qed.

Lemma in_msB ms b : In b (msB ms) -> exists m, In m ms /\ snd m = Some b.
Proof.
  unfold msB. intro H. apply in_flat_map in H. destruct H as [m [Hm Ha]]. exists m. split; [exact Hm|].
  destruct (snd m); [destruct Ha as [->|[]]; reflexivity|destruct Ha].
Qed.

Lemma msA_app a b : msA (a ++ b) = msA a ++ msA b.
Proof. unfold msA. apply flat_map_app. Qed.
Lemma msB_app a b : msB (a ++ b) = msB a ++ msB b.
Proof. unfold msB. apply flat_map_app. Qed.

(* one level behind the keys: the generated items mean [la] becomes [lb] *)
Lemma gen_level_sem inh la lb :
  NoDup (ids la) -> NoDup (ids lb) -> AllSome lb -> (forall b, In b lb -> wf_node sch b = true) ->
  (forall a, In a la -> NodeSem inh a lb) ->
  exists ms unch,
    Forall2 (GM inh) (gen_level la lb) ms /\ Permutation la (msA ms ++ unch) /\ Permutation lb (msB ms ++ unch) /\
    NoDup (map (fun g => dd_id sch (gd g)) (gen_level la lb)).
Proof.
  intros Hna Hnb Hsb Hwfb HQ.
  destruct (pass1_sem inh lb la HQ) as [ms1 [unch [F1 [Hp1 [Hid1 [Hms1 Hun]]]]]].
  destruct (pass2_sem inh la lb Hwfb) as [ms2 [F2 [HA2 [HB2 Hid2]]]].
  (* facts about the first loop *)
  assert (Hms1' : Forall (fun m : mean => exists a i, fst m = Some a /\ inst_id sch a = Some i /\
                                                    (forall b, snd m = Some b -> inst_id sch b = Some i)) ms1).
  { eapply Forall_impl; [|exact Hms1]. intros m [a [i [Ea [Hi Es]]]]. exists a, i. repeat split; try assumption.
    intros b Eb. rewrite Es in Eb. apply (find_match_true_inv _ _ _ Eb). }
  assert (HnA : NoDup (ids (msA ms1) ++ ids unch)).
  { rewrite <- ids_app. apply (Permutation_NoDup (ids_perm _ _ Hp1)). exact Hna. }
  assert (HinA : forall x, In x (ids (msA ms1) ++ ids unch) -> In x (ids la)).
  { intros x Hx. rewrite <- ids_app in Hx. apply (Permutation_in _ (Permutation_sym (ids_perm _ _ Hp1))). exact Hx. }
  assert (Hunm : forall y j, In y (filter (unmatched la) lb) -> inst_id sch y = Some j -> ~ In (Some j) (ids la)).
  { intros y j Hy Hj. apply filter_In in Hy. destruct Hy as [_ Hu]. unfold unmatched in Hu. rewrite Hj in Hu.
    destruct (find_match sch true la (Some j)) eqn:E; [discriminate|]. apply (find_match_true_none _ _ E). }
  assert (Hsome_b : forall y, In y lb -> exists j, inst_id sch y = Some j).
  { intros y Hy. destruct (inst_id sch y) as [j|] eqn:E; [exists j; reflexivity|].
    exfalso. apply Hsb. rewrite <- E. apply in_map. exact Hy. }
  exists (ms1 ++ ms2), unch.
  split; [unfold gen_level; apply Forall2_app; assumption|].
  split; [rewrite msA_app, HA2, app_nil_r; exact Hp1|].
  split.
  - (* the second siblings: same elements, no repetition *)
    rewrite msB_app, HB2.
    apply NoDup_Permutation.
    + apply (NoDup_map_inv (inst_id sch)). exact Hnb.
    + apply (NoDup_map_inv (inst_id sch)). fold (ids ((msB ms1 ++ filter (unmatched la) lb) ++ unch)).
      rewrite !ids_app.
      apply (Permutation_NoDup (l := ids (filter (unmatched la) lb) ++ ids (msB ms1) ++ ids unch)).
      { rewrite app_assoc. apply Permutation_app_tail. apply Permutation_app_comm. }
      apply NoDup_app_disjoint.
      * unfold ids. apply NoDup_map_filter. exact Hnb.
      * apply msB_ids_nodup; assumption.
      * intros x Hx1 Hx2.
        assert (Hxa : In x (ids la)).
        { apply HinA. apply in_app_or in Hx2. apply in_or_app. destruct Hx2 as [Hx2|Hx2]; [left|right; exact Hx2].
          apply (ids_msB_sub ms1 _ Hms1'). exact Hx2. }
        unfold ids in Hx1. apply in_map_iff in Hx1. destruct Hx1 as [y [Ey Hy]].
        destruct (Hsome_b y) as [j Hj]; [apply filter_In in Hy; apply Hy|].
        apply (Hunm y j Hy Hj). rewrite <- Hj, Ey. exact Hxa.
    + intro x. split.
      * intro Hx. destruct (Hsome_b x Hx) as [j Hj].
        destruct (find_match sch true la (Some j)) as [a|] eqn:Ea.
        -- destruct (find_match_true_inv _ _ _ Ea) as [Hain Haj].
           pose proof (find_match_true_some lb j x Hnb Hx Hj) as Efx.
           apply (Permutation_in _ Hp1) in Hain. apply in_app_or in Hain. destruct Hain as [Hain|Hain].
           ++ destruct (in_msA _ _ Hain) as [m [Hm Em]]. rewrite Forall_forall in Hms1.
              destruct (Hms1 m Hm) as [a' [i' [Ea' [Hi' Es']]]]. rewrite Em in Ea'. inversion Ea'; subst a'.
              assert (i' = j) by congruence. subst i'. rewrite Efx in Es'.
              apply in_or_app. left. apply in_or_app. left. apply (in_msB_intro _ m); assumption.
           ++ rewrite Forall_forall in Hun. destruct (Hun a Hain) as [i' [Hi' Ef']].
              assert (i' = j) by congruence. subst i'. rewrite Efx in Ef'. inversion Ef'; subst a.
              apply in_or_app. right. exact Hain.
        -- apply in_or_app. left. apply in_or_app. right. apply filter_In. split; [exact Hx|].
           unfold unmatched. rewrite Hj, Ea. reflexivity.
      * intro Hx. apply in_app_or in Hx. destruct Hx as [Hx|Hx]; [apply in_app_or in Hx; destruct Hx as [Hx|Hx]|].
        -- destruct (in_msB _ _ Hx) as [m [Hm Em]]. rewrite Forall_forall in Hms1.
           destruct (Hms1 m Hm) as [a' [i' [Ea' [Hi' Es']]]]. rewrite Es' in Em. apply (find_match_true_inv _ _ _ Em).
        -- apply filter_In in Hx. apply Hx.
        -- rewrite Forall_forall in Hun. destruct (Hun x Hx) as [i' [Hi' Ef']]. apply (find_match_true_inv _ _ _ Ef').
  - unfold gen_level. rewrite map_app, Hid1, Hid2, HB2. apply NoDup_app_disjoint.
    + apply (NoDup_app_l _ _ HnA).
    + unfold ids. apply NoDup_map_filter. exact Hnb.
    + intros x Hx1 Hx2.
      assert (Hxa : In x (ids la)) by (apply HinA, in_or_app; left; exact Hx1).
      unfold ids in Hx2. apply in_map_iff in Hx2. destruct Hx2 as [y [Ey Hy]].
      destruct (Hsome_b y) as [j Hj]; [apply filter_In in Hy; apply Hy|].
      apply (Hunm y j Hy Hj). rewrite <- Hj, Ey. exact Hxa.
Qed.

(* ------------------------------------------------------------------------------------------- *)
(* keys of list instances with one identity                                                       *)
(* ------------------------------------------------------------------------------------------- *)
Definition iid_sid (i : iid) : sid := match i with IdNode s | IdKeys s _ | IdVal s _ => s end.

Lemma inst_id_sid n i : inst_id sch n = Some i -> iid_sid i = d_sid n.
Proof.
  unfold inst_id. destruct (dup_inst sch (d_sid n)); [discriminate|].
  destruct (kind_of sch (d_sid n)); intro H; inversion H; reflexivity.
Qed.

Lemma same_id_sid a b i : inst_id sch a = Some i -> inst_id sch b = Some i -> d_sid a = d_sid b.
Proof. intros Ha Hb. rewrite <- (inst_id_sid _ _ Ha), <- (inst_id_sid _ _ Hb). reflexivity. Qed.

Lemma is_key_inv k : is_key sch k = true -> exists p, si_parent (sget sch k) = Some p /\ In k (si_keys (sget sch p)).
Proof.
  unfold is_key. destruct (si_parent (sget sch k)) as [p|]; [|discriminate]. intro H. exists p. split; [reflexivity|].
  apply existsb_exists in H. destruct H as [x [Hx E]]. apply N.eqb_eq in E. subst. exact Hx.
Qed.

Lemma is_key_intro k p : si_parent (sget sch k) = Some p -> In k (si_keys (sget sch p)) -> is_key sch k = true.
Proof.
  intros Hp Hk. unfold is_key. rewrite Hp. apply existsb_exists. exists k. split; [exact Hk|apply N.eqb_refl].
Qed.

Lemma inst_id_nonmulti x :
  userordered sch (d_sid x) = false -> multi sch (d_sid x) = false -> inst_id sch x = Some (IdNode (d_sid x)).
Proof.
  intros Hu Hm. unfold inst_id. rewrite (userordered_dup_inst _ Hu). unfold multi in Hm.
  destruct (kind_of sch (d_sid x)); try discriminate; reflexivity.
Qed.

Lemma inst_id_list x : userordered sch (d_sid x) = false -> kind_of sch (d_sid x) = KList ->
  inst_id sch x = Some (IdKeys (d_sid x) (key_vals sch x)).
Proof. intros Hu Hk. unfold inst_id. rewrite (userordered_dup_inst _ Hu), Hk. reflexivity. Qed.

(* the value of the only child with a leaf schema node *)
Lemma child_val_unique f x :
  NoDup (ids f) -> In x f -> kind_of sch (d_sid x) = KLeaf -> userordered sch (d_sid x) = false ->
  child_val f (d_sid x) = d_val x.
Proof.
  intros Hn Hx Hk Hu. unfold child_val, find_sid.
  destruct (find (fun c => d_sid c =? d_sid x) f) as [y|] eqn:E.
  - apply find_some in E. destruct E as [Hy Es]. apply N.eqb_eq in Es.
    assert (Hm : multi sch (d_sid x) = false) by (apply multi_leaf; exact Hk).
    f_equal. apply (NoDup_map_in_eq (inst_id sch) f); [exact Hn|exact Hy|exact Hx|].
    rewrite (inst_id_nonmulti x Hu Hm), <- Es. apply inst_id_nonmulti; rewrite Es; assumption.
  - exfalso. pose proof (find_none _ _ E x Hx) as H. cbn in H. rewrite N.eqb_refl in H. discriminate.
Qed.

Lemma child_val_app_l K r k : (exists y, In y K /\ d_sid y = k) -> child_val (K ++ r) k = child_val K k.
Proof.
  intros [y [Hy Es]]. unfold child_val, find_sid.
  induction K as [|z K IH]; [destruct Hy|]. cbn [app find].
  destruct (d_sid z =? k) eqn:E; [reflexivity|].
  destruct Hy as [->|Hy]; [apply N.eqb_neq in E; contradiction|]. apply IH. exact Hy.
Qed.

Lemma wf_key_node x : wf_node sch x = true -> kind_of sch (d_sid x) = KLeaf -> is_key sch (d_sid x) = true ->
  x = DN (d_sid x) (d_val x) false [] [].
Proof.
  destruct x as [s v d m ch]. cbn [d_sid d_val]. intros Hw Hk Hkey.
  pose proof (wf_node_inv _ _ _ _ _ Hw) as W. pose proof (wn_kind _ _ _ _ _ W) as K. rewrite Hk in K.
  destruct K as [-> Hd]. rewrite (wn_meta _ _ _ _ _ W), (Hd Hkey). reflexivity.
Qed.

Lemma in_leadkeys_intro l x :
  In x l -> is_key sch (d_sid x) = true -> (forall c, In c (nokeys sch l) -> is_key sch (d_sid c) = false) ->
  In x (leadkeys sch l).
Proof.
  intros Hx Hk Hn. rewrite (lead_nokeys l) in Hx. apply in_app_or in Hx. destruct Hx as [Hx|Hx]; [exact Hx|].
  rewrite (Hn x Hx) in Hk. discriminate.
Qed.

Lemma map_eq_pointwise {A B} (f g : A -> B) l : map f l = map g l -> forall x, In x l -> f x = g x.
Proof.
  induction l as [|a l IH]; intros H x Hx; [destruct Hx|]. cbn [map] in H. inversion H.
  destruct Hx as [->|Hx]; [assumption|apply IH; assumption].
Qed.

(* everything the proofs need about a well-formed list instance *)
Lemma wf_list_facts s v d m ch :
  wf_node sch (DN s v d m ch) = true -> kind_of sch s = KList ->
  (forall c, In c (nokeys sch ch) -> is_key sch (d_sid c) = false) /\
  (forall k, In k (si_keys (sget sch s)) -> (exists c, In c ch /\ d_sid c = k) /\ kind_of sch k = KLeaf).
Proof.
  intros Hw Hk. pose proof (wf_node_inv _ _ _ _ _ Hw) as W. pose proof (wn_kind _ _ _ _ _ W) as K. rewrite Hk in K.
  destruct K as [_ [_ [H1 H2]]]. split; assumption.
Qed.

Lemma key_in_other a b :
  wf_node sch a = true -> wf_node sch b = true -> d_sid a = d_sid b -> kind_of sch (d_sid a) = KList ->
  key_vals sch a = key_vals sch b ->
  forall x, In x (leadkeys sch (d_ch a)) -> In x (leadkeys sch (d_ch b)).
Proof.
  destruct a as [s va da ma cha], b as [s' vb db mb chb]. cbn [d_sid d_ch]. intros Hwa Hwb <- Hk Hkv x Hx.
  destruct (wf_list_facts _ _ _ _ _ Hwa Hk) as [Hna Hka]. destruct (wf_list_facts _ _ _ _ _ Hwb Hk) as [Hnb Hkb].
  pose proof (wf_node_inv _ _ _ _ _ Hwa) as Wa. pose proof (wf_node_inv _ _ _ _ _ Hwb) as Wb.
  destruct (leadkeys_in _ _ Hx) as [Hxa Hxk].
  destruct (is_key_inv _ Hxk) as [p [Hp Hin]]. rewrite (wn_parent _ _ _ _ _ Wa x Hxa) in Hp. inversion Hp; subst p.
  destruct (Hkb _ Hin) as [[y [Hy Eys]] Hkl].
  pose proof (wn_ch _ _ _ _ _ Wa) as Hca. pose proof (wn_ch _ _ _ _ _ Wb) as Hcb. rewrite forallb_forall in Hca, Hcb.
  assert (Hyk : is_key sch (d_sid y) = true) by (rewrite Eys; exact Hxk).
  assert (Exy : x = y).
  { rewrite (wf_key_node x (Hca x Hxa) Hkl Hxk).
    rewrite (wf_key_node y (Hcb y Hy)); [|rewrite Eys; exact Hkl|exact Hyk]. rewrite Eys. f_equal.
    unfold key_vals in Hkv. cbn [d_ch d_sid] in Hkv. pose proof (map_eq_pointwise _ _ _ Hkv _ Hin) as E.
    rewrite (child_val_unique cha x) in E; [|apply (so_nodup _ (wn_sibs _ _ _ _ _ Wa))|exact Hxa|exact Hkl|apply wf_node_userord, Hca, Hxa].
    rewrite <- Eys in E.
    rewrite (child_val_unique chb y) in E; [exact E|apply (so_nodup _ (wn_sibs _ _ _ _ _ Wb))|exact Hy|rewrite Eys; exact Hkl|apply wf_node_userord, Hcb, Hy]. }
  subst y. apply in_leadkeys_intro; assumption.
Qed.

Lemma NoDup_leadkeys l : NoDup l -> NoDup (leadkeys sch l).
Proof. intro H. rewrite (lead_nokeys l) in H. apply (NoDup_app_l _ _ H). Qed.

Lemma keys_shared a b i :
  wf_node sch a = true -> wf_node sch b = true -> inst_id sch a = Some i -> inst_id sch b = Some i ->
  Permutation (leadkeys sch (d_ch a)) (leadkeys sch (d_ch b)).
Proof.
  intros Hwa Hwb Ha Hb. pose proof (same_id_sid _ _ _ Ha Hb) as Es.
  destruct (kind_of sch (d_sid a)) eqn:Hk.
  - (* container: no key children *)
    destruct a as [s va da ma cha], b as [s' vb db mb chb]. cbn [d_sid d_ch] in *. subst s'.
    pose proof (wn_kind _ _ _ _ _ (wf_node_inv _ _ _ _ _ Hwa)) as Ka. pose proof (wn_kind _ _ _ _ _ (wf_node_inv _ _ _ _ _ Hwb)) as Kb.
    rewrite Hk in Ka, Kb.
    assert (Ha' : forall c, In c cha -> is_key sch (d_sid c) = false) by (destruct presence; apply Ka).
    assert (Hb' : forall c, In c chb -> is_key sch (d_sid c) = false) by (destruct presence; apply Kb).
    rewrite (leadkeys_none _ Ha'), (leadkeys_none _ Hb'). reflexivity.
  - destruct a as [s va da ma cha], b as [s' vb db mb chb]. cbn [d_sid d_ch] in *. subst s'.
    pose proof (wn_kind _ _ _ _ _ (wf_node_inv _ _ _ _ _ Hwa)) as Ka. pose proof (wn_kind _ _ _ _ _ (wf_node_inv _ _ _ _ _ Hwb)) as Kb.
    rewrite Hk in Ka, Kb. destruct Ka as [-> _], Kb as [-> _]. reflexivity.
  - destruct a as [s va da ma cha], b as [s' vb db mb chb]. cbn [d_sid d_ch] in *. subst s'.
    pose proof (wn_kind _ _ _ _ _ (wf_node_inv _ _ _ _ _ Hwa)) as Ka. pose proof (wn_kind _ _ _ _ _ (wf_node_inv _ _ _ _ _ Hwb)) as Kb.
    rewrite Hk in Ka, Kb. destruct Ka as [-> _], Kb as [-> _]. reflexivity.
  - (* list *)
    assert (Hkv : key_vals sch a = key_vals sch b).
    { rewrite (inst_id_list a (wf_node_userord _ Hwa) Hk) in Ha. rewrite Es in Hk.
      rewrite (inst_id_list b (wf_node_userord _ Hwb) Hk) in Hb. congruence. }
    apply NoDup_Permutation.
    + apply NoDup_leadkeys. apply (NoDup_map_inv (inst_id sch)).
      destruct a as [s va da ma cha]. apply (so_nodup _ (wn_sibs _ _ _ _ _ (wf_node_inv _ _ _ _ _ Hwa))).
    + apply NoDup_leadkeys. apply (NoDup_map_inv (inst_id sch)).
      destruct b as [s va da ma cha]. apply (so_nodup _ (wn_sibs _ _ _ _ _ (wf_node_inv _ _ _ _ _ Hwb))).
    + intro x. split.
      * apply key_in_other; assumption.
      * apply key_in_other; try assumption; [symmetry; exact Es|rewrite <- Es; exact Hk|symmetry; exact Hkv].
  - exfalso. destruct a as [s va da ma cha]. cbn [d_sid] in Hk.
    pose proof (wn_kind _ _ _ _ _ (wf_node_inv _ _ _ _ _ Hwa)) as Ka. rewrite Hk in Ka. exact Ka.
Qed.

(* ------------------------------------------------------------------------------------------- *)
(* one level of lyd_diff_siblings_r                                                              *)
(* ------------------------------------------------------------------------------------------- *)
Definition level_items (fa fb : forest) : list gitem :=
  pass1_all sch (diff1 sch true) true fa (nokeys sch fb) ++ pass2_all sch true true fb (nokeys sch fa).

Lemma AllSome_app_r a b : AllSome (a ++ b) -> AllSome b.
Proof. unfold AllSome. rewrite ids_app. intros H Hin. apply H, in_or_app. right. exact Hin. Qed.

Lemma level_sem top inh fa fb :
  LevelInh top inh -> WfSibs fa -> WfSibs fb ->
  (forall c, In c (nokeys sch fa) -> is_key sch (d_sid c) = false) ->
  (forall c, In c (nokeys sch fb) -> is_key sch (d_sid c) = false) ->
  Permutation (leadkeys sch fa) (leadkeys sch fb) ->
  (forall a, In a (nokeys sch fa) -> NodeSem inh a (nokeys sch fb)) ->
  LevelSp (Sp inh) (order_level sch top (level_items fa fb)) fa fb.
Proof.
  intros Hl Wa Wb Hka Hkb Hkeys HQ. unfold level_items. rewrite (diff_level_gen fa fb Hka Hkb).
  set (la := nokeys sch fa) in *. set (lb := nokeys sch fb) in *.
  pose proof (so_nodup _ (ws_sibs _ Wa)) as Hna. pose proof (so_nodup _ (ws_sibs _ Wb)) as Hnb.
  rewrite (lead_nokeys fa), ids_app in Hna. rewrite (lead_nokeys fb), ids_app in Hnb.
  apply NoDup_app_r in Hna. apply NoDup_app_r in Hnb. fold la in Hna. fold lb in Hnb.
  assert (Hsb : AllSome lb).
  { apply (AllSome_app_r (leadkeys sch fb)). rewrite <- lead_nokeys. apply wf_allsome, (ws_nodes _ Wb). }
  assert (Hwfb : forall b, In b lb -> wf_node sch b = true).
  { intros b Hb. pose proof (ws_nodes _ Wb) as H. rewrite forallb_forall in H. apply H. apply (nokeys_in _ _ Hb). }
  destruct (gen_level_sem inh la lb Hna Hnb Hsb Hwfb HQ) as [ms [unch [F2 [Hpa [Hpb Hnd]]]]].
  destruct (fix_ops_its top inh Hl _ _ F2 true) as [its [E1 [E2 [E3 [E4 E5]]]]].
  apply (LevelSp_perm _ (map it_d its)); [rewrite E1; symmetry; apply order_level_perm|].
  assert (EA : itA its = msA ms).
  { unfold itA, msA. rewrite (flat_map_opt_map it_a), (flat_map_opt_map (fun m : mean => fst m)), E2. reflexivity. }
  assert (EB : itB its = msB ms).
  { unfold itB, msB. rewrite (flat_map_opt_map it_b), (flat_map_opt_map (fun m : mean => snd m)), E3. reflexivity. }
  exists its, (leadkeys sch fa ++ unch).
  split; [reflexivity|]. split; [exact E4|]. split; [rewrite E5; exact Hnd|].
  split.
  - rewrite EA. rewrite (lead_nokeys fa) at 1. fold la. rewrite Hpa. apply Permutation_app_swap_app.
  - rewrite EB. rewrite (lead_nokeys fb) at 1. fold lb. rewrite Hpb, <- Hkeys. apply Permutation_app_swap_app.
Qed.

(* ------------------------------------------------------------------------------------------- *)
(* one node of the first tree                                                                    *)
(* ------------------------------------------------------------------------------------------- *)
Lemma diff1_unfold s v d m ch bs :
  diff1 sch true (DN s v d m ch) bs =
    match find_match sch true bs (inst_id sch (DN s v d m ch)) with
    | None => [(dd_set_op (lift (DN s v d m ch)) (Some OpDelete), SA, false)]
    | Some b =>
        match kind_of sch s with
        | KLeaf =>
            if negb (beq_bytes v (d_val b)) then
              [(DD s (d_val b) (d_dflt b) (Some OpReplace) (Some d) (Some v) [], SB, false)]
            else if xorb d (d_dflt b) then
              [(DD s (d_val b) (d_dflt b) (Some OpNone) (Some d) None [], SB, false)]
            else []
        | KLeafList =>
            if xorb d (d_dflt b) then [(DD s (d_val b) (d_dflt b) (Some OpNone) (Some d) None [], SB, false)] else []
        | KAny => []
        | KCont _ | KList =>
            match level_items ch (d_ch b) with
            | [] => []
            | g0 :: r =>
                let src := match item_side g0 with SA => DN s v d m ch | SB => b end in
                let kids := map lift (leadkeys sch (d_ch src)) ++ order_level sch false (level_items ch (d_ch b)) in
                [(DD s [] (d_dflt src && forallb dd_dflt kids)
                     (if is_inner_item g0 then None else Some OpNone) None None kids, item_side g0, true)]
            end
        end
    end.
Proof. destruct d; reflexivity. Qed.

Lemma diff1_sid a bs g : In g (diff1 sch true a bs) -> dd_sid (gd g) = d_sid a.
Proof.
  destruct a as [s v d m ch]. rewrite diff1_unfold. cbn [d_sid].
  destruct (find_match sch true bs _) as [b|].
  - destruct (kind_of sch s) as [p| | | |].
    + destruct (level_items ch (d_ch b)); [intros []|]. cbn zeta. intros [<-|[]]. reflexivity.
    + destruct (negb _); [intros [<-|[]]; reflexivity|]. destruct (xorb _ _); [intros [<-|[]]; reflexivity|intros []].
    + destruct (xorb _ _); [intros [<-|[]]; reflexivity|intros []].
    + destruct (level_items ch (d_ch b)); [intros []|]. cbn zeta. intros [<-|[]]. reflexivity.
    + intros [].
  - intros [<-|[]]. unfold gd. cbn [fst]. destruct (lift (DN s v d m ch)) eqn:E. cbn [dd_set_op dd_sid].
    pose proof (dd_sid_lift (DN s v d m ch)) as H. rewrite E in H. exact H.
Qed.

Lemma gen_level_sid la lb g : In g (gen_level la lb) -> exists x, (In x la \/ In x lb) /\ dd_sid (gd g) = d_sid x.
Proof.
  unfold gen_level. intro H. apply in_app_or in H. destruct H as [H|H]; apply in_flat_map in H; destruct H as [x [Hx Hg]].
  - exists x. split; [left; exact Hx|]. apply (diff1_sid _ _ _ Hg).
  - exists x. split; [right; exact Hx|]. unfold create_item in Hg. destruct (find_match sch true la _); [destruct Hg|].
    destruct Hg as [<-|[]]. unfold gd. cbn [fst]. pose proof (dd_sid_lift x) as E. destruct (lift x). exact E.
Qed.

Lemma dd_sid_set_op d o : dd_sid (dd_set_op d o) = dd_sid d.
Proof. destruct d; reflexivity. Qed.

Lemma fix_ops_sids top : forall G first,
  map (fun g => dd_sid (gd g)) (fix_ops top first G) = map (fun g => dd_sid (gd g)) G.
Proof.
  induction G as [|[[d sd] inner] G IH]; intro first; [reflexivity|]. cbn [fix_ops map]. rewrite IH. f_equal.
  unfold gd. cbn [fst]. destruct inner, top, first; try reflexivity; apply dd_sid_set_op.
Qed.

Lemma order_level_sid top G d : In d (order_level sch top G) -> exists g, In g G /\ dd_sid d = dd_sid (gd g).
Proof.
  intro H. apply (Permutation_in _ (order_level_perm top G)) in H.
  assert (H' : In (dd_sid d) (map (fun g => dd_sid (gd g)) (fix_ops top true G))).
  { apply in_map_iff in H. destruct H as [g [E Hg]]. apply in_map_iff. exists g. split; [unfold gd; rewrite E; reflexivity|exact Hg]. }
  rewrite fix_ops_sids in H'. apply in_map_iff in H'. destruct H' as [g [E Hg]]. exists g. split; [exact Hg|symmetry; exact E].
Qed.

Lemma dd_nokeys_app_keys K r :
  (forall k, In k K -> is_key sch (dd_sid k) = true) -> (forall c, In c r -> is_key sch (dd_sid c) = false) ->
  dd_nokeys sch (K ++ r) = r.
Proof.
  intros HK Hr. induction K as [|k K IH]; cbn [app dd_nokeys].
  - destruct r as [|c r]; [reflexivity|]. cbn [dd_nokeys]. rewrite (Hr c (or_introl eq_refl)). reflexivity.
  - rewrite (HK k (or_introl eq_refl)). apply IH. intros x Hx. apply HK. right. exact Hx.
Qed.

(* a key child of a well-formed node is a leaf: its copy in the diff has no children *)
Lemma wf_key_child n x : wf_node sch n = true -> In x (d_ch n) -> is_key sch (d_sid x) = true -> dd_ch (lift x) = [].
Proof.
  destruct n as [s v d m ch]. cbn [d_ch]. intros Hw Hx Hk. pose proof (wf_node_inv _ _ _ _ _ Hw) as W.
  destruct (is_key_inv _ Hk) as [p [Hp Hin]]. rewrite (wn_parent _ _ _ _ _ W x Hx) in Hp. inversion Hp; subst p.
  pose proof (wn_kind _ _ _ _ _ W) as K.
  assert (Hkl : kind_of sch (d_sid x) = KLeaf).
  { destruct (kind_of sch s) as [[|]| | | |] eqn:Eks.
    - exfalso. destruct K as [_ [_ Hnk]]. rewrite (Hnk x Hx) in Hk. discriminate.
    - exfalso. destruct K as [_ [_ Hnk]]. rewrite (Hnk x Hx) in Hk. discriminate.
    - destruct K as [-> _]. destruct Hx.
    - destruct K as [-> _]. destruct Hx.
    - destruct K as [_ [_ [_ Hkeys]]]. apply (Hkeys _ Hin).
    - destruct K. }
  pose proof (wn_ch _ _ _ _ _ W) as Hc. rewrite forallb_forall in Hc.
  rewrite (wf_key_node x (Hc x Hx) Hkl Hk). reflexivity.
Qed.

Lemma dd_leadkeys_app_keys K r :
  (forall k, In k K -> is_key sch (dd_sid k) = true) -> (forall c, In c r -> is_key sch (dd_sid c) = false) ->
  dd_leadkeys sch (K ++ r) = K.
Proof.
  intros HK Hr. induction K as [|k K IH]; cbn [app dd_leadkeys].
  - destruct r as [|c r]; [reflexivity|]. cbn [dd_leadkeys]. rewrite (Hr c (or_introl eq_refl)). reflexivity.
  - rewrite (HK k (or_introl eq_refl)). f_equal. apply IH. intros x Hx. apply HK. right. exact Hx.
Qed.

Lemma wf_inner_facts s v d m ch :
  wf_node sch (DN s v d m ch) = true -> is_term sch s = false ->
  v = [] /\ m = [] /\ d = is_np_cont sch s && forallb d_dflt ch /\
  (forall c, In c (nokeys sch ch) -> is_key sch (d_sid c) = false) /\ multi sch s = (match kind_of sch s with KList => true | _ => false end).
Proof.
  intros Hw Ht. pose proof (wf_node_inv _ _ _ _ _ Hw) as W. pose proof (wn_kind _ _ _ _ _ W) as K.
  rewrite is_term_kind_of in Ht. unfold is_np_cont, multi.
  destruct (kind_of sch s) as [[|]| | | |]; cbn in Ht; try discriminate.
  - destruct K as [-> [-> Hk]]. repeat split; [apply (wn_meta _ _ _ _ _ W)|]. intros c Hc. apply Hk, (nokeys_in _ _ Hc).
  - destruct K as [-> [-> Hk]]. repeat split; [apply (wn_meta _ _ _ _ _ W)|]. intros c Hc. apply Hk, (nokeys_in _ _ Hc).
  - destruct K as [-> [-> [Hk _]]]. repeat split; [apply (wn_meta _ _ _ _ _ W)|exact Hk].
Qed.

Lemma inner_dd_id src fl op od ov r i :
  wf_node sch src = true -> is_term sch (d_sid src) = false -> inst_id sch src = Some i ->
  dd_id sch (DD (d_sid src) [] fl op od ov (map lift (leadkeys sch (d_ch src)) ++ r)) = Some i.
Proof.
  destruct src as [s v d m ch]. cbn [d_sid d_ch]. intros Hw Ht Hi.
  pose proof (wf_node_inv _ _ _ _ _ Hw) as W. pose proof (wn_uo _ _ _ _ _ W) as Hu.
  unfold dd_id. cbn [dd_node]. rewrite <- Hi.
  destruct (kind_of sch s) eqn:Hk.
  - rewrite !inst_id_nonmulti; try reflexivity; cbn [d_sid]; try exact Hu; unfold multi; rewrite Hk; reflexivity.
  - rewrite is_term_kind_of, Hk in Ht. discriminate.
  - rewrite is_term_kind_of, Hk in Ht. discriminate.
  - rewrite !inst_id_list; cbn [d_sid]; try assumption. f_equal. f_equal. unfold key_vals. cbn [d_ch d_sid].
    apply map_ext_in. intros k Hkin.
    destruct (wf_list_facts _ _ _ _ _ Hw Hk) as [Hnk Hkeys]. destruct (Hkeys k Hkin) as [[y [Hy Eys]] Hkl].
    pose proof (wn_ch _ _ _ _ _ W) as Hc. rewrite forallb_forall in Hc.
    assert (Hyk : is_key sch (d_sid y) = true).
    { apply (is_key_intro _ s); [apply (wn_parent _ _ _ _ _ W y Hy)|rewrite Eys; exact Hkin]. }
    pose proof (in_leadkeys_intro _ _ Hy Hyk Hnk) as Hyl.
    assert (EK : map dd_node (map lift (leadkeys sch ch)) = leadkeys sch ch).
    { rewrite map_map. rewrite <- (map_id (leadkeys sch ch)) at 2. apply map_ext_in. intros x Hx.
      apply dd_node_lift, Hc. apply (leadkeys_in _ _ Hx). }
    rewrite map_app, EK. rewrite (lead_nokeys ch) at 2.
    rewrite !child_val_app_l; try reflexivity; exists y; split; assumption.
  - rewrite is_term_kind_of, Hk in Ht. discriminate.
Qed.

Lemma inst_id_inner_ch s v d m ch v' d' m' :
  is_term sch s = false -> inst_id sch (DN s v d m ch) = inst_id sch (DN s v' d' m' ch).
Proof.
  intro Ht. unfold inst_id. cbn [d_sid]. destruct (dup_inst sch s); [reflexivity|]. rewrite is_term_kind_of in Ht.
  destruct (kind_of sch s); cbn in Ht; try discriminate; reflexivity.
Qed.

Lemma node_key_list x y :
  d_sid x = d_sid y -> kind_of sch (d_sid x) = KList -> key_vals sch x = key_vals sch y -> node_key sch x = node_key sch y.
Proof.
  intros Es Hk Hkv. unfold node_key. rewrite <- Es. unfold kind_of in Hk. rewrite Hk.
  unfold key_vals in Hkv. rewrite <- Es in Hkv. apply map_ext_in. intros k Hkin.
  rewrite (map_eq_pointwise _ _ _ Hkv k Hkin). reflexivity.
Qed.

Lemma child_inh_none inh o : eff_op inh o = Some OpNone -> child_inh inh o = Some OpNone.
Proof. destruct o as [[| | |]|]; cbn; intro H; try discriminate; try reflexivity; assumption. Qed.

Lemma beq_bytes_false_sym a b : beq_bytes a b = false -> beq_bytes b a = false.
Proof.
  intro H. destruct (beq_bytes b a) eqn:E; [|reflexivity]. apply beq_bytes_eq in E. subst.
  rewrite (proj2 (beq_bytes_eq a a) eq_refl) in H. discriminate.
Qed.

Lemma level_items_gen fa fb :
  (forall c, In c (nokeys sch fa) -> is_key sch (d_sid c) = false) ->
  (forall c, In c (nokeys sch fb) -> is_key sch (d_sid c) = false) ->
  level_items fa fb = gen_level (nokeys sch fa) (nokeys sch fb).
Proof. apply diff_level_gen. Qed.

(* an inner node that exists in both trees *)
Lemma inner_sem inh s va da ma cha vb db mb chb i :
  wf_node sch (DN s va da ma cha) = true -> wf_node sch (DN s vb db mb chb) = true -> is_term sch s = false ->
  inst_id sch (DN s va da ma cha) = Some i -> inst_id sch (DN s vb db mb chb) = Some i ->
  LevelSp (Sp (Some OpNone)) (order_level sch false (level_items cha chb)) cha chb ->
  (DN s va da ma cha = DN s vb db mb chb /\ level_items cha chb = []) \/
  exists g0 r, level_items cha chb = g0 :: r /\
    let src := match item_side g0 with SA => DN s va da ma cha | SB => DN s vb db mb chb end in
    let kids := map lift (leadkeys sch (d_ch src)) ++ order_level sch false (level_items cha chb) in
    let g := (DD s [] (d_dflt src && forallb dd_dflt kids) (if is_inner_item g0 then None else Some OpNone) None None kids,
              item_side g0, true) in
    GM inh g (Some (DN s va da ma cha), Some (DN s vb db mb chb)) /\ dd_id sch (gd g) = Some i.
Proof.
  intros Hwa Hwb Ht Hia Hib Lsp.
  destruct (wf_inner_facts _ _ _ _ _ Hwa Ht) as [-> [-> [Hda [Hnka Hma]]]].
  destruct (wf_inner_facts _ _ _ _ _ Hwb Ht) as [-> [-> [Hdb [Hnkb _]]]].
  pose proof (wf_node_inv _ _ _ _ _ Hwa) as Wa. pose proof (wf_node_inv _ _ _ _ _ Hwb) as Wb.
  destruct (level_items cha chb) as [|g0 r] eqn:EG.
  - left. split; [|reflexivity].
    destruct Lsp as [its [unch [Eds [_ [_ [Hpa Hpb]]]]]]. cbn in Eds. symmetry in Eds. apply map_eq_nil in Eds. subst its.
    cbn [itA itB flat_map app] in Hpa, Hpb.
    assert (cha = chb).
    { apply canon_ext; [apply (so_adj _ (wn_sibs _ _ _ _ _ Wa))|apply (so_adj _ (wn_sibs _ _ _ _ _ Wb))|
                        apply (so_nodup _ (wn_sibs _ _ _ _ _ Wb))|apply (so_ordid _ (wn_sibs _ _ _ _ _ Wb))|].
      rewrite Hpa. symmetry. exact Hpb. }
    subst chb. rewrite Hda, Hdb. reflexivity.
  - right. exists g0, r. split; [reflexivity|]. cbn zeta.
    set (a := DN s [] da [] cha) in *. set (b := DN s [] db [] chb) in *.
    set (src := match item_side g0 with SA => a | SB => b end).
    assert (Hsrc : wf_node sch src = true /\ inst_id sch src = Some i /\ d_sid src = s).
    { unfold src. destruct (item_side g0); repeat split; assumption. }
    destruct Hsrc as [Hwsrc [Hisrc Hssrc]].
    set (ol := order_level sch false (g0 :: r)) in *.
    set (kids := map lift (leadkeys sch (d_ch src)) ++ ol).
    set (fl := d_dflt src && forallb dd_dflt kids).
    set (op0 := if is_inner_item g0 then None else Some OpNone).
    assert (Hid : forall o, dd_id sch (DD s [] fl o None None kids) = Some i).
    { intro o. rewrite <- Hssrc. unfold kids. apply inner_dd_id; [exact Hwsrc|rewrite Hssrc; exact Ht|exact Hisrc]. }
    assert (Hol_ne : ol <> []).
    { intro E. pose proof (Permutation_length (order_level_perm false (g0 :: r))) as Hlen. fold ol in Hlen. rewrite E in Hlen.
      destruct g0 as [[d0 sd0] in0]. cbn [fix_ops map length] in Hlen. discriminate. }
    assert (Hol_nk : forall c, In c ol -> is_key sch (dd_sid c) = false).
    { intros c Hc. destruct (order_level_sid _ _ _ Hc) as [g [Hg Esid]]. rewrite <- EG in Hg.
      rewrite (level_items_gen _ _ Hnka Hnkb) in Hg. destruct (gen_level_sid _ _ _ Hg) as [x [[Hx|Hx] Ex]];
        rewrite Esid, Ex; [apply Hnka|apply Hnkb]; exact Hx. }
    assert (Hkids : dd_nokeys sch kids = ol).
    { unfold kids. apply dd_nokeys_app_keys; [|exact Hol_nk]. intros k Hk. apply in_map_iff in Hk.
      destruct Hk as [x [<- Hx]]. rewrite dd_sid_lift. apply (leadkeys_in _ _ Hx). }
    split; [|unfold gd; cbn [fst]; apply Hid].
    split; [|intros _; unfold gd, op0; cbn [fst dd_op]; destruct (is_inner_item g0); [left|right]; reflexivity].
    unfold Allowed, ginner, gd. cbn [fst snd dd_set_op]. intros o Ho.
    assert (Eb : b = set_dflt (set_ch a chb) (is_np_cont sch (d_sid a) && forallb d_dflt chb)).
    { unfold a, b. cbn [set_ch set_dflt d_sid]. rewrite Hdb. reflexivity. }
    rewrite Eb. apply (Sp_none_inner inh _ a i chb); cbn [dd_op dd_sid dd_ch d_sid d_ch d_dflt].
    + exact Ho.
    + exact Ht.
    + apply Hid.
    + exact Hia.
    + reflexivity.
    + rewrite Hkids. exact Hol_ne.
    + rewrite Hkids, (child_inh_none _ _ Ho). exact Lsp.
    + apply (wn_sibs _ _ _ _ _ Wa).
    + apply wf_allsome, (wn_ch _ _ _ _ _ Wa).
    + apply (wn_sibs _ _ _ _ _ Wb).
    + apply wf_allsome, (wn_ch _ _ _ _ _ Wb).
    + exact Hda.
    + unfold a. cbn [set_ch]. rewrite <- Hib. apply inst_id_inner_ch. exact Ht.
    + intro M. unfold a in M. cbn [d_sid] in M. rewrite Hma in M. destruct (kind_of sch s) eqn:Hk; try discriminate.
      apply node_key_list; [reflexivity|exact Hk|].
      pose proof (wn_uo _ _ _ _ _ Wa) as Hu.
      unfold a, b in *. rewrite (inst_id_list (DN s [] da [] cha) Hu Hk) in Hia.
      rewrite (inst_id_list (DN s [] db [] chb) Hu Hk) in Hib.
      cbn [set_ch]. unfold key_vals in *. cbn [d_ch d_sid] in *. congruence.
    + rewrite Hkids. exact Hol_nk.
    + intros fl' o' od' ov' r'. cbn [dd_val]. unfold kids. rewrite dd_leadkeys_app_keys.
      * rewrite <- Hssrc. apply inner_dd_id; [exact Hwsrc|rewrite Hssrc; exact Ht|exact Hisrc].
      * intros k Hk. apply in_map_iff in Hk. destruct Hk as [x [<- Hx]]. rewrite dd_sid_lift. apply (leadkeys_in _ _ Hx).
      * exact Hol_nk.
    + intros k Hk. cbn [dd_ch] in Hk. unfold kids in Hk. rewrite dd_leadkeys_app_keys in Hk; [| |exact Hol_nk].
      * apply in_map_iff in Hk. destruct Hk as [x [<- Hx]]. destruct (leadkeys_in _ _ Hx) as [Hxin Hxk].
        apply (wf_key_child src x Hwsrc Hxin Hxk).
      * intros k' Hk'. apply in_map_iff in Hk'. destruct Hk' as [x [<- Hx]]. rewrite dd_sid_lift. apply (leadkeys_in _ _ Hx).
Qed.

Lemma NoDup_ids_nokeys f : NoDup (ids f) -> NoDup (ids (nokeys sch f)).
Proof. intro H. rewrite (lead_nokeys f), ids_app in H. apply (NoDup_app_r _ _ H). Qed.

Theorem diff1_sem a : wf_node sch a = true ->
  forall inh lb, NoDup (ids lb) -> (forall b, In b lb -> wf_node sch b = true) -> NodeSem inh a lb.
Proof.
  induction a as [s v d m ch IH] using dnode_ind'. intros Hw inh lb Hnb Hwb.
  pose proof (wf_node_inv _ _ _ _ _ Hw) as W.
  destruct (inst_id_some_uo (DN s v d m ch) (wn_uo _ _ _ _ _ W)) as [i Hi]. exists i. split; [exact Hi|].
  rewrite diff1_unfold, Hi.
  destruct (find_match sch true lb (Some i)) as [b|] eqn:Ef.
  2:{ (* no match: delete *)
      eexists. split; [reflexivity|]. split.
      - split; [|discriminate]. unfold Allowed, ginner, gd. cbn [fst snd]. intros o ->. rewrite dd_set_op_same.
        apply (Sp_delete _ _ _ i); [destruct (lift (DN s v d m ch)); reflexivity|exact Hi| |exact Hw].
        destruct (lift (DN s v d m ch)); reflexivity.
      - unfold gd. cbn [fst]. rewrite dd_id_set_op, dd_id_lift; assumption. }
  destruct (find_match_true_inv _ _ _ Ef) as [Hbin Hbi]. pose proof (Hwb b Hbin) as Hwfb.
  pose proof (same_id_sid _ _ _ Hi Hbi) as Es. destruct b as [s' vb db mb chb]. cbn [d_sid] in Es. subst s'.
  cbn [d_val d_dflt d_ch]. pose proof (wf_node_inv _ _ _ _ _ Hwfb) as Wb.
  destruct (is_term sch s) eqn:Ht.
  - (* leaf / leaf-list *)
    pose proof (wn_kind _ _ _ _ _ W) as K. pose proof (wn_kind _ _ _ _ _ Wb) as Kb.
    pose proof (wn_meta _ _ _ _ _ W) as Hm. pose proof (wn_meta _ _ _ _ _ Wb) as Hmb. subst m mb.
    rewrite is_term_kind_of in Ht.
    destruct (kind_of sch s) eqn:Hk; cbn in Ht; try discriminate.
    + (* leaf *)
      destruct K as [-> _], Kb as [-> _].
      assert (Hidd : forall o od ov, dd_id sch (DD s vb db o od ov []) = Some i).
      { intros o od ov. unfold dd_id. cbn [dd_node map]. rewrite <- Hi.
        change (DN s vb db [] []) with (set_dflt (set_val (DN s v d [] []) vb) db).
        rewrite inst_id_set_dflt. apply inst_id_set_val_leaf. exact Hk. }
      destruct (beq_bytes v vb) eqn:Ev; cbn [negb].
      * apply beq_bytes_eq in Ev. subst vb. destruct (xorb d db) eqn:Ex.
        -- right. eexists. split; [reflexivity|]. split; [|apply Hidd].
           split; [|discriminate]. unfold Allowed, ginner, gd. cbn [fst snd]. intros o ->. rewrite dd_set_op_same.
           change (Some (DN s v db [] [])) with (Some (set_dflt (DN s v d [] []) (dd_dflt (DD s v db (Some OpNone) (Some d) None [])))).
           apply (Sp_none_term _ _ _ i); [reflexivity|cbn [dd_sid]; rewrite is_term_kind_of, Hk; reflexivity|apply Hidd|exact Hi|reflexivity|reflexivity|cbn [dd_sid]; rewrite Hk; discriminate|].
           cbn [dd_dflt d_dflt]. destruct d, db; cbn in Ex; try discriminate; discriminate.
        -- left. split; [|reflexivity]. destruct d, db; cbn in Ex; try discriminate; reflexivity.
      * right. eexists. split; [reflexivity|]. split; [|apply Hidd].
        split; [|discriminate]. unfold Allowed, ginner, gd. cbn [fst snd]. intros o ->. rewrite dd_set_op_same.
        change (Some (DN s vb db [] [])) with
          (Some (set_dflt (set_val (DN s v d [] []) (dd_val (DD s vb db (Some OpReplace) (Some d) (Some v) [])))
                          (dd_dflt (DD s vb db (Some OpReplace) (Some d) (Some v) [])))).
        apply (Sp_replace _ _ _ i); [reflexivity|exact Hk|apply Hidd|exact Hi|reflexivity| |reflexivity|reflexivity|reflexivity].
        cbn [dd_val d_val]. apply (beq_bytes_false_sym _ _ Ev).
    + (* leaf-list: the value is part of the identity *)
      destruct K as [-> _], Kb as [-> _].
      assert (Evb : vb = v).
      { pose proof (wn_uo _ _ _ _ _ W) as Hu. unfold inst_id in Hi, Hbi. cbn [d_sid d_val] in Hi, Hbi.
        rewrite (userordered_dup_inst _ Hu), Hk in Hi, Hbi. congruence. }
      subst vb.
      assert (Hidd : forall o od ov, dd_id sch (DD s v db o od ov []) = Some i).
      { intros o od ov. unfold dd_id. cbn [dd_node map]. exact Hbi. }
      destruct (xorb d db) eqn:Ex.
      * right. eexists. split; [reflexivity|]. split; [|apply Hidd].
        split; [|discriminate]. unfold Allowed, ginner, gd. cbn [fst snd]. intros o ->. rewrite dd_set_op_same.
        change (Some (DN s v db [] [])) with (Some (set_dflt (DN s v d [] []) (dd_dflt (DD s v db (Some OpNone) (Some d) None [])))).
        apply (Sp_none_term _ _ _ i); [reflexivity|cbn [dd_sid]; rewrite is_term_kind_of, Hk; reflexivity|apply Hidd|exact Hi|reflexivity|reflexivity|cbn [dd_sid]; rewrite Hk; discriminate|].
           cbn [dd_dflt d_dflt]. destruct d, db; cbn in Ex; try discriminate; discriminate.
      * left. split; [|reflexivity]. destruct d, db; cbn in Ex; try discriminate; reflexivity.
    + destruct K.
  - (* container / list instance: the level below *)
    destruct (wf_inner_facts _ _ _ _ _ Hw Ht) as [_ [_ [_ [Hnka _]]]].
    destruct (wf_inner_facts _ _ _ _ _ Hwfb Ht) as [_ [_ [_ [Hnkb _]]]].
    assert (Lsp : LevelSp (Sp (Some OpNone)) (order_level sch false (level_items ch chb)) ch chb).
    { apply level_sem; try assumption.
      - right. split; reflexivity.
      - apply (wf_children _ _ _ _ _ Hw).
      - apply (wf_children _ _ _ _ _ Hwfb).
      - apply (keys_shared (DN s v d m ch) (DN s vb db mb chb) i); assumption.
      - intros a Ha. rewrite Forall_forall in IH. pose proof (nokeys_in _ _ Ha) as Hain.
        pose proof (wn_ch _ _ _ _ _ W) as Hc. rewrite forallb_forall in Hc.
        apply IH; [exact Hain|apply Hc, Hain| |].
        + apply NoDup_ids_nokeys. apply (so_nodup _ (wn_sibs _ _ _ _ _ Wb)).
        + intros b Hb. pose proof (wn_ch _ _ _ _ _ Wb) as Hcb. rewrite forallb_forall in Hcb. apply Hcb, (nokeys_in _ _ Hb). }
    destruct (inner_sem inh _ _ _ _ _ _ _ _ _ i Hw Hwfb Ht Hi Hbi Lsp) as [[Eab EG]|[g0 [r [EG [Hg Hgi]]]]].
    + left. rewrite EG. split; [exact Eab|]. rewrite is_term_kind_of in Ht.
      destruct (kind_of sch s); cbn in Ht; try discriminate; reflexivity.
    + right. rewrite EG in *. cbn zeta in Hg, Hgi.
      rewrite is_term_kind_of in Ht.
      destruct (kind_of sch s); cbn in Ht; try discriminate; (eexists; split; [reflexivity|]; split; [exact Hg|exact Hgi]).
Qed.

(* ------------------------------------------------------------------------------------------- *)
(* the theorems                                                                                  *)
(* ------------------------------------------------------------------------------------------- *)
Lemma nokeys_none f : (forall c, In c f -> is_key sch (d_sid c) = false) -> nokeys sch f = f.
Proof. destruct f as [|x f]; [reflexivity|]. intro H. cbn [nokeys]. rewrite (H x (or_introl eq_refl)). reflexivity. Qed.

Lemma wfb_nokeys f : wfb sch f = true -> forall c, In c f -> is_key sch (d_sid c) = false.
Proof.
  unfold wfb. intro H. apply andb_true_iff in H. destruct H as [H _]. apply andb_true_iff in H. destruct H as [H _].
  intros c Hc. rewrite forallb_forall in H. apply negb_true_iff. apply H, Hc.
Qed.

Lemma wf_supported_node n : wf_node sch n = true -> supported_node sch n = true.
Proof.
  induction n as [s v d m ch IH] using dnode_ind'. intro H. pose proof (wf_node_inv _ _ _ _ _ H) as W.
  cbn [supported_node]. rewrite (wn_uo _ _ _ _ _ W). cbn [negb andb].
  apply andb_true_iff. split.
  - pose proof (wn_kind _ _ _ _ _ W) as K. destruct (kind_of sch s) as [[|]| | | |]; try reflexivity.
    + destruct K as [-> _]. reflexivity.
    + destruct K as [-> _]. reflexivity.
    + destruct K.
  - apply forallb_forall. intros c Hc. rewrite Forall_forall in IH. apply IH; [exact Hc|].
    pose proof (wn_ch _ _ _ _ _ W) as Hch. rewrite forallb_forall in Hch. apply Hch, Hc.
Qed.

Lemma wfb_supported f : wfb sch f = true -> supportedb sch f = true.
Proof.
  intro H. apply wfb_sibs in H. unfold supportedb. apply forallb_forall. intros c Hc.
  apply wf_supported_node. pose proof (ws_nodes _ H) as Hn. rewrite forallb_forall in Hn. apply Hn, Hc.
Qed.

(* lyd_diff_siblings(A, B, LYD_DIFF_DEFAULTS) describes the change from A to B *)
Theorem diff_sp fa fb : wfb sch fa = true -> wfb sch fb = true ->
  exists ds, diff sch true fa fb = Ok ds /\ LevelSp (Sp None) ds fa fb.
Proof.
  intros Ha Hb. unfold diff. rewrite (wfb_supported _ Ha), (wfb_supported _ Hb). cbn [andb].
  eexists. split; [reflexivity|].
  pose proof (wfb_nokeys _ Ha) as Hka. pose proof (wfb_nokeys _ Hb) as Hkb.
  pose proof (wfb_sibs _ Ha) as Wa. pose proof (wfb_sibs _ Hb) as Wb.
  assert (E : diff_level sch true fa fb = level_items fa fb).
  { unfold diff_level, level_items. rewrite (nokeys_none _ Hka), (nokeys_none _ Hkb). reflexivity. }
  rewrite E. apply level_sem; try assumption.
  - left. split; reflexivity.
  - rewrite (nokeys_none _ Hka). exact Hka.
  - rewrite (nokeys_none _ Hkb). exact Hkb.
  - rewrite (leadkeys_none _ Hka), (leadkeys_none _ Hkb). reflexivity.
  - intros a Hain. rewrite (nokeys_none _ Hka) in Hain. rewrite (nokeys_none _ Hkb).
    pose proof (ws_nodes _ Wa) as Hn. rewrite forallb_forall in Hn.
    apply diff1_sem; [apply Hn, Hain|apply (so_nodup _ (ws_sibs _ Wb))|].
    intros b Hbin. pose proof (ws_nodes _ Wb) as Hnb. rewrite forallb_forall in Hnb. apply Hnb, Hbin.
Qed.

(* C06: applying diff(A,B) computed with default nodes to A yields B exactly, default flags included *)
Theorem apply_diff_exact fa fb : wfb sch fa = true -> wfb sch fb = true ->
  exists ds, diff sch true fa fb = Ok ds /\ apply sch ds fa = Ok fb.
Proof.
  intros Ha Hb. destruct (diff_sp fa fb Ha Hb) as [ds [Ed Hsp]]. exists ds. split; [exact Ed|].
  pose proof (wfb_sibs _ Ha) as Wa. pose proof (wfb_sibs _ Hb) as Wb.
  apply apply_level_sp; [exact Hsp|apply (ws_sibs _ Wa)|apply wf_allsome, (ws_nodes _ Wa)|apply (ws_sibs _ Wb)].
Qed.

(* ------------------------------------------------------------------------------------------- *)
(* diff(A, A) is empty (both options)                                                            *)
(* ------------------------------------------------------------------------------------------- *)
Lemma find_match_self o f x i :
  NoDup (ids f) -> In x f -> inst_id sch x = Some i ->
  find_match sch o f (Some i) = if d_dflt x && negb o then None else Some x.
Proof.
  intros Hn Hx Hi. apply in_split in Hx. destruct Hx as [l1 [l2 ->]].
  unfold find_match. rewrite (match_idx_split _ _ _ _ Hi Hn).
  rewrite nth_error_app2, Nat.sub_diag; [|apply Nat.le_refl]. reflexivity.
Qed.

Lemma pass2_all_lead_o o l fa : pass2_all sch o true l fa = pass2_all sch o false (nokeys sch l) fa.
Proof.
  induction l as [|x l IH]; [reflexivity|]. cbn [pass2_all nokeys andb].
  destruct (is_key sch (d_sid x)); [exact IH|]. cbn [pass2_all andb]. reflexivity.
Qed.

Lemma pass2_self o fa : NoDup (ids fa) -> AllSome fa -> forall l, (forall x, In x l -> In x fa) -> pass2_all sch o false l fa = [].
Proof.
  intros Hn Hs. induction l as [|x l IH]; intro Hl; [reflexivity|]. cbn [pass2_all andb].
  rewrite IH; [|intros y Hy; apply Hl; right; exact Hy]. rewrite app_nil_r.
  destruct (d_dflt x && negb o) eqn:E; [reflexivity|].
  destruct (inst_id sch x) as [i|] eqn:Ei.
  - rewrite (find_match_self o fa x i Hn (Hl x (or_introl eq_refl)) Ei), E. reflexivity.
  - exfalso. apply Hs. rewrite <- Ei. apply in_map. apply Hl. left. reflexivity.
Qed.

Lemma diff1_eq o s v d m ch bs :
  diff1 sch o (DN s v d m ch) bs =
    if d && negb o then []
    else
      match find_match sch o bs (inst_id sch (DN s v d m ch)) with
      | None => [(dd_set_op (lift (DN s v d m ch)) (Some OpDelete), SA, false)]
      | Some b =>
          match kind_of sch s with
          | KLeaf =>
              if negb (beq_bytes v (d_val b)) then
                [(DD s (d_val b) (d_dflt b) (Some OpReplace) (Some d) (Some v) [], SB, false)]
              else if o && xorb d (d_dflt b) then
                [(DD s (d_val b) (d_dflt b) (Some OpNone) (Some d) None [], SB, false)]
              else []
          | KLeafList =>
              if o && xorb d (d_dflt b) then [(DD s (d_val b) (d_dflt b) (Some OpNone) (Some d) None [], SB, false)] else []
          | KAny => []
          | KCont _ | KList =>
              match pass1_all sch (diff1 sch o) true ch (nokeys sch (d_ch b)) ++ pass2_all sch o true (d_ch b) (nokeys sch ch) with
              | [] => []
              | g0 :: r =>
                  let src := match item_side g0 with SA => DN s v d m ch | SB => b end in
                  let kids := map lift (leadkeys sch (d_ch src)) ++
                              order_level sch false (pass1_all sch (diff1 sch o) true ch (nokeys sch (d_ch b)) ++
                                                     pass2_all sch o true (d_ch b) (nokeys sch ch)) in
                  [(DD s [] (d_dflt src && forallb dd_dflt kids)
                       (if is_inner_item g0 then None else Some OpNone) None None kids, item_side g0, true)]
              end
          end
      end.
Proof. reflexivity. Qed.

Lemma xorb_same b : xorb b b = false.
Proof. destruct b; reflexivity. Qed.

Lemma flat_map_nil {A B} (f : A -> list B) l : (forall x, In x l -> f x = []) -> flat_map f l = [].
Proof.
  induction l as [|a l IH]; intro H; [reflexivity|]. cbn [flat_map]. rewrite (H a (or_introl eq_refl)), IH; [reflexivity|].
  intros x Hx. apply H. right. exact Hx.
Qed.

Lemma diff1_self o a : wf_node sch a = true -> forall bs, NoDup (ids bs) -> In a bs -> diff1 sch o a bs = [].
Proof.
  induction a as [s v d m ch IH] using dnode_ind'. intros Hw bs Hn Hin.
  pose proof (wf_node_inv _ _ _ _ _ Hw) as W.
  destruct (inst_id_some_uo (DN s v d m ch) (wn_uo _ _ _ _ _ W)) as [i Hi].
  rewrite diff1_eq. destruct (d && negb o) eqn:E; [reflexivity|].
  rewrite Hi, (find_match_self o bs _ i Hn Hin Hi). cbn [d_dflt]. rewrite E. cbn [d_val d_dflt d_ch].
  assert (Hinner : pass1_all sch (diff1 sch o) true ch (nokeys sch ch) ++ pass2_all sch o true ch (nokeys sch ch) = []).
  { pose proof (so_nodup _ (wn_sibs _ _ _ _ _ W)) as Hnc. pose proof (NoDup_ids_nokeys _ Hnc) as Hnn.
    pose proof (wn_ch _ _ _ _ _ W) as Hc. rewrite forallb_forall in Hc.
    rewrite pass1_all_lead, pass1_all_false, pass2_all_lead_o.
    rewrite flat_map_nil.
    - cbn [app]. apply pass2_self; [exact Hnn| |auto].
      apply (AllSome_app_r (leadkeys sch ch)). rewrite <- lead_nokeys. apply wf_allsome, (wn_ch _ _ _ _ _ W).
    - intros c Hcin. rewrite Forall_forall in IH. pose proof (nokeys_in _ _ Hcin) as Hcc.
      apply IH; [exact Hcc|apply Hc, Hcc|exact Hnn|exact Hcin]. }
  destruct (kind_of sch s).
  - rewrite Hinner. reflexivity.
  - rewrite (proj2 (beq_bytes_eq v v) eq_refl), xorb_same, andb_false_r. reflexivity.
  - rewrite xorb_same, andb_false_r. reflexivity.
  - rewrite Hinner. reflexivity.
  - reflexivity.
Qed.

Theorem diff_self_empty o f : wfb sch f = true -> diff sch o f f = Ok [].
Proof.
  intro H. unfold diff. rewrite (wfb_supported _ H). cbn [andb]. f_equal.
  pose proof (wfb_sibs _ H) as W. pose proof (wfb_nokeys _ H) as Hk.
  pose proof (so_nodup _ (ws_sibs _ W)) as Hn. pose proof (ws_nodes _ W) as Hc. rewrite forallb_forall in Hc.
  assert (E : diff_level sch o f f = []).
  { unfold diff_level. rewrite pass1_all_lead, pass1_all_false, pass2_all_lead_o, (nokeys_none _ Hk).
    rewrite flat_map_nil; [cbn [app]; apply pass2_self; [exact Hn|apply wf_allsome, (ws_nodes _ W)|auto]|].
    intros a Ha. apply diff1_self; [apply Hc, Ha|exact Hn|exact Ha]. }
  rewrite E. reflexivity.
Qed.

(* the roots of the diff are never list keys *)
Lemma diff_nokey fa fb ds : wfb sch fa = true -> wfb sch fb = true -> diff sch true fa fb = Ok ds ->
  forall d, In d ds -> is_key sch (dd_sid d) = false.
Proof.
  intros Ha Hb E d Hd. unfold diff in E. rewrite (wfb_supported _ Ha), (wfb_supported _ Hb) in E. cbn [andb] in E.
  inversion E; subst ds. clear E.
  pose proof (wfb_nokeys _ Ha) as Hka. pose proof (wfb_nokeys _ Hb) as Hkb.
  destruct (order_level_sid _ _ _ Hd) as [g [Hg Es]].
  assert (E : diff_level sch true fa fb = gen_level fa fb).
  { unfold diff_level. rewrite <- (nokeys_none _ Hka) at 2. rewrite <- (nokeys_none _ Hkb) at 1.
    rewrite (diff_level_gen fa fb); [rewrite (nokeys_none _ Hka), (nokeys_none _ Hkb); reflexivity| |].
    - rewrite (nokeys_none _ Hka). exact Hka.
    - rewrite (nokeys_none _ Hkb). exact Hkb. }
  rewrite E in Hg. destruct (gen_level_sid _ _ _ Hg) as [x [[Hx|Hx] Ex]]; rewrite Es, Ex; [apply Hka|apply Hkb]; exact Hx.
Qed.

(* ------------------------------------------------------------------------------------------- *)
(* without default nodes the defaults option makes no difference                                 *)
(* ------------------------------------------------------------------------------------------- *)
Lemma nodflt_inv s v d m ch : nodflt_node (DN s v d m ch) = true -> d = false /\ forallb nodflt_node ch = true.
Proof. cbn [nodflt_node]. intro H. apply andb_true_iff in H. destruct H as [H1 H2]. apply negb_true_iff in H1. split; assumption. Qed.

Lemma nodflt_dflt n : nodflt_node n = true -> d_dflt n = false.
Proof. destruct n as [s v d m ch]. intro H. apply (nodflt_inv _ _ _ _ _ H). Qed.

Lemma nodflt_nokeys l : forallb nodflt_node l = true -> forallb nodflt_node (nokeys sch l) = true.
Proof.
  intro H. apply forallb_forall. intros x Hx. rewrite forallb_forall in H. apply H, (nokeys_in _ _ Hx).
Qed.

Lemma find_match_nodflt o f i : forallb nodflt_node f = true -> find_match sch o f i = find_match sch true f i.
Proof.
  intro H. unfold find_match. destruct (match_idx sch f i) as [k|]; [|reflexivity].
  destruct (nth_error f k) as [m|] eqn:E; [|reflexivity].
  rewrite forallb_forall in H. rewrite (nodflt_dflt m (H m (nth_error_In _ _ E))). reflexivity.
Qed.

Lemma pass1_all_ext p1 p2 bs : forall l lead,
  (forall x, In x l -> p1 x bs = p2 x bs) -> pass1_all sch p1 lead l bs = pass1_all sch p2 lead l bs.
Proof.
  induction l as [|x l IH]; intros lead H; [reflexivity|]. cbn [pass1_all].
  destruct (lead && is_key sch (d_sid x)).
  - apply IH. intros y Hy. apply H. right. exact Hy.
  - rewrite (H x (or_introl eq_refl)). f_equal. apply IH. intros y Hy. apply H. right. exact Hy.
Qed.

Lemma pass2_all_nodflt o fa : forallb nodflt_node fa = true -> forall l lead,
  forallb nodflt_node l = true -> pass2_all sch o lead l fa = pass2_all sch true lead l fa.
Proof.
  intros Hfa. induction l as [|x l IH]; intros lead Hl; [reflexivity|]. cbn [forallb] in Hl.
  apply andb_true_iff in Hl. destruct Hl as [Hx Hl]. cbn [pass2_all].
  destruct (lead && is_key sch (d_sid x)); [apply IH; exact Hl|].
  rewrite (nodflt_dflt x Hx). cbn [andb]. rewrite (find_match_nodflt o fa _ Hfa). f_equal. apply IH. exact Hl.
Qed.

Lemma diff1_nodflt o a : nodflt_node a = true -> forall bs, forallb nodflt_node bs = true ->
  diff1 sch o a bs = diff1 sch true a bs.
Proof.
  induction a as [s v d m ch IH] using dnode_ind'. intros Ha bs Hbs.
  destruct (nodflt_inv _ _ _ _ _ Ha) as [-> Hch]. rewrite !diff1_eq. cbn [andb].
  rewrite (find_match_nodflt o bs _ Hbs).
  destruct (find_match sch true bs (inst_id sch (DN s v false m ch))) as [b|] eqn:Ef; [|reflexivity].
  assert (Hb : nodflt_node b = true).
  { unfold find_match in Ef. destruct (match_idx sch bs _) as [k|]; [|discriminate].
    destruct (nth_error bs k) as [m0|] eqn:E; [|discriminate]. rewrite andb_false_r in Ef. inversion Ef; subst m0.
    rewrite forallb_forall in Hbs. apply Hbs, (nth_error_In _ _ E). }
  rewrite (nodflt_dflt b Hb). cbn [xorb]. rewrite !andb_false_r.
  destruct b as [sb vb db mb chb]. destruct (nodflt_inv _ _ _ _ _ Hb) as [-> Hchb]. cbn [d_ch d_val d_dflt].
  assert (E1 : pass1_all sch (diff1 sch o) true ch (nokeys sch chb) = pass1_all sch (diff1 sch true) true ch (nokeys sch chb)).
  { apply pass1_all_ext. intros x Hx. rewrite Forall_forall in IH. apply IH; [exact Hx| |apply nodflt_nokeys; exact Hchb].
    rewrite forallb_forall in Hch. apply Hch, Hx. }
  assert (E2 : pass2_all sch o true chb (nokeys sch ch) = pass2_all sch true true chb (nokeys sch ch)).
  { apply pass2_all_nodflt; [apply nodflt_nokeys; exact Hch|exact Hchb]. }
  rewrite E1, E2. reflexivity.
Qed.

Theorem diff_nodflt_option o fa fb : nodfltb fa = true -> nodfltb fb = true -> diff sch o fa fb = diff sch true fa fb.
Proof.
  intros Ha Hb. unfold diff. destruct (supportedb sch fa && supportedb sch fb); [|reflexivity]. f_equal. f_equal.
  unfold diff_level. f_equal.
  - apply pass1_all_ext. intros x Hx. apply diff1_nodflt; [|exact Hb]. unfold nodfltb in Ha. rewrite forallb_forall in Ha. apply Ha, Hx.
  - apply pass2_all_nodflt; assumption.
Qed.

(* C06 without the defaults option, on trees that hold no default nodes: exact *)
Theorem apply_diff_nodflt_partial fa fb :
  wfb sch fa = true -> wfb sch fb = true -> nodfltb fa = true -> nodfltb fb = true ->
  exists ds, diff sch false fa fb = Ok ds /\ apply sch ds fa = Ok fb.
Proof.
  intros Ha Hb Na Nb. rewrite (diff_nodflt_option false fa fb Na Nb). apply apply_diff_exact; assumption.
Qed.
End WithSchema.
