(* Dec64.v — model of the decimal64 built-in type as stored from a text value:
     lyplg_type_store_decimal64 / decimal64_num2str     src/plugins_types/decimal64.c
     lyplg_type_parse_dec64                             src/plugins_types.c
   The parser is transcribed with its index arithmetic ([len], [fraction], [trailing_zeros],
   [size] are the C variables), defects included:
     - a sign with no digit at all ("-", "+", "- ", "+.5", "-.5") is accepted (sign only = 0),
     - value[len + 1] is read without checking len + 1 < value_len, so the decision on a value
       ending in '.' depends on the byte AFTER the value ([nxt] below; it is 0 when the caller
       passes a NUL-terminated string, '<' or a quote inside XML/JSON input).
   Model only; proofs in Dec64P.v. *)
From LY Require Import Base TypesMisc IntLex.
Local Open Scope N_scope.

Definition rd (s : bytes) (i : nat) : N := nth i s 0.

(* while (len < value_len && isdigit(value[len])) ++len;   as a count from a suffix *)
Fixpoint count_digits (s : bytes) : nat :=
  match s with
  | c :: s' => if is_digit c then S (count_digits s') else O
  | [] => O
  end.

(* for (u = ...; u < value_len && isspace(value[u]); ++u) {} *)
Fixpoint count_space (s : bytes) : nat :=
  match s with
  | c :: s' => if is_space c then S (count_space s') else O
  | [] => O
  end.

(* the fraction loop: counts the digits [n] and the length [tz] of the run of '0' that ends them *)
Fixpoint scan_frac (s : bytes) (n tz : nat) : nat * nat :=
  match s with
  | c :: s' => if is_digit c then scan_frac s' (S n) (if c =? 48 then S tz else O) else (n, tz)
  | [] => (n, tz)
  end.

Definition I64MIN_Z : Z := (-9223372036854775808)%Z.
Definition I64MAX_Z : Z := 9223372036854775807%Z.

(* lyplg_type_parse_dec64(fraction_digits, value, value_len, &ret, &err); [nxt] = value[value_len] *)
Definition dec64_parse (fd : nat) (v0 : bytes) (nxt : N) : res Z :=
  let value := skip_space v0 in                               (* consume leading whitespaces *)
  let vlen := length value in
  let vx := value ++ [nxt] in
  match value with
  | [] => Err E_EMPTY                                         (* !value_len *)
  | c0 :: _ =>
      if negb (is_digit c0) && negb (c0 =? 45) && negb (c0 =? 43) then Err E_VALID
      else
        let len1 := if (c0 =? 45) || (c0 =? 43) then 1%nat else 0%nat in
        let len2 := (len1 + count_digits (skipn len1 value))%nat in
        (* if ((len < value_len) && ((value[len] != '.') || !isdigit(value[len + 1]))) goto decimal; *)
        let '(fraction, len, tz) :=
          if (len2 <? vlen)%nat && (negb (rd value len2 =? 46) || negb (is_digit (rd vx (len2 + 1))))
          then (0%nat, len2, 0%nat)
          else
            let '(n, tz) := scan_frac (skipn (len2 + 1) value) 0 0 in
            (len2, (len2 + 1 + n - tz)%nat, tz) in
        (* decimal: *)
        if negb (fraction =? 0)%nat && (fd <? len - 1 - fraction)%nat then Err E_FRAC
        else
          let trailing_ok :=
            if (len + tz <? vlen)%nat
            then ((len + tz + count_space (skipn (len + tz) value)) =? vlen)%nat
            else true in
          if negb trailing_ok then Err E_VALID
          else
            let valcopy :=
              if negb (fraction =? 0)%nat
              then firstn fraction value
                   ++ firstn (len - 1 - fraction) (skipn (fraction + 1) value)
                   ++ repeat 48 (fd - (len - 1 - fraction))
              else firstn len value ++ repeat 48 fd in
            plg_parse_int valcopy I64MIN_Z I64MAX_Z
  end.

(* lyplg_type_store_decimal64 for a text value: parse, then the range on the scaled integer *)
Definition dec64_store (fd : nat) (parts : list (Z * Z)) (s : bytes) (nxt : N) : res Z :=
  match dec64_parse fd s nxt with
  | Err e => Err e
  | Ok n => if validate_range parts n then Ok n else Err E_RANGE
  end.

(* ---------- decimal64_num2str(num, type, &str) ----------
   sprintf("%lld ") (zero-padded to fraction_digits + 1 digits when shorter), then the last
   fraction_digits digits are moved one place to the right, dropping the zeros at the end but
   never the first fraction digit (the  i > 1  test), and '.' is put into the gap. num == 0 is
   printed as the literal 0.0 . *)
Fixpoint strip_tz (l : bytes) : bytes :=
  match l with
  | [] => []
  | c :: l' =>
      match strip_tz l' with
      | [] => if c =? 48 then [] else [c]
      | r => c :: r
      end
  end.

Definition frac_canon (fr : bytes) : bytes :=
  match fr with
  | [] => []
  | c :: r => c :: strip_tz r
  end.

Definition dec64_canon (fd : nat) (n : Z) : bytes :=
  if (n =? 0)%Z then [48; 46; 48]
  else
    let ds0 := N_to_dec (Z.abs_N n) in
    let ds := repeat 48 (S fd - length ds0) ++ ds0 in
    let k := (length ds - fd)%nat in
    (if (n <? 0)%Z then [45] else []) ++ firstn k ds ++ 46 :: frac_canon (skipn k ds).

(* lyplg_type_compare_decimal64 / lyplg_type_sort_decimal64: on the stored int64 *)
Definition dec64_compare (a b : Z) : bool := (a =? b)%Z.
Definition dec64_sort (a b : Z) : comparison := (a ?= b)%Z.
