(* Dec64.v — model of the decimal64 built-in type as stored from a text value:
     lyplg_type_store_decimal64 / decimal64_num2str     src/plugins_types/decimal64.c
     lyplg_type_parse_dec64                             src/plugins_types.c
   The parser is transcribed with its index arithmetic ([len], [fraction], [trailing_zeros],
   [size] are the C variables).
   History: up to round 1 the code had two defects, which the model carried:
     - a sign with no digit at all (the values  -  +  -SP  +.5  -.5 ) was accepted (sign only = 0),
     - value[len + 1] was read without checking len + 1 < value_len, so the decision on a value
       ending in '.' depended on the byte AFTER the value.
   Both were fixed in /repo: commit f731599 (value[len + 1] is read only when len + 1 < value_len)
   and commit f933623 (a sign must be followed by a digit, otherwise LY_EVALID). The model follows
   the FIXED code: every read value[i] of the function is guarded by i < value_len, so the byte after
   the value is not a parameter of the model any more. (&value[fraction + 1] with fraction =
   value_len is still computed for a value without a period, but only as the source of a memcpy of
   length 0: nothing is read through it.)
   Model only; proofs in Dec64P.v. *)
From LY Require Import Base TypesMisc IntLex.
Local Open Scope N_scope.

Definition rd (s : bytes) (i : nat) : N := nth i s 0.

(* while (len < value_len && isdigit(value[len])) ++len;   as a count from a suffix *)
Fixpoint count_digits (s : bytes) : nat :=
  match s with
  | c :: s' => if is_digit c then S (count_digits s') else O
  | [] => O
  end.

(* for (u = ...; u < value_len && isspace(value[u]); ++u) {} *)
Fixpoint count_space (s : bytes) : nat :=
  match s with
  | c :: s' => if is_space c then S (count_space s') else O
  | [] => O
  end.

(* the fraction loop: counts the digits [n] and the length [tz] of the run of '0' that ends them *)
Fixpoint scan_frac (s : bytes) (n tz : nat) : nat * nat :=
  match s with
  | c :: s' => if is_digit c then scan_frac s' (S n) (if c =? 48 then S tz else O) else (n, tz)
  | [] => (n, tz)
  end.

Definition I64MIN_Z : Z := (-9223372036854775808)%Z.
Definition I64MAX_Z : Z := 9223372036854775807%Z.

(* lyplg_type_parse_dec64(fraction_digits, value, value_len, &ret, &err).
   First half, up to the label decimal: the C variables (fraction, len, trailing_zeros) there.
   [len1] is [len] after the optional sign. [rd value i] is only evaluated under i < value_len
   (the conjunctions and disjunctions below are the short-circuit ones of the C condition). *)
Definition dec64_scan (value : bytes) (len1 : nat) : nat * nat * nat :=
  let vlen := length value in
  (* while (len < value_len && isdigit(value[len])) ++len; *)
  let len2 := (len1 + count_digits (skipn len1 value))%nat in
  (* if ((len < value_len) && ((value[len] != '.') || (len + 1 == value_len) || !isdigit(value[len + 1])))
       goto decimal; *)
  if (len2 <? vlen)%nat &&
     (negb (rd value len2 =? 46) || (len2 + 1 =? vlen)%nat || negb (is_digit (rd value (len2 + 1))))
  then (0%nat, len2, 0%nat)
  else
    (* fraction = len; ++len; the fraction loop; len = len - trailing_zeros; *)
    let '(n, tz) := scan_frac (skipn (len2 + 1) value) 0 0 in
    (len2, (len2 + 1 + n - tz)%nat, tz).

(* second half, from the label decimal on *)
Definition dec64_finish (fd : nat) (value : bytes) (fraction len tz : nat) : res Z :=
  let vlen := length value in
  (* if (fraction && (len - 1 - fraction > fraction_digits)) error *)
  if negb (fraction =? 0)%nat && (fd <? len - 1 - fraction)%nat then Err E_FRAC
  else
    (* if (len + trailing_zeros < value_len) only white space may follow *)
    let trailing_ok :=
      if (len + tz <? vlen)%nat
      then ((len + tz + count_space (skipn (len + tz) value)) =? vlen)%nat
      else true in
    if negb trailing_ok then Err E_VALID
    else
      (* valcopy: the digits without the decimal point, padded with zeros to fraction_digits *)
      let valcopy :=
        if negb (fraction =? 0)%nat
        then firstn fraction value
             ++ firstn (len - 1 - fraction) (skipn (fraction + 1) value)
             ++ repeat 48 (fd - (len - 1 - fraction))
        else firstn len value ++ repeat 48 fd in
      plg_parse_int valcopy I64MIN_Z I64MAX_Z.

Definition dec64_parse (fd : nat) (v0 : bytes) : res Z :=
  let value := skip_space v0 in                               (* consume leading whitespaces *)
  match value with
  | [] => Err E_EMPTY                                         (* !value_len *)
  | c0 :: _ =>
      (* !isdigit(value[0]) && value[0] != '-' && value[0] != '+' *)
      if negb (is_digit c0) && negb (c0 =? 45) && negb (c0 =? 43) then Err E_VALID
      else
        (* if ((value[len] == '-') || (value[len] == '+')) { ++len;
             if ((len == value_len) || !isdigit(value[len])) return LY_EVALID;    a sign must be followed by a digit
           } *)
        let sign := (c0 =? 45) || (c0 =? 43) in
        let len1 := if sign then 1%nat else 0%nat in
        if sign && ((len1 =? length value)%nat || negb (is_digit (rd value len1))) then Err E_VALID
        else
          let '(fraction, len, tz) := dec64_scan value len1 in
          dec64_finish fd value fraction len tz
  end.

(* lyplg_type_store_decimal64 for a text value: parse, then the range on the scaled integer *)
Definition dec64_store (fd : nat) (parts : list (Z * Z)) (s : bytes) : res Z :=
  match dec64_parse fd s with
  | Err e => Err e
  | Ok n => if validate_range parts n then Ok n else Err E_RANGE
  end.

(* ---------- decimal64_num2str(num, type, &str) ----------
   sprintf with the format %lld followed by one space (zero-padded to fraction_digits + 1 digits when shorter), then the last
   fraction_digits digits are moved one place to the right, dropping the zeros at the end but
   never the first fraction digit (the  i > 1  test), and '.' is put into the gap. num == 0 is
   printed as the literal 0.0 . *)
Fixpoint strip_tz (l : bytes) : bytes :=
  match l with
  | [] => []
  | c :: l' =>
      match strip_tz l' with
      | [] => if c =? 48 then [] else [c]
      | r => c :: r
      end
  end.

Definition frac_canon (fr : bytes) : bytes :=
  match fr with
  | [] => []
  | c :: r => c :: strip_tz r
  end.

Definition dec64_canon (fd : nat) (n : Z) : bytes :=
  if (n =? 0)%Z then [48; 46; 48]
  else
    let ds0 := N_to_dec (Z.abs_N n) in
    let ds := repeat 48 (S fd - length ds0) ++ ds0 in
    let k := (length ds - fd)%nat in
    (if (n <? 0)%Z then [45] else []) ++ firstn k ds ++ 46 :: frac_canon (skipn k ds).

(* lyplg_type_compare_decimal64 / lyplg_type_sort_decimal64: on the stored int64 *)
Definition dec64_compare (a b : Z) : bool := (a =? b)%Z.
Definition dec64_sort (a b : Z) : comparison := (a ?= b)%Z.

(* ---------- Spec ----------
   RFC 7950 9.3.1: the lexical representation of a decimal64 value is an optional sign, a sequence of
   decimal digits, optionally followed by a period and a sequence of decimal digits. 9.3 value space:
   the numbers  i x 10^-n  with i an int64 and n = fraction-digits. *)
Inductive frac_part : bytes -> bytes -> Prop :=          (* text of the optional part, its digits *)
| FracNone : frac_part [] []
| FracSome fp : fp <> [] -> all_digit fp -> frac_part (46 :: fp) fp.

Definition sgn (sg : bytes) : Z := if beq_bytes sg [45] then (-1)%Z else 1%Z.

(* (the rational written as  sg ip . fp) * 10^fd = n, multiplied through by 10^|fp| so that it is an
   equation between integers:   +-(ip fp read as one number) * 10^fd  =  n * 10^|fp|  *)
Definition dec64_denotes (fd : nat) (sg ip fp : bytes) (n : Z) : Prop :=
  (sgn sg * Z.of_N (dec_to_N (ip ++ fp)) * 10 ^ Z.of_nat fd = n * 10 ^ Z.of_nat (length fp))%Z.

Inductive rfc_dec64_lex (fd : nat) : bytes -> Z -> Prop :=
| RfcDec sg ip ft fp n :
    is_sign sg -> ip <> [] -> all_digit ip -> frac_part ft fp -> dec64_denotes fd sg ip fp n ->
    rfc_dec64_lex fd (sg ++ ip ++ ft) n.

(* with libyang's white-space tolerance stated explicitly *)
Inductive ws_around (P : bytes -> Z -> Prop) : bytes -> Z -> Prop :=
| WsAround ws1 core ws2 n : all_space ws1 -> all_space ws2 -> P core n -> ws_around P (ws1 ++ core ++ ws2) n.

Definition rfc_ws_dec64_lex (fd : nat) : bytes -> Z -> Prop := ws_around (rfc_dec64_lex fd).

(* RFC 7950 9.3.2 canonical form: no plus sign, the decimal point is required, leading and trailing
   zeros are prohibited except that there must be at least one digit before and after the point;
   zero is 0.0 *)
Definition rfc_dec64_canonical (c : bytes) : Prop :=
  exists sg ip fp,
    c = sg ++ ip ++ 46 :: fp /\ (sg = [] \/ sg = [45]) /\
    all_digit ip /\ (ip = [48] \/ exists d r, ip = d :: r /\ d <> 48) /\
    all_digit fp /\ (fp = [48] \/ exists p d, fp = p ++ [d] /\ d <> 48) /\
    (sg = [45] -> ~ (ip = [48] /\ fp = [48])).
