(* RewriteP.v - slice regex (property C18): lemmas about the textual rewrite of Rewrite.v. *)
From LY Require Import Base Rewrite.
From Coq Require Import ZifyBool ZifyNat ZifyN.
Local Open Scope N_scope.

(* ---- strstr ------------------------------------------------------------------------------------ *)
(* some suffix of s starts with nd *)
Fixpoint has_sub (nd s : bytes) : bool :=
  starts_with nd s || match s with [] => false | _ :: s' => has_sub nd s' end.

Lemma find_sub_none nd s : find_sub nd s = None <-> has_sub nd s = false.
Proof.
  induction s as [|c s IH].
  - cbn [find_sub has_sub]. destruct (starts_with nd []); cbn; split; congruence.
  - cbn [find_sub has_sub]. destruct (starts_with nd (c :: s)); cbn [orb].
    + split; discriminate.
    + destruct (find_sub nd s) as [[b a]|].
      * split; [discriminate|]. intro H. apply IH in H. discriminate.
      * split; [intros _; apply IH; reflexivity|reflexivity].
Qed.

Lemma has_sub_cons nd c s : has_sub nd (c :: s) = starts_with nd (c :: s) || has_sub nd s.
Proof. reflexivity. Qed.

Lemma has_sub_nil nd : nd <> [] -> has_sub nd [] = false.
Proof. destruct nd; [congruence|reflexivity]. Qed.

(* a prefix test that succeeds on a succeeds on a ++ b; one that is decided inside a is not changed
   by appending b *)
Lemma starts_with_ext nd a b : starts_with nd a = true -> starts_with nd (a ++ b) = true.
Proof.
  revert a; induction nd as [|x nd IH]; intros a H; [reflexivity|].
  destruct a as [|c a]; [discriminate|]. cbn [starts_with app] in *.
  apply andb_true_iff in H. destruct H as [H1 H2]. rewrite H1, (IH _ H2). reflexivity.
Qed.

Lemma starts_with_short nd a : (length a < length nd)%nat -> starts_with nd a = false.
Proof.
  revert a; induction nd as [|x nd IH]; intros a H; cbn [length] in H; [lia|].
  destruct a as [|c a]; [reflexivity|]. cbn [starts_with length] in *.
  rewrite IH by lia. apply andb_false_r.
Qed.

Lemma starts_with_long nd a b : (length nd <= length a)%nat -> starts_with nd (a ++ b) = starts_with nd a.
Proof.
  revert a; induction nd as [|x nd IH]; intros a H; [reflexivity|].
  destruct a as [|c a]; cbn [length] in H; [lia|]. cbn [starts_with app].
  rewrite IH by lia. reflexivity.
Qed.

(* a is not a prefix of nd: the comparison of nd with a ++ r is decided inside a *)
Lemma starts_with_decided nd : forall a r, starts_with a nd = false -> starts_with nd (a ++ r) = starts_with nd a.
Proof.
  induction nd as [|x nd IH]; intros a r H; [reflexivity|].
  destruct a as [|c a]; [discriminate|]. cbn [starts_with app] in *.
  destruct (c =? x) eqn:E.
  - apply N.eqb_eq in E. subst c. rewrite N.eqb_refl in *. cbn [andb] in *. apply IH. exact H.
  - rewrite N.eqb_sym, E. reflexivity.
Qed.

(* an occurrence of nd that starts inside a (non-empty, shorter than nd) and runs into b: the last
   byte of a is one of the bytes of nd but its last, the first byte of b is one of nd but its first *)
Lemma straddle_last nd : forall a b,
  starts_with nd (a ++ b) = true -> a <> [] -> (length a < length nd)%nat -> In (last a 0) (removelast nd).
Proof.
  induction nd as [|x nd IH]; intros a b H Ha Hl; cbn [length] in Hl; [lia|].
  destruct a as [|c a]; [congruence|]. cbn [starts_with app length] in *.
  apply andb_true_iff in H. destruct H as [Hx H]. apply N.eqb_eq in Hx. subst c.
  destruct nd as [|y nd]; [cbn [length] in Hl; lia|].
  change (removelast (x :: y :: nd)) with (x :: removelast (y :: nd)).
  destruct a as [|c a]; [left; reflexivity|].
  right. change (last (x :: c :: a) 0) with (last (c :: a) 0).
  apply (IH (c :: a) b H); [discriminate|cbn [length] in *; lia].
Qed.

Lemma straddle_hd nd : forall a b,
  starts_with nd (a ++ b) = true -> a <> [] -> (length a < length nd)%nat ->
  exists y b', b = y :: b' /\ In y (tl nd).
Proof.
  induction nd as [|x nd IH]; intros a b H Ha Hl; cbn [length] in Hl; [lia|].
  destruct a as [|c a]; [congruence|]. cbn [starts_with app length tl] in *.
  apply andb_true_iff in H. destruct H as [_ H].
  destruct a as [|c' a].
  - cbn [app] in H. destruct nd as [|y nd]; [cbn [length] in Hl; lia|].
    destruct b as [|z b]; [discriminate|]. cbn [starts_with] in H.
    apply andb_true_iff in H. destruct H as [Hy _]. apply N.eqb_eq in Hy. subst z.
    exists y, b. split; [reflexivity|left; reflexivity].
  - destruct (IH (c' :: a) b H) as (y & b' & -> & Hy); [discriminate|cbn [length] in *; lia|].
    exists y, b'. split; [reflexivity|]. destruct nd as [|z nd]; [destruct Hy|]. right. exact Hy.
Qed.

(* nostr nd a b: no occurrence of nd starts inside a and runs into b *)
Definition nostr (nd a b : bytes) : Prop :=
  forall x y, a = x ++ y -> y <> [] -> starts_with nd (y ++ b) = starts_with nd y.

Lemma nostr_tail nd c a b : nostr nd (c :: a) b -> nostr nd a b.
Proof. intros H x y E Hy. apply (H (c :: x) y); [rewrite E; reflexivity|exact Hy]. Qed.

Lemma nostr_head nd c a b : nostr nd (c :: a) b -> starts_with nd (c :: a ++ b) = starts_with nd (c :: a).
Proof. intro H. apply (H [] (c :: a)); [reflexivity|discriminate]. Qed.

Lemma last_suffix (x y : bytes) d : y <> [] -> last (x ++ y) d = last y d.
Proof.
  intro Hy. induction x as [|c x IH]; [reflexivity|].
  cbn [app]. destruct (x ++ y) eqn:E; [destruct x; [cbn in E; congruence|discriminate]|].
  cbn [last]. exact IH.
Qed.

Lemma nostr_by_last nd a b : a <> [] -> ~ In (last a 0) (removelast nd) -> nostr nd a b.
Proof.
  intros Ha Hl x y E Hy.
  destruct (Nat.le_gt_cases (length nd) (length y)) as [Hlen|Hlen].
  - apply starts_with_long. exact Hlen.
  - rewrite (starts_with_short nd y Hlen).
    destruct (starts_with nd (y ++ b)) eqn:Hs; [|reflexivity].
    exfalso. apply Hl. rewrite E, (last_suffix x y 0 Hy).
    apply (straddle_last nd y b Hs Hy Hlen).
Qed.

Lemma nostr_by_hd nd a b : (forall y b', b = y :: b' -> ~ In y (tl nd)) -> nostr nd a b.
Proof.
  intros Hb x y E Hy.
  destruct (Nat.le_gt_cases (length nd) (length y)) as [Hlen|Hlen].
  - apply starts_with_long. exact Hlen.
  - rewrite (starts_with_short nd y Hlen).
    destruct (starts_with nd (y ++ b)) eqn:Hs; [|reflexivity].
    exfalso. destruct (straddle_hd nd y b Hs Hy Hlen) as (z & b' & Eb & Hz).
    exact (Hb z b' Eb Hz).
Qed.

Lemma has_sub_app nd a b : nd <> [] -> nostr nd a b -> has_sub nd (a ++ b) = has_sub nd a || has_sub nd b.
Proof.
  intros Hnd. induction a as [|c a IH]; intro Hn.
  - cbn [app]. rewrite (has_sub_nil nd Hnd). reflexivity.
  - cbn [app]. rewrite !has_sub_cons, (nostr_head _ _ _ _ Hn), (IH (nostr_tail _ _ _ _ Hn)).
    rewrite orb_assoc. reflexivity.
Qed.

Lemma find_sub_app nd a b :
  nd <> [] -> nostr nd a b -> has_sub nd a = false ->
  find_sub nd (a ++ b) = match find_sub nd b with Some (x, y) => Some (a ++ x, y) | None => None end.
Proof.
  intros Hnd. induction a as [|c a IH]; intros Hn Ha.
  - cbn [app]. destruct (find_sub nd b) as [[x y]|]; reflexivity.
  - rewrite has_sub_cons in Ha. apply orb_false_iff in Ha. destruct Ha as [Hc Ha].
    cbn [app find_sub]. rewrite (nostr_head _ _ _ _ Hn), Hc, (IH (nostr_tail _ _ _ _ Hn) Ha).
    destruct (find_sub nd b) as [[x y]|]; reflexivity.
Qed.

Lemma has_sub_app_false nd a b : has_sub nd (a ++ b) = false -> has_sub nd a = false /\ has_sub nd b = false.
Proof.
  induction a as [|c a IH]; intro H.
  - cbn [app] in H. split; [|exact H]. cbn [has_sub]. destruct (starts_with nd []) eqn:E; [|reflexivity].
    pose proof (starts_with_ext nd [] b E) as E2. cbn [app] in E2.
    destruct b; cbn [has_sub] in H; rewrite E2 in H; discriminate.
  - cbn [app] in H. rewrite has_sub_cons in H. apply orb_false_iff in H. destruct H as [Hc H].
    destruct (IH H) as [Ha Hb]. split; [|exact Hb]. rewrite has_sub_cons, Ha.
    destruct (starts_with nd (c :: a)) eqn:E; [|reflexivity].
    pose proof (starts_with_ext nd (c :: a) b E) as E2. cbn [app] in E2. rewrite E2 in Hc. discriminate.
Qed.

(* what strstr returns *)
Lemma find_sub_some nd s before at_ :
  nd <> [] -> find_sub nd s = Some (before, at_) ->
  s = before ++ at_ /\ has_sub nd before = false /\ starts_with nd at_ = true.
Proof.
  intro Hnd. revert before. induction s as [|c s IH]; intros before H.
  - cbn [find_sub] in H. destruct (starts_with nd []) eqn:E; [|discriminate].
    inversion H; subst. repeat split; [apply has_sub_nil; exact Hnd|exact E].
  - cbn [find_sub] in H. destruct (starts_with nd (c :: s)) eqn:E.
    + inversion H; subst. repeat split; [apply has_sub_nil; exact Hnd|exact E].
    + destruct (find_sub nd s) as [[b a]|] eqn:F; [|discriminate]. inversion H; subst.
      destruct (IH b eq_refl) as (Hs & Hb & Ha). subst s. repeat split; [|exact Ha].
      rewrite has_sub_cons, Hb. destruct (starts_with nd (c :: b)) eqn:E2; [|reflexivity].
      pose proof (starts_with_ext nd (c :: b) at_ E2) as E3. cbn [app] in E3. rewrite E3 in E. discriminate.
Qed.

Lemma after_char_some ch s rest : after_char ch s = Some rest -> exists mid, s = mid ++ ch :: rest.
Proof.
  revert rest. induction s as [|c s IH]; intros rest H; [discriminate|].
  cbn [after_char] in H. destruct (c =? ch) eqn:E.
  - apply N.eqb_eq in E. inversion H; subst. exists []. reflexivity.
  - destruct (IH _ H) as [mid ->]. exists (c :: mid). reflexivity.
Qed.

Lemma after_char_app ch l r : forallb (fun c => negb (c =? ch)) l = true -> after_char ch (l ++ ch :: r) = Some r.
Proof.
  induction l as [|c l IH]; intro H.
  - cbn [app after_char]. rewrite N.eqb_refl. reflexivity.
  - cbn [forallb] in H. apply andb_true_iff in H. destruct H as [Hc H].
    cbn [app after_char]. apply negb_true_iff in Hc. rewrite Hc. apply IH. exact H.
Qed.

Lemma before_char_app ch l r : forallb (fun c => negb (c =? ch)) l = true -> before_char ch (l ++ ch :: r) = l.
Proof.
  induction l as [|c l IH]; intro H.
  - cbn [app before_char]. rewrite N.eqb_refl. reflexivity.
  - cbn [forallb] in H. apply andb_true_iff in H. destruct H as [Hc H].
    cbn [app before_char]. apply negb_true_iff in Hc. rewrite Hc, (IH H). reflexivity.
Qed.

(* ---- single steps of esc_pass ------------------------------------------------------------------ *)
Lemma anchor_cases c : is_anchor c = true -> c = 36 \/ c = 94.
Proof. unfold is_anchor. lia. Qed.

Lemma bind_ok {A B} (r : res A) (f : A -> res B) v : bind r f = Ok v -> exists u, r = Ok u /\ f u = Ok v.
Proof. destruct r as [u|e]; cbn [bind]; [intro H; exists u; split; [reflexivity|exact H]|discriminate]. Qed.

Lemma esc_plain brack c tail o :
  c <> 92 -> c <> 91 -> c <> 93 -> (is_anchor c = false \/ brack <> 0) ->
  esc_pass brack false tail = Ok o ->
  esc_pass brack false (c :: tail) = Ok (c :: o).
Proof.
  intros H92 H91 H93 Ha Ht. cbn [esc_pass].
  apply N.eqb_neq in H92, H91, H93. rewrite H92, H91, H93.
  destruct (is_anchor c) eqn:Hanc.
  - destruct Ha as [Ha|Ha]; [discriminate|]. apply N.eqb_neq in Ha. rewrite Ht. cbn [bind]. rewrite Ha. reflexivity.
  - rewrite Ht. reflexivity.
Qed.

Lemma esc_anchor0 c tail o :
  is_anchor c = true -> esc_pass 0 false tail = Ok o ->
  esc_pass 0 false (c :: tail) = Ok (92 :: c :: o).
Proof.
  intros Ha Ht. cbn [esc_pass]. rewrite Ha.
  assert (H92 : (c =? 92) = false) by (apply anchor_cases in Ha; lia).
  rewrite H92, Ht. reflexivity.
Qed.

(* a backslash and the byte after it, whatever that byte is (an escaped '^' / '$' gets no second
   backslash, an escaped bracket is not counted) *)
Lemma esc_pair brack x tail o :
  esc_pass brack false tail = Ok o ->
  esc_pass brack false (92 :: x :: tail) = Ok (92 :: x :: o).
Proof.
  intros Ht. cbn [esc_pass]. change (92 =? 92) with true. cbn [negb].
  destruct (x =? 92) eqn:H92.
  - apply N.eqb_eq in H92. subst x. cbn [negb]. rewrite Ht. reflexivity.
  - destruct (is_anchor x) eqn:Hanc.
    + rewrite Ht. cbn [bind negb]. rewrite andb_false_r. reflexivity.
    + destruct (x =? 91) eqn:H91; [rewrite Ht; reflexivity|].
      destruct (x =? 93) eqn:H93.
      * cbn [negb]. rewrite andb_false_r. rewrite Ht. reflexivity.
      * rewrite Ht. reflexivity.
Qed.

Lemma esc_open brack tail o :
  esc_pass (brack + 1) false tail = Ok o -> esc_pass brack false (91 :: tail) = Ok (91 :: o).
Proof. intro Ht. cbn [esc_pass]. change (91 =? 92) with false. change (is_anchor 91) with false.
       change (91 =? 91) with true. rewrite Ht. reflexivity. Qed.

Lemma esc_close brack tail o :
  brack <> 0 -> esc_pass (brack - 1) false tail = Ok o -> esc_pass brack false (93 :: tail) = Ok (93 :: o).
Proof.
  intros Hb Ht. cbn [esc_pass]. change (93 =? 92) with false. change (is_anchor 93) with false.
  change (93 =? 91) with false. change (93 =? 93) with true.
  apply N.eqb_neq in Hb. rewrite Hb. cbn [andb]. rewrite Ht. reflexivity.
Qed.

(* the only error of the first pass is the stray ']' *)
Lemma esc_pass_err p : forall brack escaped e, esc_pass brack escaped p = Err e -> e = 1.
Proof.
  induction p as [|c p IH]; intros brack escaped e H; [discriminate|].
  cbn [esc_pass] in H.
  destruct (c =? 92).
  { destruct (esc_pass brack (negb escaped) p) eqn:E; [discriminate|]. cbn [bind] in H. inversion H; subst. exact (IH _ _ _ E). }
  destruct (is_anchor c).
  { destruct (esc_pass brack false p) eqn:E; [discriminate|]. cbn [bind] in H. inversion H; subst. exact (IH _ _ _ E). }
  destruct (c =? 91).
  { destruct (esc_pass (if escaped then brack else brack + 1) false p) eqn:E; [discriminate|].
    cbn [bind] in H. inversion H; subst. exact (IH _ _ _ E). }
  destruct (c =? 93).
  { destruct ((brack =? 0) && negb escaped); [inversion H; reflexivity|].
    destruct (esc_pass (if escaped then brack else brack - 1) false p) eqn:E; [discriminate|].
    cbn [bind] in H. inversion H; subst. exact (IH _ _ _ E). }
  destruct (esc_pass brack false p) eqn:E; [discriminate|]. cbn [bind] in H. inversion H; subst. exact (IH _ _ _ E).
Qed.

(* ---- patterns without '^' and '$' ---------------------------------------------------------------- *)
Lemma esc_pass_noanchor p : forall brack escaped,
  (forall c, In c p -> is_anchor c = false) ->
  esc_pass brack escaped p = Ok p \/ esc_pass brack escaped p = Err 1.
Proof.
  induction p as [|c p IH]; intros brack escaped Hp; [left; reflexivity|].
  assert (Hc : is_anchor c = false) by (apply Hp; left; reflexivity).
  assert (Hp' : forall c', In c' p -> is_anchor c' = false) by (intros c' Hin; apply Hp; right; exact Hin).
  cbn [esc_pass]. rewrite Hc.
  destruct (c =? 92) eqn:H92.
  { apply N.eqb_eq in H92. subst c.
    destruct (IH brack (negb escaped) Hp') as [-> | ->]; [left|right]; reflexivity. }
  destruct (c =? 91) eqn:H91.
  { destruct (IH (if escaped then brack else brack + 1) false Hp') as [-> | ->]; [left|right]; reflexivity. }
  destruct (c =? 93) eqn:H93.
  { destruct ((brack =? 0) && negb escaped); [right; reflexivity|].
    destruct (IH (if escaped then brack else brack - 1) false Hp') as [-> | ->]; [left|right]; reflexivity. }
  destruct (IH brack false Hp') as [-> | ->]; [left|right]; reflexivity.
Qed.

Lemma chblocks_noblock fuel s : find_sub needle s = None -> chblocks (S fuel) s = Ok s.
Proof. intro H. cbn [chblocks]. unfold chblocks_step. rewrite H. reflexivity. Qed.

(* no '^', no '$', no \p{Is : the text handed to PCRE2 is the pattern itself (or the pattern is
   rejected for a ']' outside brackets) *)
Theorem rewrite_identity p :
  (forall c, In c p -> is_anchor c = false) -> find_sub needle p = None ->
  rewrite p = Ok p \/ rewrite p = Err 1.
Proof.
  intros Hp Hn. unfold rewrite.
  destruct (esc_pass_noanchor p 0 false Hp) as [-> | ->]; [left|right; reflexivity].
  cbn [bind]. apply chblocks_noblock. exact Hn.
Qed.

(* ---- patterns given as tokens -------------------------------------------------------------------- *)
(* inside brackets: a byte other than backslash and brackets, or a backslash and any byte *)
Inductive ctok : Type := CChar (c : N) | CEsc (x : N).
(* outside brackets: an ordinary byte, an unescaped anchor, a backslash and ANY byte (so also an
   escaped anchor), or a bracket expression *)
Inductive tok : Type := TChar (c : N) | TAnchor (c : N) | TEsc (x : N) | TClass (body : list ctok).

Definition ctok_ok (t : ctok) : bool :=
  match t with
  | CChar c => negb (c =? 92) && negb (c =? 91) && negb (c =? 93)
  | CEsc _ => true
  end.

Definition tok_ok (t : tok) : bool :=
  match t with
  | TChar c => negb (c =? 92) && negb (c =? 91) && negb (c =? 93) && negb (is_anchor c)
  | TAnchor c => is_anchor c
  | TEsc _ => true
  | TClass body => forallb ctok_ok body
  end.

Definition render_ctok (t : ctok) : bytes :=
  match t with CChar c => [c] | CEsc x => [92; x] end.

(* the pattern text of a token / the expected text after the rewrite: one backslash in front of
   every (unescaped) anchor token, everything else unchanged *)
Definition render (t : tok) : bytes :=
  match t with
  | TChar c => [c]
  | TAnchor c => [c]
  | TEsc x => [92; x]
  | TClass body => 91 :: flat_map render_ctok body ++ [93]
  end.

Definition render_esc (t : tok) : bytes :=
  match t with
  | TAnchor c => [92; c]
  | _ => render t
  end.

Lemma esc_class_body body : forall brack rest o,
  forallb ctok_ok body = true -> brack <> 0 ->
  esc_pass brack false rest = Ok o ->
  esc_pass brack false (flat_map render_ctok body ++ rest) = Ok (flat_map render_ctok body ++ o).
Proof.
  induction body as [|t body IH]; intros brack rest o Hok Hb Hr; [exact Hr|].
  cbn [forallb] in Hok. apply andb_true_iff in Hok. destruct Hok as [Ht Hok].
  cbn [flat_map]. rewrite <- !app_assoc.
  specialize (IH brack rest o Hok Hb Hr).
  destruct t as [c|x]; cbn [render_ctok app].
  - cbn [ctok_ok] in Ht. apply esc_plain; try lia. exact IH.
  - apply esc_pair. exact IH.
Qed.

Lemma esc_tokens ts : forall rest o,
  forallb tok_ok ts = true ->
  esc_pass 0 false rest = Ok o ->
  esc_pass 0 false (flat_map render ts ++ rest) = Ok (flat_map render_esc ts ++ o).
Proof.
  induction ts as [|t ts IH]; intros rest o Hok Hr; [exact Hr|].
  cbn [forallb] in Hok. apply andb_true_iff in Hok. destruct Hok as [Ht Hok].
  cbn [flat_map]. rewrite <- !app_assoc.
  specialize (IH rest o Hok Hr).
  destruct t as [c|c|x|body]; cbn [render render_esc app tok_ok] in *.
  - apply esc_plain; try lia. exact IH.
  - apply esc_anchor0; assumption.
  - apply esc_pair. exact IH.
  - rewrite <- app_assoc. cbn [app]. apply esc_open. cbn [N.add].
    rewrite <- app_assoc. cbn [app].
    apply esc_class_body; [exact Ht|lia|].
    apply esc_close; [lia|]. exact IH.
Qed.

(* inserting backslashes in front of anchors neither creates nor destroys an occurrence of \p{Is *)
Inductive ins : bytes -> bytes -> Prop :=
| ins_nil : ins [] []
| ins_copy c p o : ins p o -> ins (c :: p) (c :: o)
| ins_bs c p o : is_anchor c = true -> ins p o -> ins (c :: p) (92 :: c :: o).

Lemma ins_refl p : ins p p.
Proof. induction p; constructor; assumption. Qed.

Lemma ins_app a a' : ins a a' -> forall b b', ins b b' -> ins (a ++ b) (a' ++ b').
Proof. induction 1; intros b b' Hb; cbn [app]; try constructor; auto. Qed.

Lemma ins_tokens ts : forallb tok_ok ts = true -> ins (flat_map render ts) (flat_map render_esc ts).
Proof.
  induction ts as [|t ts IH]; intro Hok; [constructor|].
  cbn [forallb] in Hok. apply andb_true_iff in Hok. destruct Hok as [Ht Hok].
  cbn [flat_map]. apply ins_app; [|apply IH; exact Hok].
  destruct t; cbn [render render_esc]; try apply ins_refl.
  apply ins_bs; [exact Ht|constructor].
Qed.

(* the first pass only inserts backslashes in front of anchors *)
Lemma esc_pass_ins p : forall brack escaped q, esc_pass brack escaped p = Ok q -> ins p q.
Proof.
  induction p as [|c p IH]; intros brack escaped q H.
  - inversion H. constructor.
  - cbn [esc_pass] in H.
    destruct (c =? 92) eqn:H92.
    { apply bind_ok in H. destruct H as (u & Hu & Hq). inversion Hq; subst q.
      apply N.eqb_eq in H92. subst c. constructor. exact (IH _ _ _ Hu). }
    destruct (is_anchor c) eqn:Hanc.
    { apply bind_ok in H. destruct H as (u & Hu & Hq).
      destruct ((brack =? 0) && negb escaped); inversion Hq; subst q.
      - apply ins_bs; [exact Hanc|exact (IH _ _ _ Hu)].
      - constructor. exact (IH _ _ _ Hu). }
    destruct (c =? 91).
    { apply bind_ok in H. destruct H as (u & Hu & Hq). inversion Hq; subst q. constructor. exact (IH _ _ _ Hu). }
    destruct (c =? 93).
    { destruct ((brack =? 0) && negb escaped); [discriminate|].
      apply bind_ok in H. destruct H as (u & Hu & Hq). inversion Hq; subst q. constructor. exact (IH _ _ _ Hu). }
    apply bind_ok in H. destruct H as (u & Hu & Hq). inversion Hq; subst q. constructor. exact (IH _ _ _ Hu).
Qed.

(* a text without backslash and anchors is a prefix of p iff it is a prefix of o *)
Definition plainb (x : N) : bool :=
  negb (x =? 92) && negb (is_anchor x) && negb (x =? 91) && negb (x =? 93) && negb (x =? 125).

Lemma ins_starts n : forall p o,
  ins p o -> (forall x, In x n -> x <> 92 /\ is_anchor x = false) ->
  starts_with n o = starts_with n p.
Proof.
  induction n as [|x n IH]; intros p o Hi Hn; [reflexivity|].
  assert (Hx : x <> 92 /\ is_anchor x = false) by (apply Hn; left; reflexivity).
  assert (Hn' : forall y, In y n -> y <> 92 /\ is_anchor y = false) by (intros y Hy; apply Hn; right; exact Hy).
  inversion Hi as [|c p' o' Hi'|c p' o' Hc Hi']; subst; cbn [starts_with].
  - reflexivity.
  - rewrite (IH _ _ Hi' Hn'). reflexivity.
  - destruct Hx as [Hx92 Hxa].
    assert ((x =? 92) = false) by lia.
    assert ((x =? c) = false) by (destruct (x =? c) eqn:E; [apply N.eqb_eq in E; congruence|reflexivity]).
    rewrite H, H0. reflexivity.
Qed.

Lemma plain_list n : forallb plainb n = true -> forall x, In x n -> x <> 92 /\ is_anchor x = false.
Proof.
  intros H x Hx. rewrite forallb_forall in H. specialize (H x Hx). unfold plainb in H. split; [lia|].
  destruct (is_anchor x); [|reflexivity]. rewrite andb_false_r in H. discriminate.
Qed.

Definition needle_tail : bytes := [112; 123; 73; 115].

Lemma needle_tail_plain : forall x, In x needle_tail -> x <> 92 /\ is_anchor x = false.
Proof. apply plain_list. reflexivity. Qed.

Lemma starts_needle c s : starts_with needle (c :: s) = (92 =? c) && starts_with needle_tail s.
Proof. reflexivity. Qed.

Lemma starts_tail c s : starts_with needle_tail (c :: s) = (112 =? c) && starts_with [123; 73; 115] s.
Proof. reflexivity. Qed.

Lemma ins_starts_needle p o c : ins p o -> starts_with needle (c :: o) = starts_with needle (c :: p).
Proof. intro Hi. rewrite !starts_needle. f_equal. apply ins_starts; [exact Hi|exact needle_tail_plain]. Qed.

Lemma anchor_not_needle c s : is_anchor c = true ->
  starts_with needle (92 :: c :: s) = false /\ starts_with needle (c :: s) = false.
Proof.
  intro Hc. rewrite !starts_needle, starts_tail. apply anchor_cases in Hc.
  assert (H1 : (112 =? c) = false) by lia. assert (H2 : (92 =? c) = false) by lia.
  rewrite H1, H2. split; reflexivity.
Qed.

Lemma ins_has_sub p o : ins p o -> has_sub needle o = has_sub needle p.
Proof.
  induction 1 as [|c p o Hi IH|c p o Hc Hi IH].
  - reflexivity.
  - rewrite !has_sub_cons, IH, (ins_starts_needle _ _ _ Hi). reflexivity.
  - destruct (anchor_not_needle c o Hc) as [E1 E2]. destruct (anchor_not_needle c p Hc) as [_ E3].
    rewrite !has_sub_cons, IH, E1, E2, E3. reflexivity.
Qed.

(* a pattern made of ordinary bytes, escape pairs of any byte, bracket expressions and unescaped
   '^' / '$' outside brackets, without \p{Is : every such '^' / '$' gets exactly one backslash,
   nothing else changes (in particular \^ and \$ stay as they are) *)
Theorem rewrite_caret_dollar ts :
  forallb tok_ok ts = true -> find_sub needle (flat_map render ts) = None ->
  rewrite (flat_map render ts) = Ok (flat_map render_esc ts).
Proof.
  intros Hok Hn. unfold rewrite.
  pose proof (esc_tokens ts [] [] Hok eq_refl) as He. rewrite !app_nil_r in He. rewrite He.
  cbn [bind]. apply chblocks_noblock.
  apply find_sub_none. rewrite (ins_has_sub _ _ (ins_tokens ts Hok)). apply find_sub_none. exact Hn.
Qed.

(* ---- facts about the table, by computation ------------------------------------------------------ *)
Lemma needle_nonnil : needle <> [].
Proof. discriminate. Qed.

Definition bs2 : bytes := [92; 92].                                   (* an escaped backslash *)

Lemma bs2_nonnil : bs2 <> [].
Proof. discriminate. Qed.

(* a replacement text R as it is written (whole or without its brackets, possibly cut): it contains
   neither \p{Is nor two backslashes in a row, starts with '[' or a backslash and does not end with a
   byte that could begin an occurrence of either *)
Definition range_ok (R : bytes) : bool :=
  negb (has_sub needle R) && negb (has_sub bs2 R) &&
  match R with [] => false | h :: _ => (h =? 91) || (h =? 92) end &&
  negb (existsb (N.eqb (last R 0)) [92; 112; 123; 73]).

Definition entry_ok (e : bytes * bytes) : bool :=
  forallb plainb (fst e) && range_ok (firstn URANGE_LEN (snd e)) &&
  range_ok (firstn (URANGE_LEN - 2) (skipn 1 (snd e))).

Lemma table_ok : forallb entry_ok ublock2urange = true.
Proof. vm_compute. reflexivity. Qed.

(* no table name followed by '}' is a prefix of a table name: the lookup of NAME} does not depend on
   the text after the '}' *)
Lemma table_names_closed :
  forallb (fun e => forallb (fun x => negb (starts_with (fst e ++ [125]) (fst x))) ublock2urange) ublock2urange = true.
Proof. vm_compute. reflexivity. Qed.

Lemma block_find_in text e : block_find text = Some e -> In e ublock2urange /\ starts_with (fst e) text = true.
Proof. unfold block_find. intro H. apply find_some in H. exact H. Qed.

Lemma entry_facts e : In e ublock2urange ->
  forallb plainb (fst e) = true /\ range_ok (firstn URANGE_LEN (snd e)) = true /\
  range_ok (firstn (URANGE_LEN - 2) (skipn 1 (snd e))) = true.
Proof.
  intro Hin. pose proof table_ok as H. rewrite forallb_forall in H. specialize (H e Hin).
  unfold entry_ok in H. apply andb_true_iff in H. destruct H as [H H3].
  apply andb_true_iff in H. destruct H as [H1 H2]. repeat split; assumption.
Qed.

Lemma range_ok_facts R : range_ok R = true ->
  R <> [] /\ has_sub needle R = false /\ has_sub bs2 R = false /\
  (forall a rest, nostr needle a (R ++ rest)) /\
  (forall a rest, nostr needle (a ++ R) rest) /\
  (forall a rest, nostr bs2 (a ++ R) rest).
Proof.
  unfold range_ok. intro H.
  apply andb_true_iff in H. destruct H as [H H4]. apply andb_true_iff in H. destruct H as [H H3].
  apply andb_true_iff in H. destruct H as [H1 H2].
  apply negb_true_iff in H1, H2, H4.
  assert (Hne : R <> []) by (destruct R; [discriminate|discriminate]).
  assert (Hlast : forall y, In y [92; 112; 123; 73] -> last R 0 <> y).
  { intros y Hy E. assert (X : existsb (N.eqb (last R 0)) [92; 112; 123; 73] = true).
    { apply existsb_exists. exists y. split; [exact Hy|apply N.eqb_eq; exact E]. }
    congruence. }
  repeat split; try assumption.
  - intros a rest. apply nostr_by_hd. intros y b' E Hy.
    destruct R as [|h R]; [congruence|]. cbn [app] in E. inversion E; subst y.
    cbn [needle tl In] in Hy. lia.
  - intros a rest. apply nostr_by_last.
    + destruct a; [exact Hne|discriminate].
    + rewrite (last_suffix a R 0 Hne). intro Hin. apply (Hlast (last R 0)); [|reflexivity].
      cbn [needle removelast] in Hin. exact Hin.
  - intros a rest. apply nostr_by_last.
    + destruct a; [exact Hne|discriminate].
    + rewrite (last_suffix a R 0 Hne). intro Hin. apply (Hlast (last R 0)); [|reflexivity].
      cbn [bs2 removelast In] in Hin. cbn [In]. destruct Hin as [Hin|[]]. left. exact Hin.
Qed.

(* ---- one iteration of the block loop ------------------------------------------------------------ *)
Lemma chblocks_step_ok s s' : chblocks_step s = Some (Ok s') ->
  exists before at_ rest e R,
    find_sub needle s = Some (before, at_) /\ after_char 125 at_ = Some rest /\
    block_find (skipn 5 at_) = Some e /\
    R = (if (brk_count 0 before 0%Z =? 0)%Z then firstn URANGE_LEN (snd e)
         else firstn (URANGE_LEN - 2) (skipn 1 (snd e))) /\
    s' = before ++ R ++ rest.
Proof.
  unfold chblocks_step. intro H.
  destruct (find_sub needle s) as [[before at_]|] eqn:F; [|discriminate].
  destruct (after_char 125 at_) as [rest|] eqn:A; [|discriminate].
  destruct (block_find (skipn 5 at_)) as [e|] eqn:B; [|discriminate].
  exists before, at_, rest, e. eexists.
  split; [reflexivity|]. split; [exact A|]. split; [exact B|]. split; [reflexivity|].
  destruct (brk_count 0 before 0 =? 0)%Z; injection H as H; symmetry; exact H.
Qed.

Lemma chblocks_step_err s e : chblocks_step s = Some (Err e) -> e = 2 \/ e = 3.
Proof.
  unfold chblocks_step. intro H.
  destruct (find_sub needle s) as [[before at_]|]; [|discriminate].
  destruct (after_char 125 at_) as [rest|]; [|inversion H; left; reflexivity].
  destruct (block_find (skipn 5 at_)) as [e'|]; [|inversion H; right; reflexivity].
  destruct (brk_count 0 before 0 =? 0)%Z; discriminate.
Qed.

(* after the substitution the next occurrence of \p{Is is searched in the text after the '}' only:
   none is in the text before the block, none in the range written, none across their borders *)
Lemma step_next_find before R rest :
  has_sub needle before = false -> range_ok R = true ->
  find_sub needle (before ++ R ++ rest)
  = match find_sub needle rest with Some (x, y) => Some ((before ++ R) ++ x, y) | None => None end.
Proof.
  intros Hb HR. destruct (range_ok_facts R HR) as (Hne & HnR & _ & N1 & N2 & _).
  rewrite app_assoc. apply find_sub_app; [exact needle_nonnil|apply N2|].
  rewrite <- (app_nil_r R), has_sub_app by (exact needle_nonnil || apply N1).
  rewrite app_nil_r, Hb, HnR. reflexivity.
Qed.

(* measure: the length of the text from the first occurrence of \p{Is on *)
Definition mu (s : bytes) : nat :=
  match find_sub needle s with Some (_, a) => length a | None => O end.

Lemma mu_le s : (mu s <= length s)%nat.
Proof.
  unfold mu. destruct (find_sub needle s) as [[b a]|] eqn:F; [|lia].
  destruct (find_sub_some _ _ _ _ needle_nonnil F) as (-> & _ & _). rewrite app_length. lia.
Qed.

Lemma mu_step s s' : chblocks_step s = Some (Ok s') -> (mu s' < mu s)%nat.
Proof.
  intro H. destruct (chblocks_step_ok _ _ H) as (before & at_ & rest & e & R & F & A & B & ER & ->).
  destruct (find_sub_some _ _ _ _ needle_nonnil F) as (_ & Hb & _).
  destruct (block_find_in _ _ B) as [Hin _]. destruct (entry_facts e Hin) as (_ & R1 & R2).
  assert (HR : range_ok R = true) by (rewrite ER; destruct (brk_count 0 before 0 =? 0)%Z; assumption).
  unfold mu at 1. rewrite (step_next_find before R rest Hb HR).
  unfold mu. rewrite F. destruct (after_char_some _ _ _ A) as [mid ->].
  destruct (find_sub needle rest) as [[x y]|] eqn:F2.
  - destruct (find_sub_some _ _ _ _ needle_nonnil F2) as (-> & _ & _).
    rewrite !app_length. cbn [length]. rewrite app_length. lia.
  - rewrite app_length. cbn [length]. lia.
Qed.

(* the loop ends within the fuel it is given and fails only as the code does *)
Lemma chblocks_result fuel : forall s, (mu s < fuel)%nat ->
  (exists t, chblocks fuel s = Ok t) \/ chblocks fuel s = Err 2 \/ chblocks fuel s = Err 3.
Proof.
  induction fuel as [|f IH]; intros s Hm; [lia|].
  cbn [chblocks]. destruct (chblocks_step s) as [[s'|e]|] eqn:St.
  - apply IH. pose proof (mu_step _ _ St). lia.
  - destruct (chblocks_step_err _ _ St) as [-> | ->]; [right; left|right; right]; reflexivity.
  - left. exists s. reflexivity.
Qed.

(* the rewrite ends with a text or with one of the three errors of the code; in particular it never
   reaches undefined behaviour (no error class for it is left in the model) and the model's fuel
   never runs out *)
Theorem rewrite_result p :
  (exists t, rewrite p = Ok t) \/ rewrite p = Err 1 \/ rewrite p = Err 2 \/ rewrite p = Err 3.
Proof.
  unfold rewrite. destruct (esc_pass 0 false p) as [q|e] eqn:E.
  - cbn [bind]. destruct (chblocks_result (S (length q)) q) as [H|[H|H]].
    + pose proof (mu_le q). lia.
    + left. exact H.
    + right. right. left. exact H.
    + right. right. right. exact H.
  - cbn [bind]. right. left. rewrite (esc_pass_err _ _ _ _ E). reflexivity.
Qed.

Corollary rewrite_no_ub p : rewrite p <> Err 4 /\ rewrite p <> Err 9.
Proof.
  destruct (rewrite_result p) as [[t H]|[H|[H|H]]]; rewrite H; split; discriminate.
Qed.

(* which names the lookup of the code resolves to their own entry: all but the six that have an
   earlier entry as a proper prefix (GreekExtended, BopomofoExtended, CJKCompatibilityIdeographs,
   ArabicPresentationForms-A, CJKCompatibilityForms, ArabicPresentationForms-B = entries 38 66 75 77
   79 81, shadowed by Greek, Bopomofo, CJKCompatibility, Arabic) *)
Definition shadowed_names : list bytes :=
  map (fun i => fst (nth i ublock2urange ([], []))) [38; 66; 75; 77; 79; 81]%nat.

Definition resolved (e : bytes * bytes) : bool :=
  match block_find (fst e ++ [125]) with
  | Some e' => beq_bytes (fst e') (fst e) && beq_bytes (snd e') (snd e)
  | None => false
  end.

Lemma table_resolved :
  forallb (fun e => resolved e || existsb (beq_bytes (fst e)) shadowed_names) ublock2urange = true.
Proof. vm_compute. reflexivity. Qed.

Lemma shadowed_not_resolved :
  forallb (fun e => negb (resolved e && existsb (beq_bytes (fst e)) shadowed_names)) ublock2urange = true
  /\ length shadowed_names = 6%nat /\ length ublock2urange = 84%nat.
Proof. vm_compute. repeat split. Qed.

Theorem block_lookup (e : bytes * bytes) : In e ublock2urange ->
  block_find (fst e ++ [125]) = Some e \/ In (fst e) shadowed_names.
Proof.
  intro Hin. pose proof table_resolved as H. rewrite forallb_forall in H. specialize (H e Hin).
  apply orb_true_iff in H. destruct H as [H|H].
  - left. unfold resolved in H. destruct (block_find (fst e ++ [125])) as [e'|]; [|discriminate].
    apply andb_true_iff in H. destruct H as [H1 H2]. apply beq_bytes_eq in H1, H2.
    destruct e, e'. cbn [fst snd] in *. subst. reflexivity.
  - right. apply existsb_exists in H. destruct H as (n & Hn & E). apply beq_bytes_eq in E. subst n. exact Hn.
Qed.

(* ---- the first pass over a concatenation --------------------------------------------------------- *)
(* the state (brack, escaped) of the loop of lys_compile_type_pattern_check() after the text p *)
Fixpoint esc_end (brack : N) (escaped : bool) (p : bytes) : N * bool :=
  match p with
  | [] => (brack, escaped)
  | c :: p' =>
      if c =? 92 then esc_end brack (negb escaped) p'
      else if c =? 91 then esc_end (if escaped then brack else brack + 1) false p'
      else if c =? 93 then esc_end (if escaped then brack else brack - 1) false p'
      else esc_end brack false p'
  end.

Lemma bind_assoc_ok (r : res bytes) (f g : bytes -> bytes) :
  bind (bind r (fun x => Ok (f x))) (fun y => Ok (g y)) = bind r (fun x => Ok (g (f x))).
Proof. destruct r; reflexivity. Qed.

Lemma esc_pass_app a : forall b e c a',
  esc_pass b e a = Ok a' ->
  esc_pass b e (a ++ c)
  = bind (esc_pass (fst (esc_end b e a)) (snd (esc_end b e a)) c) (fun c' => Ok (a' ++ c')).
Proof.
  induction a as [|x a IH]; intros b e c a' H.
  - inversion H; subst. cbn [app esc_end fst snd]. destruct (esc_pass b e c); reflexivity.
  - cbn [esc_pass] in H. cbn [app esc_pass esc_end].
    destruct (x =? 92) eqn:H92.
    { apply bind_ok in H. destruct H as (u & Hu & Hq). inversion Hq; subst a'.
      rewrite (IH _ _ c _ Hu), bind_assoc_ok. reflexivity. }
    destruct (is_anchor x) eqn:Hanc.
    { assert (H91 : (x =? 91) = false) by (apply anchor_cases in Hanc; lia).
      assert (H93 : (x =? 93) = false) by (apply anchor_cases in Hanc; lia).
      rewrite H91, H93.
      apply bind_ok in H. destruct H as (u & Hu & Hq).
      rewrite (IH _ _ c _ Hu).
      destruct ((b =? 0) && negb e); inversion Hq; subst a';
        destruct (esc_pass (fst (esc_end b false a)) (snd (esc_end b false a)) c); reflexivity. }
    destruct (x =? 91) eqn:H91.
    { apply bind_ok in H. destruct H as (u & Hu & Hq). inversion Hq; subst a'.
      rewrite (IH _ _ c _ Hu), bind_assoc_ok. reflexivity. }
    destruct (x =? 93) eqn:H93.
    { destruct ((b =? 0) && negb e); [discriminate|].
      apply bind_ok in H. destruct H as (u & Hu & Hq). inversion Hq; subst a'.
      rewrite (IH _ _ c _ Hu), bind_assoc_ok. reflexivity. }
    apply bind_ok in H. destruct H as (u & Hu & Hq). inversion Hq; subst a'.
    rewrite (IH _ _ c _ Hu), bind_assoc_ok. reflexivity.
Qed.

Lemma plainb_facts x : plainb x = true -> x <> 92 /\ x <> 91 /\ x <> 93 /\ x <> 125 /\ is_anchor x = false.
Proof.
  unfold plainb. intro H. destruct (is_anchor x); [rewrite !andb_false_r in H; cbn in H; discriminate|]. lia.
Qed.

Lemma esc_plain_list l : forall b t o,
  forallb plainb l = true -> esc_pass b false t = Ok o -> esc_pass b false (l ++ t) = Ok (l ++ o).
Proof.
  induction l as [|x l IH]; intros b t o Hl Ht; [exact Ht|].
  cbn [forallb] in Hl. apply andb_true_iff in Hl. destruct Hl as [Hx Hl].
  destruct (plainb_facts x Hx) as (H1 & H2 & H3 & _ & H5).
  cbn [app]. apply esc_plain; try assumption; [left; exact H5|]. apply IH; assumption.
Qed.

(* the text \p{IsNAME} of a table name is copied as it is and leaves the state unchanged *)
Lemma esc_block b name t o :
  forallb plainb name = true -> esc_pass b false t = Ok o ->
  esc_pass b false (needle ++ name ++ 125 :: t) = Ok (needle ++ name ++ 125 :: o).
Proof.
  intros Hn Ht. change needle with ([92; 112] ++ [123; 73; 115]). rewrite <- !app_assoc.
  cbn [app]. apply esc_pair.
  change (123 :: 73 :: 115 :: name ++ 125 :: t) with ([123; 73; 115] ++ name ++ 125 :: t).
  change (123 :: 73 :: 115 :: name ++ 125 :: o) with ([123; 73; 115] ++ name ++ 125 :: o).
  apply esc_plain_list; [reflexivity|]. apply esc_plain_list; [exact Hn|].
  apply esc_plain; try discriminate; [left; reflexivity|exact Ht].
Qed.

(* ---- the lookup of an exact table name ------------------------------------------------------------ *)
Lemma find_ext_in {A} (f g : A -> bool) l : (forall x, In x l -> f x = g x) -> find f l = find g l.
Proof.
  induction l as [|x l IH]; intro H; [reflexivity|].
  cbn [find]. rewrite (H x) by (left; reflexivity). rewrite IH; [reflexivity|].
  intros y Hy. apply H. right. exact Hy.
Qed.

Lemma block_find_ext e r : In e ublock2urange -> block_find (fst e ++ 125 :: r) = block_find (fst e ++ [125]).
Proof.
  intro Hin. unfold block_find. apply find_ext_in. intros x Hx.
  change (fst e ++ 125 :: r) with (fst e ++ [125] ++ r). rewrite app_assoc.
  apply starts_with_decided.
  pose proof table_names_closed as H. rewrite forallb_forall in H. specialize (H e Hin).
  rewrite forallb_forall in H. specialize (H x Hx). apply negb_true_iff in H. exact H.
Qed.

Lemma no125 name : forallb plainb name = true -> forallb (fun c => negb (c =? 125)) (needle ++ name) = true.
Proof.
  intro H. rewrite forallb_app. apply andb_true_iff. split; [reflexivity|].
  apply forallb_forall. intros x Hx. rewrite forallb_forall in H.
  destruct (plainb_facts x (H x Hx)) as (_ & _ & _ & H4 & _). lia.
Qed.

(* ---- exactly one block ------------------------------------------------------------------------------ *)
Lemma chblocks_once s s1 f : chblocks_step s = Some (Ok s1) -> chblocks_step s1 = None -> chblocks (S (S f)) s = Ok s1.
Proof. intros H1 H2. cbn [chblocks]. rewrite H1, H2. reflexivity. Qed.

(* pattern pre ++ \p{IsNAME} ++ post, NAME a table name that the lookup of the code finds (not one of
   the six names shadowed by an earlier entry that is a prefix of them), no other \p{Is , pre not
   ending in the middle of an escape pair: the text handed to PCRE2 is pre' ++ R ++ post' where pre' and
   post' are what the first pass makes of pre and post (post from the bracket depth b that pre leaves)
   and R is the replacement text of NAME - its first URANGE_LEN bytes when the bracket counter of the
   second function is 0 after pre', else URANGE_LEN - 2 bytes after its first *)
Theorem rewrite_block pre post e pre' post' b :
  In e ublock2urange -> block_find (fst e ++ [125]) = Some e ->
  has_sub needle pre = false -> has_sub needle post = false ->
  esc_pass 0 false pre = Ok pre' -> esc_end 0 false pre = (b, false) ->
  esc_pass b false post = Ok post' ->
  rewrite (pre ++ needle ++ fst e ++ 125 :: post)
  = Ok (pre' ++ (if (brk_count 0 pre' 0%Z =? 0)%Z then firstn URANGE_LEN (snd e)
                 else firstn (URANGE_LEN - 2) (skipn 1 (snd e))) ++ post').
Proof.
  intros Hin Hfind Hpre Hpost Epre Eend Epost.
  destruct (entry_facts e Hin) as (Hname & R1 & R2).
  unfold rewrite.
  rewrite (esc_pass_app pre 0 false _ pre' Epre), Eend. cbn [fst snd].
  rewrite (esc_block b (fst e) post post' Hname Epost). cbn [bind].
  set (q := pre' ++ needle ++ fst e ++ 125 :: post').
  assert (Hq : exists n, length q = S n).
  { unfold q. rewrite !app_length. cbn [needle length]. eexists. rewrite Nat.add_comm. cbn [Nat.add]. reflexivity. }
  destruct Hq as [n Hq]. rewrite Hq.
  assert (Hpre' : has_sub needle pre' = false) by (rewrite (ins_has_sub _ _ (esc_pass_ins _ _ _ _ Epre)); exact Hpre).
  assert (Hpost' : has_sub needle post' = false) by (rewrite (ins_has_sub _ _ (esc_pass_ins _ _ _ _ Epost)); exact Hpost).
  assert (F : find_sub needle q = Some (pre', needle ++ fst e ++ 125 :: post')).
  { unfold q. rewrite find_sub_app; [|exact needle_nonnil| |exact Hpre'].
    - replace (find_sub needle (needle ++ fst e ++ 125 :: post')) with (Some (@nil N, needle ++ fst e ++ 125 :: post')).
      + rewrite app_nil_r. reflexivity.
      + reflexivity.
    - apply nostr_by_hd. intros y b' E Hy. cbn [needle app] in E. inversion E; subst y.
      cbn [needle tl In] in Hy. lia. }
  set (R := if (brk_count 0 pre' 0 =? 0)%Z then firstn URANGE_LEN (snd e) else firstn (URANGE_LEN - 2) (skipn 1 (snd e))).
  assert (HR : range_ok R = true) by (unfold R; destruct (brk_count 0 pre' 0 =? 0)%Z; assumption).
  assert (S1 : chblocks_step q = Some (Ok (pre' ++ R ++ post'))).
  { unfold chblocks_step. rewrite F. rewrite app_assoc, (after_char_app 125 _ post' (no125 _ Hname)).
    rewrite <- app_assoc. change (skipn 5 (needle ++ fst e ++ 125 :: post')) with (fst e ++ 125 :: post').
    rewrite (block_find_ext e post' Hin), Hfind. unfold R.
    destruct (brk_count 0 pre' 0 =? 0)%Z; reflexivity. }
  destruct n as [|n].
  { exfalso. unfold q in Hq. rewrite !app_length in Hq. cbn [needle length] in Hq. lia. }
  apply chblocks_once; [exact S1|].
  unfold chblocks_step. rewrite (step_next_find pre' R post' Hpre' HR).
  apply find_sub_none in Hpost'. rewrite Hpost'. reflexivity.
Qed.

(* ---- the two bracket counters ---------------------------------------------------------------------- *)
(* without two backslashes in a row, a byte is escaped iff the byte before it is a backslash: the
   counter of the second function (previous byte) and the one of the first (escape state) agree *)
Lemma bs2_head prev c s : has_sub bs2 (prev :: c :: s) = false ->
  ((prev =? 92) && (c =? 92) = false) /\ has_sub bs2 (c :: s) = false.
Proof.
  rewrite has_sub_cons. intro H. apply orb_false_iff in H. destruct H as [H1 H2]. split; [|exact H2].
  cbn [bs2 starts_with] in H1. rewrite andb_true_r in H1. rewrite (N.eqb_sym prev), (N.eqb_sym c). exact H1.
Qed.

Lemma brk_depth s : forall prev e acc,
  e = (prev =? 92) -> has_sub bs2 (prev :: s) = false -> brk_count prev s acc = depth_spec e s acc.
Proof.
  induction s as [|c s IH]; intros prev e acc He Hs; [reflexivity|].
  destruct (bs2_head _ _ _ Hs) as [Hpc Hs'].
  cbn [brk_count depth_spec].
  destruct (c =? 92) eqn:H92.
  { assert (Hp : (prev =? 92) = false) by (rewrite andb_true_r in Hpc; exact Hpc).
    assert (H91 : (c =? 91) = false) by lia. assert (H93 : (c =? 93) = false) by lia.
    rewrite H91, H93. cbn [andb]. apply IH; [rewrite He, Hp; cbn [negb]; lia|exact Hs']. }
  rewrite <- He.
  destruct (c =? 91) eqn:H91.
  { assert (H93 : (c =? 93) = false) by lia. rewrite H93. cbn [andb].
    destruct e; cbn [negb]; apply IH; try exact Hs'; lia. }
  destruct (c =? 93) eqn:H93.
  { cbn [andb]. destruct e; cbn [negb]; apply IH; try exact Hs'; lia. }
  cbn [andb]. destruct e; apply IH; try exact Hs'; lia.
Qed.

(* the first pass creates no two backslashes in a row when the pattern has none *)
Lemma esc_pass_no_bs2 p : forall prev b e q,
  e = (prev =? 92) -> has_sub bs2 (prev :: p) = false -> esc_pass b e p = Ok q ->
  has_sub bs2 (prev :: q) = false.
Proof.
  induction p as [|c p IH]; intros prev b e q He Hs H.
  - inversion H; subst. exact Hs.
  - destruct (bs2_head _ _ _ Hs) as [Hpc Hs'].
    cbn [esc_pass] in H.
    destruct (c =? 92) eqn:H92.
    { apply bind_ok in H. destruct H as (u & Hu & Hq). inversion Hq; subst q.
      assert (Hp : (prev =? 92) = false) by (rewrite andb_true_r in Hpc; exact Hpc).
      apply N.eqb_eq in H92. subst c.
      assert (X : has_sub bs2 (92 :: u) = false) by (apply (IH 92 b (negb e)); [rewrite He, Hp; reflexivity|exact Hs'|exact Hu]).
      rewrite has_sub_cons, X. cbn [bs2 starts_with]. rewrite (N.eqb_sym 92 prev), Hp. reflexivity. }
    assert (IHc : forall b' u, esc_pass b' false p = Ok u -> has_sub bs2 (c :: u) = false).
    { intros b' u Hu. apply (IH c b' false); [lia|exact Hs'|exact Hu]. }
    assert (Hc : forall u, has_sub bs2 (c :: u) = false -> has_sub bs2 (prev :: c :: u) = false).
    { intros u X. rewrite has_sub_cons, X. cbn [bs2 starts_with]. rewrite (N.eqb_sym 92 c), H92. rewrite !andb_false_r. reflexivity. }
    destruct (is_anchor c) eqn:Hanc.
    { apply bind_ok in H. destruct H as (u & Hu & Hq).
      destruct ((b =? 0) && negb e) eqn:Hins; inversion Hq; subst q.
      - assert (Hp : (prev =? 92) = false).
        { apply andb_true_iff in Hins. destruct Hins as [_ Hne]. apply negb_true_iff in Hne. congruence. }
        rewrite (has_sub_cons bs2 prev), (has_sub_cons bs2 92), (IHc _ _ Hu).
        cbn [bs2 starts_with]. rewrite (N.eqb_sym 92 prev), Hp, (N.eqb_sym 92 c), H92.
        change (92 =? 92) with true. reflexivity.
      - apply Hc. exact (IHc _ _ Hu). }
    destruct (c =? 91).
    { apply bind_ok in H. destruct H as (u & Hu & Hq). inversion Hq; subst q. apply Hc. exact (IHc _ _ Hu). }
    destruct (c =? 93).
    { destruct ((b =? 0) && negb e); [discriminate|].
      apply bind_ok in H. destruct H as (u & Hu & Hq). inversion Hq; subst q. apply Hc. exact (IHc _ _ Hu). }
    apply bind_ok in H. destruct H as (u & Hu & Hq). inversion Hq; subst q. apply Hc. exact (IHc _ _ Hu).
Qed.

Lemma has_sub_bs2_zero s : has_sub bs2 (0 :: s) = has_sub bs2 s.
Proof. reflexivity. Qed.

(* the properly tracked depth of the rewritten text is the brack of the first pass *)
Lemma depth_esc p : forall b e q,
  esc_pass b e p = Ok q -> depth_spec e q (Z.of_N b) = Z.of_N (fst (esc_end b e p)).
Proof.
  induction p as [|c p IH]; intros b e q H.
  - inversion H; subst. reflexivity.
  - cbn [esc_pass] in H. cbn [esc_end].
    destruct (c =? 92) eqn:H92.
    { apply bind_ok in H. destruct H as (u & Hu & Hq). inversion Hq; subst q.
      cbn [depth_spec]. change (92 =? 92) with true. cbn iota. exact (IH _ _ _ Hu). }
    destruct (is_anchor c) eqn:Hanc.
    { assert (H91 : (c =? 91) = false) by (apply anchor_cases in Hanc; lia).
      assert (H93 : (c =? 93) = false) by (apply anchor_cases in Hanc; lia).
      rewrite H91, H93.
      apply bind_ok in H. destruct H as (u & Hu & Hq).
      destruct ((b =? 0) && negb e) eqn:Hins; inversion Hq; subst q.
      - apply andb_true_iff in Hins. destruct Hins as [_ Hne]. apply negb_true_iff in Hne. subst e.
        cbn [depth_spec]. change (92 =? 92) with true. cbn iota. cbn [negb]. rewrite H92. exact (IH _ _ _ Hu).
      - cbn [depth_spec]. rewrite H92, H91, H93. destruct e; exact (IH _ _ _ Hu). }
    destruct (c =? 91) eqn:H91.
    { apply bind_ok in H. destruct H as (u & Hu & Hq). inversion Hq; subst q.
      cbn [depth_spec]. rewrite H92, H91. destruct e; [exact (IH _ _ _ Hu)|].
      rewrite <- (IH _ _ _ Hu). f_equal. lia. }
    destruct (c =? 93) eqn:H93.
    { destruct ((b =? 0) && negb e) eqn:Hstray; [discriminate|].
      apply bind_ok in H. destruct H as (u & Hu & Hq). inversion Hq; subst q.
      cbn [depth_spec]. rewrite H92, H91, H93. destruct e; [exact (IH _ _ _ Hu)|].
      rewrite <- (IH _ _ _ Hu). f_equal. cbn [negb] in Hstray. rewrite andb_true_r in Hstray. lia. }
    apply bind_ok in H. destruct H as (u & Hu & Hq). inversion Hq; subst q.
    cbn [depth_spec]. rewrite H92, H91, H93. destruct e; exact (IH _ _ _ Hu).
Qed.

(* for a pre without an escaped backslash the counter of the second function is the bracket depth
   b of the first pass: the range keeps its brackets iff the block stands outside brackets *)
Lemma brk_is_depth pre pre' b e :
  has_sub bs2 pre = false -> esc_pass 0 false pre = Ok pre' -> esc_end 0 false pre = (b, e) ->
  brk_count 0 pre' 0%Z = Z.of_N b.
Proof.
  intros Hs Epre Eend.
  rewrite (brk_depth pre' 0 false 0%Z eq_refl).
  - change 0%Z with (Z.of_N 0). rewrite (depth_esc _ _ _ _ Epre), Eend. reflexivity.
  - apply (esc_pass_no_bs2 pre 0 0 false pre' eq_refl); [exact Hs|exact Epre].
Qed.

Theorem rewrite_block_depth pre post e pre' post' b :
  In e ublock2urange -> block_find (fst e ++ [125]) = Some e ->
  has_sub needle pre = false -> has_sub needle post = false -> has_sub bs2 pre = false ->
  esc_pass 0 false pre = Ok pre' -> esc_end 0 false pre = (b, false) ->
  esc_pass b false post = Ok post' ->
  rewrite (pre ++ needle ++ fst e ++ 125 :: post)
  = Ok (pre' ++ (if b =? 0 then firstn URANGE_LEN (snd e)
                 else firstn (URANGE_LEN - 2) (skipn 1 (snd e))) ++ post').
Proof.
  intros Hin Hfind Hpre Hpost Hbs Epre Eend Epost.
  rewrite (rewrite_block pre post e pre' post' b Hin Hfind Hpre Hpost Epre Eend Epost).
  rewrite (brk_is_depth pre pre' b false Hbs Epre Eend).
  replace (Z.of_N b =? 0)%Z with (b =? 0) by lia. reflexivity.
Qed.

(* ---- the code is the Spec on patterns without an escaped backslash whose blocks are exact names ---- *)
Lemma blocks_exact_cons c s :
  blocks_exact (c :: s) = (if starts_with needle (c :: s) then name_exact (skipn 5 (c :: s)) else true) && blocks_exact s.
Proof. reflexivity. Qed.

Lemma blocks_exact_suffix a b : blocks_exact (a ++ b) = true -> blocks_exact b = true.
Proof.
  induction a as [|c a IH]; intro H; [exact H|].
  cbn [app] in H. rewrite blocks_exact_cons in H. apply andb_true_iff in H. apply IH. apply H.
Qed.

Lemma blocks_exact_head s : blocks_exact s = true -> starts_with needle s = true -> name_exact (skipn 5 s) = true.
Proof.
  destruct s as [|c s]; [discriminate|]. rewrite blocks_exact_cons. intros H Hs. rewrite Hs in H.
  apply andb_true_iff in H. apply H.
Qed.

Lemma blocks_exact_app a b :
  has_sub needle a = false -> nostr needle a b -> blocks_exact (a ++ b) = blocks_exact b.
Proof.
  induction a as [|c a IH]; intros Ha Hn; [reflexivity|].
  rewrite has_sub_cons in Ha. apply orb_false_iff in Ha. destruct Ha as [Hc Ha].
  cbn [app]. rewrite blocks_exact_cons, (nostr_head _ _ _ _ Hn), Hc. cbn [andb].
  apply IH; [exact Ha|exact (nostr_tail _ _ _ _ Hn)].
Qed.

Lemma name_plain e : In e ublock2urange ->
  (forall x, In x (fst e) -> x <> 92 /\ is_anchor x = false) /\
  (forall x, In x (fst e ++ [125]) -> x <> 92 /\ is_anchor x = false).
Proof.
  intro Hin. destruct (entry_facts e Hin) as (Hn & _ & _).
  pose proof (plain_list _ Hn) as H. split; [exact H|].
  intros x Hx. apply in_app_or in Hx. destruct Hx as [Hx|[<-|[]]]; [apply H; exact Hx|].
  split; [discriminate|reflexivity].
Qed.

Lemma ins_name_exact t t' : ins t t' -> name_exact t' = name_exact t.
Proof.
  intro Hi. unfold name_exact.
  assert (E : block_find t' = block_find t).
  { unfold block_find. apply find_ext_in. intros x Hx. apply ins_starts; [exact Hi|].
    apply (name_plain x Hx). }
  rewrite E. destruct (block_find t) as [e|] eqn:B; [|reflexivity].
  destruct (block_find_in _ _ B) as [Hin _].
  rewrite (ins_starts (fst e ++ [125]) t t' Hi); [reflexivity|]. apply (name_plain e Hin).
Qed.

Lemma ins_plain_prefix l : forall p4 o,
  (forall x, In x l -> x <> 92 /\ is_anchor x = false) -> ins (l ++ p4) o ->
  exists o4, o = l ++ o4 /\ ins p4 o4.
Proof.
  induction l as [|x l IH]; intros p4 o Hl Hi.
  - exists o. split; [reflexivity|exact Hi].
  - cbn [app] in Hi. inversion Hi as [|c p' o' Hi'|c p' o' Hc Hi']; subst.
    + destruct (IH p4 o') as (o4 & -> & H4); [intros y Hy; apply Hl; right; exact Hy|exact Hi'|].
      exists o4. split; [reflexivity|exact H4].
    + destruct (Hl x) as [_ Hx]; [left; reflexivity|]. congruence.
Qed.

Lemma ins_blocks_exact p o : ins p o -> blocks_exact o = blocks_exact p.
Proof.
  induction 1 as [|c p o Hi IH|c p o Hc Hi IH].
  - reflexivity.
  - rewrite !blocks_exact_cons, IH, (ins_starts_needle _ _ _ Hi). f_equal.
    destruct (starts_with needle (c :: p)) eqn:Hs; [|reflexivity].
    rewrite starts_needle in Hs. apply andb_true_iff in Hs. destruct Hs as [_ Hs].
    apply starts_with_spec in Hs. destruct Hs as [p4 ->].
    destruct (ins_plain_prefix needle_tail p4 o needle_tail_plain Hi) as (o4 & -> & H4).
    change (skipn 5 (c :: needle_tail ++ o4)) with o4. change (skipn 5 (c :: needle_tail ++ p4)) with p4.
    apply ins_name_exact. exact H4.
  - destruct (anchor_not_needle c o Hc) as [E1 E2]. destruct (anchor_not_needle c p Hc) as [_ E3].
    rewrite (blocks_exact_cons 92), (blocks_exact_cons c o), (blocks_exact_cons c p), E1, E2, E3, IH. reflexivity.
Qed.

Lemma name_exact_facts text : name_exact text = true ->
  exists (e : bytes * bytes) (r : bytes), block_find text = Some e /\ In e ublock2urange /\ text = fst e ++ 125 :: r /\
              length (snd e) = URANGE_LEN.
Proof.
  unfold name_exact. destruct (block_find text) as [e|] eqn:B; [|discriminate]. intro H.
  apply andb_true_iff in H. destruct H as [H1 H2]. apply Nat.eqb_eq in H2.
  apply starts_with_spec in H1. destruct H1 as [r ->]. rewrite <- app_assoc in *. cbn [app] in *.
  exists e, r. destruct (block_find_in _ _ B) as [Hin _]. repeat split; assumption.
Qed.

(* when the first table name that is a prefix of NAME}... is NAME itself, the exact lookup finds the same entry *)
Lemma find_exact (l : list (bytes * bytes)) (e : bytes * bytes) (r : bytes) :
  find (fun x => starts_with (fst x) (fst e ++ 125 :: r)) l = Some e ->
  find (fun x => beq_bytes (fst x) (fst e)) l = Some e.
Proof.
  induction l as [|x l IH]; intro H; [discriminate|].
  cbn [find] in *. destruct (starts_with (fst x) (fst e ++ 125 :: r)) eqn:S.
  - injection H as Hx. rewrite Hx.
    assert (E : beq_bytes (fst e) (fst e) = true) by (apply beq_bytes_eq; reflexivity).
    rewrite E. reflexivity.
  - destruct (beq_bytes (fst x) (fst e)) eqn:E; [|exact (IH H)].
    apply beq_bytes_eq in E. rewrite E, starts_with_app in S. discriminate.
Qed.

Lemma firstn_removelast {A} (l : list A) : forall n, length l = S n -> firstn n l = removelast l.
Proof.
  induction l as [|x l IH]; intros n H; [discriminate|].
  cbn [length] in H. destruct l as [|y l].
  - cbn [length] in H. assert (n = O) by lia. subst n. reflexivity.
  - destruct n as [|n]; [cbn [length] in H; lia|].
    change (removelast (x :: y :: l)) with (x :: removelast (y :: l)). cbn [firstn]. f_equal. apply IH. lia.
Qed.

(* Inv: no two backslashes in a row, every block an exact name *)
Definition inv (s : bytes) : Prop := has_sub bs2 s = false /\ blocks_exact s = true.

(* what one iteration sees on a text that satisfies inv *)
Lemma inv_step_shape s before at_ :
  inv s -> find_sub needle s = Some (before, at_) ->
  exists (e : bytes * bytes) (r : bytes), s = before ++ at_ /\ at_ = needle ++ fst e ++ 125 :: r /\ In e ublock2urange /\
              block_find (skipn 5 at_) = Some e /\ length (snd e) = URANGE_LEN /\
              after_char 125 at_ = Some r /\ has_sub needle before = false /\
              has_sub bs2 before = false.
Proof.
  intros [Hbs Hbe] F.
  destruct (find_sub_some _ _ _ _ needle_nonnil F) as (Es & Hb & Hat).
  subst s. pose proof (blocks_exact_suffix _ _ Hbe) as Hbe2.
  pose proof (blocks_exact_head _ Hbe2 Hat) as Hne.
  destruct (name_exact_facts _ Hne) as (e & r & B & Hin & Et & Hlen).
  apply starts_with_spec in Hat. destruct Hat as [t Eat].
  assert (t = skipn 5 at_) by (rewrite Eat; reflexivity). subst t.
  exists e, r. rewrite Et in Eat.
  destruct (entry_facts e Hin) as (Hname & _ & _).
  repeat split; try assumption.
  - rewrite Eat at 1. rewrite app_assoc. apply after_char_app. apply no125. exact Hname.
  - apply (has_sub_app_false _ _ _ Hbs).
Qed.

Lemma step_eq_spec s : inv s -> chblocks_step s = chblocks_step_spec s.
Proof.
  intro Hinv. unfold chblocks_step, chblocks_step_spec.
  destruct (find_sub needle s) as [[before at_]|] eqn:F; [|reflexivity].
  destruct (inv_step_shape s before at_ Hinv F) as (e & r & Es & Eat & Hin & B & Hlen & A & Hb & Hbs).
  rewrite A, B.
  destruct (entry_facts e Hin) as (Hname & _ & _).
  assert (Ename : before_char 125 (skipn 5 at_) = fst e).
  { rewrite Eat. change (skipn 5 (needle ++ fst e ++ 125 :: r)) with (fst e ++ 125 :: r).
    apply before_char_app. apply forallb_forall. intros x Hx. rewrite forallb_forall in Hname.
    destruct (plainb_facts x (Hname x Hx)) as (_ & _ & _ & H4 & _). lia. }
  rewrite Ename.
  assert (Efind : find (fun x => beq_bytes (fst x) (fst e)) ublock2urange = Some e).
  { apply (find_exact ublock2urange e r). rewrite Eat in B.
    change (skipn 5 (needle ++ fst e ++ 125 :: r)) with (fst e ++ 125 :: r) in B. exact B. }
  rewrite Efind. cbn zeta.
  rewrite (brk_depth before 0 false 0%Z eq_refl) by (rewrite has_sub_bs2_zero; exact Hbs).
  assert (E1 : firstn URANGE_LEN (snd e) = snd e) by (rewrite <- Hlen; apply firstn_all).
  assert (E2 : firstn (URANGE_LEN - 2) (skipn 1 (snd e)) = removelast (skipn 1 (snd e))).
  { apply firstn_removelast. rewrite skipn_length, Hlen. reflexivity. }
  rewrite E1, E2. reflexivity.
Qed.

Lemma bs2_last a x : has_sub bs2 (a ++ 92 :: x) = false -> a <> [] -> last a 0 <> 92.
Proof.
  induction a as [|c a IH]; intros H Ha; [congruence|].
  destruct a as [|c' a].
  - cbn [app] in H. destruct (bs2_head _ _ _ H) as [Hc _]. cbn [last]. rewrite andb_true_r in Hc. lia.
  - cbn [app] in H. rewrite has_sub_cons in H. apply orb_false_iff in H. destruct H as [_ H].
    change (last (c :: c' :: a) 0) with (last (c' :: a) 0). apply IH; [exact H|discriminate].
Qed.

Lemma inv_step s s' : inv s -> chblocks_step s = Some (Ok s') -> inv s'.
Proof.
  intros Hinv St.
  destruct (chblocks_step_ok _ _ St) as (before & at_ & rest & e0 & R & F & A0 & B0 & ER & ->).
  destruct (inv_step_shape s before at_ Hinv F) as (e & r & Es & Eat & Hin & B & Hlen & A & Hb & Hbs).
  assert (e0 = e) by congruence. subst e0. assert (rest = r) by congruence. subst rest.
  destruct Hinv as [Hs2 Hbe].
  destruct (entry_facts e Hin) as (_ & R1 & R2).
  assert (HR : range_ok R = true) by (rewrite ER; destruct (brk_count 0 before 0 =? 0)%Z; assumption).
  destruct (range_ok_facts R HR) as (Hne & HnR & HbR & N1 & N2 & N3).
  rewrite Es, Eat in Hs2, Hbe.
  split.
  - (* no two backslashes in a row *)
    destruct (has_sub_app_false _ _ _ Hs2) as [_ Hs3].
    rewrite app_assoc in Hs3. destruct (has_sub_app_false _ _ _ Hs3) as [_ Hs4].
    assert (Hr : has_sub bs2 r = false).
    { change (125 :: r) with ([125] ++ r) in Hs4. apply (has_sub_app_false _ _ _ Hs4). }
    assert (HRr : has_sub bs2 (R ++ r) = false).
    { rewrite <- (app_nil_l R) at 1. rewrite <- app_assoc.
      rewrite (app_assoc [] R r), has_sub_app by (exact bs2_nonnil || apply N3).
      cbn [app]. rewrite HbR, Hr. reflexivity. }
    destruct before as [|c before]; [exact HRr|].
    rewrite has_sub_app; [rewrite Hbs, HRr; reflexivity|exact bs2_nonnil|].
    apply nostr_by_last; [discriminate|].
    cbn [bs2 removelast In]. intros [E|[]]. symmetry in E. revert E.
    apply (bs2_last (c :: before) (tl needle ++ fst e ++ 125 :: r)); [exact Hs2|discriminate].
  - (* every remaining block is an exact name *)
    rewrite app_assoc. rewrite blocks_exact_app.
    + apply (blocks_exact_suffix (before ++ needle ++ fst e ++ [125]) r).
      rewrite <- !app_assoc. exact Hbe.
    + rewrite <- (app_nil_r R), has_sub_app by (exact needle_nonnil || apply N1).
      rewrite app_nil_r, Hb, HnR. reflexivity.
    + apply N2.
Qed.

Lemma chblocks_eq_spec fuel : forall s, inv s -> chblocks fuel s = chblocks_spec fuel s.
Proof.
  induction fuel as [|f IH]; intros s Hinv; [reflexivity|].
  cbn [chblocks chblocks_spec]. rewrite <- (step_eq_spec s Hinv).
  destruct (chblocks_step s) as [[s'|e]|] eqn:St; try reflexivity.
  apply IH. exact (inv_step s s' Hinv St).
Qed.

(* on every pattern without two backslashes in a row in which each \p{Is is followed by a table
   name that the lookup resolves to itself and by '}', the text handed to PCRE2 is the intended one
   (exact name, whole range, brackets kept iff the properly tracked bracket depth is 0) *)
Theorem rewrite_eq_spec p :
  has_sub bs2 p = false -> blocks_exact p = true -> rewrite p = rewrite_spec p.
Proof.
  intros Hbs Hbe. unfold rewrite, rewrite_spec.
  destruct (esc_pass 0 false p) as [q|e] eqn:E; [|reflexivity].
  cbn [bind]. apply chblocks_eq_spec. split.
  - rewrite <- has_sub_bs2_zero. apply (esc_pass_no_bs2 p 0 0 false q eq_refl); [exact Hbs|exact E].
  - rewrite (ins_blocks_exact _ _ (esc_pass_ins _ _ _ _ E)). exact Hbe.
Qed.

(* ---- list of patterns with invert-match ----------------------------------------------------------- *)
Section ValidateP.
  Variable code : Type.
  Variable code_match : code -> bytes -> res bool.

  (* a pattern restriction is satisfied iff (the string matches) xor (the pattern is inverted) *)
  Definition pat_sat (s : bytes) (p : pattern code) : bool :=
    match code_match (pat_code code p) s with
    | Ok m => xorb m (pat_inverted code p)
    | Err _ => false
    end.

  Lemma validate_patterns_spec ps s :
    (forall p, In p ps -> is_ok (code_match (pat_code code p) s) = true) ->
    validate_patterns code code_match ps s = Ok (forallb (pat_sat s) ps).
  Proof.
    induction ps as [|p ps IH]; intro Hok; [reflexivity|].
    cbn [validate_patterns forallb]. unfold pat_sat at 1.
    assert (Hp : is_ok (code_match (pat_code code p) s) = true) by (apply Hok; left; reflexivity).
    destruct (code_match (pat_code code p) s) as [m|e]; [|discriminate].
    destruct m, (pat_inverted code p); cbn [negb andb orb xorb];
      try reflexivity; apply IH; intros q Hq; apply Hok; right; exact Hq.
  Qed.

  Lemma validate_patterns_err ps s e :
    validate_patterns code code_match ps s = Err e ->
    exists p, In p ps /\ code_match (pat_code code p) s = Err e.
  Proof.
    induction ps as [|p ps IH]; cbn [validate_patterns]; [discriminate|].
    destruct (code_match (pat_code code p) s) as [m|e'] eqn:Hm.
    - destruct ((negb m && negb (pat_inverted code p)) || (m && pat_inverted code p)); [discriminate|].
      intro H. destruct (IH H) as (q & Hq & He). exists q. split; [right; exact Hq|exact He].
    - intro H. inversion H; subst e'. exists p. split; [left; reflexivity|exact Hm].
  Qed.

  (* a typedef chain compiles to the patterns of all its levels in order, each with its own flag *)
  Lemma chain_patterns_flat levels : forall base,
    chain_patterns code base levels
    = base ++ map (fun q => {| pat_code := snd q; pat_inverted := fst q |}) (concat levels).
  Proof.
    induction levels as [|l ls IH]; intro base; cbn [chain_patterns concat map].
    - rewrite app_nil_r. reflexivity.
    - rewrite IH. unfold compile_type_patterns. rewrite map_app, app_assoc. reflexivity.
  Qed.

  Lemma validate_chain levels s :
    (forall q, In q (concat levels) -> is_ok (code_match (snd q) s) = true) ->
    validate_patterns code code_match (chain_patterns code [] levels) s
    = Ok (forallb (fun q => match code_match (snd q) s with
                            | Ok m => xorb m (fst q)
                            | Err _ => false
                            end) (concat levels)).
  Proof.
    intro Hok. rewrite chain_patterns_flat. cbn [app]. rewrite validate_patterns_spec.
    - f_equal. clear Hok. generalize (concat levels). intro l.
      induction l as [|q l IH]; [reflexivity|].
      cbn [map forallb]. rewrite IH. unfold pat_sat. cbn [pat_code pat_inverted]. reflexivity.
    - intros p Hp. apply in_map_iff in Hp. destruct Hp as (q & <- & Hq). cbn [pat_code]. apply Hok. exact Hq.
  Qed.

  (* ---- string types over a typedef chain: (optional length, patterns) per level ------------------ *)
  (* the effective length: the statement of the last level that has one *)
  Fixpoint last_length (cur : option length_restr) (levels : list (option length_restr * list (bool * code))) : option length_restr :=
    match levels with
    | [] => cur
    | l :: ls => last_length (match fst l with Some r => Some r | None => cur end) ls
    end.

  Lemma chain_type_flat levels : forall base,
    st_patterns code (chain_type code base levels)
    = st_patterns code base ++ map (fun q => {| pat_code := snd q; pat_inverted := fst q |}) (concat (map snd levels))
    /\ st_length code (chain_type code base levels) = last_length (st_length code base) levels.
  Proof.
    induction levels as [|l ls IH]; intro base; cbn [chain_type map concat last_length].
    - rewrite app_nil_r. split; reflexivity.
    - destruct (IH (compile_string_type code base l)) as [IHp IHl]. rewrite IHp, IHl.
      unfold compile_string_type. cbn [st_patterns st_length]. split; [|reflexivity].
      destruct (snd l) as [|q ps] eqn:E.
      + reflexivity.
      + unfold compile_type_patterns. rewrite map_app, app_assoc. reflexivity.
  Qed.

  Lemma validate_string_chain levels n s :
    (forall q, In q (concat (map snd levels)) -> is_ok (code_match (snd q) s) = true) ->
    validate_string code code_match (chain_type code (string_builtin code) levels) n s
    = Ok ((match last_length None levels with Some r => in_length r n | None => true end) &&
          forallb (fun q => match code_match (snd q) s with
                            | Ok m => xorb m (fst q)
                            | Err _ => false
                            end) (concat (map snd levels))).
  Proof.
    intro Hok. unfold validate_string.
    destruct (chain_type_flat levels (string_builtin code)) as [Hp Hl]. cbn [string_builtin st_patterns st_length app] in Hp, Hl.
    rewrite Hp, Hl.
    assert (V : validate_patterns code code_match
                  (map (fun q => {| pat_code := snd q; pat_inverted := fst q |}) (concat (map snd levels))) s
                = Ok (forallb (fun q => match code_match (snd q) s with
                                        | Ok m => xorb m (fst q)
                                        | Err _ => false
                                        end) (concat (map snd levels)))).
    { rewrite validate_patterns_spec.
      - f_equal. clear Hok Hp Hl. generalize (concat (map snd levels)). intro l.
        induction l as [|q l IH]; [reflexivity|].
        cbn [map forallb]. rewrite IH. unfold pat_sat. cbn [pat_code pat_inverted]. reflexivity.
      - intros p Hin. apply in_map_iff in Hin. destruct Hin as (q & <- & Hq). cbn [pat_code]. apply Hok. exact Hq. }
    destruct (last_length None levels) as [r|].
    - destruct (in_length r n); [rewrite V; reflexivity|reflexivity].
    - rewrite V. reflexivity.
  Qed.
End ValidateP.

(* ---- patterns that the first pass leaves alone ---------------------------------------------------- *)
(* every '^' / '$' of p stands inside brackets or directly after an unescaped backslash; brack and escaped are the
   state of the loop of lys_compile_type_pattern_check() (esc_end) *)
Fixpoint anchors_protected (brack : N) (escaped : bool) (p : bytes) : bool :=
  match p with
  | [] => true
  | c :: p' =>
      if c =? 92 then anchors_protected brack (negb escaped) p'
      else if is_anchor c then negb ((brack =? 0) && negb escaped) && anchors_protected brack false p'
      else if c =? 91 then anchors_protected (if escaped then brack else brack + 1) false p'
      else if c =? 93 then anchors_protected (if escaped then brack else brack - 1) false p'
      else anchors_protected brack false p'
  end.

Lemma esc_pass_protected p : forall brack escaped,
  anchors_protected brack escaped p = true ->
  esc_pass brack escaped p = Ok p \/ esc_pass brack escaped p = Err 1.
Proof.
  induction p as [|c p IH]; intros brack escaped H; [left; reflexivity|].
  cbn [anchors_protected] in H. cbn [esc_pass].
  destruct (c =? 92) eqn:H92.
  { apply N.eqb_eq in H92. subst c. destruct (IH _ _ H) as [-> | ->]; [left|right]; reflexivity. }
  destruct (is_anchor c) eqn:Hanc.
  { apply andb_true_iff in H. destruct H as [Hp H]. apply negb_true_iff in Hp.
    destruct (IH _ _ H) as [-> | ->]; [left|right]; cbn [bind]; [rewrite Hp|]; reflexivity. }
  destruct (c =? 91) eqn:H91.
  { destruct (IH _ _ H) as [-> | ->]; [left|right]; reflexivity. }
  destruct (c =? 93) eqn:H93.
  { destruct ((brack =? 0) && negb escaped); [right; reflexivity|].
    destruct (IH _ _ H) as [-> | ->]; [left|right]; reflexivity. }
  destruct (IH _ _ H) as [-> | ->]; [left|right]; reflexivity.
Qed.

(* conversely: when the first pass returns the pattern itself, every anchor was protected *)
Lemma esc_pass_fix_protected p : forall brack escaped,
  esc_pass brack escaped p = Ok p -> anchors_protected brack escaped p = true.
Proof.
  induction p as [|c p IH]; intros brack escaped H; [reflexivity|].
  cbn [esc_pass] in H. cbn [anchors_protected].
  destruct (c =? 92) eqn:H92.
  { apply bind_ok in H. destruct H as (u & Hu & Hq). inversion Hq; subst u. exact (IH _ _ Hu). }
  destruct (is_anchor c) eqn:Hanc.
  { apply bind_ok in H. destruct H as (u & Hu & Hq).
    destruct ((brack =? 0) && negb escaped) eqn:Hins.
    - inversion Hq. subst c. discriminate.
    - inversion Hq; subst u. cbn [negb andb]. exact (IH _ _ Hu). }
  destruct (c =? 91) eqn:H91.
  { apply bind_ok in H. destruct H as (u & Hu & Hq). inversion Hq; subst u. exact (IH _ _ Hu). }
  destruct (c =? 93) eqn:H93.
  { destruct ((brack =? 0) && negb escaped); [discriminate|].
    apply bind_ok in H. destruct H as (u & Hu & Hq). inversion Hq; subst u. exact (IH _ _ Hu). }
  apply bind_ok in H. destruct H as (u & Hu & Hq). inversion Hq; subst u. exact (IH _ _ Hu).
Qed.

Lemma noanchor_protected p : forall brack escaped,
  (forall c, In c p -> is_anchor c = false) -> anchors_protected brack escaped p = true.
Proof.
  induction p as [|c p IH]; intros brack escaped H; [reflexivity|].
  cbn [anchors_protected]. rewrite (H c) by (left; reflexivity).
  assert (H' : forall c', In c' p -> is_anchor c' = false) by (intros c' Hc; apply H; right; exact Hc).
  destruct (c =? 92); [apply IH; exact H'|]. destruct (c =? 91); [apply IH; exact H'|].
  destruct (c =? 93); apply IH; exact H'.
Qed.

(* a pattern without \p{Is reaches pcre2_compile() unchanged (or is rejected for a stray ']') IF every '^' / '$' in it
   stands inside brackets or is escaped, and ONLY IF: when the text handed over is the pattern itself, that is so *)
Theorem rewrite_identity_iff p :
  find_sub needle p = None ->
  (anchors_protected 0 false p = true -> rewrite p = Ok p \/ rewrite p = Err 1) /\
  (rewrite p = Ok p -> anchors_protected 0 false p = true).
Proof.
  intro Hn. split.
  - intro Hp. unfold rewrite. destruct (esc_pass_protected p 0 false Hp) as [-> | ->]; [left|right; reflexivity].
    cbn [bind]. apply chblocks_noblock. exact Hn.
  - unfold rewrite. intro H. destruct (esc_pass 0 false p) as [q|e] eqn:E; [|discriminate].
    cbn [bind] in H.
    assert (Hq : find_sub needle q = None).
    { apply find_sub_none. rewrite (ins_has_sub _ _ (esc_pass_ins _ _ _ _ E)). apply find_sub_none. exact Hn. }
    rewrite (chblocks_noblock (length q) q Hq) in H. inversion H; subst q.
    exact (esc_pass_fix_protected p 0 false E).
Qed.

(* ---- regression variants: the code as it was under two seeded changes ------------------------------ *)
(* seed C18-1: whether '^' / '$' outside brackets still needs a backslash is decided from the previously WRITTEN byte
   (is it a backslash) instead of from the escaped state *)
Fixpoint esc_pass_prevout (brack : N) (escaped : bool) (prev : N) (p : bytes) : res bytes :=
  match p with
  | [] => Ok []
  | c :: p' =>
      if c =? 92 then bind (esc_pass_prevout brack (negb escaped) 92 p') (fun o => Ok (92 :: o))
      else if is_anchor c then
        bind (esc_pass_prevout brack false c p')
             (fun o => Ok (if (brack =? 0) && negb (prev =? 92) then 92 :: c :: o else c :: o))
      else if c =? 91 then
        bind (esc_pass_prevout (if escaped then brack else brack + 1) false c p') (fun o => Ok (c :: o))
      else if c =? 93 then
        if (brack =? 0) && negb escaped then Err 1
        else bind (esc_pass_prevout (if escaped then brack else brack - 1) false c p') (fun o => Ok (c :: o))
      else bind (esc_pass_prevout brack false c p') (fun o => Ok (c :: o))
  end.

(* seed C18-4: the bracket counter of the block rewrite is initialised once, not before every rescan: the count of
   one iteration is the start value of the next *)
Definition chblocks_step_carry (acc : Z) (s : bytes) : option (res (bytes * Z)) :=
  match find_sub needle s with
  | None => None
  | Some (before, at_) =>
      match after_char 125 at_ with
      | None => Some (Err 2)
      | Some rest =>
          match block_find (skipn 5 at_) with
          | None => Some (Err 3)
          | Some e =>
              let cnt := brk_count 0 before acc in
              if (cnt =? 0)%Z then Some (Ok (before ++ firstn URANGE_LEN (snd e) ++ rest, cnt))
              else Some (Ok (before ++ firstn (URANGE_LEN - 2) (skipn 1 (snd e)) ++ rest, cnt))
          end
      end
  end.

Fixpoint chblocks_carry (fuel : nat) (acc : Z) (s : bytes) : res bytes :=
  match fuel with
  | O => Err 9
  | S f => match chblocks_step_carry acc s with
           | None => Ok s
           | Some (Err e) => Err e
           | Some (Ok (s', acc')) => chblocks_carry f acc' s'
           end
  end.
